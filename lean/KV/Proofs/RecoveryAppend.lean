import KV.Props.C15
/-! C05, torn tail → run on → second crash: what is appended to the WAL after a restart is readable
iff the restart first cut the log back to a record boundary (OnStart's repair). Byte-level model and
theorems of C15 (`KV/Model/Wal.lean`, `repair_longest_prefix`, `garbage_tail`). -/
namespace KV.Wal

/-- every message the decoder accepts is a valid payload (non-empty, within the limit, parsed) -/
theorem decodeAll_valid (c : Cfg) (hempty : c.parse [] = none) :
    ∀ s : Bytes, ∀ d ∈ (decodeAll c .file s).1, Valid c d := by
  intro s
  generalize hn : s.length = n
  induction n using Nat.strongRecOn generalizing s with
  | _ n ih =>
    intro d hd
    cases hdec : decode c .file s with
    | eof => rw [decodeAll_eof c _ s hdec] at hd; cases hd
    | corrupt r => rw [decodeAll_corrupt c _ s r hdec] at hd; cases hd
    | msg x rest =>
      rw [decodeAll_msg c _ s x rest hdec] at hd
      obtain ⟨_, _, _, hxm, _, _, hxp⟩ := decode_msg_inv c .file s x rest hdec
      rcases List.mem_cons.mp hd with h | h
      · subst h
        refine ⟨?_, hxm, hxp⟩
        intro h0; rw [h0] at hxp; exact hxp hempty
      · exact ih rest.length (by have := decode_msg_lt c .file s hdec; omega) rest rfl d h

/-- **append_after_repair_readable.** Whatever the crash left in the file (`src`: any bytes - a torn
last record, garbage), after `repairWalFile` the records appended by the next life (`news`) are read
back, by every reader, right after the records that survived: nothing written after the restart
can be hidden by the damage. -/
theorem append_after_repair_readable (c : Cfg) (k : RKind) (src : Bytes) (news : List Bytes)
    (hmax : c.max < 4294967296) (hcanon : ∀ p, c.parse p ≠ none → c.reser p = p)
    (hempty : c.parse [] = none) (hnew : ∀ d ∈ news, Valid c d) :
    decodeAll c k ((repair c src).1 ++ frames c news) = ((decodeAll c .file src).1 ++ news, .eof) := by
  have hr := (repair_longest_prefix c k src hmax hcanon hempty).1
  rw [hr]
  rw [garbage_tail c k _ _ hmax (decodeAll_valid c hempty src)]
  have := decodeAll_frames c k news [] hmax hnew
  simp only [List.append_nil, decodeAll_nil] at this
  rw [this]

/-- **append_after_torn_tail_unreadable_counterexample.** Without the truncation (a decoder that
reports a torn last record as a clean end of log, so that OnStart does not repair): the log holds
one record, then 9 of the 11 bytes of a second record (torn), then - appended by the next life - a
complete `#ENDHEIGHT` record. Reading returns the first record and then reports corruption: the
appended record is never returned; the repair that a LATER restart performs cuts it off. -/
theorem append_after_torn_tail_unreadable_counterexample :
    decodeAll cfgT .group (frames cfgT [[1, 2, 3]] ++ ((frame cfgT [1, 2, 3]).take 9 ++ frames cfgT [[9]]))
      = ([[1, 2, 3]], .corrupt) ∧
    (repair cfgT (frames cfgT [[1, 2, 3]] ++ ((frame cfgT [1, 2, 3]).take 9 ++ frames cfgT [[9]]))).1
      = frames cfgT [[1, 2, 3]] := by
  have hv : ∀ d ∈ ([[1, 2, 3]] : List Bytes), Valid cfgT d := by
    intro d hd; exact cfgT_valid d (by simp at hd; subst hd; simp)
  have hmax : cfgT.max < 4294967296 := by decide
  have tail : ∀ k, decodeAll cfgT k ((frame cfgT [1, 2, 3]).take 9 ++ frames cfgT [[9]]) = ([], .corrupt) := by
    intro k
    cases k with
    | group =>
      obtain ⟨x, hx⟩ := Res.of_isCorrupt
        (r := decode cfgT .group ((frame cfgT [1, 2, 3]).take 9 ++ frames cfgT [[9]])) (by decide +kernel)
      exact decodeAll_corrupt _ _ _ x hx
    | file =>
      obtain ⟨x, hx⟩ := Res.of_isCorrupt
        (r := decode cfgT .file ((frame cfgT [1, 2, 3]).take 9 ++ frames cfgT [[9]])) (by decide +kernel)
      exact decodeAll_corrupt _ _ _ x hx
    | bytes =>
      obtain ⟨x, hx⟩ := Res.of_isCorrupt
        (r := decode cfgT .bytes ((frame cfgT [1, 2, 3]).take 9 ++ frames cfgT [[9]])) (by decide +kernel)
      exact decodeAll_corrupt _ _ _ x hx
  constructor
  · rw [garbage_tail cfgT .group _ _ hmax hv, tail]; rfl
  · have hr := (repair_longest_prefix cfgT .file
      (frames cfgT [[1, 2, 3]] ++ ((frame cfgT [1, 2, 3]).take 9 ++ frames cfgT [[9]])) hmax
      (by intro p _; rfl) (by decide)).1
    rw [hr, garbage_tail cfgT .file _ _ hmax hv, tail]
    simp

/-- **append_after_short_fragment_unreadable_old_rule** (F38, regression). The log holds one record
and the first 2 bytes of a second one (a write torn inside the checksum field).
OLD rule (`decodeAllOld`: the group reader's `(2, io.EOF)` taken for the end of the log): the
restart reads a clean end — no repair —, the next life appends a complete `#ENDHEIGHT` record behind
the two stray bytes, and from then on every reader (old or new rule) returns the first record and
reports corruption: the appended record is never returned, and the repair of a LATER restart cuts it
off. NEW rule: the fragment is reported corrupt, `repairWalFile` cuts it off, and what is appended
is read back. -/
theorem append_after_short_fragment_unreadable_old_rule :
    decodeAllOld cfgT .group (frames cfgT [[1, 2, 3]] ++ (frame cfgT [1, 2, 3]).take 2)
      = ([[1, 2, 3]], .eof) ∧
    decodeAllOld cfgT .group
        (frames cfgT [[1, 2, 3]] ++ ((frame cfgT [1, 2, 3]).take 2 ++ frames cfgT [[9]]))
      = ([[1, 2, 3]], .corrupt) ∧
    decodeAll cfgT .group
        (frames cfgT [[1, 2, 3]] ++ ((frame cfgT [1, 2, 3]).take 2 ++ frames cfgT [[9]]))
      = ([[1, 2, 3]], .corrupt) ∧
    (repair cfgT (frames cfgT [[1, 2, 3]] ++ ((frame cfgT [1, 2, 3]).take 2 ++ frames cfgT [[9]]))).1
      = frames cfgT [[1, 2, 3]] ∧
    decodeAll cfgT .group (frames cfgT [[1, 2, 3]] ++ (frame cfgT [1, 2, 3]).take 2)
      = ([[1, 2, 3]], .corrupt) ∧
    decodeAll cfgT .group
        ((repair cfgT (frames cfgT [[1, 2, 3]] ++ (frame cfgT [1, 2, 3]).take 2)).1 ++ frames cfgT [[9]])
      = ([[1, 2, 3], [9]], .eof) := by
  have hv : ∀ d ∈ ([[1, 2, 3]] : List Bytes), Valid cfgT d := by
    intro d hd; exact cfgT_valid d (by simp at hd; subst hd; simp)
  have hv9 : ∀ d ∈ ([[9]] : List Bytes), Valid cfgT d := by
    intro d hd; exact cfgT_valid d (by simp at hd; subst hd; simp)
  have hmax : cfgT.max < 4294967296 := by decide
  have hcanon : ∀ p, cfgT.parse p ≠ none → cfgT.reser p = p := by intro p _; rfl
  have hempty : cfgT.parse [] = none := by decide
  have tail : ∀ k, decodeAll cfgT k ((frame cfgT [1, 2, 3]).take 2 ++ frames cfgT [[9]]) = ([], .corrupt) := by
    intro k
    cases k with
    | group =>
      obtain ⟨x, hx⟩ := Res.of_isCorrupt
        (r := decode cfgT .group ((frame cfgT [1, 2, 3]).take 2 ++ frames cfgT [[9]])) (by decide +kernel)
      exact decodeAll_corrupt _ _ _ x hx
    | file =>
      obtain ⟨x, hx⟩ := Res.of_isCorrupt
        (r := decode cfgT .file ((frame cfgT [1, 2, 3]).take 2 ++ frames cfgT [[9]])) (by decide +kernel)
      exact decodeAll_corrupt _ _ _ x hx
    | bytes =>
      obtain ⟨x, hx⟩ := Res.of_isCorrupt
        (r := decode cfgT .bytes ((frame cfgT [1, 2, 3]).take 2 ++ frames cfgT [[9]])) (by decide +kernel)
      exact decodeAll_corrupt _ _ _ x hx
  have hfne : (frame cfgT [1, 2, 3]).take 2 ≠ [] := by simp [frame, be32]
  have hfile : (decodeAll cfgT .file (frames cfgT [[1, 2, 3]] ++ (frame cfgT [1, 2, 3]).take 2)).1
      = [[1, 2, 3]] := by
    obtain ⟨r, hr⟩ := decode_torn_header cfgT .file ((frame cfgT [1, 2, 3]).take 2) hempty hfne
      (by simp [frame, be32])
    rw [garbage_tail cfgT .file _ _ hmax hv, decodeAll_corrupt _ _ _ r hr]
    rfl
  refine ⟨by decide +kernel, by decide +kernel, ?_, ?_, ?_, ?_⟩
  · rw [garbage_tail cfgT .group _ _ hmax hv, tail]; rfl
  · have hr := (repair_longest_prefix cfgT .file
      (frames cfgT [[1, 2, 3]] ++ ((frame cfgT [1, 2, 3]).take 2 ++ frames cfgT [[9]])) hmax
      hcanon hempty).1
    rw [hr, garbage_tail cfgT .file _ _ hmax hv, tail]
    simp
  · rw [decodeAll_frames cfgT .group _ _ hmax hv,
      decodeAll_torn_group_corrupt cfgT [1, 2, 3] _ ((frame cfgT [1, 2, 3]).drop 2) (by decide)
        (List.take_append_drop 2 _) hfne (by simp [frame, be32])]
    rfl
  · rw [append_after_repair_readable cfgT .group _ [[9]] hmax hcanon hempty hv9, hfile]
    rfl

end KV.Wal
