import KV.Proofs.CsSyncByzTrans
/-! Votes for the round itself after the node prevoted (C04, synchronous round with Byzantine
inputs): stages `B1`, `B2`.  Core Lean only. -/
namespace KV.Cs.Sync

section
variable (cfg : Config) (F : Nat → Bool) (h r pol b : Nat)

/-- `B1` without "no +2/3 prevotes for `b` yet" -/
structure Q1 (σ : State) : Prop where
  base : BBase cfg F h r pol σ
  st : σ.step = .prevote ∨ σ.step = .prevoteWait
  prop : σ.proposal = some ⟨r, pol, b⟩
  pb : σ.pblock = some ⟨b, true⟩
  parts : σ.parts = some (b, true)
  lk : σ.locked = none ∨ σ.locked = some ⟨b, true⟩
  pvO : CorrOnly F b (slotsV σ.votes .prevote h r)
  pcE : CorrEmpty F (slotsV σ.votes .precommit h r)
  sgv : Action.signVote .prevote h r (some b) ∈ σ.log

theorem B1.q1 {σ : State} (S : B1 cfg F h r pol b σ) : Q1 cfg F h r pol b σ :=
  ⟨S.base, S.st, S.prop, S.pb, S.parts, S.lk, S.pvO, S.pcE, S.sgv⟩

theorem Q1.stored {σ : State} (S : Q1 cfg F h r pol b σ) (t : VType) (idx : Nat) (tgt : Target)
    (hj : F idx = false → t = .prevote ∧ tgt = some b) : Q1 cfg F h r pol b (stored t idx tgt h r σ) := by
  refine ⟨S.base.stored .., S.st, S.prop, S.pb, S.parts, S.lk, ?_, ?_, S.sgv⟩
  · show CorrOnly F b (slotsV (σ.votes.map _) .prevote h r)
    rw [slotsV_setSlot]; split
    · exact S.pvO.set idx _ (fun hF => (hj hF).2)
    · exact S.pvO
  · show CorrEmpty F (slotsV (σ.votes.map _) .precommit h r)
    rw [slotsV_setSlot]; split
    · rename_i hc
      cases hF : F idx with
      | true => exact S.pcE.set idx _ hF
      | false => have := (hj hF).1; rw [this] at hc; exact absurd hc.2.2 (by decide)
    · exact S.pcE

/-- the prevote branch before the node precommitted: nothing, PrevoteWait, or (polka for `b`) the
node locks `b` and precommits it -/
theorem q1_afterPrevote {τ : State} (P : Q1 cfg F h r pol b τ) (fm : FaultyMinority cfg.powers F)
    (hv : isVal cfg = true) (nb : Option Nat) :
    (B1 cfg F h r pol b (afterPrevote cfg nb r τ) ∨
      (B2 cfg F h r pol b (afterPrevote cfg nb r τ) ∧
        CorrEmpty F (slotsV (afterPrevote cfg nb r τ).votes .precommit h r))) ∧
    (afterPrevote cfg nb r τ).votes = τ.votes := by
  obtain ⟨⟨nh, hh, hr, pol', exr, pvLen, pcLen, fut⟩, st, prop, pb, parts, lk, pvO, pcE, sgv⟩ := P
  subst hh
  have hs4 : 4 ≤ τ.step.toNat := by rcases st with s | s <;> rw [s] <;> decide
  have hs6 : τ.step.toNat < 6 := by rcases st with s | s <;> rw [s] <;> decide
  cases hmaj : isMaj cfg.powers (slotsV τ.votes .prevote τ.height r) (some b) with
  | false =>
    have hm : maj23 cfg.powers (slotsV τ.votes .prevote τ.height r) = none := by
      rw [maj23_corrOnly pvO fm, if_neg (by simp [hmaj])]
    rw [afterPrevote_noMaj cfg nb r τ hm hr hs4]
    split
    · rcases st with s | s
      · rw [enterPrevoteWait_fires τ.height r τ rfl hr (by rw [s]; decide)]
        exact ⟨Or.inl ⟨⟨nh, rfl, rfl, pol', exr, pvLen, pcLen, fut⟩, Or.inr rfl, prop, pb, parts, lk, pvO, hmaj, pcE,
          List.mem_cons_of_mem _ sgv⟩, rfl⟩
      · rw [enterPrevoteWait_noop τ.height r τ hr (by rw [s]; decide)]
        exact ⟨Or.inl ⟨⟨nh, rfl, hr, pol', exr, pvLen, pcLen, fut⟩, Or.inr s, prop, pb, parts, lk, pvO, hmaj, pcE, sgv⟩, rfl⟩
    · exact ⟨Or.inl ⟨⟨nh, rfl, hr, pol', exr, pvLen, pcLen, fut⟩, st, prop, pb, parts, lk, pvO, hmaj, pcE, sgv⟩, rfl⟩
  | true =>
    have hm : maj23 cfg.powers (slotsV τ.votes .prevote τ.height r) = some (some b) := by
      rw [maj23_corrOnly pvO fm, if_pos hmaj]
    rw [afterPrevote_eq, hm]
    simp only [polkaUpdate]
    rw [polkaUnlock_same r b τ lk]
    obtain ⟨vr', vb, e⟩ := polkaValid_have r b τ pb parts
    rw [e]
    rw [prevoteSwitch_polka cfg nb τ.height r (some b) _ { τ with validRound := vr', validB := vb } hr
      (by exact hs4)
      (isProposalComplete_of (h := τ.height) (r := r) (pol := pol) (b := b) prop pb rfl pol')]
    rw [enterPrecommit_fires cfg τ.height r { τ with validRound := vr', validB := vb } rfl hr (by exact hs6)]
    rw [doPrecommit_lock cfg r b { τ with validRound := vr', validB := vb } hv hm lk pb]
    refine ⟨Or.inr ⟨⟨⟨nh, rfl, rfl, pol', exr, pvLen, pcLen, fut⟩, rfl, prop, pb, parts, rfl, pvO, pcE.only b,
      isMaj_corrEmpty pcE fm _, ?_⟩, pcE⟩, rfl⟩
    show _ ∈ _ :: τ.log
    rw [show State.round _ = τ.round from rfl, hr]
    exact List.mem_cons_self ..

theorem B2.stored {σ : State} (S : B2 cfg F h r pol b σ) (idx : Nat) (tgt : Target)
    (hj : F idx = false → tgt = some b) : B2 cfg F h r pol b (stored .prevote idx tgt h r σ) := by
  refine ⟨S.base.stored .., S.st, S.prop, S.pb, S.parts, S.lk, ?_, ?_, ?_, S.sg⟩
  · show CorrOnly F b (slotsV (σ.votes.map _) .prevote h r)
    rw [slotsV_setSlot_same]; exact S.pvO.set idx _ hj
  · show CorrOnly F b (slotsV (σ.votes.map _) .precommit h r)
    rw [slotsV_setSlot_ty _ _ _ _ _ _ _ _ _ (by decide)]; exact S.pcO
  · show isMaj cfg.powers (slotsV (σ.votes.map _) .precommit h r) (some b) = false
    rw [slotsV_setSlot_ty _ _ _ _ _ _ _ _ _ (by decide)]; exact S.pcNo

/-- the prevote branch after the node precommitted changes nothing but `Valid*` -/
theorem b2_afterPrevote {τ : State} (S : B2 cfg F h r pol b τ) (fm : FaultyMinority cfg.powers F)
    (nb : Option Nat) :
    B2 cfg F h r pol b (afterPrevote cfg nb r τ) ∧ (afterPrevote cfg nb r τ).votes = τ.votes := by
  obtain ⟨⟨nh, hh, hr, pol', exr, pvLen, pcLen, fut⟩, st, prop, pb, parts, lk, pvO, pcO, pcNo, sg⟩ := S
  subst hh
  cases hmaj : isMaj cfg.powers (slotsV τ.votes .prevote τ.height r) (some b) with
  | false =>
    have hm : maj23 cfg.powers (slotsV τ.votes .prevote τ.height r) = none := by
      rw [maj23_corrOnly pvO fm, if_neg (by simp [hmaj])]
    rw [afterPrevote_noMaj cfg nb r τ hm hr (by rw [st]; decide)]
    split
    · rw [enterPrevoteWait_noop τ.height r τ hr (by rw [st]; decide)]
      exact ⟨⟨⟨nh, rfl, hr, pol', exr, pvLen, pcLen, fut⟩, st, prop, pb, parts, lk, pvO, pcO, pcNo, sg⟩, rfl⟩
    · exact ⟨⟨⟨nh, rfl, hr, pol', exr, pvLen, pcLen, fut⟩, st, prop, pb, parts, lk, pvO, pcO, pcNo, sg⟩, rfl⟩
  | true =>
    have hm : maj23 cfg.powers (slotsV τ.votes .prevote τ.height r) = some (some b) := by
      rw [maj23_corrOnly pvO fm, if_pos hmaj]
    rw [afterPrevote_eq, hm]
    simp only [polkaUpdate]
    rw [polkaUnlock_same r b τ (Or.inr lk)]
    obtain ⟨vr', vb, e⟩ := polkaValid_have r b τ pb parts
    rw [e]
    rw [prevoteSwitch_polka cfg nb τ.height r (some b) _ { τ with validRound := vr', validB := vb } hr
      (by rw [show State.step _ = τ.step from rfl, st]; decide)
      (isProposalComplete_of (h := τ.height) (r := r) (pol := pol) (b := b) prop pb rfl pol')]
    rw [enterPrecommit_noop cfg τ.height r { τ with validRound := vr', validB := vb } hr
      (by rw [show State.step _ = τ.step from rfl, st]; decide)]
    exact ⟨⟨⟨nh, rfl, hr, pol', exr, pvLen, pcLen, fut⟩, st, prop, pb, parts, lk, pvO, pcO, pcNo, sg⟩, rfl⟩

/-- `B2` without "no +2/3 precommits for `b` yet" -/
structure Q2 (σ : State) : Prop where
  base : BBase cfg F h r pol σ
  st : σ.step = .precommit
  prop : σ.proposal = some ⟨r, pol, b⟩
  pb : σ.pblock = some ⟨b, true⟩
  parts : σ.parts = some (b, true)
  lk : σ.locked = some ⟨b, true⟩
  pvO : CorrOnly F b (slotsV σ.votes .prevote h r)
  pcO : CorrOnly F b (slotsV σ.votes .precommit h r)
  sg : Action.signVote .precommit h r (some b) ∈ σ.log

theorem B2.stored_pc {σ : State} (S : B2 cfg F h r pol b σ) (idx : Nat) (tgt : Target)
    (hj : F idx = false → tgt = some b) : Q2 cfg F h r pol b (Sync.stored .precommit idx tgt h r σ) := by
  refine ⟨S.base.stored .., S.st, S.prop, S.pb, S.parts, S.lk, ?_, ?_, S.sg⟩
  · show CorrOnly F b (slotsV (σ.votes.map _) .prevote h r)
    rw [slotsV_setSlot_ty _ _ _ _ _ _ _ _ _ (by decide)]; exact S.pvO
  · show CorrOnly F b (slotsV (σ.votes.map _) .precommit h r)
    rw [slotsV_setSlot_same]; exact S.pcO.set idx _ hj

/-- the precommit branch: nothing, PrecommitWait, or (+2/3 for `b`) the node commits `b` -/
theorem q2_afterPrecommit {τ : State} (P : Q2 cfg F h r pol b τ) (fm : FaultyMinority cfg.powers F)
    (nb : Option Nat) :
    (isMaj cfg.powers (slotsV τ.votes .precommit h r) (some b) = false ∧
      B2 cfg F h r pol b (afterPrecommit cfg nb r τ) ∧ (afterPrecommit cfg nb r τ).votes = τ.votes) ∨
    (isMaj cfg.powers (slotsV τ.votes .precommit h r) (some b) = true ∧
      Action.commit h b ∈ (afterPrecommit cfg nb r τ).log) := by
  obtain ⟨⟨nh, hh, hr, pol', exr, pvLen, pcLen, fut⟩, st, prop, pb, parts, lk, pvO, pcO, sg⟩ := P
  subst hh
  cases hmaj : isMaj cfg.powers (slotsV τ.votes .precommit τ.height r) (some b) with
  | false =>
    left
    refine ⟨rfl, ?_⟩
    have hm : maj23 cfg.powers (slotsV τ.votes .precommit τ.height r) = none := by
      rw [maj23_corrOnly pcO fm, if_neg (by simp [hmaj])]
    rw [afterPrecommit_noMaj cfg nb r τ hm hr (by rw [st]; decide)]
    split
    · rw [enterPrecommitWait_cases τ.height r τ rfl hr]
      split
      · exact ⟨⟨⟨nh, rfl, hr, pol', exr, pvLen, pcLen, fut⟩, st, prop, pb, parts, lk, pvO, pcO, hmaj, sg⟩, rfl⟩
      · exact ⟨⟨⟨nh, rfl, hr, pol', exr, pvLen, pcLen, fut⟩, st, prop, pb, parts, lk, pvO, pcO, hmaj,
          List.mem_cons_of_mem _ sg⟩, rfl⟩
    · exact ⟨⟨⟨nh, rfl, hr, pol', exr, pvLen, pcLen, fut⟩, st, prop, pb, parts, lk, pvO, pcO, hmaj, sg⟩, rfl⟩
  | true =>
    right
    refine ⟨rfl, ?_⟩
    have hm : maj23 cfg.powers (slotsV τ.votes .precommit τ.height r) = some (some b) := by
      rw [maj23_corrOnly pcO fm, if_pos hmaj]
    rw [afterPrecommit_commit cfg nb r b τ hm hr st]
    exact enterCommit_log cfg τ.height r b τ rfl st hm lk

/-! ### the votes of the round, by stage -/

/-- the slot of a correct validator whose vote for `b` was just delivered is filled -/
def Filled (t : VType) (idx : Nat) (sigok : Bool) (σ' : State) : Prop :=
  F idx = false → sigok = true → idx < n cfg → (slotsV σ'.votes t h r)[idx]? = some (some (some b))

/-- **a prevote for the round before the node precommitted** (a faulty validator's, or a correct
one's for `b`), or a faulty validator's precommit -/
theorem B1.vote {σ : State} (S : B1 cfg F h r pol b σ) (fm : FaultyMinority cfg.powers F)
    (hv : isVal cfg = true) (nb : Option Nat) (peer idx : Nat) (t : VType) (tgt : Target) (sigok : Bool)
    (hj : F idx = false → t = .prevote ∧ tgt = some b) :
    (B1 cfg F h r pol b (step cfg σ nb (.vote peer idx t h r tgt sigok)) ∨
      (B2 cfg F h r pol b (step cfg σ nb (.vote peer idx t h r tgt sigok)) ∧
        CorrEmpty F (slotsV (step cfg σ nb (.vote peer idx t h r tgt sigok)).votes .precommit h r))) ∧
    Grow h r σ (step cfg σ nb (.vote peer idx t h r tgt sigok)) ∧
    Filled cfg F h r b t idx sigok (step cfg σ nb (.vote peer idx t h r tgt sigok)) := by
  rcases vote_r_cases cfg F h r pol S.base nb peer idx t tgt sigok with ⟨v, hne⟩ | ⟨hc, e⟩
  · refine ⟨Or.inl (S.vext cfg F h r pol b v), v.grow, ?_⟩
    intro hF hs hi
    have ht := (hj hF).1
    subst ht
    rw [v.pv]
    exact filled_of F b (by rw [S.base.pvLen]; exact hi) S.pvO hF (fun hx => hne ⟨hs, hi, hx⟩)
  · rw [e]
    have Q := S.q1.stored cfg F h r pol b t idx tgt hj
    have hg := grow_stored h r (σ := σ) t idx tgt hc.2.2
    cases t with
    | prevote =>
      simp only
      obtain ⟨h1, h2⟩ := q1_afterPrevote cfg F h r pol b Q fm hv nb
      refine ⟨h1, hg.trans h r (grow_of_votes h r h2), ?_⟩
      intro hF _ hi
      rw [h2]
      show (slotsV (σ.votes.map _) .prevote h r)[idx]? = _
      rw [slotsV_setSlot_same, List.getElem?_set_self (by rw [S.base.pvLen]; exact hi), (hj hF).2]
    | precommit =>
      simp only
      have hF : F idx = true := by
        cases hF : F idx with
        | true => rfl
        | false => exact absurd (hj hF).1 (by decide)
      have hh : (stored .precommit idx tgt h r σ).height = h := S.base.hh
      rw [afterPrecommit_quiet cfg nb r _ (by rw [hh]; exact maj23_corrEmpty Q.pcE fm)
        (by rw [hh]; exact hasAny_corrEmpty Q.pcE fm)]
      refine ⟨Or.inl ⟨Q.base, Q.st, Q.prop, Q.pb, Q.parts, Q.lk, Q.pvO, ?_, Q.pcE, Q.sgv⟩, hg, ?_⟩
      · show isMaj cfg.powers (slotsV (σ.votes.map _) .prevote h r) (some b) = false
        rw [slotsV_setSlot_ty _ _ _ _ _ _ _ _ _ (by decide)]; exact S.pvNo
      · intro hF'; rw [hF] at hF'; cases hF'

/-- **a vote for the round after the node precommitted** (a faulty validator's, or a correct
one's for `b`) -/
theorem B2.vote {σ : State} (S : B2 cfg F h r pol b σ) (fm : FaultyMinority cfg.powers F)
    (nb : Option Nat) (peer idx : Nat) (t : VType) (tgt : Target) (sigok : Bool)
    (hj : F idx = false → tgt = some b) :
    (B2 cfg F h r pol b (step cfg σ nb (.vote peer idx t h r tgt sigok)) ∧
      Grow h r σ (step cfg σ nb (.vote peer idx t h r tgt sigok)) ∧
      Filled cfg F h r b t idx sigok (step cfg σ nb (.vote peer idx t h r tgt sigok))) ∨
    (t = .precommit ∧
      isMaj cfg.powers ((slotsV σ.votes .precommit h r).set idx (some tgt)) (some b) = true ∧
      Action.commit h b ∈ (step cfg σ nb (.vote peer idx t h r tgt sigok)).log) := by
  rcases vote_r_cases cfg F h r pol S.base nb peer idx t tgt sigok with ⟨v, hne⟩ | ⟨hc, e⟩
  · left
    refine ⟨S.vext cfg F h r pol b v, v.grow, ?_⟩
    intro hF hs hi
    cases t with
    | prevote =>
      rw [v.pv]
      exact filled_of F b (by rw [S.base.pvLen]; exact hi) S.pvO hF (fun hx => hne ⟨hs, hi, hx⟩)
    | precommit =>
      rw [v.pc]
      exact filled_of F b (by rw [S.base.pcLen]; exact hi) S.pcO hF (fun hx => hne ⟨hs, hi, hx⟩)
  · rw [e]
    have hg := grow_stored h r (σ := σ) t idx tgt hc.2.2
    have htgt : F idx = false → some tgt = some (some b) := fun hF => by rw [hj hF]
    cases t with
    | prevote =>
      left
      simp only
      obtain ⟨h1, h2⟩ := b2_afterPrevote cfg F h r pol b (S.stored cfg F h r pol b idx tgt hj) fm nb
      refine ⟨h1, hg.trans h r (grow_of_votes h r h2), ?_⟩
      intro hF _ hi
      rw [h2]
      show (slotsV (σ.votes.map _) .prevote h r)[idx]? = _
      rw [slotsV_setSlot_same, List.getElem?_set_self (by rw [S.base.pvLen]; exact hi), htgt hF]
    | precommit =>
      simp only
      have hpc : slotsV (Sync.stored .precommit idx tgt h r σ).votes .precommit h r =
          (slotsV σ.votes .precommit h r).set idx (some tgt) := slotsV_setSlot_same ..
      rcases q2_afterPrecommit cfg F h r pol b (S.stored_pc cfg F h r pol b idx tgt hj) fm nb with
        ⟨-, h1, h2⟩ | ⟨hm, hcm⟩
      · left
        refine ⟨h1, hg.trans h r (grow_of_votes h r h2), ?_⟩
        intro hF _ hi
        rw [h2, hpc, List.getElem?_set_self (by rw [S.base.pcLen]; exact hi), htgt hF]
      · right
        rw [hpc] at hm
        exact ⟨trivial, hm, hcm⟩

end
end KV.Cs.Sync
