import KV.Proofs.Wire
import KV.Proofs.Rlp
import KV.Model.SignBytes
/-!
Injectivity of the canonical vote / proposal bodies (field by field), and of the transaction
field list.  Core only.
-/
namespace KV.SignBytes
open KV KV.Wire KV.Rlp

/-- the `int64` range -/
def InI64 (i : Int) : Prop := -9223372036854775808 ≤ i ∧ i < 9223372036854775808

theorem Time.valid_inI64 {t : Time} (h : t.valid = true) : InI64 t.secs := by
  unfold Time.valid minValidSeconds maxValidSeconds at h
  simp only [Bool.and_eq_true, decide_eq_true_eq] at h
  unfold InI64; omega

/-! ## sub-messages -/

theorem tsBody_inj {s t : Time} (hs : InI64 s.secs) (ht : InI64 t.secs)
    (h : tsBody s = tsBody t) : s = t := by
  unfold tsBody at h
  have h' : fVarint 1 (u64OfInt s.secs) ++ (fVarint 2 s.nanos ++ []) =
      fVarint 1 (u64OfInt t.secs) ++ (fVarint 2 t.nanos ++ []) := by simpa using h
  obtain ⟨h1, h2⟩ := fVarint_inj (f := 1) (by decide)
    (firstGt_fVarint (1 * 8) 2 _ [] (by decide) (by decide) (firstGt_nil _))
    (firstGt_fVarint (1 * 8) 2 _ [] (by decide) (by decide) (firstGt_nil _)) h'
  obtain ⟨h3, _⟩ := fVarint_inj (f := 2) (by decide) (firstGt_nil _) (firstGt_nil _) h2
  have h4 := u64OfInt_injective hs ht h1
  cases s; cases t; simp_all

theorem pshBody_inj {a b : Nat} {x y : Bytes} (h : pshBody a x = pshBody b y) : a = b ∧ x = y := by
  unfold pshBody at h
  have h' : fVarint 1 a ++ (fBytes 2 x ++ []) = fVarint 1 b ++ (fBytes 2 y ++ []) := by
    simpa using h
  obtain ⟨h1, h2⟩ := fVarint_inj (f := 1) (by decide)
    (firstGt_fBytes (1 * 8) 2 _ [] (by decide) (by decide) (firstGt_nil _))
    (firstGt_fBytes (1 * 8) 2 _ [] (by decide) (by decide) (firstGt_nil _)) h'
  obtain ⟨h3, _⟩ := fBytes_inj (f := 2) (by decide) (firstGt_nil _) (firstGt_nil _) h2
  exact ⟨h1, h3⟩

theorem blockIDBody_inj {a b : BlockID} (h : blockIDBody a = blockIDBody b) : a = b := by
  unfold blockIDBody at h
  have h' : fBytes 1 a.hash ++ (fMsg 2 (pshBody a.total a.psHash) ++ []) =
      fBytes 1 b.hash ++ (fMsg 2 (pshBody b.total b.psHash) ++ []) := by simpa using h
  obtain ⟨h1, h2⟩ := fBytes_inj (f := 1) (by decide)
    (firstGt_fMsg (1 * 8 + 2) 2 _ [] (by decide) (by decide))
    (firstGt_fMsg (1 * 8 + 2) 2 _ [] (by decide) (by decide)) h'
  obtain ⟨h3, _⟩ := fMsg_inj h2
  obtain ⟨h4, h5⟩ := pshBody_inj h3
  cases a; cases b; simp_all

theorem optBlockIDBody_inj {a b : Option BlockID}
    (h : a.map blockIDBody = b.map blockIDBody) : a = b := by
  cases a <;> cases b <;> simp at h
  · rfl
  · rw [blockIDBody_inj h]

/-! ## votes -/

/-- everything after the `type` field of a vote starts (if at all) with a key `> 8` … -/
theorem vote_tail1 (v : Vote) : firstGt (1 * 8)
    (fVarint 2 v.height ++ (fVarint 3 v.round ++
      (fMsgOpt 4 ((canonBlockID v.blockID).map blockIDBody) ++
        (fMsg 5 (tsBody v.time) ++ fBytes 6 v.chain)))) :=
  firstGt_fVarint _ 2 _ _ (by decide) (by decide)
    (firstGt_fVarint _ 3 _ _ (by decide) (by decide)
      (firstGt_fMsgOpt _ 4 _ _ (by decide) (by decide)
        (firstGt_fMsg _ 5 _ _ (by decide) (by decide))))

theorem vote_tail2 (v : Vote) : firstGt (2 * 8)
    (fVarint 3 v.round ++ (fMsgOpt 4 ((canonBlockID v.blockID).map blockIDBody) ++
        (fMsg 5 (tsBody v.time) ++ fBytes 6 v.chain))) :=
  firstGt_fVarint _ 3 _ _ (by decide) (by decide)
    (firstGt_fMsgOpt _ 4 _ _ (by decide) (by decide)
      (firstGt_fMsg _ 5 _ _ (by decide) (by decide)))

theorem vote_tail3 (v : Vote) : firstGt (3 * 8)
    (fMsgOpt 4 ((canonBlockID v.blockID).map blockIDBody) ++
        (fMsg 5 (tsBody v.time) ++ fBytes 6 v.chain)) :=
  firstGt_fMsgOpt _ 4 _ _ (by decide) (by decide)
    (firstGt_fMsg _ 5 _ _ (by decide) (by decide))

theorem vote_tail4 (v : Vote) : firstGt (4 * 8 + 2)
    (fMsg 5 (tsBody v.time) ++ fBytes 6 v.chain) :=
  firstGt_fMsg _ 5 _ _ (by decide) (by decide)

/-- the fields of the canonical vote, as they are on the wire -/
structure VoteWire where
  type : Nat
  height : Nat
  round : Nat
  blockID : Option BlockID
  time : Time
  chain : Bytes
deriving DecidableEq

def Vote.wire (v : Vote) : VoteWire :=
  { type := u64OfInt v.type, height := v.height, round := v.round,
    blockID := canonBlockID v.blockID, time := v.time, chain := v.chain }

theorem voteBody_inj {v w : Vote} (hv : InI64 v.time.secs) (hw : InI64 w.time.secs)
    (h : voteBody v = voteBody w) : v.wire = w.wire := by
  unfold voteBody at h
  obtain ⟨h1, h⟩ := fVarint_inj (f := 1) (by decide) (vote_tail1 v) (vote_tail1 w) h
  obtain ⟨h2, h⟩ := fVarint_inj (f := 2) (by decide) (vote_tail2 v) (vote_tail2 w) h
  obtain ⟨h3, h⟩ := fVarint_inj (f := 3) (by decide) (vote_tail3 v) (vote_tail3 w) h
  obtain ⟨h4, h⟩ := fMsgOpt_inj (f := 4) (by decide) (vote_tail4 v) (vote_tail4 w) h
  obtain ⟨h5, h⟩ := fMsg_inj h
  have h6 : fBytes 6 v.chain ++ [] = fBytes 6 w.chain ++ [] := by simpa using h
  obtain ⟨h6, _⟩ := fBytes_inj (f := 6) (by decide) (firstGt_nil _) (firstGt_nil _) h6
  have h4' := optBlockIDBody_inj h4
  have h5' := tsBody_inj hv hw h5
  simp [Vote.wire, h1, h2, h3, h4', h5', h6]

/-! ## proposals -/

theorem prop_tail1 (p : Proposal) : firstGt (1 * 8)
    (fVarint 2 p.height ++ (fVarint 3 p.round ++ (fVarint 4 p.polRound ++
      (fMsgOpt 5 ((canonBlockID p.blockID).map blockIDBody) ++
        (fMsg 6 (tsBody p.time) ++ fBytes 7 p.chain))))) :=
  firstGt_fVarint _ 2 _ _ (by decide) (by decide)
    (firstGt_fVarint _ 3 _ _ (by decide) (by decide)
      (firstGt_fVarint _ 4 _ _ (by decide) (by decide)
        (firstGt_fMsgOpt _ 5 _ _ (by decide) (by decide)
          (firstGt_fMsg _ 6 _ _ (by decide) (by decide)))))

theorem prop_tail2 (p : Proposal) : firstGt (2 * 8)
    (fVarint 3 p.round ++ (fVarint 4 p.polRound ++
      (fMsgOpt 5 ((canonBlockID p.blockID).map blockIDBody) ++
        (fMsg 6 (tsBody p.time) ++ fBytes 7 p.chain)))) :=
  firstGt_fVarint _ 3 _ _ (by decide) (by decide)
    (firstGt_fVarint _ 4 _ _ (by decide) (by decide)
      (firstGt_fMsgOpt _ 5 _ _ (by decide) (by decide)
        (firstGt_fMsg _ 6 _ _ (by decide) (by decide))))

theorem prop_tail3 (p : Proposal) : firstGt (3 * 8)
    (fVarint 4 p.polRound ++
      (fMsgOpt 5 ((canonBlockID p.blockID).map blockIDBody) ++
        (fMsg 6 (tsBody p.time) ++ fBytes 7 p.chain))) :=
  firstGt_fVarint _ 4 _ _ (by decide) (by decide)
    (firstGt_fMsgOpt _ 5 _ _ (by decide) (by decide)
      (firstGt_fMsg _ 6 _ _ (by decide) (by decide)))

theorem prop_tail4 (p : Proposal) : firstGt (4 * 8)
    (fMsgOpt 5 ((canonBlockID p.blockID).map blockIDBody) ++
        (fMsg 6 (tsBody p.time) ++ fBytes 7 p.chain)) :=
  firstGt_fMsgOpt _ 5 _ _ (by decide) (by decide)
    (firstGt_fMsg _ 6 _ _ (by decide) (by decide))

theorem prop_tail5 (p : Proposal) : firstGt (5 * 8 + 2)
    (fMsg 6 (tsBody p.time) ++ fBytes 7 p.chain) :=
  firstGt_fMsg _ 6 _ _ (by decide) (by decide)

structure ProposalWire where
  height : Nat
  round : Nat
  polRound : Nat
  blockID : Option BlockID
  time : Time
  chain : Bytes
deriving DecidableEq

def Proposal.wire (p : Proposal) : ProposalWire :=
  { height := p.height, round := p.round, polRound := p.polRound,
    blockID := canonBlockID p.blockID, time := p.time, chain := p.chain }

theorem proposalBody_inj {p q : Proposal} (hp : InI64 p.time.secs) (hq : InI64 q.time.secs)
    (h : proposalBody p = proposalBody q) : p.wire = q.wire := by
  unfold proposalBody at h
  obtain ⟨_, h⟩ := fVarint_inj (f := 1) (by decide) (prop_tail1 p) (prop_tail1 q) h
  obtain ⟨h2, h⟩ := fVarint_inj (f := 2) (by decide) (prop_tail2 p) (prop_tail2 q) h
  obtain ⟨h3, h⟩ := fVarint_inj (f := 3) (by decide) (prop_tail3 p) (prop_tail3 q) h
  obtain ⟨h4, h⟩ := fVarint_inj (f := 4) (by decide) (prop_tail4 p) (prop_tail4 q) h
  obtain ⟨h5, h⟩ := fMsgOpt_inj (f := 5) (by decide) (prop_tail5 p) (prop_tail5 q) h
  obtain ⟨h6, h⟩ := fMsg_inj h
  have h7 : fBytes 7 p.chain ++ [] = fBytes 7 q.chain ++ [] := by simpa using h
  obtain ⟨h7, _⟩ := fBytes_inj (f := 7) (by decide) (firstGt_nil _) (firstGt_nil _) h7
  have h5' := optBlockIDBody_inj h5
  have h6' := tsBody_inj hp hq h6
  simp [Proposal.wire, h2, h3, h4, h5', h6', h7]

end KV.SignBytes
