import KV.Proofs.WorldEffective
/-!
# Effective operations of an UNSTRUCTURED transaction (property C08, root clause)

`KV/Proofs/WorldEffective.lean` treats transactions given as properly nested scopes.  Here the transaction
is ANY list of `Op` — journalled operations, `Snapshot`, `RevertToSnapshot id` for arbitrary ids: reverts to
an outer snapshot skipping inner ones, stale ids (rejected), repeated reverts.  The effective
(non-reverted) operations are determined by bookkeeping on the side (`Track`: the current effective
list and, for each valid revision, the effective list at the time of its `Snapshot` — the same
bookkeeping the Go oracle `c08-root-effective-ops` keeps), and the run ends in exactly the (core, journal)
obtained by applying the effective operations alone.
-/
namespace KV.World

/-- bookkeeping of the effective history: `saved` is parallel to `validRevisions` -/
structure Track where
  eff : List JOp
  saved : List (List JOp)

/-- the bookkeeping looks at the world only to learn whether the revert is accepted and which entry of
`validRevisions` it hits (`findRev` = the code's `sort.Search` + equality test, on revision ids) -/
def trackStep (o : Op) (w : World) (t : Track) : Track :=
  match o with
  | .j jo => { t with eff := t.eff ++ [jo] }
  | .snapshot => { t with saved := t.saved ++ [t.eff] }
  | .revert id =>
      match findRev w.revs id with
      | none => t
      | some (idx, _) => { eff := t.saved.getD idx [], saved := t.saved.take idx }

def trackRun : List Op → World → Track → World × Track
  | [], w, t => (w, t)
  | o :: ops, w, t => trackRun ops (step o w).1 (trackStep o w t)

theorem trackRun_fst (ops : List Op) (w : World) (t : Track) : (trackRun ops w t).1 = run ops w := by
  induction ops generalizing w t with
  | nil => rfl
  | cons o ops ih => simp only [trackRun, ih]; rfl

/-- the non-reverted operations of `ops` run from `w` (a transaction start: no valid revisions) -/
def effOps (ops : List Op) (w : World) : List JOp := (trackRun ops w ⟨[], []⟩).2.eff

structure TInv (c0 : Core × List Entry) (w : World) (t : Track) : Prop where
  cj : (w.core, w.journal) = runJ t.eff c0
  len : t.saved.length = w.revs.length
  idx : ∀ (i : Nat) (r : Nat × Nat) (e : List JOp), w.revs[i]? = some r → t.saved[i]? = some e → r.2 = (runJ e c0).2.length
  chain : (t.saved ++ [t.eff]).Pairwise (fun a b => a <+: b)

theorem runJ_single (jo : JOp) (cj : Core × List Entry) :
    runJ [jo] cj = ((jop jo cj.1).1, cj.2 ++ (jop jo cj.1).2.1) := by
  simp [runJ]

theorem tinv_step (c0 : Core × List Entry) (o : Op) (w : World) (t : Track) (h : TInv c0 w t) :
    TInv c0 (step o w).1 (trackStep o w t) := by
  obtain ⟨hcj, hlen, hidx, hchain⟩ := h
  cases o with
  | j jo =>
    refine ⟨?_, hlen, hidx, ?_⟩
    · simp only [step, applyJ, trackStep]
      rw [runJ_append, ← hcj, runJ_single]
    · simp only [trackStep]
      rw [List.pairwise_append] at hchain ⊢
      refine ⟨hchain.1, by simp, ?_⟩
      intro a ha b hb
      simp only [List.mem_singleton] at hb
      subst hb
      exact (hchain.2.2 a ha t.eff (by simp)).trans (List.prefix_append _ _)
  | snapshot =>
    refine ⟨hcj, by simp [step, snapshot, trackStep, hlen], ?_, ?_⟩
    · intro i r e hr he
      simp only [step, snapshot, trackStep] at hr he
      by_cases hi : i < w.revs.length
      · rw [List.getElem?_append_left hi] at hr
        rw [List.getElem?_append_left (by omega)] at he
        exact hidx i r e hr he
      · rw [List.getElem?_append_right (by omega)] at hr
        rw [List.getElem?_append_right (by omega)] at he
        rw [hlen] at he
        cases hk : i - w.revs.length with
        | zero =>
          simp [hk] at hr he
          subst hr; subst he
          have := congrArg Prod.snd hcj
          simp only at this
          simp [this]
        | succ k => simp [hk] at hr
    · simp only [trackStep]
      rw [List.pairwise_append]
      refine ⟨hchain, by simp, ?_⟩
      intro a ha b hb
      simp only [List.mem_singleton] at hb
      subst hb
      simp only [List.mem_append, List.mem_singleton] at ha
      rcases ha with ha | ha
      · exact (List.pairwise_append.mp hchain).2.2 a ha t.eff (by simp)
      · subst ha; exact List.prefix_refl _
  | revert id =>
    simp only [step, revertTo, trackStep]
    cases hf : findRev w.revs id with
    | none => exact ⟨hcj, hlen, hidx, hchain⟩
    | some p =>
      obtain ⟨ix, jx⟩ := p
      simp only
      have hget := findRev_some hf
      have hix : ix < w.revs.length := by
        have := List.getElem?_eq_some_iff.mp hget
        exact this.1
      have hix' : ix < t.saved.length := by omega
      have hes : t.saved[ix]? = some t.saved[ix] := List.getElem?_eq_getElem hix'
      have hjx := hidx ix (id, jx) _ hget hes
      simp only at hjx
      have hmem : t.saved[ix] ∈ t.saved := List.getElem_mem hix'
      obtain ⟨rest, hrest⟩ := (List.pairwise_append.mp hchain).2.2 _ hmem t.eff (by simp)
      have hD : t.saved.getD ix [] = t.saved[ix] := by
        simp [List.getD, hes]
      obtain ⟨es, he1, he2⟩ := runJ_rewind rest (runJ t.saved[ix] c0)
      rw [← runJ_append, hrest, ← hcj] at he1 he2
      simp only at he1 he2
      refine ⟨?_, ?_, ?_, ?_⟩
      · simp only [hD]
        subst hjx
        rw [he1]
        simp [he2]
      · simp [List.length_take, hlen]
      · intro i r e hr he
        simp only [List.getElem?_take] at hr he
        split at hr
        · next hlt => simp only [hlt, if_true] at he; exact hidx i r e hr he
        · simp at hr
      · simp only [hD]
        have hsub : (t.saved.take ix ++ [t.saved[ix]]).Sublist (t.saved ++ [t.eff]) := by
          have : t.saved.take ix ++ [t.saved[ix]] = t.saved.take (ix + 1) := by
            rw [List.take_add_one, hes]; rfl
          rw [this]
          exact (List.take_sublist _ _).trans (List.sublist_append_left _ _)
        exact hchain.sublist hsub

theorem tinv_run (c0 : Core × List Entry) (ops : List Op) (w : World) (t : Track) (h : TInv c0 w t) :
    TInv c0 (trackRun ops w t).1 (trackRun ops w t).2 := by
  induction ops generalizing w t with
  | nil => exact h
  | cons o ops ih => exact ih _ _ (tinv_step c0 o w t h)

theorem tinv_start (w : World) (hr : w.revs = []) : TInv (w.core, w.journal) w ⟨[], []⟩ :=
  ⟨by simp [runJ], by simp [hr], by intro i r e h1; simp [hr] at h1, by simp⟩

/-- **any transaction, however its snapshots and reverts are arranged, ends in the (core, journal) of its
effective operations alone** -/
theorem run_effOps (ops : List Op) (w : World) (hr : w.revs = []) :
    ((run ops w).core, (run ops w).journal) = runJ (effOps ops w) (w.core, w.journal) := by
  have := (tinv_run _ ops w ⟨[], []⟩ (tinv_start w hr)).cj
  rw [trackRun_fst] at this
  exact this

/-- running the effective operations themselves: nothing is tracked away -/
theorem effOps_jops (l : List JOp) (w : World) (t : Track) :
    (trackRun (l.map Op.j) w t).2.eff = t.eff ++ l ∧ (trackRun (l.map Op.j) w t).2.saved = t.saved := by
  induction l generalizing w t with
  | nil => simp [trackRun]
  | cons o l ih =>
    simp only [List.map_cons, trackRun]
    obtain ⟨h1, h2⟩ := ih (step (.j o) w).1 (trackStep (.j o) w t)
    rw [h1, h2]
    simp [trackStep]

end KV.World
