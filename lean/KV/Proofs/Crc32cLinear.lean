import KV.Base.Crc32c
/-! # Algebra of CRC-32C (for property C15). Core only.

About the EXECUTABLE definitions of `KV/Base/Crc32c.lean` (nothing is redefined):

* `crc32cShift` (one bit-serial step of the reflected CRC) is GF(2)-linear — `crc32cShift_xor` —
  and injective — `crc32cShift_inj` — because bit 31 of the polynomial 0x82F63B78 is set: a
  register value that shifts to 0 would have to satisfy `x >>> 1 = poly ≥ 2^31`.
* the table-driven byte update is the bit-serial one: `crc32cUpdateByte_eq`
  (`T[(c ^ b) & 0xFF] ^ (c >> 8) = shift^8 (c ^ b)`), hence `crc32c_eq_bitwise` for ALL inputs.
* `crc32c d` is the bit-serial CRC of the bit stream of `d`, each byte least significant bit
  first (`crc32c_eq_bits`); processing a window of ≤ 32 bits is "XOR the window into the register,
  shift" (`foldl_crcBitU_window`), a register difference propagates as `shift^n` of the difference
  whatever the data (`foldl_crcBitU_xor`).
* therefore two streams that differ only inside a window of ≤ 32 consecutive bits have different
  CRCs (`crc32cBits_burst`, `crc32c_burst32`, byte-aligned `crc32c_burst4`): the syndrome is
  `shift^m (window₁ ^ window₂)` and `shift` has trivial kernel. Single-bit errors are the special
  case used by `KV/Proofs/WalFlip.lean`. -/
namespace KV

theorem u32_xor_and (a b c : UInt32) : (a ^^^ b) &&& c = (a &&& c) ^^^ (b &&& c) := by
  apply UInt32.toBitVec_inj.mp
  simp only [UInt32.toBitVec_and, UInt32.toBitVec_xor]
  ext i hi
  simp only [BitVec.getElem_and, BitVec.getElem_xor]
  cases a.toBitVec[i] <;> cases b.toBitVec[i] <;> cases c.toBitVec[i] <;> rfl

theorem u32_xor_eq_self (a z : UInt32) (h : a = a ^^^ z) : z = 0 := by
  have := congrArg (fun t => a ^^^ t) h
  simp only [UInt32.xor_self, ← UInt32.xor_assoc, UInt32.zero_xor] at this
  exact this.symm

theorem u32_and_one_toNat (a : UInt32) : (a &&& 1).toNat = a.toNat % 2 := by
  rw [UInt32.toNat_and]; exact Nat.and_one_is_mod _

theorem u32_shr1_toNat (a : UInt32) : (a >>> 1).toNat = a.toNat / 2 := by
  rw [UInt32.toNat_shiftRight]; simp [Nat.shiftRight_eq_div_pow]

theorem and_one_cases (a : UInt32) : a &&& 1 = 0 ∨ a &&& 1 = 1 := by
  have h := u32_and_one_toNat a
  rcases Nat.mod_two_eq_zero_or_one a.toNat with h0 | h1
  · left; apply UInt32.toNat_inj.mp; rw [h, h0]; rfl
  · right; apply UInt32.toNat_inj.mp; rw [h, h1]; rfl

theorem crc32cShift_xor (a b : UInt32) : crc32cShift (a ^^^ b) = crc32cShift a ^^^ crc32cShift b := by
  have hx : (a ^^^ b) &&& 1 = (a &&& 1) ^^^ (b &&& 1) := u32_xor_and a b 1
  have hs : (a ^^^ b) >>> 1 = (a >>> 1) ^^^ (b >>> 1) := UInt32.shiftRight_xor
  unfold crc32cShift
  rw [hx, hs]
  rcases and_one_cases a with ha | ha <;> rcases and_one_cases b with hb | hb <;> rw [ha, hb]
  · simp
  · simp; ac_rfl
  · simp; ac_rfl
  · simp
    have e : ∀ p q r : UInt32, (p ^^^ r) ^^^ (q ^^^ r) = (p ^^^ q) ^^^ (r ^^^ r) := by intros; ac_rfl
    rw [e, UInt32.xor_self, UInt32.xor_zero]

theorem crc32cShift_zero : crc32cShift 0 = 0 := by decide

theorem crc32cShift_ker (x : UInt32) (h : crc32cShift x = 0) : x = 0 := by
  unfold crc32cShift at h
  have hm := u32_and_one_toNat x
  have hs := u32_shr1_toNat x
  split at h
  · exfalso
    have h2 : x >>> 1 = crc32cPoly := UInt32.xor_eq_zero_iff.mp h
    have h3 := congrArg UInt32.toNat h2
    rw [hs] at h3
    have : x.toNat < 4294967296 := x.toNat_lt
    have hp : crc32cPoly.toNat = 2197175160 := by decide
    omega
  · rename_i h1
    have h3 := congrArg UInt32.toNat h
    rw [hs] at h3
    have h0 : (x &&& 1).toNat ≠ 1 := fun e => h1 (UInt32.toNat_inj.mp e)
    apply UInt32.toNat_inj.mp
    have : (0:UInt32).toNat = 0 := rfl
    omega

theorem crc32cShift_inj (a b : UInt32) (h : crc32cShift a = crc32cShift b) : a = b := by
  apply UInt32.xor_eq_zero_iff.mp
  apply crc32cShift_ker
  rw [crc32cShift_xor, h, UInt32.xor_self]

/-- an even register value is just shifted -/
theorem crc32cShift_even (y : UInt32) (h : y.toNat % 2 = 0) : crc32cShift y = y >>> 1 := by
  unfold crc32cShift
  have : ¬ (y &&& 1 = 1) := by
    intro e
    have := congrArg UInt32.toNat e
    rw [u32_and_one_toNat, h] at this
    cases this
  rw [if_neg this]

/-- `n` bit-serial steps -/
def crcShiftN : Nat → UInt32 → UInt32
  | 0, c => c
  | n + 1, c => crcShiftN n (crc32cShift c)

theorem crcShiftN_xor (n : Nat) (a b : UInt32) :
    crcShiftN n (a ^^^ b) = crcShiftN n a ^^^ crcShiftN n b := by
  induction n generalizing a b with
  | zero => rfl
  | succ n ih => simp only [crcShiftN, crc32cShift_xor, ih]

theorem crcShiftN_zero (n : Nat) : crcShiftN n 0 = 0 := by
  induction n with
  | zero => rfl
  | succ n ih => simp only [crcShiftN, crc32cShift_zero, ih]

theorem crcShiftN_ker (n : Nat) (x : UInt32) (h : crcShiftN n x = 0) : x = 0 := by
  induction n generalizing x with
  | zero => exact h
  | succ n ih => exact crc32cShift_ker x (ih _ h)

theorem crcShiftN_add (m n : Nat) (c : UInt32) : crcShiftN (m + n) c = crcShiftN n (crcShiftN m c) := by
  induction m generalizing c with
  | zero => simp [crcShiftN]
  | succ m ih => rw [Nat.succ_add]; simp only [crcShiftN, ih]

theorem crc32cByteBits_eq (c : UInt32) : crc32cByteBits c = crcShiftN 8 c := rfl

/-- `j` steps on a value whose low `j` bits are zero only shift -/
theorem crcShiftN_low_zero (j : Nat) (y : UInt32) (h : y.toNat % 2 ^ j = 0) :
    crcShiftN j y = UInt32.ofNat (y.toNat / 2 ^ j) := by
  induction j generalizing y with
  | zero => simp [crcShiftN]
  | succ j ih =>
    have hp : 2 ^ (j + 1) = 2 * 2 ^ j := by rw [Nat.pow_succ, Nat.mul_comm]
    have hpos : 0 < 2 ^ j := Nat.two_pow_pos j
    have heven : y.toNat % 2 = 0 := by
      rw [hp] at h
      have := Nat.mod_mul_right_mod y.toNat 2 (2 ^ j)
      omega
    simp only [crcShiftN]
    rw [crc32cShift_even y heven, ih]
    · rw [u32_shr1_toNat, Nat.div_div_eq_div_mul, ← hp]
    · rw [u32_shr1_toNat]
      rw [hp] at h
      rw [← Nat.mod_mul_right_div_self, h]

/-! ## the table-driven update is the bit-serial update -/

theorem crc32cTable_getD (i : Nat) (h : i < 256) :
    crc32cTable.getD i 0 = crc32cByteBits (UInt32.ofNat i) := by
  simp [crc32cTable, Array.getD, h, crc32cEntry]

theorem crc32cUpdateByte_eq (c : UInt32) (b : UInt8) :
    crc32cUpdateByte c b = crc32cByteBits (c ^^^ b.toUInt32) := by
  -- x = the register after the byte was XORed in; lo = its low byte (the table index)
  generalize hx : c ^^^ b.toUInt32 = x
  have hlo : ((x &&& 0xFF).toNat) = x.toNat % 256 := by
    rw [UInt32.toNat_and]
    exact Nat.and_two_pow_sub_one_eq_mod x.toNat 8
  have hlt : (x &&& 0xFF).toNat < 256 := by rw [hlo]; omega
  have hc8 : c >>> 8 = UInt32.ofNat (x.toNat / 256) := by
    apply UInt32.toNat_inj.mp
    have hb : b.toNat < 256 := b.toNat_lt
    have hxl : x.toNat < 4294967296 := x.toNat_lt
    rw [UInt32.toNat_shiftRight, ← hx, UInt32.toNat_xor, UInt8.toNat_toUInt32, UInt32.toNat_ofNat']
    have e := @Nat.xor_div_two_pow c.toNat b.toNat 8
    simp only [Nat.reducePow] at e
    rw [e, Nat.div_eq_of_lt hb, Nat.xor_zero]
    have : c.toNat < 4294967296 := c.toNat_lt
    simp [Nat.shiftRight_eq_div_pow]
    omega
  unfold crc32cUpdateByte
  rw [hx, crc32cTable_getD _ hlt, UInt32.ofNat_toNat, hc8]
  -- B x = B lo ^^^ B (x ^^^ lo), and x ^^^ lo has its low byte clear
  have hy : (x ^^^ (x &&& 0xFF)).toNat % 2 ^ 8 = 0 := by
    rw [UInt32.toNat_xor, Nat.xor_mod_two_pow, hlo]
    simp
  have hy2 : (x ^^^ (x &&& 0xFF)).toNat / 2 ^ 8 = x.toNat / 256 := by
    rw [UInt32.toNat_xor, Nat.xor_div_two_pow, hlo]
    simp
  have hB := crcShiftN_low_zero 8 _ hy
  rw [hy2, crcShiftN_xor] at hB
  rw [crc32cByteBits_eq, crc32cByteBits_eq, ← hB]
  rw [← UInt32.xor_assoc, UInt32.xor_comm (crcShiftN 8 (x &&& 255)), UInt32.xor_assoc, UInt32.xor_self,
    UInt32.xor_zero]

/-- **the table-driven CRC-32C is the bit-serial one, for every input** -/
theorem crc32c_eq_bitwise (d : Bytes) : crc32c d = crc32cBitwise d := by
  unfold crc32c crc32cBitwise
  have : crc32cUpdateByte = fun c b => crc32cByteBits (c ^^^ b.toUInt32) := by
    funext c b; exact crc32cUpdateByte_eq c b
  rw [this]

/-! ## the CRC as a fold over the bit stream (least significant bit of each byte first) -/

/-- the register update for one data bit -/
def crcBitU (c : UInt32) (x : Bool) : UInt32 := crc32cShift (c ^^^ (if x then 1 else 0))

/-- the eight bits of a byte in the order the CRC consumes them -/
def bitsLE8 (b : UInt8) : List Bool :=
  [b.toNat.testBit 0, b.toNat.testBit 1, b.toNat.testBit 2, b.toNat.testBit 3,
   b.toNat.testBit 4, b.toNat.testBit 5, b.toNat.testBit 6, b.toNat.testBit 7]

def bitsLE : Bytes → List Bool
  | [] => []
  | b :: d => bitsLE8 b ++ bitsLE d

/-- CRC-32C of a bit stream -/
def crc32cBits (bs : List Bool) : UInt32 := (bs.foldl crcBitU 0xFFFFFFFF) ^^^ 0xFFFFFFFF

/-- a window of at most 32 bits as a register value (first bit = bit 0) -/
def leW : List Bool → UInt32
  | [] => 0
  | x :: u => (if x then 1 else 0) ^^^ UInt32.ofNat (2 * (leW u).toNat)

theorem leW_lt (u : List Bool) : (leW u).toNat < 2 ^ u.length ∨ 32 < u.length := by
  induction u with
  | nil => left; decide
  | cons x u ih =>
    by_cases h32 : 32 < (x :: u).length
    · exact Or.inr h32
    · left
      simp only [List.length_cons] at h32 ⊢
      rcases ih with ih | ih
      · have hp : 2 ^ u.length ≤ 2 ^ 31 := Nat.pow_le_pow_right (by omega) (by omega)
        have h2 : 2 * (leW u).toNat < 2 ^ (u.length + 1) := by rw [Nat.pow_succ]; omega
        have h1 : (if x then (1 : UInt32) else 0).toNat < 2 ^ (u.length + 1) := by
          have : 0 < 2 ^ u.length := Nat.two_pow_pos _
          cases x <;> simp <;> rw [Nat.pow_succ] <;> omega
        simp only [leW, UInt32.toNat_xor, UInt32.toNat_ofNat']
        rw [Nat.mod_eq_of_lt (by rw [Nat.pow_succ] at h2; omega)]
        exact Nat.xor_lt_two_pow h1 h2
      · omega

theorem leW_lt' (u : List Bool) (h : u.length ≤ 32) : (leW u).toNat < 2 ^ u.length := by
  rcases leW_lt u with h1 | h1
  · exact h1
  · omega

/-- processing a window of at most 32 bits = XOR the window into the register, then shift -/
theorem foldl_crcBitU_window (u : List Bool) (h : u.length ≤ 32) (c : UInt32) :
    u.foldl crcBitU c = crcShiftN u.length (c ^^^ leW u) := by
  induction u generalizing c with
  | nil => simp [leW, crcShiftN]
  | cons x u ih =>
    simp only [List.length_cons] at h
    have hlt := leW_lt' u (by omega)
    have hp : 2 ^ u.length ≤ 2 ^ 31 := Nat.pow_le_pow_right (by omega) (by omega)
    have hz : (UInt32.ofNat (2 * (leW u).toNat)).toNat = 2 * (leW u).toNat := by
      rw [UInt32.toNat_ofNat']; apply Nat.mod_eq_of_lt; omega
    have hS : crc32cShift (UInt32.ofNat (2 * (leW u).toNat)) = leW u := by
      rw [crc32cShift_even _ (by rw [hz]; omega)]
      apply UInt32.toNat_inj.mp
      rw [u32_shr1_toNat, hz]; omega
    simp only [List.foldl_cons, List.length_cons, crcShiftN, leW]
    rw [ih (by omega), ← UInt32.xor_assoc, crc32cShift_xor _ (UInt32.ofNat _), hS]
    rfl

/-- a difference in the register propagates linearly, independently of the data -/
theorem foldl_crcBitU_xor (u : List Bool) (c e : UInt32) :
    u.foldl crcBitU (c ^^^ e) = u.foldl crcBitU c ^^^ crcShiftN u.length e := by
  induction u generalizing c e with
  | nil => rfl
  | cons x u ih =>
    simp only [List.foldl_cons, List.length_cons, crcShiftN]
    have : crcBitU (c ^^^ e) x = crcBitU c x ^^^ crc32cShift e := by
      unfold crcBitU
      rw [UInt32.xor_assoc, UInt32.xor_comm e, ← UInt32.xor_assoc, crc32cShift_xor]
    rw [this, ih]

/-- the window value determines the window (for a given length ≤ 32) -/
theorem leW_inj (u v : List Bool) (hl : u.length = v.length) (h32 : u.length ≤ 32)
    (h : leW u = leW v) : u = v := by
  induction u generalizing v with
  | nil => cases v with
    | nil => rfl
    | cons _ _ => cases hl
  | cons x u ih =>
    cases v with
    | nil => cases hl
    | cons y v =>
      simp only [List.length_cons] at hl h32
      have hu := leW_lt' u (by omega)
      have hv := leW_lt' v (by omega)
      have hp : 2 ^ u.length ≤ 2 ^ 31 := Nat.pow_le_pow_right (by omega) (by omega)
      have hp' : 2 ^ v.length ≤ 2 ^ 31 := Nat.pow_le_pow_right (by omega) (by omega)
      have key : ∀ (b : Bool) (z : Nat), 2 * z < 4294967296 →
          ((if b then (1 : UInt32) else 0) ^^^ UInt32.ofNat (2 * z)).toNat % 2 = (if b then 1 else 0) ∧
          ((if b then (1 : UInt32) else 0) ^^^ UInt32.ofNat (2 * z)).toNat / 2 = z := by
        intro b z hz
        have e1 := @Nat.xor_mod_two_pow (if b then (1 : UInt32) else 0).toNat (2 * z) 1
        have e2 := @Nat.xor_div_two_pow (if b then (1 : UInt32) else 0).toNat (2 * z) 1
        simp only [Nat.pow_one] at e1 e2
        rw [UInt32.toNat_xor, UInt32.toNat_ofNat', Nat.mod_eq_of_lt (show 2 * z < 2 ^ 32 by omega), e1, e2]
        cases b <;> simp <;> omega
      have h' := congrArg UInt32.toNat h
      simp only [leW] at h'
      obtain ⟨a1, a2⟩ := key x (leW u).toNat (by omega)
      obtain ⟨b1, b2⟩ := key y (leW v).toNat (by omega)
      rw [h'] at a1 a2
      have hxy : x = y := by
        rw [b1] at a1
        cases x <;> cases y <;> simp_all
      have huv : leW u = leW v := by
        apply UInt32.toNat_inj.mp; omega
      rw [hxy, ih v (by omega) (by omega) huv]

/-- **burst errors of at most 32 bits are detected**: two bit streams that differ only inside a
window of at most 32 consecutive bits have different CRC-32C values -/
theorem crc32cBits_burst (x u v y : List Bool) (hl : u.length = v.length) (h32 : u.length ≤ 32)
    (hne : u ≠ v) : crc32cBits (x ++ u ++ y) ≠ crc32cBits (x ++ v ++ y) := by
  unfold crc32cBits
  intro h
  have h := (UInt32.xor_left_inj _).mp h
  simp only [List.foldl_append] at h
  generalize List.foldl crcBitU 0xFFFFFFFF x = c at h
  rw [foldl_crcBitU_window u h32, foldl_crcBitU_window v (by omega), ← hl] at h
  have hv : crcShiftN u.length (c ^^^ leW v) =
      crcShiftN u.length (c ^^^ leW u) ^^^ crcShiftN u.length (leW u ^^^ leW v) := by
    rw [← crcShiftN_xor]
    congr 1
    rw [UInt32.xor_assoc, ← UInt32.xor_assoc (leW u), UInt32.xor_self, UInt32.zero_xor]
  rw [hv, foldl_crcBitU_xor] at h
  have hz := u32_xor_eq_self _ _ h
  have := crcShiftN_ker _ _ (crcShiftN_ker _ _ hz)
  exact hne (leW_inj u v hl h32 (UInt32.xor_eq_zero_iff.mp this))

/-! ## bytes → bits -/

theorem leW_bitsLE8_aux : ∀ n : Nat, n < 256 →
    leW (bitsLE8 (UInt8.ofNat n)) = (UInt8.ofNat n).toUInt32 := by decide +kernel

theorem leW_bitsLE8 (b : UInt8) : leW (bitsLE8 b) = b.toUInt32 := by
  have := leW_bitsLE8_aux b.toNat b.toNat_lt
  rwa [UInt8.ofNat_toNat] at this

theorem bitsLE8_length (b : UInt8) : (bitsLE8 b).length = 8 := rfl

theorem bitsLE8_inj (a b : UInt8) (h : bitsLE8 a = bitsLE8 b) : a = b := by
  have := congrArg leW h
  rw [leW_bitsLE8, leW_bitsLE8] at this
  have h2 := congrArg UInt32.toNat this
  rw [UInt8.toNat_toUInt32, UInt8.toNat_toUInt32] at h2
  exact UInt8.toNat_inj.mp h2

theorem bitsLE_append (a b : Bytes) : bitsLE (a ++ b) = bitsLE a ++ bitsLE b := by
  induction a with
  | nil => rfl
  | cons x a ih => simp [bitsLE, ih]

theorem bitsLE_length (d : Bytes) : (bitsLE d).length = 8 * d.length := by
  induction d with
  | nil => rfl
  | cons x d ih => simp only [bitsLE, List.length_append, bitsLE8_length, ih, List.length_cons]; omega

theorem bitsLE_inj (a b : Bytes) (hl : a.length = b.length) (h : bitsLE a = bitsLE b) : a = b := by
  induction a generalizing b with
  | nil => cases b with
    | nil => rfl
    | cons _ _ => cases hl
  | cons x a ih =>
    cases b with
    | nil => cases hl
    | cons y b =>
      simp only [bitsLE] at h
      obtain ⟨h1, h2⟩ := List.append_inj h (by simp [bitsLE8_length])
      rw [bitsLE8_inj x y h1, ih b (by simpa using hl) h2]

/-- the byte update is eight bit updates, least significant bit first -/
theorem crc32cByteBits_eq_bits (c : UInt32) (b : UInt8) :
    crc32cByteBits (c ^^^ b.toUInt32) = (bitsLE8 b).foldl crcBitU c := by
  rw [foldl_crcBitU_window _ (by simp [bitsLE8_length]), leW_bitsLE8, bitsLE8_length, crc32cByteBits_eq]

theorem foldl_bytes_eq_bits (d : Bytes) (c : UInt32) :
    d.foldl (fun c b => crc32cByteBits (c ^^^ b.toUInt32)) c = (bitsLE d).foldl crcBitU c := by
  induction d generalizing c with
  | nil => rfl
  | cons b d ih =>
    simp only [List.foldl_cons, bitsLE, List.foldl_append]
    rw [ih, crc32cByteBits_eq_bits]

/-- **CRC-32C (table driven, as executed) = the bit-serial CRC of the bit stream, for every input** -/
theorem crc32c_eq_bits (d : Bytes) : crc32c d = crc32cBits (bitsLE d) := by
  rw [crc32c_eq_bitwise]
  unfold crc32cBitwise crc32cBits
  rw [foldl_bytes_eq_bits]

/-- **burst errors of at most 32 bits (any alignment, in the bit order of the CRC) are detected** -/
theorem crc32c_burst32 (d d' : Bytes) (x u v y : List Bool) (hd : bitsLE d = x ++ u ++ y)
    (hd' : bitsLE d' = x ++ v ++ y) (hl : u.length = v.length) (h32 : u.length ≤ 32) (hne : d ≠ d') :
    crc32c d ≠ crc32c d' := by
  rw [crc32c_eq_bits, crc32c_eq_bits, hd, hd']
  apply crc32cBits_burst x u v y hl h32
  intro huv
  apply hne
  have hlen : d.length = d'.length := by
    have h1 := bitsLE_length d
    have h2 := bitsLE_length d'
    rw [hd] at h1; rw [hd'] at h2
    simp only [List.length_append] at h1 h2
    omega
  apply bitsLE_inj d d' hlen
  rw [hd, hd', huv]

/-- byte-aligned form: replacing up to four consecutive bytes by different ones changes the CRC -/
theorem crc32c_burst4 (p w w' q : Bytes) (hl : w.length = w'.length) (h4 : w.length ≤ 4)
    (hne : w ≠ w') : crc32c (p ++ w ++ q) ≠ crc32c (p ++ w' ++ q) := by
  apply crc32c_burst32 _ _ (bitsLE p) (bitsLE w) (bitsLE w') (bitsLE q)
  · simp only [bitsLE_append]
  · simp only [bitsLE_append]
  · rw [bitsLE_length, bitsLE_length, hl]
  · rw [bitsLE_length]; omega
  · intro h
    have h1 := List.append_cancel_right h
    exact hne (List.append_cancel_left h1)

end KV
