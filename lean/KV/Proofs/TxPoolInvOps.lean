import KV.Proofs.TxPoolInv
/-! `Good Φ` is preserved by every function of the pool model (property C17). -/
namespace KV.TxPool
open TxList
namespace Pool
variable {c : Chain} {Φ : Phi c}

theorem good_allRemove {p : Pool} (h : Good Φ p) (t : Tx) : Good Φ (p.allRemove t) :=
  h.frame rfl rfl rfl

theorem good_allRemoveL {p : Pool} (h : Good Φ p) (ts : List Tx) : Good Φ (p.allRemoveL ts) :=
  foldl_inv (Good Φ) allRemove ts p h (fun _ x _ hs => good_allRemove hs x)

theorem good_allAdd {p : Pool} (h : Good Φ p) (t : Tx) (loc : Bool) : Good Φ (p.allAdd t loc) :=
  h.frame rfl rfl rfl

theorem good_pnSetIfLower {p : Pool} (h : Good Φ p) (a n : Nat) : Good Φ (p.pnSetIfLower a n) := by
  unfold pnSetIfLower
  split
  · exact h
  · exact h.frame rfl rfl rfl

theorem good_enqueueTx {p : Pool} (h : Good Φ p) (t : Tx) (loc addAll : Bool)
    (ht : Φ.φq t.sender t) : Good Φ (p.enqueueTx t loc addAll).1 := by
  have hql := h.queGetD t.sender
  have h1 := h.setQueue t.sender _ (hql.add t p.cfg.priceBump ht)
  unfold enqueueTx
  simp only
  split
  · exact h.setQueue _ _ hql
  · split
    · split
      · exact good_allAdd (good_allRemove h1 _) _ _
      · exact good_allAdd h1 _ _
    · split
      · exact good_allRemove h1 _
      · exact h1

theorem good_removeTx {p : Pool} (h : Good Φ p) (hpq : Φ.PQ) (t : Tx) : Good Φ (p.removeTx t) := by
  unfold removeTx
  split
  · exact h
  · have h0 : Good Φ (p.allRemove t) := good_allRemove h t
    have hvia : Good Φ (match amGet (p.allRemove t).queue t.sender with
        | none => p.allRemove t
        | some ql =>
          if (ql.remove t.nonce).1.isEmpty then { p.allRemove t with queue := amErase (p.allRemove t).queue t.sender }
          else { p.allRemove t with queue := amSet (p.allRemove t).queue t.sender (ql.remove t.nonce).1 }) := by
      split
      · exact h0
      · rename_i ql hql
        split
        · exact h0.eraseQueue _
        · exact h0.setQueue _ _ ((h0.que _ _ hql).sub (wf_remove _ _ (h0.que _ _ hql).1) (remove_sub _ _))
    simp only
    split
    · exact hvia
    · rename_i pl hpl
      have hplg := h0.pend _ _ hpl
      split
      · apply good_pnSetIfLower
        apply foldl_inv (Good Φ)
        · split
          · exact h0.erasePending _
          · exact h0.setPending _ _ (hplg.sub (wf_remove _ _ hplg.1) (remove_sub _ _))
        · intro s x hx hs
          have hxp := hplg.2 x (remove_invalids_sub _ _ x hx)
          have hsnd := Φ.psnd _ _ hxp
          exact good_enqueueTx hs x false false (hsnd ▸ hpq _ _ hxp)
      · exact hvia

theorem validate_none {p : Pool} {t : Tx} {loc : Bool} (h : p.validate t loc = none) :
    p.stateNonce t.sender ≤ t.nonce ∧ t.cost ≤ p.balance t.sender ∧ t.gas ≤ p.chain.gasLimit := by
  unfold validate at h
  repeat (split at h; · cases h)
  omega

theorem good_addTail {p : Pool} (h : Good Φ p) (t : Tx) (isLocal loc : Bool)
    (hp : Φ.φp t.sender t) (hq : Φ.φq t.sender t) : Good Φ (p.addTail t isLocal loc).1 := by
  have h1 := h.setPending t.sender _ ((h.pendGetD t.sender).add t p.cfg.priceBump hp)
  have h2 := good_enqueueTx h t isLocal true hq
  unfold addTail
  simp only
  repeat' split
  all_goals first
    | exact h
    | exact good_allAdd (good_allRemove h1 _) _ _
    | exact good_allAdd h1 _ _
    | exact h2
    | exact h2.frame rfl rfl rfl

theorem good_addRoom {p : Pool} (h : Good Φ p) (hpq : Φ.PQ) (t : Tx) (isLocal loc : Bool)
    (hp : Φ.φp t.sender t) (hq : Φ.φq t.sender t) :
    ∀ r ∈ p.addRoom t isLocal loc, Good Φ r.1 := by
  intro r hr
  unfold addRoom at hr
  simp only at hr
  split at hr
  · split at hr
    · simp at hr; subst hr; exact h
    · split at hr
      · simp at hr; subst hr; exact h
      · simp only [List.mem_map] at hr
        obtain ⟨d, _, hd⟩ := hr
        cases d with
        | none => simp at hd; subst hd; exact h
        | some drop =>
          simp only at hd
          subst hd
          apply good_addTail _ t _ loc hp hq
          apply foldl_inv (Good Φ)
          · exact h.frame rfl rfl rfl
          · intro s x _ hs; exact good_removeTx hs hpq x
  · simp at hr; subst hr; exact good_addTail h t _ loc hp hq

theorem good_add {p : Pool} (h : Good Φ p) (hpq : Φ.PQ) (t : Tx) (loc : Bool) :
    ∀ r ∈ p.add t loc, Good Φ r.1 := by
  intro r hr
  unfold add at hr
  split at hr
  · simp at hr; subst hr; exact h
  · simp only at hr
    split at hr
    · simp at hr; subst hr; exact h
    · rename_i hv
      obtain ⟨v1, v2, v3⟩ := validate_none hv
      have hc := h.chain
      have hq : Φ.φq t.sender t := Φ.val t (by rw [← hc]; exact v1)
      have hp : Φ.φp t.sender t := Φ.qp _ _ hq (by rw [← hc]; exact v1) (by rw [← hc]; exact v2) (by rw [← hc]; exact v3)
      split at hr
      · simp at hr; subst hr; exact h
      · exact good_addRoom h hpq t _ loc hp hq r hr

theorem allRemoveL_queue (p : Pool) (ts : List Tx) : (p.allRemoveL ts).queue = p.queue :=
  foldl_inv (fun s : Pool => s.queue = p.queue) allRemove ts p rfl (fun _ _ _ hs => hs)
theorem allRemoveL_pending (p : Pool) (ts : List Tx) : (p.allRemoveL ts).pending = p.pending :=
  foldl_inv (fun s : Pool => s.pending = p.pending) allRemove ts p rfl (fun _ _ _ hs => hs)

theorem promoteTx_queue (p : Pool) (a : Nat) (t : Tx) : (p.promoteTx a t).queue = p.queue := by
  unfold promoteTx
  simp only
  repeat' split
  all_goals rfl

theorem good_promoteTx {p : Pool} (h : Good Φ p) (a : Nat) (t : Tx) (ht : Φ.φp a t) :
    Good Φ (p.promoteTx a t) := by
  have h0 := h.setPending a _ (h.pendGetD a)
  have h1 := h.setPending a _ ((h.pendGetD a).add t p.cfg.priceBump ht)
  unfold promoteTx
  simp only
  repeat' split
  all_goals first
    | exact good_allRemove h0 _
    | exact (good_allRemove h1 _).frame rfl rfl rfl
    | exact h1.frame rfl rfl rfl

theorem capIf_LAll {φ : Nat → Tx → Prop} {a : Nat} {l : TxList} (P : Prop) [Decidable P]
    (h : LAll φ a l) (k : Nat) : LAll φ a (if P then l.cap k else (l, [])).1 := by
  split
  · exact h.sub (wf_cap l k h.1) (cap_sub l k)
  · exact h

theorem capIf_sub {l : TxList} (P : Prop) [Decidable P] (k : Nat) :
    ∀ t ∈ (if P then l.cap k else (l, [])).1.txs, t ∈ l.txs := by
  split
  · exact cap_sub l k
  · exact fun _ h => h

/-- the last step of promote/demote: store the remaining list or delete the entry -/
theorem good_finishQueue {p4 : Pool} (h4 : Good Φ p4) (a : Nat) (l : TxList) (hl : LAll Φ.φq a l) :
    Good Φ (if l.isEmpty then { p4 with queue := amErase p4.queue a }
            else { p4 with queue := amSet p4.queue a l }) := by
  split
  · exact h4.eraseQueue a
  · exact h4.setQueue a l hl

theorem finishQueue_self (p4 : Pool) (a : Nat) (l l' : TxList)
    (h : amGet (if l.isEmpty then { p4 with queue := amErase p4.queue a }
            else { p4 with queue := amSet p4.queue a l }).queue a = some l') : l' = l := by
  split at h
  · simp only [amGet_amErase_self] at h; cases h
  · simp only [amGet_amSet_self] at h; cases h; rfl

theorem finishQueue_other (p4 : Pool) (a : Nat) (l : TxList) {b : Nat} (hb : b ≠ a) :
    amGet (if l.isEmpty then { p4 with queue := amErase p4.queue a }
            else { p4 with queue := amSet p4.queue a l }).queue b = amGet p4.queue b := by
  split
  · exact amGet_amErase_other _ hb
  · exact amGet_amSet_other _ _ hb

theorem good_finishPending {p4 : Pool} (h4 : Good Φ p4) (a : Nat) (l : TxList) (hl : LAll Φ.φp a l) :
    Good Φ (if l.isEmpty then { p4 with pending := amErase p4.pending a }
            else { p4 with pending := amSet p4.pending a l }) := by
  split
  · exact h4.erasePending a
  · exact h4.setPending a l hl

theorem finishPending_self (p4 : Pool) (a : Nat) (l l' : TxList)
    (h : amGet (if l.isEmpty then { p4 with pending := amErase p4.pending a }
            else { p4 with pending := amSet p4.pending a l }).pending a = some l') : l' = l := by
  split at h
  · simp only [amGet_amErase_self] at h; cases h
  · simp only [amGet_amSet_self] at h; cases h; rfl

theorem finishPending_other (p4 : Pool) (a : Nat) (l : TxList) {b : Nat} (hb : b ≠ a) :
    amGet (if l.isEmpty then { p4 with pending := amErase p4.pending a }
            else { p4 with pending := amSet p4.pending a l }).pending b = amGet p4.pending b := by
  split
  · exact amGet_amErase_other _ hb
  · exact amGet_amSet_other _ _ hb

/-- one account of `promoteExecutables`: the invariant is kept, the account's queue afterwards
holds no stale nonce, other accounts' queues are untouched -/
theorem promoteAccount_spec {p : Pool} (h : Good Φ p) (a : Nat) :
    Good Φ (p.promoteAccount a) ∧
    (∀ l, amGet (p.promoteAccount a).queue a = some l → ∀ t ∈ l.txs, stN c a ≤ t.nonce) ∧
    (∀ b, b ≠ a → amGet (p.promoteAccount a).queue b = amGet p.queue b) := by
  unfold promoteAccount
  split
  · rename_i hnone
    exact ⟨h, (by intro l hl; rw [hnone] at hl; cases hl), fun _ _ => rfl⟩
  · rename_i list hlist
    have hl0 := h.que a list hlist
    have hc := h.chain
    have hf1 : LAll Φ.φq a (list.forward (p.stateNonce a)).1 :=
      hl0.sub (wf_forward _ _ hl0.1) (forward_sub _ _)
    have hf2 : ∀ t ∈ (list.forward (p.stateNonce a)).1.txs, stN c a ≤ t.nonce := by
      intro t ht
      have := forward_ge _ _ t ht
      rw [← hc]; exact this
    have hd1 : LAll Φ.φq a ((list.forward (p.stateNonce a)).1.filter (p.balance a) p.chain.gasLimit).1 :=
      hf1.sub (wf_filter _ _ _ hf1.1) (filter_sub _ _ _)
    have hd2 : ∀ t ∈ ((list.forward (p.stateNonce a)).1.filter (p.balance a) p.chain.gasLimit).1.txs,
        stN c a ≤ t.nonce ∧ t.cost ≤ balOf c a ∧ t.gas ≤ c.gasLimit := by
      intro t ht
      have h1 := hf2 t (filter_sub _ _ _ t ht)
      have h2 := filter_payable _ hf1.1.2 _ _ t ht
      rw [← hc]; exact ⟨by rw [hc]; exact h1, h2.1, h2.2⟩
    have hp2 : Good Φ ((p.allRemoveL (list.forward (p.stateNonce a)).2).allRemoveL
        ((list.forward (p.stateNonce a)).1.filter (p.balance a) p.chain.gasLimit).2.1) :=
      good_allRemoveL (good_allRemoveL h _) _
    simp only
    -- the promotion fold
    have hstep : ∀ (start : Nat) (s : Pool) (x : Tx),
        x ∈ (((list.forward (p.stateNonce a)).1.filter (p.balance a) p.chain.gasLimit).1.ready start).2 →
        Good Φ s → Good Φ (s.promoteTx a x) := by
      intro start s x hx hs
      have hx' := ready_run_sub _ _ x hx
      have hq := hd1.2 x hx'
      obtain ⟨e1, e2, e3⟩ := hd2 x hx'
      exact good_promoteTx hs a x (Φ.qp a x hq e1 e2 e3)
    have hrd : ∀ start, LAll Φ.φq a
        (((list.forward (p.stateNonce a)).1.filter (p.balance a) p.chain.gasLimit).1.ready start).1 :=
      fun start => hd1.sub (wf_ready _ _ hd1.1) (ready_sub _ _)
    have hq3 : ∀ (start : Nat) (ts : List Tx),
        (((((list.forward (p.stateNonce a)).1.filter (p.balance a) p.chain.gasLimit).1.ready start).2.foldl
          (fun q t => q.promoteTx a t)
          ((p.allRemoveL (list.forward (p.stateNonce a)).2).allRemoveL
            ((list.forward (p.stateNonce a)).1.filter (p.balance a) p.chain.gasLimit).2.1)).allRemoveL ts).queue
          = p.queue := by
      intro start ts
      rw [allRemoveL_queue]
      refine foldl_inv (fun s : Pool => s.queue = p.queue) _ _ _ ?_ ?_
      · rw [allRemoveL_queue, allRemoveL_queue]
      · intro s x _ hs; rw [promoteTx_queue]; exact hs
    refine ⟨?_, ?_, ?_⟩
    · exact good_finishQueue (good_allRemoveL (foldl_inv (Good Φ) _ _ _ hp2 (hstep _)) _) a _
        (capIf_LAll _ (hrd _) _)
    · intro l hl
      have := finishQueue_self _ _ _ _ hl
      subst this
      intro t ht
      exact (hd2 t (ready_sub _ _ t (capIf_sub _ _ t ht))).1
    · intro b hb
      rw [finishQueue_other _ _ _ hb, hq3]

theorem capIf_drops_sub {l : TxList} (P : Prop) [Decidable P] (k : Nat) :
    ∀ t ∈ (if P then l.cap k else (l, [])).2, t ∈ l.txs := by
  split
  · exact cap_drops_sub l k
  · intro t ht; simp at ht

theorem enqueueTx_pending (p : Pool) (t : Tx) (loc addAll : Bool) :
    (p.enqueueTx t loc addAll).1.pending = p.pending := by
  unfold enqueueTx
  simp only
  repeat' split
  all_goals rfl

/-- one account of `demoteUnexecutables`: the invariant is kept, the account's pending list
afterwards holds no stale nonce and only payable transactions, other accounts' pending lists are
untouched -/
theorem demoteAccount_spec {p : Pool} (h : Good Φ p) (a : Nat) :
    Good Φ (p.demoteAccount a) ∧
    (∀ l, amGet (p.demoteAccount a).pending a = some l →
      ∀ t ∈ l.txs, stN c a ≤ t.nonce ∧ t.cost ≤ balOf c a ∧ t.gas ≤ c.gasLimit) ∧
    (∀ b, b ≠ a → amGet (p.demoteAccount a).pending b = amGet p.pending b) := by
  unfold demoteAccount
  split
  · rename_i hnone
    exact ⟨h, (by intro l hl; rw [hnone] at hl; cases hl), fun _ _ => rfl⟩
  · rename_i list hlist
    have hl0 := h.pend a list hlist
    have hc := h.chain
    have hf1 : LAll Φ.φp a (list.forward (p.stateNonce a)).1 :=
      hl0.sub (wf_forward _ _ hl0.1) (forward_sub _ _)
    have hf2 : ∀ t ∈ (list.forward (p.stateNonce a)).1.txs, stN c a ≤ t.nonce := by
      intro t ht
      have := forward_ge _ _ t ht
      rw [← hc]; exact this
    have hd1 : LAll Φ.φp a ((list.forward (p.stateNonce a)).1.filter (p.balance a) p.chain.gasLimit).1 :=
      hf1.sub (wf_filter _ _ _ hf1.1) (filter_sub _ _ _)
    have hd2 : ∀ t ∈ ((list.forward (p.stateNonce a)).1.filter (p.balance a) p.chain.gasLimit).1.txs,
        stN c a ≤ t.nonce ∧ t.cost ≤ balOf c a ∧ t.gas ≤ c.gasLimit := by
      intro t ht
      have h1 := hf2 t (filter_sub _ _ _ t ht)
      have h2 := filter_payable _ hf1.1.2 _ _ t ht
      rw [← hc]; exact ⟨by rw [hc]; exact h1, h2.1, h2.2⟩
    have hp2 : Good Φ ((p.allRemoveL (list.forward (p.stateNonce a)).2).allRemoveL
        ((list.forward (p.stateNonce a)).1.filter (p.balance a) p.chain.gasLimit).2.1) :=
      good_allRemoveL (good_allRemoveL h _) _
    -- everything that is moved to the queue comes from the forwarded list
    have henq : ∀ (s : Pool) (x : Tx), x ∈ (list.forward (p.stateNonce a)).1.txs →
        Good Φ s → Good Φ (s.enqueueTx x false false).1 := by
      intro s x hx hs
      have hxp := hf1.2 x hx
      have hsnd := Φ.psnd _ _ hxp
      exact good_enqueueTx hs x false false (hsnd ▸ Φ.pqf a x hxp (hf2 x hx))
    simp only
    have hpend : ∀ (ts1 ts2 : List Tx),
        (ts2.foldl (fun q t => (q.enqueueTx t false false).1)
          (ts1.foldl (fun q t => (q.enqueueTx t false false).1)
            ((p.allRemoveL (list.forward (p.stateNonce a)).2).allRemoveL
              ((list.forward (p.stateNonce a)).1.filter (p.balance a) p.chain.gasLimit).2.1))).pending
          = p.pending := by
      intro ts1 ts2
      refine foldl_inv (fun s : Pool => s.pending = p.pending) _ _ _ ?_ ?_
      · refine foldl_inv (fun s : Pool => s.pending = p.pending) _ _ _ ?_ ?_
        · rw [allRemoveL_pending, allRemoveL_pending]
        · intro s x _ hs; rw [enqueueTx_pending]; exact hs
      · intro s x _ hs; rw [enqueueTx_pending]; exact hs
    refine ⟨?_, ?_, ?_⟩
    · refine good_finishPending ?_ a _ (capIf_LAll _ hd1 _)
      refine foldl_inv (Good Φ) _ _ _ ?_ ?_
      · refine foldl_inv (Good Φ) _ _ _ hp2 ?_
        intro s x hx hs
        exact henq s x (filter_invalids_sub _ _ _ x hx) hs
      · intro s x hx hs
        exact henq s x (filter_sub _ _ _ x (capIf_drops_sub _ _ x hx)) hs
    · intro l hl
      have := finishPending_self _ _ _ _ hl
      subst this
      intro t ht
      exact hd2 t (capIf_sub _ _ t ht)
    · intro b hb
      rw [finishPending_other _ _ _ hb, hpend]

/-- folding a per-account step that keeps `I`, establishes `F` for its own account's entry and
leaves other accounts' entries alone -/
theorem fold_establish {σ : Type} (get : σ → Nat → Option TxList) (I : σ → Prop)
    (F : Nat → TxList → Prop) (f : σ → Nat → σ)
    (hspec : ∀ s a, I s → I (f s a) ∧ (∀ l, get (f s a) a = some l → F a l) ∧
      (∀ b, b ≠ a → get (f s a) b = get s b)) :
    ∀ (accts : List Nat) (s : σ), I s →
      I (accts.foldl f s) ∧ (∀ a, a ∉ accts → get (accts.foldl f s) a = get s a) ∧
      (∀ a, a ∈ accts → ∀ l, get (accts.foldl f s) a = some l → F a l) := by
  intro accts
  induction accts with
  | nil => intro s hs; exact ⟨hs, fun _ _ => rfl, fun _ ha => by simp at ha⟩
  | cons x rest ih =>
    intro s hs
    obtain ⟨h1, h2, h3⟩ := hspec s x hs
    obtain ⟨i1, i2, i3⟩ := ih (f s x) h1
    refine ⟨i1, ?_, ?_⟩
    · intro a ha
      simp only [List.mem_cons, not_or] at ha
      simp only [List.foldl_cons]
      rw [i2 a ha.2, h3 a ha.1]
    · intro a ha l hl
      simp only [List.foldl_cons] at hl
      by_cases har : a ∈ rest
      · exact i3 a har l hl
      · have hax : a = x := by
          rcases List.mem_cons.mp ha with h | h
          · exact h
          · exact absurd h har
        subst hax
        rw [i2 a har] at hl
        exact h2 l hl

theorem promoteExecutables_spec {p : Pool} (h : Good Φ p) (accts : List Nat) :
    Good Φ (p.promoteExecutables accts) ∧
    (∀ a, a ∉ accts → amGet (p.promoteExecutables accts).queue a = amGet p.queue a) ∧
    (∀ a, a ∈ accts → ∀ l, amGet (p.promoteExecutables accts).queue a = some l →
      ∀ t ∈ l.txs, stN c a ≤ t.nonce) :=
  fold_establish (fun (s : Pool) a => amGet s.queue a) (Good Φ) (fun a l => ∀ t ∈ l.txs, stN c a ≤ t.nonce)
    promoteAccount (fun _ a hs => promoteAccount_spec hs a) accts p h

theorem demoteUnexecutables_spec {p : Pool} (h : Good Φ p) :
    Good Φ p.demoteUnexecutables ∧
    (∀ a l, amGet p.demoteUnexecutables.pending a = some l →
      ∀ t ∈ l.txs, stN c a ≤ t.nonce ∧ t.cost ≤ balOf c a ∧ t.gas ≤ c.gasLimit) := by
  have := fold_establish (fun (s : Pool) a => amGet s.pending a) (Good Φ)
    (fun a l => ∀ t ∈ l.txs, stN c a ≤ t.nonce ∧ t.cost ≤ balOf c a ∧ t.gas ≤ c.gasLimit)
    demoteAccount (fun _ a hs => demoteAccount_spec hs a) (p.pending.map (·.1)) p h
  obtain ⟨h1, h2, h3⟩ := this
  refine ⟨h1, ?_⟩
  intro a l hl
  by_cases ha : a ∈ p.pending.map (·.1)
  · exact h3 a ha l hl
  · have hl' : amGet p.pending a = some l := by rw [← h2 a ha]; exact hl
    exact absurd (amGet_some_key _ _ _ hl') ha

end Pool
end KV.TxPool
