import KV.Proofs.Wire
import KV.Proofs.SignBytes
import KV.Proofs.Merkle
import KV.Model.HeaderWire
/-!
Injectivity of the header's and the commit signature's wire encoding, field by field (pattern of
`KV/Proofs/SignBytes.lean`). The header's last field (16, `num_txs`) has a two-byte key, handled
by `firstGt_fVarint16` / `fVarint_last_inj`. Core only.
-/
namespace KV.Wire

/-- field 16 has the key `80 01`; whatever it writes starts (if at all) with a byte `≥ 128` -/
theorem firstGt_fVarint16 (t n : Nat) (ht : t < 128) : firstGt t (fVarint 16 n) := by
  unfold fVarint
  split
  · exact firstGt_nil _
  · unfold tag wtVarint
    rw [varint_ge (16 * 8 + 0) (by decide)]
    simp only [List.cons_append]
    apply firstGt_cons
    rw [ofNat_toNat_lt _ (by decide)]
    omega

theorem tag_ne_nil (f wt : Nat) : tag f wt ≠ [] := varint_ne_nil _

/-- a last field (nothing after it), for any field number -/
theorem fVarint_last_inj {f a b : Nat} (h : fVarint f a = fVarint f b) : a = b := by
  unfold fVarint at h
  by_cases ha : a = 0 <;> by_cases hb : b = 0
  · omega
  · simp only [ha, hb, if_true, if_false] at h
    exact absurd (List.append_eq_nil_iff.mp h.symm).1 (tag_ne_nil _ _)
  · simp only [ha, hb, if_true, if_false] at h
    exact absurd (List.append_eq_nil_iff.mp h).1 (tag_ne_nil _ _)
  · simp only [ha, hb, if_false] at h
    exact varint_injective (List.append_cancel_left h)

end KV.Wire

namespace KV.HeaderWire
open KV KV.Wire KV.SignBytes

/-! ## the suffixes of the header body -/

def tail16 (h : Header) : Bytes := fVarint 16 h.numTxs
def tail15 (h : Header) : Bytes := fVarint 15 h.gasLimit ++ tail16 h
def tail14 (h : Header) : Bytes := fBytes 14 h.proposer ++ tail15 h
def tail13 (h : Header) : Bytes := fBytes 13 h.evidenceHash ++ tail14 h
def tail11 (h : Header) : Bytes := fBytes 11 h.appHash ++ tail13 h
def tail10 (h : Header) : Bytes := fBytes 10 h.consensusHash ++ tail11 h
def tail9 (h : Header) : Bytes := fBytes 9 h.nextValidatorsHash ++ tail10 h
def tail8 (h : Header) : Bytes := fBytes 8 h.validatorsHash ++ tail9 h
def tail7 (h : Header) : Bytes := fBytes 7 h.txHash ++ tail8 h
def tail6 (h : Header) : Bytes := fBytes 6 h.lastCommitHash ++ tail7 h

theorem headerBody_eq (h : Header) :
    headerBody h = fVarint 3 h.height ++ (fMsg 4 (tsBody h.time) ++
      (fMsg 5 (blockIDBody h.lastBlockID) ++ tail6 h)) := rfl

theorem tail16_gt (h : Header) (t : Nat) (ht : t < 128) : firstGt t (tail16 h) :=
  firstGt_fVarint16 t _ ht
theorem tail15_gt (h : Header) (t : Nat) (ht : t < 120) : firstGt t (tail15 h) :=
  firstGt_fVarint t 15 _ _ (by decide) (by omega) (tail16_gt h t (by omega))
theorem tail14_gt (h : Header) (t : Nat) (ht : t < 114) : firstGt t (tail14 h) :=
  firstGt_fBytes t 14 _ _ (by decide) (by omega) (tail15_gt h t (by omega))
theorem tail13_gt (h : Header) (t : Nat) (ht : t < 106) : firstGt t (tail13 h) :=
  firstGt_fBytes t 13 _ _ (by decide) (by omega) (tail14_gt h t (by omega))
theorem tail11_gt (h : Header) (t : Nat) (ht : t < 90) : firstGt t (tail11 h) :=
  firstGt_fBytes t 11 _ _ (by decide) (by omega) (tail13_gt h t (by omega))
theorem tail10_gt (h : Header) (t : Nat) (ht : t < 82) : firstGt t (tail10 h) :=
  firstGt_fBytes t 10 _ _ (by decide) (by omega) (tail11_gt h t (by omega))
theorem tail9_gt (h : Header) (t : Nat) (ht : t < 74) : firstGt t (tail9 h) :=
  firstGt_fBytes t 9 _ _ (by decide) (by omega) (tail10_gt h t (by omega))
theorem tail8_gt (h : Header) (t : Nat) (ht : t < 66) : firstGt t (tail8 h) :=
  firstGt_fBytes t 8 _ _ (by decide) (by omega) (tail9_gt h t (by omega))
theorem tail7_gt (h : Header) (t : Nat) (ht : t < 58) : firstGt t (tail7 h) :=
  firstGt_fBytes t 7 _ _ (by decide) (by omega) (tail8_gt h t (by omega))

/-- **the header body determines every field** -/
theorem headerBody_inj {a b : Header} (ha : InI64 a.time.secs) (hb : InI64 b.time.secs)
    (h : headerBody a = headerBody b) : a = b := by
  rw [headerBody_eq, headerBody_eq] at h
  obtain ⟨h3, h⟩ := fVarint_inj (f := 3) (by decide)
    (firstGt_fMsg _ 4 _ _ (by decide) (by decide)) (firstGt_fMsg _ 4 _ _ (by decide) (by decide)) h
  obtain ⟨h4, h⟩ := fMsg_inj h
  obtain ⟨h5, h⟩ := fMsg_inj h
  unfold tail6 at h
  obtain ⟨h6, h⟩ := fBytes_inj (f := 6) (by decide) (tail7_gt a _ (by decide)) (tail7_gt b _ (by decide)) h
  unfold tail7 at h
  obtain ⟨h7, h⟩ := fBytes_inj (f := 7) (by decide) (tail8_gt a _ (by decide)) (tail8_gt b _ (by decide)) h
  unfold tail8 at h
  obtain ⟨h8, h⟩ := fBytes_inj (f := 8) (by decide) (tail9_gt a _ (by decide)) (tail9_gt b _ (by decide)) h
  unfold tail9 at h
  obtain ⟨h9, h⟩ := fBytes_inj (f := 9) (by decide) (tail10_gt a _ (by decide)) (tail10_gt b _ (by decide)) h
  unfold tail10 at h
  obtain ⟨h10, h⟩ := fBytes_inj (f := 10) (by decide) (tail11_gt a _ (by decide)) (tail11_gt b _ (by decide)) h
  unfold tail11 at h
  obtain ⟨h11, h⟩ := fBytes_inj (f := 11) (by decide) (tail13_gt a _ (by decide)) (tail13_gt b _ (by decide)) h
  unfold tail13 at h
  obtain ⟨h13, h⟩ := fBytes_inj (f := 13) (by decide) (tail14_gt a _ (by decide)) (tail14_gt b _ (by decide)) h
  unfold tail14 at h
  obtain ⟨h14, h⟩ := fBytes_inj (f := 14) (by decide) (tail15_gt a _ (by decide)) (tail15_gt b _ (by decide)) h
  unfold tail15 at h
  obtain ⟨h15, h⟩ := fVarint_inj (f := 15) (by decide) (tail16_gt a _ (by decide)) (tail16_gt b _ (by decide)) h
  unfold tail16 at h
  have h16 := fVarint_last_inj h
  have h4' := tsBody_inj ha hb h4
  have h5' := blockIDBody_inj h5
  cases a; cases b; simp_all

theorem headerBytes_inj {a b : Header} {x : Bytes}
    (ha : headerBytes a = some x) (hb : headerBytes b = some x) : a = b := by
  unfold headerBytes at ha hb
  split at ha
  · rename_i va
    split at hb
    · rename_i vb
      simp only [Option.some.injEq] at ha hb
      exact headerBody_inj (Time.valid_inI64 va) (Time.valid_inI64 vb) (ha.trans hb.symm)
    · simp at hb
  · simp at ha

/-! ## commit signatures -/

theorem sigBody_inj {a b : CommitSig} (ha : InI64 a.timestamp.secs) (hb : InI64 b.timestamp.secs)
    (h : sigBody a = sigBody b) : a = b := by
  unfold sigBody at h
  obtain ⟨h1, h⟩ := fVarint_inj (f := 1) (by decide)
    (firstGt_fBytes _ 2 _ _ (by decide) (by decide) (firstGt_fMsg _ 3 _ _ (by decide) (by decide)))
    (firstGt_fBytes _ 2 _ _ (by decide) (by decide) (firstGt_fMsg _ 3 _ _ (by decide) (by decide))) h
  obtain ⟨h2, h⟩ := fBytes_inj (f := 2) (by decide)
    (firstGt_fMsg _ 3 _ _ (by decide) (by decide)) (firstGt_fMsg _ 3 _ _ (by decide) (by decide)) h
  obtain ⟨h3, h⟩ := fMsg_inj h
  have h4 : fBytes 4 a.signature ++ [] = fBytes 4 b.signature ++ [] := by simpa using h
  obtain ⟨h4, _⟩ := fBytes_inj (f := 4) (by decide) (firstGt_nil _) (firstGt_nil _) h4
  have h3' := tsBody_inj ha hb h3
  cases a; cases b; simp_all

theorem sigBytes_inj {a b : CommitSig} {x : Bytes}
    (ha : sigBytes a = some x) (hb : sigBytes b = some x) : a = b := by
  unfold sigBytes at ha hb
  split at ha
  · rename_i va
    split at hb
    · rename_i vb
      simp only [Option.some.injEq] at ha hb
      exact sigBody_inj (Time.valid_inI64 va) (Time.valid_inI64 vb) (ha.trans hb.symm)
    · simp at hb
  · simp at ha

theorem allSigBytes_inj : ∀ (xs ys : List CommitSig) (bs : List Bytes),
    allSigBytes xs = some bs → allSigBytes ys = some bs → xs = ys := by
  intro xs
  induction xs with
  | nil =>
    intro ys bs hx hy
    simp only [allSigBytes, Option.some.injEq] at hx
    subst hx
    cases ys with
    | nil => rfl
    | cons y ys =>
      simp only [allSigBytes] at hy
      split at hy <;> simp at hy
  | cons x xs ih =>
    intro ys bs hx hy
    simp only [allSigBytes] at hx
    split at hx
    · rename_i b bs' hb hbs
      simp only [Option.some.injEq] at hx
      subst hx
      cases ys with
      | nil => simp [allSigBytes] at hy
      | cons y ys =>
        simp only [allSigBytes] at hy
        split at hy
        · rename_i c cs hc hcs
          simp only [Option.some.injEq, List.cons.injEq] at hy
          obtain ⟨e1, e2⟩ := hy
          subst e1; subst e2
          rw [sigBytes_inj hb hc, ih ys _ hbs hcs]
        · simp at hy
    · simp at hx

theorem allSigBytes_ne_nil {xs : List CommitSig} {bs : List Bytes} (hne : xs ≠ [])
    (h : allSigBytes xs = some bs) : bs ≠ [] := by
  cases xs with
  | nil => exact absurd rfl hne
  | cons x xs =>
    simp only [allSigBytes] at h
    split at h
    · simp only [Option.some.injEq] at h; subst h; simp
    · simp at h

end KV.HeaderWire
