import KV.Proofs.CsStep
/-! Frame facts about `Cs.step` used by the network composition (`KV/Props/C01Cs.lean`):
the log only grows at the front (`Ext.log`), a non-empty slot of a vote set after a step was
non-empty before or is the vote just delivered, and `seen` grows only by the block just delivered
(`step_frame`).  Core Lean only. -/
namespace KV.Cs

/-- no vote appears in `v'` that is not in `v` -/
def NoNew (v v' : List RoundVotes) : Prop :=
  ∀ (t : VType) (h r idx : Nat) (tgt : Target),
    (slotsV v' t h r)[idx]? = some (some tgt) → (slotsV v t h r)[idx]? = some (some tgt)

theorem NoNew.refl (v : List RoundVotes) : NoNew v v := fun _ _ _ _ _ h => h
theorem NoNew.trans {a b c : List RoundVotes} (h1 : NoNew a b) (h2 : NoNew b c) : NoNew a c :=
  fun t h r idx tgt hc => h1 t h r idx tgt (h2 t h r idx tgt hc)

theorem NoNew_append_fresh (v : List RoundVotes) (n h r : Nat) : NoNew v (v ++ [fresh n h r]) := by
  intro t h' r' idx tgt hs
  unfold slotsV at *
  rw [findRV_append] at hs
  cases hf : findRV v h' r' with
  | some y => simpa [hf] using hs
  | none =>
    rw [hf] at hs
    by_cases hc : ((fresh n h r).height == h' && (fresh n h r).round == r') = true
    · simp only [hc, if_true] at hs
      cases t <;> simp [slotsOf, fresh, List.getElem?_replicate] at hs
    · simp only [hc] at hs
      simp at hs

/-- the step from `σ` to `σ'` only prepends actions to the log, adds no vote and no block -/
structure Ext (σ σ' : State) : Prop where
  log : ∃ new, σ'.log = new ++ σ.log
  votes : NoNew σ.votes σ'.votes
  seen : σ'.seen = σ.seen

theorem Ext.refl (σ : State) : Ext σ σ := ⟨⟨[], rfl⟩, NoNew.refl _, rfl⟩

theorem Ext.trans {a b c : State} (h1 : Ext a b) (h2 : Ext b c) : Ext a c := by
  obtain ⟨n1, e1⟩ := h1.log
  obtain ⟨n2, e2⟩ := h2.log
  exact ⟨⟨n2 ++ n1, by rw [e2, e1, List.append_assoc]⟩, h1.votes.trans h2.votes, by rw [h2.seen, h1.seen]⟩

theorem Ext.of_eq {σ σ' : State} (hl : σ'.log = σ.log) (hv : σ'.votes = σ.votes) (hs : σ'.seen = σ.seen) :
    Ext σ σ' :=
  ⟨⟨[], by rw [hl]; rfl⟩, by rw [hv]; exact NoNew.refl _, hs⟩

theorem Ext.of_eq_left {σ σ1 σ' : State} (e : Ext σ1 σ') (hl : σ1.log = σ.log) (hv : σ1.votes = σ.votes)
    (hs : σ1.seen = σ.seen) : Ext σ σ' := (Ext.of_eq hl hv hs).trans e

theorem Ext.of_eq_right {σ σ1 σ' : State} (e : Ext σ σ1) (hl : σ'.log = σ1.log) (hv : σ'.votes = σ1.votes)
    (hs : σ'.seen = σ1.seen) : Ext σ σ' := e.trans (Ext.of_eq hl hv hs)

theorem Ext.cons {σ σ' : State} (a : Action) (hl : σ'.log = a :: σ.log) (hv : σ'.votes = σ.votes)
    (hs : σ'.seen = σ.seen) : Ext σ σ' :=
  ⟨⟨[a], by rw [hl]; rfl⟩, by rw [hv]; exact NoNew.refl _, hs⟩

theorem emit_ext (a : Action) (σ : State) : Ext σ (emit a σ) := Ext.cons a rfl rfl rfl
theorem schedule_ext (h r : Nat) (s : Step) (σ : State) : Ext σ (schedule h r s σ) := Ext.cons _ rfl rfl rfl
theorem panic_ext (σ : State) : Ext σ (panic σ) := Ext.cons _ rfl rfl rfl

theorem signAddVote_ext (cfg : Config) (t : VType) (tgt : Target) (σ : State) :
    Ext σ (signAddVote cfg t tgt σ) := by
  unfold signAddVote
  split
  · exact emit_ext _ _
  · exact Ext.refl _

theorem doPrevote_ext (cfg : Config) (σ : State) : Ext σ (doPrevote cfg σ) := by
  unfold doPrevote
  (repeat' split) <;> exact signAddVote_ext ..

theorem enterPrevote_ext (cfg : Config) (h r : Nat) (σ : State) : Ext σ (enterPrevote cfg h r σ) := by
  unfold enterPrevote
  split
  · exact Ext.refl _
  · exact (doPrevote_ext cfg σ).of_eq_right rfl rfl rfl

theorem enterPrevoteWait_ext (h r : Nat) (σ : State) : Ext σ (enterPrevoteWait h r σ) := by
  unfold enterPrevoteWait
  split
  · exact Ext.refl _
  · exact (schedule_ext h r .prevoteWait σ).of_eq_right rfl rfl rfl

theorem enterPrecommitWait_ext (h r : Nat) (σ : State) : Ext σ (enterPrecommitWait h r σ) := by
  unfold enterPrecommitWait
  split
  · exact Ext.refl _
  · exact (schedule_ext h r .precommitWait σ).of_eq_right rfl rfl rfl

theorem precommitUnknown_ext (cfg : Config) (b : Nat) (σ : State) : Ext σ (precommitUnknown cfg b σ) := by
  unfold precommitUnknown
  simp only
  split
  · exact Ext.of_eq_left (signAddVote_ext ..) rfl rfl rfl
  · exact Ext.of_eq_left (signAddVote_ext ..) rfl rfl rfl

theorem doPrecommit_ext (cfg : Config) (r : Nat) (σ : State) : Ext σ (doPrecommit cfg r σ) := by
  unfold doPrecommit
  (repeat' split) <;>
    first
    | exact signAddVote_ext ..
    | exact precommitUnknown_ext ..
    | exact Ext.of_eq_left (signAddVote_ext ..) rfl rfl rfl

theorem enterPrecommit_ext (cfg : Config) (h r : Nat) (σ : State) : Ext σ (enterPrecommit cfg h r σ) := by
  unfold enterPrecommit
  split
  · exact Ext.refl _
  · split
    · exact Ext.refl _
    · exact (doPrecommit_ext cfg r σ).of_eq_right rfl rfl rfl

theorem newHeight_ext (cfg : Config) (σ : State) : Ext σ (newHeight cfg σ) :=
  ⟨⟨[_], rfl⟩, NoNew_append_fresh _ _ _ _, rfl⟩

theorem finalizeCommit_ext (cfg : Config) (h : Nat) (σ : State) : Ext σ (finalizeCommit cfg h σ) := by
  unfold finalizeCommit
  (repeat' split) <;>
    first
    | exact Ext.refl _
    | exact panic_ext _
    | exact (emit_ext _ σ).trans (newHeight_ext cfg _)

theorem tryFinalizeCommit_ext (cfg : Config) (h : Nat) (σ : State) : Ext σ (tryFinalizeCommit cfg h σ) := by
  unfold tryFinalizeCommit
  (repeat' split) <;> first | exact Ext.refl _ | exact finalizeCommit_ext ..

theorem takeLocked_ext (b : Nat) (σ : State) : Ext σ (takeLocked b σ) := by
  unfold takeLocked
  (repeat' split) <;> first | exact Ext.refl _ | exact Ext.of_eq rfl rfl rfl

theorem expectBlock_ext (b : Nat) (σ : State) : Ext σ (expectBlock b σ) := by
  unfold expectBlock
  (repeat' split) <;> first | exact Ext.refl _ | exact Ext.of_eq rfl rfl rfl

theorem commitPrep_ext (cfg : Config) (cr : Nat) (σ : State) : Ext σ (commitPrep cfg cr σ) := by
  unfold commitPrep
  split
  · exact (takeLocked_ext _ σ).trans (expectBlock_ext _ _)
  · exact Ext.refl _

theorem enterCommit_ext (cfg : Config) (h cr : Nat) (σ : State) : Ext σ (enterCommit cfg h cr σ) := by
  unfold enterCommit
  split
  · exact Ext.refl _
  · refine Ext.trans ?_ (tryFinalizeCommit_ext ..)
    exact (commitPrep_ext cfg cr σ).of_eq_right rfl rfl rfl

theorem decideProposal_ext (nb : Option Nat) (h r : Nat) (σ : State) : Ext σ (decideProposal nb h r σ) := by
  unfold decideProposal
  (repeat' split) <;> first | exact Ext.refl _ | exact emit_ext ..

theorem proposeBody_ext (cfg : Config) (nb : Option Nat) (h r : Nat) (σ : State) :
    Ext σ (proposeBody cfg nb h r σ) := by
  unfold proposeBody
  simp only
  split
  · exact (schedule_ext h r .propose σ).trans (decideProposal_ext ..)
  · exact schedule_ext ..

theorem proposeDone_ext (cfg : Config) (h : Nat) (σ : State) : Ext σ (proposeDone cfg h σ) := by
  unfold proposeDone
  split
  · exact enterPrevote_ext ..
  · exact Ext.refl _

theorem enterPropose_ext (cfg : Config) (nb : Option Nat) (h r : Nat) (σ : State) :
    Ext σ (enterPropose cfg nb h r σ) := by
  unfold enterPropose
  split
  · exact Ext.refl _
  · refine Ext.trans ?_ (proposeDone_ext ..)
    exact (proposeBody_ext cfg nb h r σ).of_eq_right rfl rfl rfl

theorem addRounds_ext (n : Nat) : ∀ (k r : Nat) (σ : State), Ext σ (addRounds n k r σ)
  | 0, _, σ => Ext.refl σ
  | k+1, r, σ => by
    unfold addRounds
    split
    · exact addRounds_ext n k (r+1) σ
    · exact (Ext.mk ⟨[], rfl⟩ (NoNew_append_fresh _ _ _ _) rfl : Ext σ (addRound n r σ)).trans
        (addRounds_ext n k (r+1) _)

theorem setRound_ext (n round : Nat) (σ : State) : Ext σ (setRound n round σ) := by
  unfold setRound
  exact (addRounds_ext n _ _ σ).of_eq_right rfl rfl rfl

theorem newRoundPrep_ext (cfg : Config) (r : Nat) (σ : State) : Ext σ (newRoundPrep cfg r σ) := by
  have key : ∀ τ : State, τ.log = σ.log → τ.votes = σ.votes → τ.seen = σ.seen →
      Ext σ { setRound (n cfg) (r + 1) τ with ttp := false } :=
    fun τ hl hv hs => Ext.of_eq_right (Ext.of_eq_left (setRound_ext (n cfg) (r + 1) τ) hl hv hs) rfl rfl rfl
  unfold newRoundPrep
  simp only
  split
  · exact key _ rfl rfl rfl
  · exact key _ rfl rfl rfl

theorem releaseStale_ext (cfg : Config) (σ : State) : Ext σ (releaseStale cfg σ) :=
  Ext.of_eq (by simp) (by simp) (by simp)

theorem enterNewRound_ext (cfg : Config) (nb : Option Nat) (h r : Nat) (σ : State) :
    Ext σ (enterNewRound cfg nb h r σ) := by
  unfold enterNewRound
  split
  · exact Ext.refl _
  · split
    · exact Ext.refl _
    · have E := (newRoundPrep_ext cfg r σ).trans (releaseStale_ext cfg _)
      simp only
      split
      · split
        · exact E.trans (schedule_ext ..)
        · exact E
      · exact E.trans (enterPropose_ext ..)

theorem setProposal_ext (cfg : Config) (src : Nat) (sigok : Bool) (h r pol id : Nat) (σ : State) :
    Ext σ (setProposal cfg src sigok h r pol id σ) := by
  unfold setProposal
  (repeat' split) <;> first | exact Ext.refl _ | exact Ext.of_eq rfl rfl rfl

theorem afterBlock_ext (cfg : Config) (h : Nat) (σ : State) : Ext σ (afterBlock cfg h σ) := by
  unfold afterBlock
  split
  · simp only
    split
    · exact (enterPrevote_ext cfg h σ.round σ).trans (enterPrecommit_ext ..)
    · exact enterPrevote_ext ..
  · split
    · exact tryFinalizeCommit_ext ..
    · exact Ext.refl _

theorem ensureRound_ext {cfg : Config} {σ σ1 : State} (peer r : Nat)
    (h : ensureRound cfg peer r σ = some σ1) : Ext σ σ1 := by
  unfold ensureRound at h
  split at h
  · cases h; exact Ext.refl _
  · split at h
    · cases h
      exact ⟨⟨[], rfl⟩, NoNew_append_fresh _ _ _ _, rfl⟩
    · cases h

theorem polkaUnlock_ext (vr : Nat) (bid : Target) (σ : State) : Ext σ (polkaUnlock vr bid σ) := by
  unfold polkaUnlock
  (repeat' split) <;> first | exact Ext.refl _ | exact Ext.of_eq rfl rfl rfl

theorem polkaValid_ext (vr b : Nat) (σ : State) : Ext σ (polkaValid vr b σ) := by
  unfold polkaValid
  split
  · simp only
    (repeat' split) <;> exact Ext.of_eq rfl rfl rfl
  · exact Ext.refl _

theorem polkaUpdate_ext (vr : Nat) (m : Option Target) (σ : State) : Ext σ (polkaUpdate vr m σ) := by
  unfold polkaUpdate
  split
  · simp only
    split
    · exact (polkaUnlock_ext vr _ σ).trans (polkaValid_ext ..)
    · exact polkaUnlock_ext ..
  · exact Ext.refl _

theorem prevoteSwitch_ext (cfg : Config) (nb : Option Nat) (h vr : Nat) (m : Option Target) (any : Bool)
    (σ : State) : Ext σ (prevoteSwitch cfg nb h vr m any σ) := by
  unfold prevoteSwitch
  (repeat' split) <;>
    first
    | exact Ext.refl _
    | exact enterNewRound_ext ..
    | exact enterPrecommit_ext ..
    | exact enterPrevoteWait_ext ..
    | exact enterPrevote_ext ..

theorem afterPrevote_ext (cfg : Config) (nb : Option Nat) (vr : Nat) (σ : State) :
    Ext σ (afterPrevote cfg nb vr σ) := by
  unfold afterPrevote
  exact (polkaUpdate_ext vr _ σ).trans (prevoteSwitch_ext ..)

theorem afterPrecommit_ext (cfg : Config) (nb : Option Nat) (vr : Nat) (σ : State) :
    Ext σ (afterPrecommit cfg nb vr σ) := by
  unfold afterPrecommit
  simp only
  split
  · split
    · exact ((enterNewRound_ext cfg nb σ.height vr σ).trans (enterPrecommit_ext ..)).trans (enterCommit_ext ..)
    · exact ((enterNewRound_ext cfg nb σ.height vr σ).trans (enterPrecommit_ext ..)).trans
        (enterPrecommitWait_ext ..)
  · split
    · exact (enterNewRound_ext cfg nb σ.height vr σ).trans (enterPrecommitWait_ext ..)
    · exact Ext.refl _

theorem handleTimeout_ext (cfg : Config) (nb : Option Nat) (h r : Nat) (s : Step) (σ : State) :
    Ext σ (handleTimeout cfg nb h r s σ) := by
  unfold handleTimeout
  split
  · exact Ext.refl _
  · split
    · exact enterNewRound_ext ..
    · exact enterPropose_ext ..
    · exact enterPrevote_ext ..
    · exact enterPrecommit_ext ..
    · exact (enterPrecommit_ext cfg h r σ).trans (enterNewRound_ext ..)
    · exact panic_ext _

/-! ### the places where a vote / a block is added -/

/-- what one input does to the log, to the vote sets and to the blocks seen:
`vote = some (idx, t, h, r, tgt)` when a vote of validator `idx` may have been added,
`blk = some b` when the complete block `b` may have been assembled -/
structure Frame (cfg : Config) (σ σ' : State) (vote : Option (Nat × VType × Nat × Nat × Target))
    (blk : Option Blk) : Prop where
  log : ∃ new, σ'.log = new ++ σ.log
  votes : ∀ t h r idx tgt, (slotsV σ'.votes t h r)[idx]? = some (some tgt) →
    (slotsV σ.votes t h r)[idx]? = some (some tgt) ∨ (vote = some (idx, t, h, r, tgt) ∧ idx < n cfg)
  seen : σ'.seen = σ.seen ∨ ∃ h b, blk = some b ∧ σ'.seen = (h, b) :: σ.seen

theorem Ext.frame {cfg : Config} {σ σ' : State} (e : Ext σ σ') (vote : Option (Nat × VType × Nat × Nat × Target))
    (blk : Option Blk) : Frame cfg σ σ' vote blk :=
  ⟨e.log, fun t h r idx tgt hs => Or.inl (e.votes t h r idx tgt hs), Or.inl e.seen⟩

theorem Frame.of_eq {cfg : Config} {σ σ' : State} {vote : Option (Nat × VType × Nat × Nat × Target)}
    {blk : Option Blk} (hl : σ'.log = σ.log) (hv : σ'.votes = σ.votes) (hs : σ'.seen = σ.seen) :
    Frame cfg σ σ' vote blk := (Ext.of_eq hl hv hs).frame _ _

theorem Frame.trans_ext {cfg : Config} {a b c : State} {vote : Option (Nat × VType × Nat × Nat × Target)}
    {blk : Option Blk} (f : Frame cfg a b vote blk) (e : Ext b c) : Frame cfg a c vote blk := by
  obtain ⟨n1, e1⟩ := f.log
  obtain ⟨n2, e2⟩ := e.log
  refine ⟨⟨n2 ++ n1, by rw [e2, e1, List.append_assoc]⟩,
    fun t h r idx tgt hs => f.votes t h r idx tgt (e.votes t h r idx tgt hs), ?_⟩
  rw [e.seen]; exact f.seen

theorem Ext.trans_frame {cfg : Config} {a b c : State} {vote : Option (Nat × VType × Nat × Nat × Target)}
    {blk : Option Blk} (e : Ext a b) (f : Frame cfg b c vote blk) : Frame cfg a c vote blk := by
  obtain ⟨n1, e1⟩ := e.log
  obtain ⟨n2, e2⟩ := f.log
  refine ⟨⟨n2 ++ n1, by rw [e2, e1, List.append_assoc]⟩, ?_, ?_⟩
  · intro t h r idx tgt hs
    rcases f.votes t h r idx tgt hs with h1 | h1
    · exact Or.inl (e.votes t h r idx tgt h1)
    · exact Or.inr h1
  · rw [← e.seen]; exact f.seen

theorem storeBlock_frame (cfg : Config) (blk : Blk) (σ : State) :
    Frame cfg σ (storeBlock cfg blk σ) none (some blk) := by
  unfold storeBlock
  simp only
  (repeat' split) <;>
    exact ⟨⟨[], rfl⟩, fun _ _ _ _ _ h => Or.inl h, Or.inr ⟨_, _, rfl, rfl⟩⟩

theorem addBlock_frame (cfg : Config) (h id : Nat) (ok dec : Bool) (σ : State) :
    Frame cfg σ (addBlock cfg h id ok dec σ) none (some ⟨id, ok⟩) := by
  unfold addBlock
  (repeat' split) <;>
    first
    | exact (Ext.refl σ).frame _ _
    | exact Frame.of_eq rfl rfl rfl
    | exact (storeBlock_frame cfg _ σ).trans_ext (afterBlock_ext ..)

theorem setSlot_prov (v : List RoundVotes) (t : VType) (idx : Nat) (tgt : Target) (h r : Nat)
    (t' : VType) (h' r' idx' : Nat) (tgt' : Target)
    (hs : (slotsV (v.map (setSlot t idx tgt h r)) t' h' r')[idx']? = some (some tgt')) :
    (slotsV v t' h' r')[idx']? = some (some tgt') ∨
      (t' = t ∧ h' = h ∧ r' = r ∧ idx' = idx ∧ tgt' = tgt) := by
  unfold slotsV at *
  rw [findRV_map_setSlot] at hs
  cases hf : findRV v h' r' with
  | none => rw [hf] at hs; simp at hs
  | some rv =>
    rw [hf] at hs
    simp only [Option.map_some] at hs
    rw [slotsOf_setSlot] at hs
    by_cases hc : ((rv.height == h && rv.round == r) && t' == t) = true
    · rw [if_pos hc] at hs
      simp only [Bool.and_eq_true, beq_iff_eq] at hc
      obtain ⟨⟨hh, hr⟩, ht⟩ := hc
      have hkey : rv.height = h' ∧ rv.round = r' := by
        have := List.find?_some hf
        simpa using this
      by_cases hi : idx = idx'
      · subst hi
        rw [List.getElem?_set] at hs
        simp only [if_true] at hs
        split at hs
        · right
          simp only [Option.some.injEq] at hs
          exact ⟨ht, by omega, by omega, rfl, hs.symm⟩
        · cases hs
      · rw [List.getElem?_set_ne hi] at hs
        exact Or.inl hs
    · rw [if_neg hc] at hs; exact Or.inl hs

theorem addVote_frame (cfg : Config) (nb : Option Nat) (peer idx : Nat) (t : VType) (h r : Nat) (tgt : Target)
    (sigok : Bool) (σ : State) :
    Frame cfg σ (addVote cfg nb peer idx t h r tgt sigok σ)
      (if sigok then some (idx, t, h, r, tgt) else none) none := by
  unfold addVote
  split
  · exact (Ext.refl σ).frame _ _
  · split
    · exact (Ext.refl σ).frame _ _
    · split
      · exact (Ext.refl σ).frame _ _
      · rename_i σ1 he
        have E1 := ensureRound_ext peer r he
        split
        · exact E1.frame _ _
        · rename_i hc
          have hc' : sigok = true ∧ idx < n cfg := by
            simpa using hc
          split
          · -- the vote is added
            have F2 : Frame cfg σ1 { σ1 with votes := σ1.votes.map (setSlot t idx tgt h r), added := true }
                (if sigok then some (idx, t, h, r, tgt) else none) none := by
              refine ⟨⟨[], rfl⟩, ?_, Or.inl rfl⟩
              intro t' h' r' idx' tgt' hs
              rcases setSlot_prov _ _ _ _ _ _ _ _ _ _ _ hs with h1 | ⟨e1, e2, e3, e4, e5⟩
              · exact Or.inl h1
              · right
                subst e1 e2 e3 e4 e5
                exact ⟨by rw [hc'.1]; rfl, hc'.2⟩
            split
            · exact (E1.trans_frame F2).trans_ext (afterPrevote_ext ..)
            · exact (E1.trans_frame F2).trans_ext (afterPrecommit_ext ..)
          · exact E1.frame _ _

/-- the vote a `vote` input carries when its signature verifies -/
def voteOf : Input → Option (Nat × VType × Nat × Nat × Target)
  | .vote _ idx t h r tgt sigok => if sigok then some (idx, t, h, r, tgt) else none
  | _ => none

/-- the block (with the validity answer) a `block` input carries -/
def blockOf : Input → Option Blk
  | .block _ id ok _ => some ⟨id, ok⟩
  | _ => none

theorem step_frame (cfg : Config) (σ : State) (nb : Option Nat) (i : Input) :
    Frame cfg σ (step cfg σ nb i) (voteOf i) (blockOf i) := by
  unfold step
  split
  · exact (Ext.refl σ).frame _ _
  · have E0 : Ext σ { σ with added := false } := Ext.of_eq rfl rfl rfl
    cases i with
    | proposal src sigok h r pol id => exact (E0.trans (setProposal_ext ..)).frame _ _
    | block h id ok dec => exact E0.trans_frame (addBlock_frame ..)
    | vote peer idx t h r tgt sigok => exact E0.trans_frame (addVote_frame ..)
    | timeout h r s => exact (E0.trans (handleTimeout_ext ..)).frame _ _

end KV.Cs
