import KV.Proofs.ValSetPath
import KV.Proofs.ValSetUpdateMain
/-!
# A-priori invariants of the specification run (C12 `no_starvation`, `proportional_share`,
`model_refines_spec`)

One round keeps the priority sum (the proposer pays exactly the total `T` that all validators
together gain), the proposer's priority after paying is at least `1 − T` (its priority before
paying is the maximum, hence at least the average, which is positive), nobody else loses anything.
So no priority ever falls below `min(prio₀, 1 − T)`; with the constant sum this bounds every
priority from above by `S + (n − 1)·L`.
-/
namespace KV.ValSet
open KV.I64

/-! ## sums against bounds -/

theorem sumBy_le_mul (f : Validator → Int) (l : List Validator) (M : Int) (h : ∀ v ∈ l, f v ≤ M) :
    sumBy f l ≤ (l.length : Int) * M := by
  induction l with
  | nil => simp
  | cons x xs ih =>
    have hx := h x List.mem_cons_self
    have := ih (fun y hy => h y (List.mem_cons_of_mem _ hy))
    rw [sumBy_cons, List.length_cons, Int.natCast_succ, Int.add_mul, Int.one_mul]; omega

theorem sumBy_ge_mul (f : Validator → Int) (l : List Validator) (M : Int) (h : ∀ v ∈ l, M ≤ f v) :
    (l.length : Int) * M ≤ sumBy f l := by
  induction l with
  | nil => simp
  | cons x xs ih =>
    have hx := h x List.mem_cons_self
    have := ih (fun y hy => h y (List.mem_cons_of_mem _ hy))
    rw [sumBy_cons, List.length_cons, Int.natCast_succ, Int.add_mul, Int.one_mul]; omega

theorem sumPrio_eq_sumBy (l : List Validator) : sumPrio l = sumBy (·.prio) l := rfl

theorem length_pos_int (l : List Validator) (hne : l ≠ []) : (0 : Int) < l.length := by
  cases l with
  | nil => exact absurd rfl hne
  | cons x xs => simp only [List.length_cons]; omega

/-- with every priority at least `−L`, a single priority is at most `S + (n − 1)·L` -/
theorem prio_le_of_lower (l : List Validator) (L : Int) (h : ∀ v ∈ l, -L ≤ v.prio)
    (v : Validator) (hv : v ∈ l) : v.prio ≤ sumPrio l + (l.length : Int) * L - L := by
  induction l with
  | nil => cases hv
  | cons x xs ih =>
    have hx := h x List.mem_cons_self
    have hrest : ∀ y ∈ xs, -L ≤ y.prio := fun y hy => h y (List.mem_cons_of_mem _ hy)
    rw [sumPrio_eq_sumBy, sumBy_cons, List.length_cons, Int.natCast_succ, Int.add_mul, Int.one_mul]
    rcases List.mem_cons.mp hv with rfl | hv
    · have := sumBy_ge_mul (·.prio) xs (-L) hrest
      rw [Int.mul_neg] at this; omega
    · have := ih hrest hv
      rw [sumPrio_eq_sumBy] at this; omega

/-- a centred list inside a window `W` has all priorities in `[−W, W]` -/
theorem centred_window_bound (l : List Validator) (W : Int)
    (hc : 0 ≤ sumPrio l ∧ sumPrio l < l.length)
    (hw : ∀ a ∈ l, ∀ b ∈ l, a.prio - b.prio ≤ W) (v : Validator) (hv : v ∈ l) :
    -W ≤ v.prio ∧ v.prio ≤ W := by
  have hne : l ≠ [] := fun e => by rw [e] at hv; cases hv
  have hn := length_pos_int l hne
  constructor
  · apply Classical.byContradiction
    intro hlt
    have := sumBy_le_mul (·.prio) l (-1) (fun a ha => by have := hw a ha v hv; omega)
    rw [← sumPrio_eq_sumBy] at this; omega
  · apply Classical.byContradiction
    intro hlt
    have := sumBy_ge_mul (·.prio) l 1 (fun a ha => by have := hw v hv a ha; omega)
    rw [← sumPrio_eq_sumBy] at this; omega

/-! ## one round -/

/-- the proposer of a round is the member whose priority after the gain is maximal -/
theorem Spec.step_argmax (T : Int) (l : List Validator) (hne : l ≠ [])
    (hn : (l.map (·.addr)).Nodup) :
    ∃ a, (Spec.step T l).2 = some a ∧ a ∈ l.map (·.addr) ∧
      ∀ v ∈ l, v.addr = a → ∀ u ∈ l, u.prio + u.power ≤ v.prio + v.power := by
  have hne' : (l.map fun v => ({ v with prio := v.prio + v.power } : Validator)) ≠ [] := by
    simpa using hne
  obtain ⟨m, hm, hmem, hall⟩ := mostest_spec _ hne'
  obtain ⟨v0, hv0, rfl⟩ := List.mem_map.mp hmem
  refine ⟨v0.addr, by unfold Spec.step; simp only [hm], List.mem_map.mpr ⟨v0, hv0, rfl⟩, ?_⟩
  intro v hv hva u hu
  have e : v = v0 := eq_of_nodup_map (·.addr) l hn v v0 hv hv0 hva
  subst e
  have := hall _ (List.mem_map.mpr ⟨u, hu, rfl⟩)
  unfold Dominates at this
  simp only at this
  omega

/-- what is carried from round to round: distinct addresses, `T = Σ power > 0`, non-negative
powers, non-negative priority sum, and the per-address lower bound `min(lb addr, 1 − T)` -/
structure RunInv (T : Int) (lb : Nat → Int) (l : List Validator) : Prop where
  ne : l ≠ []
  nodup : (l.map (·.addr)).Nodup
  tot : T = Spec.total l
  pow : ∀ v ∈ l, 0 ≤ v.power
  tpos : 0 < T
  sum0 : 0 ≤ sumPrio l
  low : ∀ v ∈ l, min (lb v.addr) (1 - T) ≤ v.prio

theorem Spec.step_map_addr (T : Int) (l : List Validator) (a : Nat) :
    (l.map fun v => if v.addr = a then ({ v with prio := v.prio + v.power - T } : Validator)
      else { v with prio := v.prio + v.power }).map (·.addr) = l.map (·.addr) := by
  rw [List.map_map]
  exact List.map_congr_left (fun v _ => by simp only [Function.comp]; split <;> rfl)

theorem Spec.step_map_power (T : Int) (l : List Validator) (a : Nat) :
    (l.map fun v => if v.addr = a then ({ v with prio := v.prio + v.power - T } : Validator)
      else { v with prio := v.prio + v.power }).map (·.power) = l.map (·.power) := by
  rw [List.map_map]
  exact List.map_congr_left (fun v _ => by simp only [Function.comp]; split <;> rfl)

/-- **one round keeps the invariant**, the priority sum, the addresses and the powers -/
theorem Spec.step_inv (T : Int) (lb : Nat → Int) (l : List Validator) (h : RunInv T lb l) :
    RunInv T lb (Spec.step T l).1 ∧ sumPrio (Spec.step T l).1 = sumPrio l ∧
    (Spec.step T l).1.map (·.addr) = l.map (·.addr) ∧
    (Spec.step T l).1.map (·.power) = l.map (·.power) := by
  obtain ⟨hne, hn, htot, hpow, htpos, hs0, hlow⟩ := h
  obtain ⟨a, ha, hamem, hmax⟩ := Spec.step_argmax T l hne hn
  have hsum := Spec.step_sum T l hne hn htot
  have hform := Spec.step_closed_form T l a ha
  have haddr : (Spec.step T l).1.map (·.addr) = l.map (·.addr) := by
    rw [hform]; exact Spec.step_map_addr T l a
  have hpower : (Spec.step T l).1.map (·.power) = l.map (·.power) := by
    rw [hform]; exact Spec.step_map_power T l a
  refine ⟨⟨?_, ?_, ?_, ?_, htpos, by rw [hsum]; exact hs0, ?_⟩, hsum, haddr, hpower⟩
  · rw [hform]; simpa using hne
  · rw [haddr]; exact hn
  · unfold Spec.total; rw [hpower]; exact htot
  · intro v hv
    have : v.power ∈ (Spec.step T l).1.map (·.power) := List.mem_map_of_mem (f := (·.power)) hv
    rw [hpower] at this
    obtain ⟨v0, hv0, e⟩ := List.mem_map.mp this
    rw [← e]; exact hpow v0 hv0
  · rw [hform]
    intro v hv
    obtain ⟨v0, hv0, rfl⟩ := List.mem_map.mp hv
    have hl0 := hlow v0 hv0
    have hp0 := hpow v0 hv0
    by_cases hva : v0.addr = a
    · simp only [hva, if_true]
      -- the proposer: its priority after the gain is at least the average, which is positive
      have hq := sumBy_le_mul (fun u => u.prio + u.power) l (v0.prio + v0.power)
        (fun u hu => hmax v0 hv0 hva u hu)
      have hsplit : sumBy (fun u => u.prio + u.power) l = sumPrio l + Spec.total l :=
        sumBy_add (·.prio) (·.power) l
      have hnpos := length_pos_int l hne
      have hq1 : 1 ≤ v0.prio + v0.power := by
        apply Classical.byContradiction
        intro hc
        have := Int.mul_le_mul_of_nonneg_left (a := v0.prio + v0.power) (b := 0)
          (c := (l.length : Int)) (by omega) (by omega)
        rw [Int.mul_zero] at this; omega
      omega
    · simp only [hva, if_false]
      omega

/-- **`k` rounds keep the invariant**, the priority sum and the length -/
theorem Spec.steps_inv (T : Int) (lb : Nat → Int) (k : Nat) (l : List Validator) (p : Option Nat)
    (h : RunInv T lb l) :
    RunInv T lb (Spec.steps T k l p).1 ∧ sumPrio (Spec.steps T k l p).1 = sumPrio l ∧
    (Spec.steps T k l p).1.length = l.length := by
  induction k generalizing l p with
  | zero => exact ⟨h, rfl, rfl⟩
  | succ k ih =>
    obtain ⟨h1, hs1, ha1, _⟩ := Spec.step_inv T lb l h
    obtain ⟨h2, hs2, hl2⟩ := ih (Spec.step T l).1 (Spec.step T l).2 h1
    have hlen : (Spec.step T l).1.length = l.length := by
      have := congrArg List.length ha1; simpa using this
    exact ⟨h2, by rw [← hs1]; exact hs2, by rw [← hlen]; exact hl2⟩

/-- a global lower bound `−L` (with `T − 1 ≤ L`) as an instance of the invariant -/
theorem RunInv.of_const (T L : Int) (l : List Validator) (hne : l ≠ [])
    (hn : (l.map (·.addr)).Nodup) (htot : T = Spec.total l) (hpow : ∀ v ∈ l, 0 ≤ v.power)
    (htpos : 0 < T) (hs0 : 0 ≤ sumPrio l) (hL : T - 1 ≤ L) (hlow : ∀ v ∈ l, -L ≤ v.prio) :
    RunInv T (fun _ => -L) l :=
  ⟨hne, hn, htot, hpow, htpos, hs0, fun v hv => by have := hlow v hv; omega⟩

theorem RunInv.lower_const (T L : Int) (l : List Validator) (h : RunInv T (fun _ => -L) l)
    (hL : T - 1 ≤ L) : ∀ v ∈ l, -L ≤ v.prio := fun v hv => by have := h.low v hv; omega

/-- all priorities of a state satisfying the invariant with the global bound `−L` lie in
`[−L, S + n·L − L]` -/
theorem RunInv.bounds (T L : Int) (l : List Validator) (h : RunInv T (fun _ => -L) l)
    (hL : T - 1 ≤ L) (v : Validator) (hv : v ∈ l) :
    -L ≤ v.prio ∧ v.prio ≤ sumPrio l + (l.length : Int) * L - L :=
  ⟨h.lower_const T L l hL v hv, prio_le_of_lower l L (h.lower_const T L l hL) v hv⟩

theorem total_pos (l : List Validator) (hne : l ≠ []) (hp : ∀ w ∈ l, 0 < w.power) :
    0 < Spec.total l := by
  cases l with
  | nil => exact absurd rfl hne
  | cons x xs =>
    have := hp x List.mem_cons_self
    have := sumBy_nonneg (·.power) xs (fun y hy => Int.le_of_lt (hp y (List.mem_cons_of_mem _ hy)))
    rw [total_eq_sumBy, sumBy_cons]; omega

/-- initial priority of the member with address `a` -/
def prio0 (l : List Validator) (a : Nat) : Int :=
  match findVal l a with
  | some u => u.prio
  | none => 0

/-- per validator: after any number of rounds its priority is at least `min(prio₀, 1 − T)` -/
theorem Spec.steps_lower_self (T : Int) (k : Nat) (l : List Validator) (p : Option Nat) (hne : l ≠ [])
    (hn : (l.map (·.addr)).Nodup) (htot : T = Spec.total l) (hpow : ∀ v ∈ l, 0 ≤ v.power)
    (htpos : 0 < T) (hs0 : 0 ≤ sumPrio l) (v : Validator) (hv : v ∈ l) (v' : Validator)
    (hv' : v' ∈ (Spec.steps T k l p).1) (ha : v'.addr = v.addr) : min v.prio (1 - T) ≤ v'.prio := by
  have hinv : RunInv T (prio0 l) l := ⟨hne, hn, htot, hpow, htpos, hs0, fun u hu => by
    unfold prio0; rw [findVal_of_mem_nodup l hn u hu]; simp only; omega⟩
  obtain ⟨hk, _, _⟩ := Spec.steps_inv T (prio0 l) k l p hinv
  have := hk.low v' hv'
  rw [ha] at this
  unfold prio0 at this
  rw [findVal_of_mem_nodup l hn v hv] at this
  exact this

/-- **the model's rounds are the specification's rounds for every `k`**: from a state satisfying
the invariant with global lower bound `−L` and priority sum `< n`, all priorities stay in
`[−L, n + n·L]`, so `n + n·L + 2T < 2^63` excludes every wrap and every clip. -/
theorem stepsList_eq_spec_inv (T L : Int) (k : Nat) (l : List Validator) (p : Option Nat)
    (h : RunInv T (fun _ => -L) l) (hL : T - 1 ≤ L) (hsn : sumPrio l < l.length)
    (hfit : (l.length : Int) + (l.length : Int) * L + 2 * T ≤ maxI64) :
    stepsList T k l p = Spec.steps T k l p := by
  induction k generalizing l p with
  | zero => rfl
  | succ k ih =>
    have htpos := h.tpos
    have hnpos := length_pos_int l h.ne
    have hnL : 1 * L ≤ (l.length : Int) * L := Int.mul_le_mul_of_nonneg_right (by omega) (by omega)
    rw [Int.one_mul] at hnL
    have hb : PrioBound ((l.length : Int) + (l.length : Int) * L) l := by
      intro v hv
      have := h.bounds T L l hL v hv
      omega
    have hp : PowBound T l := by
      intro v hv
      refine ⟨h.pow v hv, ?_⟩
      have := power_le_total l h.pow v hv
      rw [h.tot, total_eq_sumBy]; exact this
    have e1 : stepList T l = Spec.step T l := stepList_eq_spec _ T l hb hp (by omega) (by omega)
    obtain ⟨h1, hs1, ha1, _⟩ := Spec.step_inv T _ l h
    have hlen : (Spec.step T l).1.length = l.length := by
      have := congrArg List.length ha1; simpa using this
    show stepsList T k (stepList T l).1 (stepList T l).2 = Spec.steps T k (Spec.step T l).1 (Spec.step T l).2
    rw [e1]
    exact ih (Spec.step T l).1 (Spec.step T l).2 h1 (by rw [hs1, hlen]; exact hsn) (by rw [hlen]; exact hfit)

end KV.ValSet
