import KV.Proofs.TrieMap
/-! Normal form of trie nodes and its uniqueness (property C07, part 3): two tries in normal form
that answer every `get` alike are *equal*. -/
namespace KV.Trie
open KV

/-- the normal form of a non-empty subtrie (reached with a non-empty valid key suffix to consume):
a short node is a leaf (terminated key, value child) or an extension (non-empty nibble key, full
node child — never a nested short node); a full node has at least two non-nil children, slot 16
holds a value or nil, nothing lives beyond slot 16 -/
def Canon : Node → Prop
  | .nil => False
  | .value _ => False
  | .hash _ => False
  | .short sk c =>
    (VKey sk ∧ ∃ v, c = .value v) ∨ (sk ≠ [] ∧ Nibbles sk ∧ (∃ cs, c = .full cs) ∧ Canon c)
  | .full cs =>
    (∀ i, i < 16 → cs i = .nil ∨ Canon (cs i)) ∧ (cs 16 = .nil ∨ ∃ v, cs 16 = .value v) ∧
    (∀ i, i > 16 → cs i = .nil) ∧ (∃ i j, i < j ∧ j ≤ 16 ∧ cs i ≠ .nil ∧ cs j ≠ .nil)

theorem canon_wf : ∀ n, Canon n → WF n := by
  intro n
  induction n with
  | nil => intro h; exact absurd h (by simp [Canon])
  | value v => intro h; exact absurd h (by simp [Canon])
  | hash h => intro h; exact absurd h (by simp [Canon])
  | short sk c ih =>
    intro h
    rcases h with h | ⟨_, hn, _, hc⟩
    · exact Or.inl h
    · exact Or.inr ⟨hn, ih hc⟩
  | full cs ih =>
    intro h
    refine ⟨?_, h.2.1⟩
    intro i hi
    rcases h.1 i hi with e | hc
    · rw [e]; trivial
    · exact ih i hc

theorem get_short_append (p : Key) (c : Node) (r : Key) :
    get (.short p c) (p ++ r) = get c r := by
  simp [get, isPrefixOf_self_append, drop_len_append]

theorem get_leaf_self (p : Key) (v : Bytes) : get (.short p (.value v)) p = some (some v) := by
  have := get_short_append p (.value v) []
  simpa [get] using this

theorem get_short_some {sk : Key} {c : Node} {k : Key} {v : Bytes}
    (h : get (.short sk c) k = some (some v)) : ∃ r, k = sk ++ r := by
  simp only [get] at h
  by_cases hp : sk.isPrefixOf k = true
  · exact isPrefixOf_split hp
  · simp [hp] at h

/-- a normal-form subtrie stores at least one key -/
theorem canon_nonempty : ∀ n, Canon n → ∃ k v, VKey k ∧ get n k = some (some v) := by
  intro n
  induction n with
  | nil => intro h; exact absurd h (by simp [Canon])
  | value v => intro h; exact absurd h (by simp [Canon])
  | hash h => intro h; exact absurd h (by simp [Canon])
  | short sk c ih =>
    intro h
    rcases h with ⟨hv, v, rfl⟩ | ⟨_, hn, _, hc⟩
    · refine ⟨sk, v, hv, ?_⟩
      have := get_short_append sk (.value v) []
      simpa [get] using this
    · rcases ih hc with ⟨k, v, hk, hg⟩
      exact ⟨sk ++ k, v, vkey_nibbles_append sk k hn hk, by rw [get_short_append]; exact hg⟩
  | full cs ih =>
    intro h
    rcases h.2.2.2 with ⟨i, j, hij, hj, hi, _⟩
    have hi16 : i < 16 := by omega
    rcases h.1 i hi16 with e | hc
    · exact absurd e hi
    · rcases ih i hc with ⟨k, v, hk, hg⟩
      refine ⟨i :: k, v, (vkey_cons (vkey_ne_nil hk)).2 ⟨hi16, hk⟩, ?_⟩
      rw [get_full_cons _ _ _ (by omega)]; exact hg

/-- every non-nil child of a normal-form full node stores a key -/
theorem canon_child_key {cs : Nat → Node} (h : Canon (.full cs)) {i : Nat} (hi : i ≤ 16)
    (hne : cs i ≠ .nil) : ∃ r v, VKey (i :: r) ∧ get (.full cs) (i :: r) = some (some v) := by
  by_cases h16 : i = 16
  · subst h16
    rcases h.2.1 with e | ⟨v, e⟩
    · exact absurd e hne
    · exact ⟨[], v, by simp [VKey], by rw [get_full_cons _ _ _ hi, e]; simp [get]⟩
  · have hi16 : i < 16 := by omega
    rcases h.1 i hi16 with e | hc
    · exact absurd e hne
    · rcases canon_nonempty _ hc with ⟨k, v, hk, hg⟩
      exact ⟨k, v, (vkey_cons (vkey_ne_nil hk)).2 ⟨hi16, hk⟩, by
        rw [get_full_cons _ _ _ hi]; exact hg⟩

/-- a normal-form full node stores a key whose first nibble differs from any given one -/
theorem canon_full_other {cs : Nat → Node} (h : Canon (.full cs)) (b : Nat) :
    ∃ i r v, i ≠ b ∧ VKey (i :: r) ∧ get (.full cs) (i :: r) = some (some v) := by
  rcases h.2.2.2 with ⟨i, j, hij, hj, hi, hjn⟩
  by_cases e : i = b
  · rcases canon_child_key h hj hjn with ⟨r, v, h1, h2⟩
    exact ⟨j, r, v, by omega, h1, h2⟩
  · rcases canon_child_key h (by omega) hi with ⟨r, v, h1, h2⟩
    exact ⟨i, r, v, e, h1, h2⟩

theorem append_cons_prefix_conflict {p : Key} {a b : Nat} {s1 s2 r1 r2 : Key}
    (h : p ++ a :: s1 ++ r1 = p ++ b :: s2 ++ r2) : a = b := by
  simp only [List.append_assoc, List.cons_append] at h
  have := List.append_cancel_left h
  simp only [List.cons.injEq] at this
  exact this.1

/-- a short node whose key properly extends `p` by nibble `b` cannot agree with a trie that
stores a key `p ++ i :: _` with `i ≠ b` -/
theorem short_conflict {p : Key} {b : Nat} {s2 : Key} {c2 : Node} {i : Nat} {r : Key} {v : Bytes}
    (hib : i ≠ b) (h : get (.short (p ++ b :: s2) c2) (p ++ i :: r) = some (some v)) : False := by
  rcases get_short_some h with ⟨t, ht⟩
  have : p ++ i :: r ++ [] = p ++ b :: s2 ++ t := by simpa using ht
  exact hib (append_cons_prefix_conflict this)

/-- UNIQUENESS OF THE NORMAL FORM: two normal-form tries that agree on every valid key are equal -/
theorem canon_unique : ∀ n1, Canon n1 → ∀ n2, Canon n2 →
    (∀ k, VKey k → get n1 k = get n2 k) → n1 = n2 := by
  intro n1
  induction n1 with
  | nil => intro h; exact absurd h (by simp [Canon])
  | value v => intro h; exact absurd h (by simp [Canon])
  | hash h => intro h; exact absurd h (by simp [Canon])
  | short sk1 c1 ih =>
    intro h1 n2 h2 hg
    cases n2 with
    | nil => exact absurd h2 (by simp [Canon])
    | value v => exact absurd h2 (by simp [Canon])
    | hash h => exact absurd h2 (by simp [Canon])
    | full cs2 =>
      -- all keys of n1 start with the first nibble of sk1; n2 has a key starting otherwise
      exfalso
      have hsk1 : sk1 ≠ [] := by
        rcases h1 with ⟨hv, _⟩ | ⟨hne, _⟩
        · exact vkey_ne_nil hv
        · exact hne
      cases sk1 with
      | nil => exact hsk1 rfl
      | cons a s =>
        rcases canon_full_other h2 a with ⟨i, r, v, hia, hk, hgv⟩
        rw [← hg _ hk] at hgv
        have : get (.short ([] ++ a :: s) c1) ([] ++ i :: r) = some (some v) := by simpa using hgv
        exact short_conflict hia this
    | short sk2 c2 =>
      rcases prefixLen_split sk1 sk2 with ⟨p, s1, s2, e1, e2, _, hcase⟩
      subst e1 e2
      -- keys stored in n1 and n2
      rcases canon_nonempty _ h1 with ⟨ka, va, hka, hga⟩
      rcases canon_nonempty _ h2 with ⟨kb, vb, hkb, hgb⟩
      have hga2 := hga; rw [hg _ hka] at hga2
      have hgb1 := hgb; rw [← hg _ hkb] at hgb1
      -- a proper extension on one side only is impossible
      have ext_conflict : ∀ (p : Key) (b : Nat) (s2 : Key) (c1 c2 : Node),
          Canon (.short p c1) → Canon (.short (p ++ b :: s2) c2) →
          (∀ k, VKey k → get (.short p c1) k = get (.short (p ++ b :: s2) c2) k) → False := by
        intro p b s2 c1 c2 h1 h2 hg
        rcases h1 with ⟨hv, v, rfl⟩ | ⟨_, hn, ⟨cs, rfl⟩, hc⟩
        · have h := get_leaf_self p v
          rw [hg _ hv] at h
          rcases get_short_some h with ⟨t, ht⟩
          have := congrArg List.length ht
          simp at this
        · rcases canon_full_other hc b with ⟨i, r, v, hib, hk, hgv⟩
          have hk' : VKey (p ++ i :: r) := vkey_nibbles_append p _ hn hk
          have h := get_short_append p (.full cs) (i :: r)
          rw [hgv, hg _ hk'] at h
          exact short_conflict hib h
      by_cases hs1 : s1 = []
      · by_cases hs2 : s2 = []
        · -- equal keys: compare the children
          subst hs1 hs2
          simp only [List.append_nil] at *
          rcases h1 with ⟨hv1, v1, rfl⟩ | ⟨_, hn1, ⟨cs1, rfl⟩, hc1⟩
          · rcases h2 with ⟨_, v2, rfl⟩ | ⟨_, hn2, _, _⟩
            · have := hg p hv1
              rw [get_leaf_self, get_leaf_self] at this
              simp only [Option.some.injEq] at this
              rw [this]
            · exact absurd (vkey_mem16 _ hv1) (nibbles_not16 hn2)
          · rcases h2 with ⟨hv2, _⟩ | ⟨_, hn2, ⟨cs2, rfl⟩, hc2⟩
            · exact absurd (vkey_mem16 _ hv2) (nibbles_not16 hn1)
            · have : Node.full cs1 = Node.full cs2 := by
                apply ih hc1 _ hc2
                intro k hk
                have hk' : VKey (p ++ k) := vkey_nibbles_append p k hn1 hk
                have := hg _ hk'
                rwa [get_short_append, get_short_append] at this
              rw [this]
        · exfalso
          cases s2 with
          | nil => exact hs2 rfl
          | cons b s2 =>
            subst hs1
            simp only [List.append_nil] at h1 hg
            exact ext_conflict p b s2 c1 c2 h1 h2 hg
      · rcases hcase with e | e | ⟨a, b, s1', s2', e1, e2, hab⟩
        · exact absurd e hs1
        · exfalso
          subst e
          cases s1 with
          | nil => exact hs1 rfl
          | cons a s1 =>
            simp only [List.append_nil] at h2 hg
            exact ext_conflict p a s1 c2 c1 h2 h1 (fun k hk => (hg k hk).symm)
        · -- the keys diverge: a key of n1 cannot be read from n2
          exfalso
          subst e1 e2
          rcases get_short_some hga with ⟨t1, ht1⟩
          rcases get_short_some hga2 with ⟨t2, ht2⟩
          rw [ht1] at ht2
          exact hab (append_cons_prefix_conflict ht2).symm
  | full cs1 ih =>
    intro h1 n2 h2 hg
    cases n2 with
    | nil => exact absurd h2 (by simp [Canon])
    | value v => exact absurd h2 (by simp [Canon])
    | hash h => exact absurd h2 (by simp [Canon])
    | short sk2 c2 =>
      exfalso
      have hsk2 : sk2 ≠ [] := by
        rcases h2 with ⟨hv, _⟩ | ⟨hne, _⟩
        · exact vkey_ne_nil hv
        · exact hne
      cases sk2 with
      | nil => exact hsk2 rfl
      | cons a s =>
        rcases canon_full_other h1 a with ⟨i, r, v, hia, hk, hgv⟩
        rw [hg _ hk] at hgv
        have : get (.short ([] ++ a :: s) c2) ([] ++ i :: r) = some (some v) := by simpa using hgv
        exact short_conflict hia this
    | full cs2 =>
      have hchild : ∀ i, cs1 i = cs2 i := by
        intro i
        by_cases hi : i < 16
        · have hgi : ∀ r, VKey r → get (cs1 i) r = get (cs2 i) r := by
            intro r hr
            have hk : VKey (i :: r) := (vkey_cons (vkey_ne_nil hr)).2 ⟨hi, hr⟩
            have := hg _ hk
            rwa [get_full_cons _ _ _ (by omega), get_full_cons _ _ _ (by omega)] at this
          rcases h1.1 i hi with e1 | c1 <;> rcases h2.1 i hi with e2 | c2
          · rw [e1, e2]
          · exfalso
            rcases canon_nonempty _ c2 with ⟨k, v, hk, hgv⟩
            rw [← hgi k hk, e1] at hgv
            simp [get] at hgv
          · exfalso
            rcases canon_nonempty _ c1 with ⟨k, v, hk, hgv⟩
            rw [hgi k hk, e2] at hgv
            simp [get] at hgv
          · exact ih i c1 _ c2 hgi
        · by_cases h16 : i = 16
          · subst h16
            have := hg [16] (by simp [VKey])
            rw [get_full_cons _ _ _ (by omega), get_full_cons _ _ _ (by omega)] at this
            rcases h1.2.1 with e1 | ⟨v1, e1⟩ <;> rcases h2.2.1 with e2 | ⟨v2, e2⟩ <;>
              rw [e1, e2] at this ⊢ <;> simp [get] at this ⊢
            exact this
          · rw [h1.2.2.1 i (by omega), h2.2.2.1 i (by omega)]
      have : cs1 = cs2 := funext hchild
      rw [this]

/-! ## `insert` preserves the normal form -/

theorem canon_ne_nil {n : Node} (h : Canon n) : n ≠ .nil := by
  intro e; subst e; exact absurd h (by simp [Canon])

/-- replacing a child by a non-nil node keeps "at least two non-nil children" -/
theorem two_children_setC {cs : Nat → Node} {x : Nat} {c' : Node} (hc : c' ≠ .nil)
    (h : ∃ i j, i < j ∧ j ≤ 16 ∧ cs i ≠ .nil ∧ cs j ≠ .nil) :
    ∃ i j, i < j ∧ j ≤ 16 ∧ setC cs x c' i ≠ .nil ∧ setC cs x c' j ≠ .nil := by
  rcases h with ⟨i, j, hij, hj, hi, hjn⟩
  refine ⟨i, j, hij, hj, ?_, ?_⟩
  · unfold setC; by_cases e : i = x <;> simp [e, hc, hi]
  · unfold setC; by_cases e : j = x <;> simp [e, hc, hjn]

theorem canon_setC {cs : Nat → Node} {x : Nat} {c' : Node} (h : Canon (.full cs)) (hx : x < 16)
    (hc : Canon c') : Canon (.full (setC cs x c')) := by
  refine ⟨?_, ?_, ?_, two_children_setC (canon_ne_nil hc) h.2.2.2⟩
  · intro i hi
    unfold setC
    by_cases e : i = x
    · simp [e, hc]
    · simp only [e, if_false]; exact h.1 i hi
  · have : ¬ 16 = x := by omega
    simp only [setC, this, if_false]; exact h.2.1
  · intro i hi
    have : ¬ i = x := by omega
    simp only [setC, this, if_false]; exact h.2.2.1 i hi

theorem canon_setC16 {cs : Nat → Node} {v : Bytes} (h : Canon (.full cs)) :
    Canon (.full (setC cs 16 (.value v))) := by
  refine ⟨?_, Or.inr ⟨v, by simp [setC]⟩, ?_, two_children_setC (by simp) h.2.2.2⟩
  · intro i hi
    have : ¬ i = 16 := by omega
    simp only [setC, this, if_false]; exact h.1 i hi
  · intro i hi
    have : ¬ i = 16 := by omega
    simp only [setC, this, if_false]; exact h.2.2.1 i hi

theorem insert_full_is_full {cs : Nat → Node} {x : Nat} {k : Key} {v : Bytes} {d : Bool}
    {n' : Node} (h : insert (.full cs) (x :: k) v = some (d, n')) : ∃ cs', n' = .full cs' := by
  rw [insert] at h
  by_cases hx : x > 16
  · simp [hx] at h
  · simp only [hx, if_false] at h
    cases hi : insert (cs x) k v with
    | none => simp [hi] at h
    | some r =>
      rcases r with ⟨d', c'⟩
      cases d' <;> simp [hi] at h <;> exact ⟨_, h.2.symm⟩

theorem canon_mkLeaf_ext {s : Key} {cs : Nat → Node} (hs : Nibbles s) (h : Canon (.full cs)) :
    Canon (mkLeaf s (.full cs)) := by
  unfold mkLeaf
  by_cases e : s = []
  · simp [e, h]
  · simp only [e, if_false]; exact Or.inr ⟨e, hs, ⟨cs, rfl⟩, h⟩

/-- `insert` maps the empty trie / a normal-form trie to a normal-form trie -/
theorem insert_canon : ∀ n, (n = .nil ∨ Canon n) → ∀ k, VKey k → ∀ v d n',
    insert n k v = some (d, n') → Canon n' := by
  intro n
  induction n with
  | nil =>
    intro _ k hk v d n' h
    have hne := vkey_ne_nil hk
    simp [insert, hne] at h
    rw [← h.2]; exact Or.inl ⟨hk, v, rfl⟩
  | value w => intro h; rcases h with h | h <;> simp [Canon] at h
  | hash w => intro h; rcases h with h | h <;> simp [Canon] at h
  | short sk c ih =>
    intro hc k hk v d n' hins
    have hcan : Canon (.short sk c) := by
      rcases hc with h | h
      · cases h
      · exact h
    have hne := vkey_ne_nil hk
    rcases prefixLen_split k sk with ⟨p, k2, s2, hk_eq, hsk_eq, _, hcase⟩
    subst hk_eq hsk_eq
    by_cases hs2 : s2 = []
    · subst hs2
      simp only [List.append_nil] at hcan ih hins
      rw [insert_short_match p k2 c v hne] at hins
      rcases hcan with ⟨hvp, w, rfl⟩ | ⟨hpne, hnp, ⟨cs, rfl⟩, hcc⟩
      · have hk2 := vkey_prefix_free p k2 hk hvp
        subst hk2
        by_cases hwv : w = v
        · simp [insert, hwv] at hins
          rw [← hins.2]; exact Or.inl ⟨hvp, v, rfl⟩
        · simp [insert, hwv] at hins
          rw [← hins.2]; exact Or.inl ⟨hvp, v, rfl⟩
      · have hk2ne : k2 ≠ [] := by
          intro e; subst e
          rw [List.append_nil] at hk
          exact nibbles_not16 hnp (vkey_mem16 _ hk)
        have hvk2 := (vkey_append p k2 hk hk2ne).2
        cases hi : insert (.full cs) k2 v with
        | none => simp [hi] at hins
        | some r =>
          rcases r with ⟨d', c'⟩
          have hc' := ih (Or.inr hcc) k2 hvk2 v d' c' hi
          cases k2 with
          | nil => exact absurd rfl hk2ne
          | cons x k3 =>
            rcases insert_full_is_full hi with ⟨cs', rfl⟩
            cases d' with
            | false =>
              simp [hi] at hins
              rw [← hins.2]; exact Or.inr ⟨hpne, hnp, ⟨cs, rfl⟩, hcc⟩
            | true =>
              simp [hi] at hins
              rw [← hins.2]; exact Or.inr ⟨hpne, hnp, ⟨cs', rfl⟩, hc'⟩
    · rcases hcase with hk2 | hs2' | ⟨a, b, k3, s3, hk2, hs2e, hab⟩
      · subst hk2
        rw [List.append_nil] at hk
        exfalso
        rcases hcan with ⟨hv, _⟩ | ⟨_, hn, _⟩
        · exact hs2 (vkey_prefix_free p s2 hv hk)
        · exact nibbles_not16 (nibbles_append hn).1 (vkey_mem16 _ hk)
      · exact absurd hs2' hs2
      · subst hk2 hs2e
        have hvb := (vkey_append p (b :: k3) hk (by simp)).2
        have hpn := (vkey_append p (b :: k3) hk (by simp)).1
        have hb := vkey_head_le hvb
        have ha : a ≤ 16 := by
          rcases hcan with ⟨hv, _⟩ | ⟨_, hn, _⟩
          · exact vkey_head_le (vkey_append p (a :: s3) hv (by simp)).2
          · have := (nibbles_append hn).2 a (by simp); omega
        rw [insert_short_branch p a b s3 k3 c v hab ha hb] at hins
        simp only [Option.some.injEq, Prod.mk.injEq] at hins
        rw [← hins.2]
        -- the two children of the new branch
        have hA : (a < 16 → Canon (mkLeaf s3 c)) ∧ (a = 16 → ∃ w, mkLeaf s3 c = .value w) ∧
            mkLeaf s3 c ≠ .nil := by
          rcases hcan with ⟨hv, w, rfl⟩ | ⟨_, hn, ⟨cs, rfl⟩, hcc⟩
          · have h1 := (vkey_append p (a :: s3) hv (by simp)).2
            refine ⟨?_, ?_, ?_⟩
            · intro ha'
              have h2 := vkey_lt_tail h1 ha'
              unfold mkLeaf; simp only [vkey_ne_nil h2, if_false]; exact Or.inl ⟨h2, w, rfl⟩
            · intro ha'; subst ha'
              have := vkey_16 h1; subst this
              exact ⟨w, by simp [mkLeaf]⟩
            · unfold mkLeaf; by_cases e : s3 = [] <;> simp [e]
          · have hs3 : Nibbles s3 := fun x hx => (nibbles_append hn).2 x (by simp [hx])
            refine ⟨fun _ => canon_mkLeaf_ext hs3 hcc, ?_, canon_ne_nil (canon_mkLeaf_ext hs3 hcc)⟩
            intro ha'; subst ha'
            have := (nibbles_append hn).2 16 (by simp); omega
        have hB : (b < 16 → Canon (mkLeaf k3 (.value v))) ∧
            (b = 16 → mkLeaf k3 (.value v) = .value v) ∧ mkLeaf k3 (.value v) ≠ .nil := by
          refine ⟨?_, ?_, ?_⟩
          · intro hb'
            have h2 := vkey_lt_tail hvb hb'
            unfold mkLeaf; simp only [vkey_ne_nil h2, if_false]; exact Or.inl ⟨h2, v, rfl⟩
          · intro hb'; subst hb'
            have := vkey_16 hvb; subst this; simp [mkLeaf]
          · unfold mkLeaf; by_cases e : k3 = [] <;> simp [e]
        apply canon_mkLeaf_ext hpn
        refine ⟨?_, ?_, ?_, ?_⟩
        · intro i hi
          unfold setC emptyCs
          by_cases h1 : i = b
          · subst h1; simp only [if_true]; exact Or.inr (hB.1 hi)
          · by_cases h2 : i = a
            · subst h2; simp only [h1, if_false, if_true]; exact Or.inr (hA.1 hi)
            · simp [h1, h2]
        · unfold setC emptyCs
          by_cases h1 : 16 = b
          · subst h1; simp only [if_true]; exact Or.inr ⟨v, hB.2.1 rfl⟩
          · by_cases h2 : 16 = a
            · subst h2; simp only [h1, if_false, if_true]; exact Or.inr (hA.2.1 rfl)
            · simp [h1, h2]
        · intro i hi
          have h1 : ¬ i = b := by omega
          have h2 : ¬ i = a := by omega
          simp [setC, emptyCs, h1, h2]
        · have hab' : ¬ a = b := hab
          by_cases hlt : a < b
          · refine ⟨a, b, hlt, hb, ?_, ?_⟩
            · simp only [setC, hab', if_false, if_true]; exact hA.2.2
            · simp only [setC, if_true]; exact hB.2.2
          · refine ⟨b, a, by omega, ha, ?_, ?_⟩
            · simp only [setC, if_true]; exact hB.2.2
            · simp only [setC, hab', if_false, if_true]; exact hA.2.2
  | full cs ih =>
    intro hc k hk v d n' hins
    have hcan : Canon (.full cs) := by
      rcases hc with h | h
      · cases h
      · exact h
    cases k with
    | nil => exact absurd hk (by simp [VKey])
    | cons x k2 =>
      have hx := vkey_head_le hk
      have hxg : ¬ x > 16 := by omega
      rw [insert] at hins
      simp only [hxg, if_false] at hins
      by_cases h16 : x = 16
      · subst h16
        have := vkey_16 hk
        subst this
        rcases hcan.2.1 with e | ⟨w, e⟩
        · simp [insert, e] at hins
          rw [← hins.2]; exact canon_setC16 hcan
        · by_cases hwv : w = v
          · simp [insert, e, hwv] at hins
            rw [← hins.2]; exact hcan
          · simp [insert, e, hwv] at hins
            rw [← hins.2]; exact canon_setC16 hcan
      · have hx' : x < 16 := by omega
        have hvk2 := vkey_lt_tail hk hx'
        cases hi : insert (cs x) k2 v with
        | none => simp [hi] at hins
        | some r =>
          rcases r with ⟨d', c'⟩
          have hc' := ih x (hcan.1 x hx') k2 hvk2 v d' c' hi
          cases d' with
          | false =>
            simp [hi] at hins
            rw [← hins.2]; exact hcan
          | true =>
            simp [hi] at hins
            rw [← hins.2]; exact canon_setC hcan hx' hc'

end KV.Trie
