import KV.Proofs.CsSyncByzStage
import KV.Proofs.CsAux
/-! Adversarial inputs leave a node in its stage (C04, synchronous round with Byzantine inputs):
ignored inputs, votes for later rounds, votes of the faulty validators for the round itself.
Core Lean only. -/
namespace KV.Cs.Sync

/-! ### `addVote`, by cases -/

theorem addVote_cases (cfg : Config) (nb : Option Nat) (peer idx : Nat) (t : VType) (r : Nat) (tgt : Target)
    (sigok : Bool) (τ : State) (hex : (findRV τ.votes τ.height r).isSome = true) :
    addVote cfg nb peer idx t τ.height r tgt sigok τ =
      if sigok = true ∧ idx < n cfg ∧ (slotsV τ.votes t τ.height r)[idx]? = some none then
        (match t with
         | .prevote => afterPrevote cfg nb r (stored t idx tgt τ.height r τ)
         | .precommit => afterPrecommit cfg nb r (stored t idx tgt τ.height r τ))
      else τ := by
  unfold addVote
  rw [if_neg (by simp), if_neg (by simp)]
  have he : ensureRound cfg peer r τ = some τ := by
    unfold ensureRound hasRound
    rw [if_pos hex]
  rw [he]
  simp only
  by_cases hc : sigok = true ∧ idx < n cfg
  · rw [if_neg (by simp [hc.1, hc.2])]
    rw [State.slots_eq]
    cases hslot : (slotsV τ.votes t τ.height r)[idx]? with
    | none => rw [if_neg (by simp)]
    | some v =>
      cases v with
      | none =>
        rw [if_pos ⟨hc.1, hc.2, rfl⟩]
        cases t <;> rfl
      | some x => rw [if_neg (by simp)]
  · rw [if_pos (by
      simp only [Bool.or_eq_true, Bool.not_eq_true', decide_eq_false_iff_not]
      by_cases h1 : sigok = true
      · exact Or.inr (fun h2 => hc ⟨h1, h2⟩)
      · exact Or.inl (by simpa using h1))]
    rw [if_neg (fun h => hc ⟨h.1, h.2.1⟩)]

/-- the vote set of the round does not exist yet: it is created if the peer has catch-up rounds left -/
theorem addVote_ensure (cfg : Config) (nb : Option Nat) (peer idx : Nat) (t : VType) (r : Nat) (tgt : Target)
    (sigok : Bool) (τ : State) (hex : (findRV τ.votes τ.height r).isSome = false) :
    addVote cfg nb peer idx t τ.height r tgt sigok τ = τ ∨
    addVote cfg nb peer idx t τ.height r tgt sigok τ =
      addVote cfg nb peer idx t τ.height r tgt sigok { addRound (n cfg) r τ with catchup := peer :: τ.catchup } := by
  have hx' : (findRV (τ.votes ++ [fresh (n cfg) τ.height r]) τ.height r).isSome = true := by
    rw [findRV_append]
    cases findRV τ.votes τ.height r with
    | some x => rfl
    | none => simp [fresh]
  unfold addVote
  rw [if_neg (by simp), if_neg (by simp)]
  by_cases hcu : (τ.catchup.filter (· == peer)).length < 2
  · right
    have he : ensureRound cfg peer r τ = some { addRound (n cfg) r τ with catchup := peer :: τ.catchup } := by
      unfold ensureRound hasRound
      rw [if_neg (by simp [hex]), if_pos hcu]
    have he2 : ensureRound cfg peer r { addRound (n cfg) r τ with catchup := peer :: τ.catchup } =
        some { addRound (n cfg) r τ with catchup := peer :: τ.catchup } := by
      unfold ensureRound hasRound
      rw [if_pos (by exact hx')]
    rw [he]
    show _ = (if _ then _ else if _ then _ else match ensureRound cfg peer r _ with | none => _ | some σ1 => _)
    rw [if_neg (by simp [addRound]), if_neg (by simp [addRound]), he2]
  · left
    have he : ensureRound cfg peer r τ = none := by
      unfold ensureRound hasRound
      rw [if_neg (by simp [hex]), if_neg hcu]
    rw [he]

/-! ### ignored inputs -/

theorem step_junk_proposal (cfg : Config) (σ : State) (nb : Option Nat) (src : Nat) (sigok : Bool)
    (h' r' pol' id p : Nat) (nh : σ.halted = false) (hp : cfg.proposer σ.height σ.round = p)
    (hj : src ≠ p ∨ sigok = false) :
    step cfg σ nb (.proposal src sigok h' r' pol' id) = { σ with added := false } := by
  rw [step_live _ _ _ _ nh]
  simp only
  unfold setProposal
  split
  · rfl
  split
  · rfl
  split
  · rfl
  rw [if_pos]
  show (!(sigok && src == cfg.proposer σ.height σ.round)) = true
  rcases hj with hj | hj
  · have : (src == cfg.proposer σ.height σ.round) = false := by
      rw [hp]; simpa using hj
    simp [this]
  · simp [hj]

theorem step_junk_block (cfg : Config) (σ : State) (nb : Option Nat) (h' id b : Nat) (ok dec : Bool)
    (nh : σ.halted = false) (hparts : σ.parts = none ∨ ∃ d, σ.parts = some (b, d)) (hid : id ≠ b) :
    step cfg σ nb (.block h' id ok dec) = { σ with added := false } := by
  rw [step_live _ _ _ _ nh]
  simp only
  unfold addBlock
  split
  · rfl
  · rcases hparts with hp | ⟨d, hp⟩
    · have : ({ σ with added := false } : State).parts = none := hp
      rw [this]
    · have : ({ σ with added := false } : State).parts = some (b, d) := hp
      rw [this]
      simp only
      rw [if_pos (by
        have : (b != id) = true := by simpa using (fun e => hid e.symm)
        simp [this])]

theorem step_vote_other_height (cfg : Config) (σ : State) (nb : Option Nat) (peer idx : Nat) (t : VType)
    (h' r' : Nat) (tgt : Target) (sigok : Bool) (nh : σ.halted = false) (hh : h' ≠ σ.height) :
    step cfg σ nb (.vote peer idx t h' r' tgt sigok) = { σ with added := false } := by
  rw [step_live _ _ _ _ nh]
  simp only
  unfold addVote
  (repeat' split) <;> first | rfl | contradiction

/-! ### a faulty vote for a later round -/

section
variable (cfg : Config) (F : Nat → Bool) (h r pol b : Nat)

/-- storing a vote of a later round in the slot of a faulty validator -/
theorem vext_stored_future {τ : State} (t : VType) (idx : Nat) (tgt : Target) (vr : Nat) (hvr : r < vr)
    (hF : F idx = true) : VExt F h r τ (stored t idx tgt h vr τ) := by
  refine ⟨rfl, rfl, rfl, rfl, rfl, rfl, rfl, rfl, rfl, ?_, ?_, ?_, ?_, ?_⟩
  · exact slotsV_setSlot_round _ _ _ _ _ _ _ _ _ (by omega)
  · exact slotsV_setSlot_round _ _ _ _ _ _ _ _ _ (by omega)
  · intro r' hr'; exact slotsV_setSlot_round _ _ _ _ _ _ _ _ _ (by omega)
  · intro hx
    show (findRV (τ.votes.map _) h r).isSome = true
    rw [findRV_map_setSlot]
    cases hf : findRV τ.votes h r with
    | none => rw [hf] at hx; cases hx
    | some x => rfl
  · intro hf r' t' hr'
    show CorrEmpty F (slotsV (τ.votes.map (setSlot t idx tgt h vr)) t' h r')
    rw [slotsV_setSlot]
    split
    · exact (hf r' t' hr').set idx _ hF
    · exact hf r' t' hr'

theorem vext_addRound_future {τ : State} (peer vr : Nat) (hvr : r < vr) (hh : τ.height = h)
    (hex : (findRV τ.votes τ.height vr).isSome = false) :
    VExt F h r τ { addRound (n cfg) vr τ with catchup := peer :: τ.catchup } := by
  have hnone : findRV τ.votes h vr = none := by
    rw [← hh]
    cases hf : findRV τ.votes τ.height vr with
    | none => rfl
    | some x => rw [hf] at hex; cases hex
  have hne : ∀ r', r' ≠ vr → ¬ ((fresh (n cfg) τ.height vr).height = h ∧ (fresh (n cfg) τ.height vr).round = r') :=
    fun r' hr' hc => hr' hc.2.symm
  refine ⟨rfl, rfl, rfl, rfl, rfl, rfl, rfl, rfl, rfl, ?_, ?_, ?_, ?_, ?_⟩
  · exact slotsV_append_other _ _ _ _ _ (hne r (by omega))
  · exact slotsV_append_other _ _ _ _ _ (hne r (by omega))
  · intro r' hr'; exact slotsV_append_other _ _ _ _ _ (hne r' (by omega))
  · intro hx; exact findRV_append_isSome _ _ _ _ hx
  · intro hf r' t' hr'
    show CorrEmpty F (slotsV (τ.votes ++ [fresh (n cfg) τ.height vr]) t' h r')
    by_cases e : r' = vr
    · subst e
      rw [hh, slotsV_append_new _ _ _ _ _ hnone]
      exact CorrEmpty.replicate F _
    · rw [slotsV_append_other _ _ _ _ _ (hne r' e)]
      exact hf r' t' hr'

theorem VExt.trans {a b' c : State} (v1 : VExt F h r a b') (v2 : VExt F h r b' c) : VExt F h r a c :=
  ⟨by rw [v2.halted, v1.halted], by rw [v2.height, v1.height], by rw [v2.round, v1.round],
    by rw [v2.step, v1.step], by rw [v2.proposal, v1.proposal], by rw [v2.pblock, v1.pblock],
    by rw [v2.parts, v1.parts], by rw [v2.locked, v1.locked], by rw [v2.log, v1.log],
    by rw [v2.pv, v1.pv], by rw [v2.pc, v1.pc], fun r' hr' => by rw [v2.old r' hr', v1.old r' hr'],
    fun hx => v2.exr (v1.exr hx), fun hf => v2.fut (v1.fut hf)⟩

/-- `addVote` for a later round whose vote set exists: only the slot changes -/
theorem addVote_future_exists {τ : State} (fm : FaultyMinority cfg.powers F) (hh : τ.height = h) (hr : τ.round = r)
    (hfut : ∀ r' t, r < r' → CorrEmpty F (slotsV τ.votes t h r'))
    (hp : ∀ p, τ.proposal = some p → p.pol ≤ r)
    (nb : Option Nat) (peer idx : Nat) (t : VType) (vr : Nat) (tgt : Target) (sigok : Bool) (hvr : r < vr)
    (hF : F idx = true) (hex : (findRV τ.votes τ.height vr).isSome = true) :
    VExt F h r τ (addVote cfg nb peer idx t h vr tgt sigok τ) := by
  subst hh
  rw [addVote_cases cfg nb peer idx t vr tgt sigok τ hex]
  split
  · have hE : CorrEmpty F (slotsV (stored t idx tgt τ.height vr τ).votes t τ.height vr) := by
      show CorrEmpty F (slotsV (τ.votes.map _) t τ.height vr)
      rw [slotsV_setSlot_same]
      exact (hfut vr t hvr).set idx _ hF
    cases t with
    | prevote =>
      simp only
      rw [afterPrevote_idle cfg nb vr _ (maj23_corrEmpty hE fm) (hasAny_corrEmpty hE fm)
        (Or.inl (by show τ.round < vr; omega))
        (fun p hpp => by have := hp p hpp; omega)]
      exact vext_stored_future F τ.height r .prevote idx tgt vr hvr hF
    | precommit =>
      simp only
      rw [afterPrecommit_quiet cfg nb vr _ (maj23_corrEmpty hE fm) (hasAny_corrEmpty hE fm)]
      exact vext_stored_future F τ.height r .precommit idx tgt vr hvr hF
  · exact ⟨rfl, rfl, rfl, rfl, rfl, rfl, rfl, rfl, rfl, rfl, rfl, fun _ _ => rfl, fun h => h, fun h => h⟩

/-- **a vote claiming a faulty validator for a later round** changes nothing but vote sets of later
rounds (no round skip: +2/3 any of a later round would need votes of correct validators) -/
theorem junk_future {σ : State} (B : BBase cfg F h r pol σ) (fm : FaultyMinority cfg.powers F)
    (hp : ∀ p, σ.proposal = some p → p.pol ≤ r)
    (nb : Option Nat) (peer idx : Nat) (t : VType) (vr : Nat) (tgt : Target) (sigok : Bool) (hvr : r < vr)
    (hF : F idx = true) : VExt F h r σ (step cfg σ nb (.vote peer idx t h vr tgt sigok)) := by
  rw [step_live _ _ _ _ B.nh]
  simp only
  have hfut := B.fut
  have hr := B.hr
  have hh := B.hh
  subst hh
  have v0 := VExt.unadded F σ.height r σ
  have hh0 : ({ σ with added := false } : State).height = σ.height := rfl
  refine v0.trans F σ.height r ?_
  cases hex : (findRV ({ σ with added := false } : State).votes ({ σ with added := false } : State).height vr).isSome with
  | true =>
    exact addVote_future_exists cfg F σ.height r fm hh0 hr hfut hp nb peer idx t vr tgt sigok hvr hF hex
  | false =>
    rcases addVote_ensure cfg nb peer idx t vr tgt sigok { σ with added := false } hex with e | e
    · rw [e]; exact ⟨rfl, rfl, rfl, rfl, rfl, rfl, rfl, rfl, rfl, rfl, rfl, fun _ _ => rfl, fun h => h, fun h => h⟩
    · rw [e]
      have v1 := vext_addRound_future cfg F σ.height r (τ := { σ with added := false }) peer vr hvr hh0 hex
      refine v1.trans F σ.height r ?_
      have hx' : (findRV ({ addRound (n cfg) vr { σ with added := false } with catchup := peer :: σ.catchup } : State).votes
          ({ addRound (n cfg) vr { σ with added := false } with catchup := peer :: σ.catchup } : State).height vr).isSome = true := by
        show (findRV (σ.votes ++ [fresh (n cfg) σ.height vr]) σ.height vr).isSome = true
        rw [findRV_append]
        cases findRV σ.votes σ.height vr with
        | some x => rfl
        | none => simp [fresh]
      exact addVote_future_exists cfg F σ.height r
        (τ := { addRound (n cfg) vr { σ with added := false } with catchup := peer :: ({ σ with added := false } : State).catchup })
        fm rfl hr (v1.fut hfut) hp nb peer idx t vr tgt sigok hvr hF hx'

end
end KV.Cs.Sync
