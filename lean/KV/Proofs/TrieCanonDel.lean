import KV.Proofs.TrieCanon
/-! `delete` preserves the normal form (property C07, part 3, delete half). -/
namespace KV.Trie
open KV

theorem canon_short_merge {p ck : Key} {cv : Node} (hpne : p ≠ []) (hp : Nibbles p)
    (h : Canon (.short ck cv)) : Canon (.short (p ++ ck) cv) := by
  rcases h with ⟨hv, hval⟩ | ⟨_, hn, hf, hc⟩
  · exact Or.inl ⟨vkey_nibbles_append p ck hp hv, hval⟩
  · exact Or.inr ⟨by simp [hpne], nibbles_append_intro hp hn, hf, hc⟩

/-- if at least one child is non-nil and `onlyChild` finds no single child, there are two -/
theorem two_of_not_only {cs : Nat → Node} (hone : ∃ i, i ≤ 16 ∧ cs i ≠ .nil)
    (h : onlyChild cs = none) : ∃ i j, i < j ∧ j ≤ 16 ∧ cs i ≠ .nil ∧ cs j ≠ .nil := by
  unfold onlyChild at h
  generalize hf : (List.range 17).filter (fun i => !(cs i).isNil) = l at h
  have hmem : ∀ j, j ∈ l ↔ j < 17 ∧ (cs j).isNil = false := by
    intro j; rw [← hf]; simp [List.mem_filter]
  have hpw : l.Pairwise (· < ·) := by
    rw [← hf]; exact List.Pairwise.filter _ List.pairwise_lt_range
  have hnn : ∀ j, (cs j).isNil = false → cs j ≠ .nil := by
    intro j hj e; rw [e] at hj; simp [Node.isNil] at hj
  match l, h, hmem, hpw with
  | [], _, hmem, _ =>
    rcases hone with ⟨i, hi, hne⟩
    have : (cs i).isNil = false := by
      cases hc : cs i <;> simp [Node.isNil] <;> exact absurd hc hne
    have := (hmem i).2 ⟨by omega, this⟩
    simp at this
  | [_], h, _, _ => simp at h
  | a :: b :: rest, _, hmem, hpw =>
    have ha := (hmem a).1 (by simp)
    have hb := (hmem b).1 (by simp)
    have hab : a < b := (List.pairwise_cons.1 hpw).1 b (by simp)
    exact ⟨a, b, hab, by omega, hnn a ha.2, hnn b hb.2⟩

/-- the reduction step keeps the normal form -/
theorem collapse_canon (cs' : Nat → Node)
    (h1 : ∀ i, i < 16 → cs' i = .nil ∨ Canon (cs' i))
    (h2 : cs' 16 = .nil ∨ ∃ v, cs' 16 = .value v) (h3 : ∀ i, i > 16 → cs' i = .nil)
    (hone : ∃ i, i ≤ 16 ∧ cs' i ≠ .nil) (n' : Node)
    (he : (match onlyChild cs' with
        | none => some (true, Node.full cs')
        | some pos =>
          if pos ≠ 16 then
            match cs' pos with
            | .short ck cv => some (true, Node.short (pos :: ck) cv)
            | .hash _ => none
            | c => some (true, Node.short [pos] c)
          else some (true, Node.short [pos] (cs' pos))) = some (true, n')) : Canon n' := by
  cases hoc : onlyChild cs' with
  | none =>
    simp only [hoc, Option.some.injEq, Prod.mk.injEq, true_and] at he
    rw [← he]
    exact ⟨h1, h2, h3, two_of_not_only hone hoc⟩
  | some pos =>
    rcases onlyChild_spec hoc with ⟨hlt, hnn, _⟩
    simp only [hoc] at he
    by_cases h16 : pos = 16
    · subst h16
      simp only [ne_eq, not_true_eq_false, if_false, Option.some.injEq, Prod.mk.injEq,
        true_and] at he
      rw [← he]
      rcases h2 with e | ⟨w, e⟩
      · rw [e] at hnn; simp [Node.isNil] at hnn
      · exact Or.inl ⟨by simp [VKey], w, e⟩
    · have hlt16 : pos < 16 := by omega
      have hnib : Nibbles [pos] := by
        intro y hy; simp at hy; omega
      simp only [ne_eq, h16, not_false_eq_true, if_true] at he
      rcases h1 pos hlt16 with e | hc
      · rw [e] at hnn; simp [Node.isNil] at hnn
      · cases hcp : cs' pos with
        | nil => rw [hcp] at hc; exact absurd hc (by simp [Canon])
        | value w => rw [hcp] at hc; exact absurd hc (by simp [Canon])
        | hash w => rw [hcp] at hc; exact absurd hc (by simp [Canon])
        | short ck cv =>
          rw [hcp] at he hc
          simp only [Option.some.injEq, Prod.mk.injEq, true_and] at he
          rw [← he]
          exact canon_short_merge (p := [pos]) (by simp) hnib hc
        | full cs2 =>
          rw [hcp] at he hc
          simp only [Option.some.injEq, Prod.mk.injEq, true_and] at he
          rw [← he]
          exact Or.inr ⟨by simp, hnib, ⟨cs2, rfl⟩, hc⟩

theorem delete_canon : ∀ n, Canon n → ∀ k, VKey k → ∀ d n',
    delete n k = some (d, n') → (n' = .nil ∨ Canon n') := by
  intro n
  induction n with
  | nil => intro h; exact absurd h (by simp [Canon])
  | value w => intro h; exact absurd h (by simp [Canon])
  | hash w => intro h; exact absurd h (by simp [Canon])
  | short sk c ih =>
    intro hcan k hk d n' hdel
    rcases prefixLen_split k sk with ⟨p, k2, s2, hk_eq, hsk_eq, _, hcase⟩
    subst hk_eq hsk_eq
    by_cases hs2 : s2 = []
    · subst hs2
      simp only [List.append_nil] at hcan ih hdel
      by_cases hk2 : k2 = []
      · subst hk2
        simp only [List.append_nil] at hdel
        rw [delete_short_exact] at hdel
        simp only [Option.some.injEq, Prod.mk.injEq] at hdel
        exact Or.inl hdel.2.symm
      · rcases hcan with ⟨hvp, _⟩ | ⟨hpne, hnp, ⟨cs, rfl⟩, hcc⟩
        · exact absurd (vkey_prefix_free p k2 hk hvp) hk2
        · have hvk2 := (vkey_append p k2 hk hk2).2
          rw [delete_short_unfold p k2 _ hk2] at hdel
          cases hi : delete (.full cs) k2 with
          | none => simp [hi] at hdel
          | some r =>
            rcases r with ⟨d', c'⟩
            have hc' := ih hcc k2 hvk2 d' c' hi
            cases d' with
            | false =>
              simp only [hi, Option.some.injEq, Prod.mk.injEq] at hdel
              rw [← hdel.2]; exact Or.inr (Or.inr ⟨hpne, hnp, ⟨cs, rfl⟩, hcc⟩)
            | true =>
              cases hcp : c' with
              | short ck cv =>
                rw [hcp] at hi hc'
                simp only [hi, Option.some.injEq, Prod.mk.injEq] at hdel
                rw [← hdel.2]
                rcases hc' with e | hc'
                · cases e
                · exact Or.inr (canon_short_merge hpne hnp hc')
              | full cs2 =>
                rw [hcp] at hi hc'
                simp only [hi, Option.some.injEq, Prod.mk.injEq] at hdel
                rw [← hdel.2]
                rcases hc' with e | hc'
                · cases e
                · exact Or.inr (Or.inr ⟨hpne, hnp, ⟨cs2, rfl⟩, hc'⟩)
              | nil =>
                -- deleting below a full node never yields nil
                exfalso
                rw [hcp] at hi
                cases k2 with
                | nil => exact hk2 rfl
                | cons x k3 =>
                  rw [delete] at hi
                  by_cases hx : x > 16
                  · simp [hx] at hi
                  · simp only [hx, if_false] at hi
                    cases hj : delete (cs x) k3 with
                    | none => simp [hj] at hi
                    | some r2 =>
                      rcases r2 with ⟨d2, nn⟩
                      cases d2 with
                      | false => simp [hj] at hi
                      | true =>
                        simp only [hj] at hi
                        by_cases hnil : nn.isNil = true
                        · simp only [hnil, Bool.not_true, Bool.false_eq_true, if_false] at hi
                          cases hoc : onlyChild (setC cs x nn) with
                          | none => simp [hoc] at hi
                          | some pos =>
                            simp only [hoc] at hi
                            by_cases h16 : pos = 16
                            · simp [h16] at hi
                            · simp only [ne_eq, h16, not_false_eq_true, if_true] at hi
                              cases hq : setC cs x nn pos <;> simp [hq] at hi
                        · simp [hnil] at hi
              | value w =>
                rw [hcp] at hc'
                rcases hc' with e | hc'
                · cases e
                · exact absurd hc' (by simp [Canon])
              | hash w =>
                rw [hcp] at hc'
                rcases hc' with e | hc'
                · cases e
                · exact absurd hc' (by simp [Canon])
    · have hmis : k2 = [] ∨ ∃ a b k3 s3, k2 = b :: k3 ∧ s2 = a :: s3 ∧ a ≠ b := by
        rcases hcase with h | h | h
        · exact Or.inl h
        · exact absurd h hs2
        · exact Or.inr h
      rw [delete_short_mismatch p k2 s2 c hs2 hmis] at hdel
      simp only [Option.some.injEq, Prod.mk.injEq] at hdel
      rw [← hdel.2]; exact Or.inr hcan
  | full cs ih =>
    intro hcan k hk d n' hdel
    cases k with
    | nil => exact absurd hk (by simp [VKey])
    | cons x k2 =>
      have hx := vkey_head_le hk
      have hxg : ¬ x > 16 := by omega
      rw [delete] at hdel
      simp only [hxg, if_false] at hdel
      cases hi : delete (cs x) k2 with
      | none => simp [hi] at hdel
      | some r =>
        rcases r with ⟨d', nn⟩
        cases d' with
        | false =>
          simp only [hi, Option.some.injEq, Prod.mk.injEq] at hdel
          rw [← hdel.2]; exact Or.inr hcan
        | true =>
          simp only [hi] at hdel
          -- what the new child can be
          have hnn : (x < 16 → nn = .nil ∨ Canon nn) ∧ (x = 16 → nn = .nil) := by
            refine ⟨?_, ?_⟩
            · intro hx'
              rcases hcan.1 x hx' with e | hc
              · rw [e] at hi; simp [delete] at hi
              · exact ih x hc k2 (vkey_lt_tail hk hx') true nn hi
            · intro hx'; subst hx'
              have := vkey_16 hk; subst this
              rcases hcan.2.1 with e | ⟨w, e⟩
              · rw [e] at hi; simp [delete] at hi
              · rw [e] at hi; simp [delete] at hi; exact hi.symm
          by_cases hnil : nn.isNil = true
          · have hnn' := isNil_eq hnil
            subst hnn'
            simp only [Node.isNil, Bool.not_true, Bool.false_eq_true, if_false] at hdel
            have hd : d = true := by
              cases hoc : onlyChild (setC cs x .nil) with
              | none => simp [hoc] at hdel; exact hdel.1
              | some pos =>
                simp only [hoc] at hdel
                by_cases h16 : pos = 16
                · simp [h16] at hdel; exact hdel.1
                · simp only [ne_eq, h16, not_false_eq_true, if_true] at hdel
                  cases hq : setC cs x .nil pos <;> simp [hq] at hdel <;> exact hdel.1
            subst hd
            refine Or.inr (collapse_canon (setC cs x .nil) ?_ ?_ ?_ ?_ n' hdel)
            · intro i hi'
              unfold setC
              by_cases e : i = x
              · simp [e]
              · simp only [e, if_false]; exact hcan.1 i hi'
            · unfold setC
              by_cases e : 16 = x
              · simp [e]
              · simp only [e, if_false]; exact hcan.2.1
            · intro i hi'
              unfold setC
              by_cases e : i = x
              · simp [e]
              · simp only [e, if_false]; exact hcan.2.2.1 i hi'
            · rcases hcan.2.2.2 with ⟨i, j, hij, hj, hin, hjn⟩
              by_cases e : i = x
              · refine ⟨j, hj, ?_⟩
                have : ¬ j = x := by omega
                simp only [setC, this, if_false]; exact hjn
              · refine ⟨i, by omega, ?_⟩
                simp only [setC, e, if_false]; exact hin
          · simp only [hnil, Bool.not_false, if_true, Option.some.injEq, Prod.mk.injEq] at hdel
            rw [← hdel.2]
            have hx' : x < 16 := by
              by_cases e : x = 16
              · have := hnn.2 e; rw [this] at hnil; simp [Node.isNil] at hnil
              · omega
            rcases hnn.1 hx' with e | hc
            · rw [e] at hnil; simp [Node.isNil] at hnil
            · exact Or.inr (canon_setC hcan hx' hc)

end KV.Trie
