import KV.Proofs.CsStale
import KV.Proofs.CsSyncPol
/-! The commit step is absorbing (F37 fix): once a node is in step Commit (it holds +2/3 precommits
for a block) no input moves it to another round or step until it finalises; and while it waits for
the block of the commit its part set stays in place, so the block, when it arrives, is committed.
Core Lean only. -/
namespace KV.Cs

/-! ### the `enterX` in the commit step -/

theorem enterPrevote_commit (cfg : Config) (h : Nat) (σ : State) (hc : σ.step = .commit) :
    enterPrevote cfg h σ.round σ = σ := by
  unfold enterPrevote
  rw [if_pos (Or.inr (Or.inr ⟨rfl, by rw [hc]; decide⟩))]

theorem enterPrevoteWait_commit (h : Nat) (σ : State) (hc : σ.step = .commit) :
    enterPrevoteWait h σ.round σ = σ := by
  unfold enterPrevoteWait
  rw [if_pos (Or.inr (Or.inr ⟨rfl, by rw [hc]; decide⟩))]

theorem enterCommit_commit (cfg : Config) (h cr : Nat) (σ : State) (hc : σ.step = .commit) :
    enterCommit cfg h cr σ = σ := by
  unfold enterCommit
  rw [if_pos (Or.inr (by rw [hc]; decide))]

/-- the final `switch` of the prevote branch does nothing in the commit step -/
theorem prevoteSwitch_commit (cfg : Config) (nb : Option Nat) (h vr : Nat) (m : Option Target) (any : Bool)
    (σ : State) (hc : σ.step = .commit) : prevoteSwitch cfg nb h vr m any σ = σ := by
  unfold prevoteSwitch
  split
  · exact enterNewRound_commit cfg nb h vr σ hc
  · split
    · rename_i hv
      have hv' : σ.round = vr := by
        simp only [Bool.and_eq_true, beq_iff_eq] at hv; exact hv.1
      subst hv'
      split
      · split
        · exact enterPrecommit_commit cfg h _ σ hc
        · split
          · exact enterPrevoteWait_commit h σ hc
          · rfl
      · split
        · exact enterPrevoteWait_commit h σ hc
        · rfl
    · split
      · split
        · split
          · exact enterPrevote_commit cfg h σ hc
          · rfl
        · rfl
      · rfl

theorem afterPrevote_commit (cfg : Config) (nb : Option Nat) (vr : Nat) (σ : State) (hc : σ.step = .commit) :
    afterPrevote cfg nb vr σ = polkaUpdate vr (maj23 cfg.powers (σ.slots .prevote σ.height vr)) σ := by
  unfold afterPrevote
  exact prevoteSwitch_commit cfg nb _ vr _ _ _ (by rw [(polkaUpdate_keeps vr _ σ).2.2.1]; exact hc)

theorem afterPrecommit_commit_step (cfg : Config) (nb : Option Nat) (vr : Nat) (σ : State) (hc : σ.step = .commit) :
    afterPrecommit cfg nb vr σ = σ ∨ afterPrecommit cfg nb vr σ = enterPrecommitWait σ.height vr σ := by
  unfold afterPrecommit
  simp only
  rw [enterNewRound_commit cfg nb _ vr σ hc, enterPrecommit_commit cfg _ vr σ hc]
  split
  · split
    · exact Or.inl (enterCommit_commit cfg _ vr σ hc)
    · exact Or.inr rfl
  · split
    · exact Or.inr rfl
    · exact Or.inl rfl

/-! ### what stays while the node is in the commit step -/

/-- same height, round, commit round, still in the commit step -/
structure Stays (σ σ' : State) : Prop where
  height : σ'.height = σ.height
  round : σ'.round = σ.round
  step : σ'.step = .commit
  commitRound : σ'.commitRound = σ.commitRound

theorem Stays.of_keeps {σ σ' : State} (hc : σ.step = .commit) (k : Keeps σ σ') : Stays σ σ' :=
  ⟨k.1, k.2.1, by rw [k.2.2.1]; exact hc, k.2.2.2.2.2.2⟩

theorem Stays.trans {a b c : State} (h1 : Stays a b) (h2 : Stays b c) : Stays a c :=
  ⟨by rw [h2.height, h1.height], by rw [h2.round, h1.round], h2.step, by rw [h2.commitRound, h1.commitRound]⟩

theorem enterPrecommitWait_keeps (h r : Nat) (σ : State) : Keeps σ (enterPrecommitWait h r σ) ∨
    (enterPrecommitWait h r σ).height = σ.height ∧ (enterPrecommitWait h r σ).round = σ.round ∧
    (enterPrecommitWait h r σ).step = σ.step ∧ (enterPrecommitWait h r σ).commitRound = σ.commitRound := by
  right
  unfold enterPrecommitWait
  split <;> exact ⟨rfl, rfl, rfl, rfl⟩

/-- the outcome of an input in the commit step -/
inductive Outcome (σ σ' : State) : Prop where
  | halted : σ'.halted = true → Outcome σ σ'
  | finalised : σ'.height = σ.height + 1 ∧ σ'.step = .newHeight → Outcome σ σ'
  | stays : Stays σ σ' → Outcome σ σ'

theorem finalizeCommit_outcome (cfg : Config) (h : Nat) (σ τ : State) (hs : Stays σ τ) :
    Outcome σ (finalizeCommit cfg h τ) := by
  unfold finalizeCommit
  (repeat' split) <;>
    first
    | exact .stays hs
    | exact .halted rfl
    | exact .finalised ⟨by show τ.height + 1 = _; rw [hs.height], rfl⟩

theorem tryFinalizeCommit_outcome (cfg : Config) (h : Nat) (σ τ : State) (hs : Stays σ τ) :
    Outcome σ (tryFinalizeCommit cfg h τ) := by
  unfold tryFinalizeCommit
  (repeat' split) <;> first | exact .stays hs | exact finalizeCommit_outcome cfg h σ τ hs

theorem addBlock_outcome (cfg : Config) (h id : Nat) (ok dec : Bool) (σ : State) (hc : σ.step = .commit) :
    Outcome σ (addBlock cfg h id ok dec σ) := by
  have hs : Stays σ σ := ⟨rfl, rfl, hc, rfl⟩
  unfold addBlock
  split
  · exact .stays hs
  · split
    · exact .stays hs
    · split
      · exact .stays hs
      · split
        · exact .stays ⟨rfl, rfl, hc, rfl⟩
        · have k := storeBlock_keeps cfg ⟨id, ok⟩ σ
          have hs2 : Stays σ (storeBlock cfg ⟨id, ok⟩ σ) := Stays.of_keeps hc k
          unfold afterBlock
          rw [if_neg (by rw [hs2.step]; simp [Step.toNat])]
          rw [if_pos (by rw [hs2.step]; rfl)]
          exact tryFinalizeCommit_outcome cfg h σ _ hs2

theorem ensureRound_keeps {cfg : Config} {σ σ1 : State} (peer r : Nat) (h : ensureRound cfg peer r σ = some σ1) :
    σ1.height = σ.height ∧ σ1.round = σ.round ∧ σ1.step = σ.step ∧ σ1.commitRound = σ.commitRound ∧
    σ1.halted = σ.halted ∧ σ1.parts = σ.parts ∧ σ1.pblock = σ.pblock := by
  unfold ensureRound at h
  split at h
  · cases h; exact ⟨rfl, rfl, rfl, rfl, rfl, rfl, rfl⟩
  · split at h
    · cases h; exact ⟨rfl, rfl, rfl, rfl, rfl, rfl, rfl⟩
    · cases h

theorem addVote_outcome (cfg : Config) (nb : Option Nat) (peer idx : Nat) (t : VType) (h r : Nat) (tgt : Target)
    (sigok : Bool) (σ : State) (hc : σ.step = .commit) :
    Outcome σ (addVote cfg nb peer idx t h r tgt sigok σ) := by
  have hs : Stays σ σ := ⟨rfl, rfl, hc, rfl⟩
  unfold addVote
  split
  · exact .stays hs
  · split
    · exact .stays hs
    · split
      · exact .stays hs
      · rename_i σ1 he
        obtain ⟨e1, e2, e3, e4, -⟩ := ensureRound_keeps peer r he
        have hs1 : Stays σ σ1 := ⟨e1, e2, by rw [e3]; exact hc, e4⟩
        split
        · exact .stays hs1
        · split
          · have hs2 : Stays σ { σ1 with votes := σ1.votes.map (setSlot t idx tgt h r), added := true } :=
              ⟨e1, e2, by show σ1.step = _; rw [e3]; exact hc, e4⟩
            cases t with
            | prevote =>
              simp only
              rw [afterPrevote_commit cfg nb r _ hs2.step]
              exact .stays (hs2.trans (Stays.of_keeps hs2.step (polkaUpdate_keeps ..)))
            | precommit =>
              simp only
              rcases afterPrecommit_commit_step cfg nb r _ hs2.step with e | e
              · rw [e]; exact .stays hs2
              · rw [e]
                rcases enterPrecommitWait_keeps _ r { σ1 with votes := σ1.votes.map (setSlot .precommit idx tgt h r), added := true } with k | ⟨k1, k2, k3, k4⟩
                · exact .stays (hs2.trans (Stays.of_keeps hs2.step k))
                · exact .stays (hs2.trans ⟨k1, k2, by rw [k3]; exact hs2.step, k4⟩)
          · exact .stays hs1

theorem handleTimeout_outcome (cfg : Config) (nb : Option Nat) (h r : Nat) (s : Step) (σ : State)
    (hc : σ.step = .commit) (hok : h = σ.height → r ≤ σ.round) :
    Outcome σ (handleTimeout cfg nb h r s σ) := by
  have hs : Stays σ σ := ⟨rfl, rfl, hc, rfl⟩
  unfold handleTimeout
  split
  · exact .stays hs
  · rename_i hg
    have hr : r = σ.round := by have := hok (by omega); omega
    have h8 : 8 ≤ s.toNat := by
      have : ¬ s.toNat < σ.step.toNat := fun h' => hg (Or.inr (Or.inr ⟨hr, h'⟩))
      rw [hc] at this
      simpa [Step.toNat] using this
    cases s <;> simp [Step.toNat] at h8
    exact .halted rfl

/-- **commit_step_absorbing.** A node in the commit step of (height, round) that handles ANY input
(timeouts as in C03: not for a later round) afterwards is halted (`finalizeCommit` on an invalid
block, or a timeout with an invalid step), has finalised (next height), or is still in the commit
step of the same height and round with the same commit round: no vote of a later round, no
proposal, no block and no timeout can move it to another round or step. -/
theorem step_outcome (cfg : Config) (σ : State) (nb : Option Nat) (i : Input) (hc : σ.step = .commit)
    (hok : TimeoutOk σ i) : Outcome σ (step cfg σ nb i) := by
  unfold step
  split
  · exact .stays ⟨rfl, rfl, hc, rfl⟩
  · have hs0 : Stays σ { σ with added := false } := ⟨rfl, rfl, hc, rfl⟩
    have lift : ∀ {τ : State}, Outcome { σ with added := false } τ → Outcome σ τ := by
      intro τ o
      cases o with
      | halted h => exact .halted h
      | finalised h => exact .finalised h
      | stays h => exact .stays (hs0.trans h)
    cases i with
    | proposal src sigok h r pol id =>
      exact .stays (hs0.trans (Stays.of_keeps hc (setProposal_keeps ..)))
    | block h id ok dec => exact lift (addBlock_outcome cfg h id ok dec _ hc)
    | vote peer idx t h r tgt sigok => exact lift (addVote_outcome cfg nb peer idx t h r tgt sigok _ hc)
    | timeout h r s => exact lift (handleTimeout_outcome cfg nb h r s _ hc hok)

/-! ### waiting for the block of the commit -/

/-- the node is in the commit step with +2/3 precommits for block `b` at its commit round, and its
part set is the (incomplete) one of `b`: it waits for the block -/
structure Waiting (cfg : Config) (b : Nat) (σ : State) : Prop where
  nh : σ.halted = false
  st : σ.step = .commit
  maj : isMaj cfg.powers (slotsV σ.votes .precommit σ.height σ.commitRound) (some b) = true
  parts : σ.parts = some (b, false)

theorem isMaj_ne_nil {pw : List Nat} {s : Slots} {x : Target} (h : isMaj pw s x = true) : s ≠ [] := by
  intro e
  rw [e] at h
  unfold isMaj sumFor at h
  rw [tally_nil_right] at h
  simp at h

theorem slotsV_append_of_ne (v : List RoundVotes) (rv : RoundVotes) (t : VType) (h r : Nat)
    (hne : slotsV v t h r ≠ []) : slotsV (v ++ [rv]) t h r = slotsV v t h r := by
  unfold slotsV at *
  rw [findRV_append]
  cases hf : findRV v h r with
  | some x => rfl
  | none => rw [hf] at hne; exact absurd rfl hne

theorem isMaj_setSlot {pw : List Nat} {v : List RoundVotes} {t t' : VType} {idx h r h' r' : Nat} {tgt x : Target}
    (he : (slotsV v t h r)[idx]? = some none) (hm : isMaj pw (slotsV v t' h' r') x = true) :
    isMaj pw (slotsV (v.map (setSlot t idx tgt h r)) t' h' r') x = true := by
  rw [Sync.slotsV_setSlot]
  split
  · rename_i hc
    obtain ⟨rfl, rfl, rfl⟩ := hc
    exact Sync.isMaj_set_mono he hm
  · exact hm

/-- the polka handling changes the part set only for a polka, in the node's round, for a block
whose parts the node does not collect -/
theorem polkaUpdate_parts (vr : Nat) (m : Option Target) (σ : State) (b : Nat) (hp : σ.parts = some (b, false)) :
    (polkaUpdate vr m σ).parts = some (b, false) ∨ (∃ b', b' ≠ b ∧ m = some (some b') ∧ vr = σ.round) := by
  unfold polkaUpdate
  cases m with
  | none => exact Or.inl hp
  | some bid =>
    simp only
    have hu : (polkaUnlock vr bid σ).parts = σ.parts ∧ (polkaUnlock vr bid σ).round = σ.round := by
      unfold polkaUnlock unlock
      (repeat' split) <;> exact ⟨rfl, rfl⟩
    cases bid with
    | none => left; rw [hu.1]; exact hp
    | some b' =>
      simp only
      unfold polkaValid
      split
      · rename_i hc
        by_cases e : b' = b
        · left
          subst e
          simp only
          have hph : ∀ τ : State, τ.parts = some (b', false) → partsHas τ.parts b' = true := by
            intro τ h; rw [h]; simp [partsHas]
          split
          · rw [if_pos (hph _ (by show (polkaUnlock vr (some b') σ).parts = _; rw [hu.1]; exact hp))]
            show (polkaUnlock vr (some b') σ).parts = _
            rw [hu.1]; exact hp
          · rw [if_pos (hph _ (by show (polkaUnlock vr (some b') σ).parts = _; rw [hu.1]; exact hp))]
            show (polkaUnlock vr (some b') σ).parts = _
            rw [hu.1]; exact hp
        · right
          refine ⟨b', e, rfl, ?_⟩
          simp only [Bool.and_eq_true, beq_iff_eq] at hc
          rw [← hu.2]; exact hc.2
      · left; rw [hu.1]; exact hp

/-- a valid timeout step (the ticker only schedules these) -/
def timeoutStepOk : Input → Prop
  | .timeout _ _ s => s = .newHeight ∨ s = .newRound ∨ s = .propose ∨ s = .prevoteWait ∨ s = .precommitWait
  | _ => True

/-- the input is not the completing part of block `b` at the node's height -/
def notBlock (σ : State) (b : Nat) : Input → Prop
  | .block h id _ _ => ¬ (h = σ.height ∧ id = b)
  | _ => True

theorem polkaUpdate_halted (vr : Nat) (m : Option Target) (σ : State) :
    (polkaUpdate vr m σ).halted = σ.halted := by
  have hu : ∀ bid, (polkaUnlock vr bid σ).halted = σ.halted := by
    intro bid; unfold polkaUnlock unlock; (repeat' split) <;> rfl
  have hv : ∀ (τ : State) b, (polkaValid vr b τ).halted = τ.halted := by
    intro τ b; unfold polkaValid; simp only; (repeat' split) <;> rfl
  unfold polkaUpdate
  cases m with
  | none => rfl
  | some bid =>
    simp only
    cases bid with
    | none => exact hu _
    | some b => simp only; rw [hv, hu]

theorem setProposal_waiting {cfg : Config} {b : Nat} {τ : State} (W : Waiting cfg b τ) (src : Nat) (sigok : Bool)
    (h r pol id : Nat) : Waiting cfg b (setProposal cfg src sigok h r pol id τ) := by
  obtain ⟨nh, st, maj, parts⟩ := W
  unfold setProposal
  (repeat' split) <;>
    first
    | exact ⟨nh, st, maj, parts⟩
    | exact ⟨nh, st, maj, rfl⟩
    | (rename_i hp; rw [parts] at hp; cases hp; exact ⟨nh, st, maj, rfl⟩)
    | (rename_i hp; rw [parts] at hp; cases hp)

theorem addBlock_waiting {cfg : Config} {b : Nat} {τ : State} (W : Waiting cfg b τ) (h id : Nat) (ok dec : Bool)
    (hnb : ¬ (h = τ.height ∧ id = b)) : addBlock cfg h id ok dec τ = τ := by
  unfold addBlock
  split
  · rfl
  · rename_i hh
    have hh' : τ.height = h := by
      by_cases e : τ.height = h
      · exact e
      · exact absurd e hh
    have hid : id ≠ b := fun e => hnb ⟨hh'.symm, e⟩
    rw [W.parts]
    simp only
    rw [if_pos (by
      have : (b != id) = true := by simpa using (fun e => hid e.symm)
      simp [this])]

theorem addVote_waiting {cfg : Config} {b : Nat} {τ : State} (W : Waiting cfg b τ) (nb : Option Nat)
    (peer idx : Nat) (t : VType) (h r : Nat) (tgt : Target) (sigok : Bool) :
    Waiting cfg b (addVote cfg nb peer idx t h r tgt sigok τ) ∨
    ∃ b', b' ≠ b ∧
      maj23 cfg.powers (slotsV (addVote cfg nb peer idx t h r tgt sigok τ).votes .prevote
        (addVote cfg nb peer idx t h r tgt sigok τ).height (addVote cfg nb peer idx t h r tgt sigok τ).round) =
        some (some b') := by
  unfold addVote
  split
  · exact Or.inl W
  · split
    · exact Or.inl W
    · rename_i hh
      have hh' : h = τ.height := by
        by_cases e : h = τ.height
        · exact e
        · exact absurd e hh
      subst hh'
      split
      · exact Or.inl W
      · rename_i σ1 he
        obtain ⟨e1, e2, e3, e4, e5, e6, -⟩ := ensureRound_keeps peer r he
        have maj1 : isMaj cfg.powers (slotsV σ1.votes .precommit σ1.height σ1.commitRound) (some b) = true := by
          rw [e1, e4]
          unfold ensureRound at he
          split at he
          · cases he; exact W.maj
          · split at he
            · cases he
              show isMaj cfg.powers (slotsV (τ.votes ++ [fresh (n cfg) τ.height r]) .precommit τ.height τ.commitRound)
                (some b) = true
              rw [slotsV_append_of_ne _ _ _ _ _ (isMaj_ne_nil W.maj)]
              exact W.maj
            · cases he
        have W1 : Waiting cfg b σ1 := ⟨by rw [e5]; exact W.nh, by rw [e3]; exact W.st, maj1, by rw [e6]; exact W.parts⟩
        split
        · exact Or.inl W1
        · split
          · rename_i hslot
            have hslot' : (slotsV σ1.votes t τ.height r)[idx]? = some none := hslot
            have W2 : Waiting cfg b { σ1 with votes := σ1.votes.map (setSlot t idx tgt τ.height r), added := true } :=
              ⟨W1.nh, W1.st, isMaj_setSlot hslot' W1.maj, W1.parts⟩
            cases t with
            | prevote =>
              simp only
              rw [afterPrevote_commit cfg nb r _ W2.st]
              have k := polkaUpdate_keeps r (maj23 cfg.powers
                (State.slots { σ1 with votes := σ1.votes.map (setSlot .prevote idx tgt τ.height r), added := true } .prevote
                  σ1.height r))
                { σ1 with votes := σ1.votes.map (setSlot .prevote idx tgt τ.height r), added := true }
              rcases polkaUpdate_parts r (maj23 cfg.powers
                (State.slots { σ1 with votes := σ1.votes.map (setSlot .prevote idx tgt τ.height r), added := true } .prevote
                  σ1.height r))
                { σ1 with votes := σ1.votes.map (setSlot .prevote idx tgt τ.height r), added := true } b W2.parts with hp | ⟨b', hb', hm, hr⟩
              · left
                exact ⟨by rw [polkaUpdate_halted]; exact W2.nh, by rw [k.2.2.1]; exact W2.st,
                  by rw [k.2.2.2.2.2.1, k.1, k.2.2.2.2.2.2]; exact W2.maj, hp⟩
              · right
                refine ⟨b', hb', ?_⟩
                rw [k.2.2.2.2.2.1, k.1, k.2.1]
                rw [State.slots_eq] at hm
                rw [← hr]
                exact hm
            | precommit =>
              simp only
              left
              rcases afterPrecommit_commit_step cfg nb r _ W2.st with e | e
              · rw [e]; exact W2
              · rw [e]
                unfold enterPrecommitWait
                split
                · exact W2
                · exact ⟨W2.nh, W2.st, W2.maj, W2.parts⟩
          · exact Or.inl W1

theorem handleTimeout_waiting {cfg : Config} {b : Nat} {τ : State} (W : Waiting cfg b τ) (nb : Option Nat)
    (h r : Nat) (s : Step) (hok : h = τ.height → r ≤ τ.round)
    (hts : s = .newHeight ∨ s = .newRound ∨ s = .propose ∨ s = .prevoteWait ∨ s = .precommitWait) :
    handleTimeout cfg nb h r s τ = τ := by
  unfold handleTimeout
  rw [if_pos]
  by_cases hh : h = τ.height
  · have hr : r ≤ τ.round := hok hh
    by_cases e : r < τ.round
    · exact Or.inr (Or.inl e)
    · refine Or.inr (Or.inr ⟨by omega, ?_⟩)
      rw [W.st]
      rcases hts with e | e | e | e | e <;> rw [e] <;> decide
  · exact Or.inl hh

/-- **waiting is kept** by every input other than the block itself, unless the input completes a
polka for ANOTHER block in the node's round (`addVote`: "Valid block we don't know about", which
replaces the part set; impossible while less than 1/3 of the power is faulty) -/
theorem waiting_step {cfg : Config} {b : Nat} {σ : State} (W : Waiting cfg b σ) (nb : Option Nat) (i : Input)
    (hok : TimeoutOk σ i) (hts : timeoutStepOk i) (hnb : notBlock σ b i) :
    Waiting cfg b (step cfg σ nb i) ∨
    ∃ b', b' ≠ b ∧
      maj23 cfg.powers (slotsV (step cfg σ nb i).votes .prevote (step cfg σ nb i).height (step cfg σ nb i).round) =
        some (some b') := by
  have W0 : Waiting cfg b { σ with added := false } := ⟨W.nh, W.st, W.maj, W.parts⟩
  rw [Sync.step_live _ _ _ _ W.nh]
  cases i with
  | proposal src sigok h r pol id => exact Or.inl (setProposal_waiting W0 ..)
  | block h id ok dec =>
    simp only
    rw [addBlock_waiting W0 h id ok dec hnb]
    exact Or.inl W0
  | vote peer idx t h r tgt sigok => exact addVote_waiting W0 ..
  | timeout h r s =>
    simp only
    rw [handleTimeout_waiting W0 nb h r s hok hts]
    exact Or.inl W0

/-- **the block arrives**: a waiting node that receives the complete valid block commits it -/
theorem waiting_block {cfg : Config} {b : Nat} {σ : State} (W : Waiting cfg b σ) (nb : Option Nat) :
    Action.commit σ.height b ∈ (step cfg σ nb (.block σ.height b true true)).log ∧
    (step cfg σ nb (.block σ.height b true true)).height = σ.height + 1 := by
  obtain ⟨nh, st, maj, parts⟩ := W
  have hm := Sync.maj23_of_isMaj maj
  rw [Sync.step_live _ _ _ _ nh]
  simp only
  rw [Sync.addBlock_complete cfg σ.height b true { σ with added := false } rfl (by exact parts)]
  have k := storeBlock_keeps cfg ⟨b, true⟩ { σ with added := false }
  have hpb : (storeBlock cfg ⟨b, true⟩ { σ with added := false }).pblock = some ⟨b, true⟩ ∧
      (storeBlock cfg ⟨b, true⟩ { σ with added := false }).parts = some (b, true) := by
    unfold storeBlock
    simp only
    (repeat' split) <;> exact ⟨rfl, rfl⟩
  have hlog : (storeBlock cfg ⟨b, true⟩ { σ with added := false }).log = σ.log := by
    unfold storeBlock
    simp only
    (repeat' split) <;> rfl
  have hst : (storeBlock cfg ⟨b, true⟩ { σ with added := false }).step = .commit := by rw [k.2.2.1]; exact st
  have hmaj : maj23 cfg.powers ((storeBlock cfg ⟨b, true⟩ { σ with added := false }).slots .precommit
      (storeBlock cfg ⟨b, true⟩ { σ with added := false }).height
      (storeBlock cfg ⟨b, true⟩ { σ with added := false }).commitRound) = some (some b) := by
    rw [State.slots_eq, k.2.2.2.2.2.1, k.1, k.2.2.2.2.2.2]; exact hm
  unfold afterBlock
  rw [if_neg (by rw [hst]; simp [Step.toNat]), if_pos (by rw [hst]; rfl)]
  unfold tryFinalizeCommit
  rw [hmaj]
  simp only
  rw [if_pos (by rw [hpb.1]; simp [idIs])]
  unfold finalizeCommit
  rw [if_neg (by rw [hst, k.1]; simp)]
  rw [hmaj, hpb.1]
  simp only
  rw [if_neg (by rw [hpb.2]; simp [partsHas]), if_neg (by simp)]
  constructor
  · show Action.commit σ.height b ∈ Action.schedule _ _ _ :: Action.commit σ.height b :: _
    exact List.mem_cons_of_mem _ (List.mem_cons_self ..)
  · show (storeBlock cfg ⟨b, true⟩ { σ with added := false }).height + 1 = σ.height + 1
    rw [k.1]

end KV.Cs
