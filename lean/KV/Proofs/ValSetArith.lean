import KV.Model.ValSet
/-! arithmetic lemmas for C12: the safe-math kernels are exact / clamp, window lemma for the
truncating division -/
namespace KV.ValSet
open KV.I64

def clamp (x : Int) : Int := if x > maxI64 then maxI64 else if x < minI64 then minI64 else x

theorem safeAddClip_eq_clamp (a b : Int) (ha : InRange a) (hb : InRange b) :
    safeAddClip a b = clamp (a + b) := by
  unfold InRange minI64 maxI64 at ha hb
  unfold safeAddClip safeAdd
  by_cases h1 : b > 0 ∧ a > I64.sub maxI64 b
  · simp only [if_pos h1, if_true]
    unfold I64.sub wrap maxI64 at h1
    unfold clamp minI64 maxI64
    repeat' split <;> omega
  · simp only [if_neg h1]
    by_cases h2 : b < 0 ∧ a < I64.sub minI64 b
    · simp only [if_pos h2, if_true]
      unfold I64.sub wrap minI64 at h2
      unfold clamp minI64 maxI64
      repeat' split <;> omega
    · simp only [if_neg h2, Bool.false_eq_true, if_false]
      unfold I64.sub wrap at h1 h2
      unfold minI64 at h2
      unfold maxI64 at h1
      unfold clamp I64.add wrap minI64 maxI64
      repeat' split <;> omega

theorem safeSubClip_eq_clamp (a b : Int) (ha : InRange a) (hb : InRange b) :
    safeSubClip a b = clamp (a - b) := by
  unfold InRange minI64 maxI64 at ha hb
  unfold safeSubClip safeSub
  by_cases h1 : b > 0 ∧ a < I64.add minI64 b
  · simp only [if_pos h1, if_true]
    unfold I64.add wrap minI64 at h1
    unfold clamp minI64 maxI64
    repeat' split <;> omega
  · simp only [if_neg h1]
    by_cases h2 : b < 0 ∧ a > I64.add maxI64 b
    · simp only [if_pos h2, if_true]
      unfold I64.add wrap maxI64 at h2
      unfold clamp minI64 maxI64
      repeat' split <;> omega
    · simp only [if_neg h2, Bool.false_eq_true, if_false]
      unfold I64.add wrap at h1 h2
      unfold minI64 at h1
      unfold maxI64 at h2
      unfold clamp I64.sub wrap minI64 maxI64
      repeat' split <;> omega

theorem clamp_of_inRange (x : Int) (h : InRange x) : clamp x = x := by
  unfold InRange minI64 maxI64 at h; unfold clamp minI64 maxI64; repeat' split <;> omega

theorem clamp_inRange (x : Int) : InRange (clamp x) := by
  unfold InRange clamp minI64 maxI64; repeat' split <;> omega

theorem safeAddClip_exact (a b : Int) (ha : InRange a) (hb : InRange b) (h : InRange (a + b)) :
    safeAddClip a b = a + b := by rw [safeAddClip_eq_clamp a b ha hb, clamp_of_inRange _ h]

theorem safeSubClip_exact (a b : Int) (ha : InRange a) (hb : InRange b) (h : InRange (a - b)) :
    safeSubClip a b = a - b := by rw [safeSubClip_eq_clamp a b ha hb, clamp_of_inRange _ h]

end KV.ValSet

namespace KV.ValSet

/-- the truncating quotient, with the two one-sided remainders -/
theorem tdiv_bounds (x r : Int) (hr : 0 < r) :
    (0 ≤ x ∧ r * Int.tdiv x r ≤ x ∧ x < r * Int.tdiv x r + r ∧ 0 ≤ Int.tdiv x r) ∨
    (x < 0 ∧ x ≤ r * Int.tdiv x r ∧ r * Int.tdiv x r - r < x ∧ Int.tdiv x r ≤ 0) := by
  have hr0 : r ≠ 0 := by omega
  rcases Classical.em (x < 0) with hx | hx
  · right
    have e : Int.tdiv x r = -((-x) / r) := by
      have h1 : Int.tdiv (-(-x)) r = -(Int.tdiv (-x) r) := Int.neg_tdiv (-x) r
      rw [Int.neg_neg] at h1
      rw [h1, Int.tdiv_eq_ediv_of_nonneg (by omega)]
    have h1 := @Int.mul_ediv_self_le (-x) r hr0
    have h2 := @Int.lt_mul_ediv_self_add (-x) r hr
    have h3 : 0 ≤ (-x) / r := Int.ediv_nonneg (by omega) (by omega)
    rw [e, Int.mul_neg]
    omega
  · left
    have hx : 0 ≤ x := by omega
    have e : Int.tdiv x r = x / r := Int.tdiv_eq_ediv_of_nonneg hx
    have h1 := @Int.mul_ediv_self_le x r hr0
    have h2 := @Int.lt_mul_ediv_self_add x r hr
    have h3 : 0 ≤ x / r := Int.ediv_nonneg hx (by omega)
    rw [e]
    omega

/-- dividing (toward zero) by `r` maps a spread of at most `r * D` into a spread of at most `D` -/
theorem tdiv_window (a b r D : Int) (hr : 0 < r) (hD : 0 ≤ D) (h : a - b ≤ r * D) :
    Int.tdiv a r - Int.tdiv b r ≤ D := by
  rcases Classical.em (D < Int.tdiv a r - Int.tdiv b r) with hc | hc
  · exfalso
    have h1 : r * (D + 1) ≤ r * (Int.tdiv a r - Int.tdiv b r) :=
      Int.mul_le_mul_of_nonneg_left (by omega) (by omega)
    rw [Int.mul_sub, Int.mul_add, Int.mul_one] at h1
    rcases tdiv_bounds a r hr with ⟨_, a1, a2, a3⟩ | ⟨_, a1, a2, a3⟩ <;>
    rcases tdiv_bounds b r hr with ⟨_, b1, b2, b3⟩ | ⟨_, b1, b2, b3⟩ <;> omega
  · omega

/-- `|x / r| ≤ |x|` for the truncating quotient -/
theorem tdiv_abs_le (x r B : Int) (hr : 0 < r) (h1 : -B ≤ x) (h2 : x ≤ B) :
    -B ≤ Int.tdiv x r ∧ Int.tdiv x r ≤ B := by
  have h1r : r * 1 ≤ r * r := Int.mul_le_mul_of_nonneg_left (by omega) (by omega)
  rcases tdiv_bounds x r hr with ⟨h0, a1, a2, a3⟩ | ⟨h0, a1, a2, a3⟩
  · have : Int.tdiv x r * 1 ≤ Int.tdiv x r * r := Int.mul_le_mul_of_nonneg_left (by omega) a3
    rw [Int.mul_comm _ r] at this; omega
  · have : (-Int.tdiv x r) * 1 ≤ (-Int.tdiv x r) * r := Int.mul_le_mul_of_nonneg_left (by omega) (by omega)
    simp only [Int.neg_mul, Int.mul_one] at this
    rw [Int.mul_comm (Int.tdiv x r) r] at this; omega

/-- the ceiling ratio covers the spread -/
theorem ceil_ratio (diff D : Int) (hD : 0 < D) (h : D < diff) :
    2 ≤ (diff + D - 1) / D ∧ diff ≤ (diff + D - 1) / D * D ∧ (diff + D - 1) / D ≤ diff := by
  have hD0 : D ≠ 0 := by omega
  have h1 := @Int.mul_ediv_self_le (diff + D - 1) D hD0
  have h2 := @Int.lt_mul_ediv_self_add (diff + D - 1) D hD
  rw [Int.mul_comm ((diff + D - 1) / D) D]
  refine ⟨?_, by omega, ?_⟩
  · rcases Classical.em ((diff + D - 1) / D < 2) with hc | hc
    · exfalso
      have : D * ((diff + D - 1) / D) ≤ D * 1 := Int.mul_le_mul_of_nonneg_left (by omega) (by omega)
      omega
    · omega
  · rcases Classical.em (diff < (diff + D - 1) / D) with hc | hc
    · exfalso
      have h3 : 1 * ((diff + D - 1) / D) ≤ D * ((diff + D - 1) / D) :=
        Int.mul_le_mul_of_nonneg_right (by omega) (by omega)
      have h4 : D * (diff + 1) ≤ D * ((diff + D - 1) / D) :=
        Int.mul_le_mul_of_nonneg_left (by omega) (by omega)
      rw [Int.mul_add, Int.mul_one] at h4
      have h5 : 1 * diff ≤ D * diff := Int.mul_le_mul_of_nonneg_right (by omega) (by omega)
      omega
    · omega

end KV.ValSet
