import KV.Proofs.CsSyncNet
import KV.Proofs.CsSyncByzRun
/-! Network-level bookkeeping for the synchronous round with Byzantine inputs (C04,
`KV/Props/C04Byz.lean`).  Core Lean only. -/
namespace KV.Props.C04Net
open KV.Cs KV.Cs.Sync KV.Agree KV.Props.C03 KV.Props.C01Cs

/-- the indices that are not correct validators: the faulty validators and everything out of range -/
def byz (N : Net) (j : Nat) : Bool := N.F j || !decide (j < N.powers.length)

theorem byz_false {N : Net} {j : Nat} (h : byz N j = false) : j < N.powers.length ∧ N.F j = false := by
  unfold byz at h
  simp only [Bool.or_eq_false_iff, Bool.not_eq_false', decide_eq_true_eq] at h
  exact ⟨h.2, h.1⟩

theorem byz_correct {N : Net} {j : Nat} (h : j ∈ correct N) : byz N j = false := by
  obtain ⟨h1, h2⟩ := mem_correct.mp h
  unfold byz
  simp [h1, h2]

theorem powerL_congr : ∀ (pw : List Nat) (q q' : Nat → Bool), (∀ i, i < pw.length → q i = q' i) →
    powerL pw q = powerL pw q'
  | [], _, _, _ => rfl
  | p :: ps, q, q', h => by
    simp only [powerL]
    rw [h 0 (by simp), powerL_congr ps (fun i => q (i + 1)) (fun i => q' (i + 1))
      (fun i hi => h (i + 1) (by simp only [List.length_cons]; omega))]

/-- the correct validators hold +2/3, so the others hold less than 1/3 -/
theorem faultyMinority_of_quorum (N : Net) (hq : CorrectQuorum N) : FaultyMinority N.powers (byz N) := by
  unfold FaultyMinority
  rw [powerL_congr N.powers (byz N) N.F (fun i hi => by unfold byz; simp [hi])]
  have h1 := power_compl (valsOf N.powers) (pwOf N.powers) N.F
  have h2 : power (valsOf N.powers) (pwOf N.powers) (fun _ => true) = N.powers.sum := by
    unfold valsOf pwOf
    rw [← powerL_eq_power, powerL_true]
  have h3 : powerL N.powers N.F = power (valsOf N.powers) (pwOf N.powers) N.F := powerL_eq_power _ _
  unfold CorrectQuorum at hq
  omega

/-- not a timeout; a vote claims an index that is not a correct validator, or is in the trace -/
def Easy2 (N : Net) (tr : List HEv) : Input → Prop
  | .vote _ idx t h r tgt _ => byz N idx = true ∨ (h, mkEv idx t r tgt) ∈ tr
  | .timeout .. => False
  | _ => True

theorem goks_easy2 (N : Net) : ∀ (steps : List GStep) (g : GState),
    (∀ s ∈ steps, N.F s.1 = false ∧ Easy2 N g.tr s.2.2) → GOkS N g steps
  | [], _, _ => trivial
  | s :: rest, g, h => by
    obtain ⟨hF, he⟩ := h s (List.mem_cons_self ..)
    refine ⟨⟨hF, ?_, ?_⟩, goks_easy2 N rest _ ?_⟩
    · obtain ⟨i, nb, inp⟩ := s
      cases inp <;> first | trivial | exact he.elim
    · obtain ⟨i, nb, inp⟩ := s
      cases inp with
      | vote peer idx t h' r tgt sigok =>
        intro _ hlt hFi
        rcases he with he | he
        · unfold byz at he; simp [hlt, hFi] at he
        · exact he
      | _ => trivial
    · intro s' hs'
      obtain ⟨a, b⟩ := h s' (List.mem_cons_of_mem _ hs')
      refine ⟨a, ?_⟩
      obtain ⟨i', nb', inp'⟩ := s'
      cases inp' with
      | vote peer idx t h' r tgt sigok =>
        rcases b with b | b
        · exact Or.inl b
        · exact Or.inr (gstep_tr_mono N g s _ b)
      | timeout h' r st => exact b.elim
      | _ => trivial

theorem junk_easy2 (N : Net) (tr : List HEv) (p h r b : Nat) (inp : Input) (hj : Junk (byz N) p h r b inp) :
    Easy2 N tr inp := by
  cases inp with
  | vote peer idx t h' r' tgt sigok => exact Or.inl hj.1
  | timeout h' r' s => exact hj
  | _ => trivial

theorem mem_weave {α : Type} {x : α} : ∀ (xs : List α) (J : Nat → List α) (k : Nat),
    x ∈ weave xs J k → x ∈ xs ∨ ∃ k', x ∈ J k'
  | [], J, k, h => Or.inr ⟨k, h⟩
  | y :: ys, J, k, h => by
    have h' : x ∈ J k ++ y :: weave ys J (k + 1) := h
    rcases List.mem_append.mp h' with h1 | h1
    · exact Or.inr ⟨k, h1⟩
    · rcases List.mem_cons.mp h1 with e | h2
      · exact Or.inl (e ▸ List.mem_cons_self ..)
      · rcases mem_weave ys J (k + 1) h2 with h3 | h3
        · exact Or.inl (List.mem_cons_of_mem _ h3)
        · exact Or.inr h3

/-- no correct validator has voted in a round `≥ r` of height `h` when all of them are in step
Propose of round `r`: the slots of the correct validators for these rounds are empty at every node -/
theorem corrEmpty_of_ginv {N : Net} {g : GState} (G : GInv N g) (h r : Nat)
    (hall : ∀ j, j < N.powers.length → N.F j = false →
      (g.st j).height = h ∧ (g.st j).round = r ∧ (g.st j).step = .propose)
    (i : Nat) (t : VType) (r' : Nat) (hr' : r ≤ r') : CorrEmpty (byz N) (slotsV (g.st i).votes t h r') := by
  intro j v hF hs
  cases v with
  | none => rfl
  | some tgt =>
    obtain ⟨hj, hFj⟩ := byz_false hF
    have h1 := G.recv i t h r' j tgt hj hs
    have h2 := G.sent j h t r' tgt hFj h1
    obtain ⟨e1, e2, e3⟩ := hall j hj hFj
    have hb := (G.inv j).si.2 _ h2
    rw [e1, e2, e3] at hb
    cases t with
    | prevote =>
      have := hb h r' 4 rfl
      unfold le3 at this
      simp only [Step.toNat] at this
      omega
    | precommit =>
      have := hb h r' 6 rfl
      unfold le3 at this
      simp only [Step.toNat] at this
      omega

end KV.Props.C04Net
