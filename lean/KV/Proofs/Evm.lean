import KV.Proofs.EvmTable
/-! Invariants of `step` (inversion lemma, stack effect, gas decrease, frame conditions). -/
namespace KV.Evm

attribute [local irreducible] memWrite memRead getData word32 beVal beFixed wexp validJumpdest sload sstore envValue rightPad

/-- the state in which `exec` runs: gas charged, memory grown -/
def preExec (env : Env) (s : State) (info : OpInfo) (msz dynCost last : Nat) : State :=
  { s with gas := s.gas - info.gas - chargeOf info env.post dynCost,
           mem := growMem s.mem (toWordSize msz * 32), memCost := last }

/-- everything that is known when `step` continues -/
structure StepNext (env : Env) (s s' : State) where
  info : OpInfo
  msz : Nat
  dynCost : Nat
  last : Nat
  results : List Word
  pc : Nat
  mem' : Bytes
  hinfo : opInfo env.post (getOp env.code s.pc) = some info
  hsup : info.kind.isUnsupported = false
  hmin : info.minStack ≤ s.stack.length
  hmax : s.stack.length ≤ info.maxStack
  hro : (env.readOnly && info.writes) = false
  hgas : info.gas ≤ s.gas
  hdyn : dynGasOf info (s.stack.take info.pops) s (toWordSize msz * 32) = some (dynCost, last)
  hcharge : chargeOf info env.post dynCost ≤ s.gas - info.gas
  hexec : exec env (preExec env s info msz dynCost last) info.kind (s.stack.take info.pops)
      (preExec env s info msz dynCost last).mem = .cont results pc mem' s'.storage s'.logs
  hstack : s'.stack = results ++ s.stack.drop info.pops
  hgas' : s'.gas = s.gas - info.gas - chargeOf info env.post dynCost

theorem step_next_inv {env : Env} {s s' : State} (h : step env s = .next s') : Nonempty (StepNext env s s') := by
  unfold step at h
  split at h
  · simp [haltWith] at h
  · rename_i info hinfo
    simp only [haltWith] at h
    split at h; · simp at h
    split at h; · simp at h
    split at h; · simp at h
    split at h; · simp at h
    split at h; · simp at h
    rename_i hsup hmin hmax hro hgas
    split at h; · simp at h
    rename_i msz hmsz
    split at h; · simp at h
    split at h; · simp at h
    rename_i dynCost last hdyn
    split at h; · simp at h
    rename_i hcharge
    split at h; · simp at h
    rename_i results pc mem' st' lg' hexec
    simp at h
    subst h
    exact ⟨{ info := info, msz := msz, dynCost := dynCost, last := last, results := results, pc := pc, mem' := mem',
             hinfo := hinfo,
             hsup := by simpa using hsup, hmin := by omega, hmax := by omega, hro := by simpa using hro,
             hgas := by omega, hdyn := hdyn, hcharge := by omega, hexec := hexec, hstack := rfl, hgas' := rfl }⟩

/-- a halting step leaves storage and logs alone and does not create gas -/
theorem step_halt_inv {env : Env} {s : State} {h : Halt} (hs : step env s = .halt h) :
    h.final.gas ≤ s.gas ∧ h.final.storage = s.storage ∧ h.final.logs = s.logs ∧ h.final.stack = s.stack := by
  unfold step at hs
  simp only [haltWith] at hs
  split at hs
  · simp at hs; subst hs; simp
  · split at hs; · simp at hs; subst hs; simp
    split at hs; · simp at hs; subst hs; simp
    split at hs; · simp at hs; subst hs; simp
    split at hs; · simp at hs; subst hs; simp
    split at hs; · simp at hs; subst hs; simp
    split at hs; · simp at hs; subst hs; simp
    split at hs; · simp at hs; subst hs; simp
    split at hs; · simp at hs; subst hs; simp
    split at hs; · simp at hs; subst hs; simp
    split at hs
    · simp at hs; subst hs; simp; omega
    · simp at hs

theorem exec_results_length {env : Env} {s : State} {k : OpKind} {args : List Word} {mem : Bytes}
    {results : List Word} {pc : Nat} {mem' : Bytes} {st : Storage} {lg : List Log}
    (hwf : k.wf = true) (hargs : args.length = k.pops)
    (h : exec env s k args mem = .cont results pc mem' st lg) : results.length = k.pushes := by
  cases k <;> simp only [exec, OpKind.pushes, OpKind.pops, OpKind.wf] at *
  case jump => split at h <;> (try (injection h with h1; subst h1; simp only [List.length_cons, List.length_nil, Nat.zero_add])) ; cases h
  case jumpi =>
    split at h
    · split at h <;> (try (injection h with h1; subst h1; simp only [List.length_cons, List.length_nil, Nat.zero_add])); cases h
    · injection h with h1; subst h1; simp only [List.length_cons, List.length_nil, Nat.zero_add]
  case dup n => injection h with h1; subst h1; simp only [List.length_cons]; omega
  case swap n =>
    injection h with h1; subst h1
    simp only [List.length_cons, List.length_append, List.length_take, List.length_drop, List.length_nil]
    simp at hwf; omega
  all_goals first
    | (injection h with h1; subst h1; simp only [List.length_cons, List.length_nil, Nat.zero_add])
    | cases h

theorem exec_frame {env : Env} {s : State} {k : OpKind} {args : List Word} {mem : Bytes}
    {results : List Word} {pc : Nat} {mem' : Bytes} {st : Storage} {lg : List Log}
    (hk : k.modifies = false)
    (h : exec env s k args mem = .cont results pc mem' st lg) : st = s.storage ∧ lg = s.logs := by
  cases k <;> simp only [exec, OpKind.modifies] at * <;>
    (try (injection h with h1 h2 h3 h4 h5; subst h4; subst h5; simp))
  case jump => split at h <;> (try (injection h with h1 h2 h3 h4 h5; subst h4; subst h5; simp)); simp at h
  case jumpi =>
    split at h
    · split at h <;> (try (injection h with h1 h2 h3 h4 h5; subst h4; subst h5; simp)); simp at h
    · injection h with h1 h2 h3 h4 h5; subst h4; subst h5; simp
  all_goals simp at *

theorem exec_stops {env : Env} {s : State} {k : OpKind} {args : List Word} {mem : Bytes}
    {results : List Word} {pc : Nat} {mem' : Bytes} {st : Storage} {lg : List Log}
    (hk : k.stops = true) : exec env s k args mem ≠ .cont results pc mem' st lg := by
  cases k <;> simp [exec, OpKind.stops] at *

theorem exec_stop_status {env : Env} {s : State} {k : OpKind} {args : List Word} {mem : Bytes}
    {st : Status} {ret : Bytes} (h : exec env s k args mem = .stop st ret) : st ≠ .err .fuel := by
  cases k <;> simp only [exec] at h
  case jump => split at h <;> (try (injection h with h1; subst h1; simp)); cases h
  case jumpi =>
    split at h
    · split at h <;> (try (injection h with h1; subst h1; simp)); cases h
    · cases h
  all_goals first
    | (injection h with h1; subst h1; simp)
    | cases h

theorem step_halt_status {env : Env} {s : State} {h : Halt} (hs : step env s = .halt h) :
    h.status ≠ .err .fuel := by
  unfold step at hs
  simp only [haltWith] at hs
  split at hs
  · simp at hs; subst hs; simp
  · split at hs; · simp at hs; subst hs; simp
    split at hs; · simp at hs; subst hs; simp
    split at hs; · simp at hs; subst hs; simp
    split at hs; · simp at hs; subst hs; simp
    split at hs; · simp at hs; subst hs; simp
    split at hs; · simp at hs; subst hs; simp
    split at hs; · simp at hs; subst hs; simp
    split at hs; · simp at hs; subst hs; simp
    split at hs; · simp at hs; subst hs; simp
    split at hs
    · rename_i hex; simp at hs; subst hs; exact exec_stop_status hex
    · simp at hs

/-- SSTORE / LOGn / EXP have constant gas 0 but a dynamic gas of at least 1 -/
theorem dynGas_paid {k : OpKind} {args : List Word} {s : State} {m c l : Nat}
    (hk : k.dynPaid = true) (h : dynGas k args s m = some (c, l)) : 1 ≤ c := by
  cases k <;> simp only [OpKind.dynPaid] at hk <;> simp only [dynGas] at h
  case exp =>
    simp only [safeAdd] at h
    split at h <;> simp at h
    omega
  case sstore =>
    split at h
    · injection h with h; injection h with h1 h2; omega
    · split at h <;> (injection h with h; injection h with h1 h2; omega)
  case log n =>
    split at h; · cases h
    simp only [Option.bind_eq_some_iff, Option.map_eq_some_iff, safeAdd, safeMul] at h
    obtain ⟨⟨g, last⟩, _, g1, hg1, g2, hg2, mm, _, t, ht, hc⟩ := h
    split at hg1 <;> simp at hg1
    split at hg2 <;> simp at hg2
    split at ht <;> simp at ht
    injection hc with hc1 hc2
    omega
  all_goals cases hk

end KV.Evm
