import KV.Proofs.EvmTable
/-! Invariants of `step` (inversion lemma, stack effect, gas decrease, frame conditions), for an
arbitrary nested-call wrapper `sub`. -/
namespace KV.Evm

attribute [local irreducible] memWrite memRead getData word32 beVal beFixed wexp validJumpdest sload sstore envValue rightPad memSet

/-- the state in which `exec` runs: gas charged, memory grown -/
def preExec (env : Env) (s : State) (info : OpInfo) (msz dynCost last : Nat) : State :=
  { s with gas := s.gas - info.gas - chargeOf info env.post dynCost,
           mem := growMem s.mem (toWordSize msz * 32), memCost := last }

/-- everything that is known when `step` continues -/
structure StepNext (sub : Sub) (env : Env) (s s' : State) where
  info : OpInfo
  msz : Nat
  dynCost : Nat
  last : Nat
  results : List Word
  mem' : Bytes
  gasBack : Nat
  hinfo : opInfo env.post (getOp env.code s.pc) = some info
  hsup : info.kind.isUnsupported = false
  hmin : info.minStack ≤ s.stack.length
  hmax : s.stack.length ≤ info.maxStack
  hro : (env.readOnly && (info.writes || callWithValue info.kind (s.stack.take info.pops))) = false
  hgas : info.gas ≤ s.gas
  hdyn : dynGasOf info (s.stack.take info.pops) s env.address (s.gas - info.gas) (toWordSize msz * 32) = some (dynCost, last)
  hcharge : chargeOf info env.post dynCost ≤ s.gas - info.gas
  hexec : exec sub env (preExec env s info msz dynCost last) info.kind (s.stack.take info.pops)
      (preExec env s info msz dynCost last).mem
      (cgtOf info.kind (s.stack.take info.pops) s (s.gas - info.gas) (toWordSize msz * 32))
        = .cont results s'.pc mem' s'.world gasBack
  hstack : s'.stack = results ++ s.stack.drop info.pops
  hgas' : s'.gas = s.gas - info.gas - chargeOf info env.post dynCost + gasBack

theorem step_next_inv {sub : Sub} {env : Env} {s s' : State} (h : step sub env s = .next s') :
    Nonempty (StepNext sub env s s') := by
  unfold step at h
  split at h
  · simp [haltWith] at h
  · rename_i info hinfo
    simp only [haltWith] at h
    split at h; · simp at h
    split at h; · simp at h
    split at h; · simp at h
    split at h; · simp at h
    split at h; · simp at h
    rename_i hsup hmin hmax hro hgas
    split at h; · simp at h
    rename_i msz hmsz
    split at h; · simp at h
    split at h; · simp at h
    rename_i dynCost last hdyn
    split at h; · simp at h
    rename_i hcharge
    split at h; · simp at h
    rename_i results pc mem' w' gb hexec
    simp at h
    subst h
    exact ⟨{ info := info, msz := msz, dynCost := dynCost, last := last, results := results, mem' := mem',
             gasBack := gb, hinfo := hinfo,
             hsup := by simpa using hsup, hmin := by omega, hmax := by omega, hro := by simpa using hro,
             hgas := by omega, hdyn := hdyn, hcharge := by omega, hexec := hexec, hstack := rfl, hgas' := rfl }⟩

theorem afterCall_stop_status {s : State} {mem : Bytes} {a b : Word} {out : CallOut} {st : Status} {ret : Bytes}
    (h : afterCall s mem a b out = .stop st ret) : st = .unsupported := by
  unfold afterCall at h
  split at h <;> first | (injection h with h1 h2; exact h1.symm) | cases h

theorem exec_stop_status {sub : Sub} {env : Env} {s : State} {k : OpKind} {args : List Word} {mem : Bytes} {cgt : Nat}
    {st : Status} {ret : Bytes} (h : exec sub env s k args mem cgt = .stop st ret) : st ≠ .err .fuel := by
  cases k <;> simp only [exec] at h
  case jump => split at h <;> (try (injection h with h1; subst h1; simp)); cases h
  case jumpi =>
    split at h
    · split at h <;> (try (injection h with h1; subst h1; simp)); cases h
    · cases h
  case call => rw [afterCall_stop_status h]; simp
  case staticcall => rw [afterCall_stop_status h]; simp
  all_goals first
    | (injection h with h1; subst h1; simp)
    | cases h

/-- a halting step leaves the world alone and does not create gas -/
theorem step_halt_inv {sub : Sub} {env : Env} {s : State} {h : Halt} (hs : step sub env s = .halt h) :
    h.final.gas ≤ s.gas ∧ h.final.world = s.world ∧ h.final.stack = s.stack ∧ h.status ≠ .err .fuel := by
  unfold step at hs
  simp only [haltWith] at hs
  split at hs
  · simp at hs; subst hs; simp
  · split at hs; · simp at hs; subst hs; simp
    split at hs; · simp at hs; subst hs; simp
    split at hs; · simp at hs; subst hs; simp
    split at hs; · simp at hs; subst hs; simp
    split at hs; · simp at hs; subst hs; simp
    split at hs; · simp at hs; subst hs; simp
    split at hs; · simp at hs; subst hs; simp
    split at hs; · simp at hs; subst hs; simp
    split at hs; · simp at hs; subst hs; simp
    split at hs
    · rename_i hex; simp at hs; subst hs
      refine ⟨by simp; omega, by simp, by simp, exec_stop_status hex⟩
    · simp at hs

theorem step_halt_status {sub : Sub} {env : Env} {s : State} {h : Halt} (hs : step sub env s = .halt h) :
    h.status ≠ .err .fuel := (step_halt_inv hs).2.2.2

theorem afterCall_cont {s : State} {mem : Bytes} {a b : Word} {out : CallOut}
    {results : List Word} {pc : Nat} {mem' : Bytes} {w : World} {gb : Nat}
    (h : afterCall s mem a b out = .cont results pc mem' w gb) :
    results.length = 1 ∧ pc = s.pc + 1 ∧ w = out.world ∧ gb = out.gasLeft := by
  unfold afterCall at h
  split at h
  · cases h
  all_goals (injection h with h1 h2 h3 h4 h5; subst h1; subst h2; subst h4; subst h5; exact ⟨rfl, rfl, rfl, rfl⟩)

theorem exec_results_length {sub : Sub} {env : Env} {s : State} {k : OpKind} {args : List Word} {mem : Bytes} {cgt : Nat}
    {results : List Word} {pc : Nat} {mem' : Bytes} {w : World} {gb : Nat}
    (hwf : k.wf = true) (hargs : args.length = k.pops)
    (h : exec sub env s k args mem cgt = .cont results pc mem' w gb) : results.length = k.pushes := by
  cases k <;> simp only [exec, OpKind.pushes, OpKind.pops, OpKind.wf] at *
  case jump => split at h <;> (try (injection h with h1; subst h1; simp only [List.length_cons, List.length_nil, Nat.zero_add])) ; cases h
  case jumpi =>
    split at h
    · split at h <;> (try (injection h with h1; subst h1; simp only [List.length_cons, List.length_nil, Nat.zero_add])); cases h
    · injection h with h1; subst h1; simp only [List.length_cons, List.length_nil, Nat.zero_add]
  case dup n => injection h with h1; subst h1; simp only [List.length_cons]; omega
  case swap n =>
    injection h with h1; subst h1
    simp only [List.length_cons, List.length_append, List.length_take, List.length_drop, List.length_nil]
    simp at hwf; omega
  case call => exact (afterCall_cont h).1
  case staticcall => exact (afterCall_cont h).1
  all_goals first
    | (injection h with h1; subst h1; simp only [List.length_cons, List.length_nil, Nat.zero_add])
    | cases h

/-- kinds other than SSTORE / LOGn / CALL / STATICCALL leave the world alone and hand back no gas -/
theorem exec_frame {sub : Sub} {env : Env} {s : State} {k : OpKind} {args : List Word} {mem : Bytes} {cgt : Nat}
    {results : List Word} {pc : Nat} {mem' : Bytes} {w : World} {gb : Nat}
    (hk : k.modifies = false) (hc : k.isCall = false)
    (h : exec sub env s k args mem cgt = .cont results pc mem' w gb) : w = s.world ∧ gb = 0 := by
  cases k <;> simp only [exec, OpKind.modifies, OpKind.isCall] at * <;>
    (try (injection h with h1 h2 h3 h4 h5; subst h4; subst h5; simp))
  case jump => split at h <;> (try (injection h with h1 h2 h3 h4 h5; subst h4; subst h5; simp)); simp at h
  case jumpi =>
    split at h
    · split at h <;> (try (injection h with h1 h2 h3 h4 h5; subst h4; subst h5; simp)); simp at h
    · injection h with h1 h2 h3 h4 h5; subst h4; subst h5; simp
  all_goals simp at *

/-- SSTORE and LOGn hand back no gas either -/
theorem exec_noncall_gas {sub : Sub} {env : Env} {s : State} {k : OpKind} {args : List Word} {mem : Bytes} {cgt : Nat}
    {results : List Word} {pc : Nat} {mem' : Bytes} {w : World} {gb : Nat}
    (hc : k.isCall = false)
    (h : exec sub env s k args mem cgt = .cont results pc mem' w gb) : gb = 0 := by
  cases hm : k.modifies
  · exact (exec_frame hm hc h).2
  · cases k <;> simp only [OpKind.modifies] at hm <;> simp only [exec] at h
    all_goals first
      | (injection h with h1 h2 h3 h4 h5; exact h5.symm)
      | cases hm

theorem exec_stops {sub : Sub} {env : Env} {s : State} {k : OpKind} {args : List Word} {mem : Bytes} {cgt : Nat}
    {results : List Word} {pc : Nat} {mem' : Bytes} {w : World} {gb : Nat}
    (hk : k.stops = true) : exec sub env s k args mem cgt ≠ .cont results pc mem' w gb := by
  cases k <;> simp [exec, OpKind.stops] at *

/-- where the program counter goes: to the next instruction, or to a valid jump destination -/
theorem exec_pc {sub : Sub} {env : Env} {s : State} {k : OpKind} {args : List Word} {mem : Bytes} {cgt : Nat}
    {results : List Word} {pc : Nat} {mem' : Bytes} {w : World} {gb : Nat}
    (h : exec sub env s k args mem cgt = .cont results pc mem' w gb) :
    pc = s.pc + 1 + k.immLen ∨ (k.isJump = true ∧ validJumpdest env.code pc = true) := by
  cases k <;> simp only [exec] at h <;> simp only [OpKind.immLen]
  case jump =>
    split at h
    · rename_i hv; injection h with h1 h2; subst h2; exact Or.inr ⟨rfl, hv⟩
    · cases h
  case jumpi =>
    split at h
    · split at h
      · rename_i hv; injection h with h1 h2; subst h2; exact Or.inr ⟨rfl, hv⟩
      · cases h
    · injection h with h1 h2; subst h2; exact Or.inl rfl
  case call => exact Or.inl (afterCall_cont h).2.1
  case staticcall => exact Or.inl (afterCall_cont h).2.1
  case push n => injection h with h1 h2; subst h2; exact Or.inl (by omega)
  all_goals first
    | (injection h with h1 h2; subst h2; exact Or.inl rfl)
    | cases h

/-- SSTORE / LOGn / EXP have constant gas 0 but a dynamic gas of at least 1 -/
theorem dynGas_paid {k : OpKind} {args : List Word} {s : State} {self ga m c l : Nat}
    (hk : k.dynPaid = true) (h : dynGas k args s self ga m = some (c, l)) : 1 ≤ c := by
  cases k <;> simp only [OpKind.dynPaid] at hk <;> simp only [dynGas] at h
  case exp =>
    simp only [safeAdd] at h
    split at h <;> simp at h
    omega
  case sstore =>
    split at h
    · injection h with h; injection h with h1 h2; omega
    · split at h <;> (injection h with h; injection h with h1 h2; omega)
  case log n =>
    split at h; · cases h
    simp only [Option.bind_eq_some_iff, Option.map_eq_some_iff, safeAdd, safeMul] at h
    obtain ⟨⟨g, last⟩, _, g1, hg1, g2, hg2, mm, _, t, ht, hc⟩ := h
    split at hg1 <;> simp at hg1
    split at hg2 <;> simp at hg2
    split at ht <;> simp at ht
    injection hc with hc1 hc2
    omega
  all_goals cases hk

end KV.Evm
