import KV.Model.MConn
/-! Lemmas for C20 (packetisation / reassembly of MConnection). Core only. -/
namespace KV.MConn
open KV

/-- per-channel invariant linking both ends: every message accepted so far is either delivered,
in flight (`recving ‖ sending` is the message being transferred) or still queued – in order. -/
def Inv (cap : Nat) (c : Chan) : Prop :=
  (∀ m ∈ c.queue, m ≠ [] ∧ m.length ≤ cap) ∧
  (c.sending = [] → c.recving = [] ∧ c.enq = c.delivered ++ c.queue) ∧
  (c.sending ≠ [] → c.enq = c.delivered ++ (c.recving ++ c.sending) :: c.queue ∧
      (c.recving ++ c.sending).length ≤ cap)

theorem inv_init (cap : Nat) : Inv cap {} := by simp [Inv]

theorem inv_isSendPending (cap : Nat) (c : Chan) (h : Inv cap c) :
    Inv cap (isSendPending c).2 ∧ ((isSendPending c).1 = true → (isSendPending c).2.sending ≠ []) := by
  obtain ⟨hq, h0, h1⟩ := h
  unfold isSendPending
  by_cases hs : c.sending.length = 0
  · have hs' : c.sending = [] := List.eq_nil_of_length_eq_zero hs
    obtain ⟨hr, he⟩ := h0 hs'
    cases hqq : c.queue with
    | nil =>
      simp only [hs, if_true]
      refine ⟨⟨by simp [hqq], fun _ => ⟨hr, he⟩, fun hne => absurd hs' hne⟩, by simp⟩
    | cons m q =>
      simp only [hs, if_true]
      have hm := hq m (by simp [hqq])
      refine ⟨⟨?_, ?_, ?_⟩, ?_⟩
      · intro x hx; exact hq x (by simp [hqq, hx])
      · intro hm0; exact absurd hm0 hm.1
      · intro _
        simp only [hr, List.nil_append]
        exact ⟨by rw [he, hqq], hm.2⟩
      · intro _; exact hm.1
  · simp only [hs, if_false]
    have hne : c.sending ≠ [] := fun h => hs (by simp [h])
    exact ⟨⟨hq, h0, h1⟩, fun _ => hne⟩

/-- what one packet does to the channel: sender's `nextPacketMsg` then receiver's
`recvPacketMsg` -/
def transfer (maxSize cap id : Nat) (c : Chan) : Option Chan :=
  let (p, c1) := nextPacket maxSize id c
  match recvPacket cap c1.recving p with
  | none => none
  | some (some m, r) => some { c1 with recving := r, delivered := c1.delivered ++ [m] }
  | some (none, r) => some { c1 with recving := r }

theorem inv_transfer (maxSize cap id : Nat) (c : Chan) (h : Inv cap c) (hs : c.sending ≠ []) :
    ∃ c', transfer maxSize cap id c = some c' ∧ Inv cap c' := by
  obtain ⟨hq, _, h1⟩ := h
  obtain ⟨he, hcap⟩ := h1 hs
  simp only [List.length_append] at hcap
  unfold transfer nextPacket recvPacket
  by_cases hle : c.sending.length ≤ maxSize
  · have hmin : min maxSize c.sending.length = c.sending.length := by omega
    have hnot : ¬ cap < c.recving.length + c.sending.length := by omega
    simp only [hle, if_true, hmin, List.take_length, hnot, if_false]
    refine ⟨_, rfl, hq, ?_, ?_⟩
    · intro _; simp [he]
    · intro hne; exact absurd rfl hne
  · have hmin : min maxSize c.sending.length = maxSize := by omega
    have hnot : ¬ cap < c.recving.length + (c.sending.take maxSize).length := by
      simp [List.length_take]; omega
    simp only [hle, if_false, hmin, hnot]
    have hdrop : c.sending.drop maxSize ≠ [] := by
      intro h0
      have := congrArg List.length h0
      simp at this; omega
    refine ⟨_, rfl, hq, ?_, ?_⟩
    · intro h0; exact absurd h0 hdrop
    · intro _
      simp only [List.append_assoc, List.take_append_drop, List.length_append]
      exact ⟨he, hcap⟩

theorem upd_same (f : Nat → Chan) (i : Nat) (c : Chan) : upd f i c i = c := by simp [upd]
theorem upd_other (f : Nat → Chan) (i j : Nat) (c : Chan) (h : j ≠ i) : upd f i c j = f j := by simp [upd, h]

/-- messages of an action list: non-empty and within the receive capacity of their channel -/
def ActsOK (caps : Nat → Nat) (acts : List Act) : Prop :=
  ∀ i m, Act.send i m ∈ acts → m ≠ [] ∧ m.length ≤ caps i

theorem step_eq_transfer (maxSize : Nat) (caps : Nat → Nat) (s : Sys) (i : Nat)
    (herr : s.err = false) (hp : pending s.ch i = true) :
    (∀ c', transfer maxSize (caps i) i (sweep s.ch i) = some c' →
        (step maxSize caps s (.pkt i)).ch = upd (sweep s.ch) i c' ∧ (step maxSize caps s (.pkt i)).err = false) ∧
    (transfer maxSize (caps i) i (sweep s.ch i) = none → (step maxSize caps s (.pkt i)).err = true) := by
  unfold step transfer
  simp only [herr, hp, if_true, Bool.false_eq_true, if_false]
  cases hr : recvPacket (caps i) (nextPacket maxSize i (sweep s.ch i)).2.recving
      (nextPacket maxSize i (sweep s.ch i)).1 with
  | none => simp
  | some x =>
    obtain ⟨o, r⟩ := x
    cases o with
    | none => simp
    | some m => simp

theorem inv_step (maxSize : Nat) (caps : Nat → Nat) (s : Sys) (a : Act)
    (ha : ∀ i m, a = Act.send i m → m ≠ [] ∧ m.length ≤ caps i)
    (herr : s.err = false) (hinv : ∀ j, Inv (caps j) (s.ch j)) :
    (step maxSize caps s a).err = false ∧ ∀ j, Inv (caps j) ((step maxSize caps s a).ch j) := by
  cases a with
  | send i m =>
    obtain ⟨hm0, hmc⟩ := ha i m rfl
    refine ⟨by simpa [step] using herr, ?_⟩
    intro j
    simp only [step]
    by_cases hj : j = i
    · subst hj
      rw [upd_same]
      obtain ⟨hq, h0, h1⟩ := hinv j
      refine ⟨?_, ?_, ?_⟩
      · intro x hx
        simp only [List.mem_append, List.mem_singleton] at hx
        rcases hx with hx | hx
        · exact hq x hx
        · subst hx; exact ⟨hm0, hmc⟩
      · intro hs
        obtain ⟨hr, he⟩ := h0 hs
        exact ⟨hr, by simp [he]⟩
      · intro hs
        obtain ⟨he, hc⟩ := h1 hs
        exact ⟨by simp [he], hc⟩
    · rw [upd_other _ _ _ _ hj]; exact hinv j
  | pkt i =>
    have hsw : ∀ j, Inv (caps j) (sweep s.ch j) := fun j => (inv_isSendPending _ _ (hinv j)).1
    by_cases hp : pending s.ch i = true
    · have hne : (sweep s.ch i).sending ≠ [] := (inv_isSendPending _ _ (hinv i)).2 hp
      obtain ⟨c', hc', hinv'⟩ := inv_transfer maxSize (caps i) i _ (hsw i) hne
      obtain ⟨h1, h2⟩ := (step_eq_transfer maxSize caps s i herr hp).1 c' hc'
      refine ⟨h2, ?_⟩
      intro j
      rw [h1]
      by_cases hj : j = i
      · subst hj; rw [upd_same]; exact hinv'
      · rw [upd_other _ _ _ _ hj]; exact hsw j
    · have : (step maxSize caps s (.pkt i)) = { s with ch := sweep s.ch } := by
        simp [step, herr, hp]
      rw [this]
      exact ⟨herr, hsw⟩

theorem inv_run (maxSize : Nat) (caps : Nat → Nat) (acts : List Act) :
    ∀ (s : Sys), ActsOK caps acts → s.err = false → (∀ j, Inv (caps j) (s.ch j)) →
      (run maxSize caps s acts).err = false ∧ ∀ j, Inv (caps j) ((run maxSize caps s acts).ch j) := by
  induction acts with
  | nil => intro s _ h1 h2; exact ⟨h1, h2⟩
  | cons a acts ih =>
    intro s hok herr hinv
    obtain ⟨h1, h2⟩ := inv_step maxSize caps s a (fun i m h => hok i m (by simp [h])) herr hinv
    exact ih _ (fun i m h => hok i m (by simp [h])) h1 h2

/-! ### `enq` is exactly the list of messages sent on the channel -/

def sentOn (j : Nat) : List Act → List Bytes
  | [] => []
  | .send i m :: as => if i = j then m :: sentOn j as else sentOn j as
  | .pkt _ :: as => sentOn j as

theorem isSendPending_enq (c : Chan) : (isSendPending c).2.enq = c.enq := by
  unfold isSendPending
  split
  · split <;> rfl
  · rfl

theorem step_enq (maxSize : Nat) (caps : Nat → Nat) (s : Sys) (a : Act) (j : Nat) :
    ((step maxSize caps s a).ch j).enq = (s.ch j).enq ++ sentOn j [a] := by
  cases a with
  | send i m =>
    simp only [step, sentOn]
    by_cases hj : j = i
    · subst hj; simp [upd_same]
    · have : ¬ i = j := fun h => hj h.symm
      simp [upd_other _ _ _ _ hj, this]
  | pkt i =>
    simp only [sentOn, List.append_nil]
    unfold step
    by_cases he : s.err = true
    · simp [he]
    · simp only [he, Bool.false_eq_true, if_false]
      by_cases hp : pending s.ch i = true
      · simp only [hp, if_true]
        have hnp : ∀ c : Chan, (nextPacket maxSize i c).2.enq = c.enq := by
          intro c; unfold nextPacket; split <;> rfl
        by_cases hj : j = i
        · subst hj
          cases hr : recvPacket (caps j) (nextPacket maxSize j (sweep s.ch j)).2.recving
              (nextPacket maxSize j (sweep s.ch j)).1 with
          | none => simp [upd_same, hnp, sweep, isSendPending_enq]
          | some x =>
            obtain ⟨o, r⟩ := x
            cases o <;> simp [upd_same, hnp, sweep, isSendPending_enq]
        · cases hr : recvPacket (caps i) (nextPacket maxSize i (sweep s.ch i)).2.recving
              (nextPacket maxSize i (sweep s.ch i)).1 with
          | none => simp [upd_other _ _ _ _ hj, sweep, isSendPending_enq]
          | some x =>
            obtain ⟨o, r⟩ := x
            cases o <;> simp [upd_other _ _ _ _ hj, sweep, isSendPending_enq]
      · simp [hp, sweep, isSendPending_enq]

theorem sentOn_cons (j : Nat) (a : Act) (as : List Act) : sentOn j (a :: as) = sentOn j [a] ++ sentOn j as := by
  cases a with
  | send i m => by_cases h : i = j <;> simp [sentOn, h]
  | pkt i => simp [sentOn]

theorem run_enq (maxSize : Nat) (caps : Nat → Nat) (acts : List Act) (j : Nat) :
    ∀ s : Sys, ((run maxSize caps s acts).ch j).enq = (s.ch j).enq ++ sentOn j acts := by
  induction acts with
  | nil => intro s; simp [run, sentOn]
  | cons a acts ih =>
    intro s
    have := ih (step maxSize caps s a)
    simp only [run, List.foldl_cons] at this ⊢
    rw [this, step_enq, sentOn_cons j a acts, List.append_assoc]

/-! ### every delivered message fits the capacity, whatever the packets are -/

theorem recvPacket_cap (cap : Nat) (recving : Bytes) (p : Packet) (m : Bytes) (r : Bytes)
    (h : recvPacket cap recving p = some (some m, r)) : m.length ≤ cap ∧ m = recving ++ p.data ∧ r = [] := by
  unfold recvPacket at h
  by_cases hc : cap < recving.length + p.data.length
  · simp [hc] at h
  · simp only [hc, if_false] at h
    by_cases he : p.eof = true
    · simp only [he, if_true, Option.some.injEq, Prod.mk.injEq] at h
      obtain ⟨h1, h2⟩ := h
      subst h1
      exact ⟨by simp; omega, rfl, h2.symm⟩
    · simp [he] at h

end KV.MConn
