import KV.Model.MConn
/-! Lemmas for C20 (packetisation / reassembly of MConnection). Core only. -/
namespace KV.MConn
open KV

/-- per-channel invariant linking both ends: every message accepted so far is either delivered,
in flight (`recving ‖ sending` is the message being transferred – possibly the empty message) or
still queued – in order. -/
def Inv (cap : Nat) (c : Chan) : Prop :=
  (∀ m ∈ c.queue, m.length ≤ cap) ∧
  (c.sending = none → c.recving = [] ∧ c.enq = c.delivered ++ c.queue) ∧
  (∀ s, c.sending = some s → c.enq = c.delivered ++ (c.recving ++ s) :: c.queue ∧
      (c.recving ++ s).length ≤ cap)

theorem inv_init (cap : Nat) : Inv cap {} := by simp [Inv]

theorem inv_isSendPending (cap : Nat) (c : Chan) (h : Inv cap c) :
    Inv cap (isSendPending c).2 ∧
      ((isSendPending c).1 = true → ∃ s, (isSendPending c).2.sending = some s) ∧
      ((isSendPending c).1 = false → idle c) := by
  obtain ⟨hq, h0, h1⟩ := h
  unfold isSendPending
  cases hs : c.sending with
  | none =>
    obtain ⟨hr, he⟩ := h0 hs
    cases hqq : c.queue with
    | nil =>
      refine ⟨⟨by simp [hqq], fun _ => ⟨hr, he⟩, fun s h => by simp [hs] at h⟩, by simp, fun _ => ⟨hqq, hs⟩⟩
    | cons m q =>
      have hm := hq m (by simp [hqq])
      refine ⟨⟨?_, ?_, ?_⟩, ?_, ?_⟩
      · intro x hx; exact hq x (by simp [hqq]; exact Or.inr hx)
      · intro h; simp at h
      · intro s h
        simp only [Option.some.injEq] at h
        subst h
        simp only [hr, List.nil_append]
        exact ⟨by rw [he, hqq], hm⟩
      · intro _; exact ⟨m, rfl⟩
      · intro h; simp at h
  | some s =>
    refine ⟨⟨hq, h0, h1⟩, fun _ => ⟨s, hs⟩, fun h => by simp at h⟩

/-- what one packet does to the channel: sender's `nextPacketMsg` then receiver's
`recvPacketMsg` -/
def transfer (maxSize cap id : Nat) (c : Chan) : Option Chan :=
  let (p, c1) := nextPacket maxSize id c
  match recvPacket cap c1.recving p with
  | none => none
  | some (some m, r) => some { c1 with recving := r, delivered := c1.delivered ++ [m] }
  | some (none, r) => some { c1 with recving := r }

theorem inv_transfer (maxSize cap id : Nat) (c : Chan) (h : Inv cap c) (s : Bytes)
    (hs : c.sending = some s) :
    ∃ c', transfer maxSize cap id c = some c' ∧ Inv cap c' := by
  obtain ⟨hq, _, h1⟩ := h
  obtain ⟨he, hcap⟩ := h1 s hs
  simp only [List.length_append] at hcap
  unfold transfer nextPacket recvPacket
  simp only [hs, Option.getD_some]
  by_cases hle : s.length ≤ maxSize
  · have hmin : min maxSize s.length = s.length := by omega
    have hnot : ¬ cap < c.recving.length + s.length := by omega
    simp only [hle, if_true, hmin, List.take_length, hnot, if_false]
    refine ⟨_, rfl, hq, ?_, ?_⟩
    · intro _; simp [he]
    · intro s' h; simp at h
  · have hmin : min maxSize s.length = maxSize := by omega
    have hnot : ¬ cap < c.recving.length + (s.take maxSize).length := by
      simp [List.length_take]; omega
    simp only [hle, if_false, hmin, hnot]
    refine ⟨_, rfl, hq, ?_, ?_⟩
    · intro h0; simp at h0
    · intro s' h
      simp only [Option.some.injEq] at h
      subst h
      simp only [List.append_assoc, List.take_append_drop, List.length_append]
      exact ⟨he, hcap⟩

/-- `nextPacketMsg` on a message in flight: the last packet -/
theorem nextPacket_last (maxSize id : Nat) (c : Chan) (s : Bytes) (hs : c.sending = some s)
    (hle : s.length ≤ maxSize) :
    nextPacket maxSize id c = (⟨id, true, s⟩, { c with sending := none }) := by
  have hmin : min maxSize s.length = s.length := by omega
  simp [nextPacket, hs, hle, hmin]

/-- `nextPacketMsg` on a message in flight: a full packet, more to come -/
theorem nextPacket_more (maxSize id : Nat) (c : Chan) (s : Bytes) (hs : c.sending = some s)
    (hgt : ¬ s.length ≤ maxSize) :
    nextPacket maxSize id c = (⟨id, false, s.take maxSize⟩, { c with sending := some (s.drop maxSize) }) := by
  have hmin : min maxSize s.length = maxSize := by omega
  simp [nextPacket, hs, hgt, hmin]

theorem upd_same (f : Nat → Chan) (i : Nat) (c : Chan) : upd f i c i = c := by simp [upd]
theorem upd_other (f : Nat → Chan) (i j : Nat) (c : Chan) (h : j ≠ i) : upd f i c j = f j := by simp [upd, h]

/-- messages of an action list: within the receive capacity of their channel (empty messages
included) -/
def ActsOK (caps : Nat → Nat) (acts : List Act) : Prop :=
  ∀ i m, Act.send i m ∈ acts → m.length ≤ caps i

theorem step_eq_transfer (maxSize : Nat) (caps : Nat → Nat) (s : Sys) (i : Nat)
    (herr : s.err = false) (hp : pending s.ch i = true) :
    (∀ c', transfer maxSize (caps i) i (sweep s.ch i) = some c' →
        (step maxSize caps s (.pkt i)).ch = upd (sweep s.ch) i c' ∧ (step maxSize caps s (.pkt i)).err = false) ∧
    (transfer maxSize (caps i) i (sweep s.ch i) = none → (step maxSize caps s (.pkt i)).err = true) := by
  unfold step transfer
  simp only [herr, hp, if_true, Bool.false_eq_true, if_false]
  cases hr : recvPacket (caps i) (nextPacket maxSize i (sweep s.ch i)).2.recving
      (nextPacket maxSize i (sweep s.ch i)).1 with
  | none => simp
  | some x =>
    obtain ⟨o, r⟩ := x
    cases o with
    | none => simp
    | some m => simp

theorem inv_step (maxSize : Nat) (caps : Nat → Nat) (s : Sys) (a : Act)
    (ha : ∀ i m, a = Act.send i m → m.length ≤ caps i)
    (herr : s.err = false) (hinv : ∀ j, Inv (caps j) (s.ch j)) :
    (step maxSize caps s a).err = false ∧ ∀ j, Inv (caps j) ((step maxSize caps s a).ch j) := by
  cases a with
  | send i m =>
    have hmc := ha i m rfl
    refine ⟨by simpa [step] using herr, ?_⟩
    intro j
    simp only [step]
    by_cases hj : j = i
    · subst hj
      rw [upd_same]
      obtain ⟨hq, h0, h1⟩ := hinv j
      refine ⟨?_, ?_, ?_⟩
      · intro x hx
        simp only [List.mem_append, List.mem_singleton] at hx
        rcases hx with hx | hx
        · exact hq x hx
        · subst hx; exact hmc
      · intro hs
        obtain ⟨hr, he⟩ := h0 hs
        exact ⟨hr, by simp [he]⟩
      · intro s' hs
        obtain ⟨he, hc⟩ := h1 s' hs
        exact ⟨by simp [he], hc⟩
    · rw [upd_other _ _ _ _ hj]; exact hinv j
  | pkt i =>
    have hsw : ∀ j, Inv (caps j) (sweep s.ch j) := fun j => (inv_isSendPending _ _ (hinv j)).1
    by_cases hp : pending s.ch i = true
    · obtain ⟨sd, hsd⟩ : ∃ sd, (sweep s.ch i).sending = some sd := (inv_isSendPending _ _ (hinv i)).2.1 hp
      obtain ⟨c', hc', hinv'⟩ := inv_transfer maxSize (caps i) i _ (hsw i) sd hsd
      obtain ⟨h1, h2⟩ := (step_eq_transfer maxSize caps s i herr hp).1 c' hc'
      refine ⟨h2, ?_⟩
      intro j
      rw [h1]
      by_cases hj : j = i
      · subst hj; rw [upd_same]; exact hinv'
      · rw [upd_other _ _ _ _ hj]; exact hsw j
    · have : (step maxSize caps s (.pkt i)) = { s with ch := sweep s.ch } := by
        simp [step, herr, hp]
      rw [this]
      exact ⟨herr, hsw⟩

theorem inv_run (maxSize : Nat) (caps : Nat → Nat) (acts : List Act) :
    ∀ (s : Sys), ActsOK caps acts → s.err = false → (∀ j, Inv (caps j) (s.ch j)) →
      (run maxSize caps s acts).err = false ∧ ∀ j, Inv (caps j) ((run maxSize caps s acts).ch j) := by
  induction acts with
  | nil => intro s _ h1 h2; exact ⟨h1, h2⟩
  | cons a acts ih =>
    intro s hok herr hinv
    obtain ⟨h1, h2⟩ := inv_step maxSize caps s a (fun i m h => hok i m (by simp [h])) herr hinv
    exact ih _ (fun i m h => hok i m (by simp [h])) h1 h2

/-! ### `enq` is exactly the list of messages sent on the channel -/

def sentOn (j : Nat) : List Act → List Bytes
  | [] => []
  | .send i m :: as => if i = j then m :: sentOn j as else sentOn j as
  | .pkt _ :: as => sentOn j as

theorem isSendPending_enq (c : Chan) : (isSendPending c).2.enq = c.enq := by
  unfold isSendPending
  split
  · split <;> rfl
  · rfl

theorem step_enq (maxSize : Nat) (caps : Nat → Nat) (s : Sys) (a : Act) (j : Nat) :
    ((step maxSize caps s a).ch j).enq = (s.ch j).enq ++ sentOn j [a] := by
  cases a with
  | send i m =>
    simp only [step, sentOn]
    by_cases hj : j = i
    · subst hj; simp [upd_same]
    · have : ¬ i = j := fun h => hj h.symm
      simp [upd_other _ _ _ _ hj, this]
  | pkt i =>
    simp only [sentOn, List.append_nil]
    unfold step
    by_cases he : s.err = true
    · simp [he]
    · simp only [he, Bool.false_eq_true, if_false]
      by_cases hp : pending s.ch i = true
      · simp only [hp, if_true]
        have hnp : ∀ c : Chan, (nextPacket maxSize i c).2.enq = c.enq := by
          intro c; simp only [nextPacket]; split <;> rfl
        by_cases hj : j = i
        · subst hj
          cases hr : recvPacket (caps j) (nextPacket maxSize j (sweep s.ch j)).2.recving
              (nextPacket maxSize j (sweep s.ch j)).1 with
          | none => simp [upd_same, hnp, sweep, isSendPending_enq]
          | some x =>
            obtain ⟨o, r⟩ := x
            cases o <;> simp [upd_same, hnp, sweep, isSendPending_enq]
        · cases hr : recvPacket (caps i) (nextPacket maxSize i (sweep s.ch i)).2.recving
              (nextPacket maxSize i (sweep s.ch i)).1 with
          | none => simp [upd_other _ _ _ _ hj, sweep, isSendPending_enq]
          | some x =>
            obtain ⟨o, r⟩ := x
            cases o <;> simp [upd_other _ _ _ _ hj, sweep, isSendPending_enq]
      · simp [hp, sweep, isSendPending_enq]

theorem sentOn_cons (j : Nat) (a : Act) (as : List Act) : sentOn j (a :: as) = sentOn j [a] ++ sentOn j as := by
  cases a with
  | send i m => by_cases h : i = j <;> simp [sentOn, h]
  | pkt i => simp [sentOn]

theorem run_enq (maxSize : Nat) (caps : Nat → Nat) (acts : List Act) (j : Nat) :
    ∀ s : Sys, ((run maxSize caps s acts).ch j).enq = (s.ch j).enq ++ sentOn j acts := by
  induction acts with
  | nil => intro s; simp [run, sentOn]
  | cons a acts ih =>
    intro s
    have := ih (step maxSize caps s a)
    simp only [run, List.foldl_cons] at this ⊢
    rw [this, step_enq, sentOn_cons j a acts, List.append_assoc]

/-! ### every delivered message fits the capacity, whatever the packets are -/

theorem recvPacket_cap (cap : Nat) (recving : Bytes) (p : Packet) (m : Bytes) (r : Bytes)
    (h : recvPacket cap recving p = some (some m, r)) : m.length ≤ cap ∧ m = recving ++ p.data ∧ r = [] := by
  unfold recvPacket at h
  by_cases hc : cap < recving.length + p.data.length
  · simp [hc] at h
  · simp only [hc, if_false] at h
    by_cases he : p.eof = true
    · simp only [he, if_true, Option.some.injEq, Prod.mk.injEq] at h
      obtain ⟨h1, h2⟩ := h
      subst h1
      exact ⟨by simp; omega, rfl, h2.symm⟩
    · simp [he] at h

/-! ### progress: with a positive packet size every `sendPacketMsg` that serves a channel reduces
its outstanding work, so a channel drains after finitely many picks -/

/-- outstanding work of the sender side: bytes still to send, plus one per message (the EOF packet
is owed even for an empty message) -/
def work (c : Chan) : Nat :=
  (match c.sending with
   | none => 0
   | some s => s.length + 1) + (c.queue.map (fun m => m.length + 1)).sum

theorem work_isSendPending (c : Chan) : work (isSendPending c).2 = work c := by
  unfold isSendPending work
  cases hs : c.sending with
  | none =>
    cases hq : c.queue with
    | nil => simp [hs, hq]
    | cons m q => simp <;> omega
  | some s => simp [hs]

theorem idle_of_work_zero (c : Chan) (h : work c = 0) : idle c := by
  unfold work at h
  unfold idle
  cases hs : c.sending with
  | some s => simp [hs] at h
  | none =>
    cases hq : c.queue with
    | nil => exact ⟨rfl, rfl⟩
    | cons m q => simp [hs, hq] at h

theorem transfer_work (maxSize cap id : Nat) (hmax : 0 < maxSize) (c c' : Chan) (s : Bytes)
    (hs : c.sending = some s) (ht : transfer maxSize cap id c = some c') : work c' < work c := by
  unfold transfer nextPacket at ht
  simp only [hs, Option.getD_some] at ht
  by_cases hle : s.length ≤ maxSize
  · simp only [hle, if_true] at ht
    split at ht
    · simp at ht
    · simp only [Option.some.injEq] at ht; subst ht; simp [work, hs] <;> omega
    · simp only [Option.some.injEq] at ht; subst ht; simp [work, hs] <;> omega
  · simp only [hle, if_false] at ht
    have hmin : min maxSize s.length = maxSize := by omega
    split at ht
    · simp at ht
    · simp only [Option.some.injEq] at ht; subst ht; simp [work, hs, hmin] <;> omega
    · simp only [Option.some.injEq] at ht; subst ht; simp [work, hs, hmin] <;> omega

theorem drain_step (maxSize : Nat) (hmax : 0 < maxSize) (caps : Nat → Nat) (s : Sys) (j : Nat)
    (herr : s.err = false) (hinv : ∀ i, Inv (caps i) (s.ch i)) (hni : ¬ idle (s.ch j)) :
    work ((step maxSize caps s (.pkt j)).ch j) < work (s.ch j) := by
  obtain ⟨hsw, hsome, hidle⟩ := inv_isSendPending _ _ (hinv j)
  have hp : pending s.ch j = true := by
    cases h : pending s.ch j with
    | true => rfl
    | false => exact absurd (hidle h) hni
  obtain ⟨sd, hsd⟩ := hsome hp
  obtain ⟨c', hc', _⟩ := inv_transfer maxSize (caps j) j _ hsw sd hsd
  obtain ⟨h1, _⟩ := (step_eq_transfer maxSize caps s j herr hp).1 c' hc'
  rw [h1, upd_same]
  have h2 : work (sweep s.ch j) = work (s.ch j) := work_isSendPending _
  exact Nat.lt_of_lt_of_eq (transfer_work maxSize (caps j) j hmax _ c' sd hsd hc') h2

theorem drain (maxSize : Nat) (hmax : 0 < maxSize) (caps : Nat → Nat) (j : Nat) :
    ∀ (w : Nat) (s : Sys), s.err = false → (∀ i, Inv (caps i) (s.ch i)) → work (s.ch j) ≤ w →
      ∃ n, idle ((run maxSize caps s (List.replicate n (.pkt j))).ch j) := by
  intro w
  induction w with
  | zero =>
    intro s _ _ hw
    have h0 : work (s.ch j) = 0 := by omega
    exact ⟨0, idle_of_work_zero (s.ch j) h0⟩
  | succ w ih =>
    intro s herr hinv hw
    by_cases hi : idle (s.ch j)
    · exact ⟨0, hi⟩
    · have hlt := drain_step maxSize hmax caps s j herr hinv hi
      obtain ⟨he', hinv'⟩ := inv_step maxSize caps s (.pkt j) (fun i m h => by simp at h) herr hinv
      obtain ⟨n, hn⟩ := ih (step maxSize caps s (.pkt j)) he' hinv' (by omega)
      exact ⟨n + 1, by simpa [run, List.replicate_succ] using hn⟩

theorem sentOn_append (j : Nat) (as bs : List Act) : sentOn j (as ++ bs) = sentOn j as ++ sentOn j bs := by
  induction as with
  | nil => simp [sentOn]
  | cons a as ih => rw [List.cons_append, sentOn_cons, ih, sentOn_cons j a as, List.append_assoc]

theorem sentOn_replicate_pkt (j i n : Nat) : sentOn j (List.replicate n (.pkt i)) = [] := by
  induction n with
  | zero => simp [sentOn]
  | succ n ih => simp [List.replicate_succ, sentOn, ih]

theorem run_append (maxSize : Nat) (caps : Nat → Nat) (s : Sys) (as bs : List Act) :
    run maxSize caps s (as ++ bs) = run maxSize caps (run maxSize caps s as) bs := by
  simp [run, List.foldl_append]

/-! ### the rule before the fix of C20-E1 (kept for the regression theorem only) -/

/-- `isSendPending` as it was before the fix: `if len(ch.sending) == 0 { … ch.sending = <-ch.sendQueue }`
– a length test, so a dequeued empty message is indistinguishable from "nothing in flight". -/
def isSendPendingOld (c : Chan) : Bool × Chan :=
  if (c.sending.getD []).length = 0 then
    match c.queue with
    | [] => (false, c)
    | m :: q => (true, { c with sending := some m, queue := q })
  else (true, c)

/-- `step` with the `isSendPending` rule as a parameter (same text as `KV.MConn.step`) -/
def stepWith (isp : Chan → Bool × Chan) (maxSize : Nat) (caps : Nat → Nat) (s : Sys) : Act → Sys
  | .send i m =>
    { s with ch := upd s.ch i { s.ch i with queue := (s.ch i).queue ++ [m], enq := (s.ch i).enq ++ [m] } }
  | .pkt i =>
    if s.err then s else
    let f : Nat → Chan := fun j => (isp (s.ch j)).2
    if (isp (s.ch i)).1 then
      let (p, c) := nextPacket maxSize i (f i)
      match recvPacket (caps i) c.recving p with
      | none => { ch := upd f i c, err := true, wire := p :: s.wire }
      | some (some m, r) =>
        { ch := upd f i { c with recving := r, delivered := c.delivered ++ [m] }, err := false, wire := p :: s.wire }
      | some (none, r) => { ch := upd f i { c with recving := r }, err := false, wire := p :: s.wire }
    else { s with ch := f }

def runWith (isp : Chan → Bool × Chan) (maxSize : Nat) (caps : Nat → Nat) (s : Sys) (acts : List Act) : Sys :=
  acts.foldl (stepWith isp maxSize caps) s

/-- instantiated with the current rule, `stepWith` IS the model's `step` -/
theorem stepWith_new (maxSize : Nat) (caps : Nat → Nat) (s : Sys) (a : Act) :
    stepWith isSendPending maxSize caps s a = step maxSize caps s a := by
  cases a <;> rfl

theorem runWith_new (maxSize : Nat) (caps : Nat → Nat) (acts : List Act) :
    ∀ s : Sys, runWith isSendPending maxSize caps s acts = run maxSize caps s acts := by
  induction acts with
  | nil => intro s; rfl
  | cons a acts ih => intro s; simp only [runWith, run, List.foldl_cons, stepWith_new] at ih ⊢; exact ih _

end KV.MConn
