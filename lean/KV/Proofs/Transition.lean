import KV.Model.Transition
/-! Lemmas about the world (association list) and the `Call`/`create` wrappers of the transition
model (property C09). Core only. -/
namespace KV.Transition
open KV

theorem get_set (w : World) (a b : Addr) (v : Acct) :
    get (set w a v) b = if a = b then v else get w b := by
  induction w with
  | nil => simp [set, get]
  | cons x r ih =>
    obtain ⟨k, y⟩ := x
    simp only [set]
    by_cases hk : k = a
    · subst hk
      simp only [if_true, get]
      split <;> rfl
    · simp only [hk, if_false, get, ih]
      by_cases hb : k = b
      · subst hb
        have : ¬ a = k := fun h => hk h.symm
        simp [this]
      · simp [hb]

theorem total_set (w : World) (a : Addr) (v : Acct) :
    total (set w a v) = total w - (get w a).bal + v.bal := by
  induction w with
  | nil => simp [set, get, total]
  | cons x r ih =>
    obtain ⟨k, y⟩ := x
    simp only [set, get]
    by_cases hk : k = a
    · simp only [hk, if_true, total]; omega
    · simp only [hk, if_false, total, ih]; omega

theorem total_addBal (w : World) (a : Addr) (d : Int) : total (addBal w a d) = total w + d := by
  simp only [addBal, total_set]; omega

theorem total_setNonce (w : World) (a : Addr) (n : Nat) : total (setNonce w a n) = total w := by
  simp only [setNonce, total_set]; omega

theorem total_transfer (w : World) (s r : Addr) (v : Int) : total (transfer w s r v) = total w := by
  simp only [transfer, total_addBal]; omega

theorem nonce_addBal (w : World) (a b : Addr) (d : Int) :
    (get (addBal w a d) b).nonce = (get w b).nonce := by
  simp only [addBal, get_set]
  split
  · next h => subst h; rfl
  · rfl

theorem bal_addBal (w : World) (a b : Addr) (d : Int) :
    (get (addBal w a d) b).bal = (get w b).bal + (if a = b then d else 0) := by
  simp only [addBal, get_set]
  split
  · next h => subst h; simp
  · simp

theorem code_addBal (w : World) (a b : Addr) (d : Int) :
    (get (addBal w a d) b).code = (get w b).code := by
  simp only [addBal, get_set]
  split
  · next h => subst h; rfl
  · rfl

theorem nonce_setNonce (w : World) (a b : Addr) (n : Nat) :
    (get (setNonce w a n) b).nonce = if a = b then n else (get w b).nonce := by
  simp only [setNonce, get_set]
  split <;> rfl

theorem bal_setNonce (w : World) (a b : Addr) (n : Nat) :
    (get (setNonce w a n) b).bal = (get w b).bal := by
  simp only [setNonce, get_set]
  split
  · next h => subst h; rfl
  · rfl

theorem nonce_transfer (w : World) (s r b : Addr) (v : Int) :
    (get (transfer w s r v) b).nonce = (get w b).nonce := by
  simp only [transfer, nonce_addBal]

/-! ### `big.Int` comparisons -/

theorem cmp_ge_zero_iff (a b : Int) : Big.cmp a b ≥ 0 ↔ b ≤ a := by
  unfold Big.cmp; repeat (first | omega | split)

theorem cmp_lt_zero_iff (a b : Int) : Big.cmp a b < 0 ↔ a < b := by
  unfold Big.cmp; repeat (first | omega | split)

theorem sign_pos_iff (a : Int) : Big.sign a > 0 ↔ a > 0 := by
  unfold Big.sign Big.cmp; repeat (first | omega | split)

theorem sign_ne_zero_iff (a : Int) : Big.sign a ≠ 0 ↔ a ≠ 0 := by
  unfold Big.sign Big.cmp; repeat (first | omega | split)

theorem canTransfer_iff (w : World) (a : Addr) (v : Int) : canTransfer w a v = true ↔ v ≤ (get w a).bal := by
  simp only [canTransfer, decide_eq_true_eq, cmp_ge_zero_iff]

theorem insufficient_false_iff (b m : Int) : buyGasInsufficientFunds b m = false ↔ m ≤ b := by
  simp only [buyGasInsufficientFunds, decide_eq_false_iff_not, cmp_lt_zero_iff]; omega

/-! ### hypotheses on the interpreter (HV) -/

/-- What C09 assumes of the interpreter (`run` = everything between the value transfer and the
error check of `Call`/`create`); that the KVM satisfies it is property C10's business.
`origin` is the sender of the transaction: an externally owned account, it has no code that could
execute `CREATE`, so no frame changes its nonce. -/
structure HV (run : Run) (origin : Addr) : Prop where
  /-- a frame never returns more gas than it was given -/
  gas_le : ∀ w f, (run w f).gasLeft ≤ f.gas
  /-- value only moves: total balance after = total before − burned -/
  conserve : ∀ w f, (run w f).err = .none → total (run w f).world + (run w f).burned = total w
  burned_nonneg : ∀ w f, 0 ≤ (run w f).burned
  nonce_origin : ∀ w f, (run w f).err = .none → (get (run w f).world origin).nonce = (get w origin).nonce

/-! ### the wrappers -/

theorem callFrame_gas {run : Run} {o : Addr} (hv : HV run o) (w : World) (f : Frame) :
    (callFrame run w f).gasLeft ≤ f.gas := by
  unfold callFrame
  have := hv.gas_le (transfer w f.caller f.addr f.value) f
  split
  · exact Nat.le_refl _
  · simp only []
    split
    · simp only []; split <;> omega
    · exact this

theorem createFrame_gas {run : Run} {o : Addr} (hv : HV run o) (w : World) (f : Frame) :
    (createFrame run w f).gasLeft ≤ f.gas := by
  unfold createFrame
  split
  · exact Nat.le_refl _
  · simp only []
    split
    · exact Nat.zero_le _
    · have := hv.gas_le (transfer (setNonce (setNonce w f.caller ((get w f.caller).nonce + 1)) f.addr 1) f.caller f.addr f.value) f
      split
      · simp only []; split <;> omega
      · exact this

/-- `Call`: total balance after + burned = total before, whatever the frame does; a failing frame
leaves the world exactly as it was (the snapshot revert) -/
theorem callFrame_total {run : Run} {o : Addr} (hv : HV run o) (w : World) (f : Frame) :
    total (callFrame run w f).world + (callFrame run w f).burned = total w := by
  unfold callFrame
  split
  · simp
  · simp only []
    split
    · simp
    · next h =>
      have := hv.conserve (transfer w f.caller f.addr f.value) f (by simpa using h)
      rw [total_transfer] at this; exact this

theorem callFrame_failure_restores (run : Run) (w : World) (f : Frame)
    (h : (callFrame run w f).err ≠ .none) : (callFrame run w f).world = w := by
  unfold callFrame at h ⊢
  split
  · rfl
  · next h0 =>
    rw [if_neg h0] at h
    simp only [] at h ⊢
    split
    · rfl
    · next hn => rw [if_neg hn] at h; exact absurd h hn

theorem createFrame_total {run : Run} {o : Addr} (hv : HV run o) (w : World) (f : Frame) :
    total (createFrame run w f).world + (createFrame run w f).burned = total w := by
  unfold createFrame
  split
  · simp
  · simp only []
    split
    · simp [total_setNonce]
    · split
      · simp [total_setNonce]
      · next h =>
        have := hv.conserve (transfer (setNonce (setNonce w f.caller ((get w f.caller).nonce + 1)) f.addr 1) f.caller f.addr f.value) f (by simpa using h)
        rw [total_transfer, total_setNonce, total_setNonce] at this; exact this

theorem callFrame_burned_nonneg {run : Run} {o : Addr} (hv : HV run o) (w : World) (f : Frame) :
    0 ≤ (callFrame run w f).burned := by
  unfold callFrame
  split
  · simp
  · simp only []
    split
    · simp
    · exact hv.burned_nonneg _ _

theorem createFrame_burned_nonneg {run : Run} {o : Addr} (hv : HV run o) (w : World) (f : Frame) :
    0 ≤ (createFrame run w f).burned := by
  unfold createFrame
  split
  · simp
  · simp only []
    split
    · simp
    · split
      · simp
      · exact hv.burned_nonneg _ _

/-- `Call` never changes the nonce of the origin -/
theorem callFrame_nonce {run : Run} {o : Addr} (hv : HV run o) (w : World) (f : Frame) :
    (get (callFrame run w f).world o).nonce = (get w o).nonce := by
  unfold callFrame
  split
  · rfl
  · simp only []
    split
    · rfl
    · next h =>
      rw [hv.nonce_origin _ _ (by simpa using h), nonce_transfer]

/-- `create` called by the origin with enough funds bumps the origin's nonce exactly once, whether
the frame succeeds, fails, or the address is taken -/
theorem createFrame_nonce {run : Run} {o : Addr} (hv : HV run o) (w : World) (f : Frame)
    (hc : f.caller = o) (hne : f.addr ≠ o) (hcan : canTransfer w f.caller f.value = true) :
    (get (createFrame run w f).world o).nonce = (get w o).nonce + 1 := by
  unfold createFrame
  rw [if_neg (by simp [hcan])]
  simp only []
  have h0 : (get (setNonce w f.caller ((get w f.caller).nonce + 1)) o).nonce = (get w o).nonce + 1 := by
    rw [nonce_setNonce, if_pos hc, hc]
  split
  · exact h0
  · split
    · exact h0
    · next h =>
      rw [hv.nonce_origin _ _ (by simpa using h), nonce_transfer, nonce_setNonce, if_neg hne, h0]

/-! ### inversion of a successful transition -/

/-- everything a successful `TransitionDb` passed through -/
theorem transition_ok_inv {run : Run} {legacy : Bool} {cb : Addr} {w : World} {pool : Nat} {tx : Tx} {o : TOut}
    (h : transition run legacy cb w pool tx = .ok o) :
    (get w tx.sender).nonce = tx.nonce ∧
    buyGasInsufficientFunds (get w tx.sender).bal (buyGasCost tx.gas tx.price) = false ∧
    gasPoolSubFails pool tx.gas = false ∧
    (intrinsicGas tx.data tx.to.isNone legacy).2 = false ∧
    ¬ (U64.add 0 tx.gas < (intrinsicGas tx.data tx.to.isNone legacy).1) ∧
    ¬ (Big.sign tx.value > 0 ∧ ¬ canTransfer (worldBought w tx) tx.sender tx.value) ∧
    gasPoolAddPanics (gasPoolSub pool tx.gas) (refundGas tx.gas (frameOut run legacy w tx).gasLeft (frameOut run legacy w tx).refund).2 = false ∧
    o = { world := addBal (addBal (frameOut run legacy w tx).world tx.sender
                    ((Int.ofNat (refundGas tx.gas (frameOut run legacy w tx).gasLeft (frameOut run legacy w tx).refund).2) * tx.price))
                    cb ((Int.ofNat (gasUsed tx.gas (refundGas tx.gas (frameOut run legacy w tx).gasLeft (frameOut run legacy w tx).refund).2)) * tx.price),
          pool := gasPoolAdd (gasPoolSub pool tx.gas) (refundGas tx.gas (frameOut run legacy w tx).gasLeft (frameOut run legacy w tx).refund).2,
          used := gasUsed tx.gas (refundGas tx.gas (frameOut run legacy w tx).gasLeft (frameOut run legacy w tx).refund).2,
          refund := (refundGas tx.gas (frameOut run legacy w tx).gasLeft (frameOut run legacy w tx).refund).1,
          failed := decide ((frameOut run legacy w tx).err ≠ .none),
          burned := (frameOut run legacy w tx).burned } := by
  unfold transition at h
  split at h
  · cases h
  split at h
  · cases h
  split at h
  · cases h
  split at h
  · cases h
  split at h
  · cases h
  split at h
  · cases h
  split at h
  · cases h
  simp only [] at h
  split at h
  · cases h
  next h1 h2 h3 h4 h5 h6 h7 h8 =>
  refine ⟨by omega, by simpa using h3, by simpa using h4, by simpa using h5, by simpa using h6, h7, by simpa using h8, ?_⟩
  injection h with h
  exact h.symm

/-! ### the top-level frame -/

theorem total_worldBought (w : World) (tx : Tx) :
    total (worldBought w tx) = total w - (Int.ofNat tx.gas) * tx.price := by
  simp only [worldBought, total_addBal, buyGasCost]; omega

theorem frameOut_gas {run : Run} {o : Addr} (hv : HV run o) (legacy : Bool) (w : World) (tx : Tx) :
    (frameOut run legacy w tx).gasLeft ≤ vmGas legacy tx := by
  unfold frameOut
  split
  · exact createFrame_gas hv _ _
  · exact callFrame_gas hv _ _

theorem frameOut_total {run : Run} {o : Addr} (hv : HV run o) (legacy : Bool) (w : World) (tx : Tx) :
    total (frameOut run legacy w tx).world + (frameOut run legacy w tx).burned
      = total w - (Int.ofNat tx.gas) * tx.price := by
  unfold frameOut
  split
  · rw [createFrame_total hv, total_worldBought]
  · rw [callFrame_total hv, total_setNonce, total_worldBought]

theorem frameOut_burned_nonneg {run : Run} {o : Addr} (hv : HV run o) (legacy : Bool) (w : World) (tx : Tx) :
    0 ≤ (frameOut run legacy w tx).burned := by
  unfold frameOut
  split
  · exact createFrame_burned_nonneg hv _ _
  · exact callFrame_burned_nonneg hv _ _

theorem nonce_worldBought (w : World) (tx : Tx) (a : Addr) :
    (get (worldBought w tx) a).nonce = (get w a).nonce := by
  simp only [worldBought, nonce_addBal]

/-- the sender's nonce after the top-level frame is its nonce before + 1: on the call path by
`TransitionDb` itself, on the create path by `create` (which needs the balance check to pass: it
does, because `buyGas` left a non-negative balance and clause 6 checked the value) -/
theorem frameOut_nonce {run : Run} (legacy : Bool) (w : World) (tx : Tx) (hv : HV run tx.sender)
    (hnew : tx.newAddr ≠ tx.sender)
    (hfunds : buyGasInsufficientFunds (get w tx.sender).bal (buyGasCost tx.gas tx.price) = false)
    (h6 : ¬ (Big.sign tx.value > 0 ∧ ¬ canTransfer (worldBought w tx) tx.sender tx.value)) :
    (get (frameOut run legacy w tx).world tx.sender).nonce = (get w tx.sender).nonce + 1 := by
  unfold frameOut
  split
  · rw [createFrame_nonce hv _ _ rfl hnew, nonce_worldBought]
    simp only []
    rw [canTransfer_iff]
    have hb : 0 ≤ (get (worldBought w tx) tx.sender).bal := by
      simp only [worldBought, bal_addBal, if_true]
      rw [insufficient_false_iff] at hfunds
      omega
    rw [sign_pos_iff, canTransfer_iff] at h6
    omega
  · rw [callFrame_nonce hv, nonce_setNonce, if_pos rfl, nonce_worldBought]

/-! ### uint64 gas arithmetic: no wrap under the guards of the code -/

theorem u64_add_zero (g : Nat) (h : g < U64.modulus) : U64.add 0 g = g := by
  unfold U64.add U64.modulus at *; omega

theorem vmGas_eq (legacy : Bool) (tx : Tx) (hg : tx.gas < U64.modulus)
    (hi : ¬ (U64.add 0 tx.gas < (intrinsicGas tx.data tx.to.isNone legacy).1)) :
    vmGas legacy tx = tx.gas - (intrinsicGas tx.data tx.to.isNone legacy).1 ∧
    (intrinsicGas tx.data tx.to.isNone legacy).1 ≤ tx.gas := by
  rw [u64_add_zero _ hg] at hi
  unfold vmGas
  rw [u64_add_zero _ hg]
  unfold U64.sub U64.wrap
  unfold U64.modulus at hg
  omega

/-- `refundGas` and `gasUsed` without wrap: with `left ≤ initial < 2^64`,
`refund = min ((initial − left)/2) counter`, `gas' = left + refund ≤ initial`, `used = initial − gas'` -/
theorem refundGas_exact (initial left counter : Nat) (hi : initial < U64.modulus) (hl : left ≤ initial) :
    (refundGas initial left counter).1 = min ((initial - left) / 2) counter ∧
    (refundGas initial left counter).2 = left + (refundGas initial left counter).1 ∧
    (refundGas initial left counter).2 ≤ initial ∧
    gasUsed initial (refundGas initial left counter).2 = initial - (refundGas initial left counter).2 := by
  unfold refundGas gasUsed U64.div U64.add U64.sub U64.wrap
  unfold U64.modulus at *
  simp only []
  split <;> omega

end KV.Transition
