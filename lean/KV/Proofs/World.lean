import KV.Model.World
/-! Lemmas about the journalled world model (property C08). -/
namespace KV.World

@[simp] theorem upd_same {α : Type} (f : Nat → α) (k : Nat) (v : α) : upd f k v k = v := by
  simp [upd]

theorem upd_other {α : Type} (f : Nat → α) (k x : Nat) (v : α) (h : x ≠ k) : upd f k v x = f x := by
  simp [upd, h]

@[simp] theorem upd_upd {α : Type} (f : Nat → α) (k : Nat) (v w : α) : upd (upd f k v) k w = upd f k w := by
  funext x; simp only [upd]; split <;> rfl

@[simp] theorem upd_self {α : Type} (f : Nat → α) (k : Nat) : upd f k (f k) = f := by
  funext x; simp only [upd]; split
  · next h => rw [h]
  · rfl

theorem upd_eq_of {α : Type} (f : Nat → α) (k : Nat) (v : α) (h : f k = v) : upd f k v = f := by
  rw [← h]; exact upd_self f k

@[simp] theorem rewind_nil (c : Core) : rewind [] c = c := rfl
@[simp] theorem rewind_append (a b : List Entry) (c : Core) : rewind (a ++ b) c = rewind a (rewind b c) := by
  simp [rewind, List.foldr_append]
@[simp] theorem rewind_cons (e : Entry) (es : List Entry) (c : Core) : rewind (e :: es) c = undo e (rewind es c) := rfl

/-- `createObject` is undone exactly -/
theorem createObject_undo (c : Core) (a : Addr) :
    rewind (createObject c a).2.1 (createObject c a).1 = c := by
  unfold createObject
  cases h : c.objs a with
  | none => simp [rewind, undo, setObj, upd_eq_of _ _ _ h]
  | some p =>
    cases hd : c.destruct a <;> simp [rewind, undo, setObj, upd_eq_of _ _ _ h, upd_eq_of _ _ _ hd]


theorem getOrNew_spec (c : Core) (a : Addr) :
    rewind (getOrNew c a).2.1 (getOrNew c a).1 = c ∧
    (getOrNew c a).1.objs a = some (getOrNew c a).2.2 ∧ (getOrNew c a).2.2.deleted = false := by
  unfold getOrNew
  cases h : getObj c a with
  | some o =>
    simp only [getObj] at h
    cases h2 : c.objs a with
    | none => simp [h2] at h
    | some o' =>
      simp only [h2] at h
      split at h
      · simp at h
      · next hd => simp at h; subst h; simp [hd]
  | none =>
    refine ⟨createObject_undo c a, ?_, ?_⟩
    · unfold createObject
      cases h2 : c.objs a <;> simp [setObj]
    · unfold createObject
      cases h2 : c.objs a <;> simp [Obj.new]

theorem modObj_setObj (c1 : Core) (a : Addr) (o o' : Obj) (f : Obj → Obj)
    (h1 : c1.objs a = some o) (hd : o'.deleted = false) (hf : f o' = o) :
    modObj (setObj c1 a o') a f = c1 := by
  simp [modObj, getObj, setObj, hd, hf, upd_eq_of _ _ _ h1]


/-- setter pattern: `getOrNew`, then replace the object and append one entry whose undo restores it -/
theorem setter_undo (c : Core) (a : Addr) (g : Obj → Obj) (e : Entry) (f : Obj → Obj)
    (hund : ∀ c', undo e c' = modObj c' a f)
    (hd : ∀ o, (g o).deleted = o.deleted) (hf : f (g (getOrNew c a).2.2) = (getOrNew c a).2.2) :
    rewind ((getOrNew c a).2.1 ++ [e]) (setObj (getOrNew c a).1 a (g (getOrNew c a).2.2)) = c := by
  obtain ⟨h1, h2, h3⟩ := getOrNew_spec c a
  rw [rewind_append]
  simp only [rewind_cons, rewind_nil, hund]
  rw [modObj_setObj _ a _ _ f h2 (by rw [hd, h3]) hf]
  exact h1

/-- **undo_entry**: the entries appended by an operation, undone last-first, restore the core exactly. -/
theorem jop_undo (o : JOp) (c : Core) : rewind (jop o c).2.1 (jop o c).1 = c := by
  cases o with
  | addBalance a v =>
    simp only [jop]
    split
    · split
      · simp [(getOrNew_spec c a).1, undo]
      · exact (getOrNew_spec c a).1
    · exact setter_undo c a (fun o => { o with balance := o.balance + v }) _ _
        (fun _ => rfl) (fun _ => rfl) rfl
  | subBalance a v =>
    simp only [jop]
    split
    · exact (getOrNew_spec c a).1
    · exact setter_undo c a (fun o => { o with balance := o.balance - v }) _ _
        (fun _ => rfl) (fun _ => rfl) rfl
  | setBalance a v =>
    exact setter_undo c a (fun o => { o with balance := v }) _ _ (fun _ => rfl) (fun _ => rfl) rfl
  | setNonce a n =>
    exact setter_undo c a (fun o => { o with nonce := n }) _ _ (fun _ => rfl) (fun _ => rfl) rfl
  | setCode a code =>
    exact setter_undo c a (fun o => { o with code := code }) _ _ (fun _ => rfl) (fun _ => rfl) rfl
  | setState a k v =>
    simp only [jop]
    split
    · exact (getOrNew_spec c a).1
    · exact setter_undo c a (fun o => { o with cur := upd o.cur k v }) _ _ (fun _ => rfl) (fun _ => rfl)
        (by simp)
  | setTransient a k v =>
    simp only [jop]
    split
    · rfl
    · simp [undo]
  | createAccount a =>
    simp only [jop, createObject]
    cases h : c.objs a with
    | none => simp [undo, setObj, upd_eq_of _ _ _ h]
    | some p =>
      cases hd : c.destruct a <;> cases hp : p.deleted <;>
        simp [hp, undo, setObj, upd_eq_of _ _ _ h, upd_eq_of _ _ _ hd]
  | suicide a =>
    simp only [jop]
    cases h : getObj c a with
    | none => rfl
    | some o =>
      have h' := h
      simp only [getObj] at h'
      cases h2 : c.objs a with
      | none => simp [h2] at h'
      | some o' =>
        simp only [h2] at h'
        split at h'
        · simp at h'
        · next hdel =>
          simp at h'; subst h'
          simp only [rewind_cons, rewind_nil, undo]
          exact modObj_setObj c a _ _ _ h2 (by simpa using hdel) rfl
  | addRefund g => simp [jop, undo]
  | subRefund g =>
    simp only [jop]
    split <;> simp [undo]
  | addLog a tag => simp [jop, undo]
  | addPreimage h b =>
    simp only [jop]
    split
    · rfl
    · next hn => simp [undo, upd_eq_of _ _ _ hn]
  | alAddAddr a =>
    simp only [jop]
    split
    · rfl
    · next hn => simp [undo, upd_eq_of _ _ _ hn]
  | alAddSlot a k =>
    simp only [jop]
    split
    · next hn => simp [undo, upd_eq_of _ _ _ hn]
    · next f hs =>
      split
      · rfl
      · next hk =>
        have hk' : f k = false := by simpa using hk
        simp [undo, upd_eq_of _ _ _ hk', upd_eq_of _ _ _ hs]

end KV.World
