import KV.Model.Evm
/-! Finite facts about the jump tables (`decide` over the 256 opcodes of both instruction sets). -/
namespace KV.Evm

/-- side conditions on the parameters of a kind (the table only contains such kinds) -/
def OpKind.wf : OpKind → Bool
  | .dup n => decide (1 ≤ n ∧ n ≤ 16)
  | .swap n => decide (1 ≤ n ∧ n ≤ 16)
  | .push n => decide (1 ≤ n ∧ n ≤ 32)
  | .log n => decide (n ≤ 4)
  | _ => true

/-- kinds whose `exec` always stops the frame -/
def OpKind.stops : OpKind → Bool
  | .stop | .ret | .revert | .unsupported => true
  | _ => false

/-- immediate bytes that follow the opcode -/
def OpKind.immLen : OpKind → Nat
  | .push n => n
  | _ => 0

/-- kinds that set the program counter themselves -/
def OpKind.isJump : OpKind → Bool
  | .jump | .jumpi => true
  | _ => false

/-- kinds with constant gas 0 whose dynamic gas is at least 1 -/
def OpKind.dynPaid : OpKind → Bool
  | .sstore | .log _ | .exp => true
  | _ => false

/-- everything `table_consistent` says about one entry `i` of opcode `n` -/
def entryOK (n : Nat) (i : OpInfo) : Bool :=
  -- the stack limits are the ones `minStack/maxStack` of stack.go compute from the arities
  i.minStack == i.pops && i.maxStack == 1024 + i.pops - i.pushes && i.pushes ≤ i.pops + 1
  -- the arities of the table are the ones the model's semantics uses
  && (i.kind.isUnsupported || (i.kind.pops == i.pops && i.kind.pushes == i.pushes))
  && i.kind.wf
  -- every state-modifying kind of the model is flagged `writes`
  && (!i.kind.modifies || i.writes)
  -- the flags are set on the intended opcodes only
  && i.writes == [0x55, 0xa0, 0xa1, 0xa2, 0xa3, 0xa4, 0xf0, 0xf5, 0xff].contains n
  && i.halts == [0x00, 0xf3, 0xff].contains n
  && i.jumps == [0x56, 0x57].contains n
  && i.reverts == (n == 0xfd)
  && i.returns == [0xf0, 0xf1, 0xf2, 0xf4, 0xf5, 0xfa, 0xfd].contains n
  -- halting / reverting kinds are the ones flagged so
  && (i.kind.isUnsupported || (i.kind.stops == (i.halts || i.reverts)))
  -- every operation that continues costs at least one unit of gas
  && (decide (1 ≤ i.gas) || i.kind.stops || (i.kind.dynPaid && i.dyn))
  -- a memory size function comes with a dynamic gas function
  && (!i.memsz || i.dyn)
  -- PUSHn carries exactly the immediate length the jump destination analysis skips
  && (pushLen (UInt8.ofNat n) == i.kind.immLen)
  -- the `jumps` flag sits on the kinds that set the program counter themselves
  && (i.kind.isUnsupported || (i.jumps == i.kind.isJump))
  -- nested calls have a dynamic gas function (it fixes `callGasTemp`)
  && (!i.kind.isCall || i.dyn)

def tableOK (post : Bool) : Bool :=
  (List.range 256).all fun n => match opInfoN post n with
    | none => true
    | some i => entryOK n i

set_option maxRecDepth 100000 in
theorem tableOK_pre : tableOK false = true := by decide
set_option maxRecDepth 100000 in
theorem tableOK_post : tableOK true = true := by decide

theorem entryOK_of_opInfo {post : Bool} {op : UInt8} {i : OpInfo} (h : opInfo post op = some i) :
    entryOK op.toNat i = true := by
  have ht : tableOK post = true := by cases post; exact tableOK_pre; exact tableOK_post
  unfold tableOK at ht
  rw [List.all_eq_true] at ht
  have := ht op.toNat (by simp [List.mem_range]; exact op.toNat_lt)
  unfold opInfo at h
  rw [h] at this
  exact this

/-- the two instruction sets differ exactly by CHAINID (0x46) -/
def setsDiffer : Bool :=
  (List.range 256).all fun n =>
    if n == 0x46 then (opInfoN false n).isNone && (opInfoN true n).isSome
    else (opInfoN false n).isSome == (opInfoN true n).isSome

set_option maxRecDepth 100000 in
theorem setsDiffer_ok : setsDiffer = true := by decide

end KV.Evm
