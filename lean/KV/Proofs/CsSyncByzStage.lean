import KV.Proofs.CsSyncByzStep
/-! Stages of one node in a synchronous round with Byzantine inputs (C04, `KV/Props/C04Net.lean`).
`F` = faulty validators (less than 1/3 of the power).  The stages `R0` (round entered), `R1`
(proposal received), `B1` (prevoted `b`, no polka yet; step Prevote or PrevoteWait), `B2`
(precommitted `b`, locked; no commit quorum yet) constrain only the slots of the CORRECT validators
in the vote sets of round `r` (empty, or a vote for `b`) and of the later rounds (empty); the slots
of the faulty validators hold anything.  `Junk` = the adversarial inputs; every stage is closed
under them.  Core Lean only. -/
namespace KV.Cs.Sync

/-- adversarial inputs during the round (h, r) with proposer `p` and block `b`: any vote claiming a
faulty validator for a round `≥ r` of this height (any type, target, peer, signature bit; votes of
other heights too); any proposal that does not carry a verifying signature of the proposer; any
block part set other than the one of `b`.  No timeouts (the round is synchronous). -/
def Junk (F : Nat → Bool) (p h r b : Nat) : Input → Prop
  | .vote _ idx _ h' vr _ _ => F idx = true ∧ (h' = h → r ≤ vr)
  | .proposal src sigok _ _ _ _ => src ≠ p ∨ sigok = false
  | .block _ id _ _ => id ≠ b
  | .timeout .. => False

section
variable (cfg : Config) (F : Nat → Bool) (h r pol b : Nat)

/-- filled slots of round `r` stay as they are -/
def Grow (σ σ' : State) : Prop :=
  ∀ (t : VType) (k : Nat) (x : Target),
    (slotsV σ.votes t h r)[k]? = some (some x) → (slotsV σ'.votes t h r)[k]? = some (some x)

theorem Grow.refl (σ : State) : Grow h r σ σ := fun _ _ _ h => h
theorem Grow.trans {a b' c : State} (h1 : Grow h r a b') (h2 : Grow h r b' c) : Grow h r a c :=
  fun t k x hs => h2 t k x (h1 t k x hs)

structure BBase (σ : State) : Prop where
  nh : σ.halted = false
  hh : σ.height = h
  hr : σ.round = r
  pol : PolOk cfg h r pol σ.votes
  exr : (findRV σ.votes h r).isSome = true
  pvLen : (slotsV σ.votes .prevote h r).length = n cfg
  pcLen : (slotsV σ.votes .precommit h r).length = n cfg
  fut : ∀ r' t, r < r' → CorrEmpty F (slotsV σ.votes t h r')

/-- `σ'` is `σ` with vote sets of OTHER rounds changed harmlessly -/
structure VExt (σ σ' : State) : Prop where
  halted : σ'.halted = σ.halted
  height : σ'.height = σ.height
  round : σ'.round = σ.round
  step : σ'.step = σ.step
  proposal : σ'.proposal = σ.proposal
  pblock : σ'.pblock = σ.pblock
  parts : σ'.parts = σ.parts
  locked : σ'.locked = σ.locked
  log : σ'.log = σ.log
  pv : slotsV σ'.votes .prevote h r = slotsV σ.votes .prevote h r
  pc : slotsV σ'.votes .precommit h r = slotsV σ.votes .precommit h r
  old : ∀ r', r' < r → slotsV σ'.votes .prevote h r' = slotsV σ.votes .prevote h r'
  exr : (findRV σ.votes h r).isSome = true → (findRV σ'.votes h r).isSome = true
  fut : (∀ r' t, r < r' → CorrEmpty F (slotsV σ.votes t h r')) → ∀ r' t, r < r' → CorrEmpty F (slotsV σ'.votes t h r')

theorem VExt.unadded (σ : State) : VExt F h r σ { σ with added := false } :=
  ⟨rfl, rfl, rfl, rfl, rfl, rfl, rfl, rfl, rfl, rfl, rfl, fun _ _ => rfl, fun h => h, fun h => h⟩

theorem VExt.grow {σ σ' : State} (v : VExt F h r σ σ') : Grow h r σ σ' := by
  intro t k x hs
  cases t
  · rw [v.pv]; exact hs
  · rw [v.pc]; exact hs

theorem BBase.vext {σ σ' : State} (B : BBase cfg F h r pol σ) (v : VExt F h r σ σ') : BBase cfg F h r pol σ' := by
  refine ⟨by rw [v.halted]; exact B.nh, by rw [v.height]; exact B.hh, by rw [v.round]; exact B.hr, ?_,
    v.exr B.exr, by rw [v.pv]; exact B.pvLen, by rw [v.pc]; exact B.pcLen, v.fut B.fut⟩
  rcases B.pol with h0 | ⟨h1, h2⟩
  · exact Or.inl h0
  · exact Or.inr ⟨h1, by rw [v.old pol h1]; exact h2⟩

/-! ### the stages -/

/-- step Propose of the round: proposal `pr`, part set `pa`, no block yet, no vote of a correct
validator for this round -/
structure RX (pr : Option Proposal) (pa : Option (Nat × Bool)) (σ : State) : Prop where
  base : BBase cfg F h r pol σ
  st : σ.step = .propose
  prop : σ.proposal = pr
  pb : σ.pblock = none
  parts : σ.parts = pa
  lk : σ.locked = none ∨ σ.locked = some ⟨b, true⟩
  pvE : CorrEmpty F (slotsV σ.votes .prevote h r)
  pcE : CorrEmpty F (slotsV σ.votes .precommit h r)

/-- round entered, nothing accepted yet -/
abbrev R0 (σ : State) : Prop := RX cfg F h r pol b none none σ
/-- proposal accepted -/
abbrev R1 (σ : State) : Prop := RX cfg F h r pol b (some ⟨r, pol, b⟩) (some (b, false)) σ

structure B1 (σ : State) : Prop where
  base : BBase cfg F h r pol σ
  st : σ.step = .prevote ∨ σ.step = .prevoteWait
  prop : σ.proposal = some ⟨r, pol, b⟩
  pb : σ.pblock = some ⟨b, true⟩
  parts : σ.parts = some (b, true)
  lk : σ.locked = none ∨ σ.locked = some ⟨b, true⟩
  pvO : CorrOnly F b (slotsV σ.votes .prevote h r)
  pvNo : isMaj cfg.powers (slotsV σ.votes .prevote h r) (some b) = false
  pcE : CorrEmpty F (slotsV σ.votes .precommit h r)
  sgv : Action.signVote .prevote h r (some b) ∈ σ.log

structure B2 (σ : State) : Prop where
  base : BBase cfg F h r pol σ
  st : σ.step = .precommit
  prop : σ.proposal = some ⟨r, pol, b⟩
  pb : σ.pblock = some ⟨b, true⟩
  parts : σ.parts = some (b, true)
  lk : σ.locked = some ⟨b, true⟩
  pvO : CorrOnly F b (slotsV σ.votes .prevote h r)
  pcO : CorrOnly F b (slotsV σ.votes .precommit h r)
  pcNo : isMaj cfg.powers (slotsV σ.votes .precommit h r) (some b) = false
  sg : Action.signVote .precommit h r (some b) ∈ σ.log

theorem RX.vext {pr : Option Proposal} {pa : Option (Nat × Bool)} {σ σ' : State} (S : RX cfg F h r pol b pr pa σ)
    (v : VExt F h r σ σ') : RX cfg F h r pol b pr pa σ' :=
  ⟨S.base.vext cfg F h r pol v, by rw [v.step]; exact S.st, by rw [v.proposal]; exact S.prop,
    by rw [v.pblock]; exact S.pb, by rw [v.parts]; exact S.parts, by rw [v.locked]; exact S.lk,
    by rw [v.pv]; exact S.pvE, by rw [v.pc]; exact S.pcE⟩

theorem B1.vext {σ σ' : State} (S : B1 cfg F h r pol b σ) (v : VExt F h r σ σ') : B1 cfg F h r pol b σ' :=
  ⟨S.base.vext cfg F h r pol v, by rw [v.step]; exact S.st, by rw [v.proposal]; exact S.prop,
    by rw [v.pblock]; exact S.pb, by rw [v.parts]; exact S.parts, by rw [v.locked]; exact S.lk,
    by rw [v.pv]; exact S.pvO, by rw [v.pv]; exact S.pvNo, by rw [v.pc]; exact S.pcE, by rw [v.log]; exact S.sgv⟩

theorem B2.vext {σ σ' : State} (S : B2 cfg F h r pol b σ) (v : VExt F h r σ σ') : B2 cfg F h r pol b σ' :=
  ⟨S.base.vext cfg F h r pol v, by rw [v.step]; exact S.st, by rw [v.proposal]; exact S.prop,
    by rw [v.pblock]; exact S.pb, by rw [v.parts]; exact S.parts, by rw [v.locked]; exact S.lk,
    by rw [v.pv]; exact S.pvO, by rw [v.pc]; exact S.pcO, by rw [v.pc]; exact S.pcNo, by rw [v.log]; exact S.sg⟩

end
end KV.Cs.Sync
