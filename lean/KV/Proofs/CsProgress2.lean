import KV.Proofs.CsProgress
/-! What the vote / block / timeout handlers of `Cs` guarantee about progress (C04):
a quorum that arrives moves the node on, a fired timeout moves the node on. -/
namespace KV.Cs
set_option linter.unusedSimpArgs false

theorem toNat_newHeight : Step.newHeight.toNat = 1 := rfl
theorem toNat_newRound : Step.newRound.toNat = 2 := rfl
theorem toNat_propose : Step.propose.toNat = 3 := rfl
theorem toNat_prevote : Step.prevote.toNat = 4 := rfl
theorem toNat_prevoteWait : Step.prevoteWait.toNat = 5 := rfl
theorem toNat_precommit : Step.precommit.toNat = 6 := rfl
theorem toNat_precommitWait : Step.precommitWait.toNat = 7 := rfl
theorem toNat_commit : Step.commit.toNat = 8 := rfl

/-! ### exact results of the `enterX` functions -/

@[simp] theorem enterPrevote_height (cfg : Config) (h r : Nat) (σ : State) :
    (enterPrevote cfg h r σ).height = σ.height := by
  unfold enterPrevote; split <;> simp
@[simp] theorem enterPrevote_votes (cfg : Config) (h r : Nat) (σ : State) :
    (enterPrevote cfg h r σ).votes = σ.votes := by
  unfold enterPrevote; split <;> simp
@[simp] theorem enterPrevote_ttp (cfg : Config) (h r : Nat) (σ : State) :
    (enterPrevote cfg h r σ).ttp = σ.ttp := by
  unfold enterPrevote; split <;> simp
@[simp] theorem enterPrecommit_height (cfg : Config) (h r : Nat) (σ : State) :
    (enterPrecommit cfg h r σ).height = σ.height := by
  unfold enterPrecommit; (repeat' split) <;> simp
@[simp] theorem enterPrecommit_votes (cfg : Config) (h r : Nat) (σ : State) :
    (enterPrecommit cfg h r σ).votes = σ.votes := by
  unfold enterPrecommit; (repeat' split) <;> simp
@[simp] theorem enterPrecommit_ttp (cfg : Config) (h r : Nat) (σ : State) :
    (enterPrecommit cfg h r σ).ttp = σ.ttp := by
  unfold enterPrecommit; (repeat' split) <;> simp
@[simp] theorem enterPrevoteWait_height (h r : Nat) (σ : State) : (enterPrevoteWait h r σ).height = σ.height := by
  unfold enterPrevoteWait; split <;> rfl
@[simp] theorem enterPrevoteWait_votes (h r : Nat) (σ : State) : (enterPrevoteWait h r σ).votes = σ.votes := by
  unfold enterPrevoteWait; split <;> rfl

/-- `enterPrevote` for the current height and round: afterwards the step is Prevote or later -/
theorem enterPrevote_step (cfg : Config) (σ : State) :
    (enterPrevote cfg σ.height σ.round σ).round = σ.round ∧
    4 ≤ (enterPrevote cfg σ.height σ.round σ).step.toNat ∧
    (σ.step.toNat < 4 → (enterPrevote cfg σ.height σ.round σ).step = .prevote) := by
  unfold enterPrevote
  split
  · rename_i hg
    refine ⟨rfl, ?_, fun hlt => ?_⟩ <;> simp only [toNat_prevote, toNat_precommit, toNat_prevoteWait] at hg <;> omega
  · exact ⟨rfl, by simp [toNat_prevote, toNat_precommit], fun _ => rfl⟩

theorem enterPrecommit_step (cfg : Config) (σ : State) :
    (enterPrecommit cfg σ.height σ.round σ).round = σ.round ∧
    6 ≤ (enterPrecommit cfg σ.height σ.round σ).step.toNat ∧
    (σ.step.toNat < 6 → (enterPrecommit cfg σ.height σ.round σ).step = .precommit) ∧
    (6 ≤ σ.step.toNat → (enterPrecommit cfg σ.height σ.round σ).step = σ.step) := by
  rw [enterPrecommit_le cfg σ.height σ.round σ (Nat.le_refl _)]
  split
  · rename_i hg
    refine ⟨rfl, ?_, fun hlt => ?_, fun _ => rfl⟩ <;> simp only [toNat_prevote, toNat_precommit, toNat_prevoteWait] at hg <;> omega
  · rename_i hg
    refine ⟨rfl, by simp [toNat_prevote, toNat_precommit], fun _ => rfl, fun hge => ?_⟩
    exfalso; apply hg; have := toNat_precommit; omega

theorem enterPrevoteWait_step (σ : State) :
    (enterPrevoteWait σ.height σ.round σ).round = σ.round ∧
    5 ≤ (enterPrevoteWait σ.height σ.round σ).step.toNat ∧
    (σ.step.toNat < 5 → (enterPrevoteWait σ.height σ.round σ).step = .prevoteWait ∧
      (σ.height, σ.round, Step.prevoteWait) ∈ (enterPrevoteWait σ.height σ.round σ).sched) := by
  unfold enterPrevoteWait
  split
  · rename_i hg
    refine ⟨rfl, ?_, fun hlt => ?_⟩ <;> simp only [toNat_prevote, toNat_precommit, toNat_prevoteWait] at hg <;> omega
  · exact ⟨rfl, by simp [toNat_prevoteWait], fun _ => ⟨rfl, List.mem_cons_self ..⟩⟩

/-- `enterPrecommitWait` for the current height and round arms the PrecommitWait timer -/
theorem enterPrecommitWait_arms (σ : State) :
    (enterPrecommitWait σ.height σ.round σ).ttp = true ∧
    (enterPrecommitWait σ.height σ.round σ).height = σ.height ∧
    (enterPrecommitWait σ.height σ.round σ).round = σ.round ∧
    (enterPrecommitWait σ.height σ.round σ).step = σ.step ∧
    (σ.ttp = false → (σ.height, σ.round, Step.precommitWait) ∈ (enterPrecommitWait σ.height σ.round σ).sched) := by
  unfold enterPrecommitWait
  split
  · rename_i hg
    have : σ.ttp = true := by
      rcases hg with h | h | h
      · exact absurd rfl h
      · exact absurd rfl h
      · exact h.2
    exact ⟨this, rfl, rfl, rfl, fun hf => by rw [this] at hf; cases hf⟩
  · exact ⟨rfl, rfl, rfl, rfl, fun _ => List.mem_cons_self ..⟩

/-- the three outcomes of `tryFinalizeCommit` in step Commit: it finalises (next height), halts on
an invalid block, or the node does not hold the committed block -/
theorem tryFinalizeCommit_cases (cfg : Config) (h : Nat) (σ : State) (hh : σ.height = h) (hs : σ.step = .commit) :
    ((tryFinalizeCommit cfg h σ).height = h + 1 ∧ (tryFinalizeCommit cfg h σ).step = .newHeight) ∨
    ((tryFinalizeCommit cfg h σ).halted = true ∧ (tryFinalizeCommit cfg h σ).step = .commit ∧
      (tryFinalizeCommit cfg h σ).height = h ∧ (tryFinalizeCommit cfg h σ).round = σ.round) ∨
    (tryFinalizeCommit cfg h σ = σ ∧
      ∀ b, maj23 cfg.powers (σ.slots .precommit σ.height σ.commitRound) = some (some b) → idIs σ.pblock b = false) := by
  subst hh
  unfold tryFinalizeCommit
  split
  · rename_i b hm
    split
    · rename_i hid
      unfold finalizeCommit
      rw [if_neg (by simp [hs])]
      rw [hm]
      split
      · rename_i b' blk hm' hp
        split
        · exact Or.inr (Or.inl ⟨rfl, hs, rfl, rfl⟩)
        · split
          · exact Or.inr (Or.inl ⟨rfl, hs, rfl, rfl⟩)
          · exact Or.inl ⟨rfl, rfl⟩
      · exact Or.inr (Or.inl ⟨rfl, hs, rfl, rfl⟩)
    · rename_i hid
      refine Or.inr (Or.inr ⟨rfl, fun b' hb' => ?_⟩)
      rw [hm] at hb'
      cases hb'
      simpa using hid
  · rename_i hm
    refine Or.inr (Or.inr ⟨rfl, fun b' hb' => ?_⟩)
    exact absurd hb' (hm b')

theorem toNat_ge8 (s : Step) (h : 8 ≤ s.toNat) : s = .commit := by
  cases s <;> simp [Step.toNat] at h ⊢

@[simp] theorem enterPrecommitWait_height (h r : Nat) (σ : State) : (enterPrecommitWait h r σ).height = σ.height := by
  unfold enterPrecommitWait; split <;> rfl
@[simp] theorem enterPrecommitWait_round (h r : Nat) (σ : State) : (enterPrecommitWait h r σ).round = σ.round := by
  unfold enterPrecommitWait; split <;> rfl
@[simp] theorem enterPrecommitWait_step (h r : Nat) (σ : State) : (enterPrecommitWait h r σ).step = σ.step := by
  unfold enterPrecommitWait; split <;> rfl

@[simp] theorem proposeDone_height (cfg : Config) (h : Nat) (σ : State) : (proposeDone cfg h σ).height = σ.height := by
  unfold proposeDone; split <;> simp
@[simp] theorem enterPropose_height (cfg : Config) (nb : Option Nat) (h r : Nat) (σ : State) :
    (enterPropose cfg nb h r σ).height = σ.height := by
  unfold enterPropose; split <;> simp
@[simp] theorem enterNewRound_height (cfg : Config) (nb : Option Nat) (h r : Nat) (σ : State) :
    (enterNewRound cfg nb h r σ).height = σ.height := by
  unfold enterNewRound
  split
  · rfl
  · split
    · rfl
    · obtain ⟨extra, b1, -⟩ := newRoundPrep_spec cfg r σ
      simp only
      (repeat' split) <;> simp [b1]

/-- `enterPropose` for the current height and round: afterwards the step is Propose or later -/
theorem enterPropose_step (cfg : Config) (nb : Option Nat) (σ : State) :
    (enterPropose cfg nb σ.height σ.round σ).round = σ.round ∧
    3 ≤ (enterPropose cfg nb σ.height σ.round σ).step.toNat := by
  unfold enterPropose
  split
  · rename_i hg
    refine ⟨rfl, ?_⟩
    simp only [toNat_propose] at hg; omega
  · have key : ∀ τ : State, τ.step = .propose →
        (proposeDone cfg τ.height τ).round = τ.round ∧ 3 ≤ (proposeDone cfg τ.height τ).step.toNat := by
      intro τ hτ
      unfold proposeDone
      split
      · have := enterPrevote_step cfg τ
        exact ⟨this.1, by omega⟩
      · rw [hτ]; exact ⟨rfl, by simp [toNat_propose]⟩
    have := key { proposeBody cfg nb σ.height σ.round σ with round := σ.round, step := .propose } rfl
    simpa using this

/-- `enterNewRound` for the current round (only possible from NewHeight) keeps the round -/
theorem enterNewRound_same (cfg : Config) (nb : Option Nat) (σ : State) :
    (enterNewRound cfg nb σ.height σ.round σ).round = σ.round ∧
    (σ.step = .newHeight → 2 ≤ (enterNewRound cfg nb σ.height σ.round σ).step.toNat) := by
  unfold enterNewRound
  split
  · rename_i hg
    refine ⟨rfl, fun hs => ?_⟩
    exfalso
    rcases hg with h | h | h
    · exact h rfl
    · omega
    · exact h.2 hs
  · rename_i hg
    have hnh : σ.step = .newHeight := by
      by_cases e : σ.step = .newHeight
      · exact e
      · exact absurd (Or.inr (Or.inr ⟨rfl, e⟩)) hg
    rw [if_neg (by rw [hnh]; decide)]
    obtain ⟨extra, b1', b2', b3', -⟩ := newRoundPrep_spec cfg σ.round σ
    have b1 : (releaseStale cfg (newRoundPrep cfg σ.round σ)).height = σ.height := by rw [releaseStale_height, b1']
    have b2 : (releaseStale cfg (newRoundPrep cfg σ.round σ)).round = σ.round := by rw [releaseStale_round, b2']
    have b3 : (releaseStale cfg (newRoundPrep cfg σ.round σ)).step = .newRound := by rw [releaseStale_step, b3']
    simp only
    split
    · split
      · exact ⟨by simp [b2'], fun _ => by simp [b3', toNat_newRound]⟩
      · exact ⟨b2, fun _ => by simp [b3', toNat_newRound]⟩
    · have := enterPropose_step cfg nb (releaseStale cfg (newRoundPrep cfg σ.round σ))
      rw [b1, b2] at this
      exact ⟨this.1, fun _ => by omega⟩

/-! ### (2) a quorum that arrives moves the node on -/

/-- the `switch` of the prevote branch, for a node in step Prevote and a vote of its round that
gives +2/3 any: it precommits (single +2/3 it can act on) or arms PrevoteWait -/
theorem prevoteSwitch_prevote (cfg : Config) (nb : Option Nat) (m : Option Target) (τ : State)
    (hs : τ.step = .prevote) :
    let σ' := prevoteSwitch cfg nb τ.height τ.round m true τ
    σ'.height = τ.height ∧ σ'.round = τ.round ∧ σ'.votes = τ.votes ∧
    ((σ'.step = .prevoteWait ∧ (τ.height, τ.round, Step.prevoteWait) ∈ σ'.sched) ∨ σ'.step = .precommit) := by
  have hlt5 : τ.step.toNat < 5 := by rw [hs]; simp [toNat_prevote]
  have hlt6 : τ.step.toNat < 6 := by rw [hs]; simp [toNat_prevote]
  have hw := enterPrevoteWait_step τ
  have hp := enterPrecommit_step cfg τ
  simp only
  unfold prevoteSwitch
  rw [if_neg (by simp)]
  rw [if_pos (by rw [hs]; simp [toNat_prevote])]
  split
  · split
    · exact ⟨by simp, hp.1, by simp, Or.inr (hp.2.2.1 hlt6)⟩
    · simp only [if_true]
      exact ⟨by simp, hw.1, by simp, Or.inl (hw.2.2 hlt5)⟩
  · simp only [if_true]
    exact ⟨by simp, hw.1, by simp, Or.inl (hw.2.2 hlt5)⟩

/-- **no_quorum_stall (prevote)** at the level of `addVote`'s prevote branch: the vote is already
in the set, the node is in step Prevote and its prevote set for the round has +2/3 any -/
theorem afterPrevote_leaves_prevote (cfg : Config) (nb : Option Nat) (σ : State) (hs : σ.step = .prevote)
    (hany : hasAny cfg.powers (σ.slots .prevote σ.height σ.round) = true) :
    let σ' := afterPrevote cfg nb σ.round σ
    σ'.height = σ.height ∧ σ'.round = σ.round ∧ σ'.votes = σ.votes ∧
    ((σ'.step = .prevoteWait ∧ (σ.height, σ.round, Step.prevoteWait) ∈ σ'.sched) ∨ σ'.step = .precommit) := by
  simp only
  unfold afterPrevote
  simp only [hany]
  have k := polkaUpdate_keeps σ.round (maj23 cfg.powers (σ.slots .prevote σ.height σ.round)) σ
  have := prevoteSwitch_prevote cfg nb (maj23 cfg.powers (σ.slots .prevote σ.height σ.round))
    (polkaUpdate σ.round (maj23 cfg.powers (σ.slots .prevote σ.height σ.round)) σ) (by rw [k.2.2.1]; exact hs)
  simp only at this
  rw [k.1, k.2.1, k.2.2.2.2.2.1] at this
  exact this

/-- after `enterCommit` (or a complete block in step Commit) the node is not left in Commit
holding the committed block -/
def NoCommitStall (cfg : Config) (σ : State) : Prop :=
  σ.halted = false → σ.step = .commit →
    ∀ b, maj23 cfg.powers (σ.slots .precommit σ.height σ.commitRound) = some (some b) → idIs σ.pblock b = false

theorem tryFinalizeCommit_noStall (cfg : Config) (h : Nat) (σ : State) (hh : σ.height = h) (hs : σ.step = .commit) :
    NoCommitStall cfg (tryFinalizeCommit cfg h σ) := by
  have := tryFinalizeCommit_cases cfg h σ hh hs
  intro hhalt hst
  rcases this with h | h | h
  · rw [h.2] at hst; cases hst
  · rw [h.1] at hhalt; cases hhalt
  · rw [h.1]; exact h.2

/-- progress facts about `enterCommit` for the current height -/
theorem enterCommit_spec (cfg : Config) (cr : Nat) (σ : State) :
    ((enterCommit cfg σ.height cr σ).height = σ.height + 1 ∨
      ((enterCommit cfg σ.height cr σ).height = σ.height ∧ (enterCommit cfg σ.height cr σ).round = σ.round ∧
       (enterCommit cfg σ.height cr σ).step = .commit)) ∧
    (NoCommitStall cfg σ → NoCommitStall cfg (enterCommit cfg σ.height cr σ)) := by
  unfold enterCommit
  split
  · rename_i hg
    have : σ.step = .commit := by
      rcases hg with h | h
      · exact absurd rfl h
      · exact toNat_ge8 _ (by simpa [toNat_commit] using h)
    exact ⟨Or.inr ⟨rfl, rfl, this⟩, fun h => h⟩
  · have k := commitPrep_keeps cfg cr σ
    have hc := tryFinalizeCommit_cases cfg σ.height { commitPrep cfg cr σ with step := .commit, commitRound := cr } k.1 rfl
    have hn := tryFinalizeCommit_noStall cfg σ.height { commitPrep cfg cr σ with step := .commit, commitRound := cr } k.1 rfl
    refine ⟨?_, fun _ => hn⟩
    rcases hc with h | h | h
    · exact Or.inl h.1
    · exact Or.inr ⟨h.2.2.1, by rw [h.2.2.2]; exact k.2.1, h.2.1⟩
    · rw [h.1]; exact Or.inr ⟨k.1, k.2.1, rfl⟩

/-- **no_quorum_stall (precommit)** at the level of `addVote`'s precommit branch: the vote is
already in the set and the precommit set of the node's round has +2/3 any.  Afterwards the
PrecommitWait timer is armed (`ttp`), or the node is in Commit, or at the next height. -/
theorem afterPrecommit_arms (cfg : Config) (nb : Option Nat) (σ : State)
    (hany : hasAny cfg.powers (σ.slots .precommit σ.height σ.round) = true) :
    ((afterPrecommit cfg nb σ.round σ).ttp = true ∧ (afterPrecommit cfg nb σ.round σ).height = σ.height ∧
      (afterPrecommit cfg nb σ.round σ).round = σ.round) ∨
    ((afterPrecommit cfg nb σ.round σ).step = .commit ∧ (afterPrecommit cfg nb σ.round σ).height = σ.height) ∨
    (afterPrecommit cfg nb σ.round σ).height = σ.height + 1 := by
  have hnr := enterNewRound_same cfg nb σ
  have hnh := enterNewRound_height cfg nb σ.height σ.round σ
  unfold afterPrecommit
  simp only
  split
  · -- a single +2/3
    have hp := enterPrecommit_step cfg (enterNewRound cfg nb σ.height σ.round σ)
    rw [hnh, hnr.1] at hp
    have hph : (enterPrecommit cfg σ.height σ.round (enterNewRound cfg nb σ.height σ.round σ)).height = σ.height := by
      simp
    split
    · have hc := (enterCommit_spec cfg σ.round (enterPrecommit cfg σ.height σ.round (enterNewRound cfg nb σ.height σ.round σ))).1
      rw [hph] at hc
      rcases hc with h | h
      · exact Or.inr (Or.inr h)
      · exact Or.inr (Or.inl ⟨h.2.2, h.1⟩)
    · have ha := enterPrecommitWait_arms (enterPrecommit cfg σ.height σ.round (enterNewRound cfg nb σ.height σ.round σ))
      rw [hph, hp.1] at ha
      exact Or.inl ⟨ha.1, ha.2.1, ha.2.2.1⟩
  · rw [if_pos (by simp [hany])]
    have ha := enterPrecommitWait_arms (enterNewRound cfg nb σ.height σ.round σ)
    rw [hnh, hnr.1] at ha
    exact Or.inl ⟨ha.1, ha.2.1, ha.2.2.1⟩

/-- **no_quorum_stall (commit)**: a complete block arriving in step Commit is finalised when it is
the committed one -/
theorem afterBlock_commit (cfg : Config) (σ : State) (hs : σ.step = .commit) :
    afterBlock cfg σ.height σ = tryFinalizeCommit cfg σ.height σ := by
  unfold afterBlock
  rw [if_neg (by rw [hs]; simp [toNat_commit, toNat_propose])]
  rw [if_pos (by rw [hs]; rfl)]

end KV.Cs
