import KV.Proofs.WorldRevert
/-!
# Reachable worlds and their invariant (property C08, copy / read-back clauses)

`ReachS strict` is the closure of `World.init` under every command of the model
(every journalled operation, `Snapshot`, `RevertToSnapshot` of any id, `Prepare`, `Finalise`,
`IntermediateRoot`, `Commit`, `Copy`, `reopen`).  `Reach = ReachS true` allows `Copy` only between
transactions (empty journal — the assumption recorded in `checks.d/C08.json`, and what the only caller
`ManageState` does); `ReachAny = ReachS false` allows `Copy` anywhere.

The invariant `WInv` is stated for *every prefix of the journal* (the state that a revert to that prefix
would produce), which makes `RevertToSnapshot` trivial and needs no reasoning about `validRevisions`.
-/
namespace KV.World

/-! ## commands -/

/-- commands between transactions -/
inductive Boundary where
  | prepare (h : TxH) (ti : Nat)
  | finalise (del : Bool)
  | iroot (del : Bool)
  | commit (del : Bool)

def bnd : Boundary → World → World
  | .prepare h ti, w => prepare h ti w
  | .finalise d, w => finalise d w
  | .iroot d, w => iroot d w
  | .commit d, w => commit d w

/-- everything the harness can do to one instance -/
inductive Cmd where
  | op (o : Op)
  | bnd (b : Boundary)
  | copy
  | reopen

def exec : Cmd → World → World
  | .op o, w => (step o w).1
  | .bnd b, w => bnd b w
  | .copy, w => copy w
  | .reopen, w => reopen w

theorem revsOK_nil (n : Nat) : RevsOK [] n := ⟨List.Pairwise.nil, by simp⟩

theorem bnd_revsOK (b : Boundary) (w : World) (h : RevsOK w.revs w.nextId) : RevsOK (bnd b w).revs (bnd b w).nextId := by
  cases b with
  | prepare _ _ => exact h
  | finalise _ => exact revsOK_nil _
  | iroot _ => exact revsOK_nil _
  | commit _ => exact revsOK_nil _

theorem step_revsOK (o : Op) (w : World) (h : RevsOK w.revs w.nextId) :
    RevsOK (step o w).1.revs (step o w).1.nextId := by
  cases o with
  | j o => exact h
  | snapshot => exact (inv_snapshot w h).1
  | revert id =>
    simp only [step]
    cases hr : revertTo id w with
    | none => exact h
    | some w' =>
      unfold revertTo at hr
      cases hf : findRev w.revs id with
      | none => simp [hf] at hr
      | some p =>
        simp only [hf, Option.some.injEq] at hr
        subst hr
        exact revsOK_take _ h

/-- closure of `World.init` under every command; `strict = true`: `Copy` only with an empty journal -/
inductive ReachS (strict : Bool) : World → Prop where
  | init : ReachS strict World.init
  | op (o : Op) {w : World} : ReachS strict w → ReachS strict (step o w).1
  | bnd (b : Boundary) {w : World} : ReachS strict w → ReachS strict (bnd b w)
  | copy {w : World} : ReachS strict w → (strict = true → w.journal = []) → ReachS strict (copy w)
  | reopen {w : World} : ReachS strict w → ReachS strict (reopen w)

/-- reachable with `Copy()` taken between transactions only -/
abbrev Reach : World → Prop := ReachS true
/-- reachable with `Copy()` taken anywhere (also in the middle of a transaction) -/
abbrev ReachAny : World → Prop := ReachS false

theorem ReachS.weaken {strict : Bool} {w : World} (h : ReachS strict w) : ReachAny w := by
  induction h with
  | init => exact .init
  | op o _ ih => exact .op o ih
  | bnd b _ ih => exact .bnd b ih
  | copy _ _ ih => exact .copy ih (by simp)
  | reopen _ ih => exact .reopen ih

theorem reachS_revsOK {strict : Bool} {w : World} (h : ReachS strict w) : RevsOK w.revs w.nextId := by
  induction h with
  | init => exact revsOK_nil _
  | op o _ ih => exact step_revsOK o _ ih
  | bnd b _ ih => exact bnd_revsOK b _ ih
  | copy _ _ _ => exact revsOK_nil _
  | reopen _ _ => exact revsOK_nil _

theorem reachS_run {strict : Bool} (ops : List Op) {w : World} (h : ReachS strict w) : ReachS strict (run ops w) := by
  induction ops generalizing w with
  | nil => exact h
  | cons o ops ih => exact ih (.op o h)

theorem reachS_exec {strict : Bool} (cmds : List Cmd) {w : World} (h : ReachS strict w)
    (hc : strict = false) : ReachS strict (cmds.foldl (fun w c => exec c w) w) := by
  induction cmds generalizing w with
  | nil => exact h
  | cons c cs ih =>
    apply ih
    cases c with
    | op o => exact .op o h
    | bnd b => exact .bnd b h
    | copy => exact .copy h (by simp [hc])
    | reopen => exact .reopen h

/-! ## which account an operation / an entry can change -/

/-- the account whose object a journalled operation may create or modify -/
def JOp.addr : JOp → Option Addr
  | .addBalance a _ => some a
  | .subBalance a _ => some a
  | .setBalance a _ => some a
  | .setNonce a _ => some a
  | .setCode a _ => some a
  | .setState a _ _ => some a
  | .createAccount a => some a
  | .suicide a => some a
  | .setTransient _ _ _ => none
  | .addRefund _ => none
  | .subRefund _ => none
  | .addLog _ _ => none
  | .addPreimage _ _ => none
  | .alAddAddr _ => none
  | .alAddSlot _ _ => none

theorem dirtyAddrs_append (j1 j2 : List Entry) (a : Addr) :
    dirtyAddrs (j1 ++ j2) a = (dirtyAddrs j1 a || dirtyAddrs j2 a) := by
  simp [dirtyAddrs, List.any_append]

theorem dirtyAddrs_of_mem {es : List Entry} {e : Entry} {a : Addr} (hm : e ∈ es) (hd : e.dirtied = some a) :
    dirtyAddrs es a = true := by
  simp only [dirtyAddrs, List.any_eq_true]
  exact ⟨e, hm, by simp [hd]⟩

theorem dirtyAddrs_false_of {es : List Entry} {a : Addr} (h : ∀ e ∈ es, e.dirtied ≠ some a) :
    dirtyAddrs es a = false := by
  cases hd : dirtyAddrs es a with
  | false => rfl
  | true =>
    simp only [dirtyAddrs, List.any_eq_true] at hd
    obtain ⟨e, hm, he⟩ := hd
    exact absurd (by simpa using he) (h e hm)

theorem modObj_objs_other (c : Core) (a b : Addr) (f : Obj → Obj) (h : b ≠ a) : (modObj c a f).objs b = c.objs b := by
  unfold modObj
  split
  · simp [setObj, upd, h]
  · rfl

/-- undoing an entry changes no object other than the one the entry names -/
theorem undo_objs_other (e : Entry) (c : Core) (b : Addr) (h : e.dirtied ≠ some b) : (undo e c).objs b = c.objs b := by
  cases e with
  | createObject a => have : b ≠ a := fun hh => h (by simp [Entry.dirtied, hh]); simp [undo, upd, this]
  | resetObject a p pd => have : b ≠ a := fun hh => h (by simp [Entry.dirtied, hh]); simp [undo, upd, this]
  | suicide a p pb => exact modObj_objs_other _ _ _ _ (fun hh => h (by simp [Entry.dirtied, hh]))
  | balance a p => exact modObj_objs_other _ _ _ _ (fun hh => h (by simp [Entry.dirtied, hh]))
  | nonce a p => exact modObj_objs_other _ _ _ _ (fun hh => h (by simp [Entry.dirtied, hh]))
  | storage a k p => exact modObj_objs_other _ _ _ _ (fun hh => h (by simp [Entry.dirtied, hh]))
  | code a p => exact modObj_objs_other _ _ _ _ (fun hh => h (by simp [Entry.dirtied, hh]))
  | refund p => rfl
  | addLog t => rfl
  | addPreimage t => rfl
  | touch a => rfl
  | alAddAccount a => rfl
  | alAddSlot a k => simp only [undo]; split <;> rfl
  | transient a k p => rfl

theorem rewind_objs_other (es : List Entry) (c : Core) (b : Addr) (h : ∀ e ∈ es, e.dirtied ≠ some b) :
    (rewind es c).objs b = c.objs b := by
  induction es with
  | nil => rfl
  | cons e es ih =>
    rw [rewind_cons, undo_objs_other e _ b (h e (by simp))]
    exact ih (fun e' he' => h e' (by simp [he']))

theorem createObject_entries (c : Core) (a : Addr) : ∀ e ∈ (createObject c a).2.1, e.dirtied = some a := by
  unfold createObject
  cases c.objs a <;> simp [Entry.dirtied]

theorem createObject_objs_other (c : Core) (a b : Addr) (h : b ≠ a) : (createObject c a).1.objs b = c.objs b := by
  unfold createObject
  cases c.objs a <;> simp [setObj, upd, h]

theorem getOrNew_entries (c : Core) (a : Addr) : ∀ e ∈ (getOrNew c a).2.1, e.dirtied = some a := by
  unfold getOrNew
  cases getObj c a with
  | some o => simp
  | none => exact createObject_entries c a

theorem getOrNew_objs_other (c : Core) (a b : Addr) (h : b ≠ a) : (getOrNew c a).1.objs b = c.objs b := by
  unfold getOrNew
  cases getObj c a with
  | some o => rfl
  | none => exact createObject_objs_other c a b h

theorem setObj_objs_other (c : Core) (a b : Addr) (o : Obj) (h : b ≠ a) : (setObj c a o).objs b = c.objs b := by
  simp [setObj, upd, h]

/-- every entry an operation writes names the operation's account (or no account at all) -/
theorem jop_entries_dirtied (o : JOp) (c : Core) : ∀ e ∈ (jop o c).2.1, e.dirtied = o.addr := by
  have hmem : ∀ (a : Addr) (es : List Entry) (e0 : Entry), (∀ e ∈ es, e.dirtied = some a) → e0.dirtied = some a →
      ∀ e ∈ es ++ [e0], e.dirtied = some a := by
    intro a es e0 h1 h2 e he
    simp only [List.mem_append, List.mem_singleton] at he
    rcases he with he | he
    · exact h1 e he
    · subst he; exact h2
  cases o with
  | addBalance a v =>
    simp only [jop, JOp.addr]
    split
    · split
      · exact hmem a _ _ (getOrNew_entries c a) rfl
      · exact getOrNew_entries c a
    · exact hmem a _ _ (getOrNew_entries c a) rfl
  | subBalance a v =>
    simp only [jop, JOp.addr]
    split
    · exact getOrNew_entries c a
    · exact hmem a _ _ (getOrNew_entries c a) rfl
  | setBalance a v => exact hmem a _ _ (getOrNew_entries c a) rfl
  | setNonce a n => exact hmem a _ _ (getOrNew_entries c a) rfl
  | setCode a code => exact hmem a _ _ (getOrNew_entries c a) rfl
  | setState a k v =>
    simp only [jop, JOp.addr]
    split
    · exact getOrNew_entries c a
    · exact hmem a _ _ (getOrNew_entries c a) rfl
  | setTransient a k v =>
    simp only [jop, JOp.addr]
    split <;> simp [Entry.dirtied]
  | createAccount a =>
    simp only [jop, JOp.addr]
    have := createObject_entries c a
    split
    · split <;> exact this
    · exact this
  | suicide a =>
    simp only [jop, JOp.addr]
    split <;> simp [Entry.dirtied]
  | addRefund g => simp [jop, JOp.addr, Entry.dirtied]
  | subRefund g =>
    simp only [jop, JOp.addr]
    split <;> simp [Entry.dirtied]
  | addLog a tag => simp [jop, JOp.addr, Entry.dirtied]
  | addPreimage h b =>
    simp only [jop, JOp.addr]
    split <;> simp [Entry.dirtied]
  | alAddAddr a =>
    simp only [jop, JOp.addr]
    split <;> simp [Entry.dirtied]
  | alAddSlot a k =>
    simp only [jop, JOp.addr]
    split
    · simp [Entry.dirtied]
    · split <;> simp [Entry.dirtied]

/-- an operation changes no object other than that of its account -/
theorem jop_objs_other (o : JOp) (c : Core) (b : Addr) (h : o.addr ≠ some b) : (jop o c).1.objs b = c.objs b := by
  cases o with
  | addBalance a v =>
    have hb : b ≠ a := fun hh => h (by simp [JOp.addr, hh])
    simp only [jop]
    split
    · split <;> exact getOrNew_objs_other c a b hb
    · simp only []; rw [setObj_objs_other _ _ _ _ hb]; exact getOrNew_objs_other c a b hb
  | subBalance a v =>
    have hb : b ≠ a := fun hh => h (by simp [JOp.addr, hh])
    simp only [jop]
    split
    · exact getOrNew_objs_other c a b hb
    · simp only []; rw [setObj_objs_other _ _ _ _ hb]; exact getOrNew_objs_other c a b hb
  | setBalance a v =>
    have hb : b ≠ a := fun hh => h (by simp [JOp.addr, hh])
    simp only [jop]; rw [setObj_objs_other _ _ _ _ hb]; exact getOrNew_objs_other c a b hb
  | setNonce a n =>
    have hb : b ≠ a := fun hh => h (by simp [JOp.addr, hh])
    simp only [jop]; rw [setObj_objs_other _ _ _ _ hb]; exact getOrNew_objs_other c a b hb
  | setCode a code =>
    have hb : b ≠ a := fun hh => h (by simp [JOp.addr, hh])
    simp only [jop]; rw [setObj_objs_other _ _ _ _ hb]; exact getOrNew_objs_other c a b hb
  | setState a k v =>
    have hb : b ≠ a := fun hh => h (by simp [JOp.addr, hh])
    simp only [jop]
    split
    · exact getOrNew_objs_other c a b hb
    · simp only []; rw [setObj_objs_other _ _ _ _ hb]; exact getOrNew_objs_other c a b hb
  | setTransient a k v => simp only [jop]; split <;> rfl
  | createAccount a =>
    have hb : b ≠ a := fun hh => h (by simp [JOp.addr, hh])
    simp only [jop]
    have := createObject_objs_other c a b hb
    split
    · split
      · exact this
      · simp only []; rw [setObj_objs_other _ _ _ _ hb]; exact this
    · exact this
  | suicide a =>
    have hb : b ≠ a := fun hh => h (by simp [JOp.addr, hh])
    simp only [jop]
    split
    · rfl
    · exact setObj_objs_other _ _ _ _ hb
  | addRefund g => rfl
  | subRefund g => simp only [jop]; split <;> rfl
  | addLog a tag => rfl
  | addPreimage h b => simp only [jop]; split <;> rfl
  | alAddAddr a => simp only [jop]; split <;> rfl
  | alAddSlot a k =>
    simp only [jop]
    split
    · rfl
    · split <;> rfl

/-! ## the invariant -/

/-- One (core, journal) pair: a live object that the journal does not name
* carries no self-destruct mark and agrees with its committed storage (`strict` only: a mid-transaction
  `Copy()` keeps marks and uncommitted storage but drops the journal), and
* in any case agrees with its committed storage unless it is in `stateObjectsDirty` / `stateObjectsPending`. -/
def Tidy (strict : Bool) (c : Core) (jr : List Entry) : Prop :=
  ∀ a o, c.objs a = some o → dirtyAddrs jr a = false → o.deleted = false →
    (strict = true → o.suicided = false ∧ o.cur = o.com) ∧ (o.inDirty = false → o.inPending = false → o.cur = o.com)

/-- the invariant of a reachable world: `Tidy` at every prefix of the journal (= after any revert), and
(`strict`) the refund counter was zero when the journal was empty -/
def WInv (strict : Bool) (w : World) : Prop :=
  (∀ k, Tidy strict (rewind (w.journal.drop k) w.core) (w.journal.take k)) ∧
  (strict = true → (rewind w.journal w.core).refund = 0)

theorem WInv.now {strict : Bool} {w : World} (h : WInv strict w) : Tidy strict w.core w.journal := by
  have := h.1 w.journal.length
  simpa using this

theorem winv_of_nil {strict : Bool} {w : World} (hj : w.journal = []) (ht : Tidy strict w.core [])
    (hr : strict = true → w.core.refund = 0) : WInv strict w := by
  refine ⟨fun k => ?_, ?_⟩
  · simpa [hj] using ht
  · simpa [hj] using hr

/-- one operation, at every prefix of the entries it writes -/
theorem jop_tidy (strict : Bool) (o : JOp) (c : Core) (jr : List Entry) (h : Tidy strict c jr) (k : Nat) :
    Tidy strict (rewind ((jop o c).2.1.drop k) (jop o c).1) (jr ++ (jop o c).2.1.take k) := by
  intro b ob hob hnd hdel
  rw [dirtyAddrs_append, Bool.or_eq_false_iff] at hnd
  by_cases hb : o.addr = some b
  · cases ht : (jop o c).2.1.take k with
    | nil =>
      have hdrop : (jop o c).2.1.drop k = (jop o c).2.1 := by
        have := List.take_append_drop k (jop o c).2.1
        rw [ht] at this; simpa using this
      rw [hdrop, jop_undo] at hob
      exact h b ob hob hnd.1 hdel
    | cons e rest =>
      have hm : e ∈ (jop o c).2.1 := List.mem_of_mem_take (by rw [ht]; simp)
      have hd := jop_entries_dirtied o c e hm
      rw [hb] at hd
      have := dirtyAddrs_of_mem (es := (jop o c).2.1.take k) (by rw [ht]; simp) hd
      rw [this] at hnd
      exact absurd hnd.2 (by simp)
  · have h1 : (rewind ((jop o c).2.1.drop k) (jop o c).1).objs b = (jop o c).1.objs b := by
      apply rewind_objs_other
      intro e he
      rw [jop_entries_dirtied o c e (List.mem_of_mem_drop he)]
      exact hb
    rw [h1, jop_objs_other o c b hb] at hob
    exact h b ob hob hnd.1 hdel

theorem winv_applyJ {strict : Bool} (o : JOp) (w : World) (h : WInv strict w) : WInv strict (applyJ o w).1 := by
  refine ⟨fun k => ?_, ?_⟩
  · simp only [applyJ]
    by_cases hk : k ≤ w.journal.length
    · have h1 : (w.journal ++ (jop o w.core).2.1).drop k = w.journal.drop k ++ (jop o w.core).2.1 := by
        rw [List.drop_append, Nat.sub_eq_zero_of_le hk]; simp
      have h2 : (w.journal ++ (jop o w.core).2.1).take k = w.journal.take k := by
        rw [List.take_append, Nat.sub_eq_zero_of_le hk]; simp
      rw [h1, h2, rewind_append, jop_undo]
      exact h.1 k
    · have hk' : w.journal.length ≤ k := by omega
      have h1 : (w.journal ++ (jop o w.core).2.1).drop k = (jop o w.core).2.1.drop (k - w.journal.length) := by
        rw [List.drop_append, List.drop_of_length_le hk']; simp
      have h2 : (w.journal ++ (jop o w.core).2.1).take k = w.journal ++ (jop o w.core).2.1.take (k - w.journal.length) := by
        rw [List.take_append, List.take_of_length_le hk']
      rw [h1, h2]
      exact jop_tidy strict o w.core w.journal h.now _
  · intro hs
    simp only [applyJ, rewind_append, jop_undo]
    exact h.2 hs

theorem winv_revertTo {strict : Bool} (id : Nat) (w w' : World) (h : WInv strict w) (hr : revertTo id w = some w') :
    WInv strict w' := by
  unfold revertTo at hr
  cases hf : findRev w.revs id with
  | none => simp [hf] at hr
  | some p =>
    obtain ⟨idx, j⟩ := p
    simp only [hf, Option.some.injEq] at hr
    subst hr
    have key : ∀ k, rewind ((w.journal.take j).drop k) (rewind (w.journal.drop j) w.core) =
        rewind (w.journal.drop (min k j)) w.core ∧ (w.journal.take j).take k = w.journal.take (min k j) := by
      intro k
      refine ⟨?_, by rw [List.take_take]⟩
      rw [← rewind_append]
      congr 1
      by_cases hkj : k ≤ j
      · rw [Nat.min_eq_left hkj]
        have : w.journal.drop k = (w.journal.take j).drop k ++ w.journal.drop j := by
          conv => lhs; rw [← List.take_append_drop j w.journal]
          rw [List.drop_append]
          have : k - (List.take j w.journal).length = 0 ∨ w.journal.length ≤ j := by
            rw [List.length_take]; omega
          rcases this with h0 | h0
          · rw [h0]; simp
          · rw [List.drop_of_length_le (l := w.journal.drop j) (by simp; omega)]
            simp [List.drop_of_length_le h0]
        exact this.symm
      · have hjk : j ≤ k := by omega
        rw [Nat.min_eq_right hjk, List.drop_of_length_le (by rw [List.length_take]; omega)]
        simp
    refine ⟨fun k => ?_, ?_⟩
    · simp only
      rw [(key k).1, (key k).2]
      exact h.1 _
    · intro hs
      simp only
      rw [← rewind_append, List.take_append_drop]
      exact h.2 hs

theorem winv_step {strict : Bool} (o : Op) (w : World) (h : WInv strict w) : WInv strict (step o w).1 := by
  cases o with
  | j o => exact winv_applyJ o w h
  | snapshot => exact h
  | revert id =>
    simp only [step]
    cases hr : revertTo id w with
    | none => exact h
    | some w' => exact winv_revertTo id w w' h hr

/-! ### transaction / block boundary -/

theorem tidy_finalise {strict : Bool} (del : Bool) (w : World) (h : Tidy strict w.core w.journal) :
    Tidy strict (finalise del w).core [] := by
  intro a o' ho' _ hdel
  simp only [finalise] at ho'
  cases hc : w.core.objs a with
  | none => simp [hc] at ho'
  | some o =>
    simp only [hc] at ho'
    cases hD : dirtyAddrs w.journal a with
    | false =>
      simp only [hD, Bool.false_eq_true, if_false, Option.some.injEq] at ho'
      subst ho'
      exact h a o hc hD hdel
    | true =>
      simp only [hD, if_true] at ho'
      split at ho'
      · simp only [Option.some.injEq] at ho'
        subst ho'
        simp at hdel
      · next hk =>
        simp only [Option.some.injEq] at ho'
        subst ho'
        simp only [Bool.or_eq_true, not_or] at hk
        refine ⟨fun _ => ⟨by simpa using hk.1, rfl⟩, fun hd => by simp at hd⟩

theorem finalise_refund (del : Bool) (w : World) (h : (rewind w.journal w.core).refund = 0) :
    (finalise del w).core.refund = 0 := by
  simp only [finalise]
  cases hj : w.journal with
  | nil => simpa [hj] using h
  | cons e es => simp

theorem tidy_flushPending {strict : Bool} (c : Core) (h : Tidy strict c []) :
    Tidy strict { c with objs := flushPending c.objs } [] := by
  intro a o' ho' _ hdel
  simp only [flushPending] at ho'
  cases hc : c.objs a with
  | none => simp [hc] at ho'
  | some o =>
    simp only [hc] at ho'
    split at ho'
    · simp only [Option.some.injEq] at ho'
      subst ho'
      have := h a o hc rfl (by simpa using hdel)
      exact ⟨fun hs => ⟨(this.1 hs).1, rfl⟩, fun _ _ => rfl⟩
    · next hn =>
      simp only [Option.some.injEq] at ho'
      subst ho'
      have hdel' : o.deleted = false := by simpa using hdel
      have := h a o hc rfl hdel'
      refine ⟨this.1, fun hd _ => ?_⟩
      have hp : o.inPending = false := by
        cases hp : o.inPending with
        | false => rfl
        | true => simp [hp, hdel'] at hn
      exact this.2 hd hp

theorem tidy_flushDirty {strict : Bool} (c : Core) (d : Addr → Bool) (h : Tidy strict c []) :
    Tidy strict { c with objs := flushDirty c.objs, destruct := d } [] := by
  intro a o' ho' _ hdel
  simp only [flushDirty] at ho'
  cases hc : c.objs a with
  | none => simp [hc] at ho'
  | some o =>
    simp only [hc] at ho'
    split at ho'
    · simp only [Option.some.injEq] at ho'
      subst ho'
      have := h a o hc rfl (by simpa using hdel)
      exact ⟨fun hs => ⟨(this.1 hs).1, rfl⟩, fun _ _ => rfl⟩
    · next hn =>
      simp only [Option.some.injEq] at ho'
      subst ho'
      have hdel' : o.deleted = false := by simpa using hdel
      have := h a o hc rfl hdel'
      refine ⟨this.1, fun _ hp => ?_⟩
      have hd : o.inDirty = false := by
        cases hd : o.inDirty with
        | false => rfl
        | true => simp [hd, hdel'] at hn
      exact this.2 hd hp

theorem winv_finalise {strict : Bool} (del : Bool) (w : World) (h : WInv strict w) : WInv strict (finalise del w) :=
  winv_of_nil rfl (tidy_finalise del w h.now) (fun hs => finalise_refund del w (h.2 hs))

theorem winv_iroot {strict : Bool} (del : Bool) (w : World) (h : WInv strict w) : WInv strict (iroot del w) :=
  winv_of_nil rfl (tidy_flushPending _ (tidy_finalise del w h.now)) (fun hs => finalise_refund del w (h.2 hs))

theorem winv_commit {strict : Bool} (del : Bool) (w : World) (h : WInv strict w) : WInv strict (commit del w) :=
  winv_of_nil rfl (tidy_flushDirty _ _ (tidy_flushPending _ (tidy_finalise del w h.now)))
    (fun hs => finalise_refund del w (h.2 hs))

/-- the tx context is read by no undo -/
theorem undo_ctx (e : Entry) (c : Core) (h : TxH) (ti : Nat) :
    undo e { c with thash := h, txIndex := ti } = { undo e c with thash := h, txIndex := ti } := by
  cases e with
  | suicide a p pb => simp only [undo, modObj, getObj, setObj]; split <;> rfl
  | balance a p => simp only [undo, modObj, getObj, setObj]; split <;> rfl
  | nonce a p => simp only [undo, modObj, getObj, setObj]; split <;> rfl
  | storage a k p => simp only [undo, modObj, getObj, setObj]; split <;> rfl
  | code a p => simp only [undo, modObj, getObj, setObj]; split <;> rfl
  | alAddSlot a k => simp only [undo]; split <;> rfl
  | _ => rfl

theorem rewind_ctx (es : List Entry) (c : Core) (h : TxH) (ti : Nat) :
    rewind es { c with thash := h, txIndex := ti } = { rewind es c with thash := h, txIndex := ti } := by
  induction es with
  | nil => rfl
  | cons e es ih => rw [rewind_cons, ih, undo_ctx]; rfl

theorem winv_prepare {strict : Bool} (th : TxH) (ti : Nat) (w : World) (h : WInv strict w) :
    WInv strict (prepare th ti w) := by
  refine ⟨fun k => ?_, fun hs => ?_⟩
  · simp only [prepare, rewind_ctx]
    exact h.1 k
  · simp only [prepare, rewind_ctx]
    exact h.2 hs

theorem winv_bnd {strict : Bool} (b : Boundary) (w : World) (h : WInv strict w) : WInv strict (bnd b w) := by
  cases b with
  | prepare th ti => exact winv_prepare th ti w h
  | finalise d => exact winv_finalise d w h
  | iroot d => exact winv_iroot d w h
  | commit d => exact winv_commit d w h

/-! ### Copy, reopen -/

theorem tidy_copy {strict : Bool} (w : World) (h : Tidy strict w.core w.journal)
    (hj : strict = true → w.journal = []) : Tidy strict (copy w).core [] := by
  intro a o' ho' _ hdel
  simp only [copy] at ho'
  cases hc : w.core.objs a with
  | none => simp [hc] at ho'
  | some o =>
    simp only [hc] at ho'
    cases hD : dirtyAddrs w.journal a with
    | true =>
      simp only [hD, if_true, Option.some.injEq] at ho'
      subst ho'
      refine ⟨fun hs => ?_, fun hd => by simp at hd⟩
      rw [hj hs] at hD
      simp [dirtyAddrs] at hD
    | false =>
      simp only [hD, Bool.false_eq_true, if_false] at ho'
      split at ho'
      · next hf =>
        simp only [Option.some.injEq] at ho'
        subst ho'
        refine ⟨(h a o hc hD hdel).1, fun hd hp => ?_⟩
        simp [hd, hp] at hf
      · split at ho'
        · simp at ho'
        · simp only [Option.some.injEq] at ho'
          subst ho'
          exact ⟨fun _ => ⟨rfl, rfl⟩, fun _ _ => rfl⟩

theorem winv_copy {strict : Bool} (w : World) (h : WInv strict w) (hj : strict = true → w.journal = []) :
    WInv strict (copy w) := by
  refine winv_of_nil rfl (tidy_copy w h.now hj) (fun hs => ?_)
  have := h.2 hs
  rw [hj hs] at this
  simpa [copy] using this

theorem winv_reopen {strict : Bool} (w : World) : WInv strict (reopen w) := by
  refine winv_of_nil rfl ?_ (fun _ => rfl)
  intro a o' ho' _ _
  simp only [reopen] at ho'
  cases hc : content w a with
  | none => simp [hc] at ho'
  | some acc =>
    simp only [hc, Option.map_some, Option.some.injEq] at ho'
    subst ho'
    exact ⟨fun _ => ⟨rfl, rfl⟩, fun _ _ => rfl⟩

theorem winv_init {strict : Bool} : WInv strict World.init := by
  refine winv_of_nil rfl ?_ (fun _ => rfl)
  intro a o h
  simp [World.init, Core.init] at h

/-- **the invariant holds in every reachable world** -/
theorem reachS_winv {strict : Bool} {w : World} (h : ReachS strict w) : WInv strict w := by
  induction h with
  | init => exact winv_init
  | op o _ ih => exact winv_step o _ ih
  | bnd b _ ih => exact winv_bnd b _ ih
  | copy _ hj ih => exact winv_copy _ ih hj
  | reopen _ _ => exact winv_reopen _

end KV.World
