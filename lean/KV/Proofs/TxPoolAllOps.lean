import KV.Proofs.TxPoolAll
/-! `all` = pending ⊎ queue through the deleting functions of the pool model (property C17). -/
namespace KV.TxPool
open TxList
namespace Pool

/-- queued lists are never strict -/
def QNS (p : Pool) : Prop := ∀ a l, amGet p.queue a = some l → l.strict = false

variable {c : Chain} {Φ : Phi c}

/-- the bundle under which index and lists are kept in step -/
structure AL (Φ : Phi c) (p : Pool) : Prop where
  good : Good Φ p
  nd : NDisj p
  iff : ALiff p
  idu : IdU p
  qns : QNS p

namespace AL
variable {p : Pool}

theorem MP_sender (h : AL Φ p) {b : Nat} {x : Tx} (hx : MP p b x) : x.sender = b := by
  obtain ⟨l, hl, hm⟩ := hx
  exact Φ.psnd _ _ ((h.good.pend b l hl).2 x hm)

theorem MQ_sender (h : AL Φ p) {b : Nat} {x : Tx} (hx : MQ p b x) : x.sender = b := by
  obtain ⟨l, hl, hm⟩ := hx
  exact Φ.qsnd _ _ ((h.good.que b l hl).2 x hm)

theorem listed_id (h : AL Φ p) {x y : Tx} (hx : Listed p x) (hy : Listed p y) (hid : x.id = y.id) : x = y :=
  h.idu.eq_of_id ((h.iff x).mpr hx) ((h.iff y).mpr hy) hid

theorem PQ_nonce (h : AL Φ p) {a : Nat} {x y : Tx} (hx : MP p a x) (hy : MQ p a y) : x.nonce ≠ y.nonce := by
  intro hn
  obtain ⟨l, hl, hm⟩ := hx
  obtain ⟨l', hl', hm'⟩ := hy
  exact h.nd a x.nonce ⟨l, hl, x, hm, rfl⟩ ⟨l', hl', y, hm', hn.symm⟩

theorem not_MP_MQ (h : AL Φ p) {b b' : Nat} {x : Tx} (hx : MP p b x) (hy : MQ p b' x) : False := by
  have e1 := h.MP_sender hx
  have e2 := h.MQ_sender hy
  rw [← e1, e2] at hx
  exact h.PQ_nonce hx hy rfl

end AL

theorem Listed_of_MP {p : Pool} {b : Nat} {x : Tx} (h : MP p b x) : Listed p x :=
  (Listed_iff p x).mpr ⟨b, Or.inl h⟩
theorem Listed_of_MQ {p : Pool} {b : Nat} {x : Tx} (h : MQ p b x) : Listed p x :=
  (Listed_iff p x).mpr ⟨b, Or.inr h⟩

/-! ## removeTx -/

theorem removeTx_unknown (p : Pool) (t : Tx) (hk : p.known t = false) : p.removeTx t = p := by
  unfold removeTx; simp [hk]

theorem removeTx_found (p : Pool) (t : Tx) (hk : p.known t = true) (pl : TxList)
    (hpl : amGet p.pending t.sender = some pl) (hf : (pl.remove t.nonce).2.1 = true) :
    p.removeTx t =
      ((pl.remove t.nonce).2.2.foldl (fun (q : Pool) inv => (q.enqueueTx inv false false).1)
        (if (pl.remove t.nonce).1.isEmpty then { p.allRemove t with pending := amErase (p.allRemove t).pending t.sender }
         else { p.allRemove t with pending := amSet (p.allRemove t).pending t.sender (pl.remove t.nonce).1 })).pnSetIfLower
        t.sender t.nonce := by
  have hpl' : amGet (p.allRemove t).pending t.sender = some pl := hpl
  unfold removeTx
  simp only [hk, Bool.not_true, Bool.false_eq_true, if_false, hpl', hf, if_true]

theorem removeTx_viaQueue (p : Pool) (t : Tx) (hk : p.known t = true)
    (hnf : ∀ pl, amGet p.pending t.sender = some pl → (pl.remove t.nonce).2.1 = false) :
    p.removeTx t =
      (match amGet (p.allRemove t).queue t.sender with
        | none => p.allRemove t
        | some ql =>
          if (ql.remove t.nonce).1.isEmpty then { p.allRemove t with queue := amErase (p.allRemove t).queue t.sender }
          else { p.allRemove t with queue := amSet (p.allRemove t).queue t.sender (ql.remove t.nonce).1 }) := by
  unfold removeTx
  simp only [hk, Bool.not_true, Bool.false_eq_true, if_false]
  cases hp : amGet (p.allRemove t).pending t.sender with
  | none => rfl
  | some pl =>
    have := hnf pl hp
    simp only [this, Bool.false_eq_true, if_false]
    rfl

theorem allRemove_all_map (p : Pool) (t : Tx) :
    (p.allRemove t).all.map (·.1) = (p.all.map (·.1)).filter (fun x => !(x.id == t.id)) := by
  simp only [allRemove]
  exact map_filter_fst p.all (fun x => !(x.id == t.id))

theorem pnSetIfLower_all (p : Pool) (a n : Nat) : (p.pnSetIfLower a n).all = p.all := by
  unfold pnSetIfLower; split <;> rfl

theorem remove_invalids_sublist (l : TxList) (n : Nat) : (l.remove n).2.2.Sublist l.txs := by
  unfold TxList.remove
  split
  · simp
  · split
    · exact List.Sublist.trans List.filter_sublist List.filter_sublist
    · simp

theorem remove_notfound {l : TxList} {n : Nat} (h : ∀ y ∈ l.txs, y.nonce ≠ n) : (l.remove n).2.1 = false := by
  have := get?_none_of_fresh h
  simp [TxList.remove, this]

/-- **`removeTx` deletes exactly the indexed transaction with that id** from the index and from
the lists (whatever it invalidates in pending is re-queued) -/
theorem removeTx_del {p : Pool} (h : AL Φ p) {t : Tx} (hok : Idx p t ∨ p.known t = false) :
    Del p (p.removeTx t) := by
  cases hk : p.known t with
  | false => rw [removeTx_unknown p t hk]; exact Del.refl p
  | true =>
    have hidx : Idx p t := by
      rcases hok with h' | h'
      · exact h'
      · rw [hk] at h'; cases h'
    have hlt : Listed p t := (h.iff t).mp hidx
    have key : ∀ x, Listed p x → (x.id == t.id) = true → x = t :=
      fun x hx hid => h.listed_id hx hlt (by simpa using hid)
    have hp0P : ∀ b x, MP (p.allRemove t) b x ↔ MP p b x := fun b x => MP_congr rfl b x
    have hp0Q : ∀ b x, MQ (p.allRemove t) b x ↔ MQ p b x := fun b x => MQ_congr rfl b x
    rcases (Listed_iff p t).mp hlt with ⟨b, hb | hb⟩
    · -- `t` is pending
      have hba : b = t.sender := (h.MP_sender hb).symm
      rw [hba] at hb
      have hbP := hb
      obtain ⟨pl, hpl, htm⟩ := hb
      have hsorted := (h.good.pend _ pl hpl).1.1
      have hpart := fun x => remove_part hsorted htm x
      rw [removeTx_found p t hk pl hpl (hpart t).1]
      -- the re-queued transactions are fresh in the queue
      have hfr := enqueueL_fresh t.sender (pl.remove t.nonce).2.2
        (if (pl.remove t.nonce).1.isEmpty then { p.allRemove t with pending := amErase (p.allRemove t).pending t.sender }
         else { p.allRemove t with pending := amSet (p.allRemove t).pending t.sender (pl.remove t.nonce).1 })
        (fun x hx => h.MP_sender ⟨pl, hpl, remove_invalids_sub _ _ x hx⟩)
        ((NoncesDistinct.of_sorted hsorted).sublist (remove_invalids_sublist _ _))
        (by
          intro x hx y hy
          rw [MQ_congr (finishPending_queue _ _ _), hp0Q] at hy
          exact (h.PQ_nonce ⟨pl, hpl, remove_invalids_sub _ _ x hx⟩ hy).symm)
      obtain ⟨f1, f2, f3⟩ := hfr
      refine ⟨fun x => x.id == t.id, ?_, ?_⟩
      · rw [pnSetIfLower_all, f1, finishPending_all, allRemove_all_map]
      · intro x
        rw [Listed_iff, Listed_iff]
        constructor
        · rintro ⟨b', hb'⟩
          have hcase : (x ∈ (pl.remove t.nonce).1.txs ∨ x ∈ (pl.remove t.nonce).2.2) ∨
              (∃ b'', b'' ≠ t.sender ∧ MP p b'' x) ∨ (∃ b'', MQ p b'' x) := by
            rcases hb' with hb' | hb'
            · rw [MP_congr (pnSetIfLower_pending _ _ _), MP_congr f2, MP_finish, hp0P] at hb'
              rcases hb' with ⟨_, hx⟩ | ⟨hne, hx⟩
              · exact Or.inl (Or.inl hx)
              · exact Or.inr (Or.inl ⟨b', hne, hx⟩)
            · rw [MQ_congr (pnSetIfLower_queue _ _ _), f3, MQ_congr (finishPending_queue _ _ _), hp0Q] at hb'
              rcases hb' with hx | ⟨_, hx⟩
              · exact Or.inr (Or.inr ⟨b', hx⟩)
              · exact Or.inl (Or.inr hx)
          rcases hcase with hx | hx | hx
          · have hxl : x ∈ pl.txs := ((hpart x).2.1).mpr (by
              rcases hx with hx | hx
              · exact Or.inl hx
              · exact Or.inr (Or.inr hx))
            refine ⟨⟨t.sender, Or.inl ⟨pl, hpl, hxl⟩⟩, ?_⟩
            show (x.id == t.id) = false
            cases hid : (x.id == t.id) with
            | false => rfl
            | true =>
              exfalso
              have := key x (Listed_of_MP ⟨pl, hpl, hxl⟩) hid
              subst this
              rcases hx with hx | hx
              · exact (hpart x).2.2.1 hx
              · exact (hpart x).2.2.2.1 hx
          · obtain ⟨b'', hne, hx⟩ := hx
            refine ⟨⟨b'', Or.inl hx⟩, ?_⟩
            show (x.id == t.id) = false
            cases hid : (x.id == t.id) with
            | false => rfl
            | true =>
              exfalso
              have := key x (Listed_of_MP hx) hid
              subst this
              exact hne (h.MP_sender hx).symm
          · obtain ⟨b'', hx⟩ := hx
            refine ⟨⟨b'', Or.inr hx⟩, ?_⟩
            show (x.id == t.id) = false
            cases hid : (x.id == t.id) with
            | false => rfl
            | true =>
              exfalso
              have := key x (Listed_of_MQ hx) hid
              subst this
              exact h.not_MP_MQ hbP hx
        · rintro ⟨⟨b', hb'⟩, hid⟩
          rcases hb' with hb' | hb'
          · by_cases hbb : b' = t.sender
            · rw [hbb] at hb'
              obtain ⟨pl', hpl', hxm⟩ := hb'
              rw [hpl] at hpl'; cases hpl'
              rcases ((hpart x).2.1).mp hxm with hx | hx | hx
              · refine ⟨t.sender, Or.inl ?_⟩
                rw [MP_congr (pnSetIfLower_pending _ _ _), MP_congr f2, MP_finish]
                exact Or.inl ⟨rfl, hx⟩
              · rw [hx] at hid; simp at hid
              · refine ⟨t.sender, Or.inr ?_⟩
                rw [MQ_congr (pnSetIfLower_queue _ _ _), f3]
                exact Or.inr ⟨rfl, hx⟩
            · refine ⟨b', Or.inl ?_⟩
              rw [MP_congr (pnSetIfLower_pending _ _ _), MP_congr f2, MP_finish, hp0P]
              exact Or.inr ⟨hbb, hb'⟩
          · refine ⟨b', Or.inr ?_⟩
            rw [MQ_congr (pnSetIfLower_queue _ _ _), f3, MQ_congr (finishPending_queue _ _ _), hp0Q]
            exact Or.inl hb'
    · -- `t` is queued
      have hba : b = t.sender := (h.MQ_sender hb).symm
      rw [hba] at hb
      have hbQ := hb
      obtain ⟨ql, hql, htm⟩ := hb
      have hsorted := (h.good.que _ ql hql).1.1
      have hns := h.qns _ ql hql
      have hpart := fun x => remove_part hsorted htm x
      have hnf : ∀ pl, amGet p.pending t.sender = some pl → (pl.remove t.nonce).2.1 = false := by
        intro pl hpl
        apply remove_notfound
        intro y hy
        exact h.PQ_nonce ⟨pl, hpl, hy⟩ hbQ
      rw [removeTx_viaQueue p t hk hnf]
      have hql' : amGet (p.allRemove t).queue t.sender = some ql := hql
      simp only [hql']
      refine ⟨fun x => x.id == t.id, ?_, ?_⟩
      · rw [finishQueue_all, allRemove_all_map]
      · intro x
        rw [Listed_iff, Listed_iff]
        constructor
        · rintro ⟨b', hb'⟩
          rcases hb' with hb' | hb'
          · rw [MP_congr (finishQueue_pending _ _ _), hp0P] at hb'
            refine ⟨⟨b', Or.inl hb'⟩, ?_⟩
            show (x.id == t.id) = false
            cases hid : (x.id == t.id) with
            | false => rfl
            | true =>
              exfalso
              have := key x (Listed_of_MP hb') hid
              subst this
              exact h.not_MP_MQ hb' hbQ
          · rw [MQ_finish, hp0Q] at hb'
            rcases hb' with ⟨hbe, hx⟩ | ⟨hne, hx⟩
            · have hxl : x ∈ ql.txs := ((hpart x).2.1).mpr (Or.inl hx)
              refine ⟨⟨t.sender, Or.inr ⟨ql, hql, hxl⟩⟩, ?_⟩
              show (x.id == t.id) = false
              cases hid : (x.id == t.id) with
              | false => rfl
              | true =>
                exfalso
                have := key x (Listed_of_MQ ⟨ql, hql, hxl⟩) hid
                subst this
                exact (hpart x).2.2.1 hx
            · refine ⟨⟨b', Or.inr hx⟩, ?_⟩
              show (x.id == t.id) = false
              cases hid : (x.id == t.id) with
              | false => rfl
              | true =>
                exfalso
                have := key x (Listed_of_MQ hx) hid
                subst this
                exact hne (h.MQ_sender hx).symm
        · rintro ⟨⟨b', hb'⟩, hid⟩
          rcases hb' with hb' | hb'
          · refine ⟨b', Or.inl ?_⟩
            rw [MP_congr (finishQueue_pending _ _ _), hp0P]; exact hb'
          · refine ⟨b', Or.inr ?_⟩
            rw [MQ_finish, hp0Q]
            by_cases hbb : b' = t.sender
            · rw [hbb] at hb'
              obtain ⟨ql', hql'', hxm⟩ := hb'
              rw [hql] at hql''; cases hql''
              rcases ((hpart x).2.1).mp hxm with hx | hx | hx
              · exact Or.inl ⟨hbb, hx⟩
              · rw [hx] at hid; simp at hid
              · rw [(hpart x).2.2.2.2 hns] at hx; simp at hx
            · exact Or.inr ⟨hbb, hb'⟩

/-! ## a generic description of "the lists of account `a` are re-arranged, `S` is deleted" -/

theorem reshape_del {p p' : Pool} (h : AL Φ p) (a : Nat) (S : List Tx) (NP NQ : Tx → Prop)
    (hall : p'.all.map (·.1) = (p.all.map (·.1)).filter (fun x => !(S.any (fun y => x.id == y.id))))
    (hP : ∀ b x, MP p' b x ↔ (b = a ∧ NP x) ∨ (b ≠ a ∧ MP p b x))
    (hQ : ∀ b x, MQ p' b x ↔ (b = a ∧ NQ x) ∨ (b ≠ a ∧ MQ p b x))
    (hpart : ∀ x, (MP p a x ∨ MQ p a x) ↔ (NP x ∨ NQ x ∨ x ∈ S))
    (hdisj : ∀ x ∈ S, ¬ NP x ∧ ¬ NQ x) : Del p p' := by
  refine ⟨fun x => S.any (fun y => x.id == y.id), hall, ?_⟩
  intro x
  have hSl : ∀ y ∈ S, Listed p y := by
    intro y hy
    rcases (hpart y).mpr (Or.inr (Or.inr hy)) with h1 | h1
    · exact Listed_of_MP h1
    · exact Listed_of_MQ h1
  have hSa : ∀ y ∈ S, y.sender = a := by
    intro y hy
    rcases (hpart y).mpr (Or.inr (Or.inr hy)) with h1 | h1
    · exact h.MP_sender h1
    · exact h.MQ_sender h1
  rw [Listed_iff, Listed_iff]
  constructor
  · rintro ⟨b, hb⟩
    have hl : Listed p x ∧ (x ∈ S → False) := by
      rcases hb with hb | hb
      · rcases (hP b x).mp hb with ⟨_, hx⟩ | ⟨hne, hx⟩
        · refine ⟨?_, fun hxs => (hdisj x hxs).1 hx⟩
          rcases (hpart x).mpr (Or.inl hx) with h1 | h1
          · exact Listed_of_MP h1
          · exact Listed_of_MQ h1
        · exact ⟨Listed_of_MP hx, fun hxs => hne ((h.MP_sender hx).symm.trans (hSa x hxs))⟩
      · rcases (hQ b x).mp hb with ⟨_, hx⟩ | ⟨hne, hx⟩
        · refine ⟨?_, fun hxs => (hdisj x hxs).2 hx⟩
          rcases (hpart x).mpr (Or.inr (Or.inl hx)) with h1 | h1
          · exact Listed_of_MP h1
          · exact Listed_of_MQ h1
        · exact ⟨Listed_of_MQ hx, fun hxs => hne ((h.MQ_sender hx).symm.trans (hSa x hxs))⟩
    refine ⟨(Listed_iff p x).mp hl.1, ?_⟩
    show S.any (fun y => x.id == y.id) = false
    rw [Bool.eq_false_iff]
    intro hany
    obtain ⟨y, hy, hid⟩ := List.any_eq_true.mp hany
    have : x = y := h.listed_id hl.1 (hSl y hy) (by simpa using hid)
    rw [this] at hl
    exact hl.2 hy
  · rintro ⟨⟨b, hb⟩, hd⟩
    have hd' : S.any (fun y => x.id == y.id) = false := hd
    have hns : ¬ x ∈ S := by
      intro hxs
      have : S.any (fun y => x.id == y.id) = true := List.any_eq_true.mpr ⟨x, hxs, by simp⟩
      rw [hd'] at this; cases this
    by_cases hba : b = a
    · rw [hba] at hb
      rcases (hpart x).mp hb with h1 | h1 | h1
      · exact ⟨a, Or.inl ((hP a x).mpr (Or.inl ⟨rfl, h1⟩))⟩
      · exact ⟨a, Or.inr ((hQ a x).mpr (Or.inl ⟨rfl, h1⟩))⟩
      · exact absurd h1 hns
    · rcases hb with hb | hb
      · exact ⟨b, Or.inl ((hP b x).mpr (Or.inr ⟨hba, hb⟩))⟩
      · exact ⟨b, Or.inr ((hQ b x).mpr (Or.inr ⟨hba, hb⟩))⟩

/-! ## queued lists stay non-strict -/

theorem QNS.frame {p p' : Pool} (h : QNS p) (hq : p'.queue = p.queue) : QNS p' := by
  unfold QNS at *; rw [hq]; exact h

theorem QNS.set {p : Pool} (h : QNS p) (a : Nat) (l : TxList) (hl : l.strict = false) :
    QNS ({ p with queue := amSet p.queue a l } : Pool) := by
  intro b l' hb
  by_cases hba : b = a
  · subst hba; simp only [amGet_amSet_self] at hb; cases hb; exact hl
  · simp only [amGet_amSet_other _ _ hba] at hb; exact h b l' hb

theorem QNS.erase {p : Pool} (h : QNS p) (a : Nat) :
    QNS ({ p with queue := amErase p.queue a } : Pool) := by
  intro b l' hb
  by_cases hba : b = a
  · subst hba; simp only [amGet_amErase_self] at hb; cases hb
  · simp only [amGet_amErase_other _ hba] at hb; exact h b l' hb

theorem QNS.finish {p4 : Pool} (h : QNS p4) (a : Nat) (l : TxList) (hl : l.strict = false) :
    QNS (if l.isEmpty then { p4 with queue := amErase p4.queue a }
         else { p4 with queue := amSet p4.queue a l }) := by
  split
  · exact h.erase a
  · exact h.set a l hl

theorem QNS_enqueueTx {p : Pool} (h : QNS p) (t : Tx) (loc addAll : Bool) : QNS (p.enqueueTx t loc addAll).1 := by
  have hL : ((amGet p.queue t.sender).getD (TxList.new false)).strict = false := by
    cases hg : amGet p.queue t.sender with
    | none => rfl
    | some l => exact h _ _ hg
  rcases enqueueTx_queue_cases p t loc addAll with hq | hq
  · intro b l hl
    rw [hq] at hl
    exact (h.set t.sender _ hL) b l hl
  · intro b l hl
    rw [hq] at hl
    exact (h.set t.sender _ (by rw [add_strict]; exact hL)) b l hl

theorem QNS_enqueueL {p : Pool} (h : QNS p) (ts : List Tx) :
    QNS (ts.foldl (fun q t => (q.enqueueTx t false false).1) p) :=
  foldl_inv QNS _ ts p h (fun _ x _ hs => QNS_enqueueTx hs x false false)

theorem QNS_removeTx {p : Pool} (h : QNS p) (t : Tx) : QNS (p.removeTx t) := by
  unfold removeTx
  split
  · exact h
  · have hvia : QNS (match amGet (p.allRemove t).queue t.sender with
        | none => p.allRemove t
        | some ql =>
          if (ql.remove t.nonce).1.isEmpty then { p.allRemove t with queue := amErase (p.allRemove t).queue t.sender }
          else { p.allRemove t with queue := amSet (p.allRemove t).queue t.sender (ql.remove t.nonce).1 }) := by
      have h0 : QNS (p.allRemove t) := h.frame rfl
      split
      · exact h0
      · rename_i ql hql
        exact h0.finish _ _ (by rw [remove_strict]; exact h0 _ _ hql)
    simp only
    split
    · exact hvia
    · split
      · refine QNS.frame ?_ (pnSetIfLower_queue _ _ _)
        apply QNS_enqueueL
        exact (h.frame (p' := p.allRemove t) rfl).frame (finishPending_queue _ _ _)
      · exact hvia

theorem QNS_removeL {p : Pool} (h : QNS p) (ts : List Tx) : QNS (ts.foldl removeTx p) :=
  foldl_inv QNS removeTx ts p h (fun _ x _ hs => QNS_removeTx hs x)

/-! ## dropLastPending -/

theorem dropFold_spec (a : Nat) (ts : List Tx) (q : Pool) :
    (ts.foldl (fun (q : Pool) t => (q.allRemove t).pnSetIfLower a t.nonce) q).all =
        q.all.filter (fun e => !(ts.any (fun t => e.1.id == t.id))) ∧
    (ts.foldl (fun (q : Pool) t => (q.allRemove t).pnSetIfLower a t.nonce) q).pending = q.pending ∧
    (ts.foldl (fun (q : Pool) t => (q.allRemove t).pnSetIfLower a t.nonce) q).queue = q.queue := by
  induction ts generalizing q with
  | nil => simp [filter_true']
  | cons t rest ih =>
    obtain ⟨i1, i2, i3⟩ := ih ((q.allRemove t).pnSetIfLower a t.nonce)
    simp only [List.foldl_cons]
    refine ⟨?_, by rw [i2, pnSetIfLower_pending]; rfl, by rw [i3, pnSetIfLower_queue]; rfl⟩
    rw [i1, pnSetIfLower_all]
    simp only [allRemove, List.filter_filter, List.any_cons]
    congr 1
    funext e
    simp [Bool.and_comm]

theorem MQ_self_form (p : Pool) (a b : Nat) (x : Tx) :
    MQ p b x ↔ (b = a ∧ MQ p a x) ∨ (b ≠ a ∧ MQ p b x) := by
  by_cases hb : b = a
  · subst hb; simp
  · simp [hb]

theorem MP_self_form (p : Pool) (a b : Nat) (x : Tx) :
    MP p b x ↔ (b = a ∧ MP p a x) ∨ (b ≠ a ∧ MP p b x) := by
  by_cases hb : b = a
  · subst hb; simp
  · simp [hb]

theorem MP_of_get {p : Pool} {a : Nat} {l : TxList} (hl : amGet p.pending a = some l) (x : Tx) :
    MP p a x ↔ x ∈ l.txs := by
  unfold MP; rw [hl]; simp
theorem MQ_of_get {p : Pool} {a : Nat} {l : TxList} (hl : amGet p.queue a = some l) (x : Tx) :
    MQ p a x ↔ x ∈ l.txs := by
  unfold MQ; rw [hl]; simp

theorem dropLastPending_del {p : Pool} (h : AL Φ p) (a : Nat) : Del p (p.dropLastPending a) := by
  unfold dropLastPending
  split
  · exact Del.refl p
  · rename_i list hlist
    simp only
    obtain ⟨f1, f2, f3⟩ := dropFold_spec a (list.cap (list.len - 1)).2
      ({ p with pending := amSet p.pending a (list.cap (list.len - 1)).1 } : Pool)
    have hsorted := (h.good.pend a list hlist).1.1
    refine reshape_del h a (list.cap (list.len - 1)).2 (fun x => x ∈ (list.cap (list.len - 1)).1.txs)
      (fun x => MQ p a x) ?_ ?_ ?_ ?_ ?_
    · rw [f1]; exact map_filter_fst p.all (fun x => !((list.cap (list.len - 1)).2.any (fun t => x.id == t.id)))
    · intro b x
      rw [MP_congr f2, MP_set]
    · intro b x
      rw [MQ_congr f3]
      exact MQ_self_form p a b x
    · intro x
      rw [MP_of_get hlist, cap_part list (list.len - 1) x]
      constructor
      · rintro ((h1 | h1) | h1)
        · exact Or.inl h1
        · exact Or.inr (Or.inr h1)
        · exact Or.inr (Or.inl h1)
      · rintro (h1 | h1 | h1)
        · exact Or.inl (Or.inl h1)
        · exact Or.inr h1
        · exact Or.inl (Or.inr h1)
    · intro x hx
      refine ⟨fun hx1 => cap_disj hsorted _ x hx1 x hx rfl, fun hq => ?_⟩
      exact h.not_MP_MQ ((MP_of_get hlist x).mpr ((cap_part list _ x).mpr (Or.inr hx))) hq

/-! ## promoteAccount -/

theorem ready_strict (l : TxList) (s : Nat) : (l.ready s).1.strict = l.strict := by
  unfold TxList.ready; repeat' split
  all_goals rfl

theorem ready_run_sublist (l : TxList) (s : Nat) : (l.ready s).2.Sublist l.txs := by
  have := ready_split l s
  rw [← this]
  exact List.sublist_append_left _ _

theorem allRemoveL_all_map (ts : List Tx) (p : Pool) :
    (p.allRemoveL ts).all.map (·.1) = (p.all.map (·.1)).filter (fun x => !(ts.any (fun t => x.id == t.id))) := by
  rw [allRemoveL_all]
  exact map_filter_fst p.all (fun x => !(ts.any (fun t => x.id == t.id)))

theorem promoteAccount_del {p : Pool} (h : AL Φ p) (a : Nat) : Del p (p.promoteAccount a) := by
  unfold promoteAccount
  split
  · exact Del.refl p
  · rename_i list hlist
    have hl0 := h.good.que a list hlist
    have hns := h.qns a list hlist
    simp only
    -- Forward
    have F_part := forward_part list (p.stateNonce a)
    have F_excl := forward_excl list (p.stateNonce a)
    have F_wf : (list.forward (p.stateNonce a)).1.WF := wf_forward _ _ hl0.1
    have F_ns : (list.forward (p.stateNonce a)).1.strict = false := by rw [forward_strict]; exact hns
    generalize list.forward (p.stateNonce a) = F at *
    -- Filter
    have D_part := fun x => filter_part_nonstrict F.1 F_ns (p.balance a) p.chain.gasLimit x
    have D_wf : (F.1.filter (p.balance a) p.chain.gasLimit).1.WF := wf_filter _ _ _ F_wf
    generalize F.1.filter (p.balance a) p.chain.gasLimit = D at *
    -- the pool after the first two index removals
    have p2all := allRemoveL_all_map D.2.1 (p.allRemoveL F.2)
    rw [allRemoveL_all_map F.2 p, List.filter_filter] at p2all
    have p2P : ((p.allRemoveL F.2).allRemoveL D.2.1).pending = p.pending := by
      rw [allRemoveL_pending, allRemoveL_pending]
    have p2Q : ((p.allRemoveL F.2).allRemoveL D.2.1).queue = p.queue := by
      rw [allRemoveL_queue, allRemoveL_queue]
    generalize ((p.allRemoveL F.2).allRemoveL D.2.1).pnGet a = st at *
    -- Ready
    have R_part := ready_part D.1 st
    have R_disj := ready_disj D.1 D_wf.1 st
    have R_dist : NoncesDistinct (D.1.ready st).2 :=
      (NoncesDistinct.of_sorted D_wf.1).sublist (ready_run_sublist _ _)
    have R_wf : (D.1.ready st).1.WF := wf_ready _ _ D_wf
    generalize D.1.ready st = R at *
    -- the promotion fold
    have hpl := promoteL_fresh a R.2 ((p.allRemoveL F.2).allRemoveL D.2.1) R_dist (by
      intro x hx y hy
      have hy' : MP p a y := (MP_congr p2P a y).mp hy
      have hxq : MQ p a x := (MQ_of_get hlist x).mpr
        ((F_part x).mpr (Or.inl (((D_part x).1).mpr (Or.inl ((R_part x).mpr (Or.inl hx))))))
      exact h.PQ_nonce hy' hxq)
    obtain ⟨g1, g2, g3⟩ := hpl
    generalize R.2.foldl (fun q t => q.promoteTx a t) ((p.allRemoveL F.2).allRemoveL D.2.1) = P3 at *
    -- Cap
    have C_part := fun x => capIf_part (l := R.1) ((!P3.isLocalAcc a) = true) P3.cfg.accountQueue x
    have C_disj := capIf_disj (l := R.1) R_wf.1 ((!P3.isLocalAcc a) = true) P3.cfg.accountQueue
    generalize (if (!P3.isLocalAcc a) = true then R.1.cap P3.cfg.accountQueue else (R.1, [])) = C at *
    have p4all := allRemoveL_all_map C.2 P3
    rw [g1, p2all, List.filter_filter] at p4all
    refine reshape_del h a (C.2 ++ (D.2.1 ++ F.2)) (fun x => MP p a x ∨ x ∈ R.2) (fun x => x ∈ C.1.txs)
      ?_ ?_ ?_ ?_ ?_
    · rw [finishQueue_all, p4all]
      congr 1
      funext x
      simp [List.any_append, Bool.and_comm]
    · intro b x
      rw [MP_congr (finishQueue_pending _ _ _), MP_congr (allRemoveL_pending _ _), g3, MP_congr p2P]
      by_cases hb : b = a
      · subst hb; simp
      · simp [hb]
    · intro b x
      rw [MQ_finish, MQ_congr (allRemoveL_queue _ _), MQ_congr g2, MQ_congr p2Q]
    · intro x
      rw [MQ_of_get hlist x, F_part x, (D_part x).1, R_part x, C_part x]
      simp only [List.mem_append]
      constructor
      · rintro (h1 | (((h1 | h1 | h1) | h1) | h1))
        · exact Or.inl (Or.inl h1)
        · exact Or.inl (Or.inr h1)
        · exact Or.inr (Or.inl h1)
        · exact Or.inr (Or.inr (Or.inl h1))
        · exact Or.inr (Or.inr (Or.inr (Or.inl h1)))
        · exact Or.inr (Or.inr (Or.inr (Or.inr h1)))
      · rintro ((h1 | h1) | h1 | h1 | h1 | h1)
        · exact Or.inl h1
        · exact Or.inr (Or.inl (Or.inl (Or.inl h1)))
        · exact Or.inr (Or.inl (Or.inl (Or.inr (Or.inl h1))))
        · exact Or.inr (Or.inl (Or.inl (Or.inr (Or.inr h1))))
        · exact Or.inr (Or.inl (Or.inr h1))
        · exact Or.inr (Or.inr h1)
    · intro x hx
      simp only [List.mem_append] at hx
      -- every deleted transaction is a member of the queued list, hence not pending
      have hxl : x ∈ list.txs := by
        rcases hx with h1 | h1 | h1
        · exact (F_part x).mpr (Or.inl (((D_part x).1).mpr (Or.inl ((R_part x).mpr (Or.inr ((C_part x).mpr (Or.inr h1)))))))
        · exact (F_part x).mpr (Or.inl (((D_part x).1).mpr (Or.inr h1)))
        · exact (F_part x).mpr (Or.inr h1)
      have hnotP : ¬ MP p a x := fun hp => h.not_MP_MQ hp ((MQ_of_get hlist x).mpr hxl)
      refine ⟨?_, ?_⟩
      · rintro (h1 | h1)
        · exact hnotP h1
        · -- x in the ready run
          rcases hx with h2 | h2 | h2
          · exact Nat.lt_irrefl _ (R_disj x h1 x ((C_part x).mpr (Or.inr h2)))
          · exact (D_part x).2.1 h2 ((R_part x).mpr (Or.inl h1))
          · exact F_excl x h2 (((D_part x).1).mpr (Or.inl ((R_part x).mpr (Or.inl h1))))
      · intro h1
        rcases hx with h2 | h2 | h2
        · exact C_disj x h1 x h2 rfl
        · exact (D_part x).2.1 h2 ((R_part x).mpr (Or.inr ((C_part x).mpr (Or.inl h1))))
        · exact F_excl x h2 (((D_part x).1).mpr (Or.inl ((R_part x).mpr (Or.inr ((C_part x).mpr (Or.inl h1))))))

/-! ## demoteAccount -/

theorem filter_invalids_sublist (l : TxList) (c g : Nat) : (l.filter c g).2.2.Sublist l.txs := by
  unfold TxList.filter
  split
  · simp
  · simp only
    split
    · simp
    · split
      · exact List.Sublist.trans List.filter_sublist List.filter_sublist
      · simp

theorem capIf_drops_distinct {l : TxList} (hs : Sorted l.txs) (P : Prop) [Decidable P] (k : Nat) :
    NoncesDistinct (if P then l.cap k else (l, [])).2 := by
  split
  · unfold TxList.cap
    split
    · simp [NoncesDistinct]
    · exact ((NoncesDistinct.of_sorted hs).sublist (List.drop_sublist _ _)).reverse
  · simp [NoncesDistinct]

theorem demoteAccount_del {p : Pool} (h : AL Φ p) (a : Nat) : Del p (p.demoteAccount a) := by
  unfold demoteAccount
  split
  · exact Del.refl p
  · rename_i list hlist
    have hl0 := h.good.pend a list hlist
    have hsnd : ∀ x ∈ list.txs, x.sender = a := fun x hx => h.MP_sender ((MP_of_get hlist x).mpr hx)
    have hnotQ : ∀ x ∈ list.txs, ∀ y, MQ p a y → y.nonce ≠ x.nonce :=
      fun x hx y hy => (h.PQ_nonce ((MP_of_get hlist x).mpr hx) hy).symm
    simp only
    -- Forward
    have F_part := forward_part list (p.stateNonce a)
    have F_excl := forward_excl list (p.stateNonce a)
    have F_wf : (list.forward (p.stateNonce a)).1.WF := wf_forward _ _ hl0.1
    generalize list.forward (p.stateNonce a) = F at *
    -- Filter
    have D_part := fun x => filter_part F.1 (p.balance a) p.chain.gasLimit x
    have D_wf : (F.1.filter (p.balance a) p.chain.gasLimit).1.WF := wf_filter _ _ _ F_wf
    have D_disj := filter_disj F.1 (p.balance a) p.chain.gasLimit
    have D_inv_dist : NoncesDistinct (F.1.filter (p.balance a) p.chain.gasLimit).2.2 :=
      (NoncesDistinct.of_sorted F_wf.1).sublist (filter_invalids_sublist _ _ _)
    generalize F.1.filter (p.balance a) p.chain.gasLimit = D at *
    have hD22 : ∀ x ∈ D.2.2, x ∈ list.txs :=
      fun x hx => (F_part x).mpr (Or.inl (((D_part x).1).mpr (Or.inr (Or.inr hx))))
    have hD1 : ∀ x ∈ D.1.txs, x ∈ list.txs :=
      fun x hx => (F_part x).mpr (Or.inl (((D_part x).1).mpr (Or.inl hx)))
    -- the pool after the index removals
    have p2all := allRemoveL_all_map D.2.1 (p.allRemoveL F.2)
    rw [allRemoveL_all_map F.2 p, List.filter_filter] at p2all
    have p2P : ((p.allRemoveL F.2).allRemoveL D.2.1).pending = p.pending := by
      rw [allRemoveL_pending, allRemoveL_pending]
    have p2Q : ((p.allRemoveL F.2).allRemoveL D.2.1).queue = p.queue := by
      rw [allRemoveL_queue, allRemoveL_queue]
    -- first re-queueing fold
    have he := enqueueL_fresh a D.2.2 ((p.allRemoveL F.2).allRemoveL D.2.1)
      (fun x hx => hsnd x (hD22 x hx)) D_inv_dist (by
        intro x hx y hy
        exact hnotQ x (hD22 x hx) y ((MQ_congr p2Q a y).mp hy))
    obtain ⟨e1, e2, e3⟩ := he
    generalize D.2.2.foldl (fun q t => (q.enqueueTx t false false).1) ((p.allRemoveL F.2).allRemoveL D.2.1) = P3 at *
    -- the contiguous-run cap
    have G_part := fun x => capIf_part (l := D.1) (D.1.len > countRun D.1.len D.1 (p.stateNonce a))
      (countRun D.1.len D.1 (p.stateNonce a)) x
    have G_disj := capIf_disj (l := D.1) D_wf.1 (D.1.len > countRun D.1.len D.1 (p.stateNonce a))
      (countRun D.1.len D.1 (p.stateNonce a))
    have G_dist := capIf_drops_distinct (l := D.1) D_wf.1 (D.1.len > countRun D.1.len D.1 (p.stateNonce a))
      (countRun D.1.len D.1 (p.stateNonce a))
    generalize (if D.1.len > countRun D.1.len D.1 (p.stateNonce a) then D.1.cap (countRun D.1.len D.1 (p.stateNonce a))
      else (D.1, [])) = G at *
    have hG2 : ∀ x ∈ G.2, x ∈ D.1.txs := fun x hx => (G_part x).mpr (Or.inr hx)
    -- second re-queueing fold
    have he' := enqueueL_fresh a G.2 P3 (fun x hx => hsnd x (hD1 x (hG2 x hx))) G_dist (by
      intro x hx y hy
      rcases (e3 a y).mp hy with hy | ⟨_, hy⟩
      · exact hnotQ x (hD1 x (hG2 x hx)) y ((MQ_congr p2Q a y).mp hy)
      · exact (D_disj x (hG2 x hx) y hy).symm)
    obtain ⟨e1', e2', e3'⟩ := he'
    refine reshape_del h a (D.2.1 ++ F.2) (fun x => x ∈ G.1.txs) (fun x => MQ p a x ∨ x ∈ D.2.2 ∨ x ∈ G.2)
      ?_ ?_ ?_ ?_ ?_
    · rw [finishPending_all, e1', e1, p2all]
      congr 1
      funext x
      simp [List.any_append, Bool.and_comm]
    · intro b x
      rw [MP_finish, MP_congr e2', MP_congr e2, MP_congr p2P]
    · intro b x
      rw [MQ_congr (finishPending_queue _ _ _), e3', e3, MQ_congr p2Q]
      by_cases hb : b = a
      · subst hb
        simp only [true_and, ne_eq, not_true_eq_false, false_and, or_false]
        constructor
        · rintro ((h1 | h1) | h1)
          · exact Or.inl h1
          · exact Or.inr (Or.inl h1)
          · exact Or.inr (Or.inr h1)
        · rintro (h1 | h1 | h1)
          · exact Or.inl (Or.inl h1)
          · exact Or.inl (Or.inr h1)
          · exact Or.inr h1
      · simp [hb]
    · intro x
      rw [MP_of_get hlist x, F_part x, (D_part x).1, G_part x]
      simp only [List.mem_append]
      constructor
      · rintro ((((h1 | h1) | h1 | h1) | h1) | h1)
        · exact Or.inl h1
        · exact Or.inr (Or.inl (Or.inr (Or.inr h1)))
        · exact Or.inr (Or.inr (Or.inl h1))
        · exact Or.inr (Or.inl (Or.inr (Or.inl h1)))
        · exact Or.inr (Or.inr (Or.inr h1))
        · exact Or.inr (Or.inl (Or.inl h1))
      · rintro (h1 | (h1 | h1 | h1) | h1 | h1)
        · exact Or.inl (Or.inl (Or.inl (Or.inl h1)))
        · exact Or.inr h1
        · exact Or.inl (Or.inl (Or.inr (Or.inr h1)))
        · exact Or.inl (Or.inl (Or.inl (Or.inr h1)))
        · exact Or.inl (Or.inl (Or.inr (Or.inl h1)))
        · exact Or.inl (Or.inr h1)
    · intro x hx
      simp only [List.mem_append] at hx
      have hxl : x ∈ list.txs := by
        rcases hx with h1 | h1
        · exact (F_part x).mpr (Or.inl (((D_part x).1).mpr (Or.inr (Or.inl h1))))
        · exact (F_part x).mpr (Or.inr h1)
      have hnotQ' : ¬ MQ p a x := fun hq => h.not_MP_MQ ((MP_of_get hlist x).mpr hxl) hq
      refine ⟨?_, ?_⟩
      · intro h1
        have hd1 : x ∈ D.1.txs := (G_part x).mpr (Or.inl h1)
        rcases hx with h2 | h2
        · exact ((D_part x).2 h2).1 hd1
        · exact F_excl x h2 (((D_part x).1).mpr (Or.inl hd1))
      · rintro (h1 | h1 | h1)
        · exact hnotQ' h1
        · rcases hx with h2 | h2
          · exact ((D_part x).2 h2).2 h1
          · exact F_excl x h2 (((D_part x).1).mpr (Or.inr (Or.inr h1)))
        · have hd1 : x ∈ D.1.txs := hG2 x h1
          rcases hx with h2 | h2
          · exact ((D_part x).2 h2).1 hd1
          · exact F_excl x h2 (((D_part x).1).mpr (Or.inl hd1))

end Pool
end KV.TxPool
