import KV.Proofs.ValSetRescale
/-! `IncrementProposerPriority(k)` equals `Spec.increment k` for every `k` under one size bound
(C12 `model_refines_spec`, the `k`-independent form) -/
namespace KV.ValSet
open KV.I64

theorem forall_of_map_eq {β} (f : Validator → β) (P : β → Prop) (l l' : List Validator)
    (h : l'.map f = l.map f) (hp : ∀ v ∈ l, P (f v)) : ∀ v ∈ l', P (f v) := by
  intro v hv
  have : f v ∈ l'.map f := List.mem_map_of_mem (f := f) hv
  rw [h] at this
  obtain ⟨v0, hv0, e⟩ := List.mem_map.mp this
  rw [← e]; exact hp v0 hv0

theorem length_of_map_eq {β} (f : Validator → β) (l l' : List Validator) (h : l'.map f = l.map f) :
    l'.length = l.length := by
  have := congrArg List.length h; simpa using this

/-- the state after the normalisation (rescale into the window `2T`, centre) of a well-formed set:
distinct addresses, the same powers, centred, every priority in `[−2T, 2T]` -/
theorem normalised_inv (l : List Validator) (T : Int) (hne : l ≠ [])
    (hn : (l.map (·.addr)).Nodup) (hpos : ∀ v ∈ l, 0 < v.power) (htot : T = Spec.total l)
    (hok : RescaleOK (2 * T) l) :
    RunInv T (fun _ => -(2 * T)) (Spec.centre (rescaleList (2 * T) l)) ∧
    sumPrio (Spec.centre (rescaleList (2 * T) l)) < (Spec.centre (rescaleList (2 * T) l)).length ∧
    (Spec.centre (rescaleList (2 * T) l)).length = l.length := by
  have htpos : 0 < T := by rw [htot]; exact total_pos l hne hpos
  have ha : (Spec.centre (rescaleList (2 * T) l)).map (·.addr) = l.map (·.addr) := by
    rw [Spec.centre_addr, rescaleList_addr]
  have hp : (Spec.centre (rescaleList (2 * T) l)).map (·.power) = l.map (·.power) := by
    rw [Spec.centre_power, rescaleList_power]
  have hlen1 : (rescaleList (2 * T) l).length = l.length :=
    length_of_map_eq (·.addr) _ _ (rescaleList_addr _ l)
  have hlen := length_of_map_eq (·.addr) _ _ ha
  have hne1 : rescaleList (2 * T) l ≠ [] := by
    intro e; rw [e] at hlen1
    cases l with | nil => exact hne rfl | cons _ _ => simp at hlen1
  have hne0 : Spec.centre (rescaleList (2 * T) l) ≠ [] := by
    intro e; rw [e] at hlen
    cases l with | nil => exact hne rfl | cons _ _ => simp at hlen
  have hc := Spec.centre_sum (rescaleList (2 * T) l) hne1
  have hc' : 0 ≤ sumPrio (Spec.centre (rescaleList (2 * T) l)) ∧
      sumPrio (Spec.centre (rescaleList (2 * T) l)) < (Spec.centre (rescaleList (2 * T) l)).length := by
    rw [hlen, ← hlen1]; exact hc
  have hw := Spec.centre_window _ (2 * T) (rescaleList_window (2 * T) l hok)
  have hb := centred_window_bound _ (2 * T) hc' hw
  refine ⟨RunInv.of_const T (2 * T) _ hne0 (by rw [ha]; exact hn) ?_ ?_ htpos hc'.1 (by omega)
    (fun v hv => (hb v hv).1), hc'.2, hlen⟩
  · unfold Spec.total; rw [hp]; exact htot
  · exact forall_of_map_eq (·.power) (fun p => 0 ≤ p) l _ hp (fun v hv => Int.le_of_lt (hpos v hv))

/-- **`model_refines_spec`, sharp form**: distinct addresses, positive powers, cached total
`= Σ power`, priorities in `[−B, B]`; the normalisation needs `2B + 2T < 2^63`, the rounds need
`n + 2·n·T + 2T < 2^63` (after the normalisation every priority is in `[−2T, 2T]` whatever `B` was;
the priority sum is constant and no priority falls below `−2T`, hence none exceeds `n + 2nT`).  Then
`IncrementProposerPriority(k)` is the unbounded specification for **every** `k ≥ 1`. -/
theorem increment_refines_spec_sharp (vs : ValSet) (k : Nat) (B : Int)
    (hn : (vs.vals.map (·.addr)).Nodup) (hpos : ∀ v ∈ vs.vals, 0 < v.power)
    (htot : vs.total = Spec.total vs.vals)
    (hne : vs.vals ≠ []) (hk : 0 < k) (hb : PrioBound B vs.vals)
    (hfitB : 2 * B + 2 * vs.total ≤ maxI64)
    (hfit : (vs.vals.length : Int) + 2 * ((vs.vals.length : Int) * vs.total) + 2 * vs.total ≤ maxI64) :
    increment vs k = .ok { vals := (Spec.increment vs.vals k).1,
                           proposer := (Spec.increment vs.vals k).2, total := vs.total } := by
  have htpos : 0 < vs.total := by rw [htot]; exact total_pos _ hne hpos
  have hnpos := length_pos_int vs.vals hne
  have hnT : 1 * vs.total ≤ (vs.vals.length : Int) * vs.total :=
    Int.mul_le_mul_of_nonneg_right (by omega) (by omega)
  rw [Int.one_mul] at hnT
  obtain ⟨x, hx⟩ : ∃ x, x ∈ vs.vals := by
    cases h : vs.vals with
    | nil => exact absurd h hne
    | cons y _ => exact ⟨y, List.mem_cons_self⟩
  have hB0 : 0 ≤ B := by have := hb x hx; omega
  -- the window
  have eD : I64.mul windowFactor vs.total = 2 * vs.total := by
    unfold windowFactor
    exact I64.mul_exact _ _ (by unfold InRange minI64; unfold maxI64 at hfit ⊢; omega)
  have hr : ∀ v ∈ vs.vals, InRange v.prio := fun v hv => by
    have := hb v hv; unfold InRange minI64; unfold maxI64 at hfitB ⊢; omega
  have hok : RescaleOK (2 * vs.total) vs.vals := by
    refine ⟨hne, hr, by omega, by unfold maxI64 at hfit ⊢; omega, ?_⟩
    obtain ⟨u, hu, e1⟩ := maxPrio_mem vs.vals hne hr
    obtain ⟨w, hw, e2⟩ := minPrio_mem vs.vals hne hr
    have := hb u hu; have := hb w hw
    omega
  have hpanic : rescalePanics (I64.mul windowFactor vs.total) vs.vals = false := by
    rw [eD]; exact rescalePanics_false _ _ (by unfold maxI64 at hfit; omega)
  have hb1 := rescaleList_bound (2 * vs.total) B vs.vals hok hb
  obtain ⟨hinv, hsn, hlen⟩ := normalised_inv vs.vals vs.total hne hn hpos htot hok
  have hlen1 : (rescaleList (2 * vs.total) vs.vals).length = vs.vals.length :=
    length_of_map_eq (·.addr) _ _ (rescaleList_addr _ _)
  have hne1 : rescaleList (2 * vs.total) vs.vals ≠ [] := by
    intro e; rw [e] at hlen1; simp at hlen1; omega
  have eshift : shiftList (rescaleList (2 * vs.total) vs.vals) =
      Spec.centre (rescaleList (2 * vs.total) vs.vals) :=
    shiftList_eq_spec B _ hne1 hb1 (by omega)
  have esteps := stepsList_eq_spec_inv vs.total (2 * vs.total) k _ none hinv (by omega) hsn (by
    rw [hlen, Int.mul_left_comm]; omega)
  rw [increment_eq vs (k : Int) hne (by omega) (by omega) hpanic, eD, eshift]
  have hk' : ((k : Nat) : Int).toNat = k := by omega
  rw [hk', esteps, rescaleList_eq_spec _ _ hok]
  unfold Spec.increment
  simp only [← htot]

/-- **`model_refines_spec`, `k`-independent** (the form of `ModelRefinesSpecStatement`): one bound
`2·n·max(B, T) + n + 2T < 2^62`. -/
theorem increment_refines_spec (vs : ValSet) (k : Nat) (B : Int)
    (hn : (vs.vals.map (·.addr)).Nodup) (hpos : ∀ v ∈ vs.vals, 0 < v.power)
    (htot : vs.total = Spec.total vs.vals)
    (hne : vs.vals ≠ []) (hk : 0 < k) (hb : PrioBound B vs.vals)
    (hfit : 2 * (vs.vals.length : Int) * (max B vs.total) + vs.vals.length + 2 * vs.total < 2 ^ 62) :
    increment vs k = .ok { vals := (Spec.increment vs.vals k).1,
                           proposer := (Spec.increment vs.vals k).2, total := vs.total } := by
  have htpos : 0 < vs.total := by rw [htot]; exact total_pos _ hne hpos
  have hnpos := length_pos_int vs.vals hne
  have hp62 : (2 : Int) ^ 62 = 4611686018427387904 := by decide
  rw [hp62, Int.mul_assoc] at hfit
  have hmaxB : B ≤ max B vs.total := by omega
  have hmaxT : vs.total ≤ max B vs.total := by omega
  generalize max B vs.total = M at hfit hmaxB hmaxT
  have hnM : 1 * M ≤ (vs.vals.length : Int) * M := Int.mul_le_mul_of_nonneg_right (by omega) (by omega)
  have hnT : (vs.vals.length : Int) * vs.total ≤ (vs.vals.length : Int) * M :=
    Int.mul_le_mul_of_nonneg_left hmaxT (by omega)
  rw [Int.one_mul] at hnM
  exact increment_refines_spec_sharp vs k B hn hpos htot hne hk hb (by unfold maxI64; omega)
    (by unfold maxI64; omega)

end KV.ValSet
