import KV.Proofs.ValSetRescale
/-! `IncrementProposerPriority(k)` equals `Spec.increment k` for every `k` under one size bound
(C12 `model_refines_spec`, the `k`-independent form) -/
namespace KV.ValSet
open KV.I64

theorem forall_of_map_eq {β} (f : Validator → β) (P : β → Prop) (l l' : List Validator)
    (h : l'.map f = l.map f) (hp : ∀ v ∈ l, P (f v)) : ∀ v ∈ l', P (f v) := by
  intro v hv
  have : f v ∈ l'.map f := List.mem_map_of_mem (f := f) hv
  rw [h] at this
  obtain ⟨v0, hv0, e⟩ := List.mem_map.mp this
  rw [← e]; exact hp v0 hv0

theorem length_of_map_eq {β} (f : Validator → β) (l l' : List Validator) (h : l'.map f = l.map f) :
    l'.length = l.length := by
  have := congrArg List.length h; simpa using this

/-- the state after the normalisation (rescale into the window `2T`, centre) of a well-formed set:
distinct addresses, the same powers, centred, every priority in `[−2T, 2T]` -/
theorem normalised_inv (l : List Validator) (T : Int) (hne : l ≠ [])
    (hn : (l.map (·.addr)).Nodup) (hpos : ∀ v ∈ l, 0 < v.power) (htot : T = Spec.total l)
    (hok : RescaleOK (2 * T) l) :
    RunInv T (fun _ => -(2 * T)) (Spec.centre (rescaleList (2 * T) l)) ∧
    sumPrio (Spec.centre (rescaleList (2 * T) l)) < (Spec.centre (rescaleList (2 * T) l)).length ∧
    (Spec.centre (rescaleList (2 * T) l)).length = l.length := by
  have htpos : 0 < T := by rw [htot]; exact total_pos l hne hpos
  have ha : (Spec.centre (rescaleList (2 * T) l)).map (·.addr) = l.map (·.addr) := by
    rw [Spec.centre_addr, rescaleList_addr]
  have hp : (Spec.centre (rescaleList (2 * T) l)).map (·.power) = l.map (·.power) := by
    rw [Spec.centre_power, rescaleList_power]
  have hlen1 : (rescaleList (2 * T) l).length = l.length :=
    length_of_map_eq (·.addr) _ _ (rescaleList_addr _ l)
  have hlen := length_of_map_eq (·.addr) _ _ ha
  have hne1 : rescaleList (2 * T) l ≠ [] := by
    intro e; rw [e] at hlen1
    cases l with | nil => exact hne rfl | cons _ _ => simp at hlen1
  have hne0 : Spec.centre (rescaleList (2 * T) l) ≠ [] := by
    intro e; rw [e] at hlen
    cases l with | nil => exact hne rfl | cons _ _ => simp at hlen
  have hc := Spec.centre_sum (rescaleList (2 * T) l) hne1
  have hc' : 0 ≤ sumPrio (Spec.centre (rescaleList (2 * T) l)) ∧
      sumPrio (Spec.centre (rescaleList (2 * T) l)) < (Spec.centre (rescaleList (2 * T) l)).length := by
    rw [hlen, ← hlen1]; exact hc
  have hw := Spec.centre_window _ (2 * T) (rescaleList_window (2 * T) l hok)
  have hb := centred_window_bound _ (2 * T) hc' hw
  refine ⟨RunInv.of_const T (2 * T) _ hne0 (by rw [ha]; exact hn) ?_ ?_ htpos hc'.1 (by omega)
    (fun v hv => (hb v hv).1), hc'.2, hlen⟩
  · unfold Spec.total; rw [hp]; exact htot
  · exact forall_of_map_eq (·.power) (fun p => 0 ≤ p) l _ hp (fun v hv => Int.le_of_lt (hpos v hv))

/-- what is carried from one iteration of the loop to the next -/
structure IterCtx (T : Int) (l : List Validator) : Prop where
  ne : l ≠ []
  nodup : (l.map (·.addr)).Nodup
  pos : ∀ v ∈ l, 0 < v.power
  tot : T = Spec.total l

/-- **one iteration of the loop is one normalised specification round**: with priorities in
`[−B, B]`, `2B + 2T < 2^63` and `8T < 2^63` (always true for `T ≤ cap`) neither the rescale, nor
the centring, nor the round wraps or clips; afterwards every priority is in `[−3T, 3T]` (in
`[−2T, 2T]` after the normalisation, one round moves a priority by at most `T`). -/
theorem normStep_refines (T B : Int) (l : List Validator) (h : IterCtx T l) (hb : PrioBound B l)
    (hfitB : 2 * B + 2 * T ≤ maxI64) (hT8 : 8 * T ≤ maxI64) :
    normStep T (2 * T) l = some (Spec.normStep T l) ∧ IterCtx T (Spec.normStep T l).1 ∧
    PrioBound (3 * T) (Spec.normStep T l).1 ∧
    (0 ≤ sumPrio (Spec.normStep T l).1 ∧ sumPrio (Spec.normStep T l).1 < (Spec.normStep T l).1.length) := by
  obtain ⟨hne, hn, hpos, htot⟩ := h
  have htpos : 0 < T := by rw [htot]; exact total_pos _ hne hpos
  obtain ⟨x, hx⟩ : ∃ x, x ∈ l := by
    cases hl : l with
    | nil => exact absurd hl hne
    | cons y _ => exact ⟨y, List.mem_cons_self⟩
  have hB0 : 0 ≤ B := by have := hb x hx; omega
  have hr : ∀ v ∈ l, InRange v.prio := fun v hv => by
    have := hb v hv; unfold InRange minI64; unfold maxI64 at hfitB ⊢; omega
  have hok : RescaleOK (2 * T) l := by
    refine ⟨hne, hr, by omega, by omega, ?_⟩
    obtain ⟨u, hu, e1⟩ := maxPrio_mem l hne hr
    obtain ⟨w, hw, e2⟩ := minPrio_mem l hne hr
    have := hb u hu; have := hb w hw
    omega
  have hpanic : rescalePanics (2 * T) l = false :=
    rescalePanics_false _ _ (by unfold maxI64 at hT8; omega)
  have hb1 := rescaleList_bound (2 * T) B l hok hb
  obtain ⟨hinv, hsn, hlen⟩ := normalised_inv l T hne hn hpos htot hok
  have hlen1 : (rescaleList (2 * T) l).length = l.length :=
    length_of_map_eq (·.addr) _ _ (rescaleList_addr _ _)
  have hne1 : rescaleList (2 * T) l ≠ [] := by
    intro e; rw [e] at hlen1
    cases hl : l with
    | nil => exact hne hl
    | cons _ _ => rw [hl] at hlen1; simp at hlen1
  have eshift : shiftList (rescaleList (2 * T) l) = Spec.centre (rescaleList (2 * T) l) :=
    shiftList_eq_spec B _ hne1 hb1 (by omega)
  -- after the normalisation: [-2T, 2T]
  have hw := Spec.centre_window _ (2 * T) (rescaleList_window (2 * T) l hok)
  have hb0 : PrioBound (2 * T) (Spec.centre (rescaleList (2 * T) l)) :=
    centred_window_bound _ (2 * T) ⟨hinv.sum0, hsn⟩ hw
  have hp0 : PowBound T (Spec.centre (rescaleList (2 * T) l)) := by
    intro v hv
    refine ⟨hinv.pow v hv, ?_⟩
    have := power_le_total _ hinv.pow v hv
    rw [hinv.tot, total_eq_sumBy]; exact this
  have estep : stepList T (Spec.centre (rescaleList (2 * T) l)) =
      Spec.step T (Spec.centre (rescaleList (2 * T) l)) :=
    stepList_eq_spec (2 * T) T _ hb0 hp0 (by omega) (by omega)
  obtain ⟨hinv1, hs1, ha1, hp1⟩ := Spec.step_inv T _ _ hinv
  have hbound := (Spec.step_bound (2 * T) T _ hb0 hp0 (by omega)).1
  have eres := rescaleList_eq_spec _ _ hok
  have hnorm : Spec.normStep T l = Spec.step T (Spec.centre (rescaleList (2 * T) l)) := by
    unfold Spec.normStep; rw [eres]
  refine ⟨?_, ?_, ?_, ?_⟩
  · unfold normStep
    rw [hpanic, hnorm]
    simp only [Bool.false_eq_true, if_false, eshift, estep]
  · rw [hnorm]
    refine ⟨hinv1.ne, hinv1.nodup, ?_, hinv1.tot⟩
    have hpw : (Spec.step T (Spec.centre (rescaleList (2 * T) l))).1.map (·.power) = l.map (·.power) := by
      rw [hp1, Spec.centre_power, rescaleList_power]
    exact forall_of_map_eq (·.power) (fun p => 0 < p) l _ hpw hpos
  · rw [hnorm]
    have e3 : 2 * T + T = 3 * T := by omega
    rw [← e3]; exact hbound
  · rw [hnorm, hs1, length_of_map_eq (·.addr) _ _ ha1]
    exact ⟨hinv.sum0, hsn⟩

/-- **the loop is the specification's loop, for every number of iterations** -/
theorem normSteps_refines (T : Int) (k : Nat) (B : Int) (l : List Validator) (p : Option Nat)
    (h : IterCtx T l) (hb : PrioBound B l) (hfitB : 2 * B + 2 * T ≤ maxI64) (hT8 : 8 * T ≤ maxI64) :
    normSteps T (2 * T) k l p = some (Spec.normSteps T k l p) ∧
    IterCtx T (Spec.normSteps T k l p).1 ∧
    (1 ≤ k → PrioBound (3 * T) (Spec.normSteps T k l p).1 ∧
      (0 ≤ sumPrio (Spec.normSteps T k l p).1 ∧
        sumPrio (Spec.normSteps T k l p).1 < (Spec.normSteps T k l p).1.length)) := by
  induction k generalizing B l p with
  | zero => exact ⟨rfl, h, fun hk => by omega⟩
  | succ k ih =>
    obtain ⟨e1, h1, b1, c1⟩ := normStep_refines T B l h hb hfitB hT8
    obtain ⟨e2, h2, b2⟩ := ih (3 * T) (Spec.normStep T l).1 (Spec.normStep T l).2 h1 b1 (by omega)
    refine ⟨?_, h2, ?_⟩
    · simp only [normSteps, e1]
      exact e2
    · intro _
      by_cases hk0 : k = 0
      · subst hk0; exact ⟨b1, c1⟩
      · exact b2 (by omega)

/-- the **former rule** (one normalisation, then `k` rounds) against the specification's plain
rounds `Spec.steps` — kept because over a stretch without a rescale the present rule computes the
same (`increment_eq_incrementOld`), which is how the accounting theorems about `Spec.run` reach the
code.  The rounds need `n + 2·n·T + 2T < 2^63` here (nothing re-centres the window in between). -/
theorem incrementOld_refines_spec (vs : ValSet) (k : Nat) (B : Int)
    (hn : (vs.vals.map (·.addr)).Nodup) (hpos : ∀ v ∈ vs.vals, 0 < v.power)
    (htot : vs.total = Spec.total vs.vals)
    (hne : vs.vals ≠ []) (hk : 0 < k) (hb : PrioBound B vs.vals)
    (hfitB : 2 * B + 2 * vs.total ≤ maxI64)
    (hfit : (vs.vals.length : Int) + 2 * ((vs.vals.length : Int) * vs.total) + 2 * vs.total ≤ maxI64) :
    incrementOld vs k = .ok
      { vals := (Spec.steps vs.total k (Spec.centre (Spec.rescale (2 * vs.total) vs.vals)) none).1,
        proposer := (Spec.steps vs.total k (Spec.centre (Spec.rescale (2 * vs.total) vs.vals)) none).2,
        total := vs.total } := by
  have htpos : 0 < vs.total := by rw [htot]; exact total_pos _ hne hpos
  have hnpos := length_pos_int vs.vals hne
  have hnT : 1 * vs.total ≤ (vs.vals.length : Int) * vs.total :=
    Int.mul_le_mul_of_nonneg_right (by omega) (by omega)
  rw [Int.one_mul] at hnT
  obtain ⟨x, hx⟩ : ∃ x, x ∈ vs.vals := by
    cases h : vs.vals with
    | nil => exact absurd h hne
    | cons y _ => exact ⟨y, List.mem_cons_self⟩
  have hB0 : 0 ≤ B := by have := hb x hx; omega
  have eD : I64.mul windowFactor vs.total = 2 * vs.total := by
    unfold windowFactor
    exact I64.mul_exact _ _ (by unfold InRange minI64; unfold maxI64 at hfit ⊢; omega)
  have hr : ∀ v ∈ vs.vals, InRange v.prio := fun v hv => by
    have := hb v hv; unfold InRange minI64; unfold maxI64 at hfitB ⊢; omega
  have hok : RescaleOK (2 * vs.total) vs.vals := by
    refine ⟨hne, hr, by omega, by unfold maxI64 at hfit ⊢; omega, ?_⟩
    obtain ⟨u, hu, e1⟩ := maxPrio_mem vs.vals hne hr
    obtain ⟨w, hw, e2⟩ := minPrio_mem vs.vals hne hr
    have := hb u hu; have := hb w hw
    omega
  have hpanic : rescalePanics (I64.mul windowFactor vs.total) vs.vals = false := by
    rw [eD]; exact rescalePanics_false _ _ (by unfold maxI64 at hfit; omega)
  have hb1 := rescaleList_bound (2 * vs.total) B vs.vals hok hb
  obtain ⟨hinv, hsn, hlen⟩ := normalised_inv vs.vals vs.total hne hn hpos htot hok
  have hlen1 : (rescaleList (2 * vs.total) vs.vals).length = vs.vals.length :=
    length_of_map_eq (·.addr) _ _ (rescaleList_addr _ _)
  have hne1 : rescaleList (2 * vs.total) vs.vals ≠ [] := by
    intro e; rw [e] at hlen1; simp at hlen1; omega
  have eshift : shiftList (rescaleList (2 * vs.total) vs.vals) =
      Spec.centre (rescaleList (2 * vs.total) vs.vals) :=
    shiftList_eq_spec B _ hne1 hb1 (by omega)
  have esteps := stepsList_eq_spec_inv vs.total (2 * vs.total) k _ none hinv (by omega) hsn (by
    rw [hlen, Int.mul_left_comm]; omega)
  rw [incrementOld_eq vs (k : Int) hne (by omega) (by omega) hpanic, eD, eshift]
  have hk' : ((k : Nat) : Int).toNat = k := by omega
  rw [hk', esteps, rescaleList_eq_spec _ _ hok]

/-- **`model_refines_spec`, sharp form**: distinct addresses, positive powers, cached total
`= Σ power ≤ cap`, priorities in `[−B, B]` with `2B + 2T < 2^63` (needed for the first
normalisation only: after it every priority is in `[−3T, 3T]` for ever, and `8T < 2^63` because
`T ≤ cap`).  Then `IncrementProposerPriority(k)` is the unbounded specification for **every**
`k ≥ 1` and **every** number of validators. -/
theorem increment_refines_spec_sharp (vs : ValSet) (k : Nat) (B : Int)
    (hn : (vs.vals.map (·.addr)).Nodup) (hpos : ∀ v ∈ vs.vals, 0 < v.power)
    (htot : vs.total = Spec.total vs.vals) (hcap : vs.total ≤ cap)
    (hne : vs.vals ≠ []) (hk : 0 < k) (hb : PrioBound B vs.vals)
    (hfitB : 2 * B + 2 * vs.total ≤ maxI64) :
    increment vs k = .ok { vals := (Spec.increment vs.vals k).1,
                           proposer := (Spec.increment vs.vals k).2, total := vs.total } := by
  have htpos : 0 < vs.total := by rw [htot]; exact total_pos _ hne hpos
  have eD : I64.mul windowFactor vs.total = 2 * vs.total := by
    unfold windowFactor
    exact I64.mul_exact _ _ (by unfold InRange minI64 maxI64; unfold cap at hcap; omega)
  have h1 : vs.vals.isEmpty = false := by
    cases h : vs.vals with | nil => exact absurd h hne | cons _ _ => rfl
  have h2 : ¬ ((k : Nat) : Int) ≤ 0 := by omega
  have hk' : ((k : Nat) : Int).toNat = k := by omega
  obtain ⟨e, _, _⟩ := normSteps_refines vs.total k B vs.vals none ⟨hne, hn, hpos, htot⟩ hb hfitB
    (by unfold maxI64; unfold cap at hcap; omega)
  unfold increment
  simp only [h1, h2, if_false, Bool.false_eq_true, totalOf_wf vs hpos htot, eD, hk', e]
  unfold Spec.increment
  simp only [← htot]

/-- **`model_refines_spec`** in the form of `ModelRefinesSpecStatement` (the size bound
`2·n·max(B, T) + n + 2T < 2^62` of the former rule is more than enough). -/
theorem increment_refines_spec (vs : ValSet) (k : Nat) (B : Int)
    (hn : (vs.vals.map (·.addr)).Nodup) (hpos : ∀ v ∈ vs.vals, 0 < v.power)
    (htot : vs.total = Spec.total vs.vals) (hcap : vs.total ≤ cap)
    (hne : vs.vals ≠ []) (hk : 0 < k) (hb : PrioBound B vs.vals)
    (hfit : 2 * (vs.vals.length : Int) * (max B vs.total) + vs.vals.length + 2 * vs.total < 2 ^ 62) :
    increment vs k = .ok { vals := (Spec.increment vs.vals k).1,
                           proposer := (Spec.increment vs.vals k).2, total := vs.total } := by
  have htpos : 0 < vs.total := by rw [htot]; exact total_pos _ hne hpos
  have hnpos := length_pos_int vs.vals hne
  have hp62 : (2 : Int) ^ 62 = 4611686018427387904 := by decide
  rw [hp62, Int.mul_assoc] at hfit
  have hmaxB : B ≤ max B vs.total := by omega
  have hmaxT : vs.total ≤ max B vs.total := by omega
  generalize max B vs.total = M at hfit hmaxB hmaxT
  have hnM : 1 * M ≤ (vs.vals.length : Int) * M := Int.mul_le_mul_of_nonneg_right (by omega) (by omega)
  rw [Int.one_mul] at hnM
  exact increment_refines_spec_sharp vs k B hn hpos htot hcap hne hk hb (by unfold maxI64; omega)

end KV.ValSet
