import KV.Proofs.Wal
/-! Lemmas on `scan` / `searchLoop` (SearchForEndHeight) for property C15. Core only. -/
namespace KV.Wal

/-- heights of the end-height markers among the payloads, in order -/
def heights (c : Cfg) (ms : List Bytes) : List Int :=
  ms.filterMap fun d => match c.parse d with
    | some (.endHeight h) => some h
    | _ => none

def lastOf (dflt : Int) (hs : List Int) : Int := hs.getLast?.getD dflt

theorem heights_append (c : Cfg) (a b : List Bytes) : heights c (a ++ b) = heights c a ++ heights c b := by
  simp [heights, List.filterMap_append]

theorem lastOf_nil (x : Int) : lastOf x [] = x := rfl

theorem lastOf_cons (x m : Int) (hs : List Int) : lastOf x (m :: hs) = lastOf m hs := by
  simp [lastOf, List.getLast?_cons]

theorem lastOf_concat (x z : Int) (hs : List Int) : lastOf x (hs ++ [z]) = z := by
  simp [lastOf]

theorem lastOf_append (x : Int) (a b : List Int) : lastOf (lastOf x b) (a ++ b) = lastOf x (a ++ b) := by
  cases b with
  | nil => simp [lastOf]
  | cons y ys =>
    have h : ∀ w : Int, lastOf w (a ++ y :: ys) = lastOf y ys := by
      intro w
      induction a with
      | nil => exact lastOf_cons w y ys
      | cons a0 as ih =>
        rw [List.cons_append, lastOf_cons]
        cases as with
        | nil => exact lastOf_cons a0 y ys
        | cons a1 as' =>
          rw [List.cons_append, lastOf_cons]
          rw [List.cons_append, lastOf_cons] at ih
          exact ih
    rw [h, h]

/-! ## unfolding `scan` -/

theorem scan_eof (c : Cfg) (height : Int) (ign : Bool) (last : Int) (g : GReader)
    (h : decodeG c g = .eof) : scan c height ign last g = .eof last := by
  rw [scan]; split <;> simp_all

theorem scan_msg (c : Cfg) (height : Int) (ign : Bool) (last : Int) (g r : GReader) (d : Bytes)
    (h : decodeG c g = .msg d r) :
    scan c height ign last g =
      match c.parse d with
      | some (.endHeight m) => if m = height then .found r else scan c height ign m r
      | _ => scan c height ign last r := by
  rw [scan]
  split
  · simp_all
  · simp_all
  · rename_i d' r' h'
    rw [h] at h'
    injection h' with e1 e2
    subst e1; subst e2; rfl

theorem decodeG_frame (c : Cfg) (g : GReader) (d rest : Bytes) (hflat : g.flat = frame c d ++ rest)
    (hmax : c.max < 4294967296) (hv : Valid c d) : ∃ r, decodeG c g = .msg d r ∧ r.flat = rest := by
  have h := decodeG_flat c g
  rw [hflat, decode_frame c .group d rest hmax hv] at h
  cases hg : decodeG c g with
  | eof => rw [hg] at h; cases h
  | corrupt r => rw [hg] at h; cases h
  | msg d' r =>
    rw [hg] at h
    simp only [Res.map] at h
    injection h with e1 e2
    exact ⟨r, by rw [e1], e2.symm⟩

theorem decodeG_nil (c : Cfg) (g : GReader) (hflat : g.flat = []) : decodeG c g = .eof := by
  have h := decodeG_flat c g
  rw [hflat, decode_nil] at h
  cases hg : decodeG c g with
  | eof => rfl
  | corrupt r => rw [hg] at h; cases h
  | msg d' r => rw [hg] at h; cases h

/-- one pass of the inner loop over an intact stream -/
theorem scan_frames (c : Cfg) (hmax : c.max < 4294967296) (height : Int) (ign : Bool) :
    ∀ (ms : List Bytes) (g : GReader) (last : Int), g.flat = frames c ms → (∀ d ∈ ms, Valid c d) →
      (height ∉ heights c ms → scan c height ign last g = .eof (lastOf last (heights c ms))) ∧
      (height ∈ heights c ms → ∃ pre d post g', ms = pre ++ d :: post ∧
        c.parse d = some (.endHeight height) ∧ height ∉ heights c pre ∧
        scan c height ign last g = .found g' ∧ g'.flat = frames c post) := by
  intro ms
  induction ms with
  | nil =>
    intro g last hflat _
    refine ⟨fun _ => ?_, fun h => by simp [heights] at h⟩
    rw [scan_eof c height ign last g (decodeG_nil c g (by simpa [frames] using hflat))]
    rfl
  | cons d ms ih =>
    intro g last hflat hv
    have hd := hv d (by simp)
    have hms : ∀ x ∈ ms, Valid c x := fun x hx => hv x (by simp [hx])
    obtain ⟨r, hdec, hr⟩ := decodeG_frame c g d (frames c ms) (by simpa [frames] using hflat) hmax hd
    rw [scan_msg c height ign last g r d hdec]
    cases hp : c.parse d with
    | none => exact absurd hp hd.2.2
    | some kd =>
      cases kd with
      | other =>
        have hh : heights c (d :: ms) = heights c ms := by simp [heights, hp]
        obtain ⟨i1, i2⟩ := ih r last hr hms
        simp only [hh]
        refine ⟨i1, fun hin => ?_⟩
        obtain ⟨pre, d', post, g', e1, e2, e3, e4, e5⟩ := i2 hin
        refine ⟨d :: pre, d', post, g', by simp [e1], e2, ?_, e4, e5⟩
        have : heights c (d :: pre) = heights c pre := by simp [heights, hp]
        rw [this]; exact e3
      | endHeight m =>
        have hh : heights c (d :: ms) = m :: heights c ms := by simp [heights, hp]
        simp only [hh]
        by_cases hm : m = height
        · subst hm
          simp only [if_true]
          refine ⟨fun hnot => absurd (List.mem_cons_self) hnot, fun _ => ?_⟩
          exact ⟨[], d, ms, r, rfl, hp, by simp [heights], rfl, hr⟩
        · simp only [hm, if_false]
          obtain ⟨i1, i2⟩ := ih r m hr hms
          refine ⟨fun hnot => ?_, fun hin => ?_⟩
          · rw [lastOf_cons]
            exact i1 (fun h => hnot (List.mem_cons_of_mem _ h))
          · have hin' : height ∈ heights c ms := by
              rcases List.mem_cons.mp hin with h | h
              · exact absurd h.symm hm
              · exact h
            obtain ⟨pre, d', post, g', e1, e2, e3, e4, e5⟩ := i2 hin'
            refine ⟨d :: pre, d', post, g', by simp [e1], e2, ?_, e4, e5⟩
            have : heights c (d :: pre) = m :: heights c pre := by simp [heights, hp]
            rw [this]
            intro h
            rcases List.mem_cons.mp h with h | h
            · exact hm h.symm
            · exact e3 h

/-! ## the outer loop -/

/-- in a strictly increasing list every element is at most the last one -/
theorem le_last_of_pairwise (l x' : List Int) (z : Int) (hp : (x' ++ (l ++ [z])).Pairwise (· < ·)) :
    ∀ x ∈ x' ++ (l ++ [z]), x ≤ z := by
  intro x hx
  rw [← List.append_assoc] at hp hx
  rcases List.mem_append.mp hx with h | h
  · have := (List.pairwise_append.mp hp).2.2 x h z (by simp)
    omega
  · simp at h; omega

theorem drop_flatten_succ (chunks : List (List Bytes)) (n : Nat) (h : n < chunks.length) :
    (chunks.drop n).flatten = chunks[n] ++ (chunks.drop (n + 1)).flatten := by
  rw [List.drop_eq_getElem_cons h, List.flatten_cons]

theorem searchLoop_spec (c : Cfg) (hmax : c.max < 4294967296) (chunks : List (List Bytes))
    (hv : ∀ d ∈ chunks.flatten, Valid c d) (height : Int) (ign : Bool)
    (hinc : (heights c chunks.flatten).Pairwise (· < ·)) :
    ∀ n, n ≤ chunks.length → ∀ last, last = lastOf (-1) (heights c (chunks.drop n).flatten) →
      height ∉ heights c (chunks.drop n).flatten →
      (height ∈ heights c chunks.flatten → ∃ pre d post g', chunks.flatten = pre ++ d :: post ∧
        c.parse d = some (.endHeight height) ∧
        searchLoop c (chunks.map (frames c)) height ign n last = .found g' ∧ g'.flat = frames c post) ∧
      (height ∉ heights c chunks.flatten →
        searchLoop c (chunks.map (frames c)) height ign n last = .notFound) := by
  intro n
  induction n with
  | zero =>
    intro _ last _ hnot
    refine ⟨fun hin => absurd (by simpa using hin) hnot, fun _ => rfl⟩
  | succ n ih =>
    intro hn last hlast hnot
    have hn' : n < chunks.length := by omega
    have hsplit : chunks.flatten = (chunks.take n).flatten ++ (chunks.drop n).flatten := by
      rw [← List.flatten_append, List.take_append_drop]
    have hvS : ∀ d ∈ (chunks.drop n).flatten, Valid c d := by
      intro d hd; apply hv; rw [hsplit]; exact List.mem_append_right _ hd
    have hflat : (openAt (chunks.map (frames c)) n).flat = frames c (chunks.drop n).flatten := by
      rw [openAt_flat, ← List.map_drop, flatten_map_frames]
    obtain ⟨s1, s2⟩ := scan_frames c hmax height ign (chunks.drop n).flatten
      (openAt (chunks.map (frames c)) n) last hflat hvS
    have hH : heights c chunks.flatten =
        heights c (chunks.take n).flatten ++ heights c (chunks.drop n).flatten := by
      rw [← heights_append, ← hsplit]
    by_cases hin : height ∈ heights c (chunks.drop n).flatten
    · obtain ⟨pre, d, post, g', e1, e2, _, e4, e5⟩ := s2 hin
      have hfound : searchLoop c (chunks.map (frames c)) height ign (n + 1) last = .found g' := by
        rw [searchLoop, e4]
      refine ⟨fun _ => ⟨(chunks.take n).flatten ++ pre, d, post, g', ?_, e2, hfound, e5⟩, fun hno => ?_⟩
      · rw [hsplit, e1]; simp
      · exact absurd (by rw [hH]; exact List.mem_append_right _ hin) hno
    · have hscan := s1 hin
      -- the value of lastHeightFound after the pass
      have hS := drop_flatten_succ chunks n hn'
      have hlast' : lastOf last (heights c (chunks.drop n).flatten) =
          lastOf (-1) (heights c (chunks.drop n).flatten) := by
        rw [hlast, hS, heights_append, lastOf_append]
      rw [hlast'] at hscan
      by_cases hexit : lastOf (-1) (heights c (chunks.drop n).flatten) > 0 ∧
          lastOf (-1) (heights c (chunks.drop n).flatten) < height
      · -- early exit: every marker of the whole log is ≤ the last one seen < height
        have hnone : height ∉ heights c chunks.flatten := by
          intro hmem
          cases hHS : heights c (chunks.drop n).flatten with
          | nil => rw [hHS] at hexit; simp [lastOf] at hexit
          | cons y ys =>
            have hne : heights c (chunks.drop n).flatten ≠ [] := by rw [hHS]; simp
            have hcat := (List.dropLast_concat_getLast hne).symm
            generalize (heights c (chunks.drop n).flatten).dropLast = l at hcat
            generalize (heights c (chunks.drop n).flatten).getLast hne = z at hcat
            rw [hcat, lastOf_concat] at hexit
            rw [hH, hcat] at hinc hmem
            have := le_last_of_pairwise l _ z hinc height hmem
            omega
        have hres : searchLoop c (chunks.map (frames c)) height ign (n + 1) last = .notFound := by
          rw [searchLoop, hscan]; simp [hexit]
        exact ⟨fun h => absurd h hnone, fun _ => hres⟩
      · have hstep : searchLoop c (chunks.map (frames c)) height ign (n + 1) last =
            searchLoop c (chunks.map (frames c)) height ign n
              (lastOf (-1) (heights c (chunks.drop n).flatten)) := by
          rw [searchLoop, hscan]; simp [hexit]
        rw [hstep]
        exact ih (by omega) _ rfl hin

end KV.Wal
