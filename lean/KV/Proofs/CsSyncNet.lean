import KV.Props.C01Cs
import KV.Proofs.CsSyncKick
import KV.Proofs.CsSyncPol
import KV.Proofs.CsAux
/-! Network-level bookkeeping for the synchronous round (C04, `KV/Props/C04Net.lean`): schedules
built per receiving node (`phase`), the inputs a node gets from them (`proj_phase`), `GOkS` of a
schedule without timeouts whose votes are in the trace already (`goks_easy`), composition of
schedules.  Core Lean only. -/
namespace KV.Props.C04Net
open KV.Cs KV.Cs.Sync KV.Agree KV.Props.C03 KV.Props.C01Cs

/-! ### executions -/

theorem grun_append (N : Net) : ∀ (a b : List GStep) (g : GState), grun N g (a ++ b) = grun N (grun N g a) b
  | [], _, _ => rfl
  | s :: a, b, g => by
    show grun N (gstep N g s) (a ++ b) = grun N (grun N (gstep N g s) a) b
    exact grun_append N a b _

theorem goks_append (N : Net) : ∀ (a b : List GStep) (g : GState),
    GOkS N g (a ++ b) ↔ GOkS N g a ∧ GOkS N (grun N g a) b
  | [], b, g => by simp [GOkS, grun]
  | s :: a, b, g => by
    show (_ ∧ GOkS N (gstep N g s) (a ++ b)) ↔ (_ ∧ GOkS N (gstep N g s) a) ∧ GOkS N (grun N (gstep N g s) a) b
    rw [goks_append N a b]
    exact ⟨fun ⟨x, y, z⟩ => ⟨⟨x, y⟩, z⟩, fun ⟨⟨x, y⟩, z⟩ => ⟨x, y, z⟩⟩

theorem gstep_tr_mono (N : Net) (g : GState) (s : GStep) (x : HEv) (hx : x ∈ g.tr) : x ∈ (gstep N g s).tr :=
  List.mem_append_left _ (List.mem_append_left _ hx)

theorem grun_tr_mono (N : Net) (x : HEv) : ∀ (steps : List GStep) (g : GState), x ∈ g.tr → x ∈ (grun N g steps).tr
  | [], _, h => h
  | s :: rest, g, h => grun_tr_mono N x rest _ (gstep_tr_mono N g s x h)

theorem gstep_st_ne (N : Net) (g : GState) (s : GStep) (j : Nat) (h : j ≠ s.1) : (gstep N g s).st j = g.st j := by
  show (if j = s.1 then _ else g.st j) = g.st j
  rw [if_neg h]

theorem gstep_st_self (N : Net) (g : GState) (s : GStep) :
    (gstep N g s).st s.1 = step (N.cfg s.1) (g.st s.1) s.2.1 s.2.2 := by
  show (if s.1 = s.1 then _ else g.st s.1) = _
  rw [if_pos rfl]

/-- the invariant of network executions along a `GOkS` execution -/
theorem grun_inv_s {N : Net} (wf : N.WF) (steps : List GStep) (g : GState) (G : GInv N g)
    (hok : GOkS N g steps) : GInv N (grun N g steps) :=
  grun_inv wf steps g G (gok_of_scheduled wf steps g G hok)

/-- `NoStale` at every node along a `GOkS` execution -/
theorem grun_noStale_s {N : Net} (wf : N.WF) (steps : List GStep) (g : GState) (G : GInv N g)
    (hN : ∀ i, NoStale (N.cfg i) (g.st i)) (hok : GOkS N g steps) :
    ∀ i, NoStale (N.cfg i) ((grun N g steps).st i) :=
  stale_lock_never_persists_from N wf steps g G hN (gok_of_scheduled wf steps g G hok)

/-- the auxiliary single-node invariants `Cs.Aux` at every node along a `GOk` execution -/
theorem grun_aux {N : Net} (wf : N.WF) : ∀ (steps : List GStep) (g : GState), GInv N g →
    (∀ i, Aux (N.cfg i) (g.st i)) → GOk N g steps → ∀ i, Aux (N.cfg i) ((grun N g steps).st i)
  | [], _, _, hA, _ => hA
  | s :: rest, g, G, hA, hok => by
    apply grun_aux wf rest _ (gstep_inv wf G s hok.1) ?_ hok.2
    intro i
    show Aux (N.cfg i) (if i = s.1 then step (N.cfg s.1) (g.st s.1) s.2.1 s.2.2 else g.st i)
    split
    · rename_i e
      subst e
      exact step_aux (G.inv _) (hA _) _ _ hok.1.2.1
    · exact hA i

theorem gstart_aux (N : Net) (i : Nat) : Aux (N.cfg i) ((gstart N).st i) :=
  (init_aux (N.cfg i) (N.h0 i)).bore (bore_schedule ..)

theorem grun_aux_s {N : Net} (wf : N.WF) (steps : List GStep) (hok : GOkS N (gstart N) steps) :
    ∀ i, Aux (N.cfg i) ((grun N (gstart N) steps).st i) :=
  grun_aux wf steps _ (gstart_inv N) (gstart_aux N) (gok_of_scheduled wf steps _ (gstart_inv N) hok)

/-! ### inputs without timeouts whose votes were sent before -/

/-- not a timeout; a vote claims a faulty validator or is in the trace already -/
def Easy (F : Nat → Bool) (tr : List HEv) : Input → Prop
  | .vote _ idx t h r tgt _ => F idx = true ∨ (h, mkEv idx t r tgt) ∈ tr
  | .timeout .. => False
  | _ => True

theorem goks_easy (N : Net) : ∀ (steps : List GStep) (g : GState),
    (∀ s ∈ steps, N.F s.1 = false ∧ Easy N.F g.tr s.2.2) → GOkS N g steps
  | [], _, _ => trivial
  | s :: rest, g, h => by
    obtain ⟨hF, he⟩ := h s (List.mem_cons_self ..)
    refine ⟨⟨hF, ?_, ?_⟩, goks_easy N rest _ ?_⟩
    · obtain ⟨i, nb, inp⟩ := s
      cases inp <;> first | trivial | exact he.elim
    · obtain ⟨i, nb, inp⟩ := s
      cases inp with
      | vote peer idx t h' r tgt sigok =>
        intro _ _ hFi
        rcases he with he | he
        · rw [hFi] at he; cases he
        · exact he
      | _ => trivial
    · intro s' hs'
      obtain ⟨a, b⟩ := h s' (List.mem_cons_of_mem _ hs')
      refine ⟨a, ?_⟩
      obtain ⟨i', nb', inp'⟩ := s'
      cases inp' with
      | vote peer idx t h' r tgt sigok =>
        rcases b with b | b
        · exact Or.inl b
        · exact Or.inr (gstep_tr_mono N g s _ b)
      | timeout h' r st => exact b.elim
      | _ => trivial

/-! ### schedules built per receiving node -/

/-- node `i` handles the inputs `ins`, one after the other -/
def toNode (i : Nat) (ins : List (Option Nat × Input)) : List GStep := ins.map (fun x => (i, x))

/-- every node `i` of `cs`, in order, handles `f i` -/
def phase (cs : List Nat) (f : Nat → List (Option Nat × Input)) : List GStep :=
  cs.flatMap (fun i => toNode i (f i))

theorem proj_append (i : Nat) (a b : List GStep) : proj i (a ++ b) = proj i a ++ proj i b := by
  simp [proj]

theorem proj_toNode_self (i : Nat) (ins : List (Option Nat × Input)) : proj i (toNode i ins) = ins := by
  induction ins with
  | nil => rfl
  | cons x xs ih =>
    have : proj i (toNode i (x :: xs)) = x :: proj i (toNode i xs) := by simp [proj, toNode]
    rw [this, ih]

theorem proj_toNode_ne (i k : Nat) (ins : List (Option Nat × Input)) (h : k ≠ i) : proj i (toNode k ins) = [] := by
  induction ins with
  | nil => rfl
  | cons x xs ih =>
    have : proj i (toNode k (x :: xs)) = proj i (toNode k xs) := by simp [proj, toNode, h]
    rw [this, ih]

theorem proj_phase (i : Nat) (f : Nat → List (Option Nat × Input)) : ∀ (cs : List Nat), cs.Nodup →
    proj i (phase cs f) = if i ∈ cs then f i else []
  | [], _ => rfl
  | c :: cs, hnd => by
    have hnd' := List.nodup_cons.mp hnd
    show proj i (toNode c (f c) ++ phase cs f) = _
    rw [proj_append, proj_phase i f cs hnd'.2]
    by_cases hc : c = i
    · subst hc
      rw [proj_toNode_self, if_neg hnd'.1, if_pos (List.mem_cons_self ..)]
      simp
    · rw [proj_toNode_ne i c _ hc]
      have : (i ∈ c :: cs) ↔ i ∈ cs := by
        constructor
        · intro hm
          rcases List.mem_cons.mp hm with h1 | h1
          · exact absurd h1.symm hc
          · exact h1
        · exact List.mem_cons_of_mem _
      simp only [List.nil_append, this]

theorem mem_phase {cs : List Nat} {f : Nat → List (Option Nat × Input)} {s : GStep} (h : s ∈ phase cs f) :
    s.1 ∈ cs ∧ s.2 ∈ f s.1 := by
  unfold phase at h
  obtain ⟨i, hi, hs⟩ := List.mem_flatMap.mp h
  unfold toNode at hs
  obtain ⟨x, hx, rfl⟩ := List.mem_map.mp hs
  exact ⟨hi, hx⟩

/-! ### node-local inputs (timeouts the node scheduled; no votes) -/

/-- the inputs are proposals, blocks, or timeouts the node has scheduled when they fire -/
def LocalOk (cfg : Config) : State → List (Option Nat × Input) → Prop
  | _, [] => True
  | σ, (nb, i) :: rest =>
    SchedOk σ i ∧ (match i with | .vote .. => False | _ => True) ∧ LocalOk cfg (step cfg σ nb i) rest

theorem goks_toNode (N : Net) (c : Nat) (hF : N.F c = false) : ∀ (ins : List (Option Nat × Input)) (g : GState),
    LocalOk (N.cfg c) (g.st c) ins → GOkS N g (toNode c ins)
  | [], _, _ => trivial
  | (nb, i) :: ins, g, h => by
    obtain ⟨h1, h2, h3⟩ := h
    refine ⟨⟨hF, h1, ?_⟩, goks_toNode N c hF ins _ ?_⟩
    · cases i with
      | vote peer idx t h' r tgt sigok => exact h2.elim
      | _ => trivial
    · rw [gstep_st_self]
      exact h3

theorem grun_toNode_ne (N : Net) (c j : Nat) (ins : List (Option Nat × Input)) (g : GState) (h : c ≠ j) :
    (grun N g (toNode c ins)).st j = g.st j := by
  rw [grun_st, proj_toNode_ne j c ins h]
  rfl

theorem goks_phase_local (N : Net) (f : Nat → List (Option Nat × Input)) : ∀ (cs : List Nat) (g : GState),
    cs.Nodup → (∀ i ∈ cs, N.F i = false ∧ LocalOk (N.cfg i) (g.st i) (f i)) → GOkS N g (phase cs f)
  | [], _, _, _ => trivial
  | c :: cs, g, hnd, h => by
    have hnd' := List.nodup_cons.mp hnd
    obtain ⟨hF, hl⟩ := h c (List.mem_cons_self ..)
    show GOkS N g (toNode c (f c) ++ phase cs f)
    rw [goks_append]
    refine ⟨goks_toNode N c hF _ g hl, goks_phase_local N f cs _ hnd'.2 ?_⟩
    intro i hi
    have hne : c ≠ i := fun e => hnd'.1 (e ▸ hi)
    rw [grun_toNode_ne N c i _ g hne]
    exact h i (List.mem_cons_of_mem _ hi)

/-! ### the correct validators -/

/-- the correct validators, in index order -/
def correct (N : Net) : List Nat := (List.range N.powers.length).filter (fun j => !N.F j)

theorem mem_correct {N : Net} {j : Nat} : j ∈ correct N ↔ j < N.powers.length ∧ N.F j = false := by
  unfold correct
  rw [List.mem_filter, List.mem_range]
  simp

theorem correct_nodup (N : Net) : (correct N).Nodup :=
  List.Nodup.sublist List.filter_sublist List.nodup_range

/-- the correct validators hold more than two thirds of the voting power -/
def CorrectQuorum (N : Net) : Prop :=
  3 * power (valsOf N.powers) (pwOf N.powers) (fun j => !N.F j) >
    2 * power (valsOf N.powers) (pwOf N.powers) (fun _ => true)

/-- a validator set holding +2/3 is `Quorate` -/
theorem quorate_of_power (N : Net) (cfg : Config) (hp : cfg.powers = N.powers) (qs : List Nat)
    (hq : 3 * power (valsOf N.powers) (pwOf N.powers) (fun j => decide (j ∈ qs)) >
      2 * power (valsOf N.powers) (pwOf N.powers) (fun _ => true)) (b : Nat) : Quorate cfg b qs := by
  intro s hs
  have h1 := power_le_sumFor N.powers s (some b) (fun j => decide (j ∈ qs)) (fun i _ hq => by
    apply hs i
    simpa using hq)
  unfold isMaj
  rw [hp, total_eq_power]
  exact decide_eq_true (by omega)

theorem quorate_correct (N : Net) (cfg : Config) (hp : cfg.powers = N.powers) (hq : CorrectQuorum N) (b : Nat) :
    Quorate cfg b (correct N) := by
  intro s hs
  have h1 := power_le_sumFor N.powers s (some b) (fun j => !N.F j) (fun i hi hq => by
    apply hs i
    rw [mem_correct]
    exact ⟨hi, by simpa using hq⟩)
  unfold isMaj
  rw [hp, total_eq_power]
  unfold CorrectQuorum at hq
  exact decide_eq_true (by omega)

/-! ### a correct validator's slot holds what it signed -/

/-- in a sorted signature log a key determines the action -/
theorem sorted_unique : ∀ (l : List Action), Sorted l → ∀ a a' k, a ∈ l → a' ∈ l → rk a = some k → rk a' = some k →
    a = a'
  | [], _, _, _, _, h, _, _, _ => by cases h
  | x :: l, hs, a, a', k, ha, ha', hk, hk' => by
    obtain ⟨k1, k2, k3⟩ := k
    rcases List.mem_cons.mp ha with e | hm
    · rcases List.mem_cons.mp ha' with e' | hm'
      · rw [e, e']
      · subst e
        have := hs.1 k1 k2 k3 hk a' hm' k1 k2 k3 hk'
        unfold lt3 at this; omega
    · rcases List.mem_cons.mp ha' with e' | hm'
      · subst e'
        have := hs.1 k1 k2 k3 hk' a hm k1 k2 k3 hk
        unfold lt3 at this; omega
      · exact sorted_unique l hs.2 a a' (k1, k2, k3) hm hm' hk hk'

/-- in every reachable global state: if the correct validator `q` signed the prevote for `b` at
(h, r), no node holds another prevote of `q` for (h, r) — the slot condition of `NodePreReady`
is automatic for correct validators once the round's vote set exists -/
theorem correct_slot_ok {N : Net} {g : GState} (G : GInv N g) (q h r b : Nat) (hq : q < N.powers.length)
    (hF : N.F q = false) (hs : Action.signVote .prevote h r (some b) ∈ (g.st q).log) (i : Nat) (x : Target)
    (hx : (slotsV (g.st i).votes .prevote h r)[q]? = some (some x)) : x = some b := by
  have h1 := G.recv i .prevote h r q x hq hx
  have h2 := G.sent q h .prevote r x hF h1
  have := sorted_unique _ (G.inv q).si.1 _ _ (h, r, 4) h2 hs rfl rfl
  cases this
  rfl

end KV.Props.C04Net
