import KV.Model.ValSet
/-!
# `IncrementProposerPriority(a + b)` is `IncrementProposerPriority(a)` followed by
`IncrementProposerPriority(b)` — for every set (C12 `proposer_path_independent`, used by C04)

Since the fix of C12-P1 the loop of `IncrementProposerPriority` re-normalises (rescale, centre)
before every single round, so the call is a plain iteration of one state transformer; the only
things to check are that the cached total, the emptiness test and the panics compose.
-/
namespace KV.ValSet
open KV.I64

/-- `k` successive `IncrementProposerPriority(1)` -/
def iterInc : Nat → ValSet → Except Err ValSet
  | 0, vs => .ok vs
  | k + 1, vs =>
    match increment vs 1 with
    | .ok vs' => iterInc k vs'
    | .error e => .error e

/-- a sequence of round skips: `IncrementProposerPriority(s)` for every `s` of the list, in order -/
def incSeq : List Nat → ValSet → Except Err ValSet
  | [], vs => .ok vs
  | s :: ss, vs =>
    match increment vs (s : Int) with
    | .ok vs' => incSeq ss vs'
    | .error e => .error e

/-! ## what one iteration keeps: the powers (in order) and the length -/

theorem stepList_power (T : Int) (l : List Validator) :
    (stepList T l).1.map (·.power) = l.map (·.power) := by
  unfold stepList
  simp only
  split
  · rw [List.map_map]; exact List.map_congr_left (fun _ _ => rfl)
  · rw [List.map_map, List.map_map]
    apply List.map_congr_left
    intro v _
    simp only [Function.comp]
    split <;> rfl

theorem rescaleList_power' (D : Int) (l : List Validator) :
    (rescaleList D l).map (·.power) = l.map (·.power) := by
  unfold rescaleList
  split
  · rfl
  · split
    · rw [List.map_map]; exact List.map_congr_left (fun _ _ => rfl)
    · rfl

theorem shiftList_power' (l : List Validator) : (shiftList l).map (·.power) = l.map (·.power) := by
  unfold shiftList
  rw [List.map_map]; exact List.map_congr_left (fun _ _ => rfl)

theorem normStep_power (T D : Int) (l : List Validator) (r : List Validator × Option Nat)
    (h : normStep T D l = some r) : r.1.map (·.power) = l.map (·.power) := by
  unfold normStep at h
  split at h
  · cases h
  · injection h with h
    rw [← h, stepList_power, shiftList_power', rescaleList_power']

theorem normSteps_power (T D : Int) (k : Nat) (l : List Validator) (p : Option Nat)
    (r : List Validator × Option Nat) (h : normSteps T D k l p = some r) :
    r.1.map (·.power) = l.map (·.power) := by
  induction k generalizing l p with
  | zero => simp only [normSteps] at h; injection h with h; rw [← h]
  | succ k ih =>
    simp only [normSteps] at h
    cases hs : normStep T D l with
    | none => rw [hs] at h; cases h
    | some r1 =>
      rw [hs] at h
      rw [ih r1.1 r1.2 h, normStep_power T D l r1 hs]

theorem sumPowersAux_congr (l l' : List Validator) (h : l.map (·.power) = l'.map (·.power)) (s : Int) :
    sumPowersAux s l = sumPowersAux s l' := by
  induction l generalizing l' s with
  | nil =>
    cases l' with
    | nil => rfl
    | cons _ _ => simp at h
  | cons x xs ih =>
    cases l' with
    | nil => simp at h
    | cons y ys =>
      simp only [List.map_cons, List.cons.injEq] at h
      unfold sumPowersAux
      simp only [h.1]
      split
      · rfl
      · exact ih ys h.2 _

theorem isEmpty_of_map_eq (l l' : List Validator) (h : l.map (·.power) = l'.map (·.power)) :
    l.isEmpty = l'.isEmpty := by
  cases l <;> cases l' <;> simp at h ⊢

/-! ## the loop composes -/

theorem normSteps_add (T D : Int) (a b : Nat) (hb : 1 ≤ b) (l : List Validator) (p : Option Nat) :
    normSteps T D (a + b) l p =
      match normSteps T D a l p with
      | none => none
      | some r => normSteps T D b r.1 none := by
  induction a generalizing l p with
  | zero =>
    rw [Nat.zero_add]
    obtain ⟨b', rfl⟩ : ∃ b', b = b' + 1 := ⟨b - 1, by omega⟩
    simp only [normSteps]
  | succ a ih =>
    have e : a + 1 + b = (a + b) + 1 := by omega
    rw [e]
    simp only [normSteps]
    cases normStep T D l with
    | none => rfl
    | some r1 => exact ih r1.1 r1.2

/-- the set returned by a successful call has the same cached-total reading -/
theorem totalOf_after (vs : ValSet) (T : Int) (hT : totalOf vs = some T) (l : List Validator)
    (p : Option Nat) (hp : l.map (·.power) = vs.vals.map (·.power)) :
    totalOf { vals := l, proposer := p, total := T } = some T := by
  unfold totalOf at hT ⊢
  simp only
  by_cases h0 : T = 0
  · rw [if_pos h0]
    by_cases hv : vs.total = 0
    · rw [if_pos hv] at hT
      unfold sumPowers at hT ⊢
      rw [sumPowersAux_congr l vs.vals hp]; exact hT
    · rw [if_neg hv] at hT
      injection hT with hT
      exact absurd (hT ▸ h0) hv
  · rw [if_neg h0]

/-- **`IncrementProposerPriority(a + b) = IncrementProposerPriority(a); IncrementProposerPriority(b)`**
for all `a, b ≥ 1` and **every** validator set (well-formed or not, including the panicking cases) -/
theorem increment_add (vs : ValSet) (a b : Int) (ha : 0 < a) (hb : 0 < b) :
    increment vs (a + b) = (increment vs a) >>= (increment · b) := by
  show _ = Except.bind (increment vs a) (increment · b)
  unfold increment
  by_cases he : vs.vals.isEmpty
  · simp only [he, if_true, Except.bind]
  · simp only [he]
    have h1 : ¬ a + b ≤ 0 := by omega
    have h2 : ¬ a ≤ 0 := by omega
    have h3 : ¬ b ≤ 0 := by omega
    simp only [h1, h2, if_false, Bool.false_eq_true]
    cases hT : totalOf vs with
    | none => simp only [Except.bind]
    | some T =>
      simp only
      have hab : (a + b).toNat = a.toNat + b.toNat := by omega
      rw [hab, normSteps_add T _ a.toNat b.toNat (by omega)]
      cases hs : normSteps T (I64.mul windowFactor T) a.toNat vs.vals none with
      | none => simp only [Except.bind]
      | some r =>
        simp only [Except.bind]
        have hp := normSteps_power T _ a.toNat vs.vals none r hs
        have hemp : r.1.isEmpty = false := by
          rw [isEmpty_of_map_eq r.1 vs.vals hp]; simpa using he
        rw [totalOf_after vs T hT r.1 r.2 hp]
        simp only [hemp, h3, if_false, Bool.false_eq_true]

/-- `k ≥ 1` successive `IncrementProposerPriority(1)` are one `IncrementProposerPriority(k)`, on
every set -/
theorem iterInc_eq_increment (vs : ValSet) (k : Nat) (hk : 1 ≤ k) :
    iterInc k vs = increment vs (k : Int) := by
  induction k generalizing vs with
  | zero => omega
  | succ k ih =>
    by_cases hk0 : k = 0
    · subst hk0
      simp only [iterInc]
      cases increment vs 1 <;> rfl
    · have e : ((k + 1 : Nat) : Int) = 1 + (k : Int) := by omega
      rw [e, increment_add vs 1 k (by omega) (by omega)]
      show _ = Except.bind (increment vs 1) (increment · (k : Int))
      simp only [iterInc]
      cases increment vs 1 with
      | error e => rfl
      | ok vs' => simp only [Except.bind]; exact ih vs' (by omega)

/-- **node level**: any sequence of round skips (each `≥ 1`) ends in the set — priorities,
proposer, cached total — of one `IncrementProposerPriority(total number of rounds)` -/
theorem incSeq_eq_increment (ss : List Nat) (vs : ValSet) (hne : ss ≠ []) (hpos : ∀ s ∈ ss, 1 ≤ s) :
    incSeq ss vs = increment vs (ss.sum : Int) := by
  induction ss generalizing vs with
  | nil => exact absurd rfl hne
  | cons s ss ih =>
    have hs := hpos s List.mem_cons_self
    cases ss with
    | nil =>
      simp only [incSeq, List.sum_cons, List.sum_nil, Nat.add_zero]
      cases increment vs (s : Int) <;> rfl
    | cons t ts =>
      have hrest : ∀ x ∈ t :: ts, 1 ≤ x := fun x hx => hpos x (List.mem_cons_of_mem _ hx)
      have ht := hrest t List.mem_cons_self
      have hsum : 1 ≤ (t :: ts).sum := by simp only [List.sum_cons]; omega
      have e : (((s :: t :: ts).sum : Nat) : Int) = (s : Int) + (((t :: ts).sum : Nat) : Int) := by
        simp only [List.sum_cons]; omega
      rw [e, increment_add vs s _ (by omega) (by omega)]
      show _ = Except.bind (increment vs (s : Int)) (increment · (((t :: ts).sum : Nat) : Int))
      simp only [incSeq]
      cases increment vs (s : Int) with
      | error e => rfl
      | ok vs' => simp only [Except.bind]; exact ih vs' (by simp) hrest

/-- two sequences of round skips with the same total number of rounds reach the same set -/
theorem incSeq_path_independent (ss ss' : List Nat) (vs : ValSet) (hne : ss ≠ []) (hne' : ss' ≠ [])
    (hpos : ∀ s ∈ ss, 1 ≤ s) (hpos' : ∀ s ∈ ss', 1 ≤ s) (hsum : ss.sum = ss'.sum) :
    incSeq ss vs = incSeq ss' vs := by
  rw [incSeq_eq_increment ss vs hne hpos, incSeq_eq_increment ss' vs hne' hpos', hsum]

end KV.ValSet
