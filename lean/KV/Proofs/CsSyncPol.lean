import KV.Proofs.CsSyncRun
/-! POL gossip before a synchronous round (C04, `KV/Props/C04Net.lean`): a node at (h, r)/Propose
receives the prevotes of an earlier round `pol` for block `b`.  When they complete +2/3 the node
holds the polka, and a lock on another block from a round `< pol` is released
(`addVote`: "Unlocking because of POL").  Core Lean only. -/
namespace KV.Cs.Sync

/-! ### two values cannot both have +2/3 -/

theorem tally_two_le (x y : Target) (hxy : x ≠ y) : ∀ (pw : List Nat) (s : Slots),
    tally (fun v => v == some x) pw s + tally (fun v => v == some y) pw s ≤ pw.sum
  | [], s => by cases s <;> simp [tally]
  | p :: ps, [] => by simp [tally]
  | p :: ps, v :: vs => by
    have ih := tally_two_le x y hxy ps vs
    simp only [tally, List.sum_cons]
    by_cases h1 : v = some x
    · have h2 : ¬ v = some y := by
        intro h; rw [h1] at h; exact hxy (Option.some.inj h)
      have e1 : (v == some x) = true := by simpa using h1
      have e2 : (v == some y) = false := by simpa using h2
      simp only [e1, e2, if_true, Bool.false_eq_true, if_false]
      omega
    · have e1 : (v == some x) = false := by simpa using h1
      simp only [e1, Bool.false_eq_true, if_false]
      split <;> omega

/-- a value with +2/3 in the slots is what `maj23` returns -/
theorem maj23_of_isMaj {pw : List Nat} {s : Slots} {x : Target} (h : isMaj pw s x = true) :
    maj23 pw s = some x := by
  have hx : 3 * sumFor pw s x > 2 * total pw := of_decide_eq_true h
  have hmem : x ∈ s.filterMap id :=
    List.mem_filterMap.mpr ⟨some x, tally_pos_mem x pw s (by unfold sumFor at hx; omega), rfl⟩
  unfold maj23
  cases hf : (s.filterMap id).find? (isMaj pw s) with
  | none =>
    have := List.find?_eq_none.mp hf x hmem
    exact absurd h this
  | some y =>
    have hy' : isMaj pw s y = true := List.find?_some hf
    have hy : 3 * sumFor pw s y > 2 * total pw := of_decide_eq_true hy'
    by_cases hxy : x = y
    · rw [hxy]
    · have := tally_two_le x y hxy pw s
      unfold sumFor total at hx hy
      omega

/-! ### one prevote of an earlier round -/

theorem prevoteSwitch_old (cfg : Config) (nb : Option Nat) (h vr : Nat) (m : Option Target) (any : Bool)
    (σ : State) (hr : vr < σ.round) (hp : σ.proposal = none) : prevoteSwitch cfg nb h vr m any σ = σ := by
  unfold prevoteSwitch
  have h1 : ¬ σ.round < vr := by omega
  have h2 : ¬ σ.round = vr := by omega
  simp [h1, h2, hp]

theorem polkaUnlock_cases (vr : Nat) (bid : Target) (σ : State) :
    polkaUnlock vr bid σ = σ ∨ polkaUnlock vr bid σ = unlock σ := by
  unfold polkaUnlock
  (repeat' split) <;> simp

theorem polkaValid_old (vr b : Nat) (σ : State) (hr : vr ≠ σ.round) : polkaValid vr b σ = σ := by
  unfold polkaValid
  rw [if_neg (by simp [hr])]

theorem polkaUpdate_old (vr : Nat) (m : Option Target) (σ : State) (hr : vr ≠ σ.round) :
    polkaUpdate vr m σ = σ ∨ polkaUpdate vr m σ = unlock σ := by
  unfold polkaUpdate
  cases m with
  | none => exact Or.inl rfl
  | some bid =>
    simp only
    have hc := polkaUnlock_cases vr bid σ
    cases bid with
    | none => exact hc
    | some b =>
      simp only
      rw [polkaValid_old vr b _ (by rcases hc with e | e <;> rw [e] <;> exact hr)]
      exact hc

/-- a polka for `b` at a round in (lockedRound, round] releases a lock on another block -/
theorem polkaUnlock_b (vr b : Nat) (σ : State) (hr : vr ≤ σ.round) (hlr : σ.lockedRound < vr)
    (hok : ∀ blk, σ.locked = some blk → blk.ok = true) :
    (polkaUnlock vr (some b) σ).locked = none ∨ (polkaUnlock vr (some b) σ).locked = some ⟨b, true⟩ := by
  unfold polkaUnlock
  cases hl : σ.locked with
  | none => simp [hl]
  | some lb =>
    simp only
    by_cases hb : lb.id = b
    · right
      have hcond : (decide (σ.lockedRound < vr) && decide (vr ≤ σ.round) && !(some b == some lb.id)) = false := by
        simp [hb]
      rw [hcond]
      simp only [Bool.false_eq_true, if_false, hl]
      have := hok lb hl
      obtain ⟨id, ok⟩ := lb
      simp only at hb this
      rw [hb, this]
    · left
      have hcond : (decide (σ.lockedRound < vr) && decide (vr ≤ σ.round) && !(some b == some lb.id)) = true := by
        have : ¬ b = lb.id := fun e => hb e.symm
        simp [hlr, hr, this]
      rw [hcond]
      simp [unlock]

/-- the node at the boundary of round (h, r) before the POL prevotes of round `pol` arrived: as
`Ready`, but it may still be locked on another block from a round before `pol` as long as it does
not hold the polka -/
structure PreReady (cfg : Config) (h r pol b : Nat) (σ : State) : Prop where
  nh : σ.halted = false
  hh : σ.height = h
  hr : σ.round = r
  st : σ.step = .propose
  prop : σ.proposal = none
  pb : σ.pblock = none
  parts : σ.parts = none
  polr : 1 ≤ pol ∧ pol < r
  lkok : ∀ blk, σ.locked = some blk → blk.ok = true
  lk : (σ.locked = none ∨ σ.locked = some ⟨b, true⟩) ∨ σ.lockedRound < pol
  inv : isMaj cfg.powers (slotsV σ.votes .prevote h pol) (some b) = true →
    (σ.locked = none ∨ σ.locked = some ⟨b, true⟩)
  pv : slotsV σ.votes .prevote h r = List.replicate (n cfg) none
  pc : slotsV σ.votes .precommit h r = List.replicate (n cfg) none

/-- a vote whose slot is taken is not added -/
theorem step_vote_dup (cfg : Config) (nb : Option Nat) (peer idx : Nat) (t : VType) (r : Nat) (tgt : Target)
    (σ : State) (hh : σ.halted = false) (x : Target)
    (hs : (slotsV σ.votes t σ.height r)[idx]? = some (some x)) :
    step cfg σ nb (.vote peer idx t σ.height r tgt true) = { σ with added := false } := by
  have hr := findRV_isSome_of_slot hs
  unfold step
  rw [if_neg (by simp [hh])]
  simp only
  unfold addVote
  rw [if_neg (by simp), if_neg (by simp)]
  have he : ensureRound cfg peer r { σ with added := false } = some { σ with added := false } := by
    unfold ensureRound hasRound
    rw [if_pos hr]
  rw [he]
  simp only
  split
  · rfl
  · have hs' : (State.slots { σ with added := false } t σ.height r)[idx]? = some (some x) := hs
    rw [hs']

/-- **one POL prevote**: the node stays at the boundary; the slot holds the vote afterwards -/
theorem preReady_polvote {cfg : Config} {h r pol b : Nat} {σ : State} (P : PreReady cfg h r pol b σ)
    (nb : Option Nat) (peer j : Nat) (hj : j < n cfg)
    (hs : (slotsV σ.votes .prevote h pol)[j]? = some none ∨
      (slotsV σ.votes .prevote h pol)[j]? = some (some (some b))) :
    PreReady cfg h r pol b (step cfg σ nb (.vote peer j .prevote h pol (some b) true)) ∧
    (slotsV (step cfg σ nb (.vote peer j .prevote h pol (some b) true)).votes .prevote h pol)[j]? =
      some (some (some b)) ∧
    ∀ k, k ≠ j → (slotsV (step cfg σ nb (.vote peer j .prevote h pol (some b) true)).votes .prevote h pol)[k]? =
      (slotsV σ.votes .prevote h pol)[k]? := by
  obtain ⟨nh, hh, hr, st, prop, pb, parts, polr, lkok, lk, inv, pv, pc⟩ := P
  subst hh
  rcases hs with hs | hs
  · -- the vote is stored
    rw [step_vote_stored cfg nb peer j .prevote pol (some b) σ nh hj hs]
    simp only
    rw [afterPrevote_eq]
    have hne : pol ≠ (stored .prevote j (some b) σ.height pol σ).round := by
      show pol ≠ σ.round; omega
    have hpv : slotsV (stored .prevote j (some b) σ.height pol σ).votes .prevote σ.height pol =
        (slotsV σ.votes .prevote σ.height pol).set j (some (some b)) := slotsV_setSlot_same ..
    have hother : ∀ t r', r' ≠ pol → slotsV (stored .prevote j (some b) σ.height pol σ).votes t σ.height r' =
        slotsV σ.votes t σ.height r' := fun t r' hr' => slotsV_setSlot_round _ _ _ _ _ _ _ _ _ hr'
    have hlen : j < (slotsV σ.votes .prevote σ.height pol).length := by
      by_cases hlt : j < (slotsV σ.votes .prevote σ.height pol).length
      · exact hlt
      · rw [List.getElem?_eq_none (by omega)] at hs; cases hs
    -- the lock after `polkaUpdate`
    have key : ∀ τ : State, (τ = stored .prevote j (some b) σ.height pol σ ∨
          τ = unlock (stored .prevote j (some b) σ.height pol σ)) →
        (isMaj cfg.powers ((slotsV σ.votes .prevote σ.height pol).set j (some (some b))) (some b) = true →
          (τ.locked = none ∨ τ.locked = some ⟨b, true⟩)) →
        PreReady cfg σ.height r pol b τ ∧
        (slotsV τ.votes .prevote σ.height pol)[j]? = some (some (some b)) ∧
        ∀ k, k ≠ j → (slotsV τ.votes .prevote σ.height pol)[k]? = (slotsV σ.votes .prevote σ.height pol)[k]? := by
      intro τ hτ hinv
      have hv : τ.votes = (stored .prevote j (some b) σ.height pol σ).votes := by
        rcases hτ with e | e <;> rw [e] <;> rfl
      refine ⟨⟨?_, ?_, ?_, ?_, ?_, ?_, ?_, polr, ?_, ?_, ?_, ?_, ?_⟩, ?_, ?_⟩
      · rcases hτ with e | e <;> rw [e] <;> exact nh
      · rcases hτ with e | e <;> rw [e] <;> rfl
      · rcases hτ with e | e <;> rw [e] <;> exact hr
      · rcases hτ with e | e <;> rw [e] <;> exact st
      · rcases hτ with e | e <;> rw [e] <;> exact prop
      · rcases hτ with e | e <;> rw [e] <;> exact pb
      · rcases hτ with e | e <;> rw [e] <;> exact parts
      · rcases hτ with e | e
        · rw [e]; exact lkok
        · rw [e]; intro blk hb; cases hb
      · rcases hτ with e | e
        · rw [e]; exact lk
        · rw [e]; exact Or.inl (Or.inl rfl)
      · rw [hv, hpv]; exact hinv
      · rw [hv, hother _ _ (by omega)]; exact pv
      · rw [hv, hother _ _ (by omega)]; exact pc
      · rw [hv, hpv]; simp [hlen]
      · intro k hk
        rw [hv, hpv, List.getElem?_set_ne (fun e => hk e.symm)]
    -- which of the two
    have hupd := polkaUpdate_old pol
      (maj23 cfg.powers (slotsV (stored .prevote j (some b) σ.height pol σ).votes .prevote
        (stored .prevote j (some b) σ.height pol σ).height pol))
      (stored .prevote j (some b) σ.height pol σ) hne
    have hinv : isMaj cfg.powers ((slotsV σ.votes .prevote σ.height pol).set j (some (some b))) (some b) = true →
        ((polkaUpdate pol (maj23 cfg.powers (slotsV (stored .prevote j (some b) σ.height pol σ).votes .prevote
          (stored .prevote j (some b) σ.height pol σ).height pol))
          (stored .prevote j (some b) σ.height pol σ)).locked = none ∨
         (polkaUpdate pol (maj23 cfg.powers (slotsV (stored .prevote j (some b) σ.height pol σ).votes .prevote
          (stored .prevote j (some b) σ.height pol σ).height pol))
          (stored .prevote j (some b) σ.height pol σ)).locked = some ⟨b, true⟩) := by
      intro hm
      have hm' : maj23 cfg.powers (slotsV (stored .prevote j (some b) σ.height pol σ).votes .prevote
          (stored .prevote j (some b) σ.height pol σ).height pol) = some (some b) := by
        show maj23 cfg.powers (slotsV (stored .prevote j (some b) σ.height pol σ).votes .prevote σ.height pol) = _
        rw [hpv]; exact maj23_of_isMaj hm
      rw [hm']
      simp only [polkaUpdate]
      rcases lk with lk | lk
      · rw [polkaUnlock_same pol b _ (by exact lk), polkaValid_old pol b _ hne]
        exact lk
      · have hc := polkaUnlock_cases pol (some b) (stored .prevote j (some b) σ.height pol σ)
        rw [polkaValid_old pol b _ (by rcases hc with e | e <;> rw [e] <;> exact hne)]
        exact polkaUnlock_b pol b _ (by show pol ≤ σ.round; omega) (by exact lk) (by exact lkok)
    have hres := key _ hupd hinv
    rw [prevoteSwitch_old cfg nb _ pol _ _ _
      (by rcases hupd with e | e <;> rw [e] <;> (show pol < σ.round; omega))
      (by rcases hupd with e | e <;> rw [e] <;> exact prop)]
    exact hres
  · -- duplicate: ignored
    rw [step_vote_dup cfg nb peer j .prevote pol (some b) σ nh (some b) hs]
    exact ⟨⟨nh, rfl, hr, st, prop, pb, parts, polr, lkok, lk, inv, pv, pc⟩, hs, fun _ _ => rfl⟩

/-- **the POL prevotes of the validators `qs` arrive** -/
theorem run_polvotes {cfg : Config} {h r pol b : Nat} :
    ∀ (qs : List Nat) (σ : State), PreReady cfg h r pol b σ →
      (∀ q ∈ qs, q < n cfg ∧ ((slotsV σ.votes .prevote h pol)[q]? = some none ∨
        (slotsV σ.votes .prevote h pol)[q]? = some (some (some b)))) →
      PreReady cfg h r pol b (run cfg σ (qs.map (pvIn h pol b))) ∧
      ∀ q ∈ qs, (slotsV (run cfg σ (qs.map (pvIn h pol b))).votes .prevote h pol)[q]? = some (some (some b))
  | [], σ, P, _ => ⟨P, fun _ hq => by cases hq⟩
  | j :: qs, σ, P, hq => by
    obtain ⟨hj, hs⟩ := hq j (List.mem_cons_self ..)
    obtain ⟨P1, k1, k2⟩ := preReady_polvote P none j j hj hs
    have hq' : ∀ q ∈ qs, q < n cfg ∧
        ((slotsV (step cfg σ none (.vote j j .prevote h pol (some b) true)).votes .prevote h pol)[q]? = some none ∨
         (slotsV (step cfg σ none (.vote j j .prevote h pol (some b) true)).votes .prevote h pol)[q]? =
          some (some (some b))) := by
      intro q hqm
      refine ⟨(hq q (List.mem_cons_of_mem _ hqm)).1, ?_⟩
      by_cases e : q = j
      · rw [e]; exact Or.inr k1
      · rw [k2 q e]; exact (hq q (List.mem_cons_of_mem _ hqm)).2
    obtain ⟨P2, k3⟩ := run_polvotes qs _ P1 hq'
    refine ⟨P2, ?_⟩
    intro q hqm
    show (slotsV (run cfg (step cfg σ none (.vote j j .prevote h pol (some b) true)) (qs.map (pvIn h pol b))).votes
      .prevote h pol)[q]? = _
    by_cases hin : q ∈ qs
    · exact k3 q hin
    · have e : q = j := by
        rcases List.mem_cons.mp hqm with e | e
        · exact e
        · exact absurd e hin
      -- `j` does not occur later: its slot is untouched by the rest
      rw [e]
      clear k3 hq' hin hqm e
      -- generalise: later deliveries of other validators keep slot `j`
      have keep : ∀ (qs' : List Nat) (τ : State), PreReady cfg h r pol b τ →
          (∀ q ∈ qs', q < n cfg ∧ ((slotsV τ.votes .prevote h pol)[q]? = some none ∨
            (slotsV τ.votes .prevote h pol)[q]? = some (some (some b)))) →
          (slotsV τ.votes .prevote h pol)[j]? = some (some (some b)) →
          (slotsV (run cfg τ (qs'.map (pvIn h pol b))).votes .prevote h pol)[j]? = some (some (some b)) := by
        intro qs'
        induction qs' with
        | nil => intro τ _ _ hτ; exact hτ
        | cons c cs ih =>
          intro τ Pτ hqτ hτ
          obtain ⟨hc, hsc⟩ := hqτ c (List.mem_cons_self ..)
          obtain ⟨Q1, m1, m2⟩ := preReady_polvote Pτ none c c hc hsc
          show (slotsV (run cfg (step cfg τ none (.vote c c .prevote h pol (some b) true)) (cs.map (pvIn h pol b))).votes
            .prevote h pol)[j]? = _
          apply ih _ Q1
          · intro q hqm
            refine ⟨(hqτ q (List.mem_cons_of_mem _ hqm)).1, ?_⟩
            by_cases e : q = c
            · rw [e]; exact Or.inr m1
            · rw [m2 q e]; exact (hqτ q (List.mem_cons_of_mem _ hqm)).2
          · by_cases e : j = c
            · rw [e]; exact m1
            · rw [m2 j e]; exact hτ
      exact keep qs _ P1 (by
        intro q hqm
        refine ⟨(hq q (List.mem_cons_of_mem _ hqm)).1, ?_⟩
        by_cases e : q = j
        · rw [e]; exact Or.inr k1
        · rw [k2 q e]; exact (hq q (List.mem_cons_of_mem _ hqm)).2) k1

/-- after the POL prevotes of a quorum the node is `Ready` for the round -/
theorem preReady_ready {cfg : Config} {h r pol b : Nat} {σ : State} (P : PreReady cfg h r pol b σ)
    (hm : isMaj cfg.powers (slotsV σ.votes .prevote h pol) (some b) = true) : Ready cfg h r pol b σ := by
  obtain ⟨nh, hh, hr, st, prop, pb, parts, polr, lkok, lk, inv, pv, pc⟩ := P
  refine ⟨nh, hh, hr, st, prop, pb, parts, inv hm, Or.inr ⟨polr.2, ?_⟩, pv, pc⟩
  rw [maj23_of_isMaj hm]; rfl

end KV.Cs.Sync
