import KV.Model.Evidence
/-! Lemmas about the evidence model (property C19). Core Lean only. -/
namespace KV.Evidence

/-- the statement's acceptance predicate: two differently-targeted votes for the same height, round
and type, both validly signed (type included in what is signed) by ONE member `val` of the set,
whose power and the set's total are the stated ones -/
def RealDup (chain : Nat) (vs : ValSet) (e : Evidence) : Prop :=
  ∃ val, vs.find e.a.addr = some val ∧
    e.a.c.h = e.b.c.h ∧ e.a.c.r = e.b.c.r ∧ e.a.c.t = e.b.c.t ∧
    e.a.addr = e.b.addr ∧ e.a.c.b ≠ e.b.c.b ∧
    val.power = e.power ∧ vs.total = e.total ∧
    sigOK chain e.a val.addr = true ∧ sigOK chain e.b val.addr = true

theorem find_some {vs : ValSet} {a : Nat} {v : Val} (h : vs.find a = some v) : v ∈ vs ∧ v.addr = a := by
  unfold ValSet.find at h
  refine ⟨List.mem_of_find?_eq_some h, ?_⟩
  have := List.find?_some h
  simpa using this

theorem sigOK_iff (chain : Nat) (v : Vote) (a : Nat) :
    sigOK chain v a = true ↔ v.sig = .signed ⟨a, chain, v.c⟩ := by
  simp [sigOK]

theorem verifyDup_ok_iff (e : Evidence) (vs : ValSet) (chain : Nat) :
    verifyDup e vs chain = .ok ↔ RealDup chain vs e := by
  unfold verifyDup verifyDupWith RealDup
  cases hf : vs.find e.a.addr with
  | none => simp
  | some val =>
    simp only [Option.some.injEq, exists_eq_left']
    by_cases h1 : e.a.c.h ≠ e.b.c.h ∨ e.a.c.r ≠ e.b.c.r ∨ e.a.c.t ≠ e.b.c.t
    · rw [if_pos h1]
      constructor
      · intro h; cases h
      · rintro ⟨a, b, c, _⟩
        rcases h1 with h | h | h <;> contradiction
    · rw [if_neg h1]
      have h1' : e.a.c.h = e.b.c.h ∧ e.a.c.r = e.b.c.r ∧ e.a.c.t = e.b.c.t := by
        refine ⟨?_, ?_, ?_⟩ <;> (apply Classical.byContradiction; intro hn; exact h1 (by simp [hn]))
      by_cases h2 : e.a.addr ≠ e.b.addr
      · rw [if_pos h2]
        constructor
        · intro h; cases h
        · rintro ⟨_, _, _, d, _⟩; exact absurd d h2
      · rw [if_neg h2]
        have h2' : e.a.addr = e.b.addr := Classical.byContradiction fun hn => h2 hn
        by_cases h3 : e.a.c.b = e.b.c.b
        · rw [if_pos h3]
          constructor
          · intro h; cases h
          · rintro ⟨_, _, _, _, d, _⟩; exact absurd h3 d
        · rw [if_neg h3]
          by_cases h4 : val.power ≠ e.power
          · rw [if_pos h4]
            constructor
            · intro h; cases h
            · rintro ⟨_, _, _, _, _, d, _⟩; exact absurd d h4
          · rw [if_neg h4]
            have h4' : val.power = e.power := Classical.byContradiction fun hn => h4 hn
            by_cases h5 : vs.total ≠ e.total
            · rw [if_pos h5]
              constructor
              · intro h; cases h
              · rintro ⟨_, _, _, _, _, _, d, _⟩; exact absurd d h5
            · rw [if_neg h5]
              have h5' : vs.total = e.total := Classical.byContradiction fun hn => h5 hn
              cases h6 : sigOK chain e.a val.addr
              · simp
              · cases h7 : sigOK chain e.b val.addr
                · simp
                · simp [h1'.1, h1'.2.1, h1'.2.2, h2', h3, h4', h5']

/-! ## `verify` and the accepting paths -/

theorem verify_ok {env : Env} {p : Pool} {e : Evidence} (h : verify env p e = .ok) :
    ∃ bt vs, env.times.lookup e.height = some bt ∧ e.time = bt ∧ verifyExpired p e.height bt = false ∧
      env.vals.lookup e.height = some vs ∧ RealDup env.chain vs e := by
  unfold verify at h
  cases ht : env.times.lookup e.height with
  | none => simp [ht] at h
  | some bt =>
    simp only [ht] at h
    by_cases h1 : e.time ≠ bt
    · simp [h1] at h
    · have h1' : e.time = bt := Classical.byContradiction fun hn => h1 hn
      rw [if_neg h1] at h
      cases h2 : verifyExpired p e.height bt
      · simp only [h2] at h
        cases hv : env.vals.lookup e.height with
        | none => simp [hv] at h
        | some vs =>
          simp only [hv] at h
          exact ⟨bt, vs, rfl, h1', h2, rfl, (verifyDup_ok_iff e vs env.chain).1 (by simpa using h)⟩
      · simp [h2] at h

theorem addEvidence_added {env : Env} {p p' : Pool} {e : Evidence} (h : addEvidence env p e = (p', .added)) :
    isPending p e = false ∧ isCommitted p e = false ∧ verify env p e = .ok ∧ p' = addPending p e := by
  unfold addEvidence at h
  cases hp : isPending p e
  · cases hc : isCommitted p e
    · simp only [hp, hc, Bool.false_eq_true, if_false] at h
      cases hv : verify env p e <;> simp [hv] at h
      exact ⟨rfl, rfl, rfl, h.symm⟩
    · simp [hp, hc] at h
  · simp [hp] at h

/-! ## membership lemmas for the two sorted tables -/

theorem mem_insertEv {e x : Evidence} {l : List Evidence} : x ∈ insertEv e l ↔ x = e ∨ x ∈ l := by
  induction l with
  | nil => simp [insertEv]
  | cons y r ih =>
    unfold insertEv
    by_cases h : keyLt e.key y.key = true
    · simp [h]
    · simp only [h, if_false, List.mem_cons, ih, Bool.false_eq_true]
      constructor
      · rintro (h | h | h)
        · exact Or.inr (Or.inl h)
        · exact Or.inl h
        · exact Or.inr (Or.inr h)
      · rintro (h | h | h)
        · exact Or.inr (Or.inl h)
        · exact Or.inl h
        · exact Or.inr (Or.inr h)

theorem mem_insertKey {k x : Key} {l : List Key} : x ∈ insertKey k l ↔ x = k ∨ x ∈ l := by
  induction l with
  | nil => simp [insertKey]
  | cons y r ih =>
    unfold insertKey
    by_cases h1 : k = y
    · subst h1
      simp
    · simp only [h1, if_false]
      by_cases h : keyLt k y = true
      · simp [h]
      · simp only [h, if_false, List.mem_cons, ih, Bool.false_eq_true]
        constructor
        · rintro (h | h | h)
          · exact Or.inr (Or.inl h)
          · exact Or.inl h
          · exact Or.inr (Or.inr h)
        · rintro (h | h | h)
          · exact Or.inr (Or.inl h)
          · exact Or.inl h
          · exact Or.inr (Or.inr h)

theorem isPending_iff {p : Pool} {e : Evidence} : isPending p e = true ↔ ∃ x ∈ p.pending, x.key = e.key := by
  simp [isPending, List.any_eq_true]

theorem isCommitted_iff {p : Pool} {e : Evidence} : isCommitted p e = true ↔ e.key ∈ p.committed := by
  simp [isCommitted]

/-! ## the invariant: nothing is pending and committed at once -/

def Inv (p : Pool) : Prop := ∀ x ∈ p.pending, x.key ∉ p.committed

theorem inv_addPending {p : Pool} {e : Evidence} (hi : Inv p) (hc : isCommitted p e = false) : Inv (addPending p e) := by
  intro x hx
  simp only [addPending, mem_insertEv] at hx
  rcases hx with rfl | hx
  · intro hm
    have h2 : isCommitted p x = true := isCommitted_iff.2 hm
    rw [hc] at h2; cases h2
  · exact hi x hx

theorem pending_not_committed {p : Pool} {e : Evidence} (hi : Inv p) (hp : isPending p e = true) : isCommitted p e = false := by
  obtain ⟨x, hx, hk⟩ := isPending_iff.1 hp
  cases hc : isCommitted p e
  · rfl
  · have := isCommitted_iff.1 hc
    rw [← hk] at this
    exact absurd this (hi x hx)

/-- the loop of `CheckEvidence`: the committed table is untouched, the invariant survives, and when
the answer is `ok` no entry of the list was committed, no hash occurs twice, none was in `seen` -/
theorem checkLoop_spec (env : Env) : ∀ (l : List Evidence) (p : Pool) (seen : List Nat) (p' : Pool) (v : Verdict),
    Inv p → checkLoop env p seen l = (p', v) →
    Inv p' ∧ p'.committed = p.committed ∧
    (v = .ok → (∀ e ∈ l, isCommitted p e = false ∧ e.hash ∉ seen) ∧ (l.map (·.hash)).Nodup)
  | [], p, seen, p', v, hi, h => by
    simp only [checkLoop, Prod.mk.injEq] at h
    obtain ⟨rfl, rfl⟩ := h
    exact ⟨hi, rfl, fun _ => ⟨by simp, by simp⟩⟩
  | e :: rest, p, seen, p', v, hi, h => by
    unfold checkLoop at h
    by_cases hp : isPending p e = true
    · simp only [hp, if_true] at h
      by_cases hs : seen.contains e.hash = true
      · simp only [hs, if_true, Prod.mk.injEq] at h
        obtain ⟨rfl, rfl⟩ := h
        exact ⟨hi, rfl, fun h => by cases h⟩
      · simp only [hs, if_false, Bool.false_eq_true] at h
        obtain ⟨i1, i2, i3⟩ := checkLoop_spec env rest p (e.hash :: seen) p' v hi h
        refine ⟨i1, i2, fun hv => ?_⟩
        obtain ⟨j1, j2⟩ := i3 hv
        have hns : e.hash ∉ seen := by simpa using hs
        refine ⟨?_, ?_⟩
        · intro x hx
          rcases List.mem_cons.1 hx with rfl | hx
          · exact ⟨pending_not_committed hi hp, hns⟩
          · exact ⟨(j1 x hx).1, fun hm => (j1 x hx).2 (List.mem_cons_of_mem _ hm)⟩
        · simp only [List.map_cons, List.nodup_cons]
          refine ⟨?_, j2⟩
          intro hm
          obtain ⟨y, hy, hh⟩ := List.mem_map.1 hm
          exact (j1 y hy).2 (by rw [hh]; exact List.mem_cons_self)
    · simp only [hp, if_false, Bool.false_eq_true] at h
      by_cases hc : isCommitted p e = true
      · simp only [hc, if_true, Prod.mk.injEq] at h
        obtain ⟨rfl, rfl⟩ := h
        exact ⟨hi, rfl, fun h => by cases h⟩
      · have hc' : isCommitted p e = false := by simpa using hc
        simp only [hc, if_false, Bool.false_eq_true] at h
        cases hv : verify env p e <;> simp only [hv, Prod.mk.injEq] at h
        case ok =>
          by_cases hs : seen.contains e.hash = true
          · simp only [hs, if_true, Prod.mk.injEq] at h
            obtain ⟨rfl, rfl⟩ := h
            exact ⟨inv_addPending hi hc', rfl, fun h => by cases h⟩
          · simp only [hs, if_false, Bool.false_eq_true] at h
            obtain ⟨i1, i2, i3⟩ := checkLoop_spec env rest (addPending p e) (e.hash :: seen) p' v (inv_addPending hi hc') h
            refine ⟨i1, i2, fun hv => ?_⟩
            obtain ⟨j1, j2⟩ := i3 hv
            have hns : e.hash ∉ seen := by simpa using hs
            refine ⟨?_, ?_⟩
            · intro x hx
              rcases List.mem_cons.1 hx with rfl | hx
              · exact ⟨hc', hns⟩
              · exact ⟨by simpa [isCommitted, addPending] using (j1 x hx).1, fun hm => (j1 x hx).2 (List.mem_cons_of_mem _ hm)⟩
            · simp only [List.map_cons, List.nodup_cons]
              refine ⟨?_, j2⟩
              intro hm
              obtain ⟨y, hy, hh⟩ := List.mem_map.1 hm
              exact (j1 y hy).2 (by rw [hh]; exact List.mem_cons_self)
        all_goals (obtain ⟨rfl, rfl⟩ := h; exact ⟨hi, rfl, fun h => by cases h⟩)

/-! ## `Update` -/

theorem inv_markCommitted {p : Pool} {e : Evidence} (hi : Inv p) : Inv (markCommitted p e) := by
  intro x hx
  simp only [markCommitted, List.mem_filter, bne_iff_ne, ne_eq] at hx
  simp only [markCommitted, mem_insertKey, not_or]
  exact ⟨hx.2, hi x hx.1⟩

theorem inv_foldl_mark : ∀ (l : List Evidence) (p : Pool), Inv p → Inv (l.foldl markCommitted p)
  | [], _, hi => hi
  | e :: r, p, hi => inv_foldl_mark r (markCommitted p e) (inv_markCommitted hi)

theorem committed_foldl_mark : ∀ (l : List Evidence) (p : Pool) (k : Key),
    k ∈ (l.foldl markCommitted p).committed ↔ k ∈ p.committed ∨ ∃ e ∈ l, e.key = k
  | [], p, k => by simp
  | e :: r, p, k => by
    rw [List.foldl_cons, committed_foldl_mark r (markCommitted p e) k]
    have hm : k ∈ (markCommitted p e).committed ↔ k = e.key ∨ k ∈ p.committed := mem_insertKey
    rw [hm]
    constructor
    · rintro ((h | h) | ⟨x, hx, hk⟩)
      · exact Or.inr ⟨e, List.mem_cons_self, h.symm⟩
      · exact Or.inl h
      · exact Or.inr ⟨x, List.mem_cons_of_mem _ hx, hk⟩
    · rintro (h | ⟨x, hx, hk⟩)
      · exact Or.inl (Or.inr h)
      · rcases List.mem_cons.1 hx with rfl | hx
        · exact Or.inl (Or.inl hk.symm)
        · exact Or.inr ⟨x, hx, hk⟩

theorem isExpired_removeExpired (p : Pool) (h : Nat) (t : Int) :
    isExpired (removeExpired p) h t = isExpired p h t := by
  unfold removeExpired; split <;> rfl

theorem removeExpired_committed (p : Pool) : (removeExpired p).committed = p.committed := by
  unfold removeExpired; split <;> rfl

theorem removeExpired_pending_sub (p : Pool) : ∀ x ∈ (removeExpired p).pending, x ∈ p.pending := by
  intro x hx
  unfold removeExpired at hx
  split at hx
  · simp at hx
  · rename_i e rest heq
    have : x ∈ p.pending.dropWhile (fun e => isExpired p e.height e.time) := by rw [heq]; exact hx
    exact (List.dropWhile_sublist _).subset this

theorem inv_removeExpired {p : Pool} (hi : Inv p) : Inv (removeExpired p) := by
  intro x hx
  rw [removeExpired_committed]
  exact hi x (removeExpired_pending_sub p x hx)

theorem mem_dropWhile_or {α} (f : α → Bool) : ∀ (l : List α) (x : α), x ∈ l → x ∈ l.dropWhile f ∨ f x = true
  | [], _, h => by cases h
  | y :: r, x, h => by
    by_cases hy : f y = true
    · rw [List.dropWhile_cons_of_pos hy]
      rcases List.mem_cons.1 h with rfl | h
      · exact Or.inr hy
      · exact mem_dropWhile_or f r x h
    · rw [List.dropWhile_cons_of_neg hy]
      exact Or.inl h

/-- the expiry pass only drops entries that are expired by `isExpired` at the pool's state -/
theorem removeExpired_keeps {p : Pool} {x : Evidence} (hx : x ∈ p.pending) :
    x ∈ (removeExpired p).pending ∨ isExpired p x.height x.time = true := by
  rcases mem_dropWhile_or (fun e => isExpired p e.height e.time) p.pending x hx with h | h
  · left
    unfold removeExpired
    split
    · rename_i heq; rw [heq] at h; cases h
    · rename_i e rest heq; rw [heq] at h; exact h
  · exact Or.inr h

theorem update_spec {p p' : Pool} {h : Nat} {t : Int} {l : List Evidence} (hu : update p h t l = some p') (hi : Inv p) :
    Inv p' ∧ (∀ k, k ∈ p'.committed ↔ k ∈ p.committed ∨ ∃ e ∈ l, e.key = k) := by
  unfold update at hu
  by_cases hh : h ≤ p.height
  · simp [hh] at hu
  · simp only [hh, if_false, Option.some.injEq] at hu
    have hi1 : Inv { p with height := h, time := t } := hi
    have hi2 := inv_foldl_mark l _ hi1
    have hc2 := committed_foldl_mark l { p with height := h, time := t }
    subst hu
    split
    · exact ⟨inv_removeExpired hi2, fun k => by rw [removeExpired_committed]; exact hc2 k⟩
    · exact ⟨hi2, hc2⟩

/-! ## sequences of operations -/

/-- the environment's promise about `AddEvidenceFromConsensus`: consensus never hands over
evidence whose key is already committed (it only builds evidence about the height it is deciding,
with a fresh time stamp) -/
def Fresh : Pool → List (Env × Op) → Prop
  | _, [] => True
  | p, (env, op) :: rest =>
    (match op with
     | .cons e => isCommitted p e = false
     | _ => True) ∧ Fresh (apply env p op) rest

theorem apply_spec (env : Env) (p : Pool) (op : Op) (hi : Inv p)
    (hf : match op with | .cons e => isCommitted p e = false | _ => True) :
    Inv (apply env p op) ∧ ∀ k, k ∈ p.committed → k ∈ (apply env p op).committed := by
  cases op with
  | add e =>
    simp only [apply, addEvidence]
    by_cases hp : isPending p e = true
    · simp [hp]; exact hi
    · by_cases hc : isCommitted p e = true
      · simp [hp, hc]; exact hi
      · have hc' : isCommitted p e = false := by simpa using hc
        simp only [hp, hc, if_false, Bool.false_eq_true]
        cases hv : verify env p e
        case ok => exact ⟨inv_addPending hi hc', fun k hk => hk⟩
        all_goals exact ⟨hi, fun k hk => hk⟩
  | cons e =>
    simp only [apply, addFromConsensus]
    by_cases hp : isPending p e = true
    · simp [hp]; exact hi
    · simp only [hp, if_false, Bool.false_eq_true]
      exact ⟨inv_addPending hi hf, fun k hk => hk⟩
  | check l =>
    simp only [apply, checkEvidence]
    obtain ⟨i1, i2, _⟩ := checkLoop_spec env l p [] _ _ hi rfl
    exact ⟨i1, fun k hk => by rw [i2]; exact hk⟩
  | update h t l =>
    simp only [apply]
    cases hu : update p h t l with
    | none => exact ⟨hi, fun k hk => hk⟩
    | some p' =>
      obtain ⟨i1, i2⟩ := update_spec hu hi
      exact ⟨i1, fun k hk => (i2 k).2 (Or.inl hk)⟩
  | restart h t =>
    simp only [apply, restart]
    refine ⟨inv_removeExpired (p := { p with height := h, time := t }) hi, fun k hk => ?_⟩
    rw [removeExpired_committed]; exact hk

theorem run_spec : ∀ (ops : List (Env × Op)) (p : Pool), Inv p → Fresh p ops →
    Inv (run p ops) ∧ ∀ k, k ∈ p.committed → k ∈ (run p ops).committed
  | [], p, hi, _ => ⟨hi, fun _ hk => hk⟩
  | (env, op) :: rest, p, hi, hf => by
    obtain ⟨a1, a2⟩ := apply_spec env p op hi hf.1
    obtain ⟨r1, r2⟩ := run_spec rest (apply env p op) a1 hf.2
    exact ⟨r1, fun k hk => r2 k (a2 k hk)⟩

/-! ## pending until committed or expired: one step -/

theorem pending_step (env : Env) (p : Pool) (op : Op) (x : Evidence) (hx : x ∈ p.pending) :
    x ∈ (apply env p op).pending ∨
    (∃ h t l, op = .update h t l ∧ ∃ e ∈ l, e.key = x.key) ∨
    isExpired (apply env p op) x.height x.time = true := by
  cases op with
  | add e =>
    left
    simp only [apply, addEvidence]
    split
    · exact hx
    · split
      · exact hx
      · split
        · exact mem_insertEv.2 (Or.inr hx)
        · exact hx
  | cons e =>
    left
    simp only [apply, addFromConsensus]
    split
    · exact hx
    · exact mem_insertEv.2 (Or.inr hx)
  | check l =>
    left
    simp only [apply, checkEvidence]
    have : ∀ (l : List Evidence) (p : Pool) (seen : List Nat), x ∈ p.pending → x ∈ (checkLoop env p seen l).1.pending := by
      intro l
      induction l with
      | nil => intro p seen h; exact h
      | cons e r ih =>
        intro p seen h
        unfold checkLoop
        split
        · split
          · exact h
          · exact ih p _ h
        · split
          · exact h
          · split
            · split
              · exact mem_insertEv.2 (Or.inr h)
              · exact ih _ _ (mem_insertEv.2 (Or.inr h))
            · exact h
    exact this l p [] hx
  | update h t l =>
    simp only [apply]
    cases hu : update p h t l with
    | none => exact Or.inl hx
    | some p' =>
      simp only [Option.getD_some]
      unfold update at hu
      by_cases hh : h ≤ p.height
      · simp [hh] at hu
      · simp only [hh, if_false, Option.some.injEq] at hu
        -- after marking
        have hm : ∀ (l : List Evidence) (q : Pool), x ∈ q.pending →
            x ∈ (l.foldl markCommitted q).pending ∨ ∃ e ∈ l, e.key = x.key := by
          intro l
          induction l with
          | nil => intro q h; exact Or.inl h
          | cons e r ih =>
            intro q h
            by_cases hk : e.key = x.key
            · exact Or.inr ⟨e, List.mem_cons_self, hk⟩
            · have : x ∈ (markCommitted q e).pending := by
                simp only [markCommitted, List.mem_filter, bne_iff_ne, ne_eq]
                exact ⟨h, fun h' => hk h'.symm⟩
              rcases ih (markCommitted q e) this with h1 | ⟨e', he', hk'⟩
              · exact Or.inl h1
              · exact Or.inr ⟨e', List.mem_cons_of_mem _ he', hk'⟩
        rcases hm l { p with height := h, time := t } hx with h1 | h1
        · subst hu
          split
          · rcases removeExpired_keeps h1 with h2 | h2
            · exact Or.inl h2
            · right; right
              rw [isExpired_removeExpired]; exact h2
          · exact Or.inl h1
        · exact Or.inr (Or.inl ⟨h, t, l, rfl, h1⟩)
  | restart h t =>
    simp only [apply, restart]
    rcases removeExpired_keeps (p := { p with height := h, time := t }) hx with h2 | h2
    · exact Or.inl h2
    · right; right
      rw [isExpired_removeExpired]; exact h2

/-- `PendingEvidence(-1)` offers the whole pending table -/
theorem takeBytes_all : ∀ (l : List Evidence) (acc : Int), (takeBytes (-1) acc l).1 = l
  | [], _ => rfl
  | e :: r, acc => by
    unfold takeBytes
    simp [takeBytes_all r]

theorem pendingEvidence_all (p : Pool) : (pendingEvidence p (-1)).1 = p.pending := by
  unfold pendingEvidence
  cases h : p.pending with
  | nil => simp
  | cons e r => simp [takeBytes_all]

theorem sizes_nonneg : ∀ l : List Evidence, 0 ≤ (l.map (fun e => (e.size : Int))).sum
  | [] => by simp
  | e :: r => by
    simp only [List.map_cons, List.sum_cons]
    have := sizes_nonneg r
    omega

/-- size permitting: with a cap at least the total size everything is offered -/
theorem takeBytes_fits : ∀ (l : List Evidence) (acc max : Int),
    acc + ((l.map (fun e => (e.size : Int))).sum) ≤ max → (takeBytes max acc l).1 = l
  | [], _, _, _ => rfl
  | e :: r, acc, max, h => by
    unfold takeBytes
    simp only [List.map_cons, List.sum_cons] at h
    have hnn : 0 ≤ ((r.map (fun e => (e.size : Int))).sum) := sizes_nonneg r
    have h1 : ¬ (max ≠ -1 ∧ acc + (e.size : Int) > max) := by omega
    simp only [h1, if_false]
    have := takeBytes_fits r (acc + e.size) max (by omega)
    simp [this]

end KV.Evidence
