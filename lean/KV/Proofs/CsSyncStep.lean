import KV.Proofs.CsSyncTally
import KV.Proofs.CsFrame
/-! One node in a synchronous round (C04, `KV/Props/C04Net.lean`): what `Cs.step` does with the
proposal, the block, the prevotes and the precommits of a round in which every vote is for the
proposed block `b`.  Stage predicates `Ready` (round entered, nothing received), `S1` (prevoted
`b`, no polka yet), `S2` (precommitted `b`, locked on it, no commit quorum yet), and one
transition lemma per input.  Core Lean only. -/
namespace KV.Cs.Sync

/-! ### the vote sets after a vote is stored -/

theorem slotsV_setSlot (v : List RoundVotes) (t : VType) (idx : Nat) (tgt : Target) (h r : Nat)
    (t' : VType) (h' r' : Nat) :
    slotsV (v.map (setSlot t idx tgt h r)) t' h' r' =
      if h' = h ∧ r' = r ∧ t' = t then (slotsV v t' h' r').set idx (some tgt) else slotsV v t' h' r' := by
  unfold slotsV
  rw [findRV_map_setSlot]
  cases hf : findRV v h' r' with
  | none => simp
  | some rv =>
    have hkey : rv.height = h' ∧ rv.round = r' := by
      have := List.find?_some hf
      simpa using this
    simp only [Option.map_some]
    rw [slotsOf_setSlot]
    by_cases hc : h' = h ∧ r' = r ∧ t' = t
    · obtain ⟨rfl, rfl, rfl⟩ := hc
      simp [hkey.1, hkey.2]
    · rw [if_neg hc, if_neg]
      intro hc'
      simp only [Bool.and_eq_true, beq_iff_eq] at hc'
      exact hc ⟨by omega, by omega, hc'.2⟩

theorem slotsV_setSlot_same (v : List RoundVotes) (t : VType) (idx : Nat) (tgt : Target) (h r : Nat) :
    slotsV (v.map (setSlot t idx tgt h r)) t h r = (slotsV v t h r).set idx (some tgt) := by
  rw [slotsV_setSlot, if_pos ⟨rfl, rfl, rfl⟩]

theorem slotsV_setSlot_ty (v : List RoundVotes) (t t' : VType) (idx : Nat) (tgt : Target) (h r h' r' : Nat)
    (ht : t' ≠ t) : slotsV (v.map (setSlot t idx tgt h r)) t' h' r' = slotsV v t' h' r' := by
  rw [slotsV_setSlot, if_neg (fun hc => ht hc.2.2)]

theorem slotsV_setSlot_round (v : List RoundVotes) (t t' : VType) (idx : Nat) (tgt : Target) (h r h' r' : Nat)
    (hr : r' ≠ r) : slotsV (v.map (setSlot t idx tgt h r)) t' h' r' = slotsV v t' h' r' := by
  rw [slotsV_setSlot, if_neg (fun hc => hr hc.2.1)]

/-- a non-empty slot list means the round's vote set exists -/
theorem findRV_isSome_of_slot {v : List RoundVotes} {t : VType} {h r idx : Nat} {x : Option Target}
    (hs : (slotsV v t h r)[idx]? = some x) : (findRV v h r).isSome = true := by
  unfold slotsV at hs
  cases hf : findRV v h r with
  | none => rw [hf] at hs; simp at hs
  | some rv => rfl

/-- the state after `addVote` stored the vote -/
def stored (t : VType) (idx : Nat) (tgt : Target) (h r : Nat) (σ : State) : State :=
  { σ with votes := σ.votes.map (setSlot t idx tgt h r), added := true }

/-- a vote of the current height for an existing round with an empty slot is stored and the
branch of its type runs -/
theorem step_vote_stored (cfg : Config) (nb : Option Nat) (peer idx : Nat) (t : VType) (r : Nat) (tgt : Target)
    (σ : State) (hh : σ.halted = false) (hidx : idx < n cfg)
    (hs : (slotsV σ.votes t σ.height r)[idx]? = some none) :
    step cfg σ nb (.vote peer idx t σ.height r tgt true) =
      match t with
      | .prevote => afterPrevote cfg nb r (stored t idx tgt σ.height r σ)
      | .precommit => afterPrecommit cfg nb r (stored t idx tgt σ.height r σ) := by
  have hr := findRV_isSome_of_slot hs
  unfold step
  rw [if_neg (by simp [hh])]
  simp only
  unfold addVote
  rw [if_neg (by simp), if_neg (by simp)]
  have he : ensureRound cfg peer r { σ with added := false } = some { σ with added := false } := by
    unfold ensureRound hasRound
    rw [if_pos hr]
  rw [he]
  simp only
  rw [if_neg (by simp [hidx])]
  have hs' : (State.slots { σ with added := false } t σ.height r)[idx]? = some none := hs
  rw [hs']
  cases t <;> rfl

def PolOk (cfg : Config) (h r pol : Nat) (votes : List RoundVotes) : Prop :=
  pol = 0 ∨ (pol < r ∧ (maj23 cfg.powers (slotsV votes .prevote h pol)).isSome = true)

theorem isProposalComplete_of {cfg : Config} {h r pol b : Nat} {σ : State} {blk : Blk}
    (hp : σ.proposal = some ⟨r, pol, b⟩) (hb : σ.pblock = some blk) (hh : σ.height = h)
    (hpol : PolOk cfg h r pol σ.votes) : isProposalComplete cfg σ = true := by
  unfold isProposalComplete
  rw [hp, hb]
  simp only
  rcases hpol with h0 | ⟨_, h1⟩
  · simp [h0]
  · split
    · rfl
    · rw [State.slots_eq, hh]; exact h1

theorem toNat_propose : Step.propose.toNat = 3 := rfl
theorem toNat_prevote : Step.prevote.toNat = 4 := rfl
theorem toNat_precommit : Step.precommit.toNat = 6 := rfl
theorem toNat_commit : Step.commit.toNat = 8 := rfl

/-! ### micro-lemmas: each `enterX` / branch under the guards that hold in a synchronous round -/

theorem step_live (cfg : Config) (σ : State) (nb : Option Nat) (i : Input) (hh : σ.halted = false) :
    step cfg σ nb i =
      match i with
      | .proposal src sigok h r pol id => setProposal cfg src sigok h r pol id { σ with added := false }
      | .block h id ok dec => addBlock cfg h id ok dec { σ with added := false }
      | .vote peer idx t h r tgt sigok => addVote cfg nb peer idx t h r tgt sigok { σ with added := false }
      | .timeout h r s => handleTimeout cfg nb h r s { σ with added := false } := by
  unfold step
  rw [if_neg (by simp [hh])]
  rfl

theorem setProposal_accept (cfg : Config) (p h r pol b : Nat) (σ : State) (hn : σ.proposal = none)
    (hh : σ.height = h) (hr : σ.round = r) (hpol : pol = 0 ∨ pol < r) (hp : cfg.proposer h r = p)
    (hparts : σ.parts = none) :
    setProposal cfg p true h r pol b σ = { σ with proposal := some ⟨r, pol, b⟩, parts := some (b, false) } := by
  unfold setProposal
  have hpol' : ¬ (pol ≠ 0 ∧ r ≤ pol) := by omega
  simp [hn, hh, hr, hp, hparts, hpol']

theorem addBlock_complete (cfg : Config) (h id : Nat) (ok : Bool) (σ : State) (hh : σ.height = h)
    (hp : σ.parts = some (id, false)) :
    addBlock cfg h id ok true σ = afterBlock cfg h (storeBlock cfg ⟨id, ok⟩ σ) := by
  unfold addBlock
  rw [if_neg (by simp [hh]), hp]
  simp

theorem storeBlock_noPolka (cfg : Config) (blk : Blk) (σ : State)
    (hm : maj23 cfg.powers (slotsV σ.votes .prevote σ.height σ.round) = none) :
    storeBlock cfg blk σ =
      { σ with pblock := some blk, parts := some (blk.id, true), seen := (σ.height, blk) :: σ.seen } := by
  unfold storeBlock
  simp only [State.slots_eq, hm]

theorem afterBlock_prevote (cfg : Config) (h : Nat) (σ : State) (hs : σ.step = .propose)
    (hc : isProposalComplete cfg σ = true)
    (hm : maj23 cfg.powers (slotsV σ.votes .prevote σ.height σ.round) = none) :
    afterBlock cfg h σ = enterPrevote cfg h σ.round σ := by
  unfold afterBlock
  rw [if_pos (by simp [hs, hc])]
  simp only [State.slots_eq, hm]
  rfl

theorem enterPrevote_fires (cfg : Config) (h r : Nat) (σ : State) (hh : σ.height = h) (hr : σ.round = r)
    (hs : σ.step.toNat < 4) :
    enterPrevote cfg h r σ = { doPrevote cfg σ with round := r, step := .prevote } := by
  unfold enterPrevote
  rw [if_neg (by rw [show Step.prevote.toNat = 4 from rfl]; omega)]

theorem doPrevote_block (cfg : Config) (b : Nat) (σ : State) (hv : isVal cfg = true)
    (lk : σ.locked = none ∨ σ.locked = some ⟨b, true⟩) (pb : σ.pblock = some ⟨b, true⟩) :
    doPrevote cfg σ = emit (.signVote .prevote σ.height σ.round (some b)) σ := by
  unfold doPrevote signAddVote
  rcases lk with lk | lk <;> simp [lk, hv, pb]

theorem afterPrevote_quiet (cfg : Config) (nb : Option Nat) (vr : Nat) (σ : State)
    (hm : maj23 cfg.powers (slotsV σ.votes .prevote σ.height vr) = none)
    (ha : hasAny cfg.powers (slotsV σ.votes .prevote σ.height vr) = false)
    (hr : σ.round = vr) (hs : 4 ≤ σ.step.toNat) : afterPrevote cfg nb vr σ = σ := by
  unfold afterPrevote
  simp only [State.slots_eq, hm, ha, polkaUpdate]
  unfold prevoteSwitch
  simp [hr, toNat_prevote, hs]

theorem polkaUnlock_same (vr b : Nat) (σ : State) (lk : σ.locked = none ∨ σ.locked = some ⟨b, true⟩) :
    polkaUnlock vr (some b) σ = σ := by
  unfold polkaUnlock
  rcases lk with lk | lk <;> simp [lk]

theorem polkaValid_have (vr b : Nat) (σ : State) (pb : σ.pblock = some ⟨b, true⟩)
    (parts : σ.parts = some (b, true)) :
    ∃ vr' vb, polkaValid vr b σ = { σ with validRound := vr', validB := vb } := by
  unfold polkaValid
  split
  · refine ⟨vr, σ.pblock, ?_⟩
    simp [idIs, partsHas, pb, parts]
  · exact ⟨σ.validRound, σ.validB, rfl⟩

theorem prevoteSwitch_polka (cfg : Config) (nb : Option Nat) (h vr : Nat) (bid : Target) (any : Bool) (σ : State)
    (hr : σ.round = vr) (hs : 4 ≤ σ.step.toNat) (hc : isProposalComplete cfg σ = true) :
    prevoteSwitch cfg nb h vr (some bid) any σ = enterPrecommit cfg h vr σ := by
  unfold prevoteSwitch
  simp [hr, toNat_prevote, hs, hc]

theorem enterPrecommit_fires (cfg : Config) (h r : Nat) (σ : State) (hh : σ.height = h) (hr : σ.round = r)
    (hs : σ.step.toNat < 6) :
    enterPrecommit cfg h r σ = { doPrecommit cfg r σ with round := r, step := .precommit } := by
  unfold enterPrecommit
  rw [if_neg (by rw [show Step.precommit.toNat = 6 from rfl]; omega),
    if_neg (by intro hc; rw [hc] at hs; exact absurd hs (by decide))]

theorem enterPrecommit_noop (cfg : Config) (h r : Nat) (σ : State) (hr : σ.round = r)
    (hs : 6 ≤ σ.step.toNat) : enterPrecommit cfg h r σ = σ := by
  unfold enterPrecommit
  rw [if_pos (by rw [show Step.precommit.toNat = 6 from rfl]; omega)]

theorem doPrecommit_lock (cfg : Config) (r b : Nat) (σ : State) (hv : isVal cfg = true)
    (hm : maj23 cfg.powers (slotsV σ.votes .prevote σ.height r) = some (some b))
    (lk : σ.locked = none ∨ σ.locked = some ⟨b, true⟩) (pb : σ.pblock = some ⟨b, true⟩) :
    doPrecommit cfg r σ =
      emit (.signVote .precommit σ.height σ.round (some b)) { σ with lockedRound := r, locked := some ⟨b, true⟩ } := by
  unfold doPrecommit
  simp only [State.slots_eq, hm]
  rcases lk with lk | lk
  · simp [lk, idIs, pb, signAddVote, hv]
  · rw [if_pos (by simp [lk, idIs])]
    simp only [signAddVote, hv, if_true]
    conv => rhs; rw [← lk]

theorem afterPrecommit_quiet (cfg : Config) (nb : Option Nat) (vr : Nat) (σ : State)
    (hm : maj23 cfg.powers (slotsV σ.votes .precommit σ.height vr) = none)
    (ha : hasAny cfg.powers (slotsV σ.votes .precommit σ.height vr) = false) :
    afterPrecommit cfg nb vr σ = σ := by
  unfold afterPrecommit
  simp only [State.slots_eq, hm, ha]
  simp

theorem enterNewRound_noop (cfg : Config) (nb : Option Nat) (h r : Nat) (σ : State) (hr : σ.round = r)
    (hs : σ.step ≠ .newHeight) : enterNewRound cfg nb h r σ = σ := by
  unfold enterNewRound
  rw [if_pos (Or.inr (Or.inr ⟨hr, hs⟩))]

theorem afterPrecommit_commit (cfg : Config) (nb : Option Nat) (vr b : Nat) (σ : State)
    (hm : maj23 cfg.powers (slotsV σ.votes .precommit σ.height vr) = some (some b))
    (hr : σ.round = vr) (hs : σ.step = .precommit) :
    afterPrecommit cfg nb vr σ = enterCommit cfg σ.height vr σ := by
  unfold afterPrecommit
  simp only [State.slots_eq, hm]
  rw [enterNewRound_noop cfg nb _ vr σ hr (by rw [hs]; decide),
    enterPrecommit_noop cfg _ vr σ hr (by rw [hs]; decide)]

theorem enterCommit_log (cfg : Config) (h cr b : Nat) (σ : State) (hh : σ.height = h)
    (hs : σ.step = .precommit)
    (hm : maj23 cfg.powers (slotsV σ.votes .precommit h cr) = some (some b))
    (lk : σ.locked = some ⟨b, true⟩) :
    Action.commit h b ∈ (enterCommit cfg h cr σ).log := by
  subst hh
  unfold enterCommit
  rw [if_neg (by rw [hs]; simp [Step.toNat])]
  have hprep : commitPrep cfg cr σ = { σ with pblock := some ⟨b, true⟩, parts := some (b, true) } := by
    unfold commitPrep
    simp only [State.slots_eq, hm]
    unfold takeLocked
    simp only [lk]
    simp [expectBlock, idIs]
  rw [hprep]
  unfold tryFinalizeCommit
  simp only [State.slots_eq, hm]
  rw [if_pos (by simp [idIs])]
  unfold finalizeCommit
  rw [if_neg (by simp)]
  simp only [State.slots_eq, hm]
  simp [partsHas, newHeight, schedule, emit]

end KV.Cs.Sync
