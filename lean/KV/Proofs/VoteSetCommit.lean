import KV.Proofs.VoteSetInv
/-! `VerifyCommit`: what an accepted commit proves (C02). -/
namespace KV.VoteSet
open KV

/-- index `i` carries a non-absent signature that verifies for validator `i`'s address over the
precommit `Commit.GetVote(i)` reconstructs, and that precommit is for exactly `b` -/
def counted (sv : SigCheck) (b : BlockId) (c : Commit) (vals : Vals) (sigs : List CommitSig) (i : Nat) : Bool :=
  match vals[i]?, sigs[i]? with
  | some val, some cs =>
    cs.flag != flagAbsent &&
      (match cs.blockId c.bid with
       | some vb => b.equal vb && sv val.addr ⟨precommitType, c.height, c.round, vb, cs.ts⟩ cs.sig
       | none => false)
  | _, _ => false

theorem counted_succ (sv : SigCheck) (b : BlockId) (c : Commit) (v : Val) (vs : Vals) (cs : CommitSig)
    (rest : List CommitSig) (i : Nat) :
    counted sv b c (v :: vs) (cs :: rest) (i + 1) = counted sv b c vs rest i := by
  simp [counted]

theorem totalPower_cons (v : Val) (vs : Vals) : totalPower (v :: vs) = v.power + totalPower vs := by
  simp [totalPower]

/-- a successful loop returns exactly the power of the counted indices (no int64 wrap) and every
non-absent signature verified -/
theorem verifyLoop_ok (sv : SigCheck) (b : BlockId) (c : Commit) (vals : Vals) (sigs : List CommitSig)
    (i0 : Nat) (acc got : Int) (hn : NonNeg vals) (h0 : 0 ≤ acc)
    (hb : acc + totalPower vals ≤ maxTotalVotingPower)
    (h : verifyLoop sv b c i0 vals sigs acc = .ok got) :
    got = acc + psum vals (counted sv b c vals sigs) := by
  induction vals generalizing sigs i0 acc with
  | nil =>
    cases sigs with
    | nil => simp [verifyLoop] at h; simp [psum, h]
    | cons cs rest => simp [verifyLoop] at h
  | cons v vs ih =>
    have hv : 0 ≤ v.power := hn v (by simp)
    have hn' : NonNeg vs := fun w hw => hn w (by simp [hw])
    have ht := totalPower_nonneg vs hn'
    rw [totalPower_cons] at hb
    cases sigs with
    | nil =>
      simp [verifyLoop] at h; subst h
      rw [psum_false]; · simp
      intro i _; simp [counted]
    | cons cs rest =>
      simp only [psum]
      rw [psum_congr vs (fun i => counted sv b c (v :: vs) (cs :: rest) (i + 1)) (counted sv b c vs rest)
        (fun i _ => counted_succ ..)]
      unfold verifyLoop at h
      split at h
      · next hf =>
        have := ih rest (i0 + 1) acc hn' h0 (by omega) h
        rw [this]; simp [counted, hf]
      · next hf =>
        split at h
        · cases h
        · next vb hvb =>
          split at h
          · cases h
          · next hsv =>
            split at h
            · next heq =>
              have hadd : I64.add acc v.power = acc + v.power :=
                add_exact_of_bounds _ _ h0 hv (by omega)
              rw [hadd] at h
              have := ih rest (i0 + 1) (acc + v.power) hn' (by omega) (by omega) h
              rw [this]
              have : counted sv b c (v :: vs) (cs :: rest) 0 = true := by
                simp [counted, hvb, heq, hf]; simpa using hsv
              rw [this]; simp; omega
            · next heq =>
              have := ih rest (i0 + 1) acc hn' h0 (by omega) h
              rw [this]
              have : counted sv b c (v :: vs) (cs :: rest) 0 = false := by
                simp [counted, hvb, heq]
              rw [this]; simp

end KV.VoteSet
