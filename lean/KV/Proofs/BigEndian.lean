import KV.Model.Rlp
/-! Lemmas on minimal big-endian byte strings (`beBytes`, `beVal`). Core only. -/
namespace KV.Rlp

theorem beVal_nil : beVal [] = 0 := rfl

/-- reverse induction on lists (core has no `reverseRecOn`) -/
theorem list_rev_ind {α : Type} {P : List α → Prop} (hnil : P [])
    (snoc : ∀ l a, P l → P (l ++ [a])) : ∀ l, P l := by
  intro l
  have h : ∀ r : List α, P r.reverse := by
    intro r
    induction r with
    | nil => exact hnil
    | cons a r ih => simpa using snoc _ a ih
  simpa using h l.reverse

theorem head?_append_ne_nil {α : Type} (l l' : List α) (h : l ≠ []) : (l ++ l').head? = l.head? := by
  cases l with
  | nil => exact absurd rfl h
  | cons a l => simp

theorem beVal_append_one (a : Bytes) (b : UInt8) : beVal (a ++ [b]) = beVal a * 256 + b.toNat := by
  simp [beVal, List.foldl_append]

theorem beBytes_zero : beBytes 0 = [] := by simp [beBytes]

theorem beBytes_pos (n : Nat) (h : 0 < n) :
    beBytes n = beBytes (n / 256) ++ [UInt8.ofNat (n % 256)] := by
  cases n with
  | zero => omega
  | succ m => rw [beBytes]

theorem beVal_beBytes (n : Nat) : beVal (beBytes n) = n := by
  induction n using Nat.strongRecOn with
  | _ n ih =>
    by_cases h : n = 0
    · subst h; simp [beBytes_zero, beVal]
    · have hp : 0 < n := by omega
      rw [beBytes_pos n hp, beVal_append_one, ih (n / 256) (by omega)]
      have : (UInt8.ofNat (n % 256)).toNat = n % 256 := by
        simp [UInt8.toNat_ofNat']
      rw [this]; omega

theorem beBytes_length_pos (n : Nat) (h : 0 < n) : 0 < (beBytes n).length := by
  rw [beBytes_pos n h]; simp

theorem beBytes_eq_nil_iff (n : Nat) : beBytes n = [] ↔ n = 0 := by
  constructor
  · intro h
    by_cases hn : n = 0
    · exact hn
    · have := beBytes_length_pos n (by omega); rw [h] at this; simp at this
  · intro h; subst h; exact beBytes_zero

theorem beBytes_head_ne_zero (n : Nat) : (beBytes n).head? ≠ some 0 := by
  induction n using Nat.strongRecOn with
  | _ n ih =>
    by_cases h : n = 0
    · subst h; simp [beBytes_zero]
    · have hp : 0 < n := by omega
      rw [beBytes_pos n hp]
      by_cases hq : n / 256 = 0
      · rw [hq, beBytes_zero]
        simp
        intro hz
        have h1 : (UInt8.ofNat (n % 256)).toNat = n % 256 := by
          simp [UInt8.toNat_ofNat']
        rw [hz] at h1
        have : n % 256 = 0 := by simpa using h1.symm
        omega
      · have hne : beBytes (n / 256) ≠ [] := by
          intro hh; exact hq ((beBytes_eq_nil_iff _).mp hh)
        have := ih (n / 256) (by omega)
        rw [head?_append_ne_nil _ _ hne]
        exact this

theorem beBytes_length_le (k n : Nat) (h : n < 256 ^ k) : (beBytes n).length ≤ k := by
  induction k generalizing n with
  | zero =>
    have : n = 0 := by simpa using h
    subst this; simp [beBytes_zero]
  | succ k ih =>
    by_cases hn : n = 0
    · subst hn; simp [beBytes_zero]
    · rw [beBytes_pos n (by omega)]
      have : n / 256 < 256 ^ k := by
        rw [Nat.pow_succ] at h
        exact Nat.div_lt_of_lt_mul (by rw [Nat.mul_comm]; exact h)
      have := ih (n / 256) this
      simp; omega

theorem beVal_lt (l : Bytes) : beVal l < 256 ^ l.length := by
  induction l using list_rev_ind with
  | hnil => simp [beVal]
  | snoc l b ih =>
    rw [beVal_append_one]
    have hb : b.toNat < 256 := b.toNat_lt
    simp [Nat.pow_succ]
    omega

theorem beVal_pos_of_head (l : Bytes) (hne : l ≠ []) (h : l.head? ≠ some 0) : 0 < beVal l := by
  induction l using list_rev_ind with
  | hnil => exact absurd rfl hne
  | snoc l b ih =>
    rw [beVal_append_one]
    by_cases hl : l = []
    · subst hl
      simp at h
      have : b.toNat ≠ 0 := by
        intro hz; apply h
        exact UInt8.toNat_inj.mp (by simpa using hz)
      omega
    · have h' : l.head? ≠ some 0 := by
        rw [head?_append_ne_nil _ _ hl] at h; exact h
      have := ih hl h'
      omega

theorem beBytes_beVal (l : Bytes) (h : l.head? ≠ some 0) : beBytes (beVal l) = l := by
  induction l using list_rev_ind with
  | hnil => simp [beVal, beBytes_zero]
  | snoc l b ih =>
    have hb : b.toNat < 256 := b.toNat_lt
    by_cases hl : l = []
    · subst hl
      have hpos := beVal_pos_of_head [b] (by simp) (by simpa using h)
      simp only [List.nil_append]
      rw [beBytes_pos _ hpos]
      have hv : beVal [b] = b.toNat := by simp [beVal]
      rw [hv]
      have : b.toNat / 256 = 0 := by omega
      rw [this, beBytes_zero, Nat.mod_eq_of_lt hb]
      simp
    · have h' : l.head? ≠ some 0 := by
        rw [head?_append_ne_nil _ _ hl] at h; exact h
      have hposl := beVal_pos_of_head l hl h'
      rw [beVal_append_one]
      rw [beBytes_pos _ (by omega)]
      have h1 : (beVal l * 256 + b.toNat) / 256 = beVal l := by omega
      have h2 : (beVal l * 256 + b.toNat) % 256 = b.toNat := by omega
      rw [h1, h2, ih h']
      simp

end KV.Rlp
