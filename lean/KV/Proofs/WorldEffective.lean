import KV.Proofs.WorldRevert
/-! Structured transactions (properly nested Snapshot … [RevertToSnapshot]) and their effective
operations (property C08, theorem 3). -/
namespace KV.World

/-- a transaction body: journalled operations and nested scopes `Snapshot; body; [RevertToSnapshot]` -/
inductive Stmt where
  | op (o : JOp)
  | scope (body : List Stmt) (reverted : Bool)

mutual
/-- run on the real API: `Snapshot`, the body, then `RevertToSnapshot(id)` when the scope fails -/
def runStmt : Stmt → World → World
  | .op o, w => (step (.j o) w).1
  | .scope body rev, w =>
      let w1 := runStmts body (snapshot w)
      if rev then (step (.revert w.nextId) w1).1 else w1
def runStmts : List Stmt → World → World
  | [], w => w
  | st :: rest, w => runStmts rest (runStmt st w)
end

mutual
/-- the operations that are not undone by a revert -/
def effStmt : Stmt → List JOp
  | .op o => [o]
  | .scope body rev => if rev then [] else effStmts body
def effStmts : List Stmt → List JOp
  | [] => []
  | st :: rest => effStmt st ++ effStmts rest
end

/-- apply journalled operations to (core, journal) only — no snapshots -/
def runJ (ops : List JOp) (cj : Core × List Entry) : Core × List Entry :=
  ops.foldl (fun cj o => ((jop o cj.1).1, cj.2 ++ (jop o cj.1).2.1)) cj

theorem runJ_append (a b : List JOp) (cj : Core × List Entry) : runJ (a ++ b) cj = runJ b (runJ a cj) := by
  simp [runJ, List.foldl_append]

theorem runJ_rewind (ops : List JOp) (cj : Core × List Entry) :
    ∃ es, (runJ ops cj).2 = cj.2 ++ es ∧ rewind es (runJ ops cj).1 = cj.1 := by
  induction ops generalizing cj with
  | nil => exact ⟨[], by simp [runJ]⟩
  | cons o ops ih =>
    obtain ⟨es, h1, h2⟩ := ih ((jop o cj.1).1, cj.2 ++ (jop o cj.1).2.1)
    refine ⟨(jop o cj.1).2.1 ++ es, ?_, ?_⟩
    · simp only [runJ, List.foldl_cons] at h1 ⊢
      rw [h1]; simp
    · simp only [runJ, List.foldl_cons] at h2 ⊢
      rw [rewind_append, h2, jop_undo]

theorem snapshot_core (w : World) : (snapshot w).core = w.core := rfl
theorem snapshot_journal (w : World) : (snapshot w).journal = w.journal := rfl
theorem snapshot_nextId (w : World) : (snapshot w).nextId = w.nextId + 1 := rfl
theorem snapshot_revs (w : World) : (snapshot w).revs = w.revs ++ [(w.nextId, w.journal.length)] := rfl

/-- what a structured run does to a world -/
structure Eff (sts : List JOp) (w w' : World) : Prop where
  cj : (w'.core, w'.journal) = runJ sts (w.core, w.journal)
  revs : ∃ extra, w'.revs = w.revs ++ extra ∧ ∀ r ∈ extra, w.journal.length ≤ r.2
  ok : RevsOK w'.revs w'.nextId
  next : w.nextId ≤ w'.nextId

mutual
theorem runStmt_eff : ∀ (st : Stmt) (w : World), RevsOK w.revs w.nextId → Eff (effStmt st) w (runStmt st w)
  | .op o, w, h => by
    refine ⟨?_, ⟨[], by simp [runStmt, step, applyJ]⟩, by simpa [runStmt, step, applyJ] using h, by simp [runStmt, step, applyJ]⟩
    simp [runStmt, step, applyJ, effStmt, runJ]
  | .scope body rev, w, h => by
    have hs := inv_snapshot w h
    have ih := runStmts_eff body (snapshot w) hs.1
    obtain ⟨hcj, ⟨extra, hre, hge⟩, hok, hnx⟩ := ih
    rw [snapshot_core, snapshot_journal] at hcj
    rw [snapshot_revs] at hre
    rw [snapshot_journal] at hge
    rw [snapshot_nextId] at hnx
    have hrevs : (runStmts body (snapshot w)).revs = w.revs ++ (w.nextId, w.journal.length) :: extra := by
      rw [hre]; simp
    cases rev with
    | false =>
      simp only [runStmt, effStmt, Bool.false_eq_true, if_false]
      refine ⟨hcj, ⟨(w.nextId, w.journal.length) :: extra, hrevs, ?_⟩, hok, by omega⟩
      intro r hr
      simp only [List.mem_cons] at hr
      rcases hr with hr | hr
      · subst hr; simp
      · exact hge r hr
    | true =>
      simp only [runStmt, effStmt, if_true]
      obtain ⟨es, he1, he2⟩ := runJ_rewind (effStmts body) (w.core, w.journal)
      rw [← hcj] at he1 he2
      simp only at he1 he2
      have hpw := hok.1
      rw [hrevs] at hpw
      have hfind := findRev_mid w.revs extra w.nextId w.journal.length hpw
      rw [← hrevs] at hfind
      simp only [step, revertTo, hfind]
      refine ⟨?_, ⟨[], ?_⟩, ?_, ?_⟩
      · simp only [runJ, List.foldl_nil]
        rw [he1, List.drop_append, List.drop_of_length_le (Nat.le_refl _)]
        simp [he2]
      · simp [hrevs]
      · simp only [hrevs]
        have := revsOK_take w.revs.length hok
        rw [hrevs] at this
        simpa using this
      · simp only; omega
theorem runStmts_eff : ∀ (sts : List Stmt) (w : World), RevsOK w.revs w.nextId → Eff (effStmts sts) w (runStmts sts w)
  | [], w, h => ⟨by simp [runStmts, effStmts, runJ], ⟨[], by simp [runStmts]⟩, by simpa [runStmts] using h, by simp [runStmts]⟩
  | st :: rest, w, h => by
    have h1 := runStmt_eff st w h
    have h2 := runStmts_eff rest (runStmt st w) h1.ok
    simp only [runStmts, effStmts]
    refine ⟨?_, ?_, h2.ok, Nat.le_trans h1.next h2.next⟩
    · rw [runJ_append, ← h1.cj, h2.cj]
    · obtain ⟨e1, he1, hg1⟩ := h1.revs
      obtain ⟨e2, he2, hg2⟩ := h2.revs
      refine ⟨e1 ++ e2, by rw [he2, he1]; simp, ?_⟩
      intro r hr
      simp only [List.mem_append] at hr
      rcases hr with hr | hr
      · exact hg1 r hr
      · have := hg2 r hr
        have hj := congrArg Prod.snd h1.cj
        simp only at hj
        obtain ⟨es, hes, _⟩ := runJ_rewind (effStmt st) (w.core, w.journal)
        rw [← hj] at hes
        simp only at hes
        rw [hes] at this
        simp at this; omega
end

end KV.World
