import KV.Proofs.World
/-! `RevertToSnapshot` restores the world of the matching `Snapshot` (property C08, theorem 2). -/
namespace KV.World

/-- `validRevisions` is sorted by strictly increasing id and every id is below `nextRevisionId`
(what `sort.Search` in `RevertToSnapshot` relies on) -/
def RevsOK (revs : List (Nat × Nat)) (next : Nat) : Prop :=
  revs.Pairwise (fun x y => x.1 < y.1) ∧ ∀ r ∈ revs, r.1 < next

theorem findRev_mid (pre post : List (Nat × Nat)) (id j : Nat)
    (h : (pre ++ (id, j) :: post).Pairwise (fun x y => x.1 < y.1)) :
    findRev (pre ++ (id, j) :: post) id = some (pre.length, j) := by
  have hpre : ∀ a ∈ pre, decide (a.1 < id) = true := by
    intro a ha
    have := (List.pairwise_append.mp h).2.2 a ha (id, j) (by simp)
    simpa using this
  unfold findRev
  rw [List.takeWhile_append_of_pos hpre]
  simp [List.takeWhile]

theorem findRev_some {revs : List (Nat × Nat)} {id i j : Nat} (h : findRev revs id = some (i, j)) :
    revs[i]? = some (id, j) := by
  unfold findRev at h
  simp only at h
  split at h
  · next r hr =>
    split at h
    · next hid =>
      simp at h
      obtain ⟨h1, h2⟩ := h
      rw [← h1, hr, ← hid, ← h2]
    · simp at h
  · simp at h

/-- the snapshot taken at `s` (id `s.nextId`, journal index `s.journal.length`) is still valid in `w`,
and rewinding the journal suffix written since then gives back the core of `s` -/
structure Tracks (s w : World) : Prop where
  revs : ∃ post, w.revs = s.revs ++ (s.nextId, s.journal.length) :: post ∧
          ∀ r ∈ post, s.journal.length ≤ r.2
  journal : ∃ es, w.journal = s.journal ++ es ∧ rewind es w.core = s.core

/-- invariant of every run that starts with `Snapshot` at `s` -/
def Inv (s w : World) : Prop :=
  RevsOK w.revs w.nextId ∧ s.nextId < w.nextId ∧ ((∀ r ∈ w.revs, r.1 ≠ s.nextId) ∨ Tracks s w)

theorem inv_snapshot (s : World) (h : RevsOK s.revs s.nextId) : Inv s (snapshot s) := by
  refine ⟨⟨?_, ?_⟩, by simp [snapshot], Or.inr ⟨⟨[], by simp [snapshot]⟩, ⟨[], by simp [snapshot]⟩⟩⟩
  · simp only [snapshot]
    rw [List.pairwise_append]
    refine ⟨h.1, by simp, ?_⟩
    intro a ha b hb
    simp at hb; subst hb
    exact h.2 a ha
  · intro r hr
    simp only [snapshot, List.mem_append, List.mem_singleton] at hr
    rcases hr with hr | hr
    · have := h.2 r hr; simp only [snapshot]; omega
    · subst hr; simp [snapshot]

theorem revsOK_take {revs : List (Nat × Nat)} {n : Nat} (i : Nat) (h : RevsOK revs n) : RevsOK (revs.take i) n :=
  ⟨h.1.sublist (List.take_sublist i revs), fun r hr => h.2 r (List.mem_of_mem_take hr)⟩

theorem inv_step (s w : World) (o : Op) (h : Inv s w) : Inv s (step o w).1 := by
  obtain ⟨hok, hlt, hcase⟩ := h
  cases o with
  | j o =>
    refine ⟨hok, hlt, ?_⟩
    rcases hcase with hg | ht
    · exact Or.inl hg
    · refine Or.inr ⟨ht.revs, ?_⟩
      obtain ⟨es, hj, hr⟩ := ht.journal
      refine ⟨es ++ (jop o w.core).2.1, ?_, ?_⟩
      · simp [step, applyJ, hj]
      · simp only [step, applyJ, rewind_append, jop_undo]
        exact hr
  | snapshot =>
    refine ⟨?_, by simp [step, snapshot]; omega, ?_⟩
    · have := inv_snapshot w hok
      exact this.1
    · rcases hcase with hg | ht
      · left
        intro r hr
        simp only [step, snapshot, List.mem_append, List.mem_singleton] at hr
        rcases hr with hr | hr
        · exact hg r hr
        · subst hr; simp; omega
      · right
        obtain ⟨post, hp, hge⟩ := ht.revs
        obtain ⟨es, hj, hr⟩ := ht.journal
        refine ⟨⟨post ++ [(w.nextId, w.journal.length)], ?_, ?_⟩, ⟨es, hj, hr⟩⟩
        · simp [step, snapshot, hp]
        · intro r hr'
          simp only [List.mem_append, List.mem_singleton] at hr'
          rcases hr' with hr' | hr'
          · exact hge r hr'
          · subst hr'; simp [hj]
  | revert id =>
    simp only [step]
    cases hrv : revertTo id w with
    | none => exact ⟨hok, hlt, hcase⟩
    | some w' =>
      simp only
      unfold revertTo at hrv
      cases hf : findRev w.revs id with
      | none => simp [hf] at hrv
      | some p =>
        obtain ⟨idx, jx⟩ := p
        simp only [hf, Option.some.injEq] at hrv
        subst hrv
        refine ⟨revsOK_take idx hok, hlt, ?_⟩
        rcases hcase with hg | ht
        · exact Or.inl (fun r hr => hg r (List.mem_of_mem_take hr))
        · obtain ⟨post, hp, hge⟩ := ht.revs
          obtain ⟨es, hj, hr⟩ := ht.journal
          have hget := findRev_some hf
          by_cases hle : idx ≤ s.revs.length
          · -- the snapshot itself (or an older one) is reverted: it is no longer valid
            left
            intro r hr'
            simp only at hr'
            rw [hp, List.take_append_of_le_length hle] at hr'
            have hm := List.mem_of_mem_take hr'
            have hpw := hok.1
            rw [hp] at hpw
            have := (List.pairwise_append.mp hpw).2.2 r hm (s.nextId, s.journal.length) (by simp)
            simp at this; omega
          · -- an inner snapshot is reverted
            right
            have hidx : s.revs.length < idx := by omega
            rw [hp] at hget
            rw [List.getElem?_append_right (by omega)] at hget
            obtain ⟨m, hm⟩ : ∃ m, idx - s.revs.length = m + 1 := ⟨idx - s.revs.length - 1, by omega⟩
            rw [hm] at hget
            simp only [List.getElem?_cons_succ] at hget
            have hmem : (id, jx) ∈ post := List.mem_of_getElem? hget
            have hjx := hge _ hmem
            simp only at hjx
            refine ⟨⟨post.take m, ?_, fun r hr' => hge r (List.mem_of_mem_take hr')⟩,
                    ⟨es.take (jx - s.journal.length), ?_, ?_⟩⟩
            · simp only
              rw [hp, List.take_append, hm, List.take_of_length_le (by omega)]
              simp
            · simp only
              rw [hj, List.take_append, List.take_of_length_le hjx]
            · simp only
              rw [hj, List.drop_append, List.drop_of_length_le hjx]
              simp only [List.nil_append]
              rw [← rewind_append, List.take_append_drop]
              exact hr

theorem inv_run (s w : World) (ops : List Op) (h : Inv s w) : Inv s (run ops w) := by
  induction ops generalizing w with
  | nil => exact h
  | cons o ops ih => exact ih _ (inv_step s w o h)

/-- reverting to the tracked snapshot restores core, journal and revisions exactly -/
theorem inv_revert (s w w' : World) (h : Inv s w) (hr : revertTo s.nextId w = some w') :
    w'.core = s.core ∧ w'.journal = s.journal ∧ w'.revs = s.revs := by
  obtain ⟨hok, _, hcase⟩ := h
  unfold revertTo at hr
  cases hf : findRev w.revs s.nextId with
  | none => simp [hf] at hr
  | some p =>
    obtain ⟨idx, jx⟩ := p
    simp only [hf, Option.some.injEq] at hr
    subst hr
    rcases hcase with hg | ht
    · exact absurd rfl (hg _ (List.mem_of_getElem? (findRev_some hf)))
    · obtain ⟨post, hp, _⟩ := ht.revs
      obtain ⟨es, hj, hre⟩ := ht.journal
      have hpw := hok.1
      rw [hp] at hpw
      have := findRev_mid s.revs post s.nextId s.journal.length hpw
      rw [← hp, hf] at this
      simp only [Option.some.injEq, Prod.mk.injEq] at this
      obtain ⟨h1, h2⟩ := this
      subst h1; subst h2
      refine ⟨?_, ?_, ?_⟩
      · simp only
        rw [hj, List.drop_append, List.drop_of_length_le (Nat.le_refl _)]
        simpa using hre
      · simp [hj]
      · simp [hp]

end KV.World
