import KV.Proofs.CStore
/-! Round trip `loadAt ∘ commit` at the head of a history (property C14). -/
namespace KV.CStore

/-- what `loadAt` returns when every record it dereferences is there -/
theorem loadAt_eq {db : DB} {h : Nat} {r : StateRec} {m : Meta} {v n : VSet} {ni : ValInfo}
    {pi : ParamsInfo} {L : Option VSet}
    (hs : get h db.states = some r) (hm : get h db.metas = some m)
    (hl : (if m.height > 0 then (readSet (get r.lastKey db.vals)).map some else some none) = some L)
    (hv : readSet (get r.valsKey db.vals) = some v) (hn : get r.nextKey db.vals = some ni)
    (hn' : readSet (some ni) = some n) (hp : get r.paramsKey db.params = some pi) :
    loadAt db h = .ok
      { chainId := r.chainId
        initialHeight := if r.initialHeight = 0 then 1 else r.initialHeight
        height := m.height, blockId := if h > 0 then m.blockId else zeroBlockId
        time := m.time, numTxs := m.numTxs
        appHash := if h > 0 then (get h db.apps).getD zero32 else zero32
        params := pi.params, lhp := pi.lhc, lhv := ni.lhc
        last := L, vals := some v, next := some n } := by
  unfold loadAt
  simp only [hs, hm, hl, hv, hn, hn', hp]

/-- membership (addresses and powers, in order) of an optional set: all that `ValidatorSet.Hash()`
sees -/
def membOf (o : Option VSet) : Option Memb := o.map VSet.memb

/-- under the invariant, an existing record under a membership key reads back as a valid set of
that membership -/
theorem read_of_inv {vals : List (VKey × ValInfo)}
    (hI : ∀ k i, get k vals = some i → vkey i.set = k ∧ (i.set = none ∨ setOk i.set = true))
    {m : Memb} (h : (get (some m) vals).isSome) :
    ∃ w l, get (some m) vals = some ⟨some w, l⟩ ∧ readSet (get (some m) vals) = some w ∧
      w.ok = true ∧ w.memb = m := by
  cases hg : get (some m) vals with
  | none => simp [hg] at h
  | some i =>
    obtain ⟨hk, ho⟩ := hI _ _ hg
    obtain ⟨st, l⟩ := i
    cases st with
    | none => simp [vkey] at hk
    | some w =>
      have hw : w.ok = true := by
        cases ho with
        | inl h => cases h
        | inr h => simpa [setOk] using h
      rw [vkey_ok hw] at hk
      exact ⟨w, l, rfl, readSet_ok hw l, hw, by simpa using hk⟩

/-- key-level link between consecutive states: `updateState` makes the new `LastValidators` /
`Validators` copies of the old `Validators` / `NextValidators`; only the memberships matter here -/
def chain (s s' : CState) : Bool :=
  (s'.height != 0) && decide (vkey s'.last = vkey s.vals) && decide (vkey s'.vals = vkey s.next)

/-- exact link (copies including priorities and proposer), as `updateState` really produces -/
def xchain (s s' : CState) : Bool :=
  (s'.height != 0) && decide (s'.last = s.vals) && decide (s'.vals = s.next)

theorem chain_of_xchain {s s' : CState} (h : xchain s s' = true) : chain s s' = true := by
  unfold xchain at h
  unfold chain
  simp only [Bool.and_eq_true, decide_eq_true_eq] at h ⊢
  obtain ⟨⟨h0, h1⟩, h2⟩ := h
  exact ⟨⟨h0, by rw [h1]⟩, by rw [h2]⟩

/-- after saving `s` as the head: the next-set record is exactly `s.next`, the current-set record
exists -/
def HeadInv (db : DB) (s : CState) : Prop :=
  get (vkey s.next) db.vals = some ⟨s.next, s.lhv⟩ ∧ (get (vkey s.vals) db.vals).isSome

/-- … and it is exactly `s.vals` unless it shares its key with `s.next` -/
def ExactInv (db : DB) (s : CState) : Prop :=
  vkey s.vals ≠ vkey s.next → ∃ l, get (vkey s.vals) db.vals = some ⟨s.vals, l⟩

/-- the loaded head state agrees with the saved one in every field, except that `Validators` and
`LastValidators` are only known to have the right membership (addresses, powers, order) -/
def LoadedPartial (db : DB) (s : CState) : Prop :=
  ∃ t, loadAt db s.height = .ok t ∧ t = { s with last := t.last, vals := t.vals } ∧
    membOf t.vals = membOf s.vals ∧ membOf t.last = membOf s.last

/-- the three membership keys of a state are pairwise distinct -/
def keysDistinct (s : CState) : Prop :=
  vkey s.last ≠ vkey s.vals ∧ vkey s.last ≠ vkey s.next ∧ vkey s.vals ≠ vkey s.next

/-- one commit on top of a store in which the previous head `s` was saved (or a genesis commit) -/
theorem commit_step {db : DB} {s' : CState} (hI : Inv db) (hw : s'.wf = true)
    (hprev : s'.height = 0 ∨ ∃ s, HeadInv db s ∧ chain s s' = true) :
    ∃ db', commit db s' = some db' ∧ Inv db' ∧ HeadInv db' s' ∧ LoadedPartial db' s' := by
  obtain ⟨db', hc, hvals, hparams, hstates, hmetas, happs⟩ := commit_wf (db := db) hw
  obtain ⟨⟨v, hv, hvo⟩, ⟨n, hn, hno⟩, h0, h1, hih⟩ := wf_parts hw
  have hI' : Inv db' := by
    intro k i h; rw [hvals] at h; exact Inv_valsAfter hI hw k i h
  have hkv : vkey s'.vals = some v.memb := by rw [hv]; exact vkey_ok hvo
  have hkn : vkey s'.next = some n.memb := by rw [hn]; exact vkey_ok hno
  -- the current-set record exists after the commit
  have hvex : (get (vkey s'.vals) db'.vals).isSome := by
    rw [hvals]
    cases hprev with
    | inl hz =>
      simp only [valsAfter, saveVals, hz, if_true]
      rw [get_put]; split
      · simp
      · simp
    | inr hp =>
      obtain ⟨s, ⟨hs1, _⟩, hch⟩ := hp
      unfold chain at hch
      simp only [Bool.and_eq_true, decide_eq_true_eq] at hch
      apply valsAfter_mono
      rw [hch.2, hs1]; rfl
  have hnext : get (vkey s'.next) db'.vals = some ⟨s'.next, s'.lhv⟩ := by
    rw [hvals]; exact valsAfter_next
  refine ⟨db', hc, hI', ⟨hnext, hvex⟩, ?_⟩
  -- reading back
  rw [hkv] at hvex
  obtain ⟨w, lw, hgw, hrw, hwo, hwm⟩ := read_of_inv hI' hvex
  have hst : get s'.height db'.states = some
      { chainId := s'.chainId, initialHeight := s'.initialHeight, lastKey := vkey s'.last,
        valsKey := vkey s'.vals, nextKey := vkey s'.next, paramsKey := pkey s'.params s'.lhp } := by
    rw [hstates]; simp
  have hme : get s'.height db'.metas = some ⟨s'.height, s'.blockId, s'.time, s'.numTxs⟩ := by
    rw [hmetas]; simp
  have hap : get s'.height db'.apps = some s'.appHash := by rw [happs]; simp
  have hpa : get (pkey s'.params s'.lhp) db'.params = some ⟨s'.params, s'.lhp⟩ := by
    rw [hparams]; simp
  have hrn : readSet (some (⟨s'.next, s'.lhv⟩ : ValInfo)) = some n := by
    rw [hn]; exact readSet_ok hno _
  -- the last set
  have hlast : ∃ L, (if (⟨s'.height, s'.blockId, s'.time, s'.numTxs⟩ : Meta).height > 0
        then (readSet (get (vkey s'.last) db'.vals)).map some else some none) = some L ∧
        membOf L = membOf s'.last := by
    by_cases hz : s'.height = 0
    · refine ⟨none, by simp [hz], ?_⟩
      rw [h0 hz]
    · obtain ⟨l, hl, hlo⟩ := h1 hz
      have hkl : vkey s'.last = some l.memb := by rw [hl]; exact vkey_ok hlo
      have hlex : (get (vkey s'.last) db'.vals).isSome := by
        rw [hvals]
        cases hprev with
        | inl h => exact absurd h hz
        | inr hp =>
          obtain ⟨s, ⟨_, hs2⟩, hch⟩ := hp
          unfold chain at hch
          simp only [Bool.and_eq_true, decide_eq_true_eq] at hch
          apply valsAfter_mono
          rw [hch.1.2]; exact hs2
      rw [hkl] at hlex
      obtain ⟨u, lu, hgu, hru, huo, hum⟩ := read_of_inv hI' hlex
      refine ⟨some u, ?_, ?_⟩
      · have : s'.height > 0 := Nat.pos_of_ne_zero hz
        simp only [this, if_true, hkl, hru, Option.map_some]
      · simp [membOf, hl, hum]
  obtain ⟨L, hL, hLm⟩ := hlast
  have hload := loadAt_eq (db := db') (h := s'.height) hst hme hL (by rw [hkv]; exact hrw) hnext hrn hpa
  have hbid : (if s'.height > 0 then s'.blockId else zeroBlockId) = s'.blockId := by
    by_cases hz : s'.height = 0
    · simp [hz, (wf_genesis hw hz).1]
    · simp [Nat.pos_of_ne_zero hz]
  have happ : (if s'.height > 0 then s'.appHash else zero32) = s'.appHash := by
    by_cases hz : s'.height = 0
    · simp [hz, (wf_genesis hw hz).2]
    · simp [Nat.pos_of_ne_zero hz]
  refine ⟨_, hload, ?_, ?_, ?_⟩
  · simp only [hap, Option.getD_some, hih, if_false, hbid, happ]
    cases s'
    simp only at hn ⊢
    simp [hn]
  · simp [membOf, hv, hwm]
  · exact hLm

/-- the exact version: with exact links the current-set record is `s'.vals` itself unless the next
set shares its key, and with pairwise distinct keys the head loads back unchanged -/
theorem commit_step_exact {db db' : DB} {s' : CState} (hw : s'.wf = true)
    (hprev : s'.height = 0 ∨ ∃ s, HeadInv db s ∧ ExactInv db s ∧ xchain s s' = true)
    (hc : commit db s' = some db') :
    ExactInv db' s' ∧ (keysDistinct s' → loadAt db' s'.height = .ok s') := by
  obtain ⟨db'', hc', hvals, hparams, hstates, hmetas, happs⟩ := commit_wf (db := db) hw
  rw [hc] at hc'
  simp only [Option.some.injEq] at hc'
  subst hc'
  obtain ⟨⟨v, hv, hvo⟩, ⟨n, hn, hno⟩, h0, h1, hih⟩ := wf_parts hw
  have hex : ExactInv db' s' := by
    intro hne
    rw [hvals]
    by_cases hz : s'.height = 0
    · refine ⟨s'.lhv, ?_⟩
      simp only [valsAfter, saveVals, hz, if_true]
      rw [get_put_ne (Ne.symm hne), get_put_eq]
    · cases hprev with
      | inl h => exact absurd h hz
      | inr hp =>
        obtain ⟨s, ⟨hs1, _⟩, _, hx⟩ := hp
        unfold xchain at hx
        simp only [Bool.and_eq_true, decide_eq_true_eq] at hx
        rw [valsAfter_other hz (Ne.symm hne), hx.2, hs1]
        exact ⟨s.lhv, rfl⟩
  refine ⟨hex, ?_⟩
  intro ⟨hlv, hln, hvn⟩
  obtain ⟨lv, hgv⟩ := hex hvn
  have hst : get s'.height db'.states = some
      { chainId := s'.chainId, initialHeight := s'.initialHeight, lastKey := vkey s'.last,
        valsKey := vkey s'.vals, nextKey := vkey s'.next, paramsKey := pkey s'.params s'.lhp } := by
    rw [hstates]; simp
  have hme : get s'.height db'.metas = some ⟨s'.height, s'.blockId, s'.time, s'.numTxs⟩ := by
    rw [hmetas]; simp
  have hap : get s'.height db'.apps = some s'.appHash := by rw [happs]; simp
  have hpa : get (pkey s'.params s'.lhp) db'.params = some ⟨s'.params, s'.lhp⟩ := by
    rw [hparams]; simp
  have hnext : get (vkey s'.next) db'.vals = some ⟨s'.next, s'.lhv⟩ := by
    rw [hvals]; exact valsAfter_next
  have hrn : readSet (some (⟨s'.next, s'.lhv⟩ : ValInfo)) = some n := by
    rw [hn]; exact readSet_ok hno _
  have hrv : readSet (get (vkey s'.vals) db'.vals) = some v := by
    rw [hgv, hv]; exact readSet_ok hvo _
  have hL : (if (⟨s'.height, s'.blockId, s'.time, s'.numTxs⟩ : Meta).height > 0
        then (readSet (get (vkey s'.last) db'.vals)).map some else some none) = some s'.last := by
    by_cases hz : s'.height = 0
    · simp [hz, h0 hz]
    · obtain ⟨l, hl, hlo⟩ := h1 hz
      cases hprev with
      | inl h => exact absurd h hz
      | inr hp =>
        obtain ⟨s, _, hsx, hx⟩ := hp
        unfold xchain at hx
        simp only [Bool.and_eq_true, decide_eq_true_eq] at hx
        have hne' : vkey s.vals ≠ vkey s.next := by
          rw [← hx.1.2, ← hx.2]; exact hlv
        obtain ⟨l2, hg2⟩ := hsx hne'
        have : s'.height > 0 := Nat.pos_of_ne_zero hz
        simp only [this, if_true]
        rw [hvals, valsAfter_other hz (Ne.symm hln), hx.1.2, hg2, ← hx.1.2, hl, readSet_ok hlo]
        rfl
  have hload := loadAt_eq (db := db') (h := s'.height) hst hme hL hrv hnext hrn hpa
  have hbid : (if s'.height > 0 then s'.blockId else zeroBlockId) = s'.blockId := by
    by_cases hz : s'.height = 0
    · simp [hz, (wf_genesis hw hz).1]
    · simp [Nat.pos_of_ne_zero hz]
  have happ : (if s'.height > 0 then s'.appHash else zero32) = s'.appHash := by
    by_cases hz : s'.height = 0
    · simp [hz, (wf_genesis hw hz).2]
    · simp [Nat.pos_of_ne_zero hz]
  rw [hload]
  simp only [hap, Option.getD_some, hih, if_false, hbid, happ]
  cases s'
  simp only at hn hv ⊢
  simp [hn, hv]

end KV.CStore
