import KV.Proofs.ValSetUpdateMain
/-!
# The application phase of `updateWithChangeSet`: `applyUpdates` (merge) and `applyRemovals`
on address-sorted lists (C12 `update_result`)
-/
namespace KV.ValSet
open KV.I64

/-- strictly increasing addresses -/
def SortedA (l : List Validator) : Prop := l.Pairwise (fun a b => a.addr < b.addr)

theorem sortedA_of_le_nodup (l : List Validator) (hs : l.Pairwise (fun a b => leAddr a b = true))
    (hn : (l.map (·.addr)).Nodup) : SortedA l := by
  induction l with
  | nil => exact List.Pairwise.nil
  | cons x xs ih =>
    rw [List.pairwise_cons] at hs
    rw [List.map_cons, List.nodup_cons] at hn
    unfold SortedA
    rw [List.pairwise_cons]
    refine ⟨?_, ih hs.2 hn.2⟩
    intro y hy
    have h1 : x.addr ≤ y.addr := by simpa [leAddr] using hs.1 y hy
    have h2 : x.addr ≠ y.addr := fun e => hn.1 (e ▸ List.mem_map_of_mem (f := (·.addr)) hy)
    omega

theorem sortedA_isort (l : List Validator) (hn : (l.map (·.addr)).Nodup) : SortedA (isort leAddr l) :=
  sortedA_of_le_nodup _ (isort_sorted leAddr leAddr_total leAddr_trans l)
    (((isort_perm leAddr l).map (·.addr)).nodup_iff.mpr hn)

theorem SortedA.nodup {l : List Validator} (h : SortedA l) : (l.map (·.addr)).Nodup := by
  unfold SortedA at h
  induction l with
  | nil => exact List.nodup_nil
  | cons x xs ih =>
    rw [List.pairwise_cons] at h
    rw [List.map_cons, List.nodup_cons]
    refine ⟨?_, ih h.2⟩
    intro hm
    obtain ⟨y, hy, e⟩ := List.mem_map.mp hm
    have := h.1 y hy
    omega

theorem SortedA.filter {l : List Validator} (h : SortedA l) (p : Validator → Bool) :
    SortedA (l.filter p) := List.Pairwise.sublist List.filter_sublist h

theorem SortedA.tail {x : Validator} {l : List Validator} (h : SortedA (x :: l)) : SortedA l :=
  (List.pairwise_cons.mp h).2

theorem SortedA.head_lt {x : Validator} {l : List Validator} (h : SortedA (x :: l)) :
    ∀ y ∈ l, x.addr < y.addr := (List.pairwise_cons.mp h).1

/-- membership of an address in the address list, as a Boolean -/
def inAddrs (l : List Validator) (a : Nat) : Bool := decide (a ∈ l.map (·.addr))

theorem inAddrs_cons (x : Validator) (l : List Validator) (a : Nat) :
    inAddrs (x :: l) a = (decide (a = x.addr) || inAddrs l a) := by
  unfold inAddrs; simp

theorem filter_notIn_of_lt (es us : List Validator) (hlt : ∀ e ∈ es, ∀ u ∈ us, u.addr < e.addr) :
    es.filter (fun e => !inAddrs us e.addr) = es := by
  apply List.filter_eq_self.mpr
  intro e he
  unfold inAddrs
  simp only [Bool.not_eq_true', decide_eq_false_iff_not]
  intro hm
  obtain ⟨u, hu, e1⟩ := List.mem_map.mp hm
  have := hlt e he u hu
  omega

/-- dropping a candidate `u` that lies below every element of `es` does not change the filter -/
theorem filter_notIn_cons_of_lt (es us : List Validator) (u : Validator)
    (hlt : ∀ e ∈ es, u.addr < e.addr) :
    es.filter (fun e => !inAddrs (u :: us) e.addr) = es.filter (fun e => !inAddrs us e.addr) := by
  apply List.filter_congr
  intro e he
  rw [inAddrs_cons]
  have := hlt e he
  have : decide (e.addr = u.addr) = false := by simp; omega
  rw [this]; rfl

/-- **the merge of `applyUpdates`**: on strictly sorted lists the result is, up to order, the
updates followed by the existing validators that are not updated -/
theorem mergeUpdAux_perm (f : Nat) (es us : List Validator) (hf : es.length + us.length < f)
    (hes : SortedA es) (hus : SortedA us) :
    (mergeUpdAux f es us).Perm (us ++ es.filter (fun e => !inAddrs us e.addr)) := by
  induction f generalizing es us with
  | zero => omega
  | succ f ih =>
    cases es with
    | nil =>
      cases us with
      | nil => simp [mergeUpdAux]
      | cons u us => simp [mergeUpdAux]
    | cons e es =>
      cases us with
      | nil =>
        have : (e :: es).filter (fun x => !inAddrs [] x.addr) = e :: es := by
          apply List.filter_eq_self.mpr; intro x _; simp [inAddrs]
        simp only [mergeUpdAux, List.nil_append, this]
        exact List.Perm.refl _
      | cons u us =>
        simp only [List.length_cons] at hf
        unfold mergeUpdAux
        by_cases h1 : e.addr < u.addr
        · rw [if_pos h1]
          have hIH := ih es (u :: us) (by simp only [List.length_cons]; omega) hes.tail hus
          have hnot : inAddrs (u :: us) e.addr = false := by
            unfold inAddrs
            simp only [decide_eq_false_iff_not]
            intro hm
            obtain ⟨x, hx, e1⟩ := List.mem_map.mp hm
            rcases List.mem_cons.mp hx with rfl | hx
            · omega
            · have := hus.head_lt x hx; omega
          have hfil : (e :: es).filter (fun x => !inAddrs (u :: us) x.addr) =
              e :: es.filter (fun x => !inAddrs (u :: us) x.addr) := by
            simp [List.filter, hnot]
          rw [hfil]
          exact (List.Perm.cons e hIH).trans List.perm_middle.symm
        · rw [if_neg h1]
          by_cases h2 : e.addr = u.addr
          · rw [if_pos h2]
            have hIH := ih es us (by omega) hes.tail hus.tail
            have hin : inAddrs (u :: us) e.addr = true := by
              unfold inAddrs; simp [h2]
            have hfil : (e :: es).filter (fun x => !inAddrs (u :: us) x.addr) =
                es.filter (fun x => !inAddrs us x.addr) := by
              rw [List.filter_cons]
              simp only [hin, Bool.not_true, Bool.false_eq_true, if_false]
              exact filter_notIn_cons_of_lt es us u (fun x hx => by have := hes.head_lt x hx; omega)
            rw [hfil]
            exact List.Perm.cons u hIH
          · rw [if_neg h2]
            have hIH := ih (e :: es) us (by simp only [List.length_cons]; omega) hes hus.tail
            have hfil : (e :: es).filter (fun x => !inAddrs (u :: us) x.addr) =
                (e :: es).filter (fun x => !inAddrs us x.addr) :=
              filter_notIn_cons_of_lt (e :: es) us u (fun x hx => by
                rcases List.mem_cons.mp hx with rfl | hx
                · omega
                · have := hes.head_lt x hx; omega)
            rw [hfil]
            exact List.Perm.cons u hIH

theorem mergeUpd_perm (es us : List Validator) (hes : SortedA es) (hus : SortedA us) :
    (mergeUpd es us).Perm (us ++ es.filter (fun e => !inAddrs us e.addr)) :=
  mergeUpdAux_perm _ es us (by omega) hes hus

theorem mergeUpdAux_sorted (f : Nat) (es us : List Validator) (hf : es.length + us.length < f)
    (hes : SortedA es) (hus : SortedA us) : SortedA (mergeUpdAux f es us) := by
  induction f generalizing es us with
  | zero => omega
  | succ f ih =>
    cases es with
    | nil =>
      cases us with
      | nil => simp [mergeUpdAux, SortedA]
      | cons u us => simpa [mergeUpdAux] using hus
    | cons e es =>
      cases us with
      | nil => simpa [mergeUpdAux] using hes
      | cons u us =>
        simp only [List.length_cons] at hf
        unfold mergeUpdAux
        by_cases h1 : e.addr < u.addr
        · rw [if_pos h1]
          have hf' : es.length + (u :: us).length < f := by simp only [List.length_cons]; omega
          have hIH := ih es (u :: us) hf' hes.tail hus
          have hP := mergeUpdAux_perm f es (u :: us) hf' hes.tail hus
          unfold SortedA
          rw [List.pairwise_cons]
          refine ⟨?_, hIH⟩
          intro x hx
          rcases List.mem_append.mp (hP.mem_iff.mp hx) with hx | hx
          · rcases List.mem_cons.mp hx with rfl | hx
            · exact h1
            · have := hus.head_lt x hx; omega
          · exact hes.head_lt x (List.mem_filter.mp hx).1
        · rw [if_neg h1]
          by_cases h2 : e.addr = u.addr
          · rw [if_pos h2]
            have hf' : es.length + us.length < f := by omega
            have hIH := ih es us hf' hes.tail hus.tail
            have hP := mergeUpdAux_perm f es us hf' hes.tail hus.tail
            unfold SortedA
            rw [List.pairwise_cons]
            refine ⟨?_, hIH⟩
            intro x hx
            rcases List.mem_append.mp (hP.mem_iff.mp hx) with hx | hx
            · exact hus.head_lt x hx
            · have := hes.head_lt x (List.mem_filter.mp hx).1; omega
          · rw [if_neg h2]
            have hf' : (e :: es).length + us.length < f := by simp only [List.length_cons]; omega
            have hIH := ih (e :: es) us hf' hes hus.tail
            have hP := mergeUpdAux_perm f (e :: es) us hf' hes hus.tail
            unfold SortedA
            rw [List.pairwise_cons]
            refine ⟨?_, hIH⟩
            intro x hx
            rcases List.mem_append.mp (hP.mem_iff.mp hx) with hx | hx
            · exact hus.head_lt x hx
            · rcases List.mem_cons.mp (List.mem_filter.mp hx).1 with rfl | hx
              · omega
              · have := hes.head_lt x hx; omega

theorem mergeUpd_sorted (es us : List Validator) (hes : SortedA es) (hus : SortedA us) :
    SortedA (mergeUpd es us) := mergeUpdAux_sorted _ es us (by omega) hes hus

/-- **`applyRemovals`**: on strictly sorted lists, with every removal a member, the result is the
list without the removed addresses (the out-of-range index of the Go loop is unreachable) -/
theorem applyRemovals_eq_filter (ex ds : List Validator) (hex : SortedA ex) (hds : SortedA ds)
    (hsub : ∀ d ∈ ds, d.addr ∈ ex.map (·.addr)) :
    applyRemovals ex ds = ex.filter (fun e => !inAddrs ds e.addr) := by
  induction ex generalizing ds with
  | nil =>
    cases ds with
    | nil => rfl
    | cons d ds => have := hsub d List.mem_cons_self; simp at this
  | cons e ex ih =>
    cases ds with
    | nil =>
      have : (e :: ex).filter (fun x => !inAddrs [] x.addr) = e :: ex := by
        apply List.filter_eq_self.mpr; intro x _; simp [inAddrs]
      rw [this]; rfl
    | cons d ds =>
      unfold applyRemovals
      by_cases h : e.addr = d.addr
      · rw [if_pos h]
        have hin : inAddrs (d :: ds) e.addr = true := by unfold inAddrs; simp [h]
        rw [List.filter_cons]
        simp only [hin, Bool.not_true, Bool.false_eq_true, if_false]
        rw [filter_notIn_cons_of_lt ex ds d (fun x hx => by have := hex.head_lt x hx; omega)]
        apply ih ds hex.tail hds.tail
        intro d' hd'
        have h1 := hsub d' (List.mem_cons_of_mem _ hd')
        have h2 := hds.head_lt d' hd'
        rw [List.map_cons] at h1
        rcases List.mem_cons.mp h1 with h1 | h1
        · omega
        · exact h1
      · rw [if_neg h]
        have hd := hsub d List.mem_cons_self
        rw [List.map_cons] at hd
        have hdex : d.addr ∈ ex.map (·.addr) := by
          rcases List.mem_cons.mp hd with hd | hd
          · exact absurd hd.symm h
          · exact hd
        obtain ⟨y, hy, ey⟩ := List.mem_map.mp hdex
        have hlt : e.addr < d.addr := by have := hex.head_lt y hy; omega
        have hnot : inAddrs (d :: ds) e.addr = false := by
          unfold inAddrs
          simp only [decide_eq_false_iff_not]
          intro hm
          obtain ⟨x, hx, e1⟩ := List.mem_map.mp hm
          rcases List.mem_cons.mp hx with rfl | hx
          · omega
          · have := hds.head_lt x hx; omega
        rw [List.filter_cons]
        simp only [hnot, Bool.not_false, if_true]
        congr 1
        apply ih (d :: ds) hex.tail hds
        intro d' hd'
        rcases List.mem_cons.mp hd' with rfl | hd''
        · exact hdex
        · have h1 := hsub d' hd'
          have h2 := hds.head_lt d' hd''
          rw [List.map_cons] at h1
          rcases List.mem_cons.mp h1 with h1 | h1
          · omega
          · exact h1

end KV.ValSet
