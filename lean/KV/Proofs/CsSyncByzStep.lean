import KV.Proofs.CsSyncByzTally
import KV.Proofs.CsCommit
/-! One node in a synchronous round with Byzantine inputs (C04, `KV/Props/C04Net.lean`): what `step`
does with an arbitrary vote of the current height, the `+2/3 any` branches (PrevoteWait /
PrecommitWait), and the inputs that are ignored (proposals of a validator that is not the proposer,
blocks the node does not collect, votes of another height).  Core Lean only. -/
namespace KV.Cs.Sync

theorem toNat_prevoteWait : Step.prevoteWait.toNat = 5 := rfl

/-- a vote of the current height for an existing round: stored (and the branch of its type runs)
iff the signature verifies, the index is a validator's and the slot is empty; otherwise ignored -/
theorem step_vote_cases (cfg : Config) (nb : Option Nat) (peer idx : Nat) (t : VType) (r : Nat) (tgt : Target)
    (sigok : Bool) (σ : State) (hh : σ.halted = false) (hex : (findRV σ.votes σ.height r).isSome = true) :
    step cfg σ nb (.vote peer idx t σ.height r tgt sigok) =
      if sigok = true ∧ idx < n cfg ∧ (slotsV σ.votes t σ.height r)[idx]? = some none then
        (match t with
         | .prevote => afterPrevote cfg nb r (stored t idx tgt σ.height r σ)
         | .precommit => afterPrecommit cfg nb r (stored t idx tgt σ.height r σ))
      else { σ with added := false } := by
  unfold step
  rw [if_neg (by simp [hh])]
  simp only
  unfold addVote
  rw [if_neg (by simp), if_neg (by simp)]
  have he : ensureRound cfg peer r { σ with added := false } = some { σ with added := false } := by
    unfold ensureRound hasRound
    rw [if_pos hex]
  rw [he]
  simp only
  by_cases hc : sigok = true ∧ idx < n cfg
  · rw [if_neg (by simp [hc.1, hc.2])]
    have hs' : State.slots { σ with added := false } t σ.height r = slotsV σ.votes t σ.height r := rfl
    rw [hs']
    cases hslot : (slotsV σ.votes t σ.height r)[idx]? with
    | none => rw [if_neg (by simp)]
    | some v =>
      cases v with
      | none =>
        rw [if_pos ⟨hc.1, hc.2, rfl⟩]
        cases t <;> rfl
      | some x => rw [if_neg (by simp)]
  · rw [if_pos (by
      simp only [Bool.or_eq_true, Bool.not_eq_true', decide_eq_false_iff_not]
      by_cases h1 : sigok = true
      · exact Or.inr (fun h2 => hc ⟨h1, h2⟩)
      · exact Or.inl (by simpa using h1))]
    rw [if_neg (fun h => hc ⟨h.1, h.2.1⟩)]

theorem enterPrevoteWait_fires (h r : Nat) (σ : State) (hh : σ.height = h) (hr : σ.round = r)
    (hs : σ.step.toNat < 5) :
    enterPrevoteWait h r σ = { schedule h r .prevoteWait σ with round := r, step := .prevoteWait } := by
  unfold enterPrevoteWait
  rw [if_neg (by rw [toNat_prevoteWait]; omega)]

theorem enterPrevoteWait_noop (h r : Nat) (σ : State) (hr : σ.round = r) (hs : 5 ≤ σ.step.toNat) :
    enterPrevoteWait h r σ = σ := by
  unfold enterPrevoteWait
  rw [if_pos (by rw [toNat_prevoteWait]; omega)]

/-- no +2/3 for one value: `+2/3 any` sends a node that has prevoted to PrevoteWait -/
theorem afterPrevote_noMaj (cfg : Config) (nb : Option Nat) (vr : Nat) (σ : State)
    (hm : maj23 cfg.powers (slotsV σ.votes .prevote σ.height vr) = none)
    (hr : σ.round = vr) (hs : 4 ≤ σ.step.toNat) :
    afterPrevote cfg nb vr σ =
      if hasAny cfg.powers (slotsV σ.votes .prevote σ.height vr) = true then enterPrevoteWait σ.height vr σ else σ := by
  unfold afterPrevote
  simp only [State.slots_eq, hm, polkaUpdate]
  unfold prevoteSwitch
  simp [hr, toNat_prevote, hs]

/-- a prevote of a round `≥` the node's while there is no +2/3 (any or for one value) and the
proposal's POL round is another one: nothing happens (step Propose in the node's round; any step
for a later round) -/
theorem afterPrevote_idle (cfg : Config) (nb : Option Nat) (vr : Nat) (σ : State)
    (hm : maj23 cfg.powers (slotsV σ.votes .prevote σ.height vr) = none)
    (ha : hasAny cfg.powers (slotsV σ.votes .prevote σ.height vr) = false)
    (hr : σ.round < vr ∨ (σ.round = vr ∧ σ.step = .propose)) (hp : ∀ p, σ.proposal = some p → p.pol ≠ vr) :
    afterPrevote cfg nb vr σ = σ := by
  unfold afterPrevote
  simp only [State.slots_eq, hm, ha, polkaUpdate]
  unfold prevoteSwitch
  rw [if_neg (by simp), if_neg (by
    rcases hr with h | ⟨_, h⟩
    · have : ¬ σ.round = vr := by omega
      simp [this]
    · simp [h, Step.toNat])]
  cases hprop : σ.proposal with
  | none => rfl
  | some p =>
    simp only
    rw [if_neg (by
      have := hp p hprop
      simp [this])]

theorem enterPrecommitWait_cases (h r : Nat) (σ : State) (hh : σ.height = h) (hr : σ.round = r) :
    enterPrecommitWait h r σ =
      if σ.ttp = true then σ else { schedule h r .precommitWait σ with ttp := true } := by
  unfold enterPrecommitWait
  by_cases ht : σ.ttp = true
  · rw [if_pos (Or.inr (Or.inr ⟨hr, ht⟩)), if_pos ht]
  · rw [if_neg (by simp [hh, hr, ht]), if_neg ht]

/-- no +2/3 precommits for one value, in the node's round -/
theorem afterPrecommit_noMaj (cfg : Config) (nb : Option Nat) (vr : Nat) (σ : State)
    (hm : maj23 cfg.powers (slotsV σ.votes .precommit σ.height vr) = none)
    (hr : σ.round = vr) (hs : σ.step ≠ .newHeight) :
    afterPrecommit cfg nb vr σ =
      if hasAny cfg.powers (slotsV σ.votes .precommit σ.height vr) = true then enterPrecommitWait σ.height vr σ
      else σ := by
  unfold afterPrecommit
  simp only [State.slots_eq, hm, hr, Nat.le_refl, decide_true, Bool.true_and]
  rw [enterNewRound_noop cfg nb _ vr σ hr hs]

/-- the slot lists of other (height, round)s are not affected by appending a vote set -/
theorem slotsV_append_other (v : List RoundVotes) (rv : RoundVotes) (t : VType) (h r : Nat)
    (hne : ¬ (rv.height = h ∧ rv.round = r)) : slotsV (v ++ [rv]) t h r = slotsV v t h r := by
  unfold slotsV
  rw [findRV_append]
  cases findRV v h r with
  | some x => rfl
  | none =>
    simp only
    rw [if_neg (by simpa using hne)]

theorem slotsV_append_new (v : List RoundVotes) (k h r : Nat) (t : VType) (hn : findRV v h r = none) :
    slotsV (v ++ [fresh k h r]) t h r = List.replicate k none := by
  unfold slotsV
  rw [findRV_append, hn]
  simp only
  rw [if_pos (by simp [fresh])]
  cases t <;> rfl

end KV.Cs.Sync
