import KV.Model.CStore
/-! Lemmas about the consensus-state store model (property C14): finite maps, the store
invariant, the effect of one `commit`, of `prune`. Core Lean only. -/
namespace KV.CStore

/-! ## finite maps -/
section maps
variable {κ α : Type} [DecidableEq κ]

@[simp] theorem get_put_eq (k : κ) (v : α) (m : List (κ × α)) : get k (put k v m) = some v := by
  simp [get, put]

theorem get_put_ne {k k' : κ} (h : k' ≠ k) (v : α) (m : List (κ × α)) :
    get k (put k' v m) = get k m := by
  simp [get, put, h]

theorem get_put (k k' : κ) (v : α) (m : List (κ × α)) :
    get k (put k' v m) = if k' = k then some v else get k m := by
  simp [get, put]

theorem get_del_eq (k : κ) (m : List (κ × α)) : get k (del k m) = none := by
  induction m with
  | nil => simp [del, get]
  | cons e r ih =>
    obtain ⟨k', v⟩ := e
    by_cases h : k' = k
    · simp [del, h, ih]
    · simp [del, h, get, ih]

theorem get_del_ne {k k' : κ} (h : k' ≠ k) (m : List (κ × α)) : get k (del k' m) = get k m := by
  induction m with
  | nil => simp [del, get]
  | cons e r ih =>
    obtain ⟨k'', v⟩ := e
    by_cases h2 : k'' = k'
    · subst h2
      simp [del, get, h, ih]
    · by_cases h3 : k'' = k
      · subst h3
        simp [del, get, h2]
      · simp [del, h2, get, h3, ih]

theorem get_delAll_of_not_mem {k : κ} (ks : List κ) (m : List (κ × α)) (h : k ∉ ks) :
    get k (delAll ks m) = get k m := by
  induction ks generalizing m with
  | nil => rfl
  | cons a r ih =>
    simp only [List.mem_cons, not_or] at h
    simp only [delAll, List.foldl_cons]
    have := ih (del a m) h.2
    simp only [delAll] at this
    rw [this, get_del_ne (Ne.symm h.1)]

theorem get_delAll_none {k : κ} (ks : List κ) (m : List (κ × α)) (h : get k m = none) :
    get k (delAll ks m) = none := by
  induction ks generalizing m with
  | nil => simpa [delAll] using h
  | cons a r ih =>
    simp only [delAll, List.foldl_cons]
    apply ih
    by_cases e : a = k
    · subst e; exact get_del_eq _ _
    · rw [get_del_ne e]; exact h

theorem get_delAll_of_mem {k : κ} (ks : List κ) (m : List (κ × α)) (h : k ∈ ks) :
    get k (delAll ks m) = none := by
  induction ks generalizing m with
  | nil => cases h
  | cons a r ih =>
    simp only [delAll, List.foldl_cons]
    by_cases e : a = k
    · subst e
      exact get_delAll_none r _ (get_del_eq _ _)
    · have : k ∈ r := by
        cases h with
        | head => exact absurd rfl e
        | tail _ h => exact h
      exact ih _ this

end maps

/-! ## well-formed sets and states (what the node produces) -/

/-- a set `ValidatorSetFromProto`/`ValidateBasic` accepts: non-empty, proposer present, no negative
power -/
def VSet.ok (v : VSet) : Bool :=
  !v.vals.isEmpty &&
    (match v.proposer with
     | none => false
     | some p => !(v.vals.any (fun x => x.power < 0) || p.power < 0))

def setOk : Option VSet → Bool
  | none => false
  | some v => v.ok

/-- well-formed state: current and next set present and valid; the last set present and valid
except at height 0 where it is nil; initial height normalised (`MakeGenesisState` makes it ≥ 1);
at height 0 the block id and the app hash are empty (as `MakeGenesisState` makes them) -/
def CState.wf (s : CState) : Bool :=
  setOk s.vals && setOk s.next && (if s.height = 0 then s.last.isNone else setOk s.last) &&
    (s.initialHeight != 0) &&
    (if s.height = 0 then decide (s.blockId = zeroBlockId ∧ s.appHash = zero32) else true)

theorem readSet_ok {v : VSet} (h : v.ok = true) (l : Nat) : readSet (some ⟨some v, l⟩) = some v := by
  unfold VSet.ok at h
  unfold readSet
  cases hp : v.proposer with
  | none => simp [hp] at h
  | some p =>
    simp only [hp, Bool.and_eq_true, Bool.not_eq_true'] at h
    simp only [h.1, hp, h.2]
    simp

theorem readSet_some {i : Option ValInfo} {v : VSet} (h : readSet i = some v) :
    ∃ l, i = some ⟨some v, l⟩ := by
  unfold readSet at h
  cases i with
  | none => simp at h
  | some i =>
    obtain ⟨s, l⟩ := i
    cases s with
    | none => simp at h
    | some w =>
      simp only at h
      split at h
      · simp at h
      · split at h
        · simp at h
        · split at h
          · simp at h
          · simp only [Option.some.injEq] at h
            subst h
            exact ⟨l, rfl⟩

theorem vkey_ok {v : VSet} (h : v.ok = true) : vkey (some v) = some v.memb := by
  unfold VSet.ok at h
  simp only [Bool.and_eq_true, Bool.not_eq_true'] at h
  simp [vkey, h.1]

theorem writable_ok {v : VSet} (h : v.ok = true) : writable (some v) = true := by
  unfold VSet.ok at h
  cases hp : v.proposer with
  | none => simp [hp] at h
  | some p => simp [writable, hp]

/-! ## the store invariant -/

/-- every validator-info record sits under the key of its own set, and holds nil or a valid set -/
def Inv (db : DB) : Prop :=
  ∀ k i, get k db.vals = some i → vkey i.set = k ∧ (i.set = none ∨ setOk i.set = true)

theorem Inv_empty : Inv {} := by
  intro k i h; simp [get] at h

theorem Inv_saveVals {m : List (VKey × ValInfo)} (hm : ∀ k i, get k m = some i → vkey i.set = k ∧ (i.set = none ∨ setOk i.set = true))
    (l : Nat) (s : Option VSet) (hs : s = none ∨ setOk s = true) :
    ∀ k i, get k (saveVals l s m) = some i → vkey i.set = k ∧ (i.set = none ∨ setOk i.set = true) := by
  intro k i h
  unfold saveVals at h
  rw [get_put] at h
  split at h
  · rename_i e
    simp only [Option.some.injEq] at h
    subst h
    exact ⟨e, hs⟩
  · exact hm k i h

/-- the sets a record under a `some` key can hold -/
theorem Inv_lookup {db : DB} (hI : Inv db) {m : Memb} {i : ValInfo} (h : get (some m) db.vals = some i) :
    ∃ v, i.set = some v ∧ v.ok = true ∧ v.memb = m := by
  obtain ⟨hk, ho⟩ := hI _ _ h
  cases hs : i.set with
  | none => rw [hs] at hk; simp [vkey] at hk
  | some v =>
    rw [hs] at hk ho
    have hv : v.ok = true := by
      cases ho with
      | inl h => cases h
      | inr h => simpa [setOk] using h
    rw [vkey_ok hv] at hk
    exact ⟨v, rfl, hv, by simpa using hk⟩

/-! ## one commit -/

theorem wf_parts {s : CState} (h : s.wf = true) :
    (∃ v, s.vals = some v ∧ v.ok = true) ∧ (∃ n, s.next = some n ∧ n.ok = true) ∧
    (s.height = 0 → s.last = none) ∧ (s.height ≠ 0 → ∃ l, s.last = some l ∧ l.ok = true) ∧
    s.initialHeight ≠ 0 := by
  unfold CState.wf at h
  simp only [Bool.and_eq_true, bne_iff_ne, ne_eq] at h
  obtain ⟨⟨⟨⟨hv, hn⟩, hl⟩, hi⟩, _⟩ := h
  refine ⟨?_, ?_, ?_, ?_, hi⟩
  · cases e : s.vals with
    | none => simp [e, setOk] at hv
    | some v => exact ⟨v, rfl, by simpa [e, setOk] using hv⟩
  · cases e : s.next with
    | none => simp [e, setOk] at hn
    | some v => exact ⟨v, rfl, by simpa [e, setOk] using hn⟩
  · intro h0
    simp only [h0, if_true] at hl
    simpa using hl
  · intro h0
    simp only [h0, if_false] at hl
    cases e : s.last with
    | none => simp [e, setOk] at hl
    | some v => exact ⟨v, rfl, by simpa [e, setOk] using hl⟩

theorem wf_genesis {s : CState} (h : s.wf = true) (hz : s.height = 0) :
    s.blockId = zeroBlockId ∧ s.appHash = zero32 := by
  unfold CState.wf at h
  simp only [Bool.and_eq_true, hz, if_true, decide_eq_true_eq] at h
  exact h.2

/-- the validator-info map after `saveState` -/
def valsAfter (db : DB) (s : CState) : List (VKey × ValInfo) :=
  saveVals s.lhv s.next
    (if s.height = 0 then saveVals s.lhv s.vals (saveVals s.lhv s.last db.vals) else db.vals)

/-- `saveState` of a well-formed state succeeds, and this is what it writes -/
theorem saveState_wf {db : DB} {s : CState} (h : s.wf = true) :
    saveState db s = some
      { db with
        vals := valsAfter db s
        params := put (pkey s.params s.lhp) ⟨s.params, s.lhp⟩ db.params
        states := put s.height
          { chainId := s.chainId, initialHeight := s.initialHeight, lastKey := vkey s.last,
            valsKey := vkey s.vals, nextKey := vkey s.next, paramsKey := pkey s.params s.lhp } db.states } := by
  obtain ⟨⟨v, hv, hvo⟩, ⟨n, hn, hno⟩, h0, h1, _⟩ := wf_parts h
  unfold saveState valsAfter
  by_cases hz : s.height = 0
  · have hl := h0 hz
    have w0 : writable (none : Option VSet) = true := rfl
    simp [hv, hn, hl, hz, writable_ok hvo, writable_ok hno, w0]
  · obtain ⟨l, hl, hlo⟩ := h1 hz
    simp [hv, hn, hl, hz, writable_ok hno]

theorem commit_wf {db : DB} {s : CState} (h : s.wf = true) :
    ∃ db', commit db s = some db' ∧
      db'.vals = valsAfter db s ∧
      db'.params = put (pkey s.params s.lhp) ⟨s.params, s.lhp⟩ db.params ∧
      db'.states = put s.height
          { chainId := s.chainId, initialHeight := s.initialHeight, lastKey := vkey s.last,
            valsKey := vkey s.vals, nextKey := vkey s.next, paramsKey := pkey s.params s.lhp } db.states ∧
      db'.metas = put s.height ⟨s.height, s.blockId, s.time, s.numTxs⟩ db.metas ∧
      db'.apps = put s.height s.appHash db.apps := by
  unfold commit
  rw [saveState_wf h]
  exact ⟨_, rfl, rfl, rfl, rfl, rfl, rfl⟩

theorem Inv_valsAfter {db : DB} (hI : Inv db) {s : CState} (h : s.wf = true) :
    ∀ k i, get k (valsAfter db s) = some i → vkey i.set = k ∧ (i.set = none ∨ setOk i.set = true) := by
  obtain ⟨⟨v, hv, hvo⟩, ⟨n, hn, hno⟩, h0, h1, _⟩ := wf_parts h
  unfold valsAfter
  apply Inv_saveVals
  · split
    · rename_i hz
      apply Inv_saveVals
      · apply Inv_saveVals hI
        exact Or.inl (h0 hz)
      · exact Or.inr (by simp [hv, setOk, hvo])
    · exact hI
  · exact Or.inr (by simp [hn, setOk, hno])

/-- writes never remove a record -/
theorem valsAfter_mono {db : DB} {s : CState} {k : VKey} (h : (get k db.vals).isSome) :
    (get k (valsAfter db s)).isSome := by
  unfold valsAfter saveVals
  rw [get_put]
  split
  · simp
  · split
    · rw [get_put]; split
      · simp
      · rw [get_put]; split
        · simp
        · exact h
    · exact h

theorem valsAfter_next {db : DB} {s : CState} :
    get (vkey s.next) (valsAfter db s) = some ⟨s.next, s.lhv⟩ := by
  simp [valsAfter, saveVals]

/-- a key different from the next key is untouched at a non-genesis height -/
theorem valsAfter_other {db : DB} {s : CState} {k : VKey} (hz : s.height ≠ 0) (hk : vkey s.next ≠ k) :
    get k (valsAfter db s) = get k db.vals := by
  simp [valsAfter, saveVals, hz, get_put_ne hk]

end KV.CStore
