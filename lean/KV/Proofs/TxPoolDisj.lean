import KV.Proofs.TxPoolInvReorg
/-!
# Pending and queue hold disjoint nonces per sender (property C17)

`NDisj p`: no account has the same nonce both in its pending and in its queued list.  Every pool
function either only moves/removes towards the queue (`Dem`) or only towards pending (`Pro`);
both shapes compose and preserve `NDisj`.
-/
namespace KV.TxPool
open TxList
namespace Pool

def InP (p : Pool) (a n : Nat) : Prop := ∃ l, amGet p.pending a = some l ∧ ∃ t ∈ l.txs, t.nonce = n
def InQ (p : Pool) (a n : Nat) : Prop := ∃ l, amGet p.queue a = some l ∧ ∃ t ∈ l.txs, t.nonce = n

/-- no account holds one nonce both pending and queued -/
def NDisj (p : Pool) : Prop := ∀ a n, InP p a n → InQ p a n → False

/-- nothing enters pending; whatever enters the queue is not pending afterwards -/
def Dem (p p' : Pool) : Prop :=
  (∀ b m, InP p' b m → InP p b m) ∧ (∀ b m, InQ p' b m → InQ p b m ∨ ¬ InP p' b m)

/-- nothing enters the queue; whatever enters pending is not queued afterwards -/
def Pro (p p' : Pool) : Prop :=
  (∀ b m, InQ p' b m → InQ p b m) ∧ (∀ b m, InP p' b m → InP p b m ∨ ¬ InQ p' b m)

theorem Dem.refl (p : Pool) : Dem p p := ⟨fun _ _ h => h, fun _ _ h => Or.inl h⟩
theorem Pro.refl (p : Pool) : Pro p p := ⟨fun _ _ h => h, fun _ _ h => Or.inl h⟩

theorem Dem.trans {p q r : Pool} (h1 : Dem p q) (h2 : Dem q r) : Dem p r := by
  refine ⟨fun b m h => h1.1 b m (h2.1 b m h), ?_⟩
  intro b m h
  rcases h2.2 b m h with h | h
  · rcases h1.2 b m h with h | h
    · exact Or.inl h
    · exact Or.inr (fun hr => h (h2.1 b m hr))
  · exact Or.inr h

theorem Pro.trans {p q r : Pool} (h1 : Pro p q) (h2 : Pro q r) : Pro p r := by
  refine ⟨fun b m h => h1.1 b m (h2.1 b m h), ?_⟩
  intro b m h
  rcases h2.2 b m h with h | h
  · rcases h1.2 b m h with h | h
    · exact Or.inl h
    · exact Or.inr (fun hr => h (h2.1 b m hr))
  · exact Or.inr h

theorem Dem.ndisj {p p' : Pool} (h : Dem p p') (hn : NDisj p) : NDisj p' := by
  intro a n hp hq
  rcases h.2 a n hq with hq' | hq'
  · exact hn a n (h.1 a n hp) hq'
  · exact hq' hp

theorem Pro.ndisj {p p' : Pool} (h : Pro p p') (hn : NDisj p) : NDisj p' := by
  intro a n hp hq
  rcases h.2 a n hp with hp' | hp'
  · exact hn a n hp' (h.1 a n hq)
  · exact hp' hq

/-- same maps, same membership -/
theorem Dem.frame {p p' : Pool} (hp : p'.pending = p.pending) (hq : p'.queue = p.queue) : Dem p p' := by
  refine ⟨?_, ?_⟩
  · intro b m h; unfold InP at *; rw [hp] at h; exact h
  · intro b m h; left; unfold InQ at *; rw [hq] at h; exact h

theorem Pro.frame {p p' : Pool} (hp : p'.pending = p.pending) (hq : p'.queue = p.queue) : Pro p p' := by
  refine ⟨?_, ?_⟩
  · intro b m h; unfold InQ at *; rw [hq] at h; exact h
  · intro b m h; left; unfold InP at *; rw [hp] at h; exact h

theorem InP_congr {p p' : Pool} (hp : p'.pending = p.pending) (b m : Nat) : InP p' b m ↔ InP p b m := by
  unfold InP; rw [hp]
theorem InQ_congr {p p' : Pool} (hq : p'.queue = p.queue) (b m : Nat) : InQ p' b m ↔ InQ p b m := by
  unfold InQ; rw [hq]

/-- membership after storing a list under `a` in the pending map -/
theorem InP_set {p : Pool} {a : Nat} {l : TxList} {b m : Nat}
    (h : InP { p with pending := amSet p.pending a l } b m) :
    (b = a ∧ ∃ t ∈ l.txs, t.nonce = m) ∨ (b ≠ a ∧ InP p b m) := by
  obtain ⟨l', hl', ht⟩ := h
  by_cases hb : b = a
  · subst hb
    simp only [amGet_amSet_self] at hl'
    cases hl'
    exact Or.inl ⟨rfl, ht⟩
  · simp only [amGet_amSet_other _ _ hb] at hl'
    exact Or.inr ⟨hb, l', hl', ht⟩

theorem InP_erase {p : Pool} {a : Nat} {b m : Nat}
    (h : InP { p with pending := amErase p.pending a } b m) : b ≠ a ∧ InP p b m := by
  obtain ⟨l', hl', ht⟩ := h
  by_cases hb : b = a
  · subst hb
    simp only [amGet_amErase_self] at hl'
    cases hl'
  · simp only [amGet_amErase_other _ hb] at hl'
    exact ⟨hb, l', hl', ht⟩

theorem InQ_set {p : Pool} {a : Nat} {l : TxList} {b m : Nat}
    (h : InQ { p with queue := amSet p.queue a l } b m) :
    (b = a ∧ ∃ t ∈ l.txs, t.nonce = m) ∨ (b ≠ a ∧ InQ p b m) := by
  obtain ⟨l', hl', ht⟩ := h
  by_cases hb : b = a
  · subst hb
    simp only [amGet_amSet_self] at hl'
    cases hl'
    exact Or.inl ⟨rfl, ht⟩
  · simp only [amGet_amSet_other _ _ hb] at hl'
    exact Or.inr ⟨hb, l', hl', ht⟩

theorem InQ_erase {p : Pool} {a : Nat} {b m : Nat}
    (h : InQ { p with queue := amErase p.queue a } b m) : b ≠ a ∧ InQ p b m := by
  obtain ⟨l', hl', ht⟩ := h
  by_cases hb : b = a
  · subst hb
    simp only [amGet_amErase_self] at hl'
    cases hl'
  · simp only [amGet_amErase_other _ hb] at hl'
    exact ⟨hb, l', hl', ht⟩

/-- membership in the "store or delete" step -/
theorem InQ_finish {p4 : Pool} {a : Nat} {l : TxList} {b m : Nat}
    (h : InQ (if l.isEmpty then { p4 with queue := amErase p4.queue a }
              else { p4 with queue := amSet p4.queue a l }) b m) :
    (b = a ∧ ∃ t ∈ l.txs, t.nonce = m) ∨ (b ≠ a ∧ InQ p4 b m) := by
  split at h
  · exact Or.inr (InQ_erase h)
  · exact InQ_set h

theorem InP_finish {p4 : Pool} {a : Nat} {l : TxList} {b m : Nat}
    (h : InP (if l.isEmpty then { p4 with pending := amErase p4.pending a }
              else { p4 with pending := amSet p4.pending a l }) b m) :
    (b = a ∧ ∃ t ∈ l.txs, t.nonce = m) ∨ (b ≠ a ∧ InP p4 b m) := by
  split at h
  · exact Or.inr (InP_erase h)
  · exact InP_set h

theorem finishQueue_pending (p4 : Pool) (a : Nat) (l : TxList) :
    (if l.isEmpty then { p4 with queue := amErase p4.queue a }
     else { p4 with queue := amSet p4.queue a l }).pending = p4.pending := by
  split <;> rfl

theorem finishPending_queue (p4 : Pool) (a : Nat) (l : TxList) :
    (if l.isEmpty then { p4 with pending := amErase p4.pending a }
     else { p4 with pending := amSet p4.pending a l }).queue = p4.queue := by
  split <;> rfl

/-! ## enqueueTx -/

theorem enqueueTx_queue_cases (p : Pool) (t : Tx) (loc addAll : Bool) :
    (p.enqueueTx t loc addAll).1.queue =
        amSet p.queue t.sender ((amGet p.queue t.sender).getD (TxList.new false)) ∨
    (p.enqueueTx t loc addAll).1.queue =
        amSet p.queue t.sender (((amGet p.queue t.sender).getD (TxList.new false)).add t p.cfg.priceBump).1 := by
  unfold enqueueTx
  simp only
  repeat' split
  all_goals first
    | exact Or.inl rfl
    | exact Or.inr rfl

theorem InQ_enqueueTx {p : Pool} {t : Tx} {loc addAll : Bool} {b m : Nat}
    (h : InQ (p.enqueueTx t loc addAll).1 b m) : InQ p b m ∨ (b = t.sender ∧ m = t.nonce) := by
  have hold : ∀ x ∈ ((amGet p.queue t.sender).getD (TxList.new false)).txs, x.nonce = m → InQ p t.sender m := by
    intro x hx hxm
    cases hg : amGet p.queue t.sender with
    | none => rw [hg] at hx; simp [TxList.new] at hx
    | some l => rw [hg] at hx; exact ⟨l, hg, x, hx, hxm⟩
  obtain ⟨l', hl', x, hx, hxm⟩ := h
  rcases enqueueTx_queue_cases p t loc addAll with hq | hq
  · rw [hq] at hl'
    by_cases hb : b = t.sender
    · subst hb
      rw [amGet_amSet_self] at hl'; cases hl'
      exact Or.inl (hold x hx hxm)
    · rw [amGet_amSet_other _ _ hb] at hl'
      exact Or.inl ⟨l', hl', x, hx, hxm⟩
  · rw [hq] at hl'
    by_cases hb : b = t.sender
    · subst hb
      rw [amGet_amSet_self] at hl'; cases hl'
      rcases add_txs_sub _ _ _ x hx with hx | hx
      · subst hx; exact Or.inr ⟨rfl, hxm.symm⟩
      · exact Or.inl (hold x hx hxm)
    · rw [amGet_amSet_other _ _ hb] at hl'
      exact Or.inl ⟨l', hl', x, hx, hxm⟩

/-- enqueueing a list of transactions of account `a`: what is queued afterwards was queued before
or is one of them; pending is untouched -/
theorem enqueueL_spec (ts : List Tx) (p : Pool) :
    (ts.foldl (fun q t => (q.enqueueTx t false false).1) p).pending = p.pending ∧
    ∀ b m, InQ (ts.foldl (fun q t => (q.enqueueTx t false false).1) p) b m →
      InQ p b m ∨ ∃ x ∈ ts, b = x.sender ∧ m = x.nonce := by
  induction ts generalizing p with
  | nil => exact ⟨rfl, fun _ _ h => Or.inl h⟩
  | cons t rest ih =>
    obtain ⟨i1, i2⟩ := ih (p.enqueueTx t false false).1
    simp only [List.foldl_cons]
    refine ⟨by rw [i1, enqueueTx_pending], ?_⟩
    intro b m h
    rcases i2 b m h with h | ⟨x, hx, hxe⟩
    · rcases InQ_enqueueTx h with h | h
      · exact Or.inl h
      · exact Or.inr ⟨t, by simp, h⟩
    · exact Or.inr ⟨x, by simp [hx], hxe⟩

theorem remove_disj (l : TxList) (n : Nat) :
    ∀ y ∈ (l.remove n).1.txs, ∀ x ∈ (l.remove n).2.2, y.nonce ≠ x.nonce := by
  intro y hy x hx
  cases hg : l.get? n with
  | none => simp [TxList.remove, hg] at hx
  | some v =>
    by_cases hs : l.strict = true
    · simp only [TxList.remove, hg, hs, if_true, List.mem_filter, decide_eq_true_eq,
        Bool.not_eq_true', decide_eq_false_iff_not] at hy hx
      omega
    · simp [TxList.remove, hg, hs] at hx

theorem pnSetIfLower_pending (p : Pool) (a n : Nat) : (p.pnSetIfLower a n).pending = p.pending := by
  unfold pnSetIfLower; split <;> rfl
theorem pnSetIfLower_queue (p : Pool) (a n : Nat) : (p.pnSetIfLower a n).queue = p.queue := by
  unfold pnSetIfLower; split <;> rfl

variable {c : Chain} {Φ : Phi c}

theorem removeTx_dem {p : Pool} (h : Good Φ p) (t : Tx) : Dem p (p.removeTx t) := by
  unfold removeTx
  split
  · exact Dem.refl p
  · have hvia : Dem p (match amGet (p.allRemove t).queue t.sender with
        | none => p.allRemove t
        | some ql =>
          if (ql.remove t.nonce).1.isEmpty then { p.allRemove t with queue := amErase (p.allRemove t).queue t.sender }
          else { p.allRemove t with queue := amSet (p.allRemove t).queue t.sender (ql.remove t.nonce).1 }) := by
      split
      · exact Dem.frame rfl rfl
      · rename_i ql hql
        refine ⟨?_, ?_⟩
        · intro b m hb
          rw [InP_congr (finishQueue_pending _ _ _)] at hb
          exact hb
        · intro b m hb
          left
          rcases InQ_finish hb with ⟨hba, x, hx, hxm⟩ | ⟨_, hq⟩
          · subst hba
            exact ⟨ql, hql, x, remove_sub _ _ x hx, hxm⟩
          · exact hq
    simp only
    split
    · exact hvia
    · rename_i pl hpl
      have hplg := h.pend _ _ hpl
      split
      · -- found in pending: the rest above it is demoted
        refine ⟨?_, ?_⟩
        · intro b m hb
          rw [InP_congr (pnSetIfLower_pending _ _ _), InP_congr (enqueueL_spec _ _).1] at hb
          rcases InP_finish hb with ⟨hba, x, hx, hxm⟩ | ⟨_, hq⟩
          · subst hba
            exact ⟨pl, hpl, x, remove_sub _ _ x hx, hxm⟩
          · exact hq
        · intro b m hb
          rw [InQ_congr (pnSetIfLower_queue _ _ _)] at hb
          rcases (enqueueL_spec _ _).2 b m hb with hq | ⟨x, hx, hbx, hmx⟩
          · left
            rw [InQ_congr (finishPending_queue _ _ _)] at hq
            exact hq
          · right
            intro hp'
            rw [InP_congr (pnSetIfLower_pending _ _ _), InP_congr (enqueueL_spec _ _).1] at hp'
            have hxs : x.sender = t.sender := Φ.psnd _ _ (hplg.2 x (remove_invalids_sub _ _ x hx))
            rcases InP_finish hp' with ⟨_, y, hy, hym⟩ | ⟨hne, _⟩
            · exact remove_disj pl t.nonce y hy x hx (by omega)
            · exact hne (by rw [hbx, hxs])
      · exact hvia

theorem removeL_dem {p : Pool} (h : Good Φ p) (hpq : Φ.PQ) (ts : List Tx) :
    Dem p (ts.foldl removeTx p) ∧ Good Φ (ts.foldl removeTx p) :=
  foldl_inv (fun s : Pool => Dem p s ∧ Good Φ s) removeTx ts p ⟨Dem.refl p, h⟩
    (fun s x _ hs => ⟨hs.1.trans (removeTx_dem hs.2 x), good_removeTx hs.2 hpq x⟩)

theorem get?_some_mem {l : TxList} {n : Nat} {o : Tx} (h : l.get? n = some o) : o ∈ l.txs ∧ o.nonce = n := by
  unfold TxList.get? at h
  refine ⟨List.mem_of_find?_eq_some h, ?_⟩
  have := List.find?_some h
  simpa using this

theorem get?_none_nonce {l : TxList} {n : Nat} (h : l.get? n = none) : ∀ x ∈ l.txs, x.nonce ≠ n := by
  unfold TxList.get? at h
  intro x hx
  have := List.find?_eq_none.mp h x hx
  simpa using this

theorem replacePending_dem {p : Pool} {a : Nat} {pl : TxList} {t o : Tx} (bump : Nat)
    (hg : amGet p.pending a = some pl) (ho : pl.get? t.nonce = some o) :
    Dem p { p with pending := amSet p.pending a (pl.add t bump).1 } := by
  refine ⟨?_, fun b m hb => Or.inl hb⟩
  intro b m hb
  rcases InP_set hb with ⟨hba, x, hx, hxm⟩ | ⟨_, hq⟩
  · subst hba
    rcases add_txs_sub _ _ _ x hx with hx | hx
    · subst hx
      obtain ⟨h1, h2⟩ := get?_some_mem ho
      exact ⟨pl, hg, o, h1, by omega⟩
    · exact ⟨pl, hg, x, hx, hxm⟩
  · exact hq

theorem enqueue_dem {p : Pool} {t : Tx} (loc addAll : Bool) (hn : ¬ InP p t.sender t.nonce) :
    Dem p (p.enqueueTx t loc addAll).1 := by
  refine ⟨?_, ?_⟩
  · intro b m hb; rw [InP_congr (enqueueTx_pending _ _ _ _)] at hb; exact hb
  · intro b m hb
    rcases InQ_enqueueTx hb with hq | ⟨hbs, hmn⟩
    · exact Or.inl hq
    · right
      rw [InP_congr (enqueueTx_pending _ _ _ _), hbs, hmn]
      exact hn

theorem addTail_dem (p : Pool) (t : Tx) (isLocal loc : Bool) : Dem p (p.addTail t isLocal loc).1 := by
  cases hg : amGet p.pending t.sender with
  | none =>
    have hn : ¬ InP p t.sender t.nonce := by
      intro ⟨l, hl, _⟩; rw [hg] at hl; cases hl
    have h2 := enqueue_dem (p := p) (t := t) isLocal true hn
    simp only [addTail, hg, Bool.false_eq_true, if_false]
    repeat' split
    all_goals first
      | exact h2
      | exact h2.trans (Dem.frame rfl rfl)
      | (rename_i hf; simp at hf)
  | some pl =>
    cases hgt : pl.get? t.nonce with
    | none =>
      have hn : ¬ InP p t.sender t.nonce := by
        intro ⟨l, hl, x, hx, hxn⟩
        rw [hg] at hl; cases hl
        exact get?_none_nonce hgt x hx hxn
      have h2 := enqueue_dem (p := p) (t := t) isLocal true hn
      simp only [addTail, hg, hgt, Option.isSome_none, Bool.false_eq_true, if_false]
      repeat' split
      all_goals first
        | exact h2
        | exact h2.trans (Dem.frame rfl rfl)
        | (rename_i hf; simp at hf)
    | some o =>
      have h1 := replacePending_dem (p := p) p.cfg.priceBump hg hgt
      simp only [addTail, hg, hgt, Option.getD_some, Option.isSome_some, if_true]
      repeat' split
      all_goals first
        | exact Dem.refl p
        | exact h1.trans (Dem.frame rfl rfl)
        | (rename_i hf; simp at hf)

theorem addRoom_ndisj {p : Pool} (h : Good Φ p) (hpq : Φ.PQ) (hn : NDisj p) (t : Tx) (isLocal loc : Bool) :
    ∀ r ∈ p.addRoom t isLocal loc, NDisj r.1 := by
  intro r hr
  unfold addRoom at hr
  simp only at hr
  split at hr
  · split at hr
    · simp at hr; subst hr; exact hn
    · split at hr
      · simp at hr; subst hr; exact hn
      · simp only [List.mem_map] at hr
        obtain ⟨d, _, hd⟩ := hr
        cases d with
        | none => simp at hd; subst hd; exact hn
        | some drop =>
          simp only at hd
          subst hd
          have h0 : Good Φ ({ p with changes := p.changes + drop.length } : Pool) := h.frame rfl rfl rfl
          have hd := (removeL_dem h0 hpq drop).1
          exact (addTail_dem _ t _ loc).ndisj (hd.ndisj ((Dem.frame (p := p) rfl rfl).ndisj hn))
  · simp at hr; subst hr; exact (addTail_dem p t _ loc).ndisj hn

theorem add_ndisj {p : Pool} (h : Good Φ p) (hpq : Φ.PQ) (hn : NDisj p) (t : Tx) (loc : Bool) :
    ∀ r ∈ p.add t loc, NDisj r.1 := by
  intro r hr
  unfold add at hr
  split at hr
  · simp at hr; subst hr; exact hn
  · simp only at hr
    split at hr
    · simp at hr; subst hr; exact hn
    · split at hr
      · simp at hr; subst hr; exact hn
      · exact addRoom_ndisj h hpq hn t _ loc r hr

/-! ## promotion -/

theorem promoteTx_pending_cases (p : Pool) (a : Nat) (t : Tx) :
    (p.promoteTx a t).pending = amSet p.pending a ((amGet p.pending a).getD (TxList.new true)) ∨
    (p.promoteTx a t).pending =
      amSet p.pending a (((amGet p.pending a).getD (TxList.new true)).add t p.cfg.priceBump).1 := by
  unfold promoteTx
  simp only
  repeat' split
  all_goals first
    | exact Or.inl rfl
    | exact Or.inr rfl

theorem InP_promoteTx {p : Pool} {a : Nat} {t : Tx} {b m : Nat} (h : InP (p.promoteTx a t) b m) :
    InP p b m ∨ (b = a ∧ m = t.nonce) := by
  have hold : ∀ x ∈ ((amGet p.pending a).getD (TxList.new true)).txs, x.nonce = m → InP p a m := by
    intro x hx hxm
    cases hg : amGet p.pending a with
    | none => rw [hg] at hx; simp [TxList.new] at hx
    | some l => rw [hg] at hx; exact ⟨l, hg, x, hx, hxm⟩
  obtain ⟨l', hl', x, hx, hxm⟩ := h
  rcases promoteTx_pending_cases p a t with hq | hq
  · rw [hq] at hl'
    by_cases hb : b = a
    · subst hb
      rw [amGet_amSet_self] at hl'; cases hl'
      exact Or.inl (hold x hx hxm)
    · rw [amGet_amSet_other _ _ hb] at hl'
      exact Or.inl ⟨l', hl', x, hx, hxm⟩
  · rw [hq] at hl'
    by_cases hb : b = a
    · subst hb
      rw [amGet_amSet_self] at hl'; cases hl'
      rcases add_txs_sub _ _ _ x hx with hx | hx
      · subst hx; exact Or.inr ⟨rfl, hxm.symm⟩
      · exact Or.inl (hold x hx hxm)
    · rw [amGet_amSet_other _ _ hb] at hl'
      exact Or.inl ⟨l', hl', x, hx, hxm⟩

theorem promoteL_spec (a : Nat) (ts : List Tx) (p : Pool) :
    (ts.foldl (fun q t => q.promoteTx a t) p).queue = p.queue ∧
    ∀ b m, InP (ts.foldl (fun q t => q.promoteTx a t) p) b m →
      InP p b m ∨ (b = a ∧ ∃ x ∈ ts, m = x.nonce) := by
  induction ts generalizing p with
  | nil => exact ⟨rfl, fun _ _ h => Or.inl h⟩
  | cons t rest ih =>
    obtain ⟨i1, i2⟩ := ih (p.promoteTx a t)
    simp only [List.foldl_cons]
    refine ⟨by rw [i1, promoteTx_queue], ?_⟩
    intro b m h
    rcases i2 b m h with h | ⟨hb, x, hx, hxe⟩
    · rcases InP_promoteTx h with h | ⟨hb, hm⟩
      · exact Or.inl h
      · exact Or.inr ⟨hb, t, by simp, hm⟩
    · exact Or.inr ⟨hb, x, by simp [hx], hxe⟩

theorem ready_disj (l : TxList) (hs : Sorted l.txs) (start : Nat) :
    ∀ x ∈ (l.ready start).2, ∀ y ∈ (l.ready start).1.txs, x.nonce < y.nonce := by
  have := ready_split l start
  unfold Sorted at hs
  rw [← this] at hs
  exact (List.pairwise_append.mp hs).2.2

theorem promoteAccount_pro {p : Pool} (h : Good Φ p) (a : Nat) : Pro p (p.promoteAccount a) := by
  unfold promoteAccount
  split
  · exact Pro.refl p
  · rename_i list hlist
    have hl0 := h.que a list hlist
    have hf1 : (list.forward (p.stateNonce a)).1.WF := wf_forward _ _ hl0.1
    have hd1 : ((list.forward (p.stateNonce a)).1.filter (p.balance a) p.chain.gasLimit).1.WF :=
      wf_filter _ _ _ hf1
    simp only
    refine ⟨?_, ?_⟩
    · intro b m hb
      rcases InQ_finish hb with ⟨hba, y, hy, hym⟩ | ⟨_, hq⟩
      · subst hba
        exact ⟨list, hlist, y, forward_sub _ _ y (filter_sub _ _ _ y (ready_sub _ _ y (capIf_sub _ _ y hy))), hym⟩
      · rw [InQ_congr (allRemoveL_queue _ _), InQ_congr (promoteL_spec _ _ _).1,
          InQ_congr (allRemoveL_queue _ _), InQ_congr (allRemoveL_queue _ _)] at hq
        exact hq
    · intro b m hb
      rw [InP_congr (finishQueue_pending _ _ _), InP_congr (allRemoveL_pending _ _)] at hb
      rcases (promoteL_spec _ _ _).2 b m hb with hp | ⟨hba, x, hx, hxm⟩
      · left
        rw [InP_congr (allRemoveL_pending _ _), InP_congr (allRemoveL_pending _ _)] at hp
        exact hp
      · right
        intro hq
        rcases InQ_finish hq with ⟨_, y, hy, hym⟩ | ⟨hne, _⟩
        · have := ready_disj _ hd1.1 _ x hx y (capIf_sub _ _ y hy)
          omega
        · exact hne hba

theorem promoteExecutables_pro (accts : List Nat) {p : Pool} (h : Good Φ p) :
    Pro p (p.promoteExecutables accts) := by
  induction accts generalizing p with
  | nil => exact Pro.refl p
  | cons a rest ih =>
    simp only [promoteExecutables, List.foldl_cons]
    exact (promoteAccount_pro h a).trans (ih (promoteAccount_spec h a).1)

/-! ## demotion -/

theorem filter_disj (l : TxList) (c g : Nat) :
    ∀ y ∈ (l.filter c g).1.txs, ∀ x ∈ (l.filter c g).2.2, y.nonce ≠ x.nonce := by
  intro y hy x hx
  unfold TxList.filter at hy hx
  by_cases h1 : l.costcap ≤ c ∧ l.gascap ≤ g
  · simp [h1] at hx
  · rw [if_neg h1] at hy hx
    simp only at hy hx
    by_cases h2 : (l.txs.filter (unpayable c g)).isEmpty = true
    · rw [if_pos h2] at hx; simp at hx
    · rw [if_neg h2] at hy hx
      by_cases h3 : l.strict = true
      · rw [if_pos h3] at hy hx
        simp only [List.mem_filter, decide_eq_true_eq, Bool.not_eq_true',
          decide_eq_false_iff_not] at hy hx
        omega
      · rw [if_neg h3] at hx; simp at hx

theorem capIf_disj {l : TxList} (hs : Sorted l.txs) (P : Prop) [Decidable P] (k : Nat) :
    ∀ y ∈ (if P then l.cap k else (l, [])).1.txs, ∀ x ∈ (if P then l.cap k else (l, [])).2,
      y.nonce ≠ x.nonce := by
  intro y hy x hx
  by_cases hP : P
  · simp only [hP, if_true] at hy hx
    unfold TxList.cap at hy hx
    by_cases hl : l.txs.length ≤ k
    · simp [hl] at hx
    · simp only [hl, if_false, List.mem_reverse] at hy hx
      unfold Sorted at hs
      rw [← List.take_append_drop k l.txs] at hs
      have := (List.pairwise_append.mp hs).2.2 y hy x hx
      omega
  · simp [hP] at hx

theorem notInP_finish {p4 : Pool} {a b m : Nat} {G1 : TxList} {x : Tx} (hxs : x.sender = a)
    (hbx : b = x.sender) (hmx : m = x.nonce) (hdis : ∀ y ∈ G1.txs, y.nonce ≠ x.nonce) :
    ¬ InP (if G1.isEmpty then { p4 with pending := amErase p4.pending a }
           else { p4 with pending := amSet p4.pending a G1 }) b m := by
  intro hp'
  rcases InP_finish hp' with ⟨_, y, hy, hym⟩ | ⟨hne, _⟩
  · exact hdis y hy (by omega)
  · exact hne (by rw [hbx, hxs])

theorem demoteAccount_dem {p : Pool} (h : Good Φ p) (a : Nat) : Dem p (p.demoteAccount a) := by
  unfold demoteAccount
  split
  · exact Dem.refl p
  · rename_i list hlist
    have hl0 := h.pend a list hlist
    simp only
    refine ⟨?_, ?_⟩
    · intro b m hb
      rcases InP_finish hb with ⟨hba, y, hy, hym⟩ | ⟨_, hq⟩
      · subst hba
        exact ⟨list, hlist, y, forward_sub _ _ y (filter_sub _ _ _ y (capIf_sub _ _ y hy)), hym⟩
      · rw [InP_congr (enqueueL_spec _ _).1, InP_congr (enqueueL_spec _ _).1,
          InP_congr (allRemoveL_pending _ _), InP_congr (allRemoveL_pending _ _)] at hq
        exact hq
    · intro b m hb
      rw [InQ_congr (finishPending_queue _ _ _)] at hb
      have hsnd : ∀ x, x ∈ (list.forward (p.stateNonce a)).1.txs → x.sender = a :=
        fun x hx => Φ.psnd _ _ (hl0.2 x (forward_sub _ _ x hx))
      rcases (enqueueL_spec _ _).2 b m hb with hq | ⟨x, hx, hbx, hmx⟩
      · rcases (enqueueL_spec _ _).2 b m hq with hq | ⟨x, hx, hbx, hmx⟩
        · left
          rw [InQ_congr (allRemoveL_queue _ _), InQ_congr (allRemoveL_queue _ _)] at hq
          exact hq
        · right
          refine notInP_finish (hsnd x (filter_invalids_sub _ _ _ x hx)) hbx hmx ?_
          intro y hy
          exact filter_disj _ _ _ y (capIf_sub _ _ y hy) x hx
      · right
        refine notInP_finish (hsnd x (filter_sub _ _ _ x (capIf_drops_sub _ _ x hx))) hbx hmx ?_
        intro y hy
        exact capIf_disj (wf_filter _ _ _ (wf_forward _ _ hl0.1)).1 _ _ y hy x hx

theorem demoteUnexecutables_dem {p : Pool} (h : Good Φ p) : Dem p p.demoteUnexecutables := by
  unfold demoteUnexecutables
  exact (foldl_inv (fun s : Pool => Dem p s ∧ Good Φ s) demoteAccount _ p ⟨Dem.refl p, h⟩
    (fun s x _ hs => ⟨hs.1.trans (demoteAccount_dem hs.2 x), (demoteAccount_spec hs.2 x).1⟩)).1

/-! ## truncation, reorg, batches -/

theorem dropLastPending_dem (p : Pool) (a : Nat) : Dem p (p.dropLastPending a) := by
  unfold dropLastPending
  split
  · exact Dem.refl p
  · rename_i list hlist
    simp only
    have h1 : Dem p ({ p with pending := amSet p.pending a (list.cap (list.len - 1)).1 } : Pool) := by
      refine ⟨?_, fun b m hb => Or.inl hb⟩
      intro b m hb
      rcases InP_set hb with ⟨hba, x, hx, hxm⟩ | ⟨_, hq⟩
      · subst hba; exact ⟨list, hlist, x, cap_sub _ _ x hx, hxm⟩
      · exact hq
    have h2 := foldl_inv
      (fun s : Pool => s.pending = amSet p.pending a (list.cap (list.len - 1)).1 ∧ s.queue = p.queue)
      (fun q t => (q.allRemove t).pnSetIfLower a t.nonce) (list.cap (list.len - 1)).2
      ({ p with pending := amSet p.pending a (list.cap (list.len - 1)).1 } : Pool) ⟨rfl, rfl⟩
      (fun s x _ hs => ⟨by rw [pnSetIfLower_pending]; exact hs.1, by rw [pnSetIfLower_queue]; exact hs.2⟩)
    exact h1.trans (Dem.frame h2.1 h2.2)

theorem dropRound_dem (p : Pool) (cnt : Nat) (accts : List Nat) :
    Dem p (accts.foldl (fun (q : Pool × Nat) a => (q.1.dropLastPending a, q.2 - 1)) (p, cnt)).1 :=
  foldl_inv (fun q : Pool × Nat => Dem p q.1) _ accts (p, cnt) (Dem.refl p)
    (fun s x _ hs => hs.trans (dropLastPending_dem s.1 x))

theorem equalise_dem (fuel : Nat) (p : Pool) (cnt : Nat) (prev : List Nat) (th : Nat) :
    Dem p (equalise fuel p cnt prev th).1 := by
  induction fuel generalizing p cnt with
  | zero => exact Dem.refl p
  | succ f ih =>
    unfold equalise
    split
    · exact (dropRound_dem p cnt prev).trans (ih _ _)
    · exact Dem.refl p

theorem spamLoop_dem (order : List Nat) (p : Pool) (cnt : Nat) (off : List Nat) :
    Dem p (spamLoop order p cnt off).1 := by
  induction order generalizing p cnt off with
  | nil => exact Dem.refl p
  | cons next rest ih =>
    unfold spamLoop
    split
    · simp only
      split
      · exact (equalise_dem _ p _ _ _).trans (ih _ _ _)
      · exact ih _ _ _
    · exact Dem.refl p

theorem finalLoop_dem (fuel : Nat) (p : Pool) (cnt : Nat) (off : List Nat) :
    Dem p (finalLoop fuel p cnt off) := by
  induction fuel generalizing p cnt with
  | zero => exact Dem.refl p
  | succ f ih =>
    unfold finalLoop
    split
    · exact (dropRound_dem p cnt off).trans (ih _ _)
    · exact Dem.refl p

theorem truncatePending_dem (p : Pool) : Dem p p.truncatePending := by
  unfold truncatePending
  simp only
  split
  · exact Dem.refl p
  · split
    · exact (spamLoop_dem _ p _ _).trans (finalLoop_dem _ _ _ _)
    · exact spamLoop_dem _ p _ _

theorem truncQueueLoop_dem (order : List Nat) {p : Pool} (h : Good Φ p) (hpq : Φ.PQ) (drop : Nat) :
    Dem p (truncQueueLoop order p drop) := by
  induction order generalizing p drop with
  | nil => exact Dem.refl p
  | cons a rest ih =>
    unfold truncQueueLoop
    split
    · exact Dem.refl p
    · split
      · exact ih h _
      · split
        · exact (removeL_dem h hpq _).1.trans (ih (removeL_dem h hpq _).2 _)
        · exact (removeL_dem h hpq _).1

theorem truncateQueue_dem {p : Pool} (h : Good Φ p) (hpq : Φ.PQ) :
    ∀ q ∈ p.truncateQueue, Dem p q := by
  intro q hq
  unfold truncateQueue at hq
  simp only at hq
  split at hq
  · simp at hq; subst hq; exact Dem.refl _
  · simp only [List.mem_map] at hq
    obtain ⟨order, _, ho⟩ := hq
    subst ho
    exact truncQueueLoop_dem order h hpq _

/-- the tail of a reorg run keeps `NDisj` -/
theorem reorgTail_ndisj {p3 : Pool} (h : Good Φ p3) (hpq : Φ.PQ) (hn : NDisj p3) (pn : AMap Nat) :
    ∀ q ∈ ({ p3 with pnonce := pn } : Pool).truncatePending.truncateQueue.map
        (fun (q : Pool) => { q with changes := 0 }), NDisj q := by
  intro q hq
  simp only [List.mem_map] at hq
  obtain ⟨q0, hq0, he⟩ := hq
  subst he
  have h' : Good Φ ({ p3 with pnonce := pn } : Pool) := h.frame rfl rfl rfl
  have d1 : Dem p3 ({ p3 with pnonce := pn } : Pool) := Dem.frame rfl rfl
  have d2 := truncatePending_dem ({ p3 with pnonce := pn } : Pool)
  have d3 := truncateQueue_dem (good_truncatePending h') hpq q0 hq0
  exact (Dem.frame (p := q0) rfl rfl).ndisj (d3.ndisj (d2.ndisj (d1.ndisj hn)))

theorem runReorg_none_eq (p : Pool) (dirty : List Nat) :
    p.runReorg none dirty =
      ({ p.promoteExecutables dirty with pnonce := (p.promoteExecutables dirty).pnonce } : Pool).truncatePending.truncateQueue.map
        (fun (q : Pool) => { q with changes := 0 }) := rfl

theorem runReorg_none_ndisj {p : Pool} (h : Good Φ p) (hpq : Φ.PQ) (hn : NDisj p) (dirty : List Nat) :
    ∀ q ∈ p.runReorg none dirty, NDisj q := by
  rw [runReorg_none_eq]
  exact reorgTail_ndisj (promoteExecutables_spec h dirty).1 hpq
    ((promoteExecutables_pro dirty h).ndisj hn) _

theorem afterDemote_ndisj {c' : Chain} {p1 : Pool} (h1 : Good (weakPhi c') p1) (n1 : NDisj p1) :
    NDisj (afterDemote p1) := by
  unfold afterDemote
  have h2 := (promoteExecutables_spec h1 (p1.queue.map (·.1))).1
  have n2 := (promoteExecutables_pro (p1.queue.map (·.1)) h1).ndisj n1
  exact (demoteUnexecutables_dem h2).ndisj n2

theorem reorgAfterReset_ndisj {c' : Chain} {p1 : Pool} (h1 : Good (weakPhi c') p1) (n1 : NDisj p1) :
    ∀ q ∈ reorgAfterReset p1, NDisj q := by
  rw [reorgAfterReset_eq]
  exact reorgTail_ndisj (good_afterDemote h1) (strongPhi_PQ c') (afterDemote_ndisj h1 n1) _

theorem runReorg_reset_ndisj {p : Pool} (h : Good (strongPhi c) p) (hn : NDisj p) (c' : Chain)
    (dirty : List Nat) : ∀ q ∈ p.runReorg (some c') dirty, NDisj q := by
  rw [runReorg_some]
  exact reorgAfterReset_ndisj (good_resetHead h c') ((Dem.frame (p := p) rfl rfl).ndisj hn)

theorem addBatch_ndisj (txs : List Tx) {p : Pool} (h : Good Φ p) (hpq : Φ.PQ) (hn : NDisj p) (loc : Bool) :
    ∀ r ∈ p.addBatch loc txs, NDisj r.1 := by
  induction txs generalizing p with
  | nil => intro r hr; simp [addBatch] at hr; subst hr; exact hn
  | cons t ts ih =>
    intro r hr
    simp only [addBatch, List.mem_flatMap, List.mem_map] at hr
    obtain ⟨r1, hr1, s, hs, he⟩ := hr
    subst he
    exact ih (good_add h hpq t loc r1 hr1) (add_ndisj h hpq hn t loc r1 hr1) s hs

theorem addTxs_ndisj {p : Pool} (h : Good Φ p) (hpq : Φ.PQ) (hn : NDisj p) (txs : List Tx) (loc : Bool) :
    ∀ r ∈ p.addTxs txs loc, NDisj r.1 := by
  intro r hr
  unfold addTxs at hr
  simp only at hr
  split at hr
  · simp at hr; subst hr; exact hn
  · simp only [List.mem_flatMap, List.mem_map] at hr
    obtain ⟨r1, hr1, q, hq, he⟩ := hr
    subst he
    exact runReorg_none_ndisj (good_addBatch _ h hpq loc r1 hr1) hpq
      (addBatch_ndisj _ h hpq hn loc r1 hr1) _ q hq

theorem setGasPrice_ndisj {p : Pool} (h : Good Φ p) (hpq : Φ.PQ) (hn : NDisj p) (price : Nat) :
    NDisj (p.setGasPrice price) := by
  unfold setGasPrice
  simp only
  split
  · have h0 : Good Φ ({ p with gasPrice := price } : Pool) := h.frame rfl rfl rfl
    exact (removeL_dem h0 hpq _).1.ndisj ((Dem.frame (p := p) rfl rfl).ndisj hn)
  · exact (Dem.frame (p := p) rfl rfl).ndisj hn

theorem expire_ndisj {p : Pool} (h : Good Φ p) (hpq : Φ.PQ) (hn : NDisj p) (a : Nat) :
    NDisj (p.expire a) := by
  unfold expire
  split
  · exact hn
  · split
    · exact hn
    · exact (removeL_dem h hpq _).1.ndisj hn

theorem resetReinject_ndisj {p : Pool} (h : Good (strongPhi c) p) (hn : NDisj p) (c' : Chain)
    (reinject : List Tx) : ∀ q ∈ p.resetReinject c' reinject, NDisj q := by
  intro q hq
  simp only [resetReinject, List.mem_flatMap] at hq
  obtain ⟨r, hr, hq⟩ := hq
  have h1 := good_resetHead h c'
  have n1 : NDisj (p.resetHead c') := (Dem.frame (p := p) rfl rfl).ndisj hn
  exact reorgAfterReset_ndisj (good_addBatch reinject h1 (weakPhi_PQ c') false r hr)
    (addBatch_ndisj reinject h1 (weakPhi_PQ c') n1 false r hr) q hq

end Pool
end KV.TxPool
