import KV.Proofs.CsStep
/-! Frame facts and the timer invariant `TP` of `Cs.step` (C04, local progress). -/
namespace KV.Cs

/-! ### frame facts: which fields the signing / locking bodies leave alone -/

@[simp] theorem signAddVote_step (cfg : Config) (t : VType) (tgt : Target) (σ : State) : (signAddVote cfg t tgt σ).step = σ.step := by
  unfold signAddVote; split <;> rfl

@[simp] theorem signAddVote_ttp (cfg : Config) (t : VType) (tgt : Target) (σ : State) : (signAddVote cfg t tgt σ).ttp = σ.ttp := by
  unfold signAddVote; split <;> rfl

@[simp] theorem signAddVote_sched (cfg : Config) (t : VType) (tgt : Target) (σ : State) : (signAddVote cfg t tgt σ).sched = σ.sched := by
  unfold signAddVote; split <;> rfl

@[simp] theorem signAddVote_votes (cfg : Config) (t : VType) (tgt : Target) (σ : State) : (signAddVote cfg t tgt σ).votes = σ.votes := by
  unfold signAddVote; split <;> rfl

@[simp] theorem signAddVote_commitRound (cfg : Config) (t : VType) (tgt : Target) (σ : State) : (signAddVote cfg t tgt σ).commitRound = σ.commitRound := by
  unfold signAddVote; split <;> rfl

@[simp] theorem signAddVote_halted (cfg : Config) (t : VType) (tgt : Target) (σ : State) : (signAddVote cfg t tgt σ).halted = σ.halted := by
  unfold signAddVote; split <;> rfl

@[simp] theorem signAddVote_proposal (cfg : Config) (t : VType) (tgt : Target) (σ : State) : (signAddVote cfg t tgt σ).proposal = σ.proposal := by
  unfold signAddVote; split <;> rfl

@[simp] theorem signAddVote_hvsRound (cfg : Config) (t : VType) (tgt : Target) (σ : State) : (signAddVote cfg t tgt σ).hvsRound = σ.hvsRound := by
  unfold signAddVote; split <;> rfl

@[simp] theorem signAddVote_catchup (cfg : Config) (t : VType) (tgt : Target) (σ : State) : (signAddVote cfg t tgt σ).catchup = σ.catchup := by
  unfold signAddVote; split <;> rfl

@[simp] theorem signAddVote_pblock (cfg : Config) (t : VType) (tgt : Target) (σ : State) : (signAddVote cfg t tgt σ).pblock = σ.pblock := by
  unfold signAddVote; split <;> rfl

@[simp] theorem signAddVote_parts (cfg : Config) (t : VType) (tgt : Target) (σ : State) : (signAddVote cfg t tgt σ).parts = σ.parts := by
  unfold signAddVote; split <;> rfl

@[simp] theorem signAddVote_locked (cfg : Config) (t : VType) (tgt : Target) (σ : State) : (signAddVote cfg t tgt σ).locked = σ.locked := by
  unfold signAddVote; split <;> rfl

@[simp] theorem signAddVote_lockedRound (cfg : Config) (t : VType) (tgt : Target) (σ : State) : (signAddVote cfg t tgt σ).lockedRound = σ.lockedRound := by
  unfold signAddVote; split <;> rfl

@[simp] theorem doPrevote_step (cfg : Config) (σ : State) : (doPrevote cfg σ).step = σ.step := by
  unfold doPrevote; (repeat' split) <;> simp

@[simp] theorem doPrevote_ttp (cfg : Config) (σ : State) : (doPrevote cfg σ).ttp = σ.ttp := by
  unfold doPrevote; (repeat' split) <;> simp

@[simp] theorem doPrevote_sched (cfg : Config) (σ : State) : (doPrevote cfg σ).sched = σ.sched := by
  unfold doPrevote; (repeat' split) <;> simp

@[simp] theorem doPrevote_votes (cfg : Config) (σ : State) : (doPrevote cfg σ).votes = σ.votes := by
  unfold doPrevote; (repeat' split) <;> simp

@[simp] theorem doPrevote_commitRound (cfg : Config) (σ : State) : (doPrevote cfg σ).commitRound = σ.commitRound := by
  unfold doPrevote; (repeat' split) <;> simp

@[simp] theorem doPrevote_halted (cfg : Config) (σ : State) : (doPrevote cfg σ).halted = σ.halted := by
  unfold doPrevote; (repeat' split) <;> simp

@[simp] theorem doPrevote_proposal (cfg : Config) (σ : State) : (doPrevote cfg σ).proposal = σ.proposal := by
  unfold doPrevote; (repeat' split) <;> simp

@[simp] theorem doPrevote_hvsRound (cfg : Config) (σ : State) : (doPrevote cfg σ).hvsRound = σ.hvsRound := by
  unfold doPrevote; (repeat' split) <;> simp

@[simp] theorem doPrevote_catchup (cfg : Config) (σ : State) : (doPrevote cfg σ).catchup = σ.catchup := by
  unfold doPrevote; (repeat' split) <;> simp

@[simp] theorem doPrevote_pblock (cfg : Config) (σ : State) : (doPrevote cfg σ).pblock = σ.pblock := by
  unfold doPrevote; (repeat' split) <;> simp

@[simp] theorem doPrevote_parts (cfg : Config) (σ : State) : (doPrevote cfg σ).parts = σ.parts := by
  unfold doPrevote; (repeat' split) <;> simp

@[simp] theorem doPrevote_locked (cfg : Config) (σ : State) : (doPrevote cfg σ).locked = σ.locked := by
  unfold doPrevote; (repeat' split) <;> simp

@[simp] theorem doPrevote_lockedRound (cfg : Config) (σ : State) : (doPrevote cfg σ).lockedRound = σ.lockedRound := by
  unfold doPrevote; (repeat' split) <;> simp

@[simp] theorem precommitUnknown_step (cfg : Config) (b : Nat) (σ : State) : (precommitUnknown cfg b σ).step = σ.step := by
  unfold precommitUnknown unlock; simp only [signAddVote_step]; split <;> rfl

@[simp] theorem precommitUnknown_ttp (cfg : Config) (b : Nat) (σ : State) : (precommitUnknown cfg b σ).ttp = σ.ttp := by
  unfold precommitUnknown unlock; simp only [signAddVote_ttp]; split <;> rfl

@[simp] theorem precommitUnknown_sched (cfg : Config) (b : Nat) (σ : State) : (precommitUnknown cfg b σ).sched = σ.sched := by
  unfold precommitUnknown unlock; simp only [signAddVote_sched]; split <;> rfl

@[simp] theorem precommitUnknown_votes (cfg : Config) (b : Nat) (σ : State) : (precommitUnknown cfg b σ).votes = σ.votes := by
  unfold precommitUnknown unlock; simp only [signAddVote_votes]; split <;> rfl

@[simp] theorem precommitUnknown_commitRound (cfg : Config) (b : Nat) (σ : State) : (precommitUnknown cfg b σ).commitRound = σ.commitRound := by
  unfold precommitUnknown unlock; simp only [signAddVote_commitRound]; split <;> rfl

@[simp] theorem precommitUnknown_halted (cfg : Config) (b : Nat) (σ : State) : (precommitUnknown cfg b σ).halted = σ.halted := by
  unfold precommitUnknown unlock; simp only [signAddVote_halted]; split <;> rfl

@[simp] theorem precommitUnknown_proposal (cfg : Config) (b : Nat) (σ : State) : (precommitUnknown cfg b σ).proposal = σ.proposal := by
  unfold precommitUnknown unlock; simp only [signAddVote_proposal]; split <;> rfl

@[simp] theorem precommitUnknown_hvsRound (cfg : Config) (b : Nat) (σ : State) : (precommitUnknown cfg b σ).hvsRound = σ.hvsRound := by
  unfold precommitUnknown unlock; simp only [signAddVote_hvsRound]; split <;> rfl

@[simp] theorem precommitUnknown_catchup (cfg : Config) (b : Nat) (σ : State) : (precommitUnknown cfg b σ).catchup = σ.catchup := by
  unfold precommitUnknown unlock; simp only [signAddVote_catchup]; split <;> rfl

@[simp] theorem doPrecommit_step (cfg : Config) (r : Nat) (σ : State) : (doPrecommit cfg r σ).step = σ.step := by
  unfold doPrecommit unlock; (repeat' split) <;> simp

@[simp] theorem doPrecommit_ttp (cfg : Config) (r : Nat) (σ : State) : (doPrecommit cfg r σ).ttp = σ.ttp := by
  unfold doPrecommit unlock; (repeat' split) <;> simp

@[simp] theorem doPrecommit_sched (cfg : Config) (r : Nat) (σ : State) : (doPrecommit cfg r σ).sched = σ.sched := by
  unfold doPrecommit unlock; (repeat' split) <;> simp

@[simp] theorem doPrecommit_votes (cfg : Config) (r : Nat) (σ : State) : (doPrecommit cfg r σ).votes = σ.votes := by
  unfold doPrecommit unlock; (repeat' split) <;> simp

@[simp] theorem doPrecommit_commitRound (cfg : Config) (r : Nat) (σ : State) : (doPrecommit cfg r σ).commitRound = σ.commitRound := by
  unfold doPrecommit unlock; (repeat' split) <;> simp

@[simp] theorem doPrecommit_halted (cfg : Config) (r : Nat) (σ : State) : (doPrecommit cfg r σ).halted = σ.halted := by
  unfold doPrecommit unlock; (repeat' split) <;> simp

@[simp] theorem doPrecommit_proposal (cfg : Config) (r : Nat) (σ : State) : (doPrecommit cfg r σ).proposal = σ.proposal := by
  unfold doPrecommit unlock; (repeat' split) <;> simp

@[simp] theorem doPrecommit_hvsRound (cfg : Config) (r : Nat) (σ : State) : (doPrecommit cfg r σ).hvsRound = σ.hvsRound := by
  unfold doPrecommit unlock; (repeat' split) <;> simp

@[simp] theorem doPrecommit_catchup (cfg : Config) (r : Nat) (σ : State) : (doPrecommit cfg r σ).catchup = σ.catchup := by
  unfold doPrecommit unlock; (repeat' split) <;> simp

@[simp] theorem decideProposal_step (nb : Option Nat) (h r : Nat) (σ : State) : (decideProposal nb h r σ).step = σ.step := by
  unfold decideProposal; (repeat' split) <;> rfl

@[simp] theorem decideProposal_ttp (nb : Option Nat) (h r : Nat) (σ : State) : (decideProposal nb h r σ).ttp = σ.ttp := by
  unfold decideProposal; (repeat' split) <;> rfl

@[simp] theorem decideProposal_sched (nb : Option Nat) (h r : Nat) (σ : State) : (decideProposal nb h r σ).sched = σ.sched := by
  unfold decideProposal; (repeat' split) <;> rfl

@[simp] theorem decideProposal_votes (nb : Option Nat) (h r : Nat) (σ : State) : (decideProposal nb h r σ).votes = σ.votes := by
  unfold decideProposal; (repeat' split) <;> rfl

@[simp] theorem decideProposal_commitRound (nb : Option Nat) (h r : Nat) (σ : State) : (decideProposal nb h r σ).commitRound = σ.commitRound := by
  unfold decideProposal; (repeat' split) <;> rfl

@[simp] theorem decideProposal_halted (nb : Option Nat) (h r : Nat) (σ : State) : (decideProposal nb h r σ).halted = σ.halted := by
  unfold decideProposal; (repeat' split) <;> rfl

@[simp] theorem decideProposal_proposal (nb : Option Nat) (h r : Nat) (σ : State) : (decideProposal nb h r σ).proposal = σ.proposal := by
  unfold decideProposal; (repeat' split) <;> rfl

@[simp] theorem decideProposal_pblock (nb : Option Nat) (h r : Nat) (σ : State) : (decideProposal nb h r σ).pblock = σ.pblock := by
  unfold decideProposal; (repeat' split) <;> rfl

@[simp] theorem decideProposal_hvsRound (nb : Option Nat) (h r : Nat) (σ : State) : (decideProposal nb h r σ).hvsRound = σ.hvsRound := by
  unfold decideProposal; (repeat' split) <;> rfl

@[simp] theorem decideProposal_catchup (nb : Option Nat) (h r : Nat) (σ : State) : (decideProposal nb h r σ).catchup = σ.catchup := by
  unfold decideProposal; (repeat' split) <;> rfl

/-! ### the timer invariant -/

/-- the node never waits for time without an armed timer: whenever the step is one that waits
for a timeout, that timeout was handed to the ticker.  `enterPrecommitWait` does not change the
step in this code base: "being in PrecommitWait" is `TriggeredTimeoutPrecommit`. -/
structure TP (cfg : Config) (σ : State) : Prop where
  nh : σ.step = .newHeight → σ.round = 1 ∧ (σ.height, σ.round, Step.newHeight) ∈ σ.sched
  nr : σ.step = .newRound → cfg.waitTxs = true ∧ σ.round = 1 ∧
        (cfg.emptyInterval = true → (σ.height, σ.round, Step.newRound) ∈ σ.sched)
  pr : σ.step = .propose → (σ.height, σ.round, Step.propose) ∈ σ.sched
  pw : σ.step = .prevoteWait → (σ.height, σ.round, Step.prevoteWait) ∈ σ.sched
  cw : σ.ttp = true → (σ.height, σ.round, Step.precommitWait) ∈ σ.sched
  np : σ.step ≠ .precommitWait
  r1 : 1 ≤ σ.round

/-- transfer along an update that keeps height, round, step, ttp and the scheduled list -/
theorem TP.of_eq {cfg : Config} {σ σ' : State} (T : TP cfg σ) (hh : σ'.height = σ.height)
    (hr : σ'.round = σ.round) (hs : σ'.step = σ.step) (ht : σ'.ttp = σ.ttp) (hsc : σ'.sched = σ.sched) :
    TP cfg σ' := by
  refine ⟨?_, ?_, ?_, ?_, ?_, ?_, ?_⟩
  · rw [hh, hr, hsc, hs]; exact T.nh
  · rw [hh, hr, hsc, hs]; exact T.nr
  · rw [hh, hr, hsc, hs]; exact T.pr
  · rw [hh, hr, hsc, hs]; exact T.pw
  · rw [hh, hr, hsc, ht]; exact T.cw
  · rw [hs]; exact T.np
  · rw [hr]; exact T.r1

/-- the step moves to `st` (not a waiting step needing a new timer) in the same round -/
theorem TP.to_step {cfg : Config} {σ σ' : State} (T : TP cfg σ) (st : Step) (hh : σ'.height = σ.height)
    (hr : σ'.round = σ.round) (hs : σ'.step = st) (ht : σ'.ttp = σ.ttp) (hsc : σ'.sched = σ.sched)
    (hst : st = .prevote ∨ st = .precommit ∨ st = .commit) : TP cfg σ' := by
  refine ⟨?_, ?_, ?_, ?_, ?_, ?_, ?_⟩
  · rw [hs]; rcases hst with h | h | h <;> (rw [h]; intro hc; cases hc)
  · rw [hs]; rcases hst with h | h | h <;> (rw [h]; intro hc; cases hc)
  · rw [hs]; rcases hst with h | h | h <;> (rw [h]; intro hc; cases hc)
  · rw [hs]; rcases hst with h | h | h <;> (rw [h]; intro hc; cases hc)
  · rw [hh, hr, hsc, ht]; exact T.cw
  · rw [hs]; rcases hst with h | h | h <;> (rw [h]; intro hc; cases hc)
  · rw [hr]; exact T.r1

theorem enterPrevote_tp {cfg : Config} {σ : State} (T : TP cfg σ) (h r : Nat) (hr : r ≤ σ.round) :
    TP cfg (enterPrevote cfg h r σ) := by
  unfold enterPrevote
  split
  · exact T
  · rename_i hg
    have hrr : r = σ.round := by omega
    exact T.to_step .prevote (by simp) (by simp [hrr]) rfl (by simp) (by simp) (Or.inl rfl)

theorem enterPrecommit_tp {cfg : Config} {σ : State} (T : TP cfg σ) (h r : Nat) (hr : r ≤ σ.round) :
    TP cfg (enterPrecommit cfg h r σ) := by
  rw [enterPrecommit_le cfg h r σ hr]
  split
  · exact T
  · rename_i hg
    have hrr : r = σ.round := by omega
    exact T.to_step .precommit (by simp) (by simp [hrr]) rfl (by simp) (by simp) (Or.inr (Or.inl rfl))

theorem enterPrecommit_tp' {cfg : Config} {σ : State} (T : TP cfg σ) (h r : Nat)
    (hr : σ.step ≠ .commit → r ≤ σ.round) : TP cfg (enterPrecommit cfg h r σ) := by
  by_cases hc : σ.step = .commit
  · rw [enterPrecommit_commit cfg h r σ hc]; exact T
  · exact enterPrecommit_tp T h r (hr hc)

theorem enterPrevoteWait_tp {cfg : Config} {σ : State} (T : TP cfg σ) (h r : Nat) (hr : r ≤ σ.round) :
    TP cfg (enterPrevoteWait h r σ) := by
  unfold enterPrevoteWait
  split
  · exact T
  · rename_i hg
    have hrr : r = σ.round := by omega
    have hh : h = σ.height := by omega
    subst hrr hh
    refine ⟨?_, ?_, ?_, ?_, ?_, ?_, T.r1⟩
    · intro hc; cases hc
    · intro hc; cases hc
    · intro hc; cases hc
    · intro _; exact List.mem_cons_self ..
    · intro ht; exact List.mem_cons_of_mem _ (T.cw ht)
    · intro hc; cases hc

theorem enterPrecommitWait_tp {cfg : Config} {σ : State} (T : TP cfg σ) (h r : Nat) :
    TP cfg (enterPrecommitWait h r σ) := by
  unfold enterPrecommitWait
  split
  · exact T
  · rename_i hg
    have hrr : r = σ.round := by omega
    have hh : h = σ.height := by omega
    subst hrr hh
    refine ⟨?_, ?_, ?_, ?_, ?_, T.np, T.r1⟩
    · intro hc; exact ⟨(T.nh hc).1, List.mem_cons_of_mem _ (T.nh hc).2⟩
    · intro hc; exact ⟨(T.nr hc).1, (T.nr hc).2.1, fun he => List.mem_cons_of_mem _ ((T.nr hc).2.2 he)⟩
    · intro hc; exact List.mem_cons_of_mem _ (T.pr hc)
    · intro hc; exact List.mem_cons_of_mem _ (T.pw hc)
    · intro _; exact List.mem_cons_self ..

/-! ### updates that keep the position -/

/-- `σ'` has the position, timers and vote sets of `σ` -/
def Keeps (σ σ' : State) : Prop :=
  σ'.height = σ.height ∧ σ'.round = σ.round ∧ σ'.step = σ.step ∧ σ'.ttp = σ.ttp ∧ σ'.sched = σ.sched ∧
  σ'.votes = σ.votes ∧ σ'.commitRound = σ.commitRound

theorem Keeps.refl (σ : State) : Keeps σ σ := ⟨rfl, rfl, rfl, rfl, rfl, rfl, rfl⟩
theorem Keeps.trans {a b c : State} (h1 : Keeps a b) (h2 : Keeps b c) : Keeps a c := by
  obtain ⟨a1, a2, a3, a4, a5, a6, a7⟩ := h1
  obtain ⟨b1, b2, b3, b4, b5, b6, b7⟩ := h2
  exact ⟨b1.trans a1, b2.trans a2, b3.trans a3, b4.trans a4, b5.trans a5, b6.trans a6, b7.trans a7⟩

theorem TP.keeps {cfg : Config} {σ σ' : State} (T : TP cfg σ) (k : Keeps σ σ') : TP cfg σ' :=
  T.of_eq k.1 k.2.1 k.2.2.1 k.2.2.2.1 k.2.2.2.2.1

theorem takeLocked_keeps (b : Nat) (σ : State) : Keeps σ (takeLocked b σ) := by
  unfold takeLocked; (repeat' split) <;> exact ⟨rfl, rfl, rfl, rfl, rfl, rfl, rfl⟩

theorem expectBlock_keeps (b : Nat) (σ : State) : Keeps σ (expectBlock b σ) := by
  unfold expectBlock; (repeat' split) <;> exact ⟨rfl, rfl, rfl, rfl, rfl, rfl, rfl⟩

theorem commitPrep_keeps (cfg : Config) (cr : Nat) (σ : State) : Keeps σ (commitPrep cfg cr σ) := by
  unfold commitPrep
  split
  · exact (takeLocked_keeps _ _).trans (expectBlock_keeps _ _)
  · exact Keeps.refl _

theorem setProposal_keeps (cfg : Config) (src : Nat) (sigok : Bool) (h r pol id : Nat) (σ : State) :
    Keeps σ (setProposal cfg src sigok h r pol id σ) := by
  unfold setProposal; (repeat' split) <;> exact ⟨rfl, rfl, rfl, rfl, rfl, rfl, rfl⟩

theorem storeBlock_keeps (cfg : Config) (blk : Blk) (σ : State) : Keeps σ (storeBlock cfg blk σ) := by
  unfold storeBlock; simp only; (repeat' split) <;> exact ⟨rfl, rfl, rfl, rfl, rfl, rfl, rfl⟩

theorem polkaUnlock_keeps (vr : Nat) (bid : Target) (σ : State) : Keeps σ (polkaUnlock vr bid σ) := by
  unfold polkaUnlock unlock; (repeat' split) <;> exact ⟨rfl, rfl, rfl, rfl, rfl, rfl, rfl⟩

theorem polkaValid_keeps (vr b : Nat) (σ : State) : Keeps σ (polkaValid vr b σ) := by
  unfold polkaValid; simp only; (repeat' split) <;> exact ⟨rfl, rfl, rfl, rfl, rfl, rfl, rfl⟩

theorem polkaUpdate_keeps (vr : Nat) (m : Option Target) (σ : State) : Keeps σ (polkaUpdate vr m σ) := by
  unfold polkaUpdate
  split
  · simp only
    split
    · exact (polkaUnlock_keeps _ _ _).trans (polkaValid_keeps _ _ _)
    · exact polkaUnlock_keeps _ _ _
  · exact Keeps.refl _

/-! ### commit -/

theorem newHeight_tp (cfg : Config) (σ : State) : TP cfg (newHeight cfg σ) := by
  unfold newHeight
  refine ⟨?_, ?_, ?_, ?_, ?_, ?_, Nat.le_refl 1⟩
  · intro _; exact ⟨rfl, List.mem_cons_self ..⟩
  · intro hc; cases hc
  · intro hc; cases hc
  · intro hc; cases hc
  · intro hc; cases hc
  · intro hc; cases hc

theorem panic_tp {cfg : Config} {σ : State} (T : TP cfg σ) : TP cfg (panic σ) :=
  T.of_eq rfl rfl rfl rfl rfl

theorem finalizeCommit_tp {cfg : Config} {σ : State} (T : TP cfg σ) (h : Nat) : TP cfg (finalizeCommit cfg h σ) := by
  unfold finalizeCommit
  (repeat' split) <;> first | exact T | exact panic_tp T | exact newHeight_tp _ _

theorem tryFinalizeCommit_tp {cfg : Config} {σ : State} (T : TP cfg σ) (h : Nat) :
    TP cfg (tryFinalizeCommit cfg h σ) := by
  unfold tryFinalizeCommit
  (repeat' split) <;> first | exact T | exact finalizeCommit_tp T h

theorem enterCommit_tp {cfg : Config} {σ : State} (T : TP cfg σ) (h cr : Nat) : TP cfg (enterCommit cfg h cr σ) := by
  unfold enterCommit
  split
  · exact T
  · apply tryFinalizeCommit_tp
    have k := commitPrep_keeps cfg cr σ
    exact (T.keeps k).to_step .commit rfl rfl rfl rfl rfl (Or.inr (Or.inr rfl))

/-! ### propose / new round -/

theorem proposeBody_spec (cfg : Config) (nb : Option Nat) (h r : Nat) (σ : State) :
    (proposeBody cfg nb h r σ).height = σ.height ∧ (proposeBody cfg nb h r σ).round = σ.round ∧
    (proposeBody cfg nb h r σ).step = σ.step ∧ (proposeBody cfg nb h r σ).ttp = σ.ttp ∧
    (proposeBody cfg nb h r σ).sched = (h, r, Step.propose) :: σ.sched ∧
    (proposeBody cfg nb h r σ).votes = σ.votes ∧ (proposeBody cfg nb h r σ).commitRound = σ.commitRound := by
  unfold proposeBody
  simp only
  split <;> simp [schedule]

theorem proposeDone_tp {cfg : Config} {σ : State} (T : TP cfg σ) (h : Nat) : TP cfg (proposeDone cfg h σ) := by
  unfold proposeDone
  split
  · exact enterPrevote_tp T _ _ (Nat.le_refl _)
  · exact T

theorem enterPropose_tp {cfg : Config} {σ : State} (T : TP cfg σ) (nb : Option Nat) (h r : Nat) (hr : r ≤ σ.round) :
    TP cfg (enterPropose cfg nb h r σ) := by
  unfold enterPropose
  split
  · exact T
  · rename_i hg
    have hrr : r = σ.round := by omega
    have hh : h = σ.height := by omega
    subst hrr hh
    apply proposeDone_tp
    obtain ⟨a1, a2, a3, a4, a5, a6, a7⟩ := proposeBody_spec cfg nb σ.height σ.round σ
    refine ⟨?_, ?_, ?_, ?_, ?_, ?_, T.r1⟩
    · intro hc; cases hc
    · intro hc; cases hc
    · intro _; show (_, _, _) ∈ (proposeBody cfg nb σ.height σ.round σ).sched
      rw [a5, a1]; exact List.mem_cons_self ..
    · intro hc; cases hc
    · intro ht
      show (_, _, _) ∈ (proposeBody cfg nb σ.height σ.round σ).sched
      rw [a5, a1]
      exact List.mem_cons_of_mem _ (T.cw (by rw [← a4]; exact ht))
    · intro hc; cases hc

theorem newRoundPrep_spec2 (cfg : Config) (r : Nat) (σ : State) :
    (newRoundPrep cfg r σ).ttp = false ∧ (newRoundPrep cfg r σ).commitRound = σ.commitRound := by
  unfold newRoundPrep setRound
  simp only
  split
  · obtain ⟨extra, he⟩ := addRounds_eq (n cfg) (r + 1 + 1 - (σ.hvsRound - 1)) (σ.hvsRound - 1) { σ with round := r, step := Step.newRound }
    rw [he]; simp
  · obtain ⟨extra, he⟩ := addRounds_eq (n cfg) (r + 1 + 1 - (σ.hvsRound - 1)) (σ.hvsRound - 1)
      { σ with round := r, step := Step.newRound, proposal := none, pblock := none, parts := none }
    rw [he]; simp

theorem enterNewRound_tp {cfg : Config} {σ : State} (T : TP cfg σ) (nb : Option Nat) (h r : Nat) :
    TP cfg (enterNewRound cfg nb h r σ) := by
  unfold enterNewRound
  split
  · exact T
  · rename_i hg
    have hh : h = σ.height := by omega
    obtain ⟨extra, b1', b2', b3', b4', b5', -⟩ := newRoundPrep_spec cfg r σ
    obtain ⟨c1', -⟩ := newRoundPrep_spec2 cfg r σ
    have b1 : (releaseStale cfg (newRoundPrep cfg r σ)).height = σ.height := by rw [releaseStale_height, b1']
    have b2 : (releaseStale cfg (newRoundPrep cfg r σ)).round = r := by rw [releaseStale_round, b2']
    have b3 : (releaseStale cfg (newRoundPrep cfg r σ)).step = .newRound := by rw [releaseStale_step, b3']
    have b4 : (releaseStale cfg (newRoundPrep cfg r σ)).log = σ.log := by rw [releaseStale_log, b4']
    have b5 : (releaseStale cfg (newRoundPrep cfg r σ)).sched = σ.sched := by rw [releaseStale_sched, b5']
    have c1 : (releaseStale cfg (newRoundPrep cfg r σ)).ttp = false := by rw [releaseStale_ttp, c1']
    have hr1 : 1 ≤ r := by have := T.r1; omega
    by_cases hcm : σ.step = .commit
    · rw [if_pos hcm]; exact T
    rw [if_neg hcm]
    simp only
    split
    · rename_i hw
      have hw : cfg.waitTxs = true ∧ r = 1 := by simpa using hw
      split
      · rename_i he
        refine ⟨?_, ?_, ?_, ?_, ?_, ?_, ?_⟩
        · show (releaseStale cfg (newRoundPrep cfg r σ)).step = _ → _; rw [b3]; intro hc; cases hc
        · intro _
          refine ⟨hw.1, ?_, fun _ => ?_⟩
          · show (releaseStale cfg (newRoundPrep cfg r σ)).round = 1; rw [b2]; exact hw.2
          · show ((releaseStale cfg (newRoundPrep cfg r σ)).height, (releaseStale cfg (newRoundPrep cfg r σ)).round, Step.newRound) ∈
              (h, r, Step.newRound) :: (releaseStale cfg (newRoundPrep cfg r σ)).sched
            rw [b1, b2, hh]
            exact List.mem_cons_self ..
        · show (releaseStale cfg (newRoundPrep cfg r σ)).step = _ → _; rw [b3]; intro hc; cases hc
        · show (releaseStale cfg (newRoundPrep cfg r σ)).step = _ → _; rw [b3]; intro hc; cases hc
        · show (releaseStale cfg (newRoundPrep cfg r σ)).ttp = true → _; rw [c1]; intro hc; cases hc
        · show (releaseStale cfg (newRoundPrep cfg r σ)).step ≠ _; rw [b3]; intro hc; cases hc
        · show 1 ≤ (releaseStale cfg (newRoundPrep cfg r σ)).round; rw [b2]; exact hr1
      · rename_i he
        refine ⟨?_, ?_, ?_, ?_, ?_, ?_, ?_⟩
        · rw [b3]; intro hc; cases hc
        · intro _
          exact ⟨hw.1, by rw [b2]; exact hw.2, fun hc => absurd hc he⟩
        · rw [b3]; intro hc; cases hc
        · rw [b3]; intro hc; cases hc
        · rw [c1]; intro hc; cases hc
        · rw [b3]; intro hc; cases hc
        · rw [b2]; exact hr1
    · -- enterPropose runs (its guard is false) and leaves NewRound
      -- `newRoundPrep` is in NewRound without a timer: not `TP`; redo enterPropose's proof from there
      unfold enterPropose
      split
      · rename_i hg2
        exfalso
        rw [b1, b2, b3] at hg2
        simp [Step.toNat] at hg2
        omega
      · apply proposeDone_tp
        obtain ⟨a1, a2, a3, a4, a5, a6, a7⟩ := proposeBody_spec cfg nb h r (releaseStale cfg (newRoundPrep cfg r σ))
        refine ⟨?_, ?_, ?_, ?_, ?_, ?_, hr1⟩
        · intro hc; cases hc
        · intro hc; cases hc
        · intro _; show (_, _, _) ∈ (proposeBody cfg nb h r (releaseStale cfg (newRoundPrep cfg r σ))).sched
          rw [a5, a1, b1, hh]; exact List.mem_cons_self ..
        · intro hc; cases hc
        · intro ht
          exfalso
          have : (proposeBody cfg nb h r (releaseStale cfg (newRoundPrep cfg r σ))).ttp = true := ht
          rw [a4, c1] at this; cases this
        · intro hc; cases hc

/-! ### inputs -/

theorem afterBlock_tp {cfg : Config} {σ : State} (T : TP cfg σ) (h : Nat) : TP cfg (afterBlock cfg h σ) := by
  unfold afterBlock
  split
  · simp only
    have J := enterPrevote_tp T h σ.round (Nat.le_refl _)
    split
    · exact enterPrecommit_tp J h _ (Nat.le_refl _)
    · exact J
  · split
    · exact tryFinalizeCommit_tp T h
    · exact T

theorem addBlock_tp {cfg : Config} {σ : State} (T : TP cfg σ) (h id : Nat) (ok dec : Bool) :
    TP cfg (addBlock cfg h id ok dec σ) := by
  unfold addBlock
  split
  · exact T
  · split
    · exact T
    · split
      · exact T
      · split
        · exact T.of_eq rfl rfl rfl rfl rfl
        · exact afterBlock_tp (T.keeps (storeBlock_keeps _ _ _)) h

theorem ensureRound_spec {cfg : Config} {σ σ1 : State} (peer r : Nat) (h : ensureRound cfg peer r σ = some σ1) :
    σ1.height = σ.height ∧ σ1.round = σ.round ∧ σ1.step = σ.step ∧ σ1.ttp = σ.ttp ∧ σ1.sched = σ.sched ∧
    σ1.commitRound = σ.commitRound ∧ ∃ extra, σ1.votes = σ.votes ++ extra := by
  unfold ensureRound at h
  split at h
  · cases h; exact ⟨rfl, rfl, rfl, rfl, rfl, rfl, [], by simp⟩
  · split at h
    · cases h; exact ⟨rfl, rfl, rfl, rfl, rfl, rfl, [_], rfl⟩
    · cases h

theorem prevoteSwitch_tp {cfg : Config} {σ : State} (T : TP cfg σ) (nb : Option Nat) (h vr : Nat)
    (m : Option Target) (any : Bool) : TP cfg (prevoteSwitch cfg nb h vr m any σ) := by
  unfold prevoteSwitch
  split
  · exact enterNewRound_tp T nb h vr
  · split
    · rename_i hc
      have hle : vr ≤ σ.round := by
        simp only [Bool.and_eq_true, beq_iff_eq] at hc; omega
      split
      · split
        · exact enterPrecommit_tp T h vr hle
        · split
          · exact enterPrevoteWait_tp T h vr hle
          · exact T
      · split
        · exact enterPrevoteWait_tp T h vr hle
        · exact T
    · split
      · split
        · split
          · exact enterPrevote_tp T h _ (Nat.le_refl _)
          · exact T
        · exact T
      · exact T

theorem afterPrevote_tp {cfg : Config} {σ : State} (T : TP cfg σ) (nb : Option Nat) (vr : Nat) :
    TP cfg (afterPrevote cfg nb vr σ) := by
  unfold afterPrevote
  exact prevoteSwitch_tp (T.keeps (polkaUpdate_keeps _ _ _)) nb _ vr _ _

theorem afterPrecommit_tp {cfg : Config} {σ : State} (T : TP cfg σ) (nb : Option Nat) (vr : Nat) :
    TP cfg (afterPrecommit cfg nb vr σ) := by
  unfold afterPrecommit
  simp only
  split
  · have J1 := enterNewRound_tp T nb σ.height vr
    have J2 := enterPrecommit_tp' J1 σ.height vr (enterNewRound_round_ge' cfg nb vr σ)
    split
    · exact enterCommit_tp J2 _ _
    · exact enterPrecommitWait_tp J2 _ _
  · split
    · exact enterPrecommitWait_tp (enterNewRound_tp T nb _ _) _ _
    · exact T

theorem addVote_tp {cfg : Config} {σ : State} (T : TP cfg σ) (nb : Option Nat) (peer idx : Nat) (t : VType)
    (h r : Nat) (tgt : Target) (sigok : Bool) : TP cfg (addVote cfg nb peer idx t h r tgt sigok σ) := by
  unfold addVote
  split
  · exact T
  · split
    · exact T
    · split
      · exact T
      · rename_i σ1 he
        obtain ⟨e1, e2, e3, e4, e5, -⟩ := ensureRound_spec peer r he
        have J : TP cfg σ1 := T.of_eq e1 e2 e3 e4 e5
        split
        · exact J
        · split
          · have K : TP cfg { σ1 with votes := σ1.votes.map (setSlot t idx tgt h r), added := true } :=
              J.of_eq rfl rfl rfl rfl rfl
            split
            · exact afterPrevote_tp K nb r
            · exact afterPrecommit_tp K nb r
          · exact J

theorem handleTimeout_tp {cfg : Config} {σ : State} (T : TP cfg σ) (nb : Option Nat) (h r : Nat) (s : Step)
    (hok : h = σ.height → r ≤ σ.round) : TP cfg (handleTimeout cfg nb h r s σ) := by
  unfold handleTimeout
  split
  · exact T
  · rename_i hg
    have hr : r ≤ σ.round := hok (by omega)
    split
    · exact enterNewRound_tp T nb h 1
    · exact enterPropose_tp T nb h 1 T.r1
    · exact enterPrevote_tp T h r hr
    · exact enterPrecommit_tp T h r hr
    · exact enterNewRound_tp (enterPrecommit_tp T h r hr) nb h (r + 1)
    · exact panic_tp T

theorem step_tp {cfg : Config} {σ : State} (T : TP cfg σ) (nb : Option Nat) (i : Input) (hok : TimeoutOk σ i) :
    TP cfg (step cfg σ nb i) := by
  unfold step
  split
  · exact T
  · have J : TP cfg { σ with added := false } := T.of_eq rfl rfl rfl rfl rfl
    cases i with
    | proposal src sigok h r pol id => exact J.keeps (setProposal_keeps ..)
    | block h id ok dec => exact addBlock_tp J ..
    | vote peer idx t h r tgt sigok => exact addVote_tp J ..
    | timeout h r s => exact handleTimeout_tp J nb h r s hok

end KV.Cs
