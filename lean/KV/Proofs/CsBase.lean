import KV.Model.Cs
/-! Base lemmas for the invariants of `Cs.step`: lexicographic position, sortedness of the
signature log, vote-set monotonicity. Core Lean only. -/
namespace KV.Cs

/-! ### lexicographic order on (height, round, step) -/

def lt3 (h r s h' r' s' : Nat) : Prop := h < h' ∨ (h = h' ∧ (r < r' ∨ (r = r' ∧ s < s')))
def le3 (h r s h' r' s' : Nat) : Prop := h < h' ∨ (h = h' ∧ (r < r' ∨ (r = r' ∧ s ≤ s')))

/-- the (height, round, step threshold) at which a signature is produced -/
def rk : Action → Option (Nat × Nat × Nat)
  | .signProposal h r _ _ => some (h, r, 3)
  | .signVote .prevote h r _ => some (h, r, 4)
  | .signVote .precommit h r _ => some (h, r, 6)
  | _ => none

/-- the signature log is strictly increasing in time (newest first) -/
def Sorted : List Action → Prop
  | [] => True
  | a :: l => (∀ h r s, rk a = some (h, r, s) → ∀ b ∈ l, ∀ h' r' s', rk b = some (h', r', s') → lt3 h' r' s' h r s) ∧ Sorted l

def Below (h r s : Nat) (l : List Action) : Prop :=
  ∀ a ∈ l, ∀ h' r' s', rk a = some (h', r', s') → le3 h' r' s' h r s

/-- signature invariant: sorted, and nothing above the current position -/
def SI (h r s : Nat) (l : List Action) : Prop := Sorted l ∧ Below h r s l

theorem SI.mono {h r s h' r' s' : Nat} {l : List Action} (H : SI h r s l) (hle : le3 h r s h' r' s') :
    SI h' r' s' l := by
  refine ⟨H.1, ?_⟩
  intro a ha h1 r1 s1 hk
  have := H.2 a ha h1 r1 s1 hk
  unfold le3 at *
  omega

theorem SI.cons_none {h r s : Nat} {l : List Action} {a : Action} (H : SI h r s l) (ha : rk a = none) :
    SI h r s (a :: l) := by
  refine ⟨⟨?_, H.1⟩, ?_⟩
  · intro h1 r1 s1 hk; rw [ha] at hk; cases hk
  · intro b hb h1 r1 s1 hk
    rcases List.mem_cons.mp hb with rfl | hb
    · rw [ha] at hk; cases hk
    · exact H.2 b hb h1 r1 s1 hk

theorem SI.cons_sign {h r s h1 r1 s1 : Nat} {l : List Action} {a : Action} (H : SI h r s l)
    (ha : rk a = some (h1, r1, s1)) (hlt : lt3 h r s h1 r1 s1) : SI h1 r1 s1 (a :: l) := by
  refine ⟨⟨?_, H.1⟩, ?_⟩
  · intro h2 r2 s2 hk b hb h' r' s' hk'
    rw [ha] at hk
    cases hk
    have := H.2 b hb h' r' s' hk'
    unfold le3 lt3 at *
    omega
  · intro b hb h' r' s' hk'
    rcases List.mem_cons.mp hb with rfl | hb
    · rw [ha] at hk'; cases hk'
      unfold le3; omega
    · have := H.2 b hb h' r' s' hk'
      unfold le3 lt3 at *
      omega

/-- in a sorted log a key occurs at most once -/
theorem Sorted.count_le_one {l : List Action} (H : Sorted l) (k : Nat × Nat × Nat) :
    (l.filter (fun a => rk a == some k)).length ≤ 1 := by
  induction l with
  | nil => simp
  | cons a l ih =>
    have ih := ih H.2
    by_cases hk : rk a = some k
    · -- no other occurrence in l
      have hnone : l.filter (fun a => rk a == some k) = [] := by
        rw [List.filter_eq_nil_iff]
        intro b hb hbk
        have hbk : rk b = some k := by simpa using hbk
        obtain ⟨h, r, s⟩ := k
        have := H.1 h r s hk b hb h r s hbk
        unfold lt3 at this
        omega
      simp [List.filter, hk, hnone]
    · have : (rk a == some k) = false := by simpa using hk
      simp [List.filter, this]
      exact ih

/-! ### vote sets only grow -/

def slotsV (votes : List RoundVotes) (t : VType) (h r : Nat) : Slots :=
  match findRV votes h r with
  | some rv => slotsOf t rv
  | none => []

theorem State.slots_eq (σ : State) (t : VType) (h r : Nat) : σ.slots t h r = slotsV σ.votes t h r := rfl

/-- `+2/3` of the votes of type `t` at (h, r) are for `x` -/
def quorum (powers : List Nat) (votes : List RoundVotes) (t : VType) (h r : Nat) (x : Target) : Prop :=
  3 * sumFor powers (slotsV votes t h r) x > 2 * total powers

/-- every quorum of `v` is a quorum of `v'` -/
def VLe (powers : List Nat) (v v' : List RoundVotes) : Prop :=
  ∀ t h r x, quorum powers v t h r x → quorum powers v' t h r x

theorem VLe.refl (powers : List Nat) (v : List RoundVotes) : VLe powers v v := fun _ _ _ _ h => h
theorem VLe.trans {powers : List Nat} {a b c : List RoundVotes} (h1 : VLe powers a b) (h2 : VLe powers b c) :
    VLe powers a c := fun t h r x hq => h2 t h r x (h1 t h r x hq)

theorem tally_nil_right (p : Option Target → Bool) (pw : List Nat) : tally p pw [] = 0 := by
  cases pw <;> rfl

theorem maj23_sound {powers : List Nat} {vs : Slots} {x : Target} (h : maj23 powers vs = some x) :
    3 * sumFor powers vs x > 2 * total powers := by
  unfold maj23 at h
  have := List.find?_some h
  simpa [isMaj] using this

/-- appending a vote set never changes an existing lookup -/
theorem findRV_append (v : List RoundVotes) (rv : RoundVotes) (h r : Nat) :
    findRV (v ++ [rv]) h r = match findRV v h r with
      | some x => some x
      | none => if rv.height == h && rv.round == r then some rv else none := by
  unfold findRV
  rw [List.find?_append]
  cases hf : List.find? (fun rv => rv.height == h && rv.round == r) v with
  | some x => simp
  | none =>
    simp only [List.find?]
    cases (rv.height == h && rv.round == r) <;> rfl

theorem VLe_append (powers : List Nat) (v : List RoundVotes) (rv : RoundVotes) : VLe powers v (v ++ [rv]) := by
  intro t h r x hq
  unfold quorum slotsV at *
  rw [findRV_append]
  cases hf : findRV v h r with
  | some y => simpa [hf] using hq
  | none =>
    rw [hf] at hq
    simp [sumFor, tally_nil_right] at hq

/-- filling a slot can only increase the tally of any target when the slot was empty -/
theorem tally_set_mono (x : Target) (tgt : Target) :
    ∀ (pw : List Nat) (vs : Slots) (idx : Nat), vs[idx]? = some none →
      tally (fun v => v == some x) pw vs ≤ tally (fun v => v == some x) pw (vs.set idx (some tgt))
  | [], vs, idx, _ => by cases vs <;> simp [tally]
  | p :: pw, [], idx, h => by simp at h
  | p :: pw, v :: vs, 0, h => by
    simp at h
    subst h
    simp [tally]
  | p :: pw, v :: vs, idx+1, h => by
    simp at h
    have := tally_set_mono x tgt pw vs idx h
    simp [tally]
    omega

theorem slotsOf_setSlot (t t' : VType) (idx : Nat) (tgt : Target) (h r : Nat) (rv : RoundVotes) :
    slotsOf t' (setSlot t idx tgt h r rv) =
      if (rv.height == h && rv.round == r) && t' == t then (slotsOf t' rv).set idx (some tgt) else slotsOf t' rv := by
  unfold setSlot
  cases t <;> cases t' <;> by_cases hc : (rv.height == h && rv.round == r) = true <;> simp [hc, slotsOf]

theorem findRV_map_setSlot (t : VType) (idx : Nat) (tgt : Target) (h r h' r' : Nat) (v : List RoundVotes) :
    findRV (v.map (setSlot t idx tgt h r)) h' r' = (findRV v h' r').map (setSlot t idx tgt h r) := by
  unfold findRV
  induction v with
  | nil => rfl
  | cons a v ih =>
    have hkey : ((setSlot t idx tgt h r a).height == h' && (setSlot t idx tgt h r a).round == r') =
        (a.height == h' && a.round == r') := by
      unfold setSlot
      cases t <;> by_cases hc : (a.height == h && a.round == r) = true <;> simp [hc]
    simp only [List.map_cons, List.find?_cons, hkey]
    cases hc : (a.height == h' && a.round == r') with
    | true => simp
    | false => simpa using ih

/-- adding an accepted vote keeps every quorum -/
theorem VLe_setSlot (powers : List Nat) (v : List RoundVotes) (t : VType) (idx : Nat) (tgt : Target) (h r : Nat)
    (hempty : (slotsV v t h r)[idx]? = some none) :
    VLe powers v (v.map (setSlot t idx tgt h r)) := by
  intro t' h' r' x hq
  unfold quorum slotsV at *
  rw [findRV_map_setSlot]
  cases hf : findRV v h' r' with
  | none => rw [hf] at hq; simpa using hq
  | some rv =>
    rw [hf] at hq
    simp only [Option.map_some]
    rw [slotsOf_setSlot]
    by_cases hc : ((rv.height == h && rv.round == r) && t' == t) = true
    · rw [if_pos hc]
      simp only [Bool.and_eq_true, beq_iff_eq] at hc
      obtain ⟨⟨hh, hr⟩, ht⟩ := hc
      subst ht
      -- the looked-up set is the one the vote goes to
      have hkey : rv.height = h' ∧ rv.round = r' := by
        have := List.find?_some hf
        simpa using this
      have hsame : findRV v h r = some rv := by
        rw [← hh, ← hr, hkey.1, hkey.2]; exact hf
      rw [hsame] at hempty
      have := tally_set_mono x tgt powers (slotsOf t' rv) idx hempty
      simp only [sumFor] at *
      omega
    · rw [if_neg hc]; exact hq

end KV.Cs
