import KV.Proofs.Wal
import KV.Proofs.Crc32cLinear
/-! Bit flips in a framed write-ahead log (property C15) and what CRC-32C proper guarantees about
them. Core only. -/
namespace KV.Wal

/-! ## `flipBit` -/

theorem flipMask_ne_zero (i : Nat) : UInt8.ofNat (2 ^ (7 - i % 8)) ≠ 0 := by
  have h : ∀ j : Nat, j < 8 → UInt8.ofNat (2 ^ (7 - j)) ≠ 0 := by decide
  exact h (i % 8) (Nat.mod_lt _ (by omega))

theorem flipBit_length (s : Bytes) (i : Nat) : (flipBit s i).length = s.length := by
  simp [flipBit]

/-- a flip replaces exactly one byte `b` by `b ^^^ m` with `m ≠ 0` -/
theorem flipBit_split (s : Bytes) (i : Nat) (h : i < 8 * s.length) :
    ∃ p b q m, m ≠ 0 ∧ s = p ++ b :: q ∧ p.length = i / 8 ∧ flipBit s i = p ++ (b ^^^ m) :: q := by
  have hk : i / 8 < s.length := by omega
  obtain ⟨p, b, q, e1, e2, e3⟩ :=
    List.exists_of_modify (fun b => b ^^^ (UInt8.ofNat (2 ^ (7 - i % 8)))) hk
  exact ⟨p, b, q, _, flipMask_ne_zero i, e1, e2, e3⟩

theorem u8_xor_ne_self (b m : UInt8) (h : m ≠ 0) : b ^^^ m ≠ b := by
  intro e
  apply h
  have := congrArg (fun t => b ^^^ t) e
  simp only [← UInt8.xor_assoc, UInt8.xor_self, UInt8.zero_xor] at this
  exact this

theorem flipBit_ne (s : Bytes) (i : Nat) (h : i < 8 * s.length) : flipBit s i ≠ s := by
  obtain ⟨p, b, q, m, hm, e1, _, e3⟩ := flipBit_split s i h
  intro e
  rw [e3] at e
  have e' : p ++ (b ^^^ m) :: q = p ++ b :: q := e.trans e1
  have := List.append_cancel_left e'
  injection this with h1 _
  exact u8_xor_ne_self b m hm h1

theorem modify_append_right {α : Type} (f : α → α) (a b : List α) (k : Nat) :
    (a ++ b).modify (a.length + k) f = a ++ b.modify k f := by
  induction a with
  | nil => simp
  | cons x a ih =>
    rw [List.cons_append, List.length_cons, Nat.add_right_comm, List.modify_succ_cons, ih]
    rfl

theorem modify_append_left {α : Type} (f : α → α) (a b : List α) (k : Nat) (h : k < a.length) :
    (a ++ b).modify k f = a.modify k f ++ b := by
  induction a generalizing k with
  | nil => cases h
  | cons x a ih =>
    cases k with
    | zero => rfl
    | succ k =>
      rw [List.cons_append, List.modify_succ_cons, List.modify_succ_cons, ih k (by simpa using h)]
      rfl

theorem flipBit_append_left (a b : Bytes) (i : Nat) (h : i < 8 * a.length) :
    flipBit (a ++ b) i = flipBit a i ++ b := by
  unfold flipBit
  exact modify_append_left _ a b _ (by omega)

theorem flipBit_append_right (a b : Bytes) (i : Nat) :
    flipBit (a ++ b) (8 * a.length + i) = a ++ flipBit b i := by
  unfold flipBit
  have e1 : (8 * a.length + i) / 8 = a.length + i / 8 := by omega
  have e2 : (8 * a.length + i) % 8 = i % 8 := by omega
  rw [e1, e2]
  exact modify_append_right _ a b _

/-! ## CRC-32C proper detects every single-bit error -/

/-- **single_bit_flip**: for CRC-32C as executed (table driven), flipping any one bit of any byte
string changes the checksum -/
theorem crc32c_flipBit_ne (d : Bytes) (i : Nat) (h : i < 8 * d.length) :
    crc32c (flipBit d i) ≠ crc32c d := by
  obtain ⟨p, b, q, m, hm, e1, _, e3⟩ := flipBit_split d i h
  rw [e3]
  have e1' : crc32c d = crc32c (p ++ b :: q) := congrArg crc32c e1
  rw [e1']
  have := crc32c_burst4 p [b ^^^ m] [b] q rfl (by simp) (by
    intro e; injection e with e _; exact u8_xor_ne_self b m hm e)
  simpa using this

/-! ## decoding a damaged record -/

/-- the three fields of a stream that starts with two 4-byte words -/
theorem hdr_split (A B T : Bytes) (hA : A.length = 4) (hB : B.length = 4) :
    (A ++ B ++ T).take 4 = A ∧ ((A ++ B ++ T).drop 4).take 4 = B ∧ (A ++ B ++ T).drop 8 = T := by
  refine ⟨?_, ?_, ?_⟩
  · rw [List.append_assoc, List.take_append_of_le_length (by omega)]
    exact List.take_of_length_le (by omega)
  · rw [List.append_assoc, List.drop_append_of_le_length (by omega),
      List.drop_of_length_le (by omega), List.nil_append,
      List.take_append_of_le_length (by omega)]
    exact List.take_of_length_le (by omega)
  · rw [List.append_assoc, List.drop_append, List.drop_of_length_le (by omega),
      List.nil_append, hA, List.drop_append, List.drop_of_length_le (by omega)]
    simp [hB]

/-- what a message decoded from `A ‖ B ‖ T` (two header words, then anything) is -/
theorem decode_hdr_msg (c : Cfg) (k : RKind) (A B T x r : Bytes) (hA : A.length = 4)
    (hB : B.length = 4) (h : decode c k (A ++ B ++ T) = .msg x r) :
    (c.crc x).toNat = be32Val A ∧ x.length = be32Val B ∧ x.length ≤ c.max ∧
      x = pad x.length (T.take x.length) ∧ c.parse x ≠ none := by
  obtain ⟨_, h1, h2, h3, h4, _, h5⟩ := decode_msg_inv c k _ x r h
  obtain ⟨e1, e2, e3⟩ := hdr_split A B T hA hB
  rw [e1] at h1
  rw [e2, pad_of_le 4 B (by omega)] at h2
  rw [e3] at h4
  exact ⟨h1, h2, h3, h4, h5⟩

theorem pad_take_self (d rest : Bytes) : pad d.length ((d ++ rest).take d.length) = d := by
  rw [List.take_append_of_le_length (Nat.le_refl _), List.take_length, pad_of_le _ _ (Nat.le_refl _)]

/-- **a payload replaced by one of the same length with a different checksum is reported corrupt**
(any checksum function; no collision disjunct — the hypothesis is what CRC-32C delivers for
single-bit and burst errors) -/
theorem decodeAll_payload_edit (c : Cfg) (k : RKind) (pre : List Bytes) (d d' tail : Bytes)
    (hmax : c.max < 4294967296) (hv : ∀ x ∈ pre, Valid c x) (hd : d.length < 4294967296)
    (hl : d'.length = d.length) (hne : c.crc d' ≠ c.crc d) :
    decodeAll c k (frames c pre ++ (be32 (c.crc d).toNat ++ be32 d.length ++ (d' ++ tail))) =
      (pre, .corrupt) := by
  rw [decodeAll_frames c k pre _ hmax hv]
  cases hdec : decode c k (be32 (c.crc d).toNat ++ be32 d.length ++ (d' ++ tail)) with
  | eof =>
    have := decode_eof_inv c k _ hdec
    simp only [List.length_append, be32_length] at this
    omega
  | corrupt r => rw [decodeAll_corrupt c k _ r hdec]; simp
  | msg x r =>
    exfalso
    obtain ⟨h1, h2, _, h4, _⟩ := decode_hdr_msg c k _ _ _ x r (be32_length _) (be32_length _) hdec
    rw [be32Val_be32 _ hd] at h2
    rw [be32Val_be32 _ (crc_toNat_lt c d)] at h1
    rw [h2, ← hl, pad_take_self] at h4
    rw [h4] at h1
    exact hne (UInt32.toNat_inj.mp h1)

/-- a one-bit flip in the LENGTH field of the record of `d` (followed by `rest`) went unnoticed:
the decoder accepted the payload window `w` selected by the new length — a proper prefix of `d`,
or `d` extended by the bytes that follow (zero-filled by a plain reader at the end of input) —
because that window happens to have the checksum of `d`. The checksum does not cover the length
field, so linearity of the CRC says nothing about this case. -/
def LenFlipAccepted (c : Cfg) (k : RKind) (d rest : Bytes) (b : Nat) : Prop :=
  ∃ w r, decode c k (be32 (c.crc d).toNat ++ flipBit (be32 d.length) b ++ (d ++ rest)) = .msg w r ∧
    w.length = be32Val (flipBit (be32 d.length) b) ∧ w.length ≠ d.length ∧ w.length ≤ c.max ∧
    w = pad w.length ((d ++ rest).take w.length) ∧ c.crc w = c.crc d ∧ c.parse w ≠ none

/-- where a flipped bit of a record lies -/
theorem flipBit_frame (c : Cfg) (d : Bytes) (o : Nat) (ho : o < 8 * (frame c d).length) :
    (o < 32 ∧ flipBit (frame c d) o = flipBit (be32 (c.crc d).toNat) o ++ be32 d.length ++ d) ∨
    (32 ≤ o ∧ o < 64 ∧
      flipBit (frame c d) o = be32 (c.crc d).toNat ++ flipBit (be32 d.length) (o - 32) ++ d) ∨
    (64 ≤ o ∧ o - 64 < 8 * d.length ∧
      flipBit (frame c d) o = be32 (c.crc d).toNat ++ be32 d.length ++ flipBit d (o - 64)) := by
  rw [frame_length] at ho
  unfold frame
  by_cases h1 : o < 32
  · left
    refine ⟨h1, ?_⟩
    rw [List.append_assoc, flipBit_append_left _ _ _ (by simp [be32_length]; omega), List.append_assoc]
  · by_cases h2 : o < 64
    · right; left
      refine ⟨by omega, h2, ?_⟩
      have e : o = 8 * (be32 (c.crc d).toNat).length + (o - 32) := by simp [be32_length]; omega
      rw [List.append_assoc, List.append_assoc]
      conv => lhs; rw [e]
      rw [flipBit_append_right, flipBit_append_left _ _ _ (by simp [be32_length]; omega)]
    · right; right
      refine ⟨by omega, by omega, ?_⟩
      have e : o = 8 * (be32 (c.crc d).toNat ++ be32 d.length).length + (o - 64) := by
        simp [be32_length]; omega
      conv => lhs; rw [e]
      rw [flipBit_append_right]

/-- **one flipped bit in one record.** With CRC-32C as the checksum, the record of a valid payload
`d` with ANY single bit flipped (checksum field, length field or payload), followed by anything, is
reported corrupt — except possibly for a flip in the length field whose new payload window has the
checksum of `d` (`LenFlipAccepted`). -/
theorem decode_flipped_record (c : Cfg) (k : RKind) (d rest : Bytes) (o : Nat)
    (hcrc : c.crc = crc32c) (hmax : c.max < 4294967296) (hv : Valid c d)
    (ho : o < 8 * (frame c d).length) :
    (∃ r, decode c k (flipBit (frame c d) o ++ rest) = .corrupt r) ∨
      (32 ≤ o ∧ o < 64 ∧ LenFlipAccepted c k d rest (o - 32)) := by
  have hd : d.length < 4294967296 := by have := hv.2.1; omega
  have hlen8 : 8 ≤ (flipBit (frame c d) o ++ rest).length := by
    rw [List.length_append, flipBit_length, frame_length]; omega
  cases hdec : decode c k (flipBit (frame c d) o ++ rest) with
  | eof => have := decode_eof_inv c k _ hdec; omega
  | corrupt r => exact Or.inl ⟨r, rfl⟩
  | msg x r =>
    right
    rcases flipBit_frame c d o ho with ⟨h1, e⟩ | ⟨h1, h2, e⟩ | ⟨h1, h2, e⟩
    · -- checksum field: the stored checksum is no longer that of the payload (any checksum)
      exfalso
      rw [e, List.append_assoc _ d rest] at hdec
      have hA : (flipBit (be32 (c.crc d).toNat) o).length = 4 := by rw [flipBit_length, be32_length]
      obtain ⟨g1, g2, _, g4, _⟩ := decode_hdr_msg c k _ _ _ x r hA (be32_length _) hdec
      rw [be32Val_be32 _ hd] at g2
      rw [g2, pad_take_self] at g4
      rw [g4] at g1
      have := congrArg be32 g1
      rw [be32_be32Val _ hA] at this
      exact flipBit_ne _ o (by rw [be32_length]; omega) this.symm
    · -- length field
      refine ⟨h1, h2, x, r, ?_⟩
      rw [e, List.append_assoc _ d rest] at hdec
      have hB : (flipBit (be32 d.length) (o - 32)).length = 4 := by rw [flipBit_length, be32_length]
      obtain ⟨g1, g2, g3, g4, g5⟩ := decode_hdr_msg c k _ _ _ x r (be32_length _) hB hdec
      rw [be32Val_be32 _ (crc_toNat_lt c d)] at g1
      refine ⟨hdec, g2, ?_, g3, g4, UInt32.toNat_inj.mp g1, g5⟩
      intro hxd
      rw [hxd] at g2
      have := congrArg be32 g2
      rw [be32_be32Val _ hB] at this
      exact flipBit_ne _ (o - 32) (by rw [be32_length]; omega) this.symm
    · -- payload: CRC-32C detects every single-bit error
      exfalso
      rw [e, List.append_assoc _ _ rest] at hdec
      obtain ⟨g1, g2, _, g4, _⟩ := decode_hdr_msg c k _ _ _ x r (be32_length _) (be32_length _) hdec
      rw [be32Val_be32 _ hd] at g2
      rw [be32Val_be32 _ (crc_toNat_lt c d)] at g1
      rw [g2, ← flipBit_length d (o - 64), pad_take_self] at g4
      rw [g4, hcrc] at g1
      exact crc32c_flipBit_ne d (o - 64) h2 (UInt32.toNat_inj.mp g1)

/-- locating bit `i` of a written log: the record it lies in and the offset inside that record -/
theorem frames_bit_split (c : Cfg) (ds : List Bytes) (i : Nat) (hi : i < 8 * (frames c ds).length) :
    ∃ pre d post o, ds = pre ++ d :: post ∧ i = 8 * (frames c pre).length + o ∧
      o < 8 * (frame c d).length := by
  induction ds generalizing i with
  | nil => simp [frames] at hi
  | cons d ds ih =>
    by_cases h : i < 8 * (frame c d).length
    · exact ⟨[], d, ds, i, rfl, by simp [frames], h⟩
    · simp only [frames, List.length_append] at hi
      obtain ⟨pre, d', post, o, e1, e2, e3⟩ := ih (i - 8 * (frame c d).length) (by omega)
      refine ⟨d :: pre, d', post, o, by rw [e1]; rfl, ?_, e3⟩
      simp only [frames, List.length_append]
      omega

theorem flipBit_frames (c : Cfg) (pre : List Bytes) (d : Bytes) (post : List Bytes) (o : Nat)
    (ho : o < 8 * (frame c d).length) :
    flipBit (frames c (pre ++ d :: post)) (8 * (frames c pre).length + o) =
      frames c pre ++ (flipBit (frame c d) o ++ frames c post) := by
  rw [frames_append, flipBit_append_right]
  simp only [frames]
  rw [flipBit_append_left _ _ _ ho]

/-! ## evaluating `decode` on concrete inputs inside proofs (`decide` on a projection) -/

def Res.asMsg : Res Bytes → Option (Bytes × Bytes)
  | .msg d r => some (d, r)
  | _ => none

def Res.isEof : Res Bytes → Bool
  | .eof => true
  | _ => false

def Res.isCorrupt : Res Bytes → Bool
  | .corrupt _ => true
  | _ => false

theorem Res.of_asMsg {r : Res Bytes} {d rest : Bytes} (h : r.asMsg = some (d, rest)) :
    r = .msg d rest := by
  cases r <;> simp [Res.asMsg] at h
  rw [h.1, h.2]

theorem Res.of_isEof {r : Res Bytes} (h : r.isEof = true) : r = .eof := by
  cases r <;> simp [Res.isEof] at h
  rfl

theorem Res.of_isCorrupt {r : Res Bytes} (h : r.isCorrupt = true) : ∃ x, r = .corrupt x := by
  cases r <;> simp [Res.isCorrupt] at h
  exact ⟨_, rfl⟩

end KV.Wal
