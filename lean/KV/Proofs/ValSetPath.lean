import KV.Proofs.ValSetStep
import KV.Proofs.ValSetUpdate
import KV.Proofs.ValSetCompose
/-!
# The former rule of `IncrementProposerPriority` (normalise once per call) and when it agrees with
the present one (C12 `proposer_path_independent`, regression for finding C12-P1; used by C04)

Before the fix of C12-P1 `IncrementProposerPriority(k)` normalised once (rescale, centre) and then
ran `k` rounds, while a node that goes through the rounds one by one normalises before every round.
Centring is the identity on a centred list and rounds keep the priority sum, so the two agree as
long as no intermediate call rescales (`PathCtx.noRescale`) — and only then.  The present rule
(`increment`, one normalisation per round) composes unconditionally: `ValSetCompose.lean`.
-/
namespace KV.ValSet
open KV.I64

/-- `IncrementProposerPriority(times)` as it was before the fix of C12-P1: one normalisation,
then `times` rounds -/
def incrementOld (vs : ValSet) (times : Int) : Except Err ValSet :=
  if vs.vals.isEmpty then .error .panic
  else if times ≤ 0 then .error .panic
  else match totalOf vs with
    | none => .error .panic
    | some T =>
      let D := I64.mul windowFactor T
      if rescalePanics D vs.vals then .error .panic
      else
        let l2 := shiftList (rescaleList D vs.vals)
        let r := stepsList T times.toNat l2 none
        .ok { vals := r.1, proposer := r.2, total := T }

theorem stepsList_snoc (T : Int) (j : Nat) (l : List Validator) (p : Option Nat) :
    stepsList T (j + 1) l p = stepList T (stepsList T j l p).1 := by
  induction j generalizing l p with
  | zero => simp [stepsList]
  | succ j ih =>
    show stepsList T (j + 1) (stepList T l).1 (stepList T l).2 = _
    rw [ih]; rfl

/-! ## the priority sum is invariant under a round -/

theorem Spec.step_proposer_mem (T : Int) (l : List Validator) (hne : l ≠ []) :
    ∃ a, (Spec.step T l).2 = some a ∧ a ∈ l.map (·.addr) := by
  have hne' : (l.map fun v => ({ v with prio := v.prio + v.power } : Validator)) ≠ [] := by
    simpa using hne
  obtain ⟨m, hm, hmem, _⟩ := mostest_spec _ hne'
  refine ⟨m.addr, by unfold Spec.step; simp only [hm], ?_⟩
  obtain ⟨v0, hv0, rfl⟩ := List.mem_map.mp hmem
  exact List.mem_map.mpr ⟨v0, hv0, rfl⟩

theorem sum_indicator (l : List Validator) (hn : (l.map (·.addr)).Nodup) (a : Nat)
    (ha : a ∈ l.map (·.addr)) (T : Int) :
    sumBy (fun v => if v.addr = a then T else 0) l = T := by
  induction l with
  | nil => cases ha
  | cons x xs ih =>
    rw [List.map_cons, List.nodup_cons] at hn
    rw [sumBy_cons]
    by_cases hx : x.addr = a
    · rw [if_pos hx]
      have : sumBy (fun v => if v.addr = a then T else 0) xs = 0 := by
        apply sumBy_zero
        intro y hy
        have : y.addr ≠ a := fun e => hn.1 (hx ▸ e ▸ List.mem_map_of_mem (f := (·.addr)) hy)
        simp [this]
      omega
    · rw [if_neg hx]
      have : a ∈ xs.map (·.addr) := by
        rw [List.map_cons] at ha
        rcases List.mem_cons.mp ha with h | h
        · exact absurd h.symm hx
        · exact h
      have := ih hn.2 this; omega

theorem sumBy_add (f g : Validator → Int) (l : List Validator) :
    sumBy (fun x => f x + g x) l = sumBy f l + sumBy g l := by
  induction l with
  | nil => simp
  | cons x xs ih => simp [ih]; omega

theorem Spec.step_sum (T : Int) (l : List Validator) (hne : l ≠ []) (hn : (l.map (·.addr)).Nodup)
    (hT : T = Spec.total l) : sumPrio (Spec.step T l).1 = sumPrio l := by
  obtain ⟨a, ha, hmem⟩ := Spec.step_proposer_mem T l hne
  rw [Spec.step_closed_form T l a ha]
  have e : sumPrio (l.map fun v =>
      if v.addr = a then { v with prio := v.prio + v.power - T } else { v with prio := v.prio + v.power }) =
      sumBy (fun v => (v.prio + v.power) - (if v.addr = a then T else 0)) l := by
    unfold sumPrio sumBy
    rw [List.map_map]
    congr 1
    apply List.map_congr_left
    intro v _
    simp only [Function.comp]
    split <;> simp
  rw [e, sumBy_sub, sum_indicator l hn a hmem T]
  have : sumBy (fun v => v.prio + v.power) l = sumPrio l + Spec.total l :=
    sumBy_add (·.prio) (·.power) l
  rw [this]; omega

/-- `k` rounds keep addresses, powers and the priority sum -/
theorem Spec.steps_shape (T : Int) (j : Nat) (l : List Validator) (p : Option Nat) (hne : l ≠ []) :
    (Spec.steps T j l p).1.map (·.addr) = l.map (·.addr) ∧
    (Spec.steps T j l p).1.map (·.power) = l.map (·.power) := by
  rw [Spec.steps_closed_form T j l p hne, List.map_map, List.map_map]
  exact ⟨List.map_congr_left (fun _ _ => rfl), List.map_congr_left (fun _ _ => rfl)⟩

theorem Spec.steps_sum (T : Int) (j : Nat) (l : List Validator) (p : Option Nat) (hne : l ≠ [])
    (hn : (l.map (·.addr)).Nodup) (hT : T = Spec.total l) :
    sumPrio (Spec.steps T j l p).1 = sumPrio l := by
  induction j generalizing l p with
  | zero => rfl
  | succ j ih =>
    show sumPrio (Spec.steps T j (Spec.step T l).1 (Spec.step T l).2).1 = _
    obtain ⟨a, ha, _⟩ := Spec.step_proposer_mem T l hne
    have hform := Spec.step_closed_form T l a ha
    have hne1 : (Spec.step T l).1 ≠ [] := by rw [hform]; simpa using hne
    have hn1 : ((Spec.step T l).1.map (·.addr)).Nodup := by
      rw [hform, List.map_map]
      have : (l.map ((fun x : Validator => x.addr) ∘ fun v =>
          if v.addr = a then { v with prio := v.prio + v.power - T } else { v with prio := v.prio + v.power })) =
          l.map (·.addr) := List.map_congr_left (fun v _ => by simp only [Function.comp]; split <;> rfl)
      rw [this]; exact hn
    have hT1 : T = Spec.total (Spec.step T l).1 := by
      rw [hform, hT]; unfold Spec.total
      rw [List.map_map]
      congr 1
      exact (List.map_congr_left (fun v _ => by simp only [Function.comp]; split <;> rfl)).symm
    rw [ih _ _ hne1 hn1 hT1, Spec.step_sum T l hne hn hT]

theorem Spec.steps_bound (T : Int) (hT : 0 ≤ T) (j : Nat) (B : Int) (l : List Validator) (p : Option Nat)
    (hb : PrioBound B l) (hp : PowBound T l) :
    PrioBound (B + (j : Int) * T) (Spec.steps T j l p).1 ∧ PowBound T (Spec.steps T j l p).1 := by
  induction j generalizing B l p with
  | zero => simpa [Spec.steps] using ⟨hb, hp⟩
  | succ j ih =>
    obtain ⟨hb', hp'⟩ := Spec.step_bound B T l hb hp hT
    obtain ⟨h1, h2⟩ := ih (B + T) (Spec.step T l).1 (Spec.step T l).2 hb' hp'
    refine ⟨?_, h2⟩
    have : B + T + (j : Int) * T = B + ((j + 1 : Nat) : Int) * T := by
      rw [Int.natCast_succ, Int.add_mul, Int.one_mul]; omega
    rw [← this]; exact h1

/-! ## centring a centred list is the identity -/

theorem shiftList_centred (l : List Validator) (hr : ∀ v ∈ l, InRange v.prio)
    (hc : 0 ≤ sumPrio l ∧ sumPrio l < l.length) : shiftList l = l := by
  have havg : avgPrio l = 0 := by
    unfold avgPrio
    exact Int.ediv_eq_zero_of_lt hc.1 hc.2
  unfold shiftList
  simp only [havg]
  conv => rhs; rw [← List.map_id l]
  apply List.map_congr_left
  intro v hv
  have hz : InRange (0 : Int) := by unfold InRange minI64 maxI64; omega
  have : safeSubClip v.prio 0 = v.prio := by
    rw [safeSubClip_exact v.prio 0 (hr v hv) hz (by simpa using hr v hv)]; omega
  simp only [this, id]

theorem incrementOld_eq (vs : ValSet) (times : Int) (hne : vs.vals ≠ []) (ht : 0 < times)
    (hT : vs.total ≠ 0) (hp : rescalePanics (I64.mul windowFactor vs.total) vs.vals = false) :
    incrementOld vs times = .ok
      { vals := (stepsList vs.total times.toNat
          (shiftList (rescaleList (I64.mul windowFactor vs.total) vs.vals)) none).1,
        proposer := (stepsList vs.total times.toNat
          (shiftList (rescaleList (I64.mul windowFactor vs.total) vs.vals)) none).2,
        total := vs.total } := by
  have h1 : vs.vals.isEmpty = false := by
    cases h : vs.vals with | nil => exact absurd h hne | cons _ _ => rfl
  have h2 : ¬ times ≤ 0 := by omega
  simp [incrementOld, totalOf, h1, hT, hp, h2]

/-- one round of the present rule, unfolded -/
theorem increment_one_eq (vs : ValSet) (hne : vs.vals ≠ []) (hT : vs.total ≠ 0)
    (hp : rescalePanics (I64.mul windowFactor vs.total) vs.vals = false) :
    increment vs 1 = .ok
      { vals := (stepList vs.total (shiftList (rescaleList (I64.mul windowFactor vs.total) vs.vals))).1,
        proposer := (stepList vs.total (shiftList (rescaleList (I64.mul windowFactor vs.total) vs.vals))).2,
        total := vs.total } := by
  have h1 : vs.vals.isEmpty = false := by
    cases h : vs.vals with | nil => exact absurd h hne | cons _ _ => rfl
  simp [increment, totalOf, h1, hT, normSteps, normStep, hp]

theorem stepsList_one (T : Int) (l : List Validator) (p : Option Nat) :
    stepsList T 1 l p = stepList T l := by simp [stepsList]

theorem increment_one_normal (s : List Validator) (p : Option Nat) (T : Int) (hne : s ≠ []) (hT : T ≠ 0)
    (hnp : rescalePanics (I64.mul windowFactor T) s = false)
    (hres : rescaleList (I64.mul windowFactor T) s = s) (hshift : shiftList s = s) :
    increment { vals := s, proposer := p, total := T } 1 =
      .ok { vals := (stepList T s).1, proposer := (stepList T s).2, total := T } := by
  have h1 : s.isEmpty = false := by
    cases h : s with | nil => exact absurd h hne | cons _ _ => rfl
  simp [increment, totalOf, h1, hT, normSteps, normStep, hnp, hres, hshift]

/-- what a set looks like between two rounds -/
structure PathCtx (T D B : Int) (k : Nat) (l0 : List Validator) : Prop where
  ne : l0 ≠ []
  nodup : (l0.map (·.addr)).Nodup
  tot : T = Spec.total l0
  tpos : 0 < T
  prio : PrioBound B l0
  pow : PowBound T l0
  fit : B + ((k : Int) + 1) * T ≤ maxI64
  centred : 0 ≤ sumPrio l0 ∧ sumPrio l0 < l0.length
  /-- no intermediate call rescales -/
  noRescale : ∀ j, 1 ≤ j → j < k → maxMinDiff (stepsList T j l0 none).1 ≤ D

theorem path_one (T D B : Int) (k : Nat) (l0 : List Validator) (h : PathCtx T D B k l0)
    (hD : D = I64.mul windowFactor T) (j : Nat) (hj1 : 1 ≤ j) (hjk : j < k) :
    increment { vals := (stepsList T j l0 none).1, proposer := (stepsList T j l0 none).2, total := T } 1 =
      .ok { vals := (stepsList T (j + 1) l0 none).1, proposer := (stepsList T (j + 1) l0 none).2, total := T } := by
  obtain ⟨hne, hn, htot, htpos, hb, hp, hfit, hc, hw⟩ := h
  have hT0 : 0 ≤ T := by omega
  have hmono : ((j : Int) + 1) * T ≤ ((k : Int) + 1) * T :=
    Int.mul_le_mul_of_nonneg_right (by omega) hT0
  have hjT : 0 ≤ (j : Int) * T := Int.mul_nonneg (by omega) hT0
  have hexp : ((j : Int) + 1) * T = (j : Int) * T + T := by rw [Int.add_mul, Int.one_mul]
  have hspec : stepsList T j l0 none = Spec.steps T j l0 none :=
    stepsList_eq_spec T hT0 j B l0 none hb hp (by omega)
  have hshape := Spec.steps_shape T j l0 none hne
  have hsum := Spec.steps_sum T j l0 none hne hn htot
  obtain ⟨hbj, _⟩ := Spec.steps_bound T hT0 j B l0 none hb hp
  have hlen : (Spec.steps T j l0 none).1.length = l0.length := by
    have := congrArg List.length hshape.1; simpa using this
  have hnej : (stepsList T j l0 none).1 ≠ [] := by
    rw [hspec]; intro e; rw [e] at hlen
    cases l0 with | nil => exact hne rfl | cons _ _ => simp at hlen
  have hwj := hw j hj1 hjk
  have hnp : rescalePanics (I64.mul windowFactor T) (stepsList T j l0 none).1 = false := by
    rw [← hD]; unfold rescalePanics
    have : ¬ maxMinDiff (stepsList T j l0 none).1 > D := by omega
    simp [this]
  have hres : rescaleList (I64.mul windowFactor T) (stepsList T j l0 none).1 = (stepsList T j l0 none).1 := by
    rw [← hD]; unfold rescaleList
    split
    · rfl
    · rw [if_neg (by omega)]
  have hshift : shiftList (stepsList T j l0 none).1 = (stepsList T j l0 none).1 := by
    rw [hspec]
    apply shiftList_centred
    · intro v hv
      obtain ⟨b1, b2⟩ := hbj v hv
      unfold InRange minI64; unfold maxI64 at hfit ⊢; omega
    · rw [hsum, hlen]; exact hc
  rw [stepsList_snoc T j l0 none]
  exact increment_one_normal _ _ T hnej (by omega) hnp hres hshift

theorem path_many (T D B : Int) (k : Nat) (l0 : List Validator) (h : PathCtx T D B k l0)
    (hD : D = I64.mul windowFactor T) (m : Nat) :
    ∀ j, 1 ≤ j → j + m ≤ k →
      iterInc m { vals := (stepsList T j l0 none).1, proposer := (stepsList T j l0 none).2, total := T } =
        .ok { vals := (stepsList T (j + m) l0 none).1, proposer := (stepsList T (j + m) l0 none).2, total := T } := by
  induction m with
  | zero => intro j _ _; rfl
  | succ m ih =>
    intro j hj1 hjk
    unfold iterInc
    rw [path_one T D B k l0 h hD j hj1 (by omega)]
    simp only
    rw [ih (j + 1) (by omega) (by omega)]
    have : j + 1 + m = j + (m + 1) := by omega
    rw [this]


/-- **the former rule agrees with round-by-round calls when nothing rescales in between**: `k`
successive `IncrementProposerPriority(1)` give the set (all priorities, proposer, total) of the
former one-normalisation `IncrementProposerPriority(k)`, provided no intermediate call rescales
(`PathCtx.noRescale`) and the stated `int64` range condition holds. -/
theorem iterInc_eq_incrementOld (vs : ValSet) (k : Nat) (B : Int) (hk : 1 ≤ k) (hne : vs.vals ≠ [])
    (hpanic : rescalePanics (I64.mul windowFactor vs.total) vs.vals = false)
    (h : PathCtx vs.total (I64.mul windowFactor vs.total) B k
      (shiftList (rescaleList (I64.mul windowFactor vs.total) vs.vals))) :
    iterInc k vs = incrementOld vs (k : Int) := by
  have hT : vs.total ≠ 0 := by have := h.tpos; omega
  obtain ⟨k', rfl⟩ : ∃ k', k = k' + 1 := ⟨k - 1, by omega⟩
  rw [incrementOld_eq vs ((k' + 1 : Nat) : Int) hne (by omega) hT hpanic]
  unfold iterInc
  rw [increment_one_eq vs hne hT hpanic]
  simp only
  have h2 : (((k' + 1 : Nat) : Int)).toNat = k' + 1 := by omega
  have h1 := path_many _ _ B (k' + 1) _ h rfl k' 1 (by omega) (by omega)
  rw [stepsList_one] at h1
  rw [h2, h1]
  have : 1 + k' = k' + 1 := by omega
  rw [this]

/-- hence, under the same hypothesis, the present rule and the former rule compute the same set:
over a stretch without a rescale the rounds of the code are `stepsList` after one normalisation -/
theorem increment_eq_incrementOld (vs : ValSet) (k : Nat) (B : Int) (hk : 1 ≤ k) (hne : vs.vals ≠ [])
    (hpanic : rescalePanics (I64.mul windowFactor vs.total) vs.vals = false)
    (h : PathCtx vs.total (I64.mul windowFactor vs.total) B k
      (shiftList (rescaleList (I64.mul windowFactor vs.total) vs.vals))) :
    increment vs (k : Int) = incrementOld vs (k : Int) := by
  rw [← iterInc_eq_increment vs k hk]
  exact iterInc_eq_incrementOld vs k B hk hne hpanic h

end KV.ValSet
