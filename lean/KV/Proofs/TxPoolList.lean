import KV.Model.TxPool
/-! Lemmas about the `TxList` model (property C17): sortedness, the cached caps, `put`, `run`. -/
namespace KV.TxPool
namespace TxList

/-- nonce-sorted without duplicates: the list is a nonce-indexed map -/
def Sorted (l : List Tx) : Prop := l.Pairwise (fun a b => a.nonce < b.nonce)

/-- the cached caps dominate every member -/
def Bounded (l : TxList) : Prop := ∀ t ∈ l.txs, t.cost ≤ l.costcap ∧ t.gas ≤ l.gascap

/-- nonces are `s, s+1, s+2, …` -/
def GapFree (s : Nat) (txs : List Tx) : Prop := txs.map (·.nonce) = List.range' s txs.length

theorem mem_put {t x : Tx} {l : List Tx} (h : x ∈ put t l) : x = t ∨ x ∈ l := by
  induction l with
  | nil => simp [put] at h; exact Or.inl h
  | cons y ys ih =>
    simp only [put] at h
    split at h
    · simp at h; rcases h with h | h | h
      · exact Or.inl h
      · exact Or.inr (by simp [h])
      · exact Or.inr (by simp [h])
    · split at h
      · simp at h; rcases h with h | h
        · exact Or.inl h
        · exact Or.inr (by simp [h])
      · simp at h; rcases h with h | h
        · exact Or.inr (by simp [h])
        · rcases ih h with h | h
          · exact Or.inl h
          · exact Or.inr (by simp [h])

theorem mem_put_self (t : Tx) (l : List Tx) : t ∈ put t l := by
  induction l with
  | nil => simp [put]
  | cons y ys ih =>
    simp only [put]
    split
    · simp
    · split
      · simp
      · simp [ih]

theorem put_sorted {t : Tx} {l : List Tx} (h : Sorted l) : Sorted (put t l) := by
  induction l with
  | nil => simp [put, Sorted]
  | cons y ys ih =>
    unfold Sorted at h ih ⊢
    rw [List.pairwise_cons] at h
    simp only [put]
    split
    · rename_i hlt
      rw [List.pairwise_cons]
      refine ⟨?_, List.pairwise_cons.mpr h⟩
      intro z hz
      simp at hz
      rcases hz with hz | hz
      · subst hz; exact hlt
      · have := h.1 z hz; omega
    · split
      · rename_i heq
        rw [List.pairwise_cons]
        refine ⟨?_, h.2⟩
        intro z hz
        have := h.1 z hz; omega
      · rename_i hnlt hne
        rw [List.pairwise_cons]
        refine ⟨?_, ih h.2⟩
        intro z hz
        rcases mem_put hz with hz | hz
        · subst hz; omega
        · exact h.1 z hz

/-- in a sorted list `put` leaves exactly one entry with the new nonce: the new transaction -/
theorem put_unique {t x : Tx} {l : List Tx} (h : Sorted l) (hx : x ∈ put t l)
    (hn : x.nonce = t.nonce) : x = t := by
  induction l with
  | nil => simp [put] at hx; exact hx
  | cons y ys ih =>
    unfold Sorted at h ih
    rw [List.pairwise_cons] at h
    simp only [put] at hx
    split at hx
    · rename_i hlt
      simp at hx
      rcases hx with hx | hx | hx
      · exact hx
      · subst hx; omega
      · have := h.1 x hx; omega
    · split at hx
      · rename_i heq
        simp at hx
        rcases hx with hx | hx
        · exact hx
        · have := h.1 x hx; omega
      · rename_i hnlt hne
        simp at hx
        rcases hx with hx | hx
        · subst hx; omega
        · exact ih h.2 hx

theorem sorted_filter {l : List Tx} (p : Tx → Bool) (h : Sorted l) : Sorted (l.filter p) :=
  List.Pairwise.filter p h

theorem sorted_sublist {l l' : List Tx} (hs : l'.Sublist l) (h : Sorted l) : Sorted l' :=
  List.Pairwise.sublist hs h

theorem run_append (n : Nat) (l : List Tx) : (run n l).1 ++ (run n l).2 = l := by
  induction l generalizing n with
  | nil => simp [run]
  | cons t ts ih =>
    simp only [run]
    split
    · simp [ih]
    · simp

theorem run_nonces (n : Nat) (l : List Tx) :
    (run n l).1.map (·.nonce) = List.range' n (run n l).1.length := by
  induction l generalizing n with
  | nil => simp [run]
  | cons t ts ih =>
    simp only [run]
    split
    · rename_i h
      simp [List.range'_succ, h, ih (n + 1)]
    · simp

/-- the run is maximal: what follows it does not continue it -/
theorem run_maximal (n : Nat) (l : List Tx) (t : Tx) (h : (run n l).2.head? = some t) :
    t.nonce ≠ n + (run n l).1.length := by
  induction l generalizing n with
  | nil => simp [run] at h
  | cons x xs ih =>
    simp only [run] at h ⊢
    split
    · rename_i hx
      rw [if_pos hx] at h
      have := ih (n + 1) h
      simp; omega
    · rename_i hx
      rw [if_neg hx] at h
      simp at h
      subst h
      simpa using hx

theorem lowest_le {l : List Tx} {x : Tx} (h : x ∈ l) : lowest l ≤ x.nonce := by
  induction l with
  | nil => simp at h
  | cons y ys ih =>
    cases ys with
    | nil => simp at h; subst h; simp [lowest]
    | cons z zs =>
      simp only [lowest]
      rcases List.mem_cons.mp h with h | h
      · subst h; exact Nat.min_le_left _ _
      · exact Nat.le_trans (Nat.min_le_right _ _) (ih h)

theorem lowest_mem {l : List Tx} (h : l ≠ []) : ∃ x ∈ l, x.nonce = lowest l := by
  induction l with
  | nil => exact absurd rfl h
  | cons y ys ih =>
    cases ys with
    | nil => exact ⟨y, by simp, by simp [lowest]⟩
    | cons z zs =>
      obtain ⟨x, hx, hxe⟩ := ih (by simp)
      simp only [lowest]
      by_cases hle : y.nonce ≤ lowest (z :: zs)
      · exact ⟨y, by simp, by rw [Nat.min_eq_left hle]⟩
      · refine ⟨x, List.mem_cons_of_mem _ hx, ?_⟩
        rw [Nat.min_eq_right (by omega)]; exact hxe

end TxList
end KV.TxPool
