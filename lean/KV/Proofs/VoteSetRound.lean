import KV.Proofs.VoteSetCommit
/-! Round trip: the commit `MakeCommit` builds from a recorded majority passes `VerifyCommit`. -/
namespace KV.VoteSet
open KV

theorem commitSigs_spec (m : BlockId) (l : Slots) (sigs : List CommitSig) (h : commitSigs m l = some sigs) :
    sigs.length = l.length ∧
    ∀ i cs, sigs[i]? = some cs → commitSigOf m (slot l i) = some cs := by
  induction l generalizing sigs with
  | nil => simp [commitSigs] at h; subst h; simp
  | cons x xs ih =>
    unfold commitSigs at h
    split at h
    · next c cs hc hcs =>
      cases h
      obtain ⟨h1, h2⟩ := ih cs hcs
      refine ⟨by simp [h1], ?_⟩
      intro i c' hi
      cases i with
      | zero => simp at hi; subst hi; simpa [slot_cons_zero] using hc
      | succ i => simp at hi; rw [slot_cons_succ]; exact h2 i c' hi
    · cases h

theorem validateSigs_none (sigs : List CommitSig) (i0 : Nat)
    (h : ∀ cs ∈ sigs, ∀ i, cs.validateBasic i = none) : validateSigs i0 sigs = none := by
  induction sigs generalizing i0 with
  | nil => rfl
  | cons cs rest ih =>
    unfold validateSigs
    rw [h cs (by simp) i0]
    exact ih (i0 + 1) (fun c hc => h c (by simp [hc]))

/-- if every non-absent signature has a known flag and verifies, the loop does not fail -/
theorem verifyLoop_total (sv : SigCheck) (b : BlockId) (c : Commit) (vals : Vals) (sigs : List CommitSig)
    (i0 : Nat) (acc : Int) (hlen : sigs.length ≤ vals.length)
    (hgood : ∀ (i : Nat) (val : Val) (cs : CommitSig), vals[i]? = some val → sigs[i]? = some cs → cs.flag ≠ flagAbsent →
      ∃ vb, cs.blockId c.bid = some vb ∧ sv val.addr ⟨precommitType, c.height, c.round, vb, cs.ts⟩ cs.sig = true) :
    ∃ got, verifyLoop sv b c i0 vals sigs acc = .ok got := by
  induction vals generalizing sigs i0 acc with
  | nil =>
    cases sigs with
    | nil => exact ⟨acc, rfl⟩
    | cons cs rest => simp at hlen
  | cons v vs ih =>
    cases sigs with
    | nil => exact ⟨acc, rfl⟩
    | cons cs rest =>
      simp at hlen
      have hrest : ∀ (i : Nat) (val : Val) (cs' : CommitSig), vs[i]? = some val → rest[i]? = some cs' → cs'.flag ≠ flagAbsent →
          ∃ vb, cs'.blockId c.bid = some vb ∧
            sv val.addr ⟨precommitType, c.height, c.round, vb, cs'.ts⟩ cs'.sig = true :=
        fun i val cs' h1 h2 h3 => hgood (i + 1) val cs' (by rw [List.getElem?_cons_succ]; exact h1)
          (by rw [List.getElem?_cons_succ]; exact h2) h3
      unfold verifyLoop
      split
      · exact ih rest (i0 + 1) acc hlen hrest
      · next hf =>
        obtain ⟨vb, hvb, hsv⟩ := hgood 0 v cs (by simp) (by simp) hf
        simp only [hvb, hsv, Bool.not_true, Bool.false_eq_true, if_false]
        split
        · exact ih rest (i0 + 1) _ hlen hrest
        · exact ih rest (i0 + 1) acc hlen hrest

theorem isComplete_or_isZero_of_commitSigOf (m : BlockId) (v : Vote) (cs : CommitSig)
    (h : commitSigOf m (some v) = some cs) : v.bid.isComplete = true ∨ v.bid.isZero = true := by
  unfold commitSigOf at h
  by_cases h1 : v.bid.isComplete = true
  · exact Or.inl h1
  · by_cases h2 : v.bid.isZero = true
    · exact Or.inr h2
    · simp [h1, h2] at h

theorem not_complete_of_zero (b : BlockId) (h : b.isZero = true) : b.isComplete = false := by
  cases b; simp_all [BlockId.isZero, BlockId.isComplete, BlockId.partsZero]

/-- **round trip** at the level of one state satisfying the invariant -/
theorem roundtrip_of_inv (sv : SigCheck) (hsv0 : ∀ a m, sv a m 0 = false) (s : VoteSet)
    (hg : GoodVals s.vals) (hI : Inv sv s) (c : Commit) (hc : makeCommit s = some c)
    (hnz : c.bid ≠ .zero) : verifyCommit sv s.vals c.bid s.height (some c) = none := by
  unfold makeCommit at hc
  split at hc
  · cases hc
  next htype =>
  have htype' : s.type = precommitType := by
    cases Nat.decEq s.type precommitType with
    | isTrue h => exact h
    | isFalse h => exact absurd h htype
  split at hc
  · cases hc
  next m hm =>
  split at hc
  · cases hc
  next sigs hsigs =>
  cases hc
  simp only at hnz
  obtain ⟨hlen, hspec⟩ := commitSigs_spec m s.votes sigs hsigs
  obtain ⟨bv, hl, hq⟩ := hI.majS m hm
  have hB := hI.blk _ _ hl
  have hT0 := totalPower_nonneg _ hg.nonneg
  have hqpos := quorum_pos _ hT0 hg.cap
  -- description of every signature of the commit
  have hdesc : ∀ i cs, sigs[i]? = some cs →
      cs = .absent ∨ ∃ v val, slot s.votes i = some v ∧ s.vals[i]? = some val ∧ cs.addr = v.addr ∧
        cs.ts = v.ts ∧ cs.sig = v.sig ∧ v.addr = val.addr ∧ v.sig ≠ 0 ∧
        ((cs.flag = flagCommit ∧ v.bid = m) ∨ (cs.flag = flagNil ∧ v.bid = .zero)) ∧
        sv val.addr ⟨precommitType, s.height, s.round, v.bid, v.ts⟩ v.sig = true := by
    intro i cs hi
    have h1 := hspec i cs hi
    cases hs : slot s.votes i with
    | none => rw [hs] at h1; simp [commitSigOf] at h1; exact Or.inl h1.symm
    | some v =>
      rw [hs] at h1
      obtain ⟨_, ⟨val, hval, haddr⟩, hsv, hh, hr, ht⟩ := hI.valid i v hs
      have hsig : v.sig ≠ 0 := by
        intro h0; rw [h0, hsv0] at hsv; cases hsv
      have hsv' : sv val.addr ⟨precommitType, s.height, s.round, v.bid, v.ts⟩ v.sig = true := by
        rw [← haddr, ← htype', ← ht, ← hh, ← hr]; exact hsv
      unfold commitSigOf at h1
      by_cases hcpl : v.bid.isComplete = true
      · simp only [hcpl, if_true] at h1
        by_cases heq : v.bid.equal m = true
        · simp only [heq, Bool.not_true, Bool.false_eq_true, if_false, Option.some.injEq] at h1
          subst h1
          exact Or.inr ⟨v, val, rfl, hval, rfl, rfl, rfl, haddr, hsig,
            Or.inl ⟨rfl, BlockId.equal_iff.mp heq⟩, hsv'⟩
        · simp only [heq, Bool.not_false, if_true, Option.some.injEq] at h1
          exact Or.inl h1.symm
      · by_cases hz : v.bid.isZero = true
        · simp only [hcpl, hz, if_true, Bool.false_eq_true, if_false, Option.some.injEq] at h1
          subst h1
          exact Or.inr ⟨v, val, rfl, hval, rfl, rfl, rfl, haddr, hsig,
            Or.inr ⟨rfl, BlockId.isZero_iff.mp hz⟩, hsv'⟩
        · simp [hcpl, hz] at h1
  -- the validator set is not empty
  have hnpos : 0 < s.vals.length := by
    cases hv : s.vals with
    | nil =>
      have : tally s.vals bv.votes = 0 := by rw [hv]; rfl
      rw [hB.sum, this] at hq; omega
    | cons _ _ => simp
  unfold verifyCommit
  simp only
  -- Commit.ValidateBasic
  have hvb : Commit.validateBasic ⟨m, sigs, s.height, s.round⟩ = none := by
    unfold Commit.validateBasic
    simp only
    split
    · have hz : m.isZero = false := by
        cases h : m.isZero with
        | false => rfl
        | true => exact absurd (BlockId.isZero_iff.mp h) hnz
      simp only [hz, Bool.false_eq_true, if_false]
      have hne : sigs.isEmpty = false := by
        cases sigs with
        | nil => simp at hlen; rw [hI.len] at hlen; omega
        | cons _ _ => rfl
      simp only [hne, Bool.false_eq_true, if_false]
      apply validateSigs_none
      intro cs hcs i
      obtain ⟨j, hj, hjs⟩ := List.getElem_of_mem hcs
      have := hdesc j cs (by simp [hj, hjs])
      rcases this with rfl | ⟨v, val, _, _, _, _, hsg, _, hsig, hfl, _⟩
      · simp [CommitSig.validateBasic, CommitSig.absent, flagAbsent, flagCommit, flagNil]
      · unfold CommitSig.validateBasic
        rcases hfl with ⟨hf, _⟩ | ⟨hf, _⟩ <;> simp [hf, hsg, hsig, flagAbsent, flagCommit, flagNil]
    · rfl
  rw [hvb]
  simp only
  have hlen' : s.vals.length = sigs.length := by rw [hlen, hI.len]
  simp only [hlen', ne_eq, not_true_eq_false, if_false]
  have heqm : m.equal m = true := BlockId.equal_iff.mpr rfl
  simp only [heqm, Bool.not_true, Bool.false_eq_true, if_false]
  -- the loop
  have hgood : ∀ (i : Nat) (val : Val) (cs : CommitSig), s.vals[i]? = some val → sigs[i]? = some cs → cs.flag ≠ flagAbsent →
      ∃ vb, cs.blockId m = some vb ∧ sv val.addr ⟨precommitType, s.height, s.round, vb, cs.ts⟩ cs.sig = true := by
    intro i val cs hval hcs hf
    rcases hdesc i cs hcs with rfl | ⟨v, val', _, hval', _, hts, hsg, _, _, hfl, hsv⟩
    · exact absurd rfl hf
    · rw [hval] at hval'; cases hval'
      rcases hfl with ⟨hf', hb⟩ | ⟨hf', hb⟩
      · refine ⟨m, by simp [CommitSig.blockId, hf', flagAbsent, flagCommit], ?_⟩
        rw [hts, hsg, ← hb]; exact hsv
      · refine ⟨.zero, by simp [CommitSig.blockId, hf', flagAbsent, flagCommit, flagNil], ?_⟩
        rw [hts, hsg, ← hb]; exact hsv
  obtain ⟨got, hgot⟩ := verifyLoop_total sv m ⟨m, sigs, s.height, s.round⟩ s.vals sigs 0 0 (by omega) hgood
  rw [hgot]
  simp only
  have hgot' := verifyLoop_ok sv m ⟨m, sigs, s.height, s.round⟩ s.vals sigs 0 0 got hg.nonneg (by omega)
    (by have := hg.cap; omega) hgot
  -- every vote of the majority entry is counted
  have hmono : psum s.vals (voted bv.votes) ≤
      psum s.vals (counted sv m ⟨m, sigs, s.height, s.round⟩ s.vals sigs) := by
    apply psum_mono _ hg.nonneg
    intro i hi hvi
    obtain ⟨v', hv', hb'⟩ := hI.majP m bv hm hl i hvi
    have hi' : i < sigs.length := by omega
    have hcs : sigs[i]? = some sigs[i] := by simp [hi']
    rcases hdesc i _ hcs with habs | ⟨v, val, hv, hval, _, hts, hsg, _, _, hfl, hsv⟩
    · -- cannot be absent: the primary vote is for `m`, which is complete
      have h1 := hspec i _ hcs
      rw [hv', habs] at h1
      have hcz := isComplete_or_isZero_of_commitSigOf m v' _ h1
      have hcpl : v'.bid.isComplete = true := by
        rcases hcz with h | h
        · exact h
        · exact absurd (hb' ▸ BlockId.isZero_iff.mp h) hnz
      have heq : v'.bid.equal m = true := BlockId.equal_iff.mpr hb'
      simp [commitSigOf, hcpl, heq, CommitSig.absent, flagAbsent, flagCommit] at h1
    · rw [hv'] at hv; cases hv
      have hfc : sigs[i].flag = flagCommit ∧ v'.bid = m := by
        rcases hfl with h | ⟨_, hz⟩
        · exact h
        · exact absurd (hb' ▸ hz) hnz
      unfold counted
      simp only [hval, hcs]
      simp only [CommitSig.blockId, hfc.1, flagAbsent, flagCommit]
      simp only [hts, hsg]
      rw [← hfc.2]
      simpa using ⟨BlockId.equal_iff.mpr rfl, hsv⟩
  have h3 : ¬ got ≤ twoThirds (totalPower s.vals) := by
    have h1 := (quorum_le_iff _ _ hT0 hg.cap).mp hq
    have h2 := gt_twoThirds_iff (totalPower s.vals) got hT0 hg.cap
    rw [hB.sum] at h1
    unfold tally at h1
    omega
  simp [h3]

end KV.VoteSet
