import KV.Model.Merkle
/-! Lemmas about the Merkle tree model: split point bounds, completeness of the generated proofs,
soundness of verification in collision-extraction form. Core only. -/
namespace KV.Merkle

/-- a collision of `H`, as data -/
abbrev Collision (H : Bytes → Bytes) : Prop := ∃ a b : Bytes, a ≠ b ∧ H a = H b

theorem splitPoint_pos_lt (n : Nat) (h : 2 ≤ n) : 0 < splitPoint n ∧ splitPoint n < n := by
  unfold splitPoint
  have hpos : 0 < 2 ^ Nat.log2 n := Nat.two_pow_pos _
  have hle : 2 ^ Nat.log2 n ≤ n := Nat.log2_self_le (by omega)
  simp only
  split
  · constructor <;> omega
  · exact ⟨hpos, by omega⟩

/-- the split point is the largest power of two strictly below `n` -/
theorem splitPoint_spec (n : Nat) (h : 2 ≤ n) :
    ∃ e, splitPoint n = 2 ^ e ∧ 2 ^ e < n ∧ n ≤ 2 ^ (e + 1) := by
  unfold splitPoint
  have hle : 2 ^ Nat.log2 n ≤ n := Nat.log2_self_le (by omega)
  have hlt : n < 2 ^ (Nat.log2 n + 1) := Nat.lt_log2_self
  simp only
  split
  · rename_i heq
    have hpos : 0 < Nat.log2 n := by
      cases hl : Nat.log2 n with
      | zero => rw [hl] at heq; simp at heq; omega
      | succ m => omega
    refine ⟨Nat.log2 n - 1, ?_, ?_, ?_⟩
    · have : Nat.log2 n = (Nat.log2 n - 1) + 1 := by omega
      rw [this, Nat.pow_succ]; simp
    · have : Nat.log2 n = (Nat.log2 n - 1) + 1 := by omega
      have h2 : 2 ^ Nat.log2 n = 2 ^ (Nat.log2 n - 1) * 2 := by rw [this, Nat.pow_succ]; simp
      have : 0 < 2 ^ (Nat.log2 n - 1) := Nat.two_pow_pos _
      omega
    · have : Nat.log2 n - 1 + 1 = Nat.log2 n := by omega
      rw [this]; omega
  · exact ⟨Nat.log2 n, rfl, by omega, by omega⟩

variable (H : Bytes → Bytes)

theorem rootAux_two (fuel : Nat) (a b : Bytes) (rest : List Bytes) :
    rootAux H (fuel + 1) (a :: b :: rest) =
      innerHash H (rootAux H fuel ((a :: b :: rest).take (splitPoint (rest.length + 2))))
                  (rootAux H fuel ((a :: b :: rest).drop (splitPoint (rest.length + 2)))) := by
  simp [rootAux]

theorem auntsAux_two (fuel : Nat) (a b : Bytes) (rest : List Bytes) :
    auntsAux H (fuel + 1) (a :: b :: rest) =
      (auntsAux H fuel ((a :: b :: rest).take (splitPoint (rest.length + 2)))).map
          (· ++ [rootAux H fuel ((a :: b :: rest).drop (splitPoint (rest.length + 2)))]) ++
      (auntsAux H fuel ((a :: b :: rest).drop (splitPoint (rest.length + 2)))).map
          (· ++ [rootAux H fuel ((a :: b :: rest).take (splitPoint (rest.length + 2)))]) := by
  simp [auntsAux]

theorem auntsAux_length : ∀ (fuel : Nat) (items : List Bytes), items.length ≤ fuel →
    (auntsAux H fuel items).length = items.length := by
  intro fuel
  induction fuel with
  | zero => intro items h; cases items <;> simp_all [auntsAux]
  | succ f ih =>
    intro items h
    match items, h with
    | [], _ => simp [auntsAux]
    | [x], _ => simp [auntsAux]
    | a :: b :: rest, h =>
      rw [auntsAux_two]
      have hk := splitPoint_pos_lt (rest.length + 2) (by omega)
      simp only [List.length_cons] at h
      rw [List.length_append, List.length_map, List.length_map, ih _ (by simp; omega),
        ih _ (by simp; omega)]
      simp; omega

/-- the root of a non-empty list is an output of `H` -/
theorem rootAux_isHash : ∀ (fuel : Nat) (items : List Bytes), items ≠ [] → items.length ≤ fuel →
    ∃ z, rootAux H fuel items = H z := by
  intro fuel items hne hle
  match fuel, items, hne, hle with
  | 0, _ :: _, _, hle => simp at hle
  | f + 1, [x], _, _ => exact ⟨0x00 :: x, by simp [rootAux, leafHash]⟩
  | f + 1, a :: b :: rest, _, _ => exact ⟨_, by rw [rootAux_two]; rfl⟩

/-- fuel above the length does not matter -/
theorem rootAux_fuel : ∀ (f1 f2 : Nat) (items : List Bytes), items.length ≤ f1 → items.length ≤ f2 →
    rootAux H f1 items = rootAux H f2 items := by
  intro f1
  induction f1 with
  | zero => intro f2 items h1 _; cases items <;> cases f2 <;> simp_all [rootAux]
  | succ f ih =>
    intro f2 items h1 h2
    match items, f2, h1, h2 with
    | [], 0, _, _ => simp [rootAux]
    | [], g + 1, _, _ => simp [rootAux]
    | [x], g + 1, _, _ => simp [rootAux]
    | a :: b :: rest, g + 1, h1, h2 =>
      rw [rootAux_two, rootAux_two]
      have hk := splitPoint_pos_lt (rest.length + 2) (by omega)
      simp only [List.length_cons] at h1 h2
      rw [ih g _ (by simp; omega) (by simp; omega), ih g (List.drop _ _) (by simp; omega) (by simp; omega)]

theorem root_two (a b : Bytes) (rest : List Bytes) :
    root H (a :: b :: rest) =
      innerHash H (root H ((a :: b :: rest).take (splitPoint (rest.length + 2))))
                  (root H ((a :: b :: rest).drop (splitPoint (rest.length + 2)))) := by
  have hk := splitPoint_pos_lt (rest.length + 2) (by omega)
  unfold root
  simp only [List.length_cons]
  rw [rootAux_two]
  congr 1 <;> apply rootAux_fuel <;> simp <;> omega

/-! ### completeness -/

theorem computeRev_aunts : ∀ (fuel : Nat) (items : List Bytes), items.length ≤ fuel →
    ∀ (i : Nat) (x : Bytes) (as : List Bytes), items[i]? = some x →
      (auntsAux H fuel items)[i]? = some as →
      computeRev H (leafHash H x) as.reverse i items.length = some (rootAux H fuel items) := by
  intro fuel
  induction fuel with
  | zero =>
    intro items h i x as hx _
    cases items with
    | nil => simp at hx
    | cons a t => simp at h
  | succ f ih =>
    intro items h i x as hx has
    match items, h, hx, has with
    | [], _, hx, _ => simp at hx
    | [y], _, hx, has =>
      have hi : i = 0 := by
        cases i with
        | zero => rfl
        | succ j => simp at hx
      subst hi
      simp at hx; subst hx
      simp [auntsAux] at has; subst has
      simp [computeRev, rootAux]
    | a :: b :: rest, h, hx, has =>
      have hk := splitPoint_pos_lt (rest.length + 2) (by omega)
      simp only [List.length_cons] at h
      rw [auntsAux_two] at has
      rw [rootAux_two]
      have hi : i < rest.length + 2 := by
        have := (List.getElem?_eq_some_iff.mp hx).1
        simpa using this
      generalize hL : (a :: b :: rest).take (splitPoint (rest.length + 2)) = L at *
      generalize hR : (a :: b :: rest).drop (splitPoint (rest.length + 2)) = R at *
      have hLlen : L.length = splitPoint (rest.length + 2) := by
        rw [← hL]; simp; omega
      have hRlen : R.length = rest.length + 2 - splitPoint (rest.length + 2) := by
        rw [← hR]; simp
      have hAL : (auntsAux H f L).length = L.length := auntsAux_length H f L (by omega)
      have hAR : (auntsAux H f R).length = R.length := auntsAux_length H f R (by omega)
      by_cases hlt : i < splitPoint (rest.length + 2)
      · rw [List.getElem?_append_left (by simp; omega)] at has
        simp only [List.getElem?_map, Option.map_eq_some_iff] at has
        obtain ⟨as', has', rfl⟩ := has
        have hxL : L[i]? = some x := by
          rw [← hL, List.getElem?_take_of_lt hlt]; exact hx
        have := ih L (by omega) i x as' hxL has'
        simp only [List.reverse_append, List.reverse_cons, List.reverse_nil, List.nil_append,
          List.singleton_append, List.length_cons]
        rw [computeRev]
        simp only [hlt, if_true]
        rw [hLlen] at this
        rw [this]
        have h1 : ¬ (i ≥ rest.length + 1 + 1 ∨ rest.length + 1 + 1 = 0) := by omega
        have h2 : ¬ (rest.length + 1 + 1 = 1) := by omega
        simp
        try omega
      · rw [List.getElem?_append_right (by simp; omega)] at has
        simp only [List.length_map, List.getElem?_map, Option.map_eq_some_iff] at has
        obtain ⟨as', has', rfl⟩ := has
        rw [hAL, hLlen] at has'
        have hxR : R[i - splitPoint (rest.length + 2)]? = some x := by
          rw [← hR, List.getElem?_drop]
          have : splitPoint (rest.length + 2) + (i - splitPoint (rest.length + 2)) = i := by omega
          rw [this]; exact hx
        have := ih R (by omega) _ x as' hxR has'
        simp only [List.reverse_append, List.reverse_cons, List.reverse_nil, List.nil_append,
          List.singleton_append, List.length_cons]
        rw [computeRev]
        simp only [hlt, if_false]
        rw [hRlen] at this
        rw [this]
        have h1 : ¬ (i ≥ rest.length + 1 + 1 ∨ rest.length + 1 + 1 = 0) := by omega
        have h2 : ¬ (rest.length + 1 + 1 = 1) := by omega
        simp
        try omega

/-! ### soundness -/

theorem leaf_inj (x y : Bytes) (h : leafHash H x = leafHash H y) : x = y ∨ Collision H := by
  unfold leafHash at h
  by_cases heq : x = y
  · exact Or.inl heq
  · exact Or.inr ⟨_, _, by simpa using heq, h⟩

/-- leaf/inner domain separation: a leaf hash equal to an inner hash is a collision -/
theorem leaf_inner_ne (x l r : Bytes) (h : leafHash H x = innerHash H l r) : Collision H := by
  unfold leafHash innerHash at h
  exact ⟨_, _, by simp, h⟩

theorem inner_inj (l r l' r' : Bytes) (hl : l.length = l'.length)
    (h : innerHash H l r = innerHash H l' r') : (l = l' ∧ r = r') ∨ Collision H := by
  unfold innerHash at h
  by_cases heq : ((0x01 : UInt8) :: (l ++ r)) = (0x01 :: (l' ++ r'))
  · left
    have : l ++ r = l' ++ r' := by simpa using heq
    exact List.append_inj this hl
  · exact Or.inr ⟨_, _, heq, h⟩

/-- whatever `computeRev` returns has the length of `H`'s outputs (given the leaf hash has) -/
theorem computeRev_length (hs : Nat) (hfix : ∀ x, (H x).length = hs) (lh : Bytes) (hlh : lh.length = hs) :
    ∀ (rev : List Bytes) (i n : Nat) (h : Bytes), computeRev H lh rev i n = some h → h.length = hs := by
  intro rev
  cases rev with
  | nil =>
    intro i n h hc
    simp only [computeRev] at hc
    split at hc
    · simp at hc
    · split at hc
      · simp at hc; subst hc; exact hlh
      · simp at hc
  | cons last init =>
    intro i n h hc
    rw [computeRev] at hc
    split at hc
    · simp at hc
    · split at hc
      · simp at hc
      · simp only at hc
        split at hc
        · split at hc
          · simp at hc
          · simp at hc; subst hc; exact hfix _
        · split at hc
          · simp at hc
          · simp at hc; subst hc; exact hfix _

theorem computeRev_sound (hs : Nat) (hfix : ∀ x, (H x).length = hs) (lh : Bytes) (hlh : lh.length = hs) :
    ∀ (rev : List Bytes) (fuel : Nat) (items : List Bytes) (i : Nat), items.length ≤ fuel →
      computeRev H lh rev i items.length = some (rootAux H fuel items) →
      (∃ x, items[i]? = some x ∧ lh = leafHash H x) ∨ Collision H := by
  intro rev
  induction rev with
  | nil =>
    intro fuel items i hle hc
    simp only [computeRev] at hc
    split at hc
    · simp at hc
    · split at hc
      · rename_i h1 h2
        match items, fuel, h2, hle with
        | [x], f + 1, _, _ =>
          have hi : i = 0 := by simp at h1; omega
          subst hi
          simp [rootAux] at hc
          exact Or.inl ⟨x, by simp, hc⟩
      · simp at hc
  | cons last init ih =>
    intro fuel items i hle hc
    rw [computeRev] at hc
    split at hc
    · simp at hc
    · rename_i h1
      split at hc
      · simp at hc
      · rename_i h2
        match items, fuel, h1, h2, hle, hc with
        | [], _, h1, _, _, _ => simp at h1
        | [x], _, _, h2, _, _ => simp at h2
        | a :: b :: rest, 0, _, _, hle, _ => simp at hle
        | a :: b :: rest, f + 1, h1, h2, hle, hc =>
          have hk := splitPoint_pos_lt (rest.length + 2) (by omega)
          simp only [List.length_cons] at hle hc h1
          have e2 : rest.length + 1 + 1 = rest.length + 2 := rfl
          rw [e2] at hc h1 hle
          rw [rootAux_two] at hc
          generalize hL : (a :: b :: rest).take (splitPoint (rest.length + 2)) = L at *
          generalize hR : (a :: b :: rest).drop (splitPoint (rest.length + 2)) = R at *
          have hLlen : L.length = splitPoint (rest.length + 2) := by
            rw [← hL]; simp; omega
          have hRlen : R.length = rest.length + 2 - splitPoint (rest.length + 2) := by
            rw [← hR]; simp
          have hLne : L ≠ [] := by intro h; rw [h] at hLlen; simp at hLlen; omega
          have hRne : R ≠ [] := by intro h; rw [h] at hRlen; simp at hRlen; omega
          obtain ⟨zl, hzl⟩ := rootAux_isHash H f L hLne (by omega)
          obtain ⟨zr, hzr⟩ := rootAux_isHash H f R hRne (by omega)
          split at hc
          · rename_i hlt
            split at hc
            · simp at hc
            · rename_i l hl
              simp only [Option.some.injEq] at hc
              have hll : l.length = (rootAux H f L).length := by
                rw [computeRev_length H hs hfix lh hlh _ _ _ _ hl, hzl, hfix]
              rcases inner_inj H _ _ _ _ hll hc with ⟨h3, _⟩ | hcol
              · subst h3
                rw [← hLlen] at hl
                rcases ih f L i (by omega) hl with ⟨x, hx, hx2⟩ | hcol
                · left
                  refine ⟨x, ?_, hx2⟩
                  rw [← hL, List.getElem?_take_of_lt (by omega)] at hx
                  exact hx
                · exact Or.inr hcol
              · exact Or.inr hcol
          · rename_i hlt
            split at hc
            · simp at hc
            · rename_i r hr
              simp only [Option.some.injEq] at hc
              have hll : last.length = (rootAux H f L).length → True := fun _ => trivial
              by_cases hlast : last.length = (rootAux H f L).length
              · rcases inner_inj H _ _ _ _ hlast hc with ⟨_, h3⟩ | hcol
                · subst h3
                  have e : rest.length + 2 - splitPoint (rest.length + 2) = R.length := by omega
                  rw [e] at hr
                  rcases ih f R _ (by omega) hr with ⟨x, hx, hx2⟩ | hcol
                  · left
                    refine ⟨x, ?_, hx2⟩
                    rw [← hR, List.getElem?_drop] at hx
                    have : splitPoint (rest.length + 2) + (i - splitPoint (rest.length + 2)) = i := by omega
                    rw [this] at hx
                    exact hx
                  · exact Or.inr hcol
                · exact Or.inr hcol
              · -- different lengths of the left halves: the two pre-images differ
                right
                unfold innerHash at hc
                refine ⟨_, _, ?_, hc⟩
                intro heq
                have h4 : last ++ r = rootAux H f L ++ rootAux H f R := by simpa using heq
                have h5 := congrArg List.length h4
                simp only [List.length_append] at h5
                have hr' : r.length = hs := computeRev_length H hs hfix lh hlh _ _ _ _ hr
                rw [hzl, hzr, hfix, hfix] at h5
                rw [hzl, hfix] at hlast
                omega

/-! ### the root binds the whole list (second-preimage resistance; this is where the 0x00/0x01
domain separation is needed: without it a two-leaf tree and a single leaf `0x01‖l‖r` share a root) -/

theorem rootAux_inj (hs : Nat) (hfix : ∀ x, (H x).length = hs) :
    ∀ (fuel : Nat) (xs ys : List Bytes), xs ≠ [] → ys ≠ [] → xs.length ≤ fuel → ys.length ≤ fuel →
      rootAux H fuel xs = rootAux H fuel ys → xs = ys ∨ Collision H := by
  intro fuel
  induction fuel with
  | zero =>
    intro xs ys hx _ hlx _ _
    cases xs with
    | nil => exact absurd rfl hx
    | cons _ _ => simp at hlx
  | succ f ih =>
    intro xs ys hx hy hlx hly h
    match xs, ys, hx, hy, hlx, hly, h with
    | [x], [y], _, _, _, _, h =>
      simp only [rootAux] at h
      rcases leaf_inj H x y h with h1 | hc
      · left; rw [h1]
      · exact Or.inr hc
    | [x], a :: b :: rest, _, _, _, _, h =>
      rw [rootAux_two] at h
      simp only [rootAux] at h
      exact Or.inr (leaf_inner_ne H _ _ _ h)
    | a :: b :: rest, [y], _, _, _, _, h =>
      rw [rootAux_two] at h
      simp only [rootAux] at h
      exact Or.inr (leaf_inner_ne H _ _ _ h.symm)
    | a :: b :: rest, a' :: b' :: rest', _, _, hlx, hly, h =>
      rw [rootAux_two, rootAux_two] at h
      have hk := splitPoint_pos_lt (rest.length + 2) (by omega)
      have hk' := splitPoint_pos_lt (rest'.length + 2) (by omega)
      simp only [List.length_cons] at hlx hly
      generalize hL : (a :: b :: rest).take (splitPoint (rest.length + 2)) = L at *
      generalize hR : (a :: b :: rest).drop (splitPoint (rest.length + 2)) = R at *
      generalize hL' : (a' :: b' :: rest').take (splitPoint (rest'.length + 2)) = L' at *
      generalize hR' : (a' :: b' :: rest').drop (splitPoint (rest'.length + 2)) = R' at *
      have hLlen : L.length = splitPoint (rest.length + 2) := by rw [← hL]; simp; omega
      have hRlen : R.length = rest.length + 2 - splitPoint (rest.length + 2) := by rw [← hR]; simp
      have hLlen' : L'.length = splitPoint (rest'.length + 2) := by rw [← hL']; simp; omega
      have hRlen' : R'.length = rest'.length + 2 - splitPoint (rest'.length + 2) := by rw [← hR']; simp
      have hLne : L ≠ [] := by intro h; rw [h] at hLlen; simp at hLlen; omega
      have hRne : R ≠ [] := by intro h; rw [h] at hRlen; simp at hRlen; omega
      have hLne' : L' ≠ [] := by intro h; rw [h] at hLlen'; simp at hLlen'; omega
      have hRne' : R' ≠ [] := by intro h; rw [h] at hRlen'; simp at hRlen'; omega
      obtain ⟨zl, hzl⟩ := rootAux_isHash H f L hLne (by omega)
      obtain ⟨zl', hzl'⟩ := rootAux_isHash H f L' hLne' (by omega)
      have hll : (rootAux H f L).length = (rootAux H f L').length := by rw [hzl, hzl', hfix, hfix]
      rcases inner_inj H _ _ _ _ hll h with ⟨h1, h2⟩ | hc
      · rcases ih L L' hLne hLne' (by omega) (by omega) h1 with e1 | hc
        · rcases ih R R' hRne hRne' (by omega) (by omega) h2 with e2 | hc
          · left
            have := List.take_append_drop (splitPoint (rest.length + 2)) (a :: b :: rest)
            have h' := List.take_append_drop (splitPoint (rest'.length + 2)) (a' :: b' :: rest')
            rw [hL, hR] at this
            rw [hL', hR'] at h'
            rw [← this, ← h', e1, e2]
          · exact Or.inr hc
        · exact Or.inr hc
      · exact Or.inr hc

theorem root_inj (hs : Nat) (hfix : ∀ x, (H x).length = hs) (xs ys : List Bytes)
    (hx : xs ≠ []) (hy : ys ≠ []) (h : root H xs = root H ys) : xs = ys ∨ Collision H := by
  unfold root at h
  rw [rootAux_fuel H xs.length (max xs.length ys.length) xs (Nat.le_refl _) (Nat.le_max_left _ _),
    rootAux_fuel H ys.length (max xs.length ys.length) ys (Nat.le_refl _) (Nat.le_max_right _ _)] at h
  exact rootAux_inj H hs hfix _ xs ys hx hy (Nat.le_max_left _ _) (Nat.le_max_right _ _) h

end KV.Merkle
