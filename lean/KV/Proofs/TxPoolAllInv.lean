import KV.Proofs.TxPoolAllOps
/-! The bundle `AL` (index = lists, unique ids, …) through every function of the pool model. -/
namespace KV.TxPool
open TxList
namespace Pool
variable {c : Chain} {Φ : Phi c}

theorem AL.of_del {p p' : Pool} (h : AL Φ p) (hd : Del p p') (hg : Good Φ p') (hn : NDisj p') (hq : QNS p') :
    AL Φ p' := ⟨hg, hn, hd.aliff h.iff, hd.idu h.idu, hq⟩

theorem AL.change_phi {c' : Chain} {Ψ : Phi c'} {p : Pool} (h : AL Φ p) (hg : Good Ψ p) : AL Ψ p :=
  ⟨hg, h.nd, h.iff, h.idu, h.qns⟩

theorem AL.frame {p p' : Pool} (h : AL Φ p) (hc : p'.chain = p.chain) (hp : p'.pending = p.pending)
    (hq : p'.queue = p.queue) (ha : p'.all = p.all) : AL Φ p' :=
  h.of_del (Del.frame ha hp hq) (h.good.frame hc hp hq) ((Dem.frame hp hq).ndisj h.nd) (h.qns.frame hq)

/-- the argument of `removeTx` is the indexed transaction with that id, or its id is unknown -/
def OkArg (p : Pool) (t : Tx) : Prop := Idx p t ∨ p.known t = false

theorem known_iff (p : Pool) (t : Tx) : p.known t = true ↔ ∃ x, Idx p x ∧ x.id = t.id := by
  unfold known Idx
  simp only [List.any_eq_true, List.mem_map, beq_iff_eq]
  constructor
  · rintro ⟨e, he, hid⟩; exact ⟨e.1, ⟨e, he, rfl⟩, hid⟩
  · rintro ⟨x, ⟨e, he, hx⟩, hid⟩; exact ⟨e, he, by rw [hx]; exact hid⟩

theorem OkArg.del {p p' : Pool} {t : Tx} (hd : Del p p') (hu : IdU p) (h : OkArg p t) : OkArg p' t := by
  cases hk : p'.known t with
  | false => exact Or.inr hk
  | true =>
    left
    obtain ⟨x, hx, hid⟩ := (known_iff p' t).mp hk
    have hxp := hd.idx_sub hx
    rcases h with h | h
    · have := hu.eq_of_id hxp h hid
      rw [← this]; exact hx
    · have : p.known t = true := (known_iff p t).mpr ⟨x, hxp, hid⟩
      rw [h] at this; cases this

theorem AL_removeTx {p : Pool} (h : AL Φ p) (hpq : Φ.PQ) {t : Tx} (hok : OkArg p t) : AL Φ (p.removeTx t) :=
  h.of_del (removeTx_del h hok) (good_removeTx h.good hpq t) ((removeTx_dem h.good t).ndisj h.nd)
    (QNS_removeTx h.qns t)

theorem AL_removeL (ts : List Tx) {p : Pool} (h : AL Φ p) (hpq : Φ.PQ) (hok : ∀ t ∈ ts, OkArg p t) :
    AL Φ (ts.foldl removeTx p) ∧ Del p (ts.foldl removeTx p) := by
  induction ts generalizing p with
  | nil => exact ⟨h, Del.refl p⟩
  | cons t rest ih =>
    have hd := removeTx_del h (hok t (by simp))
    have h1 := AL_removeTx h hpq (hok t (by simp))
    obtain ⟨i1, i2⟩ := ih h1 (fun x hx => (hok x (by simp [hx])).del hd h.idu)
    exact ⟨i1, hd.trans i2⟩

theorem OkArg_of_listed {p : Pool} (h : AL Φ p) {t : Tx} (ht : Listed p t) : OkArg p t :=
  Or.inl ((h.iff t).mpr ht)

/-! ### truncation -/

theorem AL_dropLastPending {p : Pool} (h : AL Φ p) (a : Nat) : AL Φ (p.dropLastPending a) :=
  h.of_del (dropLastPending_del h a) (good_dropLastPending h.good a) ((dropLastPending_dem p a).ndisj h.nd)
    (h.qns.frame (by
      unfold dropLastPending
      split
      · rfl
      · exact (dropFold_spec a _ _).2.2))

theorem AL_dropRound {p : Pool} (h : AL Φ p) (cnt : Nat) (accts : List Nat) :
    AL Φ (accts.foldl (fun (q : Pool × Nat) a => (q.1.dropLastPending a, q.2 - 1)) (p, cnt)).1 :=
  foldl_inv (fun q : Pool × Nat => AL Φ q.1) _ accts (p, cnt) h
    (fun s x _ hs => AL_dropLastPending hs x)

theorem AL_equalise (fuel : Nat) {p : Pool} (h : AL Φ p) (cnt : Nat) (prev : List Nat) (th : Nat) :
    AL Φ (equalise fuel p cnt prev th).1 := by
  induction fuel generalizing p cnt with
  | zero => exact h
  | succ f ih =>
    unfold equalise
    split
    · exact ih (AL_dropRound h cnt prev) _
    · exact h

theorem AL_spamLoop (order : List Nat) {p : Pool} (h : AL Φ p) (cnt : Nat) (off : List Nat) :
    AL Φ (spamLoop order p cnt off).1 := by
  induction order generalizing p cnt off with
  | nil => exact h
  | cons next rest ih =>
    unfold spamLoop
    split
    · simp only
      split
      · exact ih (AL_equalise _ h _ _ _) _ _
      · exact ih h _ _
    · exact h

theorem AL_finalLoop (fuel : Nat) {p : Pool} (h : AL Φ p) (cnt : Nat) (off : List Nat) :
    AL Φ (finalLoop fuel p cnt off) := by
  induction fuel generalizing p cnt with
  | zero => exact h
  | succ f ih =>
    unfold finalLoop
    split
    · exact ih (AL_dropRound h cnt off) _
    · exact h

theorem AL_truncatePending {p : Pool} (h : AL Φ p) : AL Φ p.truncatePending := by
  unfold truncatePending
  simp only
  split
  · exact h
  · split
    · exact AL_finalLoop _ (AL_spamLoop _ h _ _) _ _
    · exact AL_spamLoop _ h _ _

theorem AL_truncQueueLoop (order : List Nat) {p : Pool} (h : AL Φ p) (hpq : Φ.PQ) (drop : Nat) :
    AL Φ (truncQueueLoop order p drop) := by
  induction order generalizing p drop with
  | nil => exact h
  | cons a rest ih =>
    unfold truncQueueLoop
    split
    · exact h
    · split
      · exact ih h _
      · rename_i list hlist
        have hmem : ∀ t ∈ list.txs, OkArg p t :=
          fun t ht => OkArg_of_listed h (Listed_of_MQ ⟨list, hlist, ht⟩)
        split
        · exact ih (AL_removeL _ h hpq hmem).1 _
        · exact (AL_removeL _ h hpq (fun t ht => hmem t (List.mem_reverse.mp (List.mem_of_mem_take ht)))).1

theorem AL_truncateQueue {p : Pool} (h : AL Φ p) (hpq : Φ.PQ) : ∀ q ∈ p.truncateQueue, AL Φ q := by
  intro q hq
  unfold truncateQueue at hq
  simp only at hq
  split at hq
  · simp at hq; subst hq; exact h
  · simp only [List.mem_map] at hq
    obtain ⟨order, _, ho⟩ := hq
    subst ho
    exact AL_truncQueueLoop order h hpq _

theorem AL_reorgTail {p3 : Pool} (h : AL Φ p3) (hpq : Φ.PQ) (pn : AMap Nat) :
    ∀ q ∈ ({ p3 with pnonce := pn } : Pool).truncatePending.truncateQueue.map
        (fun (q : Pool) => { q with changes := 0 }), AL Φ q := by
  intro q hq
  simp only [List.mem_map] at hq
  obtain ⟨q0, hq0, he⟩ := hq
  subst he
  have h' : AL Φ ({ p3 with pnonce := pn } : Pool) := h.frame rfl rfl rfl rfl
  exact (AL_truncateQueue (AL_truncatePending h') hpq q0 hq0).frame rfl rfl rfl rfl

/-! ### promotion / demotion -/

theorem QNS_promoteTx {p : Pool} (h : QNS p) (a : Nat) (t : Tx) : QNS (p.promoteTx a t) :=
  h.frame (promoteTx_queue p a t)

theorem capIf_strict' {l : TxList} (P : Prop) [Decidable P] (k : Nat) :
    (if P then l.cap k else (l, [])).1.strict = l.strict := by
  split
  · exact cap_strict l k
  · rfl

theorem QNS_promoteAccount {p : Pool} (h : QNS p) (a : Nat) : QNS (p.promoteAccount a) := by
  unfold promoteAccount
  split
  · exact h
  · rename_i list hlist
    simp only
    refine QNS.finish ?_ a _ ?_
    · refine QNS.frame ?_ (allRemoveL_queue _ _)
      refine foldl_inv QNS _ _ _ ?_ (fun s x _ hs => QNS_promoteTx hs a x)
      exact (h.frame (allRemoveL_queue _ _)).frame (allRemoveL_queue _ _)
    · rw [capIf_strict', ready_strict, filter_strict, forward_strict]
      exact h a list hlist

theorem AL_promoteAccount {p : Pool} (h : AL Φ p) (a : Nat) : AL Φ (p.promoteAccount a) :=
  h.of_del (promoteAccount_del h a) (promoteAccount_spec h.good a).1 ((promoteAccount_pro h.good a).ndisj h.nd)
    (QNS_promoteAccount h.qns a)

theorem AL_promoteExecutables (accts : List Nat) {p : Pool} (h : AL Φ p) : AL Φ (p.promoteExecutables accts) :=
  foldl_inv (AL Φ) promoteAccount accts p h (fun _ x _ hs => AL_promoteAccount hs x)

theorem QNS_demoteAccount {p : Pool} (h : QNS p) (a : Nat) : QNS (p.demoteAccount a) := by
  unfold demoteAccount
  split
  · exact h
  · simp only
    refine QNS.frame ?_ (finishPending_queue _ _ _)
    apply QNS_enqueueL
    apply QNS_enqueueL
    exact (h.frame (allRemoveL_queue _ _)).frame (allRemoveL_queue _ _)

theorem AL_demoteAccount {p : Pool} (h : AL Φ p) (a : Nat) : AL Φ (p.demoteAccount a) :=
  h.of_del (demoteAccount_del h a) (demoteAccount_spec h.good a).1 ((demoteAccount_dem h.good a).ndisj h.nd)
    (QNS_demoteAccount h.qns a)

theorem AL_demoteUnexecutables {p : Pool} (h : AL Φ p) : AL Φ p.demoteUnexecutables :=
  foldl_inv (AL Φ) demoteAccount _ p h (fun _ x _ hs => AL_demoteAccount hs x)

theorem AL_runReorg_none {p : Pool} (h : AL Φ p) (hpq : Φ.PQ) (dirty : List Nat) :
    ∀ q ∈ p.runReorg none dirty, AL Φ q := by
  rw [runReorg_none_eq]
  exact AL_reorgTail (AL_promoteExecutables dirty h) hpq _

theorem AL_reorgAfterReset {c' : Chain} {p1 : Pool} (h1 : AL (weakPhi c') p1) :
    ∀ q ∈ reorgAfterReset p1, AL (strongPhi c') q := by
  rw [reorgAfterReset_eq]
  have h2 : AL (weakPhi c') (afterDemote p1) := AL_demoteUnexecutables (AL_promoteExecutables _ h1)
  exact AL_reorgTail (h2.change_phi (good_afterDemote h1.good)) (strongPhi_PQ c') _

/-! ### price changes, expiry -/

theorem Idx_of_remote {p : Pool} {t : Tx} (h : t ∈ p.remotes) : Idx p t := by
  unfold remotes at h
  unfold Idx
  obtain ⟨e, he, hx⟩ := List.mem_map.mp h
  exact List.mem_map.mpr ⟨e, (List.mem_filter.mp he).1, hx⟩

theorem AL_setGasPrice {p : Pool} (h : AL Φ p) (hpq : Φ.PQ) (price : Nat) : AL Φ (p.setGasPrice price) := by
  unfold setGasPrice
  simp only
  have h0 : AL Φ ({ p with gasPrice := price } : Pool) := h.frame rfl rfl rfl rfl
  split
  · exact (AL_removeL _ h0 hpq (fun t ht => Or.inl (Idx_of_remote (List.mem_filter.mp ht).1))).1
  · exact h0

theorem AL_expire {p : Pool} (h : AL Φ p) (hpq : Φ.PQ) (a : Nat) : AL Φ (p.expire a) := by
  unfold expire
  split
  · exact h
  · split
    · exact h
    · rename_i list hlist
      exact (AL_removeL _ h hpq (fun t ht => OkArg_of_listed h (Listed_of_MQ ⟨list, hlist, ht⟩))).1

/-! ### insertion (`add`) -/

/-- `p'` is `p` with the transactions selected by `d` deleted and `t` inserted -/
def Ins (p p' : Pool) (t : Tx) : Prop :=
  ∃ d : Tx → Bool, p'.all.map (·.1) = (p.all.map (·.1)).filter (fun x => !d x) ++ [t] ∧
    ∀ x, Listed p' x ↔ ((Listed p x ∧ d x = false) ∨ x = t)

theorem Ins.aliff {p p' : Pool} {t : Tx} (h : Ins p p' t) (ha : ALiff p) : ALiff p' := by
  obtain ⟨d, a1, l1⟩ := h
  intro x
  unfold Idx
  rw [a1, l1, List.mem_append, List.mem_filter, ← ha x]
  unfold Idx
  simp

theorem Ins.idu {p p' : Pool} {t : Tx} (h : Ins p p' t) (hu : IdU p) (hk : p.known t = false) : IdU p' := by
  obtain ⟨d, a1, _⟩ := h
  unfold IdU at *
  have e : ∀ q : Pool, q.all.map (fun e => e.1.id) = (q.all.map (·.1)).map (·.id) := by
    intro q; simp [List.map_map]
  rw [e] at hu ⊢
  rw [a1, List.map_append, List.nodup_append]
  refine ⟨List.Nodup.sublist (List.Sublist.map _ List.filter_sublist) hu, by simp, ?_⟩
  intro i hi j hj
  simp only [List.map_cons, List.map_nil, List.mem_singleton] at hj
  subst hj
  intro hij
  obtain ⟨x, hx, hxi⟩ := List.mem_map.mp hi
  have hxp : Idx p x := (List.mem_filter.mp hx).1
  have : p.known t = true := (known_iff p t).mpr ⟨x, hxp, by rw [hxi, hij]⟩
  rw [hk] at this; cases this

theorem Ins.post {p p' p'' : Pool} {t : Tx} (h : Ins p p' t) (ha : p''.all.map (·.1) = p'.all.map (·.1))
    (hp : p''.pending = p'.pending) (hq : p''.queue = p'.queue) : Ins p p'' t := by
  obtain ⟨d, a1, l1⟩ := h
  exact ⟨d, by rw [ha, a1], fun x => by rw [Listed_congr hp hq, l1]⟩

theorem mem_put_sorted {t x : Tx} {l : List Tx} (hs : Sorted l) :
    x ∈ put t l ↔ x = t ∨ (x ∈ l ∧ x.nonce ≠ t.nonce) := by
  constructor
  · intro hx
    by_cases hn : x.nonce = t.nonce
    · exact Or.inl (put_unique hs hx hn)
    · rcases mem_put hx with h | h
      · exact Or.inl h
      · exact Or.inr ⟨h, hn⟩
  · rintro (h | ⟨h, hn⟩)
    · rw [h]; exact mem_put_self t l
    · exact mem_put_old h hn

theorem add_inserted_spec {l : TxList} {t : Tx} {bump : Nat} (h : (l.add t bump).2.1 = true) :
    (l.add t bump).1.txs = put t l.txs ∧ (l.add t bump).2.2 = l.get? t.nonce := by
  unfold TxList.add at h ⊢
  cases hg : l.get? t.nonce with
  | none => simp
  | some o =>
    simp only [hg] at h ⊢
    by_cases hc : canReplace o t bump = true
    · simp [hc]
    · simp [hc] at h

theorem allAdd_all_map (p : Pool) (t : Tx) (loc : Bool) :
    (p.allAdd t loc).all.map (·.1) = p.all.map (·.1) ++ [t] := by
  simp [allAdd]

/-- replacing the pending transaction `o` of the sender by `t` -/
theorem ins_listed_P {p p' : Pool} (h : AL Φ p) {t o : Tx} (ho : MP p t.sender o) (hon : o.nonce = t.nonce)
    (hP : ∀ b x, MP p' b x ↔ (b = t.sender ∧ (x = t ∨ (MP p t.sender x ∧ x.nonce ≠ t.nonce))) ∨
      (b ≠ t.sender ∧ MP p b x))
    (hQ : ∀ b x, MQ p' b x ↔ MQ p b x) :
    ∀ x, Listed p' x ↔ ((Listed p x ∧ (x.id == o.id) = false) ∨ x = t) := by
  have hol : Listed p o := Listed_of_MP ho
  have hne : ∀ x, Listed p x → x ≠ o → (x.id == o.id) = false := by
    intro x hx hxo
    rw [Bool.eq_false_iff]
    intro hid
    exact hxo (h.listed_id hx hol (by simpa using hid))
  have hinj : ∀ x, MP p t.sender x → x.nonce = t.nonce → x = o := by
    intro x hx hn
    obtain ⟨l, hl, hm⟩ := ho
    obtain ⟨l', hl', hm'⟩ := hx
    rw [hl] at hl'; cases hl'
    exact sorted_nonce_inj (h.good.pend _ l hl).1.1 hm' hm (by rw [hn, hon])
  intro x
  rw [Listed_iff, Listed_iff]
  constructor
  · rintro ⟨b, hb | hb⟩
    · rcases (hP b x).mp hb with ⟨_, hx | ⟨hx, hn⟩⟩ | ⟨hbn, hx⟩
      · exact Or.inr hx
      · exact Or.inl ⟨⟨t.sender, Or.inl hx⟩, hne x (Listed_of_MP hx) (fun hxo => hn (by rw [hxo, hon]))⟩
      · refine Or.inl ⟨⟨b, Or.inl hx⟩, hne x (Listed_of_MP hx) (fun hxo => ?_)⟩
        rw [hxo] at hx
        exact hbn ((h.MP_sender hx).symm.trans (h.MP_sender ho))
    · have hx := (hQ b x).mp hb
      refine Or.inl ⟨⟨b, Or.inr hx⟩, hne x (Listed_of_MQ hx) (fun hxo => ?_)⟩
      rw [hxo] at hx
      exact h.not_MP_MQ ho hx
  · rintro (⟨⟨b, hb⟩, hid⟩ | hx)
    · rcases hb with hb | hb
      · by_cases hbt : b = t.sender
        · rw [hbt] at hb
          refine ⟨t.sender, Or.inl ((hP _ x).mpr (Or.inl ⟨rfl, Or.inr ⟨hb, fun hn => ?_⟩⟩))⟩
          have := hinj x hb hn
          rw [this] at hid
          simp at hid
        · exact ⟨b, Or.inl ((hP b x).mpr (Or.inr ⟨hbt, hb⟩))⟩
      · exact ⟨b, Or.inr ((hQ b x).mpr hb)⟩
    · exact ⟨t.sender, Or.inl ((hP _ x).mpr (Or.inl ⟨rfl, Or.inl hx⟩))⟩

/-- replacing the queued transaction `o` of the sender by `t` -/
theorem ins_listed_Q {p p' : Pool} (h : AL Φ p) {t o : Tx} (ho : MQ p t.sender o) (hon : o.nonce = t.nonce)
    (hQ : ∀ b x, MQ p' b x ↔ (b = t.sender ∧ (x = t ∨ (MQ p t.sender x ∧ x.nonce ≠ t.nonce))) ∨
      (b ≠ t.sender ∧ MQ p b x))
    (hP : ∀ b x, MP p' b x ↔ MP p b x) :
    ∀ x, Listed p' x ↔ ((Listed p x ∧ (x.id == o.id) = false) ∨ x = t) := by
  have hol : Listed p o := Listed_of_MQ ho
  have hne : ∀ x, Listed p x → x ≠ o → (x.id == o.id) = false := by
    intro x hx hxo
    rw [Bool.eq_false_iff]
    intro hid
    exact hxo (h.listed_id hx hol (by simpa using hid))
  have hinj : ∀ x, MQ p t.sender x → x.nonce = t.nonce → x = o := by
    intro x hx hn
    obtain ⟨l, hl, hm⟩ := ho
    obtain ⟨l', hl', hm'⟩ := hx
    rw [hl] at hl'; cases hl'
    exact sorted_nonce_inj (h.good.que _ l hl).1.1 hm' hm (by rw [hn, hon])
  intro x
  rw [Listed_iff, Listed_iff]
  constructor
  · rintro ⟨b, hb | hb⟩
    · have hx := (hP b x).mp hb
      refine Or.inl ⟨⟨b, Or.inl hx⟩, hne x (Listed_of_MP hx) (fun hxo => ?_)⟩
      rw [hxo] at hx
      exact h.not_MP_MQ hx ho
    · rcases (hQ b x).mp hb with ⟨_, hx | ⟨hx, hn⟩⟩ | ⟨hbn, hx⟩
      · exact Or.inr hx
      · exact Or.inl ⟨⟨t.sender, Or.inr hx⟩, hne x (Listed_of_MQ hx) (fun hxo => hn (by rw [hxo, hon]))⟩
      · refine Or.inl ⟨⟨b, Or.inr hx⟩, hne x (Listed_of_MQ hx) (fun hxo => ?_)⟩
        rw [hxo] at hx
        exact hbn ((h.MQ_sender hx).symm.trans (h.MQ_sender ho))
  · rintro (⟨⟨b, hb⟩, hid⟩ | hx)
    · rcases hb with hb | hb
      · exact ⟨b, Or.inl ((hP b x).mpr hb)⟩
      · by_cases hbt : b = t.sender
        · rw [hbt] at hb
          refine ⟨t.sender, Or.inr ((hQ _ x).mpr (Or.inl ⟨rfl, Or.inr ⟨hb, fun hn => ?_⟩⟩))⟩
          have := hinj x hb hn
          rw [this] at hid
          simp at hid
        · exact ⟨b, Or.inr ((hQ b x).mpr (Or.inr ⟨hbt, hb⟩))⟩
    · exact ⟨t.sender, Or.inr ((hQ _ x).mpr (Or.inl ⟨rfl, Or.inl hx⟩))⟩

theorem map_flags_fst (all : List (Tx × Bool)) (f : Tx → Bool) :
    (all.map (fun e => if f e.1 then (e.1, true) else e)).map (·.1) = all.map (·.1) := by
  induction all with
  | nil => rfl
  | cons e es ih =>
    simp only [List.map_cons, ih]
    split <;> rfl

/-- `p` with the queued list of `a` replaced -/
def setQ (p : Pool) (a : Nat) (l : TxList) : Pool := { p with queue := amSet p.queue a l }
/-- `p` with the pending list of `a` replaced -/
def setP (p : Pool) (a : Nat) (l : TxList) : Pool := { p with pending := amSet p.pending a l }

theorem enqueueTx_eq_ins (p : Pool) (t : Tx) (loc : Bool)
    (hins : (((amGet p.queue t.sender).getD (TxList.new false)).add t p.cfg.priceBump).2.1 = true) :
    (p.enqueueTx t loc true).1 =
      (match (((amGet p.queue t.sender).getD (TxList.new false)).add t p.cfg.priceBump).2.2 with
        | some o => (p.setQ t.sender (((amGet p.queue t.sender).getD (TxList.new false)).add t p.cfg.priceBump).1).allRemove o
        | none => p.setQ t.sender (((amGet p.queue t.sender).getD (TxList.new false)).add t p.cfg.priceBump).1).allAdd t loc := by
  cases h2 : (((amGet p.queue t.sender).getD (TxList.new false)).add t p.cfg.priceBump).2.2 <;>
    simp [enqueueTx, setQ, hins, h2]

/-- inserting an eligible transaction by `enqueueTx` -/
theorem enqueueTx_ins {p : Pool} (h : AL Φ p) {t : Tx} (loc : Bool)
    (hins : (((amGet p.queue t.sender).getD (TxList.new false)).add t p.cfg.priceBump).2.1 = true) :
    Ins p (p.enqueueTx t loc true).1 t := by
  rw [enqueueTx_eq_ins p t loc hins]
  obtain ⟨s1, s2⟩ := add_inserted_spec hins
  have hsorted : Sorted ((amGet p.queue t.sender).getD (TxList.new false)).txs := by
    cases hq : amGet p.queue t.sender with
    | none => simp [TxList.new, Sorted]
    | some ql => exact (h.good.que _ ql hq).1.1
  have hmem : ∀ y, y ∈ ((amGet p.queue t.sender).getD (TxList.new false)).txs ↔ MQ p t.sender y := by
    intro y
    cases hq : amGet p.queue t.sender with
    | none =>
      simp only [Option.getD_none, TxList.new, List.not_mem_nil, false_iff]
      rintro ⟨l, hl, _⟩; rw [hq] at hl; cases hl
    | some ql => simp only [Option.getD_some]; exact (MQ_of_get hq y).symm
  generalize (amGet p.queue t.sender).getD (TxList.new false) = ql at *
  have hQset : ∀ b y, MQ (p.setQ t.sender (ql.add t p.cfg.priceBump).1) b y ↔
      (b = t.sender ∧ (y = t ∨ (MQ p t.sender y ∧ y.nonce ≠ t.nonce))) ∨ (b ≠ t.sender ∧ MQ p b y) := by
    intro b y
    unfold setQ
    rw [MQ_set, s1, mem_put_sorted hsorted, hmem]
  have hPset : ∀ b y, MP (p.setQ t.sender (ql.add t p.cfg.priceBump).1) b y ↔ MP p b y :=
    fun b y => MP_congr rfl b y
  cases hg : ql.get? t.nonce with
  | none =>
    rw [hg] at s2
    simp only [s2]
    refine ⟨fun _ => false, by rw [allAdd_all_map]; simp [filter_true', setQ], ?_⟩
    intro x
    rw [Listed_congr (p := p.setQ t.sender (ql.add t p.cfg.priceBump).1)
      (p' := (p.setQ t.sender (ql.add t p.cfg.priceBump).1).allAdd t loc) rfl rfl, Listed_iff, Listed_iff]
    have hfresh := get?_none_nonce hg
    constructor
    · rintro ⟨b, hb | hb⟩
      · exact Or.inl ⟨⟨b, Or.inl ((hPset b x).mp hb)⟩, rfl⟩
      · rcases (hQset b x).mp hb with ⟨_, h1 | ⟨h1, _⟩⟩ | ⟨_, h1⟩
        · exact Or.inr h1
        · exact Or.inl ⟨⟨t.sender, Or.inr h1⟩, rfl⟩
        · exact Or.inl ⟨⟨b, Or.inr h1⟩, rfl⟩
    · rintro (⟨⟨b, hb | hb⟩, _⟩ | hx)
      · exact ⟨b, Or.inl ((hPset b x).mpr hb)⟩
      · by_cases hbt : b = t.sender
        · rw [hbt] at hb
          refine ⟨t.sender, Or.inr ((hQset _ x).mpr (Or.inl ⟨rfl, Or.inr ⟨hb, ?_⟩⟩))⟩
          exact hfresh x ((hmem x).mpr hb)
        · exact ⟨b, Or.inr ((hQset b x).mpr (Or.inr ⟨hbt, hb⟩))⟩
      · exact ⟨t.sender, Or.inr ((hQset _ x).mpr (Or.inl ⟨rfl, Or.inl hx⟩))⟩
  | some o =>
    rw [hg] at s2
    simp only [s2]
    obtain ⟨ho1, ho2⟩ := get?_some_mem hg
    refine ⟨fun x => x.id == o.id, ?_, ?_⟩
    · rw [allAdd_all_map, allRemove_all_map]; rfl
    · intro x
      rw [Listed_congr (p := p.setQ t.sender (ql.add t p.cfg.priceBump).1)
        (p' := ((p.setQ t.sender (ql.add t p.cfg.priceBump).1).allRemove o).allAdd t loc) rfl rfl]
      exact ins_listed_Q h ((hmem o).mp ho1) ho2 hQset hPset x

/-- inserting an eligible transaction by `addTail` -/
theorem addTail_ins {p : Pool} (h : AL Φ p) {t : Tx} (he : Elig p.cfg.priceBump p t) (isLocal loc : Bool) :
    Ins p (p.addTail t isLocal loc).1 t := by
  have hque : (((amGet p.queue t.sender).getD (TxList.new false)).add t p.cfg.priceBump).2.1 = true := by
    apply add_inserted_of
    intro o ho
    obtain ⟨h1, h2⟩ := get?_some_mem ho
    cases hq : amGet p.queue t.sender with
    | none => rw [hq] at h1; simp [TxList.new] at h1
    | some ql =>
      rw [hq] at h1
      exact he o (Listed_of_queue hq h1) (Φ.qsnd _ _ ((h.good.que _ ql hq).2 o h1)) h2
  have hq2 : (p.enqueueTx t isLocal true).2.1 = true := by rw [enqueueTx_inserted]; exact hque
  have henq := enqueueTx_ins h isLocal hque
  -- the enqueue branch, including the "mark the sender local" step
  have hB : Ins p (if loc = true ∧ (!(p.enqueueTx t isLocal true).1.isLocalAcc t.sender) = true then
      ({ (p.enqueueTx t isLocal true).1 with
          locals := t.sender :: (p.enqueueTx t isLocal true).1.locals,
          all := (p.enqueueTx t isLocal true).1.all.map (fun e => if (t.sender :: (p.enqueueTx t isLocal true).1.locals).contains e.1.sender then (e.1, true) else e) } : Pool)
      else (p.enqueueTx t isLocal true).1) t := by
    split
    · exact henq.post (map_flags_fst _ (fun x => (t.sender :: (p.enqueueTx t isLocal true).1.locals).contains x.sender)) rfl rfl
    · exact henq
  cases hgp : amGet p.pending t.sender with
  | none =>
    simp only [addTail, hgp, Bool.false_eq_true, if_false, hq2, Bool.not_true]
    exact hB
  | some pl =>
    cases hgt : pl.get? t.nonce with
    | none =>
      simp only [addTail, hgp, hgt, Option.isSome_none, Bool.false_eq_true, if_false, hq2, Bool.not_true]
      exact hB
    | some o =>
      obtain ⟨ho1, ho2⟩ := get?_some_mem hgt
      have hins : (pl.add t p.cfg.priceBump).2.1 = true := by
        apply add_inserted_of
        intro o' ho'
        rw [hgt] at ho'; cases ho'
        exact he o (Listed_of_pending hgp ho1) (Φ.psnd _ _ ((h.good.pend _ pl hgp).2 o ho1)) ho2
      obtain ⟨s1, s2⟩ := add_inserted_spec hins
      rw [hgt] at s2
      simp only [addTail, hgp, hgt, Option.getD_some, Option.isSome_some, if_true, hins, Bool.not_true,
        Bool.false_eq_true, if_false, s2]
      have hsorted := (h.good.pend _ pl hgp).1.1
      have hPset : ∀ b y, MP (p.setP t.sender (pl.add t p.cfg.priceBump).1) b y ↔
          (b = t.sender ∧ (y = t ∨ (MP p t.sender y ∧ y.nonce ≠ t.nonce))) ∨ (b ≠ t.sender ∧ MP p b y) := by
        intro b y
        unfold setP
        rw [MP_set, s1, mem_put_sorted hsorted, MP_of_get hgp]
      refine ⟨fun x => x.id == o.id, ?_, ?_⟩
      · rw [allAdd_all_map, allRemove_all_map]
      · intro x
        rw [Listed_congr (p := p.setP t.sender (pl.add t p.cfg.priceBump).1)
          (p' := (({ p with pending := amSet p.pending t.sender (pl.add t p.cfg.priceBump).1 } : Pool).allRemove o).allAdd t isLocal) rfl rfl]
        exact ins_listed_P h ((MP_of_get hgp o).mpr ho1) ho2 hPset (fun b y => MQ_congr rfl b y) x

theorem QNS_addTail {p : Pool} (h : QNS p) (t : Tx) (isLocal loc : Bool) : QNS (p.addTail t isLocal loc).1 := by
  have h2 := QNS_enqueueTx h t isLocal true
  unfold addTail
  simp only
  repeat' split
  all_goals first
    | exact h
    | exact h2
    | exact h2.frame rfl
    | exact h.frame rfl

theorem AL_addTail {p : Pool} (h : AL Φ p) {t : Tx} (he : Elig p.cfg.priceBump p t) (hk : p.known t = false)
    (hp : Φ.φp t.sender t) (hq : Φ.φq t.sender t) (isLocal loc : Bool) : AL Φ (p.addTail t isLocal loc).1 :=
  have hi := addTail_ins h he isLocal loc
  ⟨good_addTail h.good t isLocal loc hp hq, (addTail_dem p t isLocal loc).ndisj h.nd, hi.aliff h.iff,
    hi.idu h.idu hk, QNS_addTail h.qns t isLocal loc⟩

theorem known_del_false {p p' : Pool} {t : Tx} (hd : Del p p') (hk : p.known t = false) : p'.known t = false := by
  cases hk' : p'.known t with
  | false => rfl
  | true =>
    obtain ⟨x, hx, hid⟩ := (known_iff p' t).mp hk'
    have : p.known t = true := (known_iff p t).mpr ⟨x, hd.idx_sub hx, hid⟩
    rw [hk] at this; cases this

theorem discardAux_sub (fuel : Nat) (rem : List Tx) (slots : Int) (acc : List Tx) :
    ∀ r ∈ discardAux fuel rem slots acc, ∀ x ∈ r.1, x ∈ acc ∨ x ∈ rem := by
  induction fuel generalizing rem slots acc with
  | zero => intro r hr x hx; simp [discardAux] at hr; subst hr; exact Or.inl hx
  | succ f ih =>
    intro r hr x hx
    simp only [discardAux] at hr
    split at hr
    · simp at hr; subst hr; exact Or.inl hx
    · simp only [List.mem_flatMap] at hr
      obtain ⟨m, hm, hr⟩ := hr
      rcases ih _ _ _ r hr x hx with h | h
      · rcases List.mem_append.mp h with h | h
        · exact Or.inl h
        · simp at h; subst h; exact Or.inr (List.mem_filter.mp hm).1
      · exact Or.inr (List.mem_filter.mp h).1

theorem dedupBy_sub {α} (key : α → List Nat) (l : List α) : ∀ x ∈ dedupBy key l, x ∈ l := by
  unfold dedupBy
  have : ∀ (acc : List α), (∀ x ∈ acc, x ∈ l) →
      ∀ (l' : List α), (∀ x ∈ l', x ∈ l) →
      ∀ x ∈ l'.foldl (fun acc x => if acc.any (fun y => key y == key x) then acc else acc ++ [x]) acc, x ∈ l := by
    intro acc hacc l'
    induction l' generalizing acc with
    | nil => intro _ x hx; exact hacc x hx
    | cons y ys ih =>
      intro hl' x hx
      simp only [List.foldl_cons] at hx
      refine ih _ ?_ (fun z hz => hl' z (by simp [hz])) x hx
      intro z hz
      split at hz
      · exact hacc z hz
      · rcases List.mem_append.mp hz with hz | hz
        · exact hacc z hz
        · simp at hz; subst hz; exact hl' z (by simp)
  exact this [] (by simp) l (fun x hx => hx)

theorem discards_sub (p : Pool) (slots : Int) (force : Bool) (drop : List Tx)
    (h : some drop ∈ p.discards slots force) : ∀ x ∈ drop, x ∈ p.remotes := by
  unfold discards at h
  simp only [List.mem_map] at h
  obtain ⟨r, hr, he⟩ := h
  have hr' := dedupBy_sub _ _ r hr
  split at he
  · cases he
  · cases he
    intro x hx
    rcases discardAux_sub _ _ _ _ r hr' x hx with h | h
    · simp at h
    · exact h

theorem AL_addRoom {p : Pool} (h : AL Φ p) (hpq : Φ.PQ) {t : Tx} (he : Elig p.cfg.priceBump p t)
    (hk : p.known t = false) (hp : Φ.φp t.sender t) (hq : Φ.φq t.sender t) (isLocal loc : Bool) :
    ∀ r ∈ p.addRoom t isLocal loc, AL Φ r.1 := by
  intro r hr
  unfold addRoom at hr
  simp only at hr
  split at hr
  · split at hr
    · simp at hr; subst hr; exact h
    · split at hr
      · simp at hr; subst hr; exact h
      · simp only [List.mem_map] at hr
        obtain ⟨d, hd, hdr⟩ := hr
        cases d with
        | none => simp at hdr; subst hdr; exact h
        | some drop =>
          simp only at hdr
          subst hdr
          have h0 : AL Φ ({ p with changes := p.changes + drop.length } : Pool) := h.frame rfl rfl rfl rfl
          -- the discarded transactions are indexed remotes
          have hdrop : ∀ x ∈ drop, OkArg ({ p with changes := p.changes + drop.length } : Pool) x := by
            intro x hx
            left
            have : x ∈ p.remotes := discards_sub p _ _ drop hd x hx
            exact Idx_of_remote this
          obtain ⟨h1, hdel⟩ := AL_removeL drop h0 hpq hdrop
          have e0 : Elig p.cfg.priceBump ({ p with changes := p.changes + drop.length } : Pool) t :=
            fun o ho => he o ((Listed_congr (p := p) rfl rfl o).mp ho)
          have hcfg : (drop.foldl removeTx ({ p with changes := p.changes + drop.length } : Pool)).cfg = p.cfg :=
            removeL_cfg drop _
          have e1 : Elig (drop.foldl removeTx ({ p with changes := p.changes + drop.length } : Pool)).cfg.priceBump
              (drop.foldl removeTx ({ p with changes := p.changes + drop.length } : Pool)) t := by
            rw [hcfg]; exact Elig_removeL e0 drop
          exact AL_addTail h1 e1 (known_del_false hdel (by exact hk)) hp hq isLocal loc
  · simp at hr; subst hr; exact AL_addTail h he hk hp hq isLocal loc

theorem AL_add {p : Pool} (h : AL Φ p) (hpq : Φ.PQ) (t : Tx) (loc : Bool) :
    ∀ r ∈ p.add t loc, AL Φ r.1 := by
  intro r hr
  unfold add at hr
  split at hr
  · simp at hr; subst hr; exact h
  · rename_i hkn
    have hk : p.known t = false := by simpa using hkn
    simp only at hr
    split at hr
    · simp at hr; subst hr; exact h
    · rename_i hv
      obtain ⟨v1, v2, v3⟩ := validate_none hv
      have hc := h.good.chain
      have hq : Φ.φq t.sender t := Φ.val t (by rw [← hc]; exact v1)
      have hp : Φ.φp t.sender t := Φ.qp _ _ hq (by rw [← hc]; exact v1) (by rw [← hc]; exact v2) (by rw [← hc]; exact v3)
      split at hr
      · simp at hr; subst hr; exact h
      · rename_i hrej
        have hrej' : p.rejectEarly t = false := by simpa using hrej
        exact AL_addRoom h hpq (elig_of_not_rejectEarly h.good h.nd hrej') hk hp hq _ loc r hr

theorem AL_addBatch (txs : List Tx) {p : Pool} (h : AL Φ p) (hpq : Φ.PQ) (loc : Bool) :
    ∀ r ∈ p.addBatch loc txs, AL Φ r.1 := by
  induction txs generalizing p with
  | nil => intro r hr; simp [addBatch] at hr; subst hr; exact h
  | cons t ts ih =>
    intro r hr
    simp only [addBatch, List.mem_flatMap, List.mem_map] at hr
    obtain ⟨r1, hr1, s, hs, he⟩ := hr
    subst he
    exact ih (AL_add h hpq t loc r1 hr1) s hs

theorem AL_addTxs {p : Pool} (h : AL Φ p) (hpq : Φ.PQ) (txs : List Tx) (loc : Bool) :
    ∀ r ∈ p.addTxs txs loc, AL Φ r.1 := by
  intro r hr
  unfold addTxs at hr
  simp only at hr
  split at hr
  · simp at hr; subst hr; exact h
  · simp only [List.mem_flatMap, List.mem_map] at hr
    obtain ⟨r1, hr1, q, hq, he⟩ := hr
    subst he
    exact AL_runReorg_none (AL_addBatch _ h hpq loc r1 hr1) hpq _ q hq

theorem AL_resetHead {p : Pool} (h : AL (strongPhi c) p) (c' : Chain) : AL (weakPhi c') (p.resetHead c') :=
  ⟨good_resetHead h.good c', (Dem.frame (p := p) rfl rfl).ndisj h.nd,
   (Del.frame (p := p) (p' := p.resetHead c') rfl rfl rfl).aliff h.iff,
   (Del.frame (p := p) (p' := p.resetHead c') rfl rfl rfl).idu h.idu, h.qns.frame rfl⟩

theorem AL_resetReinject {p : Pool} (h : AL (strongPhi c) p) (c' : Chain) (reinject : List Tx) :
    ∀ q ∈ p.resetReinject c' reinject, AL (strongPhi c') q := by
  intro q hq
  simp only [resetReinject, List.mem_flatMap] at hq
  obtain ⟨r, hr, hq⟩ := hq
  exact AL_reorgAfterReset (AL_addBatch reinject (AL_resetHead h c') (weakPhi_PQ c') false r hr) q hq

theorem AL_init (cfg : Cfg) (c : Chain) :
    AL (strongPhi c) { cfg := cfg, chain := c, gasPrice := cfg.priceLimit } := by
  refine ⟨⟨rfl, by simp [KeysSorted], by simp [KeysSorted], by intro a l h; simp [amGet] at h,
    by intro a l h; simp [amGet] at h⟩, ?_, ?_, by simp [IdU], by intro a l h; simp [amGet] at h⟩
  · intro a n ⟨l, hl, _⟩ _; simp [amGet] at hl
  · intro x
    unfold Idx Listed
    simp [amGet]

end Pool
end KV.TxPool
