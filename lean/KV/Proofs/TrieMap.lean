import KV.Proofs.TrieEnc
/-! Map refinement of the trie model (property C07, part 2): key well-formedness, the structural
invariant `WF`, and the specifications of `insert` and `delete` against `get`. -/
namespace KV.Trie
open KV

/-! ## valid keys: proper nibbles followed by exactly one terminator -/

/-- `k = p ++ [16]` with `p` proper nibbles, in recursive form.  This is what `keybytesToHex`
produces, and what remains of such a key after a proper prefix has been consumed. -/
def VKey : Key → Prop
  | [] => False
  | x :: k => if k = [] then x = 16 else x < 16 ∧ VKey k

theorem vkey_ne_nil {k : Key} (h : VKey k) : k ≠ [] := by
  intro e; subst e; exact h

theorem vkey_single (x : Nat) : VKey [x] ↔ x = 16 := by simp [VKey]

theorem vkey_cons {x : Nat} {k : Key} (hk : k ≠ []) : VKey (x :: k) ↔ x < 16 ∧ VKey k := by
  simp [VKey, hk]

theorem vkey_head_le {x : Nat} {k : Key} (h : VKey (x :: k)) : x ≤ 16 := by
  unfold VKey at h; split at h <;> omega

theorem vkey_16 {k : Key} (h : VKey (16 :: k)) : k = [] := by
  unfold VKey at h; split at h
  · assumption
  · omega

theorem vkey_lt_tail {x : Nat} {k : Key} (h : VKey (x :: k)) (hx : x < 16) : VKey k := by
  unfold VKey at h; split at h
  · omega
  · exact h.2

theorem vkey_append : ∀ (c r : Key), VKey (c ++ r) → r ≠ [] → Nibbles c ∧ VKey r := by
  intro c
  induction c with
  | nil => intro r h _; exact ⟨fun _ hx => (by cases hx), h⟩
  | cons x c ih =>
    intro r h hr
    have hne : c ++ r ≠ [] := by simp [hr]
    rw [List.cons_append, vkey_cons hne] at h
    have := ih r h.2 hr
    refine ⟨?_, this.2⟩
    intro y hy
    rcases List.mem_cons.1 hy with e | e
    · subst e; exact h.1
    · exact this.1 y e

theorem vkey_prefix_free : ∀ (c r : Key), VKey (c ++ r) → VKey c → r = [] := by
  intro c
  induction c with
  | nil => intro r _ h; exact absurd h (by simp [VKey])
  | cons x c ih =>
    intro r h hc
    by_cases hcn : c = []
    · subst hcn
      rw [vkey_single] at hc; subst hc
      exact vkey_16 h
    · rw [vkey_cons hcn] at hc
      have hne : c ++ r ≠ [] := by simp [hcn]
      rw [List.cons_append, vkey_cons hne] at h
      exact ih r h.2 hc.2

theorem vkey_mem16 : ∀ k : Key, VKey k → 16 ∈ k := by
  intro k
  induction k with
  | nil => intro h; exact absurd h (by simp [VKey])
  | cons x k ih =>
    intro h
    by_cases hk : k = []
    · subst hk; rw [vkey_single] at h; simp [h]
    · rw [vkey_cons hk] at h; simp [ih h.2]

theorem nibbles_not16 {p : Key} (hp : Nibbles p) : 16 ∉ p := fun h => by
  have := hp 16 h; omega

theorem nibbles_append {a b : Key} (h : Nibbles (a ++ b)) : Nibbles a ∧ Nibbles b :=
  ⟨fun x hx => h x (by simp [hx]), fun x hx => h x (by simp [hx])⟩

theorem vkey_of_nibbles_concat : ∀ p : Key, Nibbles p → VKey (p ++ [16]) := by
  intro p
  induction p with
  | nil => intro _; simp [VKey]
  | cons x p ih =>
    intro hp
    have hne : p ++ [16] ≠ [] := by simp
    rw [List.cons_append, vkey_cons hne]
    exact ⟨hp x (by simp), ih (fun y hy => hp y (by simp [hy]))⟩

theorem keybytesToHex_vkey (bs : Bytes) : VKey (keybytesToHex bs) := by
  rw [keybytesToHex_eq]; exact vkey_of_nibbles_concat _ (nibs_nibbles bs)

/-! ## list lemmas -/

theorem isPrefixOf_append_left (c s r : Key) :
    (c ++ s).isPrefixOf (c ++ r) = s.isPrefixOf r := by
  induction c with
  | nil => rfl
  | cons x c ih => simp [ih]

theorem isPrefixOf_self_append (c r : Key) : c.isPrefixOf (c ++ r) = true := by
  have := isPrefixOf_append_left c [] r
  simpa using this

theorem isPrefixOf_split {c k : Key} (h : c.isPrefixOf k = true) : ∃ r, k = c ++ r := by
  rw [List.isPrefixOf_iff_prefix] at h
  rcases h with ⟨r, hr⟩
  exact ⟨r, hr.symm⟩

theorem drop_len_append (c r : Key) : (c ++ r).drop c.length = r := by
  induction c with
  | nil => rfl
  | cons x c ih => simpa using ih

theorem take_len_append (c r : Key) : (c ++ r).take c.length = c := by
  induction c with
  | nil => simp
  | cons x c ih => simpa using ih

/-- decomposition of two keys at their common prefix -/
theorem prefixLen_split : ∀ (k sk : Key), ∃ c k2 s2, k = c ++ k2 ∧ sk = c ++ s2 ∧
    prefixLen k sk = c.length ∧
    (k2 = [] ∨ s2 = [] ∨ ∃ a b k3 s3, k2 = b :: k3 ∧ s2 = a :: s3 ∧ a ≠ b) := by
  intro k
  induction k with
  | nil => intro sk; exact ⟨[], [], sk, rfl, rfl, by simp [prefixLen], Or.inl rfl⟩
  | cons x k ih =>
    intro sk
    cases sk with
    | nil => exact ⟨[], x :: k, [], rfl, rfl, by simp [prefixLen], Or.inr (Or.inl rfl)⟩
    | cons y sk =>
      by_cases hxy : x = y
      · subst hxy
        rcases ih sk with ⟨c, k2, s2, h1, h2, h3, h4⟩
        refine ⟨x :: c, k2, s2, by simp [h1], by simp [h2], by simp [prefixLen, h3], h4⟩
      · refine ⟨[], x :: k, y :: sk, rfl, rfl, by simp [prefixLen, hxy], ?_⟩
        exact Or.inr (Or.inr ⟨y, x, k, sk, rfl, rfl, fun e => hxy e.symm⟩)

/-! ## the structural invariant -/

/-- Well-formedness of a subtrie that is reached with a *non-empty* valid key suffix still to be
consumed: value nodes sit exactly at the end of terminated paths, no unresolved hash nodes.
(This is the weak invariant needed for the map refinement; the shape invariant used for
canonicity — no nested short nodes, at least two children per full node — is `Canon` in
`KV/Props/C07.lean`.) -/
def WF : Node → Prop
  | .nil => True
  | .value _ => False
  | .hash _ => False
  | .short sk c => (VKey sk ∧ ∃ v, c = .value v) ∨ (Nibbles sk ∧ WF c)
  | .full cs => (∀ i, i < 16 → WF (cs i)) ∧ (cs 16 = .nil ∨ ∃ v, cs 16 = .value v)

theorem get_mkLeaf (s : Key) (n : Node) (k : Key) :
    get (mkLeaf s n) k = if s.isPrefixOf k then get n (k.drop s.length) else some none := by
  unfold mkLeaf
  by_cases hs : s = []
  · subst hs; simp
  · simp [hs, get]

theorem get_full_cons (cs : Nat → Node) (x : Nat) (k : Key) (hx : x ≤ 16) :
    get (.full cs) (x :: k) = get (cs x) k := by
  have : ¬ x > 16 := by omega
  simp [get, this]

/-- `get` never panics on a well-formed trie and a valid key -/
theorem get_ok : ∀ n, WF n → ∀ k, VKey k → ∃ r, get n k = some r := by
  intro n
  induction n with
  | nil => intro _ k _; exact ⟨none, by simp [get]⟩
  | value v => intro h; exact absurd h (by simp [WF])
  | hash h => intro h; exact absurd h (by simp [WF])
  | short sk c ih =>
    intro hwf k hk
    simp only [get]
    by_cases hp : sk.isPrefixOf k = true
    · simp only [hp, if_true]
      rcases isPrefixOf_split hp with ⟨r, rfl⟩
      rw [drop_len_append]
      rcases hwf with ⟨_, v, rfl⟩ | ⟨_, hc⟩
      · exact ⟨some v, by simp [get]⟩
      · by_cases hr : r = []
        · subst hr
          rename_i hn
          rw [List.append_nil] at hk
          exact absurd (vkey_mem16 _ hk) (nibbles_not16 hn)
        · exact ih hc r (vkey_append sk r hk hr).2
    · simp only [hp]; exact ⟨none, by simp⟩
  | full cs ih =>
    intro hwf k hk
    cases k with
    | nil => exact absurd hk (by simp [VKey])
    | cons x k =>
      have hx := vkey_head_le hk
      rw [get_full_cons cs x k hx]
      by_cases h16 : x = 16
      · subst h16
        rcases hwf.2 with e | ⟨v, e⟩ <;> rw [e] <;> simp [get]
      · have hx' : x < 16 := by omega
        exact ih x (hwf.1 x hx') k (vkey_lt_tail hk hx')

/-! ## `insert` -/

theorem prefixLen_nil_right (k : Key) : prefixLen k [] = 0 := by
  cases k <;> simp [prefixLen]

theorem prefixLen_append_left (p k2 s2 : Key) :
    prefixLen (p ++ k2) (p ++ s2) = p.length + prefixLen k2 s2 := by
  induction p with
  | nil => simp
  | cons x p ih => simp [prefixLen, ih]; omega

theorem getElem?_len_append (p : Key) (b : Nat) (k3 : Key) :
    (p ++ b :: k3)[p.length]? = some b := by
  induction p with
  | nil => rfl
  | cons x p ih => simpa using ih

theorem getD_len_append (p : Key) (a : Nat) (s3 : Key) :
    (p ++ a :: s3).getD p.length 0 = a := by
  induction p with
  | nil => rfl
  | cons x p ih => simpa using ih

theorem drop_len_succ_append (p : Key) (a : Nat) (s3 : Key) :
    (p ++ a :: s3).drop (p.length + 1) = s3 := by
  induction p with
  | nil => rfl
  | cons x p ih => simpa using ih

/-- the short-node case of `insert` when the node key is a prefix of the key -/
theorem insert_short_match (p k2 : Key) (c : Node) (v : Bytes) (hne : p ++ k2 ≠ []) :
    insert (.short p c) (p ++ k2) v =
      match insert c k2 v with
      | none => none
      | some (false, _) => some (false, .short p c)
      | some (true, c') => some (true, .short p c') := by
  have hm : prefixLen (p ++ k2) p = p.length := by
    have := prefixLen_append_left p k2 []
    simp only [List.append_nil, prefixLen_nil_right] at this
    omega
  rw [insert]
  simp only [hne, if_false, hm, if_true, drop_len_append]
  rfl

/-- the short-node case of `insert` when the keys diverge: a branch is created -/
theorem insert_short_branch (p : Key) (a b : Nat) (s3 k3 : Key) (c : Node) (v : Bytes)
    (hab : a ≠ b) (ha : a ≤ 16) (hb : b ≤ 16) :
    insert (.short (p ++ a :: s3) c) (p ++ b :: k3) v =
      some (true, mkLeaf p (.full (setC (setC emptyCs a (mkLeaf s3 c)) b
        (mkLeaf k3 (.value v))))) := by
  have hm : prefixLen (p ++ b :: k3) (p ++ a :: s3) = p.length := by
    rw [prefixLen_append_left]
    have : ¬ b = a := fun e => hab e.symm
    simp [prefixLen, this]
  have hne : p ++ b :: k3 ≠ [] := by simp
  have hlen : ¬ p.length = (p ++ a :: s3).length := by simp
  have hab' : ¬ (a > 16 ∨ b > 16) := by omega
  rw [insert]
  simp only [hne, if_false, hm, hlen, getElem?_len_append, getD_len_append, hab',
    drop_len_succ_append, take_len_append]
  unfold mkLeaf
  by_cases hp : p = []
  · subst hp; simp
  · have : ¬ p.length = 0 := by
      intro e; exact hp (List.eq_nil_of_length_eq_zero e)
    simp [hp, this]

theorem get_branch (a b : Nat) (A B : Node) (y : Nat) (r : Key) (hy : y ≤ 16) :
    get (.full (setC (setC emptyCs a A) b B)) (y :: r) =
      if y = b then get B r else if y = a then get A r else some none := by
  rw [get_full_cons _ _ _ hy]
  unfold setC emptyCs
  by_cases h1 : y = b
  · simp [h1]
  · by_cases h2 : y = a
    · subst h2; simp [h1]
    · simp [h1, h2, get]

/-- specification of `insert`: it does not panic, preserves the invariant, reports `dirty = false`
only when nothing changed, and the new trie maps `k` to `v` and every other key as before -/
def InsSpec (n : Node) (k : Key) (v : Bytes) : Prop :=
  ∃ d n', insert n k v = some (d, n') ∧ (d = false → n' = n) ∧ WF n' ∧
    ∀ k', VKey k' → get n' k' = if k' = k then some (some v) else get n k'

theorem wf_mkLeaf_value {s : Key} {w : Bytes} (hs : s ≠ []) (h : VKey s) :
    WF (mkLeaf s (.value w)) := by
  unfold mkLeaf; simp only [hs, if_false]; exact Or.inl ⟨h, w, rfl⟩

theorem wf_mkLeaf_inner {s : Key} {c : Node} (hs : Nibbles s) (h : WF c) : WF (mkLeaf s c) := by
  unfold mkLeaf
  by_cases e : s = []
  · simp [e, h]
  · simp only [e, if_false]; exact Or.inr ⟨hs, h⟩

theorem isPrefixOf_refl (k : Key) : k.isPrefixOf k = true := by
  have := isPrefixOf_self_append k []
  simpa using this

/-- a valid key that has the valid key `k` as a prefix is `k` -/
theorem vkey_isPrefixOf_eq {k k' : Key} (hk : VKey k) (hk' : VKey k')
    (hp : k.isPrefixOf k' = true) : k' = k := by
  rcases isPrefixOf_split hp with ⟨r, rfl⟩
  have := vkey_prefix_free k r hk' hk
  subst this; simp

theorem get_leaf (k : Key) (v : Bytes) (hk : VKey k) (k' : Key) (hk' : VKey k') :
    get (.short k (.value v)) k' = if k' = k then some (some v) else some none := by
  simp only [get]
  by_cases hp : k.isPrefixOf k' = true
  · have := vkey_isPrefixOf_eq hk hk' hp
    subst this; simp [hp]
  · have : k' ≠ k := by
      intro e; subst e; exact hp (isPrefixOf_refl _)
    simp [hp, this]

theorem insert_spec : ∀ n, WF n → ∀ k, VKey k → ∀ v, InsSpec n k v := by
  intro n
  induction n with
  | nil =>
    intro _ k hk v
    have hne := vkey_ne_nil hk
    refine ⟨true, .short k (.value v), by simp [insert, hne], by simp, Or.inl ⟨hk, v, rfl⟩, ?_⟩
    intro k' hk'
    rw [get_leaf k v hk k' hk']
    simp [get]
  | value w => intro h; exact absurd h (by simp [WF])
  | hash h => intro h; exact absurd h (by simp [WF])
  | short sk c ih =>
    intro hwf k hk v
    have hne := vkey_ne_nil hk
    rcases prefixLen_split k sk with ⟨p, k2, s2, hk_eq, hsk_eq, _, hcase⟩
    subst hk_eq hsk_eq
    by_cases hs2 : s2 = []
    · -- the node key is a prefix of the key
      subst hs2
      simp only [List.append_nil] at hwf ih ⊢
      rw [InsSpec, insert_short_match p k2 c v hne]
      rcases hwf with ⟨hvp, w, rfl⟩ | ⟨hnp, hwc⟩
      · -- leaf: the key is exactly the node key
        have hk2 := vkey_prefix_free p k2 hk hvp
        subst hk2
        simp only [List.append_nil] at hk ⊢
        by_cases hwv : w = v
        · subst hwv
          refine ⟨false, .short p (.value w), by simp [insert], by simp, Or.inl ⟨hvp, w, rfl⟩, ?_⟩
          intro k' hk'
          rw [get_leaf p w hvp k' hk']
          by_cases e : k' = p <;> simp [e]
        · refine ⟨true, .short p (.value v), by simp [insert, hwv], by simp,
            Or.inl ⟨hvp, v, rfl⟩, ?_⟩
          intro k' hk'
          rw [get_leaf p v hvp k' hk', get_leaf p w hvp k' hk']
          by_cases e : k' = p <;> simp [e]
      · -- extension: recurse
        have hk2ne : k2 ≠ [] := by
          intro e; subst e
          rw [List.append_nil] at hk
          exact nibbles_not16 hnp (vkey_mem16 _ hk)
        have hvk2 := (vkey_append p k2 hk hk2ne).2
        rcases ih hwc k2 hvk2 v with ⟨d, c', hi, hd, hwf', hget⟩
        have key : ∀ (c'' : Node) (k' : Key), VKey k' →
            (∀ r, VKey r → get c'' r = if r = k2 then some (some v) else get c r) →
            get (.short p c'') k' = if k' = p ++ k2 then some (some v) else get (.short p c) k' := by
          intro c'' k' hk' hg
          simp only [get]
          by_cases hp : p.isPrefixOf k' = true
          · rcases isPrefixOf_split hp with ⟨r, rfl⟩
            have hrne : r ≠ [] := by
              intro e; subst e
              rw [List.append_nil] at hk'
              exact nibbles_not16 hnp (vkey_mem16 _ hk')
            have hvr := (vkey_append p r hk' hrne).2
            simp only [hp, if_true, drop_len_append, hg r hvr, List.append_cancel_left_eq]
          · have : k' ≠ p ++ k2 := by
              intro e; subst e; exact hp (isPrefixOf_self_append _ _)
            simp [hp, this]
        cases d with
        | false =>
          have hcc := hd rfl
          subst hcc
          refine ⟨false, .short p c', by rw [hi], by simp, Or.inr ⟨hnp, hwc⟩, ?_⟩
          intro k' hk'
          exact key c' k' hk' hget
        | true =>
          refine ⟨true, .short p c', by rw [hi], by simp, Or.inr ⟨hnp, hwf'⟩, ?_⟩
          intro k' hk'
          exact key c' k' hk' hget
    · rcases hcase with hk2 | hs2' | ⟨a, b, k3, s3, hk2, hs2e, hab⟩
      · -- the key would be a proper prefix of the node key: impossible
        subst hk2
        rw [List.append_nil] at hk
        exfalso
        rcases hwf with ⟨hv, _⟩ | ⟨hn, _⟩
        · exact hs2 (vkey_prefix_free p s2 hv hk)
        · exact nibbles_not16 (nibbles_append hn).1 (vkey_mem16 _ hk)
      · exact absurd hs2' hs2
      · -- the keys diverge: branch
        subst hk2 hs2e
        have hvb := (vkey_append p (b :: k3) hk (by simp)).2
        have hpn := (vkey_append p (b :: k3) hk (by simp)).1
        have hb := vkey_head_le hvb
        have ha : a ≤ 16 := by
          rcases hwf with ⟨hv, _⟩ | ⟨hn, _⟩
          · exact vkey_head_le (vkey_append p (a :: s3) hv (by simp)).2
          · have := (nibbles_append hn).2 a (by simp); omega
        rw [InsSpec, insert_short_branch p a b s3 k3 c v hab ha hb]
        -- well-formedness of the two new children
        have hwfA : a < 16 → WF (mkLeaf s3 c) := by
          intro ha'
          rcases hwf with ⟨hv, w, rfl⟩ | ⟨hn, hc⟩
          · have h1 := (vkey_append p (a :: s3) hv (by simp)).2
            have h2 := vkey_lt_tail h1 ha'
            exact wf_mkLeaf_value (vkey_ne_nil h2) h2
          · exact wf_mkLeaf_inner (fun x hx => (nibbles_append hn).2 x (by simp [hx])) hc
        have hA16 : a = 16 → ∃ w, mkLeaf s3 c = .value w := by
          intro ha'
          subst ha'
          rcases hwf with ⟨hv, w, rfl⟩ | ⟨hn, _⟩
          · have h1 := (vkey_append p (16 :: s3) hv (by simp)).2
            have := vkey_16 h1
            subst this
            exact ⟨w, by simp [mkLeaf]⟩
          · have := (nibbles_append hn).2 16 (by simp); omega
        have hwfB : b < 16 → WF (mkLeaf k3 (.value v)) := by
          intro hb'
          have h2 := vkey_lt_tail hvb hb'
          exact wf_mkLeaf_value (vkey_ne_nil h2) h2
        have hB16 : b = 16 → mkLeaf k3 (.value v) = .value v := by
          intro hb'; subst hb'
          have := vkey_16 hvb
          subst this; simp [mkLeaf]
        refine ⟨true, _, rfl, by simp, ?_, ?_⟩
        · apply wf_mkLeaf_inner hpn
          refine ⟨?_, ?_⟩
          · intro i hi
            unfold setC emptyCs
            by_cases h1 : i = b
            · subst h1; simp only [if_true]; exact hwfB hi
            · by_cases h2 : i = a
              · subst h2; simp only [h1, if_false, if_true]; exact hwfA hi
              · simp [h1, h2, WF]
          · unfold setC emptyCs
            by_cases h1 : 16 = b
            · subst h1; simp only [if_true]; exact Or.inr ⟨v, hB16 rfl⟩
            · by_cases h2 : 16 = a
              · subst h2; simp only [h1, if_false, if_true]; exact Or.inr (hA16 rfl)
              · simp [h1, h2]
        · intro k' hk'
          rw [get_mkLeaf]
          simp only [get]
          by_cases hp : p.isPrefixOf k' = true
          · rcases isPrefixOf_split hp with ⟨r, rfl⟩
            have hrne : r ≠ [] := by
              intro e; subst e
              rw [List.append_nil] at hk'
              exact nibbles_not16 hpn (vkey_mem16 _ hk')
            have hvr := (vkey_append p r hk' hrne).2
            cases r with
            | nil => exact absurd rfl hrne
            | cons y r =>
              have hy := vkey_head_le hvr
              simp only [hp, if_true, drop_len_append, get_branch _ _ _ _ _ _ hy,
                isPrefixOf_append_left, List.append_cancel_left_eq, List.cons.injEq,
                List.isPrefixOf_cons_cons, beq_iff_eq, Bool.and_eq_true]
              by_cases h1 : y = b
              · subst h1
                have hay : ¬ a = y := hab
                simp only [if_true, true_and, hay, false_and, if_false, get_mkLeaf]
                -- k3 vs r: both complete y :: _ to a valid key
                by_cases hq : k3.isPrefixOf r = true
                · have : r = k3 := by
                    rcases isPrefixOf_split hq with ⟨t, rfl⟩
                    have h3 : VKey ((y :: k3) ++ t) := by simpa using hvr
                    have := vkey_prefix_free (y :: k3) t h3 hvb
                    subst this; simp
                  subst this
                  simp [hq, get]
                · have : r ≠ k3 := by
                    intro e; subst e; exact hq (isPrefixOf_refl _)
                  simp [hq, this]
              · by_cases h2 : y = a
                · subst h2
                  simp only [h1, if_false, false_and, if_true, true_and, get_mkLeaf]
                  by_cases hq : s3.isPrefixOf r = true
                  · simp only [hq, if_true]
                    rcases isPrefixOf_split hq with ⟨t, rfl⟩
                    congr 1
                    rw [drop_len_append]
                    have : (p ++ y :: (s3 ++ t)) = (p ++ y :: s3) ++ t := by simp
                    rw [this, drop_len_append]
                  · simp [hq]
                · have h2' : ¬ a = y := fun e => h2 e.symm
                  simp [h1, h2, h2']
          · have h1 : k' ≠ p ++ b :: k3 := by
              intro e; subst e; exact hp (isPrefixOf_self_append _ _)
            have h2 : (p ++ a :: s3).isPrefixOf k' = false := by
              cases h : (p ++ a :: s3).isPrefixOf k' with
              | false => rfl
              | true =>
                rcases isPrefixOf_split h with ⟨t, rfl⟩
                exfalso; apply hp
                have : p ++ a :: s3 ++ t = p ++ (a :: s3 ++ t) := by simp
                rw [this]; exact isPrefixOf_self_append _ _
            simp [hp, h1, h2]
  | full cs ih =>
    intro hwf k hk v
    cases k with
    | nil => exact absurd hk (by simp [VKey])
    | cons x k2 =>
      have hx := vkey_head_le hk
      have hxg : ¬ x > 16 := by omega
      -- reading the new full node
      have key : ∀ (c' : Node) (k' : Key), VKey k' →
          (∀ r, VKey (x :: r) → get c' r = if r = k2 then some (some v) else get (cs x) r) →
          get (.full (setC cs x c')) k' =
            if k' = x :: k2 then some (some v) else get (.full cs) k' := by
        intro c' k' hk' hg
        cases k' with
        | nil => exact absurd hk' (by simp [VKey])
        | cons y r =>
          have hy := vkey_head_le hk'
          rw [get_full_cons _ _ _ hy, get_full_cons _ _ _ hy]
          unfold setC
          by_cases hyx : y = x
          · subst hyx; simp only [if_true, hg r hk', List.cons.injEq, true_and]
          · simp [hyx]
      by_cases h16 : x = 16
      · subst h16
        have := vkey_16 hk
        subst this
        have hwfset : ∀ w, WF (.full (setC cs 16 (.value w))) := by
          intro w
          refine ⟨?_, Or.inr ⟨w, by simp [setC]⟩⟩
          intro i hi
          have : ¬ i = 16 := by omega
          simp only [setC, this, if_false]; exact hwf.1 i hi
        have hg16 : ∀ (old : Node), cs 16 = old → (old = .nil ∨ ∃ w, old = .value w) →
            ∀ r, VKey (16 :: r) →
            get (Node.value v) r = if r = [] then some (some v) else get (cs 16) r := by
          intro old _ _ r hr
          have := vkey_16 hr
          subst this; simp [get]
        rcases hwf.2 with e | ⟨w, e⟩
        · refine ⟨true, .full (setC cs 16 (.value v)), by simp [insert, e], by simp, hwfset v, ?_⟩
          intro k' hk'
          exact key (.value v) k' hk' (hg16 _ e (Or.inl rfl))
        · by_cases hwv : w = v
          · subst hwv
            refine ⟨false, .full cs, by simp [insert, e], by simp, hwf, ?_⟩
            intro k' hk'
            by_cases hkk : k' = [16]
            · subst hkk; simp [get, e]
            · simp [hkk]
          · refine ⟨true, .full (setC cs 16 (.value v)), by simp [insert, e, hwv], by simp,
              hwfset v, ?_⟩
            intro k' hk'
            exact key (.value v) k' hk' (hg16 _ e (Or.inr ⟨w, rfl⟩))
      · have hx' : x < 16 := by omega
        have hvk2 := vkey_lt_tail hk hx'
        rcases ih x (hwf.1 x hx') k2 hvk2 v with ⟨d, c', hi, hd, hwf', hget⟩
        have hget' : ∀ r, VKey (x :: r) →
            get c' r = if r = k2 then some (some v) else get (cs x) r :=
          fun r hr => hget r (vkey_lt_tail hr hx')
        cases d with
        | false =>
          have hcc := hd rfl
          subst hcc
          refine ⟨false, .full cs, by simp [insert, hxg, hi], by simp, hwf, ?_⟩
          intro k' hk'
          have := key (cs x) k' hk' hget'
          have hset : setC cs x (cs x) = cs := by
            funext j; unfold setC; by_cases h : j = x <;> simp [h]
          rwa [hset] at this
        | true =>
          refine ⟨true, .full (setC cs x c'), by simp [insert, hxg, hi], by simp, ?_, ?_⟩
          · refine ⟨?_, ?_⟩
            · intro i hi'
              unfold setC
              by_cases h : i = x
              · subst h; simpa using hwf'
              · simp only [h, if_false]; exact hwf.1 i hi'
            · have : ¬ 16 = x := by omega
              simp only [setC, this, if_false]; exact hwf.2
          · intro k' hk'
            exact key c' k' hk' hget'

/-! ## `delete` -/

theorem vkey_nibbles_append : ∀ (p s : Key), Nibbles p → VKey s → VKey (p ++ s) := by
  intro p
  induction p with
  | nil => intro s _ h; exact h
  | cons x p ih =>
    intro s hp hs
    have hne : p ++ s ≠ [] := by simp [vkey_ne_nil hs]
    rw [List.cons_append, vkey_cons hne]
    exact ⟨hp x (by simp), ih s (fun y hy => hp y (by simp [hy])) hs⟩

theorem nibbles_append_intro {a b : Key} (ha : Nibbles a) (hb : Nibbles b) : Nibbles (a ++ b) := by
  intro x hx
  rcases List.mem_append.1 hx with h | h
  · exact ha x h
  · exact hb x h

theorem isPrefixOf_append_false {p k : Key} (ck : Key) (h : p.isPrefixOf k = false) :
    (p ++ ck).isPrefixOf k = false := by
  cases h' : (p ++ ck).isPrefixOf k with
  | false => rfl
  | true =>
    rcases isPrefixOf_split h' with ⟨t, rfl⟩
    have : p ++ ck ++ t = p ++ (ck ++ t) := by simp
    rw [this, isPrefixOf_self_append] at h
    cases h

/-- merging nested short nodes does not change what is read -/
theorem get_short_merge (p ck : Key) (cv : Node) (k' : Key) :
    get (.short (p ++ ck) cv) k' = get (.short p (.short ck cv)) k' := by
  simp only [get]
  cases hp : p.isPrefixOf k' with
  | false => simp [isPrefixOf_append_false ck hp]
  | true =>
    rcases isPrefixOf_split hp with ⟨r, rfl⟩
    simp only [isPrefixOf_append_left, if_true, drop_len_append]
    by_cases hq : ck.isPrefixOf r = true
    · rcases isPrefixOf_split hq with ⟨t, rfl⟩
      simp only [hq, if_true, drop_len_append]
      have : p ++ (ck ++ t) = (p ++ ck) ++ t := by simp
      rw [this, drop_len_append]
    · simp [hq]

theorem wf_short_merge {p ck : Key} {cv : Node} (hp : Nibbles p) (h : WF (.short ck cv)) :
    WF (.short (p ++ ck) cv) := by
  rcases h with ⟨hv, hval⟩ | ⟨hn, hc⟩
  · exact Or.inl ⟨vkey_nibbles_append p ck hp hv, hval⟩
  · exact Or.inr ⟨nibbles_append_intro hp hn, hc⟩

/-- reading below a short node whose child has been replaced -/
theorem get_short_congr (p k2 : Key) (c c'' : Node) (res : Option (Option Bytes))
    (hnp : Nibbles p) (k' : Key) (hk' : VKey k')
    (hg : ∀ r, VKey r → get c'' r = if r = k2 then res else get c r) :
    get (.short p c'') k' = if k' = p ++ k2 then res else get (.short p c) k' := by
  simp only [get]
  by_cases hp : p.isPrefixOf k' = true
  · rcases isPrefixOf_split hp with ⟨r, rfl⟩
    have hrne : r ≠ [] := by
      intro e; subst e
      rw [List.append_nil] at hk'
      exact nibbles_not16 hnp (vkey_mem16 _ hk')
    have hvr := (vkey_append p r hk' hrne).2
    simp only [hp, if_true, drop_len_append, hg r hvr, List.append_cancel_left_eq]
  · have : k' ≠ p ++ k2 := by
      intro e; subst e; exact hp (isPrefixOf_self_append _ _)
    simp [hp, this]

/-- reading a full node one of whose children has been replaced -/
theorem get_full_congr (cs : Nat → Node) (x : Nat) (k2 : Key) (c' : Node)
    (res : Option (Option Bytes)) (k' : Key) (hk' : VKey k')
    (hg : ∀ r, VKey (x :: r) → get c' r = if r = k2 then res else get (cs x) r) :
    get (.full (setC cs x c')) k' = if k' = x :: k2 then res else get (.full cs) k' := by
  cases k' with
  | nil => exact absurd hk' (by simp [VKey])
  | cons y r =>
    have hy := vkey_head_le hk'
    rw [get_full_cons _ _ _ hy, get_full_cons _ _ _ hy]
    unfold setC
    by_cases hyx : y = x
    · subst hyx; simp only [if_true, hg r hk', List.cons.injEq, true_and]
    · simp [hyx]

theorem isNil_eq {n : Node} (h : n.isNil = true) : n = .nil := by
  cases n <;> simp [Node.isNil] at h ⊢

theorem onlyChild_spec {cs : Nat → Node} {pos : Nat} (h : onlyChild cs = some pos) :
    pos < 17 ∧ (cs pos).isNil = false ∧ ∀ j, j < 17 → j ≠ pos → cs j = .nil := by
  unfold onlyChild at h
  generalize hf : (List.range 17).filter (fun i => !(cs i).isNil) = l at h
  have hmem : ∀ j, j ∈ l ↔ j < 17 ∧ (cs j).isNil = false := by
    intro j; rw [← hf]; simp [List.mem_filter]
  match l, h with
  | [i], h =>
    simp only [Option.some.injEq] at h
    subst h
    have h1 := (hmem i).1 (by simp)
    refine ⟨h1.1, h1.2, ?_⟩
    intro j hj hne
    cases hn : (cs j).isNil with
    | true => exact isNil_eq hn
    | false =>
      have := (hmem j).2 ⟨hj, hn⟩
      simp at this; exact absurd this hne

/-- a full node with a single child reads like the one-nibble short node that replaces it -/
theorem get_collapse (cs : Nat → Node) (pos : Nat) (hpos : pos ≤ 16)
    (hnil : ∀ j, j < 17 → j ≠ pos → cs j = .nil) (k' : Key) (hk' : VKey k') :
    get (.short [pos] (cs pos)) k' = get (.full cs) k' := by
  cases k' with
  | nil => exact absurd hk' (by simp [VKey])
  | cons y r =>
    have hy := vkey_head_le hk'
    rw [get_full_cons _ _ _ hy]
    simp only [get, List.isPrefixOf_cons_cons, List.isPrefixOf_nil_left, Bool.and_true,
      beq_iff_eq, List.length_cons, List.length_nil, List.drop_succ_cons, List.drop_zero]
    by_cases h : pos = y
    · subst h; simp
    · have := hnil y (by omega) (fun e => h e.symm)
      simp [h, this, get]

theorem delete_short_mismatch (p k2 s2 : Key) (c : Node) (hs2 : s2 ≠ [])
    (h : k2 = [] ∨ ∃ a b k3 s3, k2 = b :: k3 ∧ s2 = a :: s3 ∧ a ≠ b) :
    delete (.short (p ++ s2) c) (p ++ k2) = some (false, .short (p ++ s2) c) := by
  have h0 : prefixLen k2 s2 = 0 := by
    rcases h with rfl | ⟨a, b, k3, s3, rfl, rfl, hab⟩
    · simp [prefixLen]
    · have : ¬ b = a := fun e => hab e.symm
      simp [prefixLen, this]
  have hlt : p.length < (p ++ s2).length := by
    have : 0 < s2.length := List.length_pos_iff.2 hs2
    simp; omega
  rw [delete]
  simp only [prefixLen_append_left, h0, Nat.add_zero, hlt, if_true]

theorem delete_short_exact (p : Key) (c : Node) :
    delete (.short p c) p = some (true, .nil) := by
  have hm : prefixLen p p = p.length := by
    have := prefixLen_append_left p [] []
    simpa [prefixLen] using this
  rw [delete]
  simp [hm]

theorem delete_short_unfold (p k2 : Key) (c : Node) (hk2 : k2 ≠ []) :
    delete (.short p c) (p ++ k2) =
      match delete c k2 with
      | none => none
      | some (false, _) => some (false, .short p c)
      | some (true, .short ck cv) => some (true, .short (p ++ ck) cv)
      | some (true, c') => some (true, .short p c') := by
  have hm : prefixLen (p ++ k2) p = p.length := by
    have := prefixLen_append_left p k2 []
    simp only [List.append_nil, prefixLen_nil_right] at this
    omega
  have h1 : ¬ p.length < p.length := by omega
  have h2 : ¬ p.length = (p ++ k2).length := by
    have : 0 < k2.length := List.length_pos_iff.2 hk2
    simp; omega
  rw [delete]
  simp only [hm, h1, h2, if_false, drop_len_append]
  rfl

/-- specification of `delete` -/
def DelSpec (n : Node) (k : Key) : Prop :=
  ∃ d n', delete n k = some (d, n') ∧ (d = false → n' = n) ∧ WF n' ∧
    ∀ k', VKey k' → get n' k' = if k' = k then some none else get n k'

theorem setC_self (cs : Nat → Node) (x : Nat) : setC cs x (cs x) = cs := by
  funext j; unfold setC; by_cases h : j = x <;> simp [h]

theorem wf_setC {cs : Nat → Node} {x : Nat} {c' : Node} (hwf : WF (.full cs)) (hx : x < 16)
    (hc : WF c') : WF (.full (setC cs x c')) := by
  refine ⟨?_, ?_⟩
  · intro i hi'
    unfold setC
    by_cases h : i = x
    · subst h; simpa using hc
    · simp only [h, if_false]; exact hwf.1 i hi'
  · have : ¬ 16 = x := by omega
    simp only [setC, this, if_false]; exact hwf.2

/-- the reduction step of `delete` on a full node whose child `x` has just become nil -/
theorem collapse_spec (cs' : Nat → Node) (hwf : WF (.full cs')) :
    ∃ n', (match onlyChild cs' with
        | none => some (true, Node.full cs')
        | some pos =>
          if pos ≠ 16 then
            match cs' pos with
            | .short ck cv => some (true, Node.short (pos :: ck) cv)
            | .hash _ => none
            | c => some (true, Node.short [pos] c)
          else some (true, Node.short [pos] (cs' pos))) = some (true, n') ∧ WF n' ∧
      ∀ k', VKey k' → get n' k' = get (.full cs') k' := by
  cases hoc : onlyChild cs' with
  | none => exact ⟨.full cs', rfl, hwf, fun _ _ => rfl⟩
  | some pos =>
    rcases onlyChild_spec hoc with ⟨hlt, hnn, hnil⟩
    have hpos : pos ≤ 16 := by omega
    by_cases h16 : pos = 16
    · subst h16
      rcases hwf.2 with e | ⟨w, e⟩
      · rw [e] at hnn; simp [Node.isNil] at hnn
      · refine ⟨.short [16] (cs' 16), by simp, ?_, fun k' hk' => get_collapse cs' 16 hpos hnil k' hk'⟩
        exact Or.inl ⟨by simp [VKey], w, e⟩
    · have hlt16 : pos < 16 := by omega
      have hwc := hwf.1 pos hlt16
      have hnib : Nibbles [pos] := by
        intro y hy; simp at hy; omega
      have hbase : WF (.short [pos] (cs' pos)) := Or.inr ⟨hnib, hwc⟩
      have hgc := get_collapse cs' pos hpos hnil
      simp only [ne_eq, h16, not_false_eq_true, if_true]
      cases hc : cs' pos with
      | nil => rw [hc] at hnn; simp [Node.isNil] at hnn
      | value w => rw [hc] at hwc; exact absurd hwc (by simp [WF])
      | hash h => rw [hc] at hwc; exact absurd hwc (by simp [WF])
      | short ck cv =>
        rw [hc] at hbase hgc
        refine ⟨.short (pos :: ck) cv, rfl, ?_, ?_⟩
        · exact wf_short_merge (p := [pos]) hnib (by rw [hc] at hwc; exact hwc)
        · intro k' hk'
          rw [← hgc k' hk']
          exact get_short_merge [pos] ck cv k'
      | full cs2 =>
        rw [hc] at hbase hgc
        exact ⟨.short [pos] (.full cs2), rfl, hbase, hgc⟩

theorem delete_spec : ∀ n, WF n → ∀ k, VKey k → DelSpec n k := by
  intro n
  induction n with
  | nil =>
    intro _ k _
    exact ⟨false, .nil, by simp [delete], by simp, trivial, fun k' _ => by simp [get]⟩
  | value w => intro h; exact absurd h (by simp [WF])
  | hash h => intro h; exact absurd h (by simp [WF])
  | short sk c ih =>
    intro hwf k hk
    rcases prefixLen_split k sk with ⟨p, k2, s2, hk_eq, hsk_eq, _, hcase⟩
    subst hk_eq hsk_eq
    by_cases hs2 : s2 = []
    · subst hs2
      simp only [List.append_nil] at hwf ih ⊢
      by_cases hk2 : k2 = []
      · -- exact match: the leaf is removed
        subst hk2
        simp only [List.append_nil] at hk ⊢
        rcases hwf with ⟨hvp, w, rfl⟩ | ⟨hnp, _⟩
        · refine ⟨true, .nil, delete_short_exact p _, by simp, trivial, ?_⟩
          intro k' hk'
          rw [get_leaf p w hvp k' hk']
          by_cases e : k' = p <;> simp [e, get]
        · exact absurd (vkey_mem16 _ hk) (nibbles_not16 hnp)
      · rcases hwf with ⟨hvp, _⟩ | ⟨hnp, hwc⟩
        · exact absurd (vkey_prefix_free p k2 hk hvp) hk2
        · have hvk2 := (vkey_append p k2 hk hk2).2
          rcases ih hwc k2 hvk2 with ⟨d, c', hi, hd, hwf', hget⟩
          rw [DelSpec, delete_short_unfold p k2 c hk2, hi]
          have hbase : WF (.short p c') := Or.inr ⟨hnp, hwf'⟩
          have hgb := fun k' hk' => get_short_congr p k2 c c' (some none) hnp k' hk' hget
          cases d with
          | false =>
            have hcc := hd rfl
            subst hcc
            exact ⟨false, .short p c', rfl, by simp, hbase, hgb⟩
          | true =>
            cases hc : c' with
            | short ck cv =>
              subst hc
              refine ⟨true, .short (p ++ ck) cv, rfl, by simp, wf_short_merge hnp hwf', ?_⟩
              intro k' hk'
              rw [get_short_merge]; exact hgb k' hk'
            | nil => subst hc; exact ⟨true, _, rfl, by simp, hbase, hgb⟩
            | value w => subst hc; exact ⟨true, _, rfl, by simp, hbase, hgb⟩
            | hash h => subst hc; exact ⟨true, _, rfl, by simp, hbase, hgb⟩
            | full cs2 => subst hc; exact ⟨true, _, rfl, by simp, hbase, hgb⟩
    · -- mismatch: nothing to delete
      have hmis : k2 = [] ∨ ∃ a b k3 s3, k2 = b :: k3 ∧ s2 = a :: s3 ∧ a ≠ b := by
        rcases hcase with h | h | h
        · exact Or.inl h
        · exact absurd h hs2
        · exact Or.inr h
      refine ⟨false, _, delete_short_mismatch p k2 s2 c hs2 hmis, by simp, hwf, ?_⟩
      intro k' _
      by_cases e : k' = p ++ k2
      · subst e
        have : (p ++ s2).isPrefixOf (p ++ k2) = false := by
          rw [isPrefixOf_append_left]
          rcases hmis with rfl | ⟨a, b, k3, s3, rfl, rfl, hab⟩
          · cases s2 with
            | nil => exact absurd rfl hs2
            | cons _ _ => rfl
          · rw [List.isPrefixOf_cons_cons]
            have : (a == b) = false := by simp [hab]
            simp [this]
        simp [get, this]
      · simp [e]
  | full cs ih =>
    intro hwf k hk
    cases k with
    | nil => exact absurd hk (by simp [VKey])
    | cons x k2 =>
      have hx := vkey_head_le hk
      have hxg : ¬ x > 16 := by omega
      -- common tail: child x has been replaced by `nn`
      have tail : ∀ (nn : Node), delete (cs x) k2 = some (true, nn) →
          WF (.full (setC cs x nn)) →
          (∀ r, VKey (x :: r) → get nn r = if r = k2 then some none else get (cs x) r) →
          DelSpec (.full cs) (x :: k2) := by
        intro nn hi hwfn hg
        have hgf := fun k' hk' => get_full_congr cs x k2 nn (some none) k' hk' hg
        rw [DelSpec, delete]
        simp only [hxg, if_false, hi]
        by_cases hnil : nn.isNil = true
        · simp only [hnil, Bool.not_true, Bool.false_eq_true, if_false]
          rcases collapse_spec (setC cs x nn) hwfn with ⟨n', he, hw, hg'⟩
          refine ⟨true, n', he, by simp, hw, ?_⟩
          intro k' hk'
          rw [hg' k' hk']; exact hgf k' hk'
        · simp only [hnil, Bool.not_false, if_true]
          exact ⟨true, _, by simp, by simp, hwfn, hgf⟩
      by_cases h16 : x = 16
      · subst h16
        have := vkey_16 hk
        subst this
        rcases hwf.2 with e | ⟨w, e⟩
        · refine ⟨false, .full cs, by simp [delete, e], by simp, hwf, ?_⟩
          intro k' _
          by_cases hkk : k' = [16]
          · subst hkk; simp [get, e]
          · simp [hkk]
        · apply tail .nil (by simp [delete, e])
          · refine ⟨?_, Or.inl (by simp [setC])⟩
            intro i hi
            have : ¬ i = 16 := by omega
            simp only [setC, this, if_false]; exact hwf.1 i hi
          · intro r hr
            have := vkey_16 hr
            subst this; simp [get]
      · have hx' : x < 16 := by omega
        have hvk2 := vkey_lt_tail hk hx'
        rcases ih x (hwf.1 x hx') k2 hvk2 with ⟨d, c', hi, hd, hwf', hget⟩
        have hget' : ∀ r, VKey (x :: r) →
            get c' r = if r = k2 then some none else get (cs x) r :=
          fun r hr => hget r (vkey_lt_tail hr hx')
        cases d with
        | false =>
          have hcc := hd rfl
          subst hcc
          refine ⟨false, .full cs, by simp [delete, hxg, hi], by simp, hwf, ?_⟩
          intro k' hk'
          have := get_full_congr cs x k2 (cs x) (some none) k' hk' hget'
          rwa [setC_self] at this
        | true => exact tail c' hi (wf_setC hwf hx' hwf') hget'

end KV.Trie
