import KV.Proofs.TxPoolWF
/-!
# Per-list invariants of the pool model (property C17)

`Good Φ p`: the pool's chain view is `c`, the account maps are key-sorted, every pending list is
well-formed and all its members satisfy `Φ.φp account`, every queued list is well-formed and all
its members satisfy `Φ.φq account`.  `Φ` is a parameter so that one proof per pool function serves
* `weakPhi`   — members are filed under their sender;
* `midPhi c`  — additionally queued nonces are not below the state nonce of `c`;
* `strongPhi c` — additionally pending nonces are not below the state nonce and every pending
  transaction is individually affordable from the balance in `c` and within `c.gasLimit`.
-/
namespace KV.TxPool
open TxList

/-! ## association lists -/

theorem amGet_amSet_self {α} (m : AMap α) (k : Nat) (v : α) : amGet (amSet m k v) k = some v := by
  induction m with
  | nil => simp [amSet, amGet]
  | cons e es ih =>
    simp only [amSet]
    split
    · simp [amGet]
    · split
      · simp [amGet]
      · rename_i h1 h2
        have : (e.1 == k) = false := by simp; omega
        simp only [amGet, List.find?_cons, this] at ih ⊢
        exact ih

theorem amGet_amSet_other {α} (m : AMap α) {k k' : Nat} (v : α) (h : k' ≠ k) :
    amGet (amSet m k v) k' = amGet m k' := by
  induction m with
  | nil =>
    have : (k == k') = false := by simp; omega
    simp [amSet, amGet, this]
  | cons e es ih =>
    simp only [amSet]
    split
    · have : (k == k') = false := by simp; omega
      simp [amGet, List.find?_cons, this]
    · split
      · rename_i h1 h2
        have h3 : (k == k') = false := by simp; omega
        have h4 : (e.1 == k') = false := by simp; omega
        simp [amGet, List.find?_cons, h3, h4]
      · simp only [amGet, List.find?_cons] at ih ⊢
        split
        · rfl
        · exact ih

theorem amGet_amErase_self {α} (m : AMap α) (k : Nat) : amGet (amErase m k) k = none := by
  induction m with
  | nil => simp [amErase, amGet]
  | cons e es ih =>
    simp only [amErase, amGet, List.filter_cons] at ih ⊢
    by_cases h : e.1 = k
    · simp [h]
    · have : (e.1 == k) = false := by simpa using h
      simp [this]

theorem amGet_amErase_other {α} (m : AMap α) {k k' : Nat} (h : k' ≠ k) :
    amGet (amErase m k) k' = amGet m k' := by
  induction m with
  | nil => simp [amErase, amGet]
  | cons e es ih =>
    simp only [amErase, amGet, List.filter_cons] at ih ⊢
    by_cases h1 : e.1 = k
    · have h2 : (e.1 == k') = false := by simp; omega
      simp [h1, List.find?_cons]
      have : (k == k') = false := by simp; omega
      simp [this]; simpa using ih
    · have : (e.1 == k) = false := by simpa using h1
      simp only [this, Bool.not_false, if_true, List.find?_cons]
      split
      · rfl
      · simpa using ih

theorem amGet_some_key {α} (m : AMap α) (k : Nat) (v : α) (h : amGet m k = some v) :
    k ∈ m.map (·.1) := by
  simp only [amGet, Option.map_eq_some_iff] at h
  obtain ⟨e, he, _⟩ := h
  have hm := List.mem_of_find?_eq_some he
  have hk := List.find?_some he
  simp at hk
  exact List.mem_map.mpr ⟨e, hm, hk⟩

/-- keys strictly increasing -/
def KeysSorted {α} (m : AMap α) : Prop := (m.map (·.1)).Pairwise (· < ·)

theorem mem_amSet {α} {m : AMap α} {k : Nat} {v : α} {e : Nat × α} (h : e ∈ amSet m k v) :
    e = (k, v) ∨ e ∈ m := by
  induction m with
  | nil => simp [amSet] at h; exact Or.inl h
  | cons y ys ih =>
    simp only [amSet] at h
    split at h
    · simp at h; rcases h with h | h | h
      · exact Or.inl h
      · exact Or.inr (by simp [h])
      · exact Or.inr (by simp [h])
    · split at h
      · simp at h; rcases h with h | h
        · exact Or.inl h
        · exact Or.inr (by simp [h])
      · simp at h; rcases h with h | h
        · exact Or.inr (by simp [h])
        · rcases ih h with h | h
          · exact Or.inl h
          · exact Or.inr (by simp [h])

theorem keysSorted_amSet {α} (m : AMap α) (k : Nat) (v : α) (h : KeysSorted m) :
    KeysSorted (amSet m k v) := by
  induction m with
  | nil => simp [amSet, KeysSorted]
  | cons y ys ih =>
    unfold KeysSorted at h ih ⊢
    simp only [List.map_cons, List.pairwise_cons] at h
    simp only [amSet]
    split
    · rename_i hlt
      simp only [List.map_cons, List.pairwise_cons]
      refine ⟨?_, h⟩
      intro z hz
      simp at hz
      rcases hz with hz | hz
      · omega
      · obtain ⟨b, hb⟩ := hz
        have := h.1 z (List.mem_map.mpr ⟨(z, b), hb, rfl⟩); omega
    · split
      · rename_i heq
        simp only [List.map_cons, List.pairwise_cons]
        refine ⟨?_, h.2⟩
        intro z hz
        have := h.1 z hz; omega
      · rename_i hnlt hne
        simp only [List.map_cons, List.pairwise_cons]
        refine ⟨?_, ih h.2⟩
        intro z hz
        obtain ⟨e, he, hez⟩ := List.mem_map.mp hz
        rcases mem_amSet he with he | he
        · subst he; simp at hez; omega
        · have := h.1 z (List.mem_map.mpr ⟨e, he, hez⟩); omega

theorem keysSorted_amErase {α} (m : AMap α) (k : Nat) (h : KeysSorted m) : KeysSorted (amErase m k) := by
  unfold KeysSorted amErase at *
  exact List.Pairwise.sublist (List.Sublist.map _ List.filter_sublist) h

/-- in a key-sorted map membership is lookup -/
theorem amGet_of_mem {α} {m : AMap α} (h : KeysSorted m) {e : Nat × α} (he : e ∈ m) :
    amGet m e.1 = some e.2 := by
  induction m with
  | nil => simp at he
  | cons y ys ih =>
    unfold KeysSorted at h ih
    simp only [List.map_cons, List.pairwise_cons] at h
    rcases List.mem_cons.mp he with he | he
    · subst he; simp [amGet]
    · have hlt := h.1 e.1 (List.mem_map.mpr ⟨e, he, rfl⟩)
      have : (y.1 == e.1) = false := by simp; omega
      simp only [amGet, List.find?_cons, this]
      exact ih h.2 he

/-! ## per-list predicate -/

/-- a well-formed list all of whose members satisfy `φ a` -/
def LAll (φ : Nat → Tx → Prop) (a : Nat) (l : TxList) : Prop := l.WF ∧ ∀ t ∈ l.txs, φ a t

theorem LAll.new (φ : Nat → Tx → Prop) (a : Nat) (s : Bool) : LAll φ a (TxList.new s) :=
  ⟨wf_new s, by simp [TxList.new]⟩

theorem LAll.sub {φ : Nat → Tx → Prop} {a : Nat} {l l' : TxList} (h : LAll φ a l) (hwf : l'.WF)
    (hs : ∀ t ∈ l'.txs, t ∈ l.txs) : LAll φ a l' :=
  ⟨hwf, fun t ht => h.2 t (hs t ht)⟩

theorem add_txs_sub (l : TxList) (t : Tx) (bump : Nat) :
    ∀ x ∈ (l.add t bump).1.txs, x = t ∨ x ∈ l.txs := by
  intro x hx
  unfold TxList.add at hx
  simp only at hx
  split at hx
  · split at hx
    · exact mem_put hx
    · exact Or.inr hx
  · exact mem_put hx

theorem LAll.add {φ : Nat → Tx → Prop} {a : Nat} {l : TxList} (h : LAll φ a l) (t : Tx) (bump : Nat)
    (ht : φ a t) : LAll φ a (l.add t bump).1 := by
  refine ⟨wf_add l t bump h.1, ?_⟩
  intro x hx
  rcases add_txs_sub l t bump x hx with hx | hx
  · subst hx; exact ht
  · exact h.2 x hx

theorem forward_sub (l : TxList) (th : Nat) : ∀ t ∈ (l.forward th).1.txs, t ∈ l.txs :=
  fun t ht => ((forward_spec l th).1 t ht).2
theorem forward_ge (l : TxList) (th : Nat) : ∀ t ∈ (l.forward th).1.txs, th ≤ t.nonce :=
  fun t ht => ((forward_spec l th).1 t ht).1
theorem filter_sub (l : TxList) (c g : Nat) : ∀ t ∈ (l.filter c g).1.txs, t ∈ l.txs :=
  fun _ ht => (filter_sublist_txs l c g).subset ht

theorem filter_invalids_sub (l : TxList) (c g : Nat) : ∀ t ∈ (l.filter c g).2.2, t ∈ l.txs := by
  intro t ht
  unfold TxList.filter at ht
  split at ht
  · simp at ht
  · simp only at ht
    split at ht
    · simp at ht
    · split at ht
      · exact List.filter_sublist.subset (List.filter_sublist.subset ht)
      · simp at ht

/-- what `Filter` leaves is payable (through the early exit as well, thanks to the caps) -/
theorem filter_payable (l : TxList) (hb : Bounded l) (c g : Nat) :
    ∀ t ∈ (l.filter c g).1.txs, t.cost ≤ c ∧ t.gas ≤ g := by
  intro t ht
  unfold TxList.filter at ht
  split at ht
  · rename_i hcap
    have := hb t ht
    omega
  · simp only at ht
    split at ht
    · simp only [List.mem_filter] at ht
      exact not_unpayable ht.2
    · split at ht
      · simp only [List.mem_filter] at ht
        exact not_unpayable ht.1.2
      · simp only [List.mem_filter] at ht
        exact not_unpayable ht.2

theorem cap_sub (l : TxList) (k : Nat) : ∀ t ∈ (l.cap k).1.txs, t ∈ l.txs := by
  intro t ht
  unfold TxList.cap at ht
  split at ht
  · exact ht
  · exact List.mem_of_mem_take ht

theorem cap_drops_sub (l : TxList) (k : Nat) : ∀ t ∈ (l.cap k).2, t ∈ l.txs := by
  intro t ht
  unfold TxList.cap at ht
  split at ht
  · simp at ht
  · simp only [List.mem_reverse] at ht
    exact List.mem_of_mem_drop ht

theorem remove_sub (l : TxList) (n : Nat) : ∀ t ∈ (l.remove n).1.txs, t ∈ l.txs := by
  intro t ht
  unfold TxList.remove at ht
  split at ht
  · exact ht
  · split at ht
    · exact List.filter_sublist.subset (List.filter_sublist.subset ht)
    · exact List.filter_sublist.subset ht

theorem remove_invalids_sub (l : TxList) (n : Nat) : ∀ t ∈ (l.remove n).2.2, t ∈ l.txs := by
  intro t ht
  unfold TxList.remove at ht
  split at ht
  · simp at ht
  · split at ht
    · exact List.filter_sublist.subset (List.filter_sublist.subset ht)
    · simp at ht

theorem ready_split (l : TxList) (start : Nat) : (l.ready start).2 ++ (l.ready start).1.txs = l.txs := by
  unfold TxList.ready
  split
  · rename_i h; simp [h]
  · split
    · simp
    · exact run_append _ _

theorem ready_sub (l : TxList) (start : Nat) : ∀ t ∈ (l.ready start).1.txs, t ∈ l.txs := by
  intro t ht; rw [← ready_split l start]; exact List.mem_append_right _ ht
theorem ready_run_sub (l : TxList) (start : Nat) : ∀ t ∈ (l.ready start).2, t ∈ l.txs := by
  intro t ht; rw [← ready_split l start]; exact List.mem_append_left _ ht

/-! ## the parameter -/

def stN (c : Chain) (a : Nat) : Nat := c.nonces.getD a 0
def balOf (c : Chain) (a : Nat) : Nat := c.balances.getD a 0

/-- member predicates for pending and queued lists with the closure properties the pool
functions need (relative to the chain view `c`) -/
structure Phi (c : Chain) where
  φp : Nat → Tx → Prop
  φq : Nat → Tx → Prop
  /-- a pending transaction that is not stale may be queued (demotion) -/
  pqf : ∀ a t, φp a t → stN c a ≤ t.nonce → φq a t
  /-- a queued transaction that is not stale and payable may become pending (promotion) -/
  qp : ∀ a t, φq a t → stN c a ≤ t.nonce → t.cost ≤ balOf c a → t.gas ≤ c.gasLimit → φp a t
  /-- a transaction that is not stale may be queued under its sender -/
  val : ∀ t, stN c t.sender ≤ t.nonce → φq t.sender t
  /-- pending members are filed under their sender -/
  psnd : ∀ a t, φp a t → t.sender = a
  /-- queued members are filed under their sender -/
  qsnd : ∀ a t, φq a t → t.sender = a

/-- demotion without the staleness side condition (needed by `removeTx`) -/
def Phi.PQ {c : Chain} (Φ : Phi c) : Prop := ∀ a t, Φ.φp a t → Φ.φq a t

def weakPhi (c : Chain) : Phi c where
  φp a t := t.sender = a
  φq a t := t.sender = a
  pqf _ _ h _ := h
  qp _ _ h _ _ _ := h
  val _ _ := rfl
  psnd _ _ h := h
  qsnd _ _ h := h

def midPhi (c : Chain) : Phi c where
  φp a t := t.sender = a
  φq a t := t.sender = a ∧ stN c a ≤ t.nonce
  pqf _ _ h h' := ⟨h, h'⟩
  qp _ _ h _ _ _ := h.1
  val _ h := ⟨rfl, h⟩
  psnd _ _ h := h
  qsnd _ _ h := h.1

def strongPhi (c : Chain) : Phi c where
  φp a t := t.sender = a ∧ stN c a ≤ t.nonce ∧ t.cost ≤ balOf c a ∧ t.gas ≤ c.gasLimit
  φq a t := t.sender = a ∧ stN c a ≤ t.nonce
  pqf _ _ h _ := ⟨h.1, h.2.1⟩
  qp _ _ h h1 h2 h3 := ⟨h.1, h1, h2, h3⟩
  val _ h := ⟨rfl, h⟩
  psnd _ _ h := h.1
  qsnd _ _ h := h.1

theorem weakPhi_PQ (c : Chain) : (weakPhi c).PQ := fun _ _ h => h
theorem strongPhi_PQ (c : Chain) : (strongPhi c).PQ := fun _ _ h => ⟨h.1, h.2.1⟩

/-- the pool-level invariant, parametrised by the member predicates -/
structure Good {c : Chain} (Φ : Phi c) (p : Pool) : Prop where
  chain : p.chain = c
  pkeys : KeysSorted p.pending
  qkeys : KeysSorted p.queue
  pend : ∀ a l, amGet p.pending a = some l → LAll Φ.φp a l
  que : ∀ a l, amGet p.queue a = some l → LAll Φ.φq a l

namespace Good
variable {c : Chain} {Φ : Phi c}

theorem frame {p p' : Pool} (h : Good Φ p) (hc : p'.chain = p.chain) (hp : p'.pending = p.pending)
    (hq : p'.queue = p.queue) : Good Φ p' :=
  ⟨hc ▸ h.chain, hp ▸ h.pkeys, hq ▸ h.qkeys, hp ▸ h.pend, hq ▸ h.que⟩

theorem setPending {p : Pool} (h : Good Φ p) (a : Nat) (l : TxList) (hl : LAll Φ.φp a l) :
    Good Φ { p with pending := amSet p.pending a l } := by
  refine ⟨h.chain, keysSorted_amSet _ _ _ h.pkeys, h.qkeys, ?_, h.que⟩
  intro b l' hb
  by_cases hba : b = a
  · subst hba; rw [amGet_amSet_self] at hb; cases hb; exact hl
  · rw [amGet_amSet_other _ _ hba] at hb; exact h.pend b l' hb

theorem erasePending {p : Pool} (h : Good Φ p) (a : Nat) :
    Good Φ { p with pending := amErase p.pending a } := by
  refine ⟨h.chain, keysSorted_amErase _ _ h.pkeys, h.qkeys, ?_, h.que⟩
  intro b l' hb
  by_cases hba : b = a
  · subst hba; rw [amGet_amErase_self] at hb; cases hb
  · rw [amGet_amErase_other _ hba] at hb; exact h.pend b l' hb

theorem setQueue {p : Pool} (h : Good Φ p) (a : Nat) (l : TxList) (hl : LAll Φ.φq a l) :
    Good Φ { p with queue := amSet p.queue a l } := by
  refine ⟨h.chain, h.pkeys, keysSorted_amSet _ _ _ h.qkeys, h.pend, ?_⟩
  intro b l' hb
  by_cases hba : b = a
  · subst hba; rw [amGet_amSet_self] at hb; cases hb; exact hl
  · rw [amGet_amSet_other _ _ hba] at hb; exact h.que b l' hb

theorem eraseQueue {p : Pool} (h : Good Φ p) (a : Nat) :
    Good Φ { p with queue := amErase p.queue a } := by
  refine ⟨h.chain, h.pkeys, keysSorted_amErase _ _ h.qkeys, h.pend, ?_⟩
  intro b l' hb
  by_cases hba : b = a
  · subst hba; rw [amGet_amErase_self] at hb; cases hb
  · rw [amGet_amErase_other _ hba] at hb; exact h.que b l' hb

/-- the pending list of `a`, or a fresh strict one -/
theorem pendGetD {p : Pool} (h : Good Φ p) (a : Nat) :
    LAll Φ.φp a ((amGet p.pending a).getD (TxList.new true)) := by
  cases hg : amGet p.pending a with
  | none => exact LAll.new _ _ _
  | some l => exact h.pend a l hg

theorem queGetD {p : Pool} (h : Good Φ p) (a : Nat) :
    LAll Φ.φq a ((amGet p.queue a).getD (TxList.new false)) := by
  cases hg : amGet p.queue a with
  | none => exact LAll.new _ _ _
  | some l => exact h.que a l hg

end Good

theorem foldl_inv {α σ : Type} (I : σ → Prop) (f : σ → α → σ) (xs : List α) (s : σ) (h0 : I s)
    (hstep : ∀ s x, x ∈ xs → I s → I (f s x)) : I (xs.foldl f s) := by
  induction xs generalizing s with
  | nil => exact h0
  | cons x rest ih =>
    exact ih (f s x) (hstep s x (by simp) h0) (fun s y hy => hstep s y (by simp [hy]))

end KV.TxPool
