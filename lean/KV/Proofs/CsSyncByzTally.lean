import KV.Proofs.CsSyncPol
/-! Vote sets with Byzantine votes (C04, `KV/Props/C04Net.lean`): the slots of the correct
validators are empty or hold a vote for `b`, the slots of the faulty ones (less than 1/3 of the
power) hold anything.  Then only `b` can have +2/3, and `maj23` is determined by `isMaj b`.
Core Lean only. -/
namespace KV.Cs.Sync

/-- the slots of the correct validators are empty or hold a vote for block `b` -/
def CorrOnly (F : Nat → Bool) (b : Nat) (s : Slots) : Prop :=
  ∀ j v, F j = false → s[j]? = some v → v = none ∨ v = some (some b)

/-- the slots of the correct validators are empty -/
def CorrEmpty (F : Nat → Bool) (s : Slots) : Prop :=
  ∀ j v, F j = false → s[j]? = some v → v = none

/-- the faulty validators hold less than one third of the power -/
def FaultyMinority (pw : List Nat) (F : Nat → Bool) : Prop := 3 * powerL pw F < pw.sum

theorem CorrEmpty.only {F : Nat → Bool} {s : Slots} (h : CorrEmpty F s) (b : Nat) : CorrOnly F b s :=
  fun j v hF hs => Or.inl (h j v hF hs)

theorem CorrEmpty.replicate (F : Nat → Bool) (n : Nat) : CorrEmpty F (List.replicate n none) := by
  intro j v _ hs
  rw [List.getElem?_replicate] at hs
  split at hs
  · cases hs; rfl
  · cases hs

theorem CorrEmpty.nil (F : Nat → Bool) : CorrEmpty F [] := by
  intro j v _ hs; simp at hs

theorem getElem?_set_cases {s : Slots} {j k : Nat} {x v : Option Target} (h : (s.set j x)[k]? = some v) :
    (k = j ∧ v = x) ∨ (k ≠ j ∧ s[k]? = some v) := by
  by_cases e : j = k
  · subst e
    rw [List.getElem?_set_self'] at h
    cases hs : s[j]? with
    | none => rw [hs] at h; cases h
    | some y => rw [hs] at h; simp at h; exact Or.inl ⟨rfl, h.symm⟩
  · rw [List.getElem?_set_ne e] at h
    exact Or.inr ⟨fun e' => e e'.symm, h⟩

theorem CorrOnly.set {F : Nat → Bool} {b : Nat} {s : Slots} (h : CorrOnly F b s) (j : Nat) (tgt : Target)
    (hj : F j = false → tgt = some b) : CorrOnly F b (s.set j (some tgt)) := by
  intro k v hF hs
  rcases getElem?_set_cases hs with ⟨e, hv⟩ | ⟨_, hs'⟩
  · subst e
    right; rw [hv, hj hF]
  · exact h k v hF hs'

theorem CorrEmpty.set {F : Nat → Bool} {s : Slots} (h : CorrEmpty F s) (j : Nat) (x : Option Target)
    (hj : F j = true) : CorrEmpty F (s.set j x) := by
  intro k v hF hs
  rcases getElem?_set_cases hs with ⟨e, _⟩ | ⟨_, hs'⟩
  · subst e; rw [hj] at hF; cases hF
  · exact h k v hF hs'

/-- a value other than `b` has no +2/3 -/
theorem isMaj_other {pw : List Nat} {F : Nat → Bool} {b : Nat} {s : Slots} (hc : CorrOnly F b s)
    (hm : FaultyMinority pw F) (x : Target) (hx : x ≠ some b) : isMaj pw s x = false := by
  have h1 : sumFor pw s x ≤ powerL pw F := by
    unfold sumFor
    apply tally_le_powerL
    intro i v _ hv hp
    have hvx : v = some x := by simpa using hp
    cases hF : F i with
    | true => rfl
    | false =>
      rcases hc i v hF hv with e | e
      · rw [e] at hvx; cases hvx
      · rw [e] at hvx
        exact absurd (Option.some.inj hvx).symm hx
  unfold isMaj FaultyMinority total at *
  exact decide_eq_false (by omega)

/-- only faulty votes: no +2/3 of anything -/
theorem hasAny_corrEmpty {pw : List Nat} {F : Nat → Bool} {s : Slots} (hc : CorrEmpty F s)
    (hm : FaultyMinority pw F) : hasAny pw s = false := by
  have h1 : sumAny pw s ≤ powerL pw F := by
    unfold sumAny
    apply tally_le_powerL
    intro i v _ hv hp
    cases hF : F i with
    | true => rfl
    | false =>
      rw [hc i v hF hv] at hp
      cases hp
  unfold hasAny FaultyMinority total at *
  exact decide_eq_false (by omega)

theorem isMaj_corrEmpty {pw : List Nat} {F : Nat → Bool} {s : Slots} (hc : CorrEmpty F s)
    (hm : FaultyMinority pw F) (x : Target) : isMaj pw s x = false := by
  have h1 : sumFor pw s x ≤ powerL pw F := by
    unfold sumFor
    apply tally_le_powerL
    intro i v _ hv hp
    cases hF : F i with
    | true => rfl
    | false =>
      rw [hc i v hF hv] at hp
      simp at hp
  unfold isMaj FaultyMinority total at *
  exact decide_eq_false (by omega)

/-- `maj23` of a set in which the correct validators voted `b` or nothing -/
theorem maj23_corrOnly {pw : List Nat} {F : Nat → Bool} {b : Nat} {s : Slots} (hc : CorrOnly F b s)
    (hm : FaultyMinority pw F) :
    maj23 pw s = if isMaj pw s (some b) = true then some (some b) else none := by
  by_cases hb : isMaj pw s (some b) = true
  · rw [if_pos hb]; exact maj23_of_isMaj hb
  · rw [if_neg hb]
    unfold maj23
    rw [List.find?_eq_none]
    intro x _
    by_cases hx : x = some b
    · rw [hx]; exact hb
    · rw [isMaj_other hc hm x hx]; simp

theorem maj23_corrEmpty {pw : List Nat} {F : Nat → Bool} {s : Slots} (hc : CorrEmpty F s)
    (hm : FaultyMinority pw F) : maj23 pw s = none := by
  rw [maj23_corrOnly (hc.only 0) hm, if_neg]
  rw [isMaj_corrEmpty hc hm]; simp

end KV.Cs.Sync
