import KV.Proofs.CsSyncNilNext
/-! One node runs through a failed round without a proposal (C04).  Core Lean only. -/
namespace KV.Cs.Sync

/-- the nil prevote / precommit of validator `j` at (h, r), received from `j` -/
def nilPv (h r j : Nat) : Option Nat × Input := (none, .vote j j .prevote h r none true)
def nilPc (h r j : Nat) : Option Nat × Input := (none, .vote j j .precommit h r none true)

theorem weave_empty {α : Type} : ∀ (xs : List α) (k : Nat), weave xs (fun _ => []) k = xs
  | [], _ => rfl
  | x :: xs, k => by
    show [] ++ x :: weave xs (fun _ => []) (k + 1) = x :: xs
    rw [weave_empty xs (k + 1)]; rfl

/-- the senders hold +2/3: any slot list in which all of them voted `x` has a majority for `x` -/
def QuorateT (cfg : Config) (x : Target) (js : List Nat) : Prop :=
  ∀ s : Slots, (∀ j ∈ js, s[j]? = some (some x)) → isMaj cfg.powers s x = true

section
variable (cfg : Config) (F : Nat → Bool) (h r : Nat)

/-- **the nil prevotes of the correct validators `js` (+2/3) arrive**: the node precommits nil -/
theorem node_nil_prevotes {σ : State} (S : T1 cfg F h r σ) (fm : FaultyMinority cfg.powers F)
    (hv : isVal cfg = true) (js : List Nat) (hlt : ∀ j ∈ js, j < n cfg) (hF : ∀ j ∈ js, F j = false)
    (hq : QuorateT cfg none js) : T2 cfg F h r (run cfg σ (js.map (nilPv h r))) := by
  have := run_weave cfg
    (fun D τ => (T1 cfg F h r τ ∨ T2 cfg F h r τ) ∧ ∀ j ∈ D, HasN h r .prevote j τ)
    (nilPv h r) (fun _ => False) (fun j => F j = false ∧ j < n cfg)
    (fun _ _ _ _ hx _ => hx.elim)
    (fun D τ j hok hI => by
      show (T1 cfg F h r (step cfg τ none (.vote j j .prevote h r none true)) ∨
          T2 cfg F h r (step cfg τ none (.vote j j .prevote h r none true))) ∧
        ∀ k ∈ j :: D, HasN h r .prevote k (step cfg τ none (.vote j j .prevote h r none true))
      rcases hI.1 with S1 | S2
      · obtain ⟨h1, h2, h3⟩ := S1.prevote cfg F h r fm hv none j hok.1 hok.2
        refine ⟨h1, fun k hk => ?_⟩
        rcases List.mem_cons.mp hk with e | hk
        · subst e; exact h3
        · exact h2 .prevote k _ (hI.2 k hk)
      · obtain ⟨h1, h2, h3⟩ := S2.vote cfg F h r fm none j .prevote hok.1 hok.2
        refine ⟨Or.inr h1, fun k hk => ?_⟩
        rcases List.mem_cons.mp hk with e | hk
        · subst e; exact h3
        · exact h2 .prevote k _ (hI.2 k hk))
    js (fun _ => []) 0 [] σ (fun j hj => ⟨hF j hj, hlt j hj⟩) (fun _ _ hx => by cases hx)
    ⟨Or.inl S, fun _ hj => by cases hj⟩
  rw [weave_empty] at this
  obtain ⟨hM, hD⟩ := this
  have hmaj := hq _ (fun j hj => hD j (by simp [hj]))
  rcases hM with S1 | S2
  · rw [S1.pvNo] at hmaj; cases hmaj
  · exact S2

/-- **the nil precommits of the correct validators `js` (+2/3) arrive**: the PrecommitWait timeout
is armed -/
theorem node_nil_precommits {σ : State} (S : T2 cfg F h r σ) (fm : FaultyMinority cfg.powers F)
    (js : List Nat) (hlt : ∀ j ∈ js, j < n cfg) (hF : ∀ j ∈ js, F j = false)
    (hq : QuorateT cfg none js) :
    T2 cfg F h r (run cfg σ (js.map (nilPc h r))) ∧
    (h, r, Step.precommitWait) ∈ (run cfg σ (js.map (nilPc h r))).sched := by
  have := run_weave cfg
    (fun D τ => T2 cfg F h r τ ∧ ∀ j ∈ D, HasN h r .precommit j τ)
    (nilPc h r) (fun _ => False) (fun j => F j = false ∧ j < n cfg)
    (fun _ _ _ _ hx _ => hx.elim)
    (fun D τ j hok hI => by
      show T2 cfg F h r (step cfg τ none (.vote j j .precommit h r none true)) ∧
        ∀ k ∈ j :: D, HasN h r .precommit k (step cfg τ none (.vote j j .precommit h r none true))
      obtain ⟨h1, h2, h3⟩ := hI.1.vote cfg F h r fm none j .precommit hok.1 hok.2
      refine ⟨h1, fun k hk => ?_⟩
      rcases List.mem_cons.mp hk with e | hk
      · subst e; exact h3
      · exact h2 .precommit k _ (hI.2 k hk))
    js (fun _ => []) 0 [] σ (fun j hj => ⟨hF j hj, hlt j hj⟩) (fun _ _ hx => by cases hx)
    ⟨S, fun _ hj => by cases hj⟩
  rw [weave_empty] at this
  obtain ⟨S', hD⟩ := this
  have hmaj := hq _ (fun j hj => hD j (by simp [hj]))
  exact ⟨S', S'.tt (S'.wait (hasAny_of_isMaj hmaj))⟩

end
end KV.Cs.Sync
