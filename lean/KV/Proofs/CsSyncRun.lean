import KV.Proofs.CsSyncStage
/-! One node runs through a synchronous round (C04, `KV/Props/C04Net.lean`): the proposal and the
block, then the prevotes for `b` of a set `js` of validators holding +2/3 of the power, then their
precommits.  Induction over the deliveries: the stage is `S1` until the prevote tally crosses
+2/3, then `S2` until the precommit tally does, then `commit h b` is in the log.  Core Lean only. -/
namespace KV.Cs.Sync

/-- the prevote for `b` of validator `j` at (h, r), received from `j` -/
def pvIn (h r b j : Nat) : Option Nat × Input := (none, .vote j j .prevote h r (some b) true)
/-- the precommit for `b` of validator `j` at (h, r), received from `j` -/
def pcIn (h r b j : Nat) : Option Nat × Input := (none, .vote j j .precommit h r (some b) true)
/-- the proposal of `p` for `b` with POL round `pol`, then the complete valid block -/
def propIn (p h r pol b : Nat) : List (Option Nat × Input) :=
  [(none, .proposal p true h r pol b), (none, .block h b true true)]

/-- what one node receives in the synchronous round -/
def nodeInputs (p h r pol b : Nat) (js : List Nat) : List (Option Nat × Input) :=
  propIn p h r pol b ++ js.map (pvIn h r b) ++ js.map (pcIn h r b)

theorem run_append (cfg : Config) : ∀ (a b : List (Option Nat × Input)) (σ : State),
    run cfg σ (a ++ b) = run cfg (run cfg σ a) b
  | [], _, _ => rfl
  | (nb, i) :: a, b, σ => by
    show run cfg (step cfg σ nb i) (a ++ b) = run cfg (run cfg (step cfg σ nb i) a) b
    exact run_append cfg a b _

theorem run_log_mem (cfg : Config) (a : Action) : ∀ (ins : List (Option Nat × Input)) (σ : State),
    a ∈ σ.log → a ∈ (run cfg σ ins).log
  | [], _, h => h
  | (nb, i) :: ins, σ, h => run_log_mem cfg a ins _ (step_log_mem cfg σ nb i a h)

/-- the senders hold +2/3: any slot list in which all of them voted `b` has a majority for `b` -/
def Quorate (cfg : Config) (b : Nat) (js : List Nat) : Prop :=
  ∀ s : Slots, (∀ j ∈ js, s[j]? = some (some (some b))) → isMaj cfg.powers s (some b) = true

theorem set_keeps_empty {s : Slots} {j : Nat} {js : List Nat} (x : Option Target) (hnd : (j :: js).Nodup)
    (he : ∀ k ∈ j :: js, s[k]? = some none) : ∀ k ∈ js, (s.set j x)[k]? = some none := by
  intro k hk
  have hne : j ≠ k := by
    intro e; subst e
    exact (List.nodup_cons.mp hnd).1 hk
  rw [List.getElem?_set_ne hne]
  exact he k (List.mem_cons_of_mem _ hk)

/-- **the prevotes of `js` arrive** (in a stage where the node has prevoted) -/
theorem run_prevotes {cfg : Config} {h r pol b : Nat} (hv : isVal cfg = true) :
    ∀ (js : List Nat) (σ : State), js.Nodup → (∀ j ∈ js, j < n cfg) →
      (S1 cfg h r pol b σ ∨ S2 cfg h r pol b σ) →
      (∀ j ∈ js, (slotsV σ.votes .prevote h r)[j]? = some none) →
      (S1 cfg h r pol b (run cfg σ (js.map (pvIn h r b))) ∨ S2 cfg h r pol b (run cfg σ (js.map (pvIn h r b)))) ∧
      slotsV (run cfg σ (js.map (pvIn h r b))).votes .prevote h r = fill b (slotsV σ.votes .prevote h r) js ∧
      slotsV (run cfg σ (js.map (pvIn h r b))).votes .precommit h r = slotsV σ.votes .precommit h r
  | [], σ, _, _, hS, _ => ⟨hS, rfl, rfl⟩
  | j :: js, σ, hnd, hlt, hS, he => by
    have hj : j < n cfg := hlt j (List.mem_cons_self ..)
    have hej := he j (List.mem_cons_self ..)
    have key : (S1 cfg h r pol b (step cfg σ none (.vote j j .prevote h r (some b) true)) ∨
          S2 cfg h r pol b (step cfg σ none (.vote j j .prevote h r (some b) true))) ∧
        slotsV (step cfg σ none (.vote j j .prevote h r (some b) true)).votes .prevote h r =
          (slotsV σ.votes .prevote h r).set j (some (some b)) ∧
        slotsV (step cfg σ none (.vote j j .prevote h r (some b) true)).votes .precommit h r =
          slotsV σ.votes .precommit h r := by
      rcases hS with hS | hS
      · exact s1_prevote hS hv none j j hj hej
      · obtain ⟨a, b', c⟩ := s2_prevote hS none j j hj hej
        exact ⟨Or.inr a, b', c⟩
    obtain ⟨k1, k2, k3⟩ := key
    have ih := run_prevotes hv js (step cfg σ none (.vote j j .prevote h r (some b) true))
      (List.nodup_cons.mp hnd).2 (fun k hk => hlt k (List.mem_cons_of_mem _ hk)) k1
      (by rw [k2]; exact set_keeps_empty _ hnd he)
    show (S1 cfg h r pol b (run cfg (step cfg σ none (.vote j j .prevote h r (some b) true)) (js.map (pvIn h r b))) ∨
        S2 cfg h r pol b (run cfg (step cfg σ none (.vote j j .prevote h r (some b) true)) (js.map (pvIn h r b)))) ∧
      slotsV (run cfg (step cfg σ none (.vote j j .prevote h r (some b) true)) (js.map (pvIn h r b))).votes .prevote h r =
        fill b (slotsV σ.votes .prevote h r) (j :: js) ∧
      slotsV (run cfg (step cfg σ none (.vote j j .prevote h r (some b) true)) (js.map (pvIn h r b))).votes .precommit h r =
        slotsV σ.votes .precommit h r
    rw [fill_cons, ← k2, ← k3]
    exact ih

/-- **the precommits of `js` arrive** (the node has precommitted `b`, or has committed already) -/
theorem run_precommits {cfg : Config} {h r pol b : Nat} :
    ∀ (js : List Nat) (σ : State), js.Nodup → (∀ j ∈ js, j < n cfg) →
      ((S2 cfg h r pol b σ ∧ ∀ j ∈ js, (slotsV σ.votes .precommit h r)[j]? = some none) ∨
        Action.commit h b ∈ σ.log) →
      (S2 cfg h r pol b (run cfg σ (js.map (pcIn h r b))) ∧
        slotsV (run cfg σ (js.map (pcIn h r b))).votes .precommit h r = fill b (slotsV σ.votes .precommit h r) js) ∨
      Action.commit h b ∈ (run cfg σ (js.map (pcIn h r b))).log
  | [], σ, _, _, hS => by
    rcases hS with ⟨hS, _⟩ | hc
    · exact Or.inl ⟨hS, rfl⟩
    · exact Or.inr hc
  | j :: js, σ, hnd, hlt, hS => by
    rcases hS with ⟨hS, he⟩ | hc
    · have hj : j < n cfg := hlt j (List.mem_cons_self ..)
      have hej := he j (List.mem_cons_self ..)
      show (S2 cfg h r pol b (run cfg (step cfg σ none (.vote j j .precommit h r (some b) true)) (js.map (pcIn h r b))) ∧
          slotsV (run cfg (step cfg σ none (.vote j j .precommit h r (some b) true)) (js.map (pcIn h r b))).votes
            .precommit h r = fill b (slotsV σ.votes .precommit h r) (j :: js)) ∨
        Action.commit h b ∈ (run cfg (step cfg σ none (.vote j j .precommit h r (some b) true)) (js.map (pcIn h r b))).log
      rcases s2_precommit hS none j j hj hej with ⟨k1, k2⟩ | hc
      · rw [fill_cons, ← k2]
        exact run_precommits js _ (List.nodup_cons.mp hnd).2 (fun k hk => hlt k (List.mem_cons_of_mem _ hk))
          (Or.inl ⟨k1, by rw [k2]; exact set_keeps_empty _ hnd he⟩)
      · exact Or.inr (run_log_mem cfg _ _ _ hc)
    · exact Or.inr (run_log_mem cfg _ _ _ hc)

theorem replicate_get_none {n j : Nat} (hj : j < n) : (List.replicate n (none : Option Target))[j]? = some none := by
  simp [List.getElem?_replicate, hj]

/-- after the proposal and the block: prevote for `b` signed -/
theorem node_phase1 {cfg : Config} {h r pol b p : Nat} {σ : State} (R : Ready cfg h r pol b σ)
    (hv : isVal cfg = true) (hp : cfg.proposer h r = p) :
    S1 cfg h r pol b (run cfg σ (propIn p h r pol b)) ∧
    Action.signVote .prevote h r (some b) ∈ (run cfg σ (propIn p h r pol b)).log ∧
    (run cfg σ (propIn p h r pol b)).votes = σ.votes :=
  ready_proposal_block R hv hp none none

/-- after the proposal, the block and the prevotes of a quorum: precommit for `b` signed -/
theorem node_phase2 {cfg : Config} {h r pol b p : Nat} {σ : State} (R : Ready cfg h r pol b σ)
    (hv : isVal cfg = true) (hp : cfg.proposer h r = p) (js : List Nat) (hnd : js.Nodup)
    (hlt : ∀ j ∈ js, j < n cfg) (hq : Quorate cfg b js) :
    S2 cfg h r pol b (run cfg σ (propIn p h r pol b ++ js.map (pvIn h r b))) ∧
    slotsV (run cfg σ (propIn p h r pol b ++ js.map (pvIn h r b))).votes .precommit h r =
      List.replicate (n cfg) none := by
  obtain ⟨s1, _, hvotes⟩ := node_phase1 R hv hp
  rw [run_append]
  have hpv : slotsV (run cfg σ (propIn p h r pol b)).votes .prevote h r = List.replicate (n cfg) none := by
    rw [hvotes]; exact R.pv
  have hpc : slotsV (run cfg σ (propIn p h r pol b)).votes .precommit h r = List.replicate (n cfg) none := by
    rw [hvotes]; exact R.pc
  obtain ⟨k1, k2, k3⟩ := run_prevotes hv js _ hnd hlt (Or.inl s1)
    (fun j hj => by rw [hpv]; exact replicate_get_none (hlt j hj))
  refine ⟨?_, by rw [k3]; exact hpc⟩
  rcases k1 with k1 | k1
  · -- still no polka although the whole quorum voted: impossible
    have := k1.pvNo
    rw [k2, hpv] at this
    have hm := hq (fill b (List.replicate (n cfg) none) js)
      (fun j hj => fill_get_mem b js _ j hj (by simpa using hlt j hj))
    rw [hm] at this
    cases this
  · exact k1

/-- **one node in a synchronous round**: from `Ready`, after the proposal and the block, the
prevotes of a quorum and the precommits of that quorum, the node has committed `b` -/
theorem node_sync_round {cfg : Config} {h r pol b p : Nat} {σ : State} (R : Ready cfg h r pol b σ)
    (hv : isVal cfg = true) (hp : cfg.proposer h r = p) (js : List Nat) (hnd : js.Nodup)
    (hlt : ∀ j ∈ js, j < n cfg) (hq : Quorate cfg b js) :
    Action.commit h b ∈ (run cfg σ (nodeInputs p h r pol b js)).log := by
  obtain ⟨s2, hpc⟩ := node_phase2 R hv hp js hnd hlt hq
  unfold nodeInputs
  rw [run_append]
  rcases run_precommits js _ hnd hlt
      (Or.inl ⟨s2, fun j hj => by rw [hpc]; exact replicate_get_none (hlt j hj)⟩) with ⟨k1, k2⟩ | hc
  · have := k1.pcNo
    rw [k2, hpc] at this
    have hm := hq (fill b (List.replicate (n cfg) none) js)
      (fun j hj => fill_get_mem b js _ j hj (by simpa using hlt j hj))
    rw [hm] at this
    cases this
  · exact hc

end KV.Cs.Sync
