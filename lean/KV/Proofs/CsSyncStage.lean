import KV.Proofs.CsSyncStep
/-! The stages of one node in a synchronous round in which every vote is for the proposed block
`b` (C04, `KV/Props/C04Net.lean`): `Ready` (round entered, nothing received), `S1` (prevoted `b`,
no polka yet), `S2` (precommitted `b` and locked on it, no commit quorum yet), and one transition
lemma per input.  Core Lean only. -/
namespace KV.Cs.Sync

/-- the node entered round `r` of height `h` (step Propose), has no proposal, is not locked on
another block than `b`, holds the polka of the POL round (if any) and no vote of round `r` -/
structure Ready (cfg : Config) (h r pol b : Nat) (σ : State) : Prop where
  nh : σ.halted = false
  hh : σ.height = h
  hr : σ.round = r
  st : σ.step = .propose
  prop : σ.proposal = none
  pb : σ.pblock = none
  parts : σ.parts = none
  lk : σ.locked = none ∨ σ.locked = some ⟨b, true⟩
  pol : PolOk cfg h r pol σ.votes
  pv : slotsV σ.votes .prevote h r = List.replicate (n cfg) none
  pc : slotsV σ.votes .precommit h r = List.replicate (n cfg) none

/-- proposal and block `b` received, prevote for `b` signed, no +2/3 prevotes yet -/
structure S1 (cfg : Config) (h r pol b : Nat) (σ : State) : Prop where
  nh : σ.halted = false
  hh : σ.height = h
  hr : σ.round = r
  st : σ.step = .prevote
  prop : σ.proposal = some ⟨r, pol, b⟩
  pb : σ.pblock = some ⟨b, true⟩
  parts : σ.parts = some (b, true)
  lk : σ.locked = none ∨ σ.locked = some ⟨b, true⟩
  pol : PolOk cfg h r pol σ.votes
  pvAll : AllFor b (slotsV σ.votes .prevote h r)
  pvNo : isMaj cfg.powers (slotsV σ.votes .prevote h r) (some b) = false
  pc : slotsV σ.votes .precommit h r = List.replicate (n cfg) none

/-- precommit for `b` signed, locked on `b`, no +2/3 precommits yet -/
structure S2 (cfg : Config) (h r pol b : Nat) (σ : State) : Prop where
  nh : σ.halted = false
  hh : σ.height = h
  hr : σ.round = r
  st : σ.step = .precommit
  prop : σ.proposal = some ⟨r, pol, b⟩
  pb : σ.pblock = some ⟨b, true⟩
  parts : σ.parts = some (b, true)
  lk : σ.locked = some ⟨b, true⟩
  pol : PolOk cfg h r pol σ.votes
  pvAll : AllFor b (slotsV σ.votes .prevote h r)
  pcAll : AllFor b (slotsV σ.votes .precommit h r)
  pcNo : isMaj cfg.powers (slotsV σ.votes .precommit h r) (some b) = false
  sg : Action.signVote .precommit h r (some b) ∈ σ.log

theorem PolOk.stored {cfg : Config} {h r pol : Nat} {votes : List RoundVotes} (P : PolOk cfg h r pol votes)
    (t : VType) (idx : Nat) (tgt : Target) : PolOk cfg h r pol (votes.map (setSlot t idx tgt h r)) := by
  rcases P with h0 | ⟨h1, h2⟩
  · exact Or.inl h0
  · refine Or.inr ⟨h1, ?_⟩
    rw [slotsV_setSlot_round _ _ _ _ _ _ _ _ _ (by omega)]
    exact h2

/-- **proposal, then the complete block**: the node prevotes `b` -/
theorem ready_proposal_block {cfg : Config} {h r pol b p : Nat} {σ : State} (R : Ready cfg h r pol b σ)
    (hv : isVal cfg = true) (hp : cfg.proposer h r = p) (nb nb' : Option Nat) :
    S1 cfg h r pol b (step cfg (step cfg σ nb (.proposal p true h r pol b)) nb' (.block h b true true)) ∧
    Action.signVote .prevote h r (some b) ∈
      (step cfg (step cfg σ nb (.proposal p true h r pol b)) nb' (.block h b true true)).log ∧
    (step cfg (step cfg σ nb (.proposal p true h r pol b)) nb' (.block h b true true)).votes = σ.votes := by
  obtain ⟨nh, hh, hr, st, prop, pb, parts, lk, pol', pv, pc⟩ := R
  have hpolc : pol = 0 ∨ pol < r := by rcases pol' with h0 | ⟨h1, _⟩ <;> omega
  have hm : maj23 cfg.powers (slotsV σ.votes .prevote h r) = none := by
    rw [pv]; exact maj23_replicate_none _ _
  have e1 : step cfg σ nb (.proposal p true h r pol b) =
      { σ with added := false, proposal := some ⟨r, pol, b⟩, parts := some (b, false) } := by
    rw [step_live _ _ _ _ nh]
    exact setProposal_accept cfg p h r pol b _ prop hh hr hpolc hp parts
  rw [e1]
  rw [step_live _ _ _ _ (by exact nh)]
  simp only
  rw [addBlock_complete cfg h b true _ (by exact hh) rfl]
  rw [storeBlock_noPolka cfg _ _ (by rw [show _ = h from hh, show _ = r from hr]; exact hm)]
  rw [afterBlock_prevote cfg h _ (by exact st)
    (isProposalComplete_of (h := h) (r := r) (pol := pol) (b := b) rfl rfl (by exact hh) (by exact pol'))
    (by rw [show _ = h from hh, show _ = r from hr]; exact hm)]
  rw [enterPrevote_fires cfg h _ _ (by exact hh) rfl (by rw [show _ = Step.propose from st]; decide)]
  rw [doPrevote_block cfg b _ hv (by exact lk) rfl]
  refine ⟨⟨nh, hh, hr, rfl, rfl, rfl, rfl, lk, pol', ?_, ?_, pc⟩, ?_, rfl⟩
  · show AllFor b (slotsV σ.votes .prevote h r)
    rw [pv]; exact AllFor.replicate _ _
  · show isMaj cfg.powers (slotsV σ.votes .prevote h r) (some b) = false
    rw [pv]; exact isMaj_replicate_none _ _ _
  · show _ ∈ _ :: σ.log
    rw [show σ.height = h from hh, show σ.round = r from hr]
    exact List.mem_cons_self ..

theorem afterPrevote_eq (cfg : Config) (nb : Option Nat) (vr : Nat) (σ : State) :
    afterPrevote cfg nb vr σ =
      prevoteSwitch cfg nb σ.height vr (maj23 cfg.powers (slotsV σ.votes .prevote σ.height vr))
        (hasAny cfg.powers (slotsV σ.votes .prevote σ.height vr))
        (polkaUpdate vr (maj23 cfg.powers (slotsV σ.votes .prevote σ.height vr)) σ) := rfl

/-- `S1` without "no +2/3 prevotes yet" -/
structure P1 (cfg : Config) (h r pol b : Nat) (σ : State) : Prop where
  nh : σ.halted = false
  hh : σ.height = h
  hr : σ.round = r
  st : σ.step = .prevote
  prop : σ.proposal = some ⟨r, pol, b⟩
  pb : σ.pblock = some ⟨b, true⟩
  parts : σ.parts = some (b, true)
  lk : σ.locked = none ∨ σ.locked = some ⟨b, true⟩
  pol : PolOk cfg h r pol σ.votes
  pvAll : AllFor b (slotsV σ.votes .prevote h r)
  pc : slotsV σ.votes .precommit h r = List.replicate (n cfg) none

theorem S1.p1 {cfg : Config} {h r pol b : Nat} {σ : State} (S : S1 cfg h r pol b σ) : P1 cfg h r pol b σ :=
  ⟨S.nh, S.hh, S.hr, S.st, S.prop, S.pb, S.parts, S.lk, S.pol, S.pvAll, S.pc⟩

theorem p1_afterPrevote {cfg : Config} {h r pol b : Nat} {τ : State} (P : P1 cfg h r pol b τ)
    (hv : isVal cfg = true) (nb : Option Nat) :
    (S1 cfg h r pol b (afterPrevote cfg nb r τ) ∨ S2 cfg h r pol b (afterPrevote cfg nb r τ)) ∧
    (afterPrevote cfg nb r τ).votes = τ.votes := by
  obtain ⟨nh, hh, hr, st, prop, pb, parts, lk, pol', pvAll, pc⟩ := P
  subst hh
  cases hmaj : isMaj cfg.powers (slotsV τ.votes .prevote τ.height r) (some b) with
  | false =>
    have hm := maj23_allFor_false pvAll hmaj
    have ha : hasAny cfg.powers (slotsV τ.votes .prevote τ.height r) = false := by
      rw [hasAny_allFor pvAll]; exact hmaj
    rw [afterPrevote_quiet cfg nb r τ hm ha hr (by rw [st]; decide)]
    exact ⟨Or.inl ⟨nh, rfl, hr, st, prop, pb, parts, lk, pol', pvAll, hmaj, pc⟩, rfl⟩
  | true =>
    have hm := maj23_allFor_true pvAll hmaj
    rw [afterPrevote_eq, hm]
    simp only [polkaUpdate]
    rw [polkaUnlock_same r b τ lk]
    obtain ⟨vr', vb, e⟩ := polkaValid_have r b τ pb parts
    rw [e]
    rw [prevoteSwitch_polka cfg nb τ.height r (some b) _ { τ with validRound := vr', validB := vb } hr
      (by rw [show State.step _ = τ.step from rfl, st]; decide)
      (isProposalComplete_of (h := τ.height) (r := r) (pol := pol) (b := b) prop pb rfl pol')]
    rw [enterPrecommit_fires cfg τ.height r { τ with validRound := vr', validB := vb } rfl hr
      (by rw [show State.step _ = τ.step from rfl, st]; decide)]
    rw [doPrecommit_lock cfg r b { τ with validRound := vr', validB := vb } hv hm lk pb]
    refine ⟨Or.inr ⟨nh, rfl, rfl, rfl, prop, pb, parts, rfl, pol', pvAll, ?_, ?_, ?_⟩, rfl⟩
    · show AllFor b (slotsV τ.votes .precommit τ.height r)
      rw [pc]; exact AllFor.replicate _ _
    · show isMaj cfg.powers (slotsV τ.votes .precommit τ.height r) (some b) = false
      rw [pc]; exact isMaj_replicate_none _ _ _
    · show _ ∈ _ :: τ.log
      rw [show State.round _ = τ.round from rfl, hr]
      exact List.mem_cons_self ..

theorem P1.stored {cfg : Config} {h r pol b : Nat} {σ : State} (P : P1 cfg h r pol b σ) (j : Nat) :
    P1 cfg h r pol b (stored .prevote j (some b) h r σ) := by
  obtain ⟨nh, hh, hr, st, prop, pb, parts, lk, pol', pvAll, pc⟩ := P
  refine ⟨nh, hh, hr, st, prop, pb, parts, lk, pol'.stored .., ?_, ?_⟩
  · show AllFor b (slotsV (σ.votes.map _) .prevote h r)
    rw [slotsV_setSlot_same]; exact pvAll.set j
  · show slotsV (σ.votes.map _) .precommit h r = _
    rw [slotsV_setSlot_ty _ _ _ _ _ _ _ _ _ (by decide)]; exact pc

/-- **a prevote for `b` arrives before the node precommitted**: nothing happens, or (the vote
completes +2/3) the node locks `b` and precommits it -/
theorem s1_prevote {cfg : Config} {h r pol b : Nat} {σ : State} (S : S1 cfg h r pol b σ)
    (hv : isVal cfg = true) (nb : Option Nat) (peer j : Nat) (hj : j < n cfg)
    (he : (slotsV σ.votes .prevote h r)[j]? = some none) :
    (S1 cfg h r pol b (step cfg σ nb (.vote peer j .prevote h r (some b) true)) ∨
      S2 cfg h r pol b (step cfg σ nb (.vote peer j .prevote h r (some b) true))) ∧
    slotsV (step cfg σ nb (.vote peer j .prevote h r (some b) true)).votes .prevote h r =
      (slotsV σ.votes .prevote h r).set j (some (some b)) ∧
    slotsV (step cfg σ nb (.vote peer j .prevote h r (some b) true)).votes .precommit h r =
      slotsV σ.votes .precommit h r := by
  have hh := S.hh
  subst hh
  rw [step_vote_stored cfg nb peer j .prevote r (some b) σ S.nh hj he]
  simp only
  obtain ⟨h1, h2⟩ := p1_afterPrevote (S.p1.stored j) hv nb
  refine ⟨h1, ?_, ?_⟩
  · rw [h2]; exact slotsV_setSlot_same ..
  · rw [h2]; exact slotsV_setSlot_ty _ _ _ _ _ _ _ _ _ (by decide)

/-- a further prevote for `b` after the node precommitted changes nothing but `Valid*` -/
theorem s2_afterPrevote {cfg : Config} {h r pol b : Nat} {τ : State} (S : S2 cfg h r pol b τ) (nb : Option Nat) :
    S2 cfg h r pol b (afterPrevote cfg nb r τ) ∧ (afterPrevote cfg nb r τ).votes = τ.votes := by
  obtain ⟨nh, hh, hr, st, prop, pb, parts, lk, pol', pvAll, pcAll, pcNo, sg⟩ := S
  subst hh
  cases hmaj : isMaj cfg.powers (slotsV τ.votes .prevote τ.height r) (some b) with
  | false =>
    have hm := maj23_allFor_false pvAll hmaj
    have ha : hasAny cfg.powers (slotsV τ.votes .prevote τ.height r) = false := by
      rw [hasAny_allFor pvAll]; exact hmaj
    rw [afterPrevote_quiet cfg nb r τ hm ha hr (by rw [st]; decide)]
    exact ⟨⟨nh, rfl, hr, st, prop, pb, parts, lk, pol', pvAll, pcAll, pcNo, sg⟩, rfl⟩
  | true =>
    have hm := maj23_allFor_true pvAll hmaj
    rw [afterPrevote_eq, hm]
    simp only [polkaUpdate]
    rw [polkaUnlock_same r b τ (Or.inr lk)]
    obtain ⟨vr', vb, e⟩ := polkaValid_have r b τ pb parts
    rw [e]
    rw [prevoteSwitch_polka cfg nb τ.height r (some b) _ { τ with validRound := vr', validB := vb } hr
      (by rw [show State.step _ = τ.step from rfl, st]; decide)
      (isProposalComplete_of (h := τ.height) (r := r) (pol := pol) (b := b) prop pb rfl pol')]
    rw [enterPrecommit_noop cfg τ.height r { τ with validRound := vr', validB := vb } hr
      (by rw [show State.step _ = τ.step from rfl, st]; decide)]
    exact ⟨⟨nh, rfl, hr, st, prop, pb, parts, lk, pol', pvAll, pcAll, pcNo, sg⟩, rfl⟩

theorem S2.stored_prevote {cfg : Config} {h r pol b : Nat} {σ : State} (S : S2 cfg h r pol b σ) (j : Nat) :
    S2 cfg h r pol b (stored .prevote j (some b) h r σ) := by
  obtain ⟨nh, hh, hr, st, prop, pb, parts, lk, pol', pvAll, pcAll, pcNo, sg⟩ := S
  refine ⟨nh, hh, hr, st, prop, pb, parts, lk, pol'.stored .., ?_, ?_, ?_, sg⟩
  · show AllFor b (slotsV (σ.votes.map _) .prevote h r)
    rw [slotsV_setSlot_same]; exact pvAll.set j
  · show AllFor b (slotsV (σ.votes.map _) .precommit h r)
    rw [slotsV_setSlot_ty _ _ _ _ _ _ _ _ _ (by decide)]; exact pcAll
  · show isMaj cfg.powers (slotsV (σ.votes.map _) .precommit h r) (some b) = false
    rw [slotsV_setSlot_ty _ _ _ _ _ _ _ _ _ (by decide)]; exact pcNo

/-- **a prevote for `b` arrives after the node precommitted** -/
theorem s2_prevote {cfg : Config} {h r pol b : Nat} {σ : State} (S : S2 cfg h r pol b σ)
    (nb : Option Nat) (peer j : Nat) (hj : j < n cfg)
    (he : (slotsV σ.votes .prevote h r)[j]? = some none) :
    S2 cfg h r pol b (step cfg σ nb (.vote peer j .prevote h r (some b) true)) ∧
    slotsV (step cfg σ nb (.vote peer j .prevote h r (some b) true)).votes .prevote h r =
      (slotsV σ.votes .prevote h r).set j (some (some b)) ∧
    slotsV (step cfg σ nb (.vote peer j .prevote h r (some b) true)).votes .precommit h r =
      slotsV σ.votes .precommit h r := by
  have hh := S.hh
  subst hh
  rw [step_vote_stored cfg nb peer j .prevote r (some b) σ S.nh hj he]
  simp only
  obtain ⟨h1, h2⟩ := s2_afterPrevote (S.stored_prevote j) nb
  refine ⟨h1, ?_, ?_⟩
  · rw [h2]; exact slotsV_setSlot_same ..
  · rw [h2]; exact slotsV_setSlot_ty _ _ _ _ _ _ _ _ _ (by decide)

/-- **a precommit for `b` arrives**: nothing happens, or (the vote completes +2/3) the node commits `b` -/
theorem s2_precommit {cfg : Config} {h r pol b : Nat} {σ : State} (S : S2 cfg h r pol b σ)
    (nb : Option Nat) (peer j : Nat) (hj : j < n cfg)
    (he : (slotsV σ.votes .precommit h r)[j]? = some none) :
    (S2 cfg h r pol b (step cfg σ nb (.vote peer j .precommit h r (some b) true)) ∧
      slotsV (step cfg σ nb (.vote peer j .precommit h r (some b) true)).votes .precommit h r =
        (slotsV σ.votes .precommit h r).set j (some (some b))) ∨
    Action.commit h b ∈ (step cfg σ nb (.vote peer j .precommit h r (some b) true)).log := by
  obtain ⟨nh, hh, hr, st, prop, pb, parts, lk, pol', pvAll, pcAll, pcNo, sg⟩ := S
  subst hh
  rw [step_vote_stored cfg nb peer j .precommit r (some b) σ nh hj he]
  simp only
  have hpc : slotsV (stored .precommit j (some b) σ.height r σ).votes .precommit σ.height r =
      (slotsV σ.votes .precommit σ.height r).set j (some (some b)) := slotsV_setSlot_same ..
  have hpv : slotsV (stored .precommit j (some b) σ.height r σ).votes .prevote σ.height r =
      slotsV σ.votes .prevote σ.height r := slotsV_setSlot_ty _ _ _ _ _ _ _ _ _ (by decide)
  have hall := pcAll.set j
  cases hmaj : isMaj cfg.powers ((slotsV σ.votes .precommit σ.height r).set j (some (some b))) (some b) with
  | false =>
    left
    have hm := maj23_allFor_false hall hmaj
    have ha : hasAny cfg.powers ((slotsV σ.votes .precommit σ.height r).set j (some (some b))) = false := by
      rw [hasAny_allFor hall]; exact hmaj
    rw [afterPrecommit_quiet cfg nb r (stored .precommit j (some b) σ.height r σ)
      (by show maj23 cfg.powers (slotsV (stored .precommit j (some b) σ.height r σ).votes .precommit σ.height r) = none
          rw [hpc]; exact hm)
      (by show hasAny cfg.powers (slotsV (stored .precommit j (some b) σ.height r σ).votes .precommit σ.height r) = false
          rw [hpc]; exact ha)]
    refine ⟨⟨nh, rfl, hr, st, prop, pb, parts, lk, pol'.stored .., ?_, ?_, ?_, sg⟩, hpc⟩
    · rw [hpv]; exact pvAll
    · rw [hpc]; exact hall
    · rw [hpc]; exact hmaj
  | true =>
    right
    have hm := maj23_allFor_true hall hmaj
    rw [afterPrecommit_commit cfg nb r b (stored .precommit j (some b) σ.height r σ)
      (by show maj23 cfg.powers (slotsV (stored .precommit j (some b) σ.height r σ).votes .precommit σ.height r) = _
          rw [hpc]; exact hm) hr st]
    exact enterCommit_log cfg σ.height r b (stored .precommit j (some b) σ.height r σ) rfl st
      (by rw [hpc]; exact hm) lk

/-- once committed, always committed: the log only grows -/
theorem step_log_mem (cfg : Config) (σ : State) (nb : Option Nat) (i : Input) (a : Action) (h : a ∈ σ.log) :
    a ∈ (step cfg σ nb i).log := by
  obtain ⟨new, e⟩ := (step_frame cfg σ nb i).log
  rw [e]; exact List.mem_append_right _ h

end KV.Cs.Sync
