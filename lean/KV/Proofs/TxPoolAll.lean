import KV.Proofs.TxPoolReject
/-!
# `all` = pending ⊎ queue (property C17)

`Idx p x`: `x` is in the index `p.all`; `Listed p x`: `x` sits in a pending or queued list.
Invariant `AL`: the two coincide and ids in the index are unique (removal from the index is by
id).  A function that only deletes is described by a predicate `d` that filters the index and the
lists alike (`Del`); such descriptions compose.
-/
namespace KV.TxPool
open TxList
namespace Pool

def Idx (p : Pool) (x : Tx) : Prop := x ∈ p.all.map (·.1)
/-- member of the pending list of account `b` -/
def MP (p : Pool) (b : Nat) (x : Tx) : Prop := ∃ l, amGet p.pending b = some l ∧ x ∈ l.txs
/-- member of the queued list of account `b` -/
def MQ (p : Pool) (b : Nat) (x : Tx) : Prop := ∃ l, amGet p.queue b = some l ∧ x ∈ l.txs

theorem Listed_iff (p : Pool) (x : Tx) : Listed p x ↔ ∃ b, MP p b x ∨ MQ p b x := by
  unfold Listed MP MQ
  constructor
  · rintro (⟨b, l, h1, h2⟩ | ⟨b, l, h1, h2⟩)
    · exact ⟨b, Or.inl ⟨l, h1, h2⟩⟩
    · exact ⟨b, Or.inr ⟨l, h1, h2⟩⟩
  · rintro ⟨b, ⟨l, h1, h2⟩ | ⟨l, h1, h2⟩⟩
    · exact Or.inl ⟨b, l, h1, h2⟩
    · exact Or.inr ⟨b, l, h1, h2⟩

/-- ids in the index are unique -/
def IdU (p : Pool) : Prop := (p.all.map (fun e => e.1.id)).Nodup
/-- the index mirrors the lists -/
def ALiff (p : Pool) : Prop := ∀ x, Idx p x ↔ Listed p x

theorem IdU.eq_of_id {p : Pool} (h : IdU p) {x y : Tx} (hx : Idx p x) (hy : Idx p y) (hid : x.id = y.id) :
    x = y := by
  unfold IdU at h
  unfold Idx at hx hy
  have h' : ((p.all.map (·.1)).map (·.id)).Nodup := by rw [List.map_map]; exact h
  generalize p.all.map (·.1) = L at hx hy h'
  induction L with
  | nil => simp at hx
  | cons z zs ih =>
    simp only [List.map_cons, List.nodup_cons, List.mem_map, not_exists, not_and] at h'
    rcases List.mem_cons.mp hx with hx1 | hx1 <;> rcases List.mem_cons.mp hy with hy1 | hy1
    · rw [hx1, hy1]
    · subst hx1; exact absurd hid.symm (h'.1 y hy1)
    · subst hy1; exact absurd hid (h'.1 x hx1)
    · exact ih hx1 hy1 h'.2

theorem filter_true' {α} (l : List α) : l.filter (fun _ => true) = l := by
  induction l with
  | nil => rfl
  | cons x xs ih => simp [List.filter_cons, ih]

/-! ## membership after map updates -/

theorem MP_congr {p p' : Pool} (h : p'.pending = p.pending) (b : Nat) (x : Tx) : MP p' b x ↔ MP p b x := by
  unfold MP; rw [h]
theorem MQ_congr {p p' : Pool} (h : p'.queue = p.queue) (b : Nat) (x : Tx) : MQ p' b x ↔ MQ p b x := by
  unfold MQ; rw [h]

theorem MP_set (p : Pool) (a : Nat) (l : TxList) (b : Nat) (x : Tx) :
    MP ({ p with pending := amSet p.pending a l } : Pool) b x ↔ (b = a ∧ x ∈ l.txs) ∨ (b ≠ a ∧ MP p b x) := by
  unfold MP
  by_cases hb : b = a
  · subst hb; simp [amGet_amSet_self]
  · simp [amGet_amSet_other _ _ hb, hb]

theorem MP_erase (p : Pool) (a : Nat) (b : Nat) (x : Tx) :
    MP ({ p with pending := amErase p.pending a } : Pool) b x ↔ (b ≠ a ∧ MP p b x) := by
  unfold MP
  by_cases hb : b = a
  · subst hb; simp [amGet_amErase_self]
  · simp [amGet_amErase_other _ hb, hb]

theorem MQ_set (p : Pool) (a : Nat) (l : TxList) (b : Nat) (x : Tx) :
    MQ ({ p with queue := amSet p.queue a l } : Pool) b x ↔ (b = a ∧ x ∈ l.txs) ∨ (b ≠ a ∧ MQ p b x) := by
  unfold MQ
  by_cases hb : b = a
  · subst hb; simp [amGet_amSet_self]
  · simp [amGet_amSet_other _ _ hb, hb]

theorem MQ_erase (p : Pool) (a : Nat) (b : Nat) (x : Tx) :
    MQ ({ p with queue := amErase p.queue a } : Pool) b x ↔ (b ≠ a ∧ MQ p b x) := by
  unfold MQ
  by_cases hb : b = a
  · subst hb; simp [amGet_amErase_self]
  · simp [amGet_amErase_other _ hb, hb]

theorem isEmpty_mem {l : TxList} (h : l.isEmpty = true) (x : Tx) : ¬ x ∈ l.txs := by
  have : l.txs = [] := by simpa [TxList.isEmpty] using h
  rw [this]; simp

theorem MP_finish (p4 : Pool) (a : Nat) (l : TxList) (b : Nat) (x : Tx) :
    MP (if l.isEmpty then { p4 with pending := amErase p4.pending a }
        else { p4 with pending := amSet p4.pending a l }) b x ↔
      (b = a ∧ x ∈ l.txs) ∨ (b ≠ a ∧ MP p4 b x) := by
  split
  · rename_i he
    rw [MP_erase]
    have := isEmpty_mem he x
    constructor
    · intro h; exact Or.inr h
    · rintro (⟨_, h⟩ | h)
      · exact absurd h this
      · exact h
  · exact MP_set p4 a l b x

theorem MQ_finish (p4 : Pool) (a : Nat) (l : TxList) (b : Nat) (x : Tx) :
    MQ (if l.isEmpty then { p4 with queue := amErase p4.queue a }
        else { p4 with queue := amSet p4.queue a l }) b x ↔
      (b = a ∧ x ∈ l.txs) ∨ (b ≠ a ∧ MQ p4 b x) := by
  split
  · rename_i he
    rw [MQ_erase]
    have := isEmpty_mem he x
    constructor
    · intro h; exact Or.inr h
    · rintro (⟨_, h⟩ | h)
      · exact absurd h this
      · exact h
  · exact MQ_set p4 a l b x

theorem finishQueue_all (p4 : Pool) (a : Nat) (l : TxList) :
    (if l.isEmpty then { p4 with queue := amErase p4.queue a }
     else { p4 with queue := amSet p4.queue a l }).all = p4.all := by
  split <;> rfl
theorem finishPending_all (p4 : Pool) (a : Nat) (l : TxList) :
    (if l.isEmpty then { p4 with pending := amErase p4.pending a }
     else { p4 with pending := amSet p4.pending a l }).all = p4.all := by
  split <;> rfl

/-! ## the index under `allRemove` -/

theorem allRemoveL_all (ts : List Tx) (p : Pool) :
    (p.allRemoveL ts).all = p.all.filter (fun e => !(ts.any (fun t => e.1.id == t.id))) := by
  induction ts generalizing p with
  | nil => simp [allRemoveL, filter_true']
  | cons t rest ih =>
    simp only [allRemoveL, List.foldl_cons] at ih ⊢
    rw [ih (p.allRemove t)]
    simp only [allRemove, List.filter_filter, List.any_cons]
    congr 1
    funext e
    simp [Bool.and_comm]

theorem map_filter_fst (all : List (Tx × Bool)) (f : Tx → Bool) :
    (all.filter (fun e => f e.1)).map (·.1) = (all.map (·.1)).filter f := by
  induction all with
  | nil => rfl
  | cons e es ih =>
    simp only [List.filter_cons, List.map_cons]
    split <;> simp [ih]

/-! ## set-level partitions of the list operations -/

theorem forward_part (l : TxList) (th : Nat) (x : Tx) :
    x ∈ l.txs ↔ x ∈ (l.forward th).1.txs ∨ x ∈ (l.forward th).2 := by
  simp only [TxList.forward, List.mem_filter]
  by_cases h : x.nonce < th <;> simp [h]

theorem forward_excl (l : TxList) (th : Nat) (x : Tx) (h : x ∈ (l.forward th).2) :
    ¬ x ∈ (l.forward th).1.txs := by
  simp only [TxList.forward, List.mem_filter] at h ⊢
  simp at h ⊢
  intro _; exact h.2

/-- `Filter` on a non-strict list: kept and removed partition the list, nothing is invalidated -/
theorem filter_part_nonstrict (l : TxList) (hs : l.strict = false) (c g : Nat) (x : Tx) :
    (x ∈ l.txs ↔ x ∈ (l.filter c g).1.txs ∨ x ∈ (l.filter c g).2.1) ∧
    (x ∈ (l.filter c g).2.1 → ¬ x ∈ (l.filter c g).1.txs) ∧ (l.filter c g).2.2 = [] := by
  unfold TxList.filter
  by_cases h1 : l.costcap ≤ c ∧ l.gascap ≤ g
  · rw [if_pos h1]; simp
  · rw [if_neg h1]
    simp only
    by_cases h2 : (l.txs.filter (unpayable c g)).isEmpty = true
    · rw [if_pos h2]
      have hnil : l.txs.filter (unpayable c g) = [] := by simpa using h2
      refine ⟨?_, by simp, rfl⟩
      simp only [List.mem_filter, List.not_mem_nil, or_false]
      constructor
      · intro hx
        refine ⟨hx, ?_⟩
        by_cases hu : unpayable c g x = true
        · have : x ∈ l.txs.filter (unpayable c g) := List.mem_filter.mpr ⟨hx, hu⟩
          rw [hnil] at this; simp at this
        · simp [hu]
      · exact fun h => h.1
    · rw [if_neg h2]
      simp only [hs, Bool.false_eq_true, if_false, List.mem_filter]
      refine ⟨?_, ?_, trivial⟩
      · by_cases hu : unpayable c g x = true <;> simp [hu]
      · intro h; simp [h.2]

/-- `Filter` in general: kept, removed and invalidated partition the list -/
theorem filter_part (l : TxList) (c g : Nat) (x : Tx) :
    (x ∈ l.txs ↔ x ∈ (l.filter c g).1.txs ∨ x ∈ (l.filter c g).2.1 ∨ x ∈ (l.filter c g).2.2) ∧
    (x ∈ (l.filter c g).2.1 → ¬ x ∈ (l.filter c g).1.txs ∧ ¬ x ∈ (l.filter c g).2.2) := by
  unfold TxList.filter
  by_cases h1 : l.costcap ≤ c ∧ l.gascap ≤ g
  · rw [if_pos h1]; simp
  · rw [if_neg h1]
    simp only
    by_cases h2 : (l.txs.filter (unpayable c g)).isEmpty = true
    · rw [if_pos h2]
      have hnil : l.txs.filter (unpayable c g) = [] := by simpa using h2
      refine ⟨?_, by simp⟩
      simp only [List.mem_filter, List.not_mem_nil, or_false]
      constructor
      · intro hx
        refine ⟨hx, ?_⟩
        by_cases hu : unpayable c g x = true
        · have : x ∈ l.txs.filter (unpayable c g) := List.mem_filter.mpr ⟨hx, hu⟩
          rw [hnil] at this; simp at this
        · simp [hu]
      · exact fun h => h.1
    · rw [if_neg h2]
      by_cases h3 : l.strict = true
      · rw [if_pos h3]
        simp only [List.mem_filter]
        refine ⟨?_, ?_⟩
        · by_cases hu : unpayable c g x = true <;>
            by_cases hn : x.nonce > lowest (l.txs.filter (unpayable c g)) <;> simp [hu, hn]
        · intro h; simp [h.2]
      · rw [if_neg h3]
        simp only [List.mem_filter]
        refine ⟨?_, ?_⟩
        · by_cases hu : unpayable c g x = true <;> simp [hu]
        · intro h; simp [h.2]

theorem ready_part (l : TxList) (start : Nat) (x : Tx) :
    x ∈ l.txs ↔ x ∈ (l.ready start).2 ∨ x ∈ (l.ready start).1.txs := by
  rw [← ready_split l start, List.mem_append]

theorem capIf_part {l : TxList} (P : Prop) [Decidable P] (k : Nat) (x : Tx) :
    x ∈ l.txs ↔ x ∈ (if P then l.cap k else (l, [])).1.txs ∨ x ∈ (if P then l.cap k else (l, [])).2 := by
  by_cases hP : P
  · simp only [hP, if_true]
    unfold TxList.cap
    by_cases hl : l.txs.length ≤ k
    · simp [hl]
    · simp only [hl, if_false, List.mem_reverse]
      conv => lhs; rw [← List.take_append_drop k l.txs]
      rw [List.mem_append]
  · simp [hP]

theorem cap_part (l : TxList) (k : Nat) (x : Tx) :
    x ∈ l.txs ↔ x ∈ (l.cap k).1.txs ∨ x ∈ (l.cap k).2 := by
  have := capIf_part (l := l) True k x
  simpa using this

theorem cap_disj {l : TxList} (hs : Sorted l.txs) (k : Nat) :
    ∀ y ∈ (l.cap k).1.txs, ∀ x ∈ (l.cap k).2, y.nonce ≠ x.nonce := by
  have := capIf_disj hs True k
  simpa using this

/-- `Remove` of the nonce at which `t` sits in a nonce-indexed list -/
theorem remove_part {l : TxList} (hs : Sorted l.txs) {t : Tx} (ht : t ∈ l.txs) (x : Tx) :
    (l.remove t.nonce).2.1 = true ∧
    (x ∈ l.txs ↔ x ∈ (l.remove t.nonce).1.txs ∨ x = t ∨ x ∈ (l.remove t.nonce).2.2) ∧
    ¬ t ∈ (l.remove t.nonce).1.txs ∧ ¬ t ∈ (l.remove t.nonce).2.2 ∧
    (l.strict = false → (l.remove t.nonce).2.2 = []) := by
  have hget := get?_of_mem_sorted hs ht
  have hinj : ∀ y ∈ l.txs, y.nonce = t.nonce → y = t := fun y hy hn => sorted_nonce_inj hs hy ht hn
  by_cases hst : l.strict = true
  · simp only [TxList.remove, hget, hst, if_true, List.mem_filter, decide_eq_true_eq, Bool.not_eq_true',
      decide_eq_false_iff_not, beq_eq_false_iff_ne, ne_eq]
    refine ⟨trivial, ?_, by simp, by simp, by simp [hst]⟩
    constructor
    · intro hx
      by_cases h1 : x.nonce = t.nonce
      · exact Or.inr (Or.inl (hinj x hx h1))
      · by_cases h2 : x.nonce > t.nonce
        · exact Or.inr (Or.inr ⟨⟨hx, h1⟩, h2⟩)
        · exact Or.inl ⟨⟨hx, h1⟩, h2⟩
    · rintro (h | h | h)
      · exact h.1.1
      · rw [h]; exact ht
      · exact h.1.1
  · simp only [TxList.remove, hget, hst, Bool.false_eq_true, if_false, List.mem_filter, Bool.not_eq_true',
      beq_eq_false_iff_ne, ne_eq, List.not_mem_nil, or_false]
    refine ⟨trivial, ?_, by simp, by simp, fun _ => trivial⟩
    constructor
    · intro hx
      by_cases h1 : x.nonce = t.nonce
      · exact Or.inr (hinj x hx h1)
      · exact Or.inl ⟨hx, h1⟩
    · rintro (h | h)
      · exact h.1
      · rw [h]; exact ht

/-! ## deleting functions -/

/-- `p'` is `p` with the transactions selected by `d` deleted from the index and from the lists -/
def Del (p p' : Pool) : Prop :=
  ∃ d : Tx → Bool, p'.all.map (·.1) = (p.all.map (·.1)).filter (fun x => !d x) ∧
    ∀ x, Listed p' x ↔ (Listed p x ∧ d x = false)

theorem Del.refl (p : Pool) : Del p p := ⟨fun _ => false, by simp [filter_true'], by simp⟩

theorem Del.trans {p q r : Pool} (h1 : Del p q) (h2 : Del q r) : Del p r := by
  obtain ⟨d1, a1, l1⟩ := h1
  obtain ⟨d2, a2, l2⟩ := h2
  refine ⟨fun x => d1 x || d2 x, ?_, ?_⟩
  · rw [a2, a1, List.filter_filter]
    congr 1; funext x; simp [Bool.and_comm]
  · intro x
    rw [l2, l1]
    simp only [Bool.or_eq_false_iff]
    exact ⟨fun ⟨⟨a, b⟩, c⟩ => ⟨a, b, c⟩, fun ⟨a, b, c⟩ => ⟨⟨a, b⟩, c⟩⟩

theorem Del.frame {p p' : Pool} (ha : p'.all = p.all) (hp : p'.pending = p.pending) (hq : p'.queue = p.queue) :
    Del p p' := ⟨fun _ => false, by simp [ha, filter_true'], by intro x; simp [Listed_congr hp hq]⟩

theorem Del.aliff {p p' : Pool} (h : Del p p') (ha : ALiff p) : ALiff p' := by
  obtain ⟨d, a1, l1⟩ := h
  intro x
  unfold Idx
  rw [a1, l1, List.mem_filter, ← ha x]
  unfold Idx
  simp

theorem Del.idu {p p' : Pool} (h : Del p p') (hu : IdU p) : IdU p' := by
  obtain ⟨d, a1, _⟩ := h
  unfold IdU at *
  have e : ∀ q : Pool, q.all.map (fun e => e.1.id) = (q.all.map (·.1)).map (·.id) := by
    intro q; simp [List.map_map]
  rw [e] at hu ⊢
  rw [a1]
  exact List.Nodup.sublist (List.Sublist.map _ List.filter_sublist) hu

theorem Del.idx_sub {p p' : Pool} (h : Del p p') {x : Tx} (hx : Idx p' x) : Idx p x := by
  obtain ⟨d, a1, _⟩ := h
  unfold Idx at *
  rw [a1] at hx
  exact (List.mem_filter.mp hx).1

/-! ## fresh insertions (no transaction with that nonce in the target list) -/

theorem mem_put_old {t x : Tx} {l : List Tx} (hx : x ∈ l) (hn : x.nonce ≠ t.nonce) : x ∈ put t l := by
  induction l with
  | nil => simp at hx
  | cons y ys ih =>
    simp only [put]
    split
    · simp [hx]
    · split
      · rename_i heq
        rcases List.mem_cons.mp hx with h | h
        · subst h; exact absurd heq.symm hn
        · simp [h]
      · rcases List.mem_cons.mp hx with h | h
        · simp [h]
        · simp [ih h]

theorem mem_put_fresh {t : Tx} {l : List Tx} (hfresh : ∀ y ∈ l, y.nonce ≠ t.nonce) (x : Tx) :
    x ∈ put t l ↔ x = t ∨ x ∈ l := by
  constructor
  · exact mem_put
  · rintro (h | h)
    · rw [h]; exact mem_put_self t l
    · exact mem_put_old h (hfresh x h)

theorem get?_none_of_fresh {l : TxList} {n : Nat} (h : ∀ y ∈ l.txs, y.nonce ≠ n) : l.get? n = none := by
  unfold TxList.get?
  rw [List.find?_eq_none]
  intro y hy
  simpa using h y hy

theorem add_fresh_txs {l : TxList} {t : Tx} (bump : Nat) (h : ∀ y ∈ l.txs, y.nonce ≠ t.nonce) :
    (l.add t bump).2.1 = true ∧ (l.add t bump).2.2 = none ∧ ∀ x, x ∈ (l.add t bump).1.txs ↔ x = t ∨ x ∈ l.txs := by
  have hg := get?_none_of_fresh h
  unfold TxList.add
  simp only [hg]
  exact ⟨trivial, trivial, mem_put_fresh h⟩

theorem enqueueTx_eq_fresh (p : Pool) (t : Tx) (loc : Bool)
    (hins : (((amGet p.queue t.sender).getD (TxList.new false)).add t p.cfg.priceBump).2.1 = true)
    (hnone : (((amGet p.queue t.sender).getD (TxList.new false)).add t p.cfg.priceBump).2.2 = none) :
    (p.enqueueTx t loc false).1 =
      { p with queue := amSet p.queue t.sender (((amGet p.queue t.sender).getD (TxList.new false)).add t p.cfg.priceBump).1 } := by
  unfold enqueueTx
  simp [hins, hnone]

/-- enqueueing (without touching the index) a transaction whose nonce is not queued yet -/
theorem enqueueTx_fresh {p : Pool} {t : Tx} (hfresh : ∀ y, MQ p t.sender y → y.nonce ≠ t.nonce) :
    (p.enqueueTx t false false).1.all = p.all ∧ (p.enqueueTx t false false).1.pending = p.pending ∧
    ∀ b x, MQ (p.enqueueTx t false false).1 b x ↔ MQ p b x ∨ (b = t.sender ∧ x = t) := by
  have hf : ∀ y ∈ ((amGet p.queue t.sender).getD (TxList.new false)).txs, y.nonce ≠ t.nonce := by
    intro y hy
    cases hg : amGet p.queue t.sender with
    | none => rw [hg] at hy; simp [TxList.new] at hy
    | some l => rw [hg] at hy; exact hfresh y ⟨l, hg, hy⟩
  obtain ⟨a1, a2, a3⟩ := add_fresh_txs p.cfg.priceBump hf
  rw [enqueueTx_eq_fresh p t false a1 a2]
  refine ⟨rfl, rfl, ?_⟩
  intro b x
  rw [MQ_set, a3]
  by_cases hb : b = t.sender
  · subst hb
    constructor
    · rintro (⟨_, h | h⟩ | ⟨h, _⟩)
      · exact Or.inr ⟨rfl, h⟩
      · left
        cases hg : amGet p.queue t.sender with
        | none => rw [hg] at h; simp [TxList.new] at h
        | some l => rw [hg] at h; exact ⟨l, hg, h⟩
      · exact absurd rfl h
    · rintro (⟨l, hl, hx⟩ | ⟨_, h⟩)
      · left; refine ⟨rfl, Or.inr ?_⟩; rw [hl]; exact hx
      · left; exact ⟨rfl, Or.inl h⟩
  · constructor
    · rintro (⟨h, _⟩ | ⟨_, h⟩)
      · exact absurd h hb
      · exact Or.inl h
    · rintro (h | ⟨h, _⟩)
      · exact Or.inr ⟨hb, h⟩
      · exact absurd h hb

/-- nonces pairwise different -/
def NoncesDistinct (ts : List Tx) : Prop := ts.Pairwise (fun x y => x.nonce ≠ y.nonce)

theorem NoncesDistinct.of_sorted {l : List Tx} (h : Sorted l) : NoncesDistinct l :=
  List.Pairwise.imp (fun hlt => Nat.ne_of_lt hlt) h

theorem NoncesDistinct.sublist {l l' : List Tx} (h : NoncesDistinct l) (hs : l'.Sublist l) : NoncesDistinct l' :=
  List.Pairwise.sublist hs h

theorem NoncesDistinct.reverse {l : List Tx} (h : NoncesDistinct l) : NoncesDistinct l.reverse := by
  unfold NoncesDistinct at *
  rw [List.pairwise_reverse]
  exact List.Pairwise.imp (fun hne => Ne.symm hne) h

theorem enqueueL_fresh (a : Nat) (ts : List Tx) (q : Pool) (hs : ∀ x ∈ ts, x.sender = a)
    (hd : NoncesDistinct ts) (hf : ∀ x ∈ ts, ∀ y, MQ q a y → y.nonce ≠ x.nonce) :
    (ts.foldl (fun q t => (q.enqueueTx t false false).1) q).all = q.all ∧
    (ts.foldl (fun q t => (q.enqueueTx t false false).1) q).pending = q.pending ∧
    ∀ b x, MQ (ts.foldl (fun q t => (q.enqueueTx t false false).1) q) b x ↔ MQ q b x ∨ (b = a ∧ x ∈ ts) := by
  induction ts generalizing q with
  | nil => exact ⟨rfl, rfl, fun b x => by simp⟩
  | cons t rest ih =>
    have hta : t.sender = a := hs t (by simp)
    unfold NoncesDistinct at hd
    rw [List.pairwise_cons] at hd
    obtain ⟨e1, e2, e3⟩ := enqueueTx_fresh (p := q) (t := t) (by rw [hta]; exact fun y hy => hf t (by simp) y hy)
    have := ih (q.enqueueTx t false false).1 (fun x hx => hs x (by simp [hx])) hd.2 (by
      intro x hx y hy
      rcases (e3 a y).mp hy with hy | ⟨_, hy⟩
      · exact hf x (by simp [hx]) y hy
      · rw [hy]; exact hd.1 x hx)
    obtain ⟨i1, i2, i3⟩ := this
    simp only [List.foldl_cons]
    refine ⟨by rw [i1, e1], by rw [i2, e2], ?_⟩
    intro b x
    rw [i3, e3, hta]
    simp only [List.mem_cons]
    constructor
    · rintro ((h | ⟨h1, h2⟩) | ⟨h1, h2⟩)
      · exact Or.inl h
      · exact Or.inr ⟨h1, Or.inl h2⟩
      · exact Or.inr ⟨h1, Or.inr h2⟩
    · rintro (h | ⟨h1, h2 | h2⟩)
      · exact Or.inl (Or.inl h)
      · exact Or.inl (Or.inr ⟨h1, h2⟩)
      · exact Or.inr ⟨h1, h2⟩

/-- promoting a transaction whose nonce is not pending yet -/
theorem promoteTx_fresh {p : Pool} {a : Nat} {t : Tx} (hfresh : ∀ y, MP p a y → y.nonce ≠ t.nonce) :
    (p.promoteTx a t).all = p.all ∧ (p.promoteTx a t).queue = p.queue ∧
    ∀ b x, MP (p.promoteTx a t) b x ↔ MP p b x ∨ (b = a ∧ x = t) := by
  have hf : ∀ y ∈ ((amGet p.pending a).getD (TxList.new true)).txs, y.nonce ≠ t.nonce := by
    intro y hy
    cases hg : amGet p.pending a with
    | none => rw [hg] at hy; simp [TxList.new] at hy
    | some l => rw [hg] at hy; exact hfresh y ⟨l, hg, hy⟩
  obtain ⟨a1, a2, a3⟩ := add_fresh_txs p.cfg.priceBump hf
  rw [promoteTx_eq p a t a1 a2]
  refine ⟨rfl, rfl, ?_⟩
  intro b x
  have : MP ({ p with pending := amSet p.pending a (((amGet p.pending a).getD (TxList.new true)).add t p.cfg.priceBump).1,
                      pnonce := amSet p.pnonce a (t.nonce + 1) } : Pool) b x ↔
      MP ({ p with pending := amSet p.pending a (((amGet p.pending a).getD (TxList.new true)).add t p.cfg.priceBump).1 } : Pool) b x :=
    MP_congr rfl b x
  rw [this, MP_set, a3]
  by_cases hb : b = a
  · subst hb
    constructor
    · rintro (⟨_, h | h⟩ | ⟨h, _⟩)
      · exact Or.inr ⟨rfl, h⟩
      · left
        cases hg : amGet p.pending b with
        | none => rw [hg] at h; simp [TxList.new] at h
        | some l => rw [hg] at h; exact ⟨l, hg, h⟩
      · exact absurd rfl h
    · rintro (⟨l, hl, hx⟩ | ⟨_, h⟩)
      · left; refine ⟨rfl, Or.inr ?_⟩; rw [hl]; exact hx
      · left; exact ⟨rfl, Or.inl h⟩
  · constructor
    · rintro (⟨h, _⟩ | ⟨_, h⟩)
      · exact absurd h hb
      · exact Or.inl h
    · rintro (h | ⟨h, _⟩)
      · exact Or.inr ⟨hb, h⟩
      · exact absurd h hb

theorem promoteL_fresh (a : Nat) (ts : List Tx) (q : Pool) (hd : NoncesDistinct ts)
    (hf : ∀ x ∈ ts, ∀ y, MP q a y → y.nonce ≠ x.nonce) :
    (ts.foldl (fun q t => q.promoteTx a t) q).all = q.all ∧
    (ts.foldl (fun q t => q.promoteTx a t) q).queue = q.queue ∧
    ∀ b x, MP (ts.foldl (fun q t => q.promoteTx a t) q) b x ↔ MP q b x ∨ (b = a ∧ x ∈ ts) := by
  induction ts generalizing q with
  | nil => exact ⟨rfl, rfl, fun b x => by simp⟩
  | cons t rest ih =>
    unfold NoncesDistinct at hd
    rw [List.pairwise_cons] at hd
    obtain ⟨e1, e2, e3⟩ := promoteTx_fresh (p := q) (a := a) (t := t) (fun y hy => hf t (by simp) y hy)
    have := ih (q.promoteTx a t) hd.2 (by
      intro x hx y hy
      rcases (e3 a y).mp hy with hy | ⟨_, hy⟩
      · exact hf x (by simp [hx]) y hy
      · rw [hy]; exact hd.1 x hx)
    obtain ⟨i1, i2, i3⟩ := this
    simp only [List.foldl_cons]
    refine ⟨by rw [i1, e1], by rw [i2, e2], ?_⟩
    intro b x
    rw [i3, e3]
    simp only [List.mem_cons]
    constructor
    · rintro ((h | ⟨h1, h2⟩) | ⟨h1, h2⟩)
      · exact Or.inl h
      · exact Or.inr ⟨h1, Or.inl h2⟩
      · exact Or.inr ⟨h1, Or.inr h2⟩
    · rintro (h | ⟨h1, h2 | h2⟩)
      · exact Or.inl (Or.inl h)
      · exact Or.inl (Or.inr ⟨h1, h2⟩)
      · exact Or.inr ⟨h1, h2⟩

end Pool
end KV.TxPool
