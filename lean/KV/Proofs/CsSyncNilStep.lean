import KV.Proofs.CsSyncByzRun
/-! A failed round without a proposal (C04, `KV/Props/C04Rot.lean`): tallies of a vote set in which
the correct validators voted ONE target `x` (nil included) or nothing, and what `step` does on the
Propose / PrecommitWait timeouts and on a nil polka / nil precommit majority.  Core Lean only. -/
namespace KV.Cs.Sync

/-- the slots of the correct validators are empty or hold a vote for the target `x` -/
def CorrOnlyT (F : Nat → Bool) (x : Target) (s : Slots) : Prop :=
  ∀ j v, F j = false → s[j]? = some v → v = none ∨ v = some x

theorem CorrEmpty.onlyT {F : Nat → Bool} {s : Slots} (h : CorrEmpty F s) (x : Target) : CorrOnlyT F x s :=
  fun j v hF hs => Or.inl (h j v hF hs)

theorem CorrOnlyT.set {F : Nat → Bool} {x : Target} {s : Slots} (h : CorrOnlyT F x s) (j : Nat) (tgt : Target)
    (hj : F j = false → tgt = x) : CorrOnlyT F x (s.set j (some tgt)) := by
  intro k v hF hs
  rcases getElem?_set_cases hs with ⟨e, hv⟩ | ⟨_, hs'⟩
  · subst e
    right; rw [hv, hj hF]
  · exact h k v hF hs'

theorem isMaj_otherT {pw : List Nat} {F : Nat → Bool} {x : Target} {s : Slots} (hc : CorrOnlyT F x s)
    (hm : FaultyMinority pw F) (y : Target) (hy : y ≠ x) : isMaj pw s y = false := by
  have h1 : sumFor pw s y ≤ powerL pw F := by
    unfold sumFor
    apply tally_le_powerL
    intro i v _ hv hp
    have hvx : v = some y := by simpa using hp
    cases hF : F i with
    | true => rfl
    | false =>
      rcases hc i v hF hv with e | e
      · rw [e] at hvx; cases hvx
      · rw [e] at hvx
        exact absurd (Option.some.inj hvx).symm hy
  unfold isMaj FaultyMinority total at *
  exact decide_eq_false (by omega)

/-- `maj23` of a set in which the correct validators voted `x` or nothing -/
theorem maj23_corrOnlyT {pw : List Nat} {F : Nat → Bool} {x : Target} {s : Slots} (hc : CorrOnlyT F x s)
    (hm : FaultyMinority pw F) :
    maj23 pw s = if isMaj pw s x = true then some x else none := by
  by_cases hb : isMaj pw s x = true
  · rw [if_pos hb]; exact maj23_of_isMaj hb
  · rw [if_neg hb]
    unfold maj23
    rw [List.find?_eq_none]
    intro y _
    by_cases hy : y = x
    · rw [hy]; exact hb
    · rw [isMaj_otherT hc hm y hy]; simp

/-- +2/3 for one value is +2/3 of anything -/
theorem hasAny_of_isMaj {pw : List Nat} {s : Slots} {x : Target} (h : isMaj pw s x = true) : hasAny pw s = true := by
  have h1 : sumFor pw s x ≤ sumAny pw s := by
    unfold sumFor sumAny
    have : ∀ (pw : List Nat) (s : Slots), tally (fun v => v == some x) pw s ≤ tally (fun v => v.isSome) pw s := by
      intro pw
      induction pw with
      | nil => intro s; cases s <;> simp [tally]
      | cons p ps ih =>
        intro s
        cases s with
        | nil => simp [tally]
        | cons v vs =>
          simp only [tally]
          have := ih vs
          by_cases hv : (v == some x) = true
          · have hv' : v.isSome = true := by
              have : v = some x := by simpa using hv
              rw [this]; rfl
            rw [if_pos hv, if_pos hv']; omega
          · rw [if_neg hv]; split <;> omega
    exact this pw s
  unfold isMaj at h
  unfold hasAny
  have := of_decide_eq_true h
  exact decide_eq_true (by omega)

/-! ### the model on the inputs of a failed round -/

/-- the Propose timeout of the current round in step Propose: `enterPrevote` -/
theorem step_timeout_propose (cfg : Config) (σ : State) (nb : Option Nat) (h r : Nat) (nh : σ.halted = false)
    (hh : σ.height = h) (hr : σ.round = r) (st : σ.step = .propose) (lk : σ.locked = none) (pb : σ.pblock = none)
    (hv : isVal cfg = true) :
    step cfg σ nb (.timeout h r .propose) =
      { σ with added := false, step := .prevote, log := .signVote .prevote h r none :: σ.log } := by
  rw [step_live _ _ _ _ nh]
  simp only
  unfold handleTimeout
  rw [if_neg (by
    intro hc
    rcases hc with hc | hc | hc
    · exact hc hh.symm
    · have : ({ σ with added := false } : State).round = r := hr
      omega
    · have : ({ σ with added := false } : State).step = .propose := st
      rw [this] at hc; exact absurd hc.2 (by decide))]
  simp only
  rw [enterPrevote_fires cfg h r _ (by exact hh) (by exact hr) (by rw [show State.step _ = σ.step from rfl, st]; decide)]
  unfold doPrevote
  rw [show State.locked _ = σ.locked from rfl, lk, show State.pblock _ = σ.pblock from rfl, pb]
  simp only
  unfold signAddVote
  rw [if_pos hv]
  subst hh; subst hr
  rfl

/-- nil polka in the node's round after it prevoted: `enterPrecommit` -/
theorem afterPrevote_nilPolka (cfg : Config) (nb : Option Nat) (vr : Nat) (σ : State)
    (hm : maj23 cfg.powers (slotsV σ.votes .prevote σ.height vr) = some none)
    (hr : σ.round = vr) (hs : 4 ≤ σ.step.toNat) (lk : σ.locked = none) :
    afterPrevote cfg nb vr σ = enterPrecommit cfg σ.height vr σ := by
  rw [afterPrevote_eq, hm]
  simp only [polkaUpdate]
  have e : polkaUnlock vr none σ = σ := by unfold polkaUnlock; rw [lk]
  rw [e]
  unfold prevoteSwitch
  rw [if_neg (by simp [hr])]
  rw [if_pos (by simp [hr, toNat_prevote, hs])]
  simp

/-- `enterPrecommit` on a nil polka, not locked: precommit nil -/
theorem doPrecommit_nil (cfg : Config) (r : Nat) (σ : State) (hv : isVal cfg = true)
    (hm : maj23 cfg.powers (slotsV σ.votes .prevote σ.height r) = some none) (lk : σ.locked = none) :
    doPrecommit cfg r σ = emit (.signVote .precommit σ.height σ.round none) σ := by
  unfold doPrecommit
  rw [State.slots_eq, hm]
  simp only
  rw [lk]
  simp only
  unfold signAddVote
  rw [if_pos hv]

/-- +2/3 nil precommits of the node's round after it precommitted: `enterPrecommitWait` -/
theorem afterPrecommit_nil (cfg : Config) (nb : Option Nat) (vr : Nat) (σ : State)
    (hm : maj23 cfg.powers (slotsV σ.votes .precommit σ.height vr) = some none)
    (hr : σ.round = vr) (hs : σ.step = .precommit) :
    afterPrecommit cfg nb vr σ = enterPrecommitWait σ.height vr σ := by
  unfold afterPrecommit
  simp only
  rw [State.slots_eq, hm]
  simp only
  rw [enterNewRound_noop cfg nb _ vr σ hr (by rw [hs]; decide),
    enterPrecommit_noop cfg _ vr σ hr (by rw [hs]; decide)]

end KV.Cs.Sync
