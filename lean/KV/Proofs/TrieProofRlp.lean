import KV.Proofs.Rlp
import KV.Model.Trie
/-! The shallow RLP functions (`rlp.Split`, `SplitString`, `SplitList`, `CountValues`) applied to
encodings — used by the node decoder round trip (property C07, part 4). -/
namespace KV.Rlp
open KV

theorem take_len_append' (a b : Bytes) : (a ++ b).take a.length = a := by
  induction a with
  | nil => simp
  | cons x a ih => simpa using ih

theorem drop_len_append' (a b : Bytes) : (a ++ b).drop a.length = b := by
  induction a with
  | nil => rfl
  | cons x a ih => simpa using ih

/-- `rlp.Split` of an encoded string: content and rest are returned, kind is byte (0) or
string (1) -/
theorem rawSplit_str (bs rest : Bytes) (hlen : bs.length < 2 ^ 64) :
    ∃ k, k ≠ 2 ∧ (bs.length ≠ 1 → k = 1) ∧ rawSplit (enc (.str bs) ++ rest) = some (k, bs, rest) := by
  -- the header form
  have hdr : ∀ (hne : ∀ b, bs = [b] → ¬ b.toNat < 128),
      rawSplit (header 128 bs.length ++ bs ++ rest) = some (1, bs, rest) := by
    intro hne
    obtain ⟨b0, t, hh, hb, hd⟩ := decHeader_header_str bs.length (bs ++ rest) hlen
    have e : header 128 bs.length ++ bs ++ rest = b0 :: (t ++ (bs ++ rest)) := by
      rw [hh]; simp
    rw [e]
    have hb' : ¬ b0.toNat < 128 := by omega
    simp only [rawSplit, hb', if_false, hd]
    have hl : ¬ (bs ++ rest).length < bs.length := by simp
    simp only [hl, if_false, take_len_append', drop_len_append']
    split
    · next c =>
      have := hne c rfl
      simp [this]
    · rfl
  match bs, hlen, hdr with
  | [b], _, hdr =>
    by_cases hb : b.toNat < 128
    · refine ⟨0, by omega, by simp, ?_⟩
      simp [enc, hb, rawSplit]
    · refine ⟨1, by omega, by simp, ?_⟩
      have := hdr (by intro c hc; simp at hc; subst hc; exact hb)
      simpa [enc, hb] using this
  | [], _, hdr =>
    refine ⟨1, by omega, by simp, ?_⟩
    have := hdr (by intro c hc; simp at hc)
    simpa [enc] using this
  | a :: b :: r, _, hdr =>
    refine ⟨1, by omega, by simp, ?_⟩
    have := hdr (by intro c hc; simp at hc)
    simpa [enc] using this

/-- `rlp.Split` of an encoded list -/
theorem rawSplit_list (xs : Items) (rest : Bytes) (hlen : (encs xs).length < 2 ^ 64) :
    rawSplit (enc (.list xs) ++ rest) = some (2, encs xs, rest) := by
  obtain ⟨b0, t, hh, hb, hd⟩ := decHeader_header_list (encs xs).length (encs xs ++ rest) hlen
  have e : enc (.list xs) ++ rest = b0 :: (t ++ (encs xs ++ rest)) := by
    simp only [enc]; rw [hh]; simp
  rw [e]
  have hb' : ¬ b0.toNat < 128 := by omega
  simp only [rawSplit, hb', if_false, hd]
  have hl : ¬ (encs xs ++ rest).length < (encs xs).length := by simp
  simp only [hl, if_false, take_len_append', drop_len_append']

theorem rawSplit_item (x : Item) (rest : Bytes) (hok : Item.ok x) :
    ∃ k c, rawSplit (enc x ++ rest) = some (k, c, rest) := by
  cases x with
  | str bs =>
    obtain ⟨k, _, _, h⟩ := rawSplit_str bs rest (by simpa [Item.ok] using hok)
    exact ⟨k, bs, h⟩
  | list xs =>
    exact ⟨2, encs xs, rawSplit_list xs rest (by simp only [Item.ok] at hok; exact hok.2)⟩

def Items.count : Items → Nat
  | .nil => 0
  | .cons _ xs => Items.count xs + 1

/-- `rlp.CountValues` of a list payload -/
theorem countValues_encs : ∀ (xs : Items) (fuel : Nat), Items.ok xs →
    (encs xs).length + 1 ≤ fuel → countValues fuel (encs xs) = some (Items.count xs)
  | .nil, fuel, _, hf => by
    cases fuel with
    | zero => omega
    | succ f => simp [encs, countValues, Items.count]
  | .cons x xs, fuel, hok, hf => by
    simp only [Items.ok] at hok
    cases fuel with
    | zero => omega
    | succ f =>
      obtain ⟨k, c, hs⟩ := rawSplit_item x (encs xs) hok.1
      have hpos := enc_length_pos x
      have hne : enc x ++ encs xs ≠ [] := by
        intro h; simp at h; exact enc_ne_nil x h.1
      have hlen : (encs xs).length + 1 ≤ f := by
        simp only [encs, List.length_append] at hf; omega
      simp only [encs]
      cases hcons : enc x ++ encs xs with
      | nil => exact absurd hcons hne
      | cons a l =>
        simp only [countValues]
        rw [← hcons, hs]
        simp [countValues_encs xs f hok.2 hlen, Items.count]

end KV.Rlp
