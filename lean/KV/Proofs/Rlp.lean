import KV.Proofs.BigEndian
/-! Helper lemmas for the RLP round trip / canonicity theorems. Core only. -/
namespace KV.Rlp

mutual
/-- every payload length fits 64 bits (what `lib/rlp` can represent at all) -/
def Item.ok : Item → Prop
  | .str bs => bs.length < 2 ^ 64
  | .list xs => Items.ok xs ∧ (encs xs).length < 2 ^ 64
def Items.ok : Items → Prop
  | .nil => True
  | .cons x xs => Item.ok x ∧ Items.ok xs
end

theorem ofNat_toNat_lt (n : Nat) (h : n < 256) : (UInt8.ofNat n).toNat = n := by
  simp [UInt8.toNat_ofNat']; omega

theorem header_short (off len : Nat) (h : len < 56) : header off len = [UInt8.ofNat (off + len)] := by
  simp [header, h]

theorem header_long (off len : Nat) (h : ¬ len < 56) :
    header off len = UInt8.ofNat (off + 55 + (beBytes len).length) :: beBytes len := by
  simp [header, h]

theorem header_ne_nil (off len : Nat) : header off len ≠ [] := by
  unfold header; split <;> simp

theorem header_length_pos (off len : Nat) : 0 < (header off len).length := by
  have := header_ne_nil off len
  cases h : header off len with
  | nil => exact absurd h this
  | cons a l => simp

theorem readLen_complete (len : Nat) (rest : Bytes) (h : ¬ len < 56) :
    readLen (beBytes len).length (beBytes len ++ rest) = some (len, rest) := by
  unfold readLen
  have e4 : ¬ ((beBytes len ++ rest).length < (beBytes len).length) := by simp
  have e5 : ¬ ((beBytes len).head? = some 0) := beBytes_head_ne_zero len
  simp only [e4, if_false, List.take_left', List.drop_left', e5, beVal_beBytes, h]

theorem readLen_sound (k len : Nat) (r0 r : Bytes) (h : readLen k r0 = some (len, r)) :
    r0 = beBytes len ++ r ∧ (beBytes len).length = k ∧ ¬ len < 56 ∧ (k ≤ 8 → len < 2 ^ 64) := by
  unfold readLen at h
  simp only at h
  split at h
  · exact absurd h (by simp)
  · rename_i h3
    split at h
    · exact absurd h (by simp)
    · rename_i h4
      split at h
      · exact absurd h (by simp)
      · rename_i h5
        simp only [Option.some.injEq, Prod.mk.injEq] at h
        obtain ⟨hl, hr⟩ := h
        subst hl; subst hr
        have hlen : (List.take k r0).length = k := by simp; omega
        refine ⟨?_, ?_, h5, ?_⟩
        · rw [beBytes_beVal _ h4, List.take_append_drop]
        · rw [beBytes_beVal _ h4, hlen]
        · intro hk
          have h1 := beVal_lt (List.take k r0)
          rw [hlen] at h1
          have : 256 ^ k ≤ 256 ^ 8 := Nat.pow_le_pow_right (by omega) hk
          have e : (256:Nat) ^ 8 = 2 ^ 64 := by decide
          omega

/-- reading back a string header -/
theorem decHeader_header_str (len : Nat) (rest : Bytes) (hlen : len < 2 ^ 64) :
    ∃ b t, header 128 len = b :: t ∧ 128 ≤ b.toNat ∧ decHeader b (t ++ rest) = some (false, len, rest) := by
  by_cases h : len < 56
  · refine ⟨UInt8.ofNat (128 + len), [], header_short 128 len h, ?_, ?_⟩
    · rw [ofNat_toNat_lt _ (by omega)]; omega
    · have hb : (UInt8.ofNat (128 + len)).toNat = 128 + len := ofNat_toNat_lt _ (by omega)
      unfold decHeader
      simp only [hb]
      have e1 : 128 + len < 184 := by omega
      have e4 : 128 + len - 128 = len := by omega
      simp [e1, e4]
  · have hk8 : (beBytes len).length ≤ 8 := beBytes_length_le 8 len (by simpa using hlen)
    have hk1 : 0 < (beBytes len).length := beBytes_length_pos len (by omega)
    refine ⟨UInt8.ofNat (128 + 55 + (beBytes len).length), beBytes len, header_long 128 len h, ?_, ?_⟩
    · rw [ofNat_toNat_lt _ (by omega)]; omega
    · have hb : (UInt8.ofNat (128 + 55 + (beBytes len).length)).toNat = 183 + (beBytes len).length := by
        rw [ofNat_toNat_lt _ (by omega)]
      unfold decHeader
      simp only [hb]
      have e1 : ¬ (183 + (beBytes len).length < 184) := by omega
      have e2 : 183 + (beBytes len).length < 192 := by omega
      have e3 : 183 + (beBytes len).length - 183 = (beBytes len).length := by omega
      simp only [e1, e2, e3, if_false, if_true, readLen_complete len rest h]

/-- reading back a list header -/
theorem decHeader_header_list (len : Nat) (rest : Bytes) (hlen : len < 2 ^ 64) :
    ∃ b t, header 192 len = b :: t ∧ 128 ≤ b.toNat ∧ decHeader b (t ++ rest) = some (true, len, rest) := by
  by_cases h : len < 56
  · refine ⟨UInt8.ofNat (192 + len), [], header_short 192 len h, ?_, ?_⟩
    · rw [ofNat_toNat_lt _ (by omega)]; omega
    · have hb : (UInt8.ofNat (192 + len)).toNat = 192 + len := ofNat_toNat_lt _ (by omega)
      unfold decHeader
      simp only [hb]
      have e1 : ¬ (192 + len < 184) := by omega
      have e2 : ¬ (192 + len < 192) := by omega
      have e3 : 192 + len < 248 := by omega
      have e4 : 192 + len - 192 = len := by omega
      simp [e1, e2, e3, e4]
  · have hk8 : (beBytes len).length ≤ 8 := beBytes_length_le 8 len (by simpa using hlen)
    have hk1 : 0 < (beBytes len).length := beBytes_length_pos len (by omega)
    refine ⟨UInt8.ofNat (192 + 55 + (beBytes len).length), beBytes len, header_long 192 len h, ?_, ?_⟩
    · rw [ofNat_toNat_lt _ (by omega)]; omega
    · have hb : (UInt8.ofNat (192 + 55 + (beBytes len).length)).toNat = 247 + (beBytes len).length := by
        rw [ofNat_toNat_lt _ (by omega)]
      unfold decHeader
      simp only [hb]
      have e1 : ¬ (247 + (beBytes len).length < 184) := by omega
      have e2 : ¬ (247 + (beBytes len).length < 192) := by omega
      have e2' : ¬ (247 + (beBytes len).length < 248) := by omega
      have e3 : 247 + (beBytes len).length - 247 = (beBytes len).length := by omega
      simp only [e1, e2, e2', e3, if_false, readLen_complete len rest h]

/-- a header accepted by the decoder is the canonical header of the size it reports,
and that size fits 64 bits -/
theorem decHeader_sound (b : UInt8) (r0 r : Bytes) (isList : Bool) (len : Nat)
    (hb : 128 ≤ b.toNat) (h : decHeader b r0 = some (isList, len, r)) :
    b :: r0 = header (if isList then 192 else 128) len ++ r ∧ len < 2 ^ 64 := by
  have hb256 : b.toNat < 256 := b.toNat_lt
  unfold decHeader at h
  simp only at h
  split at h
  · -- short string
    rename_i h1
    simp only [Option.some.injEq, Prod.mk.injEq] at h
    obtain ⟨hk, hl, hr⟩ := h
    subst hk; subst hl; subst hr
    have h56 : b.toNat - 128 < 56 := by omega
    simp only [Bool.false_eq_true, if_false]
    rw [header_short _ _ h56]
    have : 128 + (b.toNat - 128) = b.toNat := by omega
    refine ⟨by simp [this], by omega⟩
  · split at h
    · -- long string
      rename_i h1 h2
      split at h
      · exact absurd h (by simp)
      · rename_i len' r' hrl
        simp only [Option.some.injEq, Prod.mk.injEq] at h
        obtain ⟨hk, hl, hr⟩ := h
        subst hk; subst hl; subst hr
        obtain ⟨e1, e2, e3, e4⟩ := readLen_sound _ _ _ _ hrl
        simp only [Bool.false_eq_true, if_false]
        rw [header_long _ _ e3, e2]
        have : 128 + 55 + (b.toNat - 183) = b.toNat := by omega
        refine ⟨by simp [this, e1], e4 (by omega)⟩
    · split at h
      · -- short list
        rename_i h1 h2 h3
        simp only [Option.some.injEq, Prod.mk.injEq] at h
        obtain ⟨hk, hl, hr⟩ := h
        subst hk; subst hl; subst hr
        have h56 : b.toNat - 192 < 56 := by omega
        simp only [if_true]
        rw [header_short _ _ h56]
        have : 192 + (b.toNat - 192) = b.toNat := by omega
        refine ⟨by simp [this], by omega⟩
      · rename_i h1 h2 h3
        split at h
        · exact absurd h (by simp)
        · rename_i len' r' hrl
          simp only [Option.some.injEq, Prod.mk.injEq] at h
          obtain ⟨hk, hl, hr⟩ := h
          subst hk; subst hl; subst hr
          obtain ⟨e1, e2, e3, e4⟩ := readLen_sound _ _ _ _ hrl
          simp only [if_true]
          rw [header_long _ _ e3, e2]
          have : 192 + 55 + (b.toNat - 247) = b.toNat := by omega
          refine ⟨by simp [this, e1], e4 (by omega)⟩

theorem enc_ne_nil (x : Item) : enc x ≠ [] := by
  cases x with
  | str bs =>
    unfold enc
    split
    · split <;> simp
    · have := header_ne_nil 128 bs.length
      intro h; simp at h; exact this h.1
  | list xs =>
    unfold enc
    have := header_ne_nil 192 (encs xs).length
    intro h; simp at h; exact this h.1

theorem enc_length_pos (x : Item) : 0 < (enc x).length := by
  have := enc_ne_nil x
  cases h : enc x with
  | nil => exact absurd h this
  | cons a l => simp

end KV.Rlp
