import KV.Proofs.ValSet
/-! arg-max and one round of proposer selection (C12) -/
namespace KV.ValSet
open KV.I64

/-- `m` beats `v`: strictly higher priority, or equal priority and an address that is not larger -/
def Dominates (m v : Validator) : Prop := v.prio < m.prio ∨ (v.prio = m.prio ∧ m.addr ≤ v.addr)

theorem Dominates.refl (m : Validator) : Dominates m m := Or.inr ⟨rfl, Nat.le_refl _⟩

theorem Dominates.trans {a b c : Validator} (h1 : Dominates a b) (h2 : Dominates b c) : Dominates a c := by
  unfold Dominates at *; omega

theorem better_spec (r v : Validator) :
    (better r v = r ∨ better r v = v) ∧ Dominates (better r v) r ∧ Dominates (better r v) v := by
  unfold better
  by_cases h1 : r.prio > v.prio
  · rw [if_pos h1]; exact ⟨Or.inl rfl, Dominates.refl _, Or.inl h1⟩
  · rw [if_neg h1]
    by_cases h2 : r.prio < v.prio
    · rw [if_pos h2]; exact ⟨Or.inr rfl, Or.inl h2, Dominates.refl _⟩
    · rw [if_neg h2]
      have he : v.prio = r.prio := by omega
      by_cases h3 : r.addr < v.addr
      · rw [if_pos h3]; exact ⟨Or.inl rfl, Dominates.refl _, Or.inr ⟨he, by omega⟩⟩
      · rw [if_neg h3]
        by_cases h4 : r.addr > v.addr
        · rw [if_pos h4]; exact ⟨Or.inr rfl, Or.inr ⟨he.symm, by omega⟩, Dominates.refl _⟩
        · rw [if_neg h4]; exact ⟨Or.inl rfl, Dominates.refl _, Or.inr ⟨he, by omega⟩⟩

theorem foldl_mostest (l : List Validator) (r : Validator) :
    ∃ m, l.foldl (fun r v => match r with | none => some v | some r => some (better r v)) (some r) = some m ∧
      (m = r ∨ m ∈ l) ∧ Dominates m r ∧ ∀ v ∈ l, Dominates m v := by
  induction l generalizing r with
  | nil => exact ⟨r, rfl, Or.inl rfl, Dominates.refl _, by simp⟩
  | cons x xs ih =>
    simp only [List.foldl_cons]
    obtain ⟨m, hm, hmem, hd, hall⟩ := ih (better r x)
    obtain ⟨b1, b2, b3⟩ := better_spec r x
    refine ⟨m, hm, ?_, hd.trans b2, ?_⟩
    · rcases hmem with rfl | hmem
      · rcases b1 with b1 | b1
        · left; exact b1
        · right; rw [b1]; exact List.mem_cons_self
      · right; exact List.mem_cons_of_mem _ hmem
    · intro v hv
      rcases List.mem_cons.mp hv with rfl | hv
      · exact hd.trans b3
      · exact hall v hv

/-- `getValWithMostPriority` returns a member that beats every member -/
theorem mostest_spec (l : List Validator) (hne : l ≠ []) :
    ∃ m, mostest l = some m ∧ m ∈ l ∧ ∀ v ∈ l, Dominates m v := by
  cases l with
  | nil => exact absurd rfl hne
  | cons x xs =>
    unfold mostest
    simp only [List.foldl_cons]
    obtain ⟨m, hm, hmem, hd, hall⟩ := foldl_mostest xs x
    refine ⟨m, hm, ?_, ?_⟩
    · rcases hmem with rfl | hmem
      · exact List.mem_cons_self
      · exact List.mem_cons_of_mem _ hmem
    · intro v hv
      rcases List.mem_cons.mp hv with rfl | hv
      · exact hd
      · exact hall v hv

/-- with distinct addresses the dominating member is unique -/
theorem dominates_unique (l : List Validator) (m m' : Validator) (hm : m ∈ l) (hm' : m' ∈ l)
    (h : ∀ v ∈ l, Dominates m v) (h' : ∀ v ∈ l, Dominates m' v) : m.addr = m'.addr ∧ m.prio = m'.prio := by
  have a := h m' hm'; have b := h' m hm
  unfold Dominates at a b; omega

/-- powers between 0 and `T` -/
def PowBound (T : Int) (l : List Validator) : Prop := ∀ v ∈ l, 0 ≤ v.power ∧ v.power ≤ T

/-- one round: with priorities in `[-B, B]`, powers in `[0, T]` and `B + 2T < 2^63` neither the
unchecked addition nor the clipping subtraction leaves the exact value -/
theorem stepList_eq_spec (B T : Int) (l : List Validator) (hb : PrioBound B l) (hp : PowBound T l)
    (hT : 0 ≤ T) (hfit : B + 2 * T ≤ maxI64) : stepList T l = Spec.step T l := by
  have e1 : (l.map fun v => { v with prio := I64.add v.prio v.power }) =
      (l.map fun v => { v with prio := v.prio + v.power }) := by
    apply List.map_congr_left
    intro v hv
    obtain ⟨b1, b2⟩ := hb v hv
    obtain ⟨p1, p2⟩ := hp v hv
    have : I64.add v.prio v.power = v.prio + v.power :=
      I64.add_exact _ _ (by unfold InRange minI64 maxI64; unfold maxI64 at hfit; omega)
    simp only [this]
  unfold stepList Spec.step
  simp only [e1]
  cases hm : mostest (l.map fun v => { v with prio := v.prio + v.power }) with
  | none => rfl
  | some m =>
    simp only
    congr 1
    apply List.map_congr_left
    intro v hv
    obtain ⟨v0, hv0, rfl⟩ := List.mem_map.mp hv
    obtain ⟨b1, b2⟩ := hb v0 hv0
    obtain ⟨p1, p2⟩ := hp v0 hv0
    have : safeSubClip (v0.prio + v0.power) T = v0.prio + v0.power - T := by
      apply safeSubClip_exact <;> (unfold InRange minI64 maxI64; unfold maxI64 at hfit; omega)
    simp only [this]

/-- priorities after one specification round stay within `B + T` -/
theorem Spec.step_bound (B T : Int) (l : List Validator) (hb : PrioBound B l) (hp : PowBound T l)
    (hT : 0 ≤ T) : PrioBound (B + T) (Spec.step T l).1 ∧ PowBound T (Spec.step T l).1 := by
  unfold Spec.step
  cases hm : mostest (l.map fun v => { v with prio := v.prio + v.power }) with
  | none =>
    simp only [hm]
    constructor
    · intro v hv
      obtain ⟨v0, hv0, rfl⟩ := List.mem_map.mp hv
      have := hb v0 hv0; have := hp v0 hv0; simp only; omega
    · intro v hv
      obtain ⟨v0, hv0, rfl⟩ := List.mem_map.mp hv
      exact hp v0 hv0
  | some m =>
    simp only [hm]
    constructor
    · intro v hv
      obtain ⟨v1, hv1, rfl⟩ := List.mem_map.mp hv
      obtain ⟨v0, hv0, rfl⟩ := List.mem_map.mp hv1
      have := hb v0 hv0; have := hp v0 hv0
      split <;> simp only <;> omega
    · intro v hv
      obtain ⟨v1, hv1, rfl⟩ := List.mem_map.mp hv
      obtain ⟨v0, hv0, rfl⟩ := List.mem_map.mp hv1
      have := hp v0 hv0
      split <;> simpa using this

/-- `k` rounds: the model equals the specification while `B + (k+1)·T` fits `int64` -/
theorem stepsList_eq_spec (T : Int) (hT : 0 ≤ T) :
    ∀ (k : Nat) (B : Int) (l : List Validator) (p : Option Nat), PrioBound B l → PowBound T l →
      B + ((k : Int) + 1) * T ≤ maxI64 → stepsList T k l p = Spec.steps T k l p := by
  intro k
  induction k with
  | zero => intro B l p _ _ _; rfl
  | succ k ih =>
    intro B l p hb hp hfit
    have hkT : 0 ≤ (k : Int) * T := Int.mul_nonneg (by omega) hT
    have hfit' : B + ((k : Int) + 1 + 1) * T ≤ maxI64 := by simpa [Int.natCast_succ] using hfit
    rw [Int.add_mul, Int.add_mul, Int.one_mul] at hfit'
    unfold stepsList Spec.steps
    simp only
    rw [stepList_eq_spec B T l hb hp hT (by omega)]
    obtain ⟨hb', hp'⟩ := Spec.step_bound B T l hb hp hT
    apply ih (B + T) _ _ hb' hp'
    rw [Int.add_mul, Int.one_mul]; omega

/-- **proposer_pays_total** (specification): one round adds its power to everybody and
subtracts exactly `T` from the proposer (and only from validators with the proposer's address). -/
theorem Spec.step_closed_form (T : Int) (l : List Validator) (a : Nat)
    (h : (Spec.step T l).2 = some a) :
    (Spec.step T l).1 = l.map fun v =>
      if v.addr = a then { v with prio := v.prio + v.power - T } else { v with prio := v.prio + v.power } := by
  unfold Spec.step at h ⊢
  cases hm : mostest (l.map fun v => { v with prio := v.prio + v.power }) with
  | none => simp [hm] at h
  | some m =>
    simp only [hm] at h ⊢
    have ha : m.addr = a := by simpa using h
    rw [List.map_map]
    apply List.map_congr_left
    intro v _
    simp only [Function.comp, ha]


theorem Spec.step_proposer_some (T : Int) (l : List Validator) (hne : l ≠ []) :
    ∃ a, (Spec.step T l).2 = some a := by
  have hne' : (l.map fun v => ({ v with prio := v.prio + v.power } : Validator)) ≠ [] := by
    simpa using hne
  obtain ⟨m, hm, _, _⟩ := mostest_spec _ hne'
  exact ⟨m.addr, by unfold Spec.step; simp only [hm]⟩

theorem Spec.steps_closed_form (T : Int) :
    ∀ (k : Nat) (l : List Validator) (p : Option Nat), l ≠ [] →
      (Spec.steps T k l p).1 = l.map fun v =>
        { v with prio := v.prio + (k : Int) * v.power - T * ((Spec.run T k l).count v.addr : Int) } := by
  intro k
  induction k with
  | zero =>
    intro l p _
    simp [Spec.steps, Spec.run]
  | succ k ih =>
    intro l p hne
    obtain ⟨a, ha⟩ := Spec.step_proposer_some T l hne
    have hform := Spec.step_closed_form T l a ha
    have hne1 : (Spec.step T l).1 ≠ [] := by rw [hform]; simpa using hne
    have hrun : Spec.run T (k + 1) l = a :: Spec.run T k (Spec.step T l).1 := by
      simp [Spec.run, ha]
    unfold Spec.steps
    simp only
    rw [ih (Spec.step T l).1 (Spec.step T l).2 hne1, hrun]
    generalize Spec.run T k (Spec.step T l).1 = ps
    rw [hform, List.map_map]
    apply List.map_congr_left
    intro v _
    simp only [Function.comp, List.count_cons]
    by_cases hva : v.addr = a
    · have : (a == v.addr) = true := by simp [hva]
      simp only [hva, if_true]
      congr 1
      rw [Int.natCast_succ, Int.add_mul, Int.one_mul, Int.natCast_add, Int.mul_add]
      simp; omega
    · have : (a == v.addr) = false := by simp; exact fun h => hva h.symm
      simp only [hva, if_false, this]
      congr 1
      rw [Int.natCast_succ, Int.add_mul, Int.one_mul]
      simp; omega


end KV.ValSet
