import KV.Proofs.TxPoolGap
/-!
# A rejected submission leaves the pool unchanged (property C17, after the repair of F12)

`add` tests replacement eligibility before it makes room.  Under the invariants (`Good`: members
filed under their sender in nonce-indexed lists; `NDisj`: no nonce both pending and queued) the
test decides the outcome of the insertion for good: discarding other transactions only removes or
demotes list members, so the transaction in the way — if any — is still the same one.  Hence every
branch of `add` that returns an error returns the pool it was given.
-/
namespace KV.TxPool
open TxList
namespace Pool

/-- `x` sits in some pending or queued list -/
def Listed (p : Pool) (x : Tx) : Prop :=
  (∃ b l, amGet p.pending b = some l ∧ x ∈ l.txs) ∨ (∃ b l, amGet p.queue b = some l ∧ x ∈ l.txs)

/-- whatever is listed with the sender and nonce of `t` is beaten by `t` with the price bump -/
def Elig (bump : Nat) (p : Pool) (t : Tx) : Prop :=
  ∀ o, Listed p o → o.sender = t.sender → o.nonce = t.nonce → canReplace o t bump = true

theorem get?_of_mem_sorted {l : TxList} (hs : Sorted l.txs) {o : Tx} (ho : o ∈ l.txs) :
    l.get? o.nonce = some o := by
  cases hg : l.get? o.nonce with
  | none => exact absurd rfl (get?_none_nonce hg o ho)
  | some o' =>
    obtain ⟨h1, h2⟩ := get?_some_mem hg
    rw [sorted_nonce_inj hs h1 ho h2]

variable {c : Chain} {Φ : Phi c}

/-- the early test passed: nothing listed stands in the way -/
theorem elig_of_not_rejectEarly {p : Pool} (hg : Good Φ p) (hn : NDisj p) {t : Tx}
    (hr : p.rejectEarly t = false) : Elig p.cfg.priceBump p t := by
  intro o ho hs hnn
  unfold rejectEarly at hr
  simp only at hr
  rcases ho with ⟨b, l, hl, hol⟩ | ⟨b, l, hl, hol⟩
  · -- pending
    have hb : o.sender = b := Φ.psnd _ _ ((hg.pend b l hl).2 o hol)
    have hba : b = t.sender := by rw [← hb, hs]
    subst hba
    have hget := get?_of_mem_sorted (hg.pend _ l hl).1.1 hol
    rw [hnn] at hget
    simp only [hl, hget, Option.isSome_some, if_true, Option.getD_some, TxList.replaceable,
      Bool.not_eq_false'] at hr
    exact hr
  · -- queue: the pending list does not hold that nonce
    have hb : o.sender = b := Φ.qsnd _ _ ((hg.que b l hl).2 o hol)
    have hba : b = t.sender := by rw [← hb, hs]
    subst hba
    have hget := get?_of_mem_sorted (hg.que _ l hl).1.1 hol
    rw [hnn] at hget
    have key : (match amGet p.queue t.sender with
        | some ql => !ql.replaceable t p.cfg.priceBump
        | none => false) = false → canReplace o t p.cfg.priceBump = true := by
      intro h
      simp only [hl, hget, TxList.replaceable, Bool.not_eq_false'] at h
      exact h
    cases hp : amGet p.pending t.sender with
    | none =>
      simp only [hp, Bool.false_eq_true, if_false] at hr
      exact key hr
    | some pl =>
      cases hpg : pl.get? t.nonce with
      | none =>
        simp only [hp, hpg, Option.isSome_none, Bool.false_eq_true, if_false] at hr
        exact key hr
      | some x =>
        exfalso
        obtain ⟨hx1, hx2⟩ := get?_some_mem hpg
        exact hn t.sender t.nonce ⟨pl, hp, x, hx1, hx2⟩ ⟨l, hl, o, hol, hnn⟩

/-! ## listed members only disappear when room is made -/

theorem Listed_of_pending {p : Pool} {b : Nat} {l : TxList} {x : Tx} (hl : amGet p.pending b = some l)
    (hx : x ∈ l.txs) : Listed p x := Or.inl ⟨b, l, hl, hx⟩
theorem Listed_of_queue {p : Pool} {b : Nat} {l : TxList} {x : Tx} (hl : amGet p.queue b = some l)
    (hx : x ∈ l.txs) : Listed p x := Or.inr ⟨b, l, hl, hx⟩

theorem Listed_congr {p p' : Pool} (hp : p'.pending = p.pending) (hq : p'.queue = p.queue) (x : Tx) :
    Listed p' x ↔ Listed p x := by
  unfold Listed; rw [hp, hq]

/-- members of the queue after `enqueueTx` -/
theorem memQ_enqueueTx {p : Pool} {t : Tx} {loc addAll : Bool} {b : Nat} {l : TxList} {x : Tx}
    (hl : amGet (p.enqueueTx t loc addAll).1.queue b = some l) (hx : x ∈ l.txs) :
    x = t ∨ ∃ l0, amGet p.queue b = some l0 ∧ x ∈ l0.txs := by
  have hold : ∀ y ∈ ((amGet p.queue t.sender).getD (TxList.new false)).txs,
      ∃ l0, amGet p.queue t.sender = some l0 ∧ y ∈ l0.txs := by
    intro y hy
    cases hg : amGet p.queue t.sender with
    | none => rw [hg] at hy; simp [TxList.new] at hy
    | some l0 => rw [hg] at hy; exact ⟨l0, rfl, hy⟩
  rcases enqueueTx_queue_cases p t loc addAll with hq | hq
  · rw [hq] at hl
    by_cases hb : b = t.sender
    · subst hb
      rw [amGet_amSet_self] at hl; cases hl
      exact Or.inr (hold x hx)
    · rw [amGet_amSet_other _ _ hb] at hl
      exact Or.inr ⟨l, hl, hx⟩
  · rw [hq] at hl
    by_cases hb : b = t.sender
    · subst hb
      rw [amGet_amSet_self] at hl; cases hl
      rcases add_txs_sub _ _ _ x hx with hx | hx
      · exact Or.inl hx
      · exact Or.inr (hold x hx)
    · rw [amGet_amSet_other _ _ hb] at hl
      exact Or.inr ⟨l, hl, hx⟩

theorem Listed_enqueueL (ts : List Tx) (p : Pool) {x : Tx}
    (h : Listed (ts.foldl (fun q t => (q.enqueueTx t false false).1) p) x) : Listed p x ∨ x ∈ ts := by
  induction ts generalizing p with
  | nil => exact Or.inl h
  | cons t rest ih =>
    simp only [List.foldl_cons] at h
    rcases ih _ h with h | h
    · rcases h with ⟨b, l, hl, hx⟩ | ⟨b, l, hl, hx⟩
      · rw [enqueueTx_pending] at hl
        exact Or.inl (Listed_of_pending hl hx)
      · rcases memQ_enqueueTx hl hx with h | ⟨l0, hl0, hx0⟩
        · exact Or.inr (by simp [h])
        · exact Or.inl (Listed_of_queue hl0 hx0)
    · exact Or.inr (by simp [h])

theorem Listed_removeTx {p : Pool} {t x : Tx} (h : Listed (p.removeTx t) x) : Listed p x := by
  unfold removeTx at h
  split at h
  · exact h
  · have hvia : Listed (match amGet (p.allRemove t).queue t.sender with
        | none => p.allRemove t
        | some ql =>
          if (ql.remove t.nonce).1.isEmpty then { p.allRemove t with queue := amErase (p.allRemove t).queue t.sender }
          else { p.allRemove t with queue := amSet (p.allRemove t).queue t.sender (ql.remove t.nonce).1 }) x →
        Listed p x := by
      intro h
      split at h
      · exact h
      · rename_i ql hql
        rcases h with ⟨b, l, hl, hx⟩ | ⟨b, l, hl, hx⟩
        · rw [finishQueue_pending] at hl
          exact Listed_of_pending hl hx
        · by_cases hb : b = t.sender
          · subst hb
            have := finishQueue_self _ _ _ _ hl
            subst this
            exact Listed_of_queue hql (remove_sub _ _ x hx)
          · rw [finishQueue_other _ _ _ hb] at hl
            exact Listed_of_queue hl hx
    simp only at h
    split at h
    · exact hvia h
    · rename_i pl hpl
      split at h
      · rw [Listed_congr (pnSetIfLower_pending _ _ _) (pnSetIfLower_queue _ _ _)] at h
        rcases Listed_enqueueL _ _ h with h | h
        · rcases h with ⟨b, l, hl, hx⟩ | ⟨b, l, hl, hx⟩
          · by_cases hb : b = t.sender
            · subst hb
              have := finishPending_self _ _ _ _ hl
              subst this
              exact Listed_of_pending hpl (remove_sub _ _ x hx)
            · rw [finishPending_other _ _ _ hb] at hl
              exact Listed_of_pending hl hx
          · rw [finishPending_queue] at hl
            exact Listed_of_queue hl hx
        · exact Listed_of_pending hpl (remove_invalids_sub _ _ x h)
      · exact hvia h

theorem Listed_removeL (ts : List Tx) {p : Pool} {x : Tx} (h : Listed (ts.foldl removeTx p) x) :
    Listed p x := by
  induction ts generalizing p with
  | nil => exact h
  | cons t rest ih =>
    simp only [List.foldl_cons] at h
    exact Listed_removeTx (ih h)

theorem Elig_removeL {bump : Nat} {p : Pool} {t : Tx} (h : Elig bump p t) (ts : List Tx) :
    Elig bump (ts.foldl removeTx p) t :=
  fun o ho => h o (Listed_removeL ts ho)

/-! ## `cfg` is never changed -/

theorem enqueueTx_cfg (p : Pool) (t : Tx) (loc addAll : Bool) : (p.enqueueTx t loc addAll).1.cfg = p.cfg := by
  unfold enqueueTx; simp only; repeat' split
  all_goals rfl

theorem pnSetIfLower_cfg (p : Pool) (a n : Nat) : (p.pnSetIfLower a n).cfg = p.cfg := by
  unfold pnSetIfLower; split <;> rfl

theorem removeTx_cfg (p : Pool) (t : Tx) : (p.removeTx t).cfg = p.cfg := by
  unfold removeTx
  split
  · rfl
  · have hvia : (match amGet (p.allRemove t).queue t.sender with
        | none => p.allRemove t
        | some ql =>
          if (ql.remove t.nonce).1.isEmpty then { p.allRemove t with queue := amErase (p.allRemove t).queue t.sender }
          else { p.allRemove t with queue := amSet (p.allRemove t).queue t.sender (ql.remove t.nonce).1 }).cfg = p.cfg := by
      repeat' split
      all_goals rfl
    simp only
    split
    · exact hvia
    · split
      · have : ∀ (ts : List Tx) (q : Pool), (ts.foldl (fun q t => (q.enqueueTx t false false).1) q).cfg = q.cfg := by
          intro ts q
          exact foldl_inv (fun s : Pool => s.cfg = q.cfg) _ ts q rfl (fun s x _ hs => by rw [enqueueTx_cfg]; exact hs)
        rw [pnSetIfLower_cfg, this]; split <;> rfl
      · exact hvia

theorem removeL_cfg (ts : List Tx) (p : Pool) : (ts.foldl removeTx p).cfg = p.cfg :=
  foldl_inv (fun s : Pool => s.cfg = p.cfg) removeTx ts p rfl (fun s x _ hs => by rw [removeTx_cfg]; exact hs)

/-! ## an eligible transaction is inserted -/

theorem enqueueTx_inserted (p : Pool) (t : Tx) (loc addAll : Bool) :
    (p.enqueueTx t loc addAll).2.1 =
      (((amGet p.queue t.sender).getD (TxList.new false)).add t p.cfg.priceBump).2.1 := by
  unfold enqueueTx
  simp only
  split
  · rename_i h; simp at h; simp [h]
  · rename_i h; simp at h; simp [h]

theorem add_inserted_of {l : TxList} {t : Tx} {bump : Nat}
    (h : ∀ o, l.get? t.nonce = some o → canReplace o t bump = true) : (l.add t bump).2.1 = true := by
  unfold TxList.add
  cases hg : l.get? t.nonce with
  | none => simp
  | some o => simp [h o hg]

/-- after the eligibility test, `addTail` cannot answer "replacement underpriced" -/
theorem addTail_ok {p : Pool} (hg : Good Φ p) {t : Tx} (he : Elig p.cfg.priceBump p t)
    (isLocal loc : Bool) : ∀ e, (p.addTail t isLocal loc).2 ≠ .error e := by
  intro e
  have hpend : ∀ pl, amGet p.pending t.sender = some pl → (pl.add t p.cfg.priceBump).2.1 = true := by
    intro pl hpl
    apply add_inserted_of
    intro o ho
    obtain ⟨h1, h2⟩ := get?_some_mem ho
    exact he o (Listed_of_pending hpl h1) (Φ.psnd _ _ ((hg.pend _ pl hpl).2 o h1)) h2
  have hque : (((amGet p.queue t.sender).getD (TxList.new false)).add t p.cfg.priceBump).2.1 = true := by
    apply add_inserted_of
    intro o ho
    obtain ⟨h1, h2⟩ := get?_some_mem ho
    cases hq : amGet p.queue t.sender with
    | none => rw [hq] at h1; simp [TxList.new] at h1
    | some ql =>
      rw [hq] at h1
      exact he o (Listed_of_queue hq h1) (Φ.qsnd _ _ ((hg.que _ ql hq).2 o h1)) h2
  have hq2 : (p.enqueueTx t isLocal true).2.1 = true := by rw [enqueueTx_inserted]; exact hque
  cases hgp : amGet p.pending t.sender with
  | none =>
    simp only [addTail, hgp, Bool.false_eq_true, if_false, hq2, Bool.not_true]
    simp
  | some pl =>
    cases hgt : pl.get? t.nonce with
    | none =>
      simp only [addTail, hgp, hgt, Option.isSome_none, Bool.false_eq_true, if_false, hq2, Bool.not_true]
      simp
    | some o =>
      simp only [addTail, hgp, hgt, Option.getD_some, Option.isSome_some, if_true, hpend pl hgp, Bool.not_true]
      simp

/-- **a rejecting branch of `addRoom` returns the pool unchanged** once the eligibility test has
been passed -/
theorem addRoom_reject_noop {p : Pool} (hg : Good Φ p) (hpq : Φ.PQ) {t : Tx}
    (he : Elig p.cfg.priceBump p t) (isLocal loc : Bool) :
    ∀ r ∈ p.addRoom t isLocal loc, ∀ e, r.2 = .error e → r.1 = p := by
  intro r hr e hre
  unfold addRoom at hr
  simp only at hr
  split at hr
  · split at hr
    · simp at hr; subst hr; rfl
    · split at hr
      · simp at hr; subst hr; rfl
      · simp only [List.mem_map] at hr
        obtain ⟨d, _, hd⟩ := hr
        cases d with
        | none => simp at hd; subst hd; rfl
        | some drop =>
          simp only at hd
          subst hd
          exfalso
          have h0 : Good Φ ({ p with changes := p.changes + drop.length } : Pool) := hg.frame rfl rfl rfl
          have e0 : Elig p.cfg.priceBump ({ p with changes := p.changes + drop.length } : Pool) t :=
            fun o ho => he o ((Listed_congr (p := p) rfl rfl o).mp ho)
          have hcfg : (drop.foldl removeTx ({ p with changes := p.changes + drop.length } : Pool)).cfg = p.cfg :=
            removeL_cfg drop _
          have e1 : Elig (drop.foldl removeTx ({ p with changes := p.changes + drop.length } : Pool)).cfg.priceBump
              (drop.foldl removeTx ({ p with changes := p.changes + drop.length } : Pool)) t := by
            rw [hcfg]; exact Elig_removeL e0 drop
          exact addTail_ok (good_removeL h0 hpq drop) e1 isLocal loc e hre
  · simp at hr; subst hr
    exact absurd hre (addTail_ok hg he isLocal loc e)

/-- **reject_noop for `add`**: in a state satisfying the invariants every branch of `add` that
answers with an error — whatever the error — returns the pool it was given -/
theorem add_reject_noop {p : Pool} (hg : Good Φ p) (hpq : Φ.PQ) (hn : NDisj p) (t : Tx) (loc : Bool) :
    ∀ r ∈ p.add t loc, ∀ e, r.2 = .error e → r.1 = p := by
  intro r hr e hre
  unfold add at hr
  split at hr
  · simp at hr; subst hr; rfl
  · simp only at hr
    split at hr
    · simp at hr; subst hr; rfl
    · split at hr
      · simp at hr; subst hr; rfl
      · rename_i hrej
        have hrej' : p.rejectEarly t = false := by simpa using hrej
        exact addRoom_reject_noop hg hpq (elig_of_not_rejectEarly hg hn hrej') _ loc r hr e hre

/-- a batch in which every transaction is rejected leaves the pool unchanged and marks no account
dirty -/
theorem addBatch_reject_noop (txs : List Tx) {p : Pool} (hg : Good Φ p) (hpq : Φ.PQ) (hn : NDisj p)
    (loc : Bool) :
    ∀ r ∈ p.addBatch loc txs, (∀ x ∈ r.2.1, ∃ e, x = .error e) → r.1 = p ∧ r.2.2 = [] := by
  induction txs with
  | nil => intro r hr _; simp [addBatch] at hr; subst hr; exact ⟨rfl, rfl⟩
  | cons t ts ih =>
    intro r hr hall
    simp only [addBatch, List.mem_flatMap, List.mem_map] at hr
    obtain ⟨r1, hr1, s, hs, he⟩ := hr
    subst he
    simp only at hall ⊢
    obtain ⟨e, hre⟩ := hall r1.2 (by simp)
    have h1 := add_reject_noop hg hpq hn t loc r1 hr1 e hre
    rw [h1] at hs
    obtain ⟨i1, i2⟩ := ih s hs (fun x hx => hall x (by simp [hx]))
    refine ⟨i1, ?_⟩
    rw [hre]
    exact i2

/-- the reorg run on a pool within its limits with nothing to promote only resets the churn
counter -/
theorem runReorg_idle_settled (p : Pool) (h1 : p.pendingCount ≤ p.cfg.globalSlots)
    (h2 : p.queuedCount ≤ p.cfg.globalQueue) : p.runReorg none [] = [{ p with changes := 0 }] := by
  have e1 : p.promoteExecutables [] = p := rfl
  have e2 : p.truncatePending = p := by unfold truncatePending; simp [h1]
  have e3 : p.truncateQueue = [p] := by unfold truncateQueue; simp [h2]
  simp [runReorg, e1, e2, e3]

end Pool
end KV.TxPool
