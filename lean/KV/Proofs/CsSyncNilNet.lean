import KV.Proofs.CsSyncByzNet
import KV.Proofs.CsSyncNilRun
/-! Network level: a failed round without a proposal takes a boundary at which no correct node is
locked to the boundary of the next round (C04, `KV/Props/C04Rot.lean`).  Core Lean only. -/
namespace KV.Props.C04Net
open KV.Cs KV.Cs.Sync KV.Agree KV.Props.C03 KV.Props.C01Cs

/-- the failed round (h, r): no proposal arrives; every correct node's Propose timeout fires, the
nil prevotes of the correct validators reach every correct node, then their nil precommits, then
every correct node's PrecommitWait timeout fires (`nb` = the block `createProposalBlock` returns
at the node that is the proposer of round `r + 1`) -/
def nilRound (N : Net) (h r : Nat) (nb : Option Nat) : List GStep :=
  phase (correct N) (fun _ => [(none, .timeout h r .propose)]) ++
  phase (correct N) (fun _ => (correct N).map (nilPv h r)) ++
  phase (correct N) (fun _ => (correct N).map (nilPc h r)) ++
  phase (correct N) (fun _ => [(nb, .timeout h r .precommitWait)])

/-- the boundary of round (h, r) with no correct node locked and no valid block: every correct
node satisfies `Cs.Sync.NB`; a correct node that is the round's proposer has signed the proposal
for `b` (POL round 0 = none) -/
def NilReady (N : Net) (g : GState) (h r b : Nat) : Prop :=
  CorrectQuorum N ∧ ∀ i, i < N.powers.length → N.F i = false →
    NB (N.cfg i) h r (g.st i) ∧
    ((N.cfg i).proposer h r = i → Action.signProposal h r 0 b ∈ (g.st i).log)

theorem quorateT_correct (N : Net) (cfg : Config) (hp : cfg.powers = N.powers) (hq : CorrectQuorum N) (x : Target) :
    QuorateT cfg x (correct N) := by
  intro s hs
  have h1 := power_le_sumFor N.powers s x (fun j => !N.F j) (fun i hi hq => by
    apply hs i
    rw [mem_correct]
    exact ⟨hi, by simpa using hq⟩)
  unfold isMaj
  rw [hp, total_eq_power]
  unfold CorrectQuorum at hq
  exact decide_eq_true (by omega)

theorem st_phase (N : Net) (g : GState) (f : Nat → List (Option Nat × Input)) (i : Nat) (hi : i ∈ correct N) :
    (grun N g (phase (correct N) f)).st i = run (N.cfg i) (g.st i) (f i) := by
  rw [grun_st, proj_phase i _ _ (correct_nodup N), if_pos hi]

/-- **nil_round_advances.**  From a global state with `GInv` at the boundary `NilReady` of round
(h, r): the failed round is a legal execution and ends at the boundary of round (h, r + 1); the
proposer of that round (if correct) has signed the proposal for the block `b'` it created. -/
theorem nil_round_advances (N : Net) (wf : N.WF) (g : GState) (G : GInv N g) (h r b b' : Nat)
    (R : NilReady N g h r b) :
    GOkS N g (nilRound N h r (some b')) ∧ NilReady N (grun N g (nilRound N h r (some b'))) h (r + 1) b' := by
  obtain ⟨hq, hnode⟩ := R
  have hnb : ∀ i ∈ correct N, NB (N.cfg i) h r (g.st i) := fun i hi =>
    (hnode i (mem_correct.mp hi).1 (mem_correct.mp hi).2).1
  have hall : ∀ j, j < N.powers.length → N.F j = false →
      (g.st j).height = h ∧ (g.st j).round = r ∧ (g.st j).step = .propose := fun j hj hFj =>
    ⟨(hnode j hj hFj).1.base.hh, (hnode j hj hFj).1.base.hr, (hnode j hj hFj).1.st⟩
  have fm : ∀ i, FaultyMinority (N.cfg i).powers (byz N) := fun i => by
    rw [wf.powers_eq]; exact faultyMinority_of_quorum N hq
  have hval : ∀ i ∈ correct N, isVal (N.cfg i) = true := fun i hi => by
    unfold isVal; rw [wf.me_eq, wf.powers_eq]; exact decide_eq_true (mem_correct.mp hi).1
  have hlt : ∀ i, ∀ j ∈ correct N, j < n (N.cfg i) := fun i j hj => by
    unfold n; rw [wf.powers_eq]; exact (mem_correct.mp hj).1
  have hFc : ∀ j ∈ correct N, byz N j = false := fun j hj => byz_correct hj
  have hqT : ∀ i, QuorateT (N.cfg i) none (correct N) := fun i => quorateT_correct N _ (wf.powers_eq i) hq none
  have hF : ∀ i ∈ correct N, N.F i = false := fun i hi => (mem_correct.mp hi).2
  have hr1 : ∀ i ∈ correct N, 1 ≤ r := fun i hi => by
    have := (G.inv i).r1
    rw [(hnb i hi).base.hr] at this; exact this
  -- phase 1: the Propose timeouts
  have ok1 : GOkS N g (phase (correct N) (fun _ => [(none, .timeout h r .propose)])) :=
    goks_phase_local N _ _ g (correct_nodup N) (fun i hi => ⟨hF i hi, (hnb i hi).sch, trivial, trivial⟩)
  have G1 := grun_inv_s wf _ g G ok1
  have s1 : ∀ i (hi : i ∈ correct N), T1 (N.cfg i) (byz N) h r
      ((grun N g (phase (correct N) (fun _ => [(none, .timeout h r .propose)]))).st i) := fun i hi => by
    rw [st_phase N g _ i hi]
    exact (hnb i hi).timeout (N.cfg i) (byz N) h r (fm i) (hval i hi)
      (fun t => corrEmpty_of_ginv G h r hall i t r (Nat.le_refl _)) none
  -- phase 2: the nil prevotes
  have ok2 : GOkS N (grun N g (phase (correct N) (fun _ => [(none, .timeout h r .propose)])))
      (phase (correct N) (fun _ => (correct N).map (nilPv h r))) := by
    apply goks_easy2
    intro s hs
    obtain ⟨h1, h2⟩ := mem_phase hs
    refine ⟨hF _ h1, ?_⟩
    obtain ⟨j, hj, he⟩ := List.mem_map.mp h2
    rw [← he]
    exact Or.inr (G1.compl j h .prevote r none (hF j hj) (s1 j hj).sgv)
  have G2 := grun_inv_s wf _ _ G1 ok2
  have s2 : ∀ i (hi : i ∈ correct N), T2 (N.cfg i) (byz N) h r
      ((grun N (grun N g (phase (correct N) (fun _ => [(none, .timeout h r .propose)])))
        (phase (correct N) (fun _ => (correct N).map (nilPv h r)))).st i) := fun i hi => by
    rw [st_phase N _ _ i hi]
    exact node_nil_prevotes (N.cfg i) (byz N) h r (s1 i hi) (fm i) (hval i hi) (correct N) (hlt i) hFc (hqT i)
  -- phase 3: the nil precommits
  have ok3 : GOkS N (grun N (grun N g (phase (correct N) (fun _ => [(none, .timeout h r .propose)])))
        (phase (correct N) (fun _ => (correct N).map (nilPv h r))))
      (phase (correct N) (fun _ => (correct N).map (nilPc h r))) := by
    apply goks_easy2
    intro s hs
    obtain ⟨h1, h2⟩ := mem_phase hs
    refine ⟨hF _ h1, ?_⟩
    obtain ⟨j, hj, he⟩ := List.mem_map.mp h2
    rw [← he]
    exact Or.inr (G2.compl j h .precommit r none (hF j hj) (s2 j hj).sg)
  have G3 := grun_inv_s wf _ _ G2 ok3
  have s3 : ∀ i (hi : i ∈ correct N), _ := fun i hi =>
    node_nil_precommits (N.cfg i) (byz N) h r (s2 i hi) (fm i) (correct N) (hlt i) hFc (hqT i)
  -- phase 4: the PrecommitWait timeouts
  have ok4 : GOkS N (grun N (grun N (grun N g (phase (correct N) (fun _ => [(none, .timeout h r .propose)])))
        (phase (correct N) (fun _ => (correct N).map (nilPv h r))))
        (phase (correct N) (fun _ => (correct N).map (nilPc h r))))
      (phase (correct N) (fun _ => [(some b', .timeout h r .precommitWait)])) :=
    goks_phase_local N _ _ _ (correct_nodup N) (fun i hi => by
      refine ⟨hF i hi, ?_, trivial, trivial⟩
      show (h, r, Step.precommitWait) ∈ _
      rw [st_phase N _ _ i hi]
      exact (s3 i hi).2)
  have e : grun N g (nilRound N h r (some b')) =
      grun N (grun N (grun N (grun N g (phase (correct N) (fun _ => [(none, .timeout h r .propose)])))
        (phase (correct N) (fun _ => (correct N).map (nilPv h r))))
        (phase (correct N) (fun _ => (correct N).map (nilPc h r))))
        (phase (correct N) (fun _ => [(some b', .timeout h r .precommitWait)])) := by
    unfold nilRound
    rw [grun_append, grun_append, grun_append]
  refine ⟨?_, ?_⟩
  · unfold nilRound
    exact (goks_append N _ _ g).mpr ⟨(goks_append N _ _ g).mpr ⟨(goks_append N _ _ g).mpr ⟨ok1, ok2⟩,
      by rw [grun_append]; exact ok3⟩, by rw [grun_append, grun_append]; exact ok4⟩
  · rw [e]
    refine ⟨hq, fun i hi hFi => ?_⟩
    have hic : i ∈ correct N := mem_correct.mpr ⟨hi, hFi⟩
    rw [st_phase N _ _ i hic, st_phase N _ _ i hic]
    obtain ⟨h1, h2⟩ := (s3 i hic).1.timeout (N.cfg i) (byz N) h r (hr1 i hic) (some b')
    exact ⟨h1, fun hp => h2 b' rfl (hval i hic) (by rw [wf.me_eq]; exact hp)⟩

end KV.Props.C04Net
