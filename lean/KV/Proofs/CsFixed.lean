import KV.Model.CsFixed
import KV.Proofs.CsLock
import KV.Proofs.CsFrame
/-! The invariants of `Cs.step` (`Inv`: C03 (1), (2), (4), (5); `Lock`: C03 (3) = obligation O3 of the
agreement proof; `Frame`: what one input does to the log / vote sets / blocks seen, used by the
network composition `KV/Props/C01Cs.lean`) hold for the repaired model `stepFixed`
(`KV/Model/CsFixed.lean`) as well.  The new unlock site `releaseStale` supplies its own witness for
`Lock.cur`: the polka for another value at a round in `(lockedRound, round]` it found.
Every caller lemma is the one of `CsStep.lean` / `CsLock.lean` / `CsFrame.lean` with the lemma about
`enterNewRound` replaced.  Core Lean only. -/
namespace KV.Cs

/-! ### `releaseStale` -/

theorem releaseStale_cases (cfg : Config) (σ : State) :
    releaseStale cfg σ = σ ∨
    (releaseStale cfg σ = unlock σ ∧ ∃ lb, σ.locked = some lb ∧ stalePolka cfg σ lb.id = true) := by
  unfold releaseStale
  split
  · rename_i lb hl
    split
    · rename_i hs; exact Or.inr ⟨rfl, lb, hl, hs⟩
    · exact Or.inl rfl
  · exact Or.inl rfl

/-- what `stalePolka` found: a polka for another value at a round in `(lockedRound, round]` -/
theorem stalePolka_spec {cfg : Config} {σ : State} {b : Nat} (h : stalePolka cfg σ b = true) :
    ∃ r' x, σ.lockedRound < r' ∧ r' ≤ σ.round ∧ x ≠ some b ∧
      maj23 cfg.powers (σ.slots .prevote σ.height r') = some x := by
  unfold stalePolka at h
  rw [List.any_eq_true] at h
  obtain ⟨r', hr', hc⟩ := h
  rw [List.mem_range] at hr'
  simp only [Bool.and_eq_true, decide_eq_true_eq] at hc
  obtain ⟨h1, h2⟩ := hc
  cases hm : maj23 cfg.powers (σ.slots .prevote σ.height r') with
  | none => rw [hm] at h2; cases h2
  | some x =>
    rw [hm] at h2
    exact ⟨r', x, h1, by omega, by simpa using h2, hm⟩

/-- and conversely: if there is one, `stalePolka` finds it -/
theorem stalePolka_complete {cfg : Config} {σ : State} {b r' : Nat} {x : Target} (h1 : σ.lockedRound < r')
    (h2 : r' ≤ σ.round) (h3 : x ≠ some b) (h4 : maj23 cfg.powers (σ.slots .prevote σ.height r') = some x) :
    stalePolka cfg σ b = true := by
  unfold stalePolka
  rw [List.any_eq_true]
  refine ⟨r', List.mem_range.mpr (by omega), ?_⟩
  simp only [Bool.and_eq_true, decide_eq_true_eq]
  refine ⟨h1, ?_⟩
  rw [h4]
  simpa using h3

@[simp] theorem releaseStale_height (cfg : Config) (σ : State) : (releaseStale cfg σ).height = σ.height := by
  rcases releaseStale_cases cfg σ with e | ⟨e, -⟩ <;> rw [e] <;> rfl
@[simp] theorem releaseStale_round (cfg : Config) (σ : State) : (releaseStale cfg σ).round = σ.round := by
  rcases releaseStale_cases cfg σ with e | ⟨e, -⟩ <;> rw [e] <;> rfl
@[simp] theorem releaseStale_step (cfg : Config) (σ : State) : (releaseStale cfg σ).step = σ.step := by
  rcases releaseStale_cases cfg σ with e | ⟨e, -⟩ <;> rw [e] <;> rfl
@[simp] theorem releaseStale_votes (cfg : Config) (σ : State) : (releaseStale cfg σ).votes = σ.votes := by
  rcases releaseStale_cases cfg σ with e | ⟨e, -⟩ <;> rw [e] <;> rfl
@[simp] theorem releaseStale_log (cfg : Config) (σ : State) : (releaseStale cfg σ).log = σ.log := by
  rcases releaseStale_cases cfg σ with e | ⟨e, -⟩ <;> rw [e] <;> rfl
@[simp] theorem releaseStale_seen (cfg : Config) (σ : State) : (releaseStale cfg σ).seen = σ.seen := by
  rcases releaseStale_cases cfg σ with e | ⟨e, -⟩ <;> rw [e] <;> rfl

theorem releaseStale_inv {cfg : Config} {σ : State} (I : Inv cfg σ) : Inv cfg (releaseStale cfg σ) := by
  rcases releaseStale_cases cfg σ with e | ⟨e, -⟩
  · rw [e]; exact I
  · rw [e]; exact unlock_inv I

/-- the new unlock site keeps the lock invariant: the polka it found is the witness -/
theorem releaseStale_lock {cfg : Config} {σ : State} (L : Lock cfg σ) : Lock cfg (releaseStale cfg σ) := by
  rcases releaseStale_cases cfg σ with e | ⟨e, lb, hl, hs⟩
  · rw [e]; exact L
  · rw [e]
    obtain ⟨r', x, h1, h2, h3, h4⟩ := stalePolka_spec hs
    refine L.unlock r' x (maj23_sound h4) h2 ?_ (fun r b _ hle => by omega)
    intro blk hb
    rw [hl] at hb
    cases hb
    exact h3

theorem releaseStale_ext (cfg : Config) (σ : State) : Ext σ (releaseStale cfg σ) :=
  Ext.of_eq (by simp) (by simp) (by simp)

/-! ### `enterNewRoundFixed` -/

theorem enterNewRoundFixed_inv {cfg : Config} {σ : State} (I : Inv cfg σ) (nb : Option Nat) (h r : Nat) :
    Inv cfg (enterNewRoundFixed cfg nb h r σ) := by
  unfold enterNewRoundFixed
  split
  · exact I
  · rename_i hg
    have hh : h = σ.height := by omega
    have J := releaseStale_inv (newRoundPrep_inv I r (fun hc => hg (Or.inr hc)))
    obtain ⟨extra, hh', hr', -⟩ := newRoundPrep_spec cfg r σ
    simp only
    split
    · split
      · exact J.schedule h r .newRound (by rw [releaseStale_height, releaseStale_round, hh', hr', hh]; unfold le3; omega)
      · exact J
    · exact enterPropose_inv J nb h r (by rw [releaseStale_round, hr']; exact Nat.le_refl _)

theorem enterNewRoundFixed_round_ge (cfg : Config) (nb : Option Nat) (r : Nat) (σ : State) :
    r ≤ (enterNewRoundFixed cfg nb σ.height r σ).round := by
  unfold enterNewRoundFixed
  split
  · rename_i hg; omega
  · obtain ⟨extra, hh', hr', -⟩ := newRoundPrep_spec cfg r σ
    simp only
    split
    · split
      · simp [hr']
      · rw [releaseStale_round]; omega
    · exact enterPropose_round_ge cfg nb _ r _ (by rw [releaseStale_round]; exact hr')

theorem enterNewRoundFixed_lock {cfg : Config} {σ : State} (L : Lock cfg σ) (nb : Option Nat) (h r : Nat) :
    Lock cfg (enterNewRoundFixed cfg nb h r σ) := by
  unfold enterNewRoundFixed
  split
  · exact L
  · rename_i hg
    have J := releaseStale_lock (newRoundPrep_lock L r (by omega))
    simp only
    split
    · split
      · exact J.schedule h r .newRound
      · exact J
    · exact enterPropose_lock J nb h r

theorem enterNewRoundFixed_ext (cfg : Config) (nb : Option Nat) (h r : Nat) (σ : State) :
    Ext σ (enterNewRoundFixed cfg nb h r σ) := by
  unfold enterNewRoundFixed
  split
  · exact Ext.refl _
  · have E := (newRoundPrep_ext cfg r σ).trans (releaseStale_ext cfg _)
    simp only
    split
    · split
      · exact E.trans (schedule_ext ..)
      · exact E
    · exact E.trans (enterPropose_ext ..)

/-! ### the callers: `Inv` -/

theorem prevoteSwitchFixed_inv {cfg : Config} {σ : State} (I : Inv cfg σ) (nb : Option Nat) (h vr : Nat)
    (m : Option Target) (any : Bool) : Inv cfg (prevoteSwitchFixed cfg nb h vr m any σ) := by
  unfold prevoteSwitchFixed
  split
  · exact enterNewRoundFixed_inv I nb h vr
  · split
    · rename_i hc
      have hle : vr ≤ σ.round := by
        simp only [Bool.and_eq_true, beq_iff_eq] at hc; omega
      split
      · split
        · exact enterPrecommit_inv I h vr hle
        · split
          · exact enterPrevoteWait_inv I h vr hle
          · exact I
      · split
        · exact enterPrevoteWait_inv I h vr hle
        · exact I
    · split
      · split
        · split
          · exact enterPrevote_inv I h _ (Nat.le_refl _)
          · exact I
        · exact I
      · exact I

theorem afterPrevoteFixed_inv {cfg : Config} {σ : State} (I : Inv cfg σ) (nb : Option Nat) (vr : Nat) :
    Inv cfg (afterPrevoteFixed cfg nb vr σ) := by
  unfold afterPrevoteFixed
  exact prevoteSwitchFixed_inv (polkaUpdate_inv I vr _).1 nb _ vr _ _

theorem afterPrecommitFixed_inv {cfg : Config} {σ : State} (I : Inv cfg σ) (nb : Option Nat) (vr : Nat) :
    Inv cfg (afterPrecommitFixed cfg nb vr σ) := by
  unfold afterPrecommitFixed
  simp only
  split
  · have J1 := enterNewRoundFixed_inv I nb σ.height vr
    have J2 := enterPrecommit_inv J1 σ.height vr (enterNewRoundFixed_round_ge cfg nb vr σ)
    split
    · exact enterCommit_inv J2 _ _
    · exact enterPrecommitWait_inv J2 _ _
  · split
    · exact enterPrecommitWait_inv (enterNewRoundFixed_inv I nb _ _) _ _
    · exact I

theorem addVoteFixed_inv {cfg : Config} {σ : State} (I : Inv cfg σ) (nb : Option Nat) (peer idx : Nat) (t : VType)
    (h r : Nat) (tgt : Target) (sigok : Bool) : Inv cfg (addVoteFixed cfg nb peer idx t h r tgt sigok σ) := by
  unfold addVoteFixed
  split
  · exact I
  · split
    · exact I
    · rename_i hh
      split
      · exact I
      · rename_i σ1 he
        obtain ⟨J, hh1⟩ := ensureRound_inv I peer r he
        split
        · exact J
        · split
          · rename_i hslot
            have K : Inv cfg { σ1 with votes := σ1.votes.map (setSlot t idx tgt h r), added := true } :=
              J.of_le rfl (Or.inr ⟨rfl, Nat.le_refl _⟩) rfl rfl
                (VLe_setSlot _ _ _ _ _ _ _ (by rw [← State.slots_eq]; exact hslot)) (fun _ h => h) J.lk J.pb
            split
            · exact afterPrevoteFixed_inv K nb r
            · exact afterPrecommitFixed_inv K nb r
          · exact J

theorem handleTimeoutFixed_inv {cfg : Config} {σ : State} (I : Inv cfg σ) (nb : Option Nat) (h r : Nat) (s : Step)
    (hok : h = σ.height → r ≤ σ.round) : Inv cfg (handleTimeoutFixed cfg nb h r s σ) := by
  unfold handleTimeoutFixed
  split
  · exact I
  · rename_i hg
    have hr : r ≤ σ.round := hok (by omega)
    split
    · exact enterNewRoundFixed_inv I nb h 1
    · exact enterPropose_inv I nb h 1 I.r1
    · exact enterPrevote_inv I h r hr
    · exact enterPrecommit_inv I h r hr
    · exact enterNewRoundFixed_inv (enterPrecommit_inv I h r hr) nb h (r + 1)
    · exact panic_inv I

/-- **`Inv` is preserved by the repaired step** (same hypothesis on timeouts as `step_inv`) -/
theorem stepFixed_inv {cfg : Config} {σ : State} (I : Inv cfg σ) (nb : Option Nat) (i : Input) (hok : TimeoutOk σ i) :
    Inv cfg (stepFixed cfg σ nb i) := by
  unfold stepFixed
  split
  · exact I
  · have J : Inv cfg { σ with added := false } := I.of_eq rfl rfl (Nat.le_refl _) rfl rfl rfl rfl I.lk I.pb
    cases i with
    | proposal src sigok h r pol id => exact setProposal_inv J ..
    | block h id ok dec => exact addBlock_inv J ..
    | vote peer idx t h r tgt sigok => exact addVoteFixed_inv J ..
    | timeout h r s => exact handleTimeoutFixed_inv J nb h r s hok

/-! ### the callers: `Lock` -/

theorem prevoteSwitchFixed_lock {cfg : Config} {σ : State} (I : Inv cfg σ) (L : Lock cfg σ) (nb : Option Nat)
    (h vr : Nat) (m : Option Target) (any : Bool) : Lock cfg (prevoteSwitchFixed cfg nb h vr m any σ) := by
  unfold prevoteSwitchFixed
  split
  · exact enterNewRoundFixed_lock L nb h vr
  · split
    · rename_i hc
      have hle : vr ≤ σ.round := by
        simp only [Bool.and_eq_true, beq_iff_eq] at hc; omega
      split
      · split
        · exact enterPrecommit_lock I L h vr hle
        · split
          · exact enterPrevoteWait_lock L h vr
          · exact L
      · split
        · exact enterPrevoteWait_lock L h vr
        · exact L
    · split
      · split
        · split
          · exact enterPrevote_lock L h _
          · exact L
        · exact L
      · exact L

theorem afterPrevoteFixed_lock {cfg : Config} {σ : State} (I : Inv cfg σ) (L : Lock cfg σ) (nb : Option Nat)
    (vr : Nat) : Lock cfg (afterPrevoteFixed cfg nb vr σ) := by
  unfold afterPrevoteFixed
  exact prevoteSwitchFixed_lock (polkaUpdate_inv I vr _).1
    (polkaUpdate_lock L vr _ (fun bid hb => maj23_sound hb)) nb _ vr _ _

theorem afterPrecommitFixed_lock {cfg : Config} {σ : State} (I : Inv cfg σ) (L : Lock cfg σ) (nb : Option Nat)
    (vr : Nat) : Lock cfg (afterPrecommitFixed cfg nb vr σ) := by
  unfold afterPrecommitFixed
  simp only
  split
  · have J1 := enterNewRoundFixed_inv I nb σ.height vr
    have L1 := enterNewRoundFixed_lock L nb σ.height vr
    have J2 := enterPrecommit_inv J1 σ.height vr (enterNewRoundFixed_round_ge cfg nb vr σ)
    have L2 := enterPrecommit_lock J1 L1 σ.height vr (enterNewRoundFixed_round_ge cfg nb vr σ)
    split
    · exact enterCommit_lock J2 L2 _ _
    · exact enterPrecommitWait_lock L2 _ _
  · split
    · exact enterPrecommitWait_lock (enterNewRoundFixed_lock L nb _ _) _ _
    · exact L

theorem addVoteFixed_lock {cfg : Config} {σ : State} (I : Inv cfg σ) (L : Lock cfg σ) (nb : Option Nat)
    (peer idx : Nat) (t : VType) (h r : Nat) (tgt : Target) (sigok : Bool) :
    Lock cfg (addVoteFixed cfg nb peer idx t h r tgt sigok σ) := by
  unfold addVoteFixed
  split
  · exact L
  · split
    · exact L
    · rename_i hh
      split
      · exact L
      · rename_i σ1 he
        obtain ⟨J, hh1⟩ := ensureRound_inv I peer r he
        have JL := ensureRound_lock L peer r he
        split
        · exact JL
        · split
          · rename_i hslot
            have hvle : VLe cfg.powers σ1.votes (σ1.votes.map (setSlot t idx tgt h r)) :=
              VLe_setSlot _ _ _ _ _ _ _ (by rw [← State.slots_eq]; exact hslot)
            have K : Inv cfg { σ1 with votes := σ1.votes.map (setSlot t idx tgt h r), added := true } :=
              J.of_le rfl (Or.inr ⟨rfl, Nat.le_refl _⟩) rfl rfl hvle (fun _ h => h) J.lk J.pb
            have KL : Lock cfg { σ1 with votes := σ1.votes.map (setSlot t idx tgt h r), added := true } :=
              JL.of_le rfl (Nat.le_refl _) rfl hvle rfl rfl
            split
            · exact afterPrevoteFixed_lock K KL nb r
            · exact afterPrecommitFixed_lock K KL nb r
          · exact JL

theorem handleTimeoutFixed_lock {cfg : Config} {σ : State} (I : Inv cfg σ) (L : Lock cfg σ) (nb : Option Nat)
    (h r : Nat) (s : Step) (hok : h = σ.height → r ≤ σ.round) : Lock cfg (handleTimeoutFixed cfg nb h r s σ) := by
  unfold handleTimeoutFixed
  split
  · exact L
  · rename_i hg
    have hr : r ≤ σ.round := hok (by omega)
    split
    · exact enterNewRoundFixed_lock L nb h 1
    · exact enterPropose_lock L nb h 1
    · exact enterPrevote_lock L h r
    · exact enterPrecommit_lock I L h r hr
    · exact enterNewRoundFixed_lock (enterPrecommit_lock I L h r hr) nb h (r + 1)
    · exact L.panic

/-- **the lock invariant is preserved by the repaired step** -/
theorem stepFixed_lock {cfg : Config} {σ : State} (I : Inv cfg σ) (L : Lock cfg σ) (nb : Option Nat) (i : Input)
    (hok : TimeoutOk σ i) : Lock cfg (stepFixed cfg σ nb i) := by
  unfold stepFixed
  split
  · exact L
  · have J : Inv cfg { σ with added := false } := I.of_eq rfl rfl (Nat.le_refl _) rfl rfl rfl rfl I.lk I.pb
    have JL : Lock cfg { σ with added := false } := L.of_eq rfl rfl rfl rfl rfl rfl
    cases i with
    | proposal src sigok h r pol id => exact setProposal_lock JL ..
    | block h id ok dec => exact addBlock_lock J JL ..
    | vote peer idx t h r tgt sigok => exact addVoteFixed_lock J JL ..
    | timeout h r s => exact handleTimeoutFixed_lock J JL nb h r s hok

/-! ### the callers: frame -/

theorem prevoteSwitchFixed_ext (cfg : Config) (nb : Option Nat) (h vr : Nat) (m : Option Target) (any : Bool)
    (σ : State) : Ext σ (prevoteSwitchFixed cfg nb h vr m any σ) := by
  unfold prevoteSwitchFixed
  (repeat' split) <;>
    first
    | exact Ext.refl _
    | exact enterNewRoundFixed_ext ..
    | exact enterPrecommit_ext ..
    | exact enterPrevoteWait_ext ..
    | exact enterPrevote_ext ..

theorem afterPrevoteFixed_ext (cfg : Config) (nb : Option Nat) (vr : Nat) (σ : State) :
    Ext σ (afterPrevoteFixed cfg nb vr σ) := by
  unfold afterPrevoteFixed
  exact (polkaUpdate_ext vr _ σ).trans (prevoteSwitchFixed_ext ..)

theorem afterPrecommitFixed_ext (cfg : Config) (nb : Option Nat) (vr : Nat) (σ : State) :
    Ext σ (afterPrecommitFixed cfg nb vr σ) := by
  unfold afterPrecommitFixed
  simp only
  split
  · split
    · exact ((enterNewRoundFixed_ext cfg nb σ.height vr σ).trans (enterPrecommit_ext ..)).trans (enterCommit_ext ..)
    · exact ((enterNewRoundFixed_ext cfg nb σ.height vr σ).trans (enterPrecommit_ext ..)).trans
        (enterPrecommitWait_ext ..)
  · split
    · exact (enterNewRoundFixed_ext cfg nb σ.height vr σ).trans (enterPrecommitWait_ext ..)
    · exact Ext.refl _

theorem handleTimeoutFixed_ext (cfg : Config) (nb : Option Nat) (h r : Nat) (s : Step) (σ : State) :
    Ext σ (handleTimeoutFixed cfg nb h r s σ) := by
  unfold handleTimeoutFixed
  split
  · exact Ext.refl _
  · split
    · exact enterNewRoundFixed_ext ..
    · exact enterPropose_ext ..
    · exact enterPrevote_ext ..
    · exact enterPrecommit_ext ..
    · exact (enterPrecommit_ext cfg h r σ).trans (enterNewRoundFixed_ext ..)
    · exact panic_ext _

theorem addVoteFixed_frame (cfg : Config) (nb : Option Nat) (peer idx : Nat) (t : VType) (h r : Nat) (tgt : Target)
    (sigok : Bool) (σ : State) :
    Frame cfg σ (addVoteFixed cfg nb peer idx t h r tgt sigok σ)
      (if sigok then some (idx, t, h, r, tgt) else none) none := by
  unfold addVoteFixed
  split
  · exact (Ext.refl σ).frame _ _
  · split
    · exact (Ext.refl σ).frame _ _
    · split
      · exact (Ext.refl σ).frame _ _
      · rename_i σ1 he
        have E1 := ensureRound_ext peer r he
        split
        · exact E1.frame _ _
        · rename_i hc
          have hc' : sigok = true ∧ idx < n cfg := by
            simpa using hc
          split
          · have F2 : Frame cfg σ1 { σ1 with votes := σ1.votes.map (setSlot t idx tgt h r), added := true }
                (if sigok then some (idx, t, h, r, tgt) else none) none := by
              refine ⟨⟨[], rfl⟩, ?_, Or.inl rfl⟩
              intro t' h' r' idx' tgt' hs
              rcases setSlot_prov _ _ _ _ _ _ _ _ _ _ _ hs with h1 | ⟨e1, e2, e3, e4, e5⟩
              · exact Or.inl h1
              · right
                subst e1 e2 e3 e4 e5
                exact ⟨by rw [hc'.1]; rfl, hc'.2⟩
            split
            · exact (E1.trans_frame F2).trans_ext (afterPrevoteFixed_ext ..)
            · exact (E1.trans_frame F2).trans_ext (afterPrecommitFixed_ext ..)
          · exact E1.frame _ _

/-- **the frame facts of the network composition hold for the repaired step** -/
theorem stepFixed_frame (cfg : Config) (σ : State) (nb : Option Nat) (i : Input) :
    Frame cfg σ (stepFixed cfg σ nb i) (voteOf i) (blockOf i) := by
  unfold stepFixed
  split
  · exact (Ext.refl σ).frame _ _
  · have E0 : Ext σ { σ with added := false } := Ext.of_eq rfl rfl rfl
    cases i with
    | proposal src sigok h r pol id => exact (E0.trans (setProposal_ext ..)).frame _ _
    | block h id ok dec => exact E0.trans_frame (addBlock_frame ..)
    | vote peer idx t h r tgt sigok => exact E0.trans_frame (addVoteFixed_frame ..)
    | timeout h r s => exact (E0.trans (handleTimeoutFixed_ext ..)).frame _ _

end KV.Cs
