import KV.Model.Trie
/-! Lemmas about the key encodings of `trie/encoding.go` (property C07, part 1). -/
namespace KV.Trie
open KV

/-- all elements are proper nibbles -/
def Nibbles (p : Key) : Prop := ∀ x ∈ p, x < 16

/-- the nibbles of a byte string, without terminator -/
def nibs : Bytes → Key
  | [] => []
  | b :: bs => b.toNat / 16 :: b.toNat % 16 :: nibs bs

theorem keybytesToHex_eq (bs : Bytes) : keybytesToHex bs = nibs bs ++ [16] := by
  induction bs with
  | nil => rfl
  | cons b bs ih => simp [keybytesToHex, nibs, ih]

theorem nibs_nibbles (bs : Bytes) : Nibbles (nibs bs) := by
  induction bs with
  | nil => intro x hx; cases hx
  | cons b bs ih =>
    intro x hx
    simp only [nibs, List.mem_cons] at hx
    rcases hx with h | h | h
    · subst h; have := b.toNat_lt; omega
    · subst h; omega
    · exact ih x h

theorem nibs_length (bs : Bytes) : (nibs bs).length = 2 * bs.length := by
  induction bs with
  | nil => rfl
  | cons b bs ih => simp [nibs, ih]; omega

theorem byte_hi (a b : Nat) (_ha : a < 16) (hb : b < 16) :
    (UInt8.ofNat (a * 16 + b)).toNat / 16 = a := by
  rw [UInt8.toNat_ofNat']; omega

theorem byte_lo (a b : Nat) (ha : a < 16) (hb : b < 16) :
    (UInt8.ofNat (a * 16 + b)).toNat % 16 = b := by
  rw [UInt8.toNat_ofNat']; omega

/-- `decodeNibbles` is inverted by `nibs` on an even number of proper nibbles -/
theorem nibs_decodeNibbles : ∀ (n : Nat) (p : Key), p.length = 2 * n → Nibbles p →
    nibs (decodeNibbles p) = p := by
  intro n
  induction n with
  | zero => intro p hl _; cases p with
    | nil => rfl
    | cons _ _ => simp at hl
  | succ n ih =>
    intro p hl hp
    match p, hl, hp with
    | a :: b :: r, hl, hp =>
      have ha : a < 16 := hp a (by simp)
      have hb : b < 16 := hp b (by simp)
      have hr : Nibbles r := fun x hx => hp x (by simp [hx])
      have hl' : r.length = 2 * n := by simp at hl; omega
      simp only [decodeNibbles, nibs, byte_hi a b ha hb, byte_lo a b ha hb, ih r hl' hr]
    | [_], hl, _ => simp at hl; omega
    | [], hl, _ => simp at hl

theorem decodeNibbles_nibs (bs : Bytes) : decodeNibbles (nibs bs) = bs := by
  induction bs with
  | nil => rfl
  | cons b bs ih =>
    simp only [nibs, decodeNibbles, ih]
    congr 1
    have : b.toNat / 16 * 16 + b.toNat % 16 = b.toNat := by omega
    rw [this, UInt8.ofNat_toNat]

theorem hasTerm_nibbles (p : Key) (hp : Nibbles p) : hasTerm p = false := by
  unfold hasTerm
  cases h : p.getLast? with
  | none => rfl
  | some x =>
    have hx : x ∈ p := List.mem_of_getLast? h
    have := hp x hx
    simp only [beq_eq_false_iff_ne, ne_eq, Option.some.injEq]
    omega

theorem hasTerm_concat (p : Key) : hasTerm (p ++ [16]) = true := by
  simp [hasTerm]

theorem length_cases (p : Key) : (∃ n, p.length = 2 * n) ∨ (∃ n, p.length = 2 * n + 1) := by
  by_cases h : p.length % 2 = 0
  · exact Or.inl ⟨p.length / 2, by omega⟩
  · exact Or.inr ⟨p.length / 2, by omega⟩

theorem dropLast_cons_concat (x : Nat) (q : Key) (y : Nat) :
    (x :: (q ++ [y])).dropLast = x :: q := by
  rw [← List.cons_append, List.dropLast_concat]

theorem dropLast_cons2_concat (a b : Nat) (q : Key) (y : Nat) :
    (a :: b :: (q ++ [y])).dropLast = a :: b :: q := by
  rw [← List.cons_append, ← List.cons_append, List.dropLast_concat]

/-- compact encoding of a key without terminator -/
theorem compact_roundtrip_noterm (p : Key) (hp : Nibbles p) :
    compactToHex (hexToCompact p) = p := by
  have ht := hasTerm_nibbles p hp
  rcases length_cases p with ⟨n, hn⟩ | ⟨n, hn⟩
  · have hmod : ¬ p.length % 2 = 1 := by omega
    simp only [hexToCompact, ht, Bool.false_eq_true, if_false, hmod]
    simp only [compactToHex, keybytesToHex_eq, nibs, nibs_decodeNibbles n p hn hp]
    simp [dropLast_cons2_concat, dropLast_cons_concat]
  · match p, hn, hp, ht with
    | x :: q, hn, hp, ht =>
      have hx : x < 16 := hp x (by simp)
      have hq : Nibbles q := fun y hy => hp y (by simp [hy])
      have hl : q.length = 2 * n := by simp at hn; omega
      have hmod : (x :: q).length % 2 = 1 := by simp; omega
      simp only [hexToCompact, ht, Bool.false_eq_true, if_false, hmod, if_true, List.headD_cons,
        List.tail_cons]
      have e1 : (UInt8.ofNat (0 * 32 + 16 + x)).toNat / 16 = 1 := by
        rw [UInt8.toNat_ofNat']; omega
      have e2 : (UInt8.ofNat (0 * 32 + 16 + x)).toNat % 16 = x := by
        rw [UInt8.toNat_ofNat']; omega
      simp only [compactToHex, keybytesToHex_eq, nibs, e1, e2, nibs_decodeNibbles n q hl hq]
      simp [dropLast_cons2_concat, dropLast_cons_concat]

/-- compact encoding of a key with terminator -/
theorem compact_roundtrip_term (p : Key) (hp : Nibbles p) :
    compactToHex (hexToCompact (p ++ [16])) = p ++ [16] := by
  have ht := hasTerm_concat p
  rcases length_cases p with ⟨n, hn⟩ | ⟨n, hn⟩
  · have hmod : ¬ p.length % 2 = 1 := by omega
    simp only [hexToCompact, ht, if_true, List.dropLast_concat, hmod, if_false]
    have e1 : (UInt8.ofNat (1 * 32)).toNat / 16 = 2 := by decide
    have e2 : (UInt8.ofNat (1 * 32)).toNat % 16 = 0 := by decide
    simp only [compactToHex, keybytesToHex_eq, nibs, e1, e2, nibs_decodeNibbles n p hn hp]
    simp
  · match p, hn, hp, ht with
    | x :: q, hn, hp, ht =>
      have hx : x < 16 := hp x (by simp)
      have hq : Nibbles q := fun y hy => hp y (by simp [hy])
      have hl : q.length = 2 * n := by simp at hn; omega
      have hmod : (x :: q).length % 2 = 1 := by simp; omega
      simp only [hexToCompact, ht, if_true, List.dropLast_concat, hmod, List.headD_cons,
        List.tail_cons]
      have e1 : (UInt8.ofNat (1 * 32 + 16 + x)).toNat / 16 = 3 := by
        rw [UInt8.toNat_ofNat']; omega
      have e2 : (UInt8.ofNat (1 * 32 + 16 + x)).toNat % 16 = x := by
        rw [UInt8.toNat_ofNat']; omega
      simp only [compactToHex, keybytesToHex_eq, nibs, e1, e2, nibs_decodeNibbles n q hl hq]
      simp

theorem nibs_injective : ∀ a b : Bytes, nibs a = nibs b → a = b := by
  intro a b h
  have := congrArg decodeNibbles h
  simpa [decodeNibbles_nibs] using this

end KV.Trie
