import KV.Model.Recovery
set_option linter.unusedSimpArgs false
/-! Model 2 of C05: what start-up finds at every crash point of a commit -/
namespace KV.Recovery

/-- the disk after `n` completely applied heights -/
structure Complete (m : Mode) (n : Nat) (d : Disk) : Prop where
  votes : ∀ i, d.votes i = decide (1 ≤ i ∧ i ≤ n)
  blocks : ∀ i, d.blocks i = decide (i ≤ n)
  ends : ∀ i, d.ends i = decide (i ≤ n)
  app : ∀ i, d.app i = decide (i ≤ n)
  tries : ∀ i, d.tries i = (match m with | .flush => decide (i ≤ n) | .mem => decide (i = 0))
  head : d.head = n
  cstates : ∀ i, d.cstates i = decide (i ≤ n)

theorem complete_genesis (m : Mode) : Complete m 0 Disk.genesis := by
  cases m <;> constructor <;> intros <;> simp [Disk.genesis] <;>
    first | omega | (rw [Bool.eq_iff_iff]; simp)

theorem upd_apply (f : Nat → Bool) (h i : Nat) : upd f h i = (i == h || f i) := rfl

theorem complete_step {m : Mode} {n : Nat} {d : Disk} (hc : Complete m n d) :
    Complete m (n+1) (d.applyAll (heightEvs m (n+1))) := by
  cases m <;> constructor <;> intros <;>
    simp [heightEvs, Disk.applyAll, Disk.apply, upd_apply, hc.votes, hc.blocks, hc.ends, hc.app, hc.tries,
      hc.head, hc.cstates] <;> (rw [Bool.eq_iff_iff]; simp; omega)

theorem applyAll_append (d : Disk) (a b : List Ev) : d.applyAll (a ++ b) = (d.applyAll a).applyAll b := by
  simp [Disk.applyAll, List.foldl_append]

theorem complete_heights {m : Mode} : ∀ (k a : Nat) {d : Disk}, Complete m a d →
    Complete m (a + k) (d.applyAll (heightsEvs m a k))
  | 0, a, d, hc => by simpa [heightsEvs, Disk.applyAll] using hc
  | k+1, a, d, hc => by
    have h1 := complete_step hc
    have h2 := complete_heights k (a+1) h1
    rw [heightsEvs, applyAll_append]
    have : a + (k + 1) = a + 1 + k := by omega
    rw [this]; exact h2

theorem heightEvs_length (m : Mode) (h : Nat) : (heightEvs m h).length ≤ 7 := by
  cases m <;> simp [heightEvs]

/-- every crash prefix of a run is "`n` complete heights, then `j` events of the next one" -/
theorem take_heights (m : Mode) : ∀ (N a k : Nat), ∃ n j, n ≤ N ∧
    (heightsEvs m a N).take k = heightsEvs m a n ++ (heightEvs m (a + n + 1)).take j ∧ (n = N → j = 0)
  | 0, a, k => ⟨0, 0, Nat.le_refl _, by simp [heightsEvs], fun _ => rfl⟩
  | N+1, a, k => by
    by_cases hk : k ≤ (heightEvs m (a+1)).length
    · refine ⟨0, k, Nat.zero_le _, ?_, by omega⟩
      simp [heightsEvs, List.take_append_of_le_length hk]
    · obtain ⟨n, j, hn, he, hj⟩ := take_heights m N (a+1) (k - (heightEvs m (a+1)).length)
      refine ⟨n+1, j, by omega, ?_, by omega⟩
      have : (heightsEvs m a (N+1)).take k =
          heightEvs m (a+1) ++ (heightsEvs m (a+1) N).take (k - (heightEvs m (a+1)).length) := by
        rw [heightsEvs, List.take_append]
        have : (heightEvs m (a+1)).take k = heightEvs m (a+1) := List.take_of_length_le (by omega)
        rw [this]
      rw [this, he, heightsEvs, List.append_assoc]
      have e : a + 1 + n + 1 = a + (n+1) + 1 := by omega
      rw [e]

theorem crash_prefix_phase (m : Mode) (N k : Nat) : ∃ n j d0, Complete m n d0 ∧
    crashDisk m N k = d0.applyAll ((heightEvs m (n+1)).take j) := by
  obtain ⟨n, j, _, he, _⟩ := take_heights m N 0 k
  refine ⟨n, j, Disk.genesis.applyAll (heightsEvs m 0 n), ?_, ?_⟩
  · simpa using complete_heights n 0 (complete_genesis m)
  · simp [crashDisk, runEvs, he, applyAll_append]

/-! ### what start-up finds after `n` complete heights and `j` events of the next -/


def phaseDisk (m : Mode) (n j : Nat) (d : Disk) : Disk := d.applyAll ((heightEvs m (n+1)).take j)

def flushOutcome (n j : Nat) : Outcome :=
  if j = 0 then ⟨n, n, n, .ok, n⟩
  else if j ≤ 2 then ⟨n, n, n, .ok, n+1⟩
  else if j ≤ 5 then ⟨n, n, n, .refused, n⟩
  else if j = 6 then ⟨n+1, n+1, 0, .refused, n+1⟩
  else ⟨n+1, n+1, n+1, .ok, n+1⟩

macro "phase_simp" hc:ident : tactic => `(tactic|
  simp [phaseDisk, heightEvs, Disk.applyAll, Disk.apply, Disk.recover, hasState, upd_apply, flushOutcome,
      Complete.votes $hc, Complete.blocks $hc, Complete.ends $hc, Complete.app $hc, Complete.tries $hc,
      Complete.head $hc, Complete.cstates $hc])

theorem flush_phase {n : Nat} {d : Disk} (hc : Complete .flush n d) :
    ∀ j, (phaseDisk .flush n j d).recover = flushOutcome n j
  | 0 => by phase_simp hc
  | 1 => by phase_simp hc
  | 2 => by phase_simp hc
  | 3 => by phase_simp hc
  | 4 => by phase_simp hc
  | 5 => by phase_simp hc
  | 6 => by
    phase_simp hc
    simp [show ¬ (n+1 ≤ n) by omega]
    omega
  | j+7 => by phase_simp hc; omega
theorem rewind_zero (d : Disk) (top : Nat) (h0 : hasState d 0 = true)
    (hs : ∀ i, 0 < i → i ≤ top → hasState d i = false) (hb : ∀ i, i ≤ top → d.blocks i = true) :
    ∀ fuel cur, cur ≤ top → cur ≤ fuel → rewind d fuel cur = 0
  | 0, cur, _, hf => by
    have : cur = 0 := by omega
    subst this; simp [rewind, h0]
  | fuel+1, cur, ht, hf => by
    by_cases hc : cur = 0
    · subst hc; simp [rewind, h0]
    · have h1 := hs cur (by omega) ht
      have h2 := hb (cur - 1) (by omega)
      simp [rewind, h1, hc, h2]
      exact rewind_zero d top h0 hs hb fuel (cur - 1) (by omega) (by omega)

def memOutcome (n j : Nat) : Outcome :=
  if n = 0 ∧ j = 0 then ⟨0, 0, 0, .ok, 0⟩
  else if n = 0 ∧ j ≤ 2 then ⟨0, 0, 0, .ok, 1⟩
  else ⟨0, 0, 0, .refused, 0⟩

theorem mem_phase_zero {d : Disk} (hc : Complete .mem 0 d) :
    ∀ j, (phaseDisk .mem 0 j d).recover = memOutcome 0 j
  | 0 => by phase_simp hc; simp [memOutcome]
  | 1 => by phase_simp hc; simp [memOutcome]
  | 2 => by phase_simp hc; simp [memOutcome]
  | 3 => by phase_simp hc; simp [memOutcome]
  | 4 => by phase_simp hc; simp [memOutcome]
  | 5 => by phase_simp hc; simp [memOutcome, rewind, hasState, upd_apply, hc.app, hc.tries, hc.blocks, hc.cstates, hc.ends]
  | j+6 => by phase_simp hc; simp [memOutcome, rewind, hasState, upd_apply, hc.app, hc.tries, hc.blocks, hc.cstates, hc.ends]
theorem recover_rewound (d : Disk) (top : Nat) (hhead : d.head = top) (htop : 0 < top)
    (hb : ∀ i, i ≤ top → d.blocks i = true) (ha : ∀ i, i ≤ top → d.app i = true)
    (ht : ∀ i, d.tries i = decide (i = 0)) (hcs : d.cstates 0 = true) (he : d.ends 1 = true) :
    d.recover = ⟨0, 0, 0, .refused, 0⟩ := by
  have h0 : hasState d 0 = true := by simp [hasState, ht]
  have hs : ∀ i, 0 < i → i ≤ top → hasState d i = false := by
    intro i hi hle
    have : ¬ i = 0 := by omega
    simp [hasState, ht, ha i hle, this]
  have hr := rewind_zero d top h0 hs hb top top (Nat.le_refl _) (Nat.le_refl _)
  simp [Disk.recover, hhead, hb top (Nat.le_refl _), hs top htop (Nat.le_refl _), hr, hcs, he]

macro "mem_side" hc:ident : tactic => `(tactic|
  (intros
   first | omega | skip
   all_goals simp [phaseDisk, heightEvs, Disk.applyAll, Disk.apply, upd_apply,
      Complete.votes $hc, Complete.blocks $hc, Complete.ends $hc, Complete.app $hc, Complete.tries $hc,
      Complete.head $hc, Complete.cstates $hc]
   try omega))

theorem mem_phase_pos {n : Nat} {d : Disk} (hc : Complete .mem n d) (hn : 0 < n) :
    ∀ j, (phaseDisk .mem n j d).recover = memOutcome n j
  | 0 => by
    rw [show memOutcome n 0 = ⟨0, 0, 0, .refused, 0⟩ by simp [memOutcome, show ¬ n = 0 by omega]]
    apply recover_rewound _ n <;> mem_side hc
  | 1 => by
    rw [show memOutcome n 1 = ⟨0, 0, 0, .refused, 0⟩ by simp [memOutcome, show ¬ n = 0 by omega]]
    apply recover_rewound _ n <;> mem_side hc
  | 2 => by
    rw [show memOutcome n 2 = ⟨0, 0, 0, .refused, 0⟩ by simp [memOutcome, show ¬ n = 0 by omega]]
    apply recover_rewound _ n <;> mem_side hc
  | 3 => by
    rw [show memOutcome n 3 = ⟨0, 0, 0, .refused, 0⟩ by simp [memOutcome, show ¬ n = 0 by omega]]
    apply recover_rewound _ n <;> mem_side hc
  | 4 => by
    rw [show memOutcome n 4 = ⟨0, 0, 0, .refused, 0⟩ by simp [memOutcome, show ¬ n = 0 by omega]]
    apply recover_rewound _ n <;> mem_side hc
  | 5 => by
    rw [show memOutcome n 5 = ⟨0, 0, 0, .refused, 0⟩ by simp [memOutcome, show ¬ n = 0 by omega]]
    apply recover_rewound _ (n+1) <;> mem_side hc
  | j+6 => by
    rw [show memOutcome n (j+6) = ⟨0, 0, 0, .refused, 0⟩ by simp [memOutcome, show ¬ n = 0 by omega]]
    apply recover_rewound _ (n+1) <;> mem_side hc

end KV.Recovery
