/-! Hex / token helpers shared by every driver. Core only. -/
namespace KV

abbrev Bytes := List UInt8

def hexDigit (n : Nat) : Char :=
  if n < 10 then Char.ofNat (48 + n) else Char.ofNat (87 + n)

def hexByte (b : UInt8) : String :=
  String.singleton (hexDigit (b.toNat / 16)) ++ String.singleton (hexDigit (b.toNat % 16))

def toHex (bs : Bytes) : String :=
  String.join (bs.map hexByte)

def hexVal (c : Char) : Option Nat :=
  if '0' ≤ c ∧ c ≤ '9' then some (c.toNat - 48)
  else if 'a' ≤ c ∧ c ≤ 'f' then some (c.toNat - 87)
  else if 'A' ≤ c ∧ c ≤ 'F' then some (c.toNat - 55)
  else none

def ofHexChars : List Char → Option Bytes
  | [] => some []
  | [_] => none
  | a :: b :: rest =>
    match hexVal a, hexVal b, ofHexChars rest with
    | some x, some y, some r => some (UInt8.ofNat (x * 16 + y) :: r)
    | _, _, _ => none

/-- parse a hex string; "-" denotes the empty string (so that tokens are never empty) -/
def ofHex (s : String) : Option Bytes :=
  if s = "-" then some [] else ofHexChars s.toList

def toHexTok (bs : Bytes) : String := if bs.isEmpty then "-" else toHex bs

/-- split a line into space-separated tokens, dropping empties -/
def tokens (line : String) : List String :=
  (line.splitOn " ").filter (· ≠ "")

/-- `k=v` lookup in a token list -/
def kv (toks : List String) (k : String) : Option String :=
  toks.findSome? fun t =>
    match t.splitOn "=" with
    | [k', v] => if k' = k then some v else none
    | _ => none

def kvNat (toks : List String) (k : String) : Option Nat := (kv toks k).bind String.toNat?
def kvInt (toks : List String) (k : String) : Option Int := (kv toks k).bind String.toInt?
def kvHex (toks : List String) (k : String) : Option Bytes := (kv toks k).bind ofHex

def natList (s : String) : Option (List Nat) :=
  if s = "-" then some [] else (s.splitOn ",").mapM String.toNat?
def intList (s : String) : Option (List Int) :=
  if s = "-" then some [] else (s.splitOn ",").mapM String.toInt?

def showList {α} (f : α → String) (l : List α) : String :=
  if l.isEmpty then "-" else ",".intercalate (l.map f)

end KV
