import KV.Base.Hex
/-! CRC-32C (Castagnoli, reflected polynomial 0x82F63B78) — the checksum of the consensus WAL
(`crc32.MakeTable(crc32.Castagnoli)` in consensus/wal.go). Executable, core only.
`crc32c` = table driven (fast, used by the drivers); `crc32cBitwise` = the textbook bit-serial
definition; they are compared on test vectors below. -/
namespace KV

def crc32cPoly : UInt32 := 0x82F63B78

/-- one bit-serial step of the reflected CRC -/
def crc32cShift (c : UInt32) : UInt32 :=
  if c &&& 1 = 1 then (c >>> 1) ^^^ crc32cPoly else c >>> 1

def crc32cByteBits (c : UInt32) : UInt32 :=
  crc32cShift (crc32cShift (crc32cShift (crc32cShift (crc32cShift (crc32cShift (crc32cShift (crc32cShift c)))))))

/-- table entry `i` -/
def crc32cEntry (i : Nat) : UInt32 := crc32cByteBits (UInt32.ofNat i)

def crc32cTable : Array UInt32 := (Array.range 256).map crc32cEntry

@[inline] def crc32cUpdateByte (c : UInt32) (b : UInt8) : UInt32 :=
  (crc32cTable.getD ((c ^^^ b.toUInt32) &&& 0xFF).toNat 0) ^^^ (c >>> 8)

/-- running (pre/post-inverted) update, as Go's `crc32.Update(0, table, data)` -/
def crc32c (data : Bytes) : UInt32 :=
  (data.foldl crc32cUpdateByte 0xFFFFFFFF) ^^^ 0xFFFFFFFF

/-- bit-serial reference -/
def crc32cBitwise (data : Bytes) : UInt32 :=
  (data.foldl (fun c b => crc32cByteBits (c ^^^ b.toUInt32)) 0xFFFFFFFF) ^^^ 0xFFFFFFFF

def asciiBytes (s : String) : Bytes := s.toList.map (fun c => UInt8.ofNat c.toNat)

/-! Test vectors, evaluated at build time (`#guard` fails the build when false; it is an
evaluation, not a kernel proof — no theorem depends on these values). -/
-- "123456789" → e3069283 (the standard CRC-32C check value)
#guard crc32c (asciiBytes "123456789") == 0xE3069283
#guard crc32cBitwise (asciiBytes "123456789") == 0xE3069283
#guard crc32c [] == 0
-- RFC 3720 B.4 vectors: 32 bytes of zeros, 32 bytes of 0xff, 0..31
#guard crc32c (List.replicate 32 0) == 0x8A9136AA
#guard crc32c (List.replicate 32 0xFF) == 0x62A8AB43
#guard crc32c ((List.range 32).map UInt8.ofNat) == 0x46DD794E
#guard crc32cBitwise ((List.range 32).map UInt8.ofNat) == 0x46DD794E
#guard (List.range 300).all fun n =>
  let d := (List.range n).map (fun i => UInt8.ofNat (i * 7 + n))
  crc32c d == crc32cBitwise d
end KV
