import KV.Base.Hex
/-! SHA-256 (FIPS 180-4), as Go's `crypto/sha256.Sum256` (= `lib/merkle.Sum`, `tmhash`).
Executable only: used by drivers and by non-vacuity examples. No theorem depends on any property
of this function except its output length — theorems that involve a hash are stated for an
arbitrary `H` (collision-extraction form). Core only. -/
namespace KV.Sha256

def k : Array UInt32 := #[
  0x428a2f98, 0x71374491, 0xb5c0fbcf, 0xe9b5dba5, 0x3956c25b, 0x59f111f1, 0x923f82a4, 0xab1c5ed5,
  0xd807aa98, 0x12835b01, 0x243185be, 0x550c7dc3, 0x72be5d74, 0x80deb1fe, 0x9bdc06a7, 0xc19bf174,
  0xe49b69c1, 0xefbe4786, 0x0fc19dc6, 0x240ca1cc, 0x2de92c6f, 0x4a7484aa, 0x5cb0a9dc, 0x76f988da,
  0x983e5152, 0xa831c66d, 0xb00327c8, 0xbf597fc7, 0xc6e00bf3, 0xd5a79147, 0x06ca6351, 0x14292967,
  0x27b70a85, 0x2e1b2138, 0x4d2c6dfc, 0x53380d13, 0x650a7354, 0x766a0abb, 0x81c2c92e, 0x92722c85,
  0xa2bfe8a1, 0xa81a664b, 0xc24b8b70, 0xc76c51a3, 0xd192e819, 0xd6990624, 0xf40e3585, 0x106aa070,
  0x19a4c116, 0x1e376c08, 0x2748774c, 0x34b0bcb5, 0x391c0cb3, 0x4ed8aa4a, 0x5b9cca4f, 0x682e6ff3,
  0x748f82ee, 0x78a5636f, 0x84c87814, 0x8cc70208, 0x90befffa, 0xa4506ceb, 0xbef9a3f7, 0xc67178f2]

def h0 : Array UInt32 := #[
  0x6a09e667, 0xbb67ae85, 0x3c6ef372, 0xa54ff53a, 0x510e527f, 0x9b05688c, 0x1f83d9ab, 0x5be0cd19]

@[inline] def rotr (x : UInt32) (n : UInt32) : UInt32 := (x >>> n) ||| (x <<< (32 - n))

/-- one 64-byte block starting at `off` -/
def compress (st : Array UInt32) (blk : ByteArray) (off : Nat) : Array UInt32 := Id.run do
  let mut w : Array UInt32 := Array.replicate 64 0
  for i in [0:16] do
    let b0 := (blk.get! (off + 4*i)).toUInt32
    let b1 := (blk.get! (off + 4*i + 1)).toUInt32
    let b2 := (blk.get! (off + 4*i + 2)).toUInt32
    let b3 := (blk.get! (off + 4*i + 3)).toUInt32
    w := w.set! i ((b0 <<< 24) ||| (b1 <<< 16) ||| (b2 <<< 8) ||| b3)
  for i in [16:64] do
    let x := w[i-15]!
    let y := w[i-2]!
    let s0 := rotr x 7 ^^^ rotr x 18 ^^^ (x >>> 3)
    let s1 := rotr y 17 ^^^ rotr y 19 ^^^ (y >>> 10)
    w := w.set! i (w[i-16]! + s0 + w[i-7]! + s1)
  let mut a := st[0]!
  let mut b := st[1]!
  let mut c := st[2]!
  let mut d := st[3]!
  let mut e := st[4]!
  let mut f := st[5]!
  let mut g := st[6]!
  let mut h := st[7]!
  for i in [0:64] do
    let s1 := rotr e 6 ^^^ rotr e 11 ^^^ rotr e 25
    let ch := (e &&& f) ^^^ ((~~~ e) &&& g)
    let t1 := h + s1 + ch + k[i]! + w[i]!
    let s0 := rotr a 2 ^^^ rotr a 13 ^^^ rotr a 22
    let mj := (a &&& b) ^^^ (a &&& c) ^^^ (b &&& c)
    let t2 := s0 + mj
    h := g; g := f; f := e; e := d + t1
    d := c; c := b; b := a; a := t1 + t2
  return #[st[0]! + a, st[1]! + b, st[2]! + c, st[3]! + d, st[4]! + e, st[5]! + f, st[6]! + g, st[7]! + h]

/-- message ++ 0x80 ++ zeros ++ 64-bit big-endian bit length, a multiple of 64 bytes -/
def pad (msg : ByteArray) : ByteArray := Id.run do
  let len := msg.size
  let mut m := msg.push 0x80
  let z := (64 - ((len + 1 + 8) % 64)) % 64
  for _ in [0:z] do
    m := m.push 0
  let bits := len * 8
  for i in [0:8] do
    m := m.push (UInt8.ofNat ((bits >>> (8 * (7 - i))) % 256))
  return m

def word4 (x : UInt32) : List UInt8 :=
  [(x >>> 24).toUInt8, (x >>> 16).toUInt8, (x >>> 8).toUInt8, x.toUInt8]

/-- the eight state words as 32 bytes (big endian); total on any array (missing words read as 0) -/
def digest (st : Array UInt32) : List UInt8 :=
  word4 st[0]! ++ word4 st[1]! ++ word4 st[2]! ++ word4 st[3]! ++
  word4 st[4]! ++ word4 st[5]! ++ word4 st[6]! ++ word4 st[7]!

def finalState (msg : ByteArray) : Array UInt32 := Id.run do
  let m := pad msg
  let mut st := h0
  for j in [0:m.size / 64] do
    st := compress st m (64 * j)
  return st

def sumBA (msg : ByteArray) : List UInt8 := digest (finalState msg)

end KV.Sha256

namespace KV

/-- SHA-256 of a byte string, 32 bytes -/
def sha256 (bs : Bytes) : Bytes := Sha256.sumBA (ByteArray.mk bs.toArray)

theorem sha256_length (bs : Bytes) : (sha256 bs).length = 32 := by
  simp [sha256, Sha256.sumBA, Sha256.digest, Sha256.word4]

end KV
