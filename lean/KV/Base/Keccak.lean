import KV.Base.Hex
/-! Keccak-256 (legacy padding 0x01, as `sha3.NewLegacyKeccak256`). Executable only: used by the
driver and by non-vacuity examples. No theorem depends on any property of this function — theorems
that involve a hash are stated for an arbitrary `H` (collision-extraction form). -/
namespace KV.Keccak

def rc : Array UInt64 := #[
  0x0000000000000001, 0x0000000000008082, 0x800000000000808A, 0x8000000080008000,
  0x000000000000808B, 0x0000000080000001, 0x8000000080008081, 0x8000000000008009,
  0x000000000000008A, 0x0000000000000088, 0x0000000080008009, 0x000000008000000A,
  0x000000008000808B, 0x800000000000008B, 0x8000000000008089, 0x8000000000008003,
  0x8000000000008002, 0x8000000000000080, 0x000000000000800A, 0x800000008000000A,
  0x8000000080008081, 0x8000000000008080, 0x0000000080000001, 0x8000000080008008]

def rotc : Array Nat := #[1,3,6,10,15,21,28,36,45,55,2,14,27,41,56,8,25,43,62,18,39,61,20,44]
def piln : Array Nat := #[10,7,11,17,18,3,5,16,8,21,24,4,15,23,19,13,12,2,20,14,22,9,6,1]

@[inline] def rotl (x : UInt64) (n : Nat) : UInt64 :=
  (x <<< n.toUInt64) ||| (x >>> (64 - n).toUInt64)

def round (st : Array UInt64) (r : Nat) : Array UInt64 := Id.run do
  let mut st := st
  -- theta
  let mut bc : Array UInt64 := Array.replicate 5 0
  for i in [0:5] do
    bc := bc.set! i (st[i]! ^^^ st[i+5]! ^^^ st[i+10]! ^^^ st[i+15]! ^^^ st[i+20]!)
  for i in [0:5] do
    let t := bc[(i+4)%5]! ^^^ rotl bc[(i+1)%5]! 1
    for j in [0:5] do
      st := st.set! (j*5+i) (st[j*5+i]! ^^^ t)
  -- rho pi
  let mut t := st[1]!
  for i in [0:24] do
    let j := piln[i]!
    let b := st[j]!
    st := st.set! j (rotl t rotc[i]!)
    t := b
  -- chi
  for j in [0:5] do
    let b0 := st[j*5]!; let b1 := st[j*5+1]!; let b2 := st[j*5+2]!; let b3 := st[j*5+3]!; let b4 := st[j*5+4]!
    st := st.set! (j*5)   (b0 ^^^ ((~~~ b1) &&& b2))
    st := st.set! (j*5+1) (b1 ^^^ ((~~~ b2) &&& b3))
    st := st.set! (j*5+2) (b2 ^^^ ((~~~ b3) &&& b4))
    st := st.set! (j*5+3) (b3 ^^^ ((~~~ b4) &&& b0))
    st := st.set! (j*5+4) (b4 ^^^ ((~~~ b0) &&& b1))
  st := st.set! 0 (st[0]! ^^^ rc[r]!)
  return st

def f1600 (st : Array UInt64) : Array UInt64 := Id.run do
  let mut st := st
  for r in [0:24] do
    st := round st r
  return st

def absorbBlock (st : Array UInt64) (blk : ByteArray) (off : Nat) : Array UInt64 := Id.run do
  let mut st := st
  for i in [0:17] do
    let mut w : UInt64 := 0
    for k in [0:8] do
      w := w ||| ((blk.get! (off + i*8 + k)).toUInt64 <<< (8*k).toUInt64)
    st := st.set! i (st[i]! ^^^ w)
  return f1600 st

def keccak256 (data : ByteArray) : ByteArray := Id.run do
  let rate := 136
  let mut st : Array UInt64 := Array.replicate 25 0
  let n := data.size
  let full := n / rate
  for b in [0:full] do
    st := absorbBlock st data (b*rate)
  -- padding
  let rem := n - full*rate
  let mut last : ByteArray := ByteArray.mk (Array.replicate rate 0)
  for i in [0:rem] do
    last := last.set! i (data.get! (full*rate + i))
  last := last.set! rem ((last.get! rem) ||| 0x01)
  last := last.set! (rate-1) ((last.get! (rate-1)) ||| 0x80)
  st := absorbBlock st last 0
  let mut out : ByteArray := ByteArray.empty
  for i in [0:4] do
    for k in [0:8] do
      out := out.push ((st[i]! >>> (8*k).toUInt64).toUInt8)
  return out


end KV.Keccak

namespace KV
/-- Keccak-256 on byte lists -/
def keccak256 (bs : Bytes) : Bytes := (Keccak.keccak256 (ByteArray.mk bs.toArray)).data.toList
end KV
