/-! Go `int64` / `uint64` arithmetic on `Int` / `Nat`: every operation wraps exactly like the
machine operation, so an overflow in the source is an overflow in the model; theorems then prove
that under the stated bounds no wrap occurs. Core only. -/
namespace KV.I64

def maxI64 : Int := 9223372036854775807
def minI64 : Int := -9223372036854775808

/-- the value in `[-2^63, 2^63)` congruent to `x` mod `2^64` -/
def wrap (x : Int) : Int := (x + 9223372036854775808) % 18446744073709551616 - 9223372036854775808

def InRange (x : Int) : Prop := minI64 ≤ x ∧ x ≤ maxI64

instance (x : Int) : Decidable (InRange x) := by unfold InRange; exact inferInstance

theorem wrap_of_inRange (x : Int) (h : InRange x) : wrap x = x := by
  unfold InRange minI64 maxI64 at h; unfold wrap; omega

theorem wrap_inRange (x : Int) : InRange (wrap x) := by
  unfold InRange minI64 maxI64 wrap; omega

def add (a b : Int) : Int := wrap (a + b)
def sub (a b : Int) : Int := wrap (a - b)
def mul (a b : Int) : Int := wrap (a * b)
def neg (a : Int) : Int := wrap (-a)
/-- Go `/` on integers truncates toward zero (`MinInt64 / -1` wraps) -/
def div (a b : Int) : Int := wrap (Int.tdiv a b)
/-- Go `%` has the sign of the dividend -/
def mod (a b : Int) : Int := wrap (Int.tmod a b)
/-- Go `>>` on a signed integer is an arithmetic shift (floor division by `2^k`) -/
def shr (a : Int) (k : Nat) : Int := a / (2 ^ k : Int)
def shl (a : Int) (k : Nat) : Int := wrap (a * (2 ^ k : Int))

theorem add_exact (a b : Int) (h : InRange (a + b)) : add a b = a + b := wrap_of_inRange _ h
theorem sub_exact (a b : Int) (h : InRange (a - b)) : sub a b = a - b := wrap_of_inRange _ h
theorem mul_exact (a b : Int) (h : InRange (a * b)) : mul a b = a * b := wrap_of_inRange _ h

theorem tdiv_nonneg_eq (a b : Int) (ha : 0 ≤ a) : Int.tdiv a b = a / b :=
  Int.tdiv_eq_ediv_of_nonneg ha

/-! Additions used by the generated files (`harness/facts`, tie T1). -/

/-- the value in `[-2^(bits-1), 2^(bits-1))` congruent to `x` mod `2^bits` (`int8/16/32`) -/
def wrapN (bits : Nat) (x : Int) : Int :=
  (x + (2 ^ (bits - 1) : Int)) % (2 ^ bits : Int) - (2 ^ (bits - 1) : Int)

/-- two's-complement bit pattern of an `int64` as a natural number `< 2^64` -/
def toBits (x : Int) : Nat := (x % 18446744073709551616).toNat
def and (a b : Int) : Int := wrap (Int.ofNat (toBits a &&& toBits b))
def or (a b : Int) : Int := wrap (Int.ofNat (toBits a ||| toBits b))
def xor (a b : Int) : Int := wrap (Int.ofNat (toBits a ^^^ toBits b))
/-- Go `^x` on a signed integer -/
def not (a : Int) : Int := -a - 1

theorem wrapN_64 (x : Int) : wrapN 64 x = wrap x := by
  unfold wrapN wrap; rfl

end KV.I64

namespace KV.U64
def modulus : Nat := 18446744073709551616
def wrap (x : Int) : Nat := (x % 18446744073709551616).toNat
def add (a b : Nat) : Nat := (a + b) % modulus
def sub (a b : Nat) : Nat := wrap ((a : Int) - (b : Int))
def mul (a b : Nat) : Nat := (a * b) % modulus
theorem add_exact (a b : Nat) (h : a + b < modulus) : add a b = a + b := Nat.mod_eq_of_lt h
theorem sub_exact (a b : Nat) (h : b ≤ a) (ha : a < modulus) : sub a b = a - b := by
  unfold sub wrap modulus at *; omega

/-! Additions used by the generated files (`harness/facts`, tie T1). Division by zero is a
run-time panic in Go; here it follows Lean (`x / 0 = 0`, `x % 0 = x`) — theorems that need it
state `b ≠ 0`. -/
def maxU64 : Nat := 18446744073709551615
def div (a b : Nat) : Nat := a / b
def mod (a b : Nat) : Nat := a % b
def shl (a k : Nat) : Nat := (a * 2 ^ k) % modulus
def shr (a k : Nat) : Nat := a / 2 ^ k
def and (a b : Nat) : Nat := a &&& b
def or (a b : Nat) : Nat := a ||| b
def xor (a b : Nat) : Nat := a ^^^ b
/-- Go `^x` on a `uint64` -/
def not (a : Nat) : Nat := maxU64 - a % modulus
/-- the value in `[0, 2^bits)` congruent to `x` mod `2^bits` (`uint8/16/32`, conversions) -/
def wrapN (bits : Nat) (x : Int) : Nat := (x % (2 ^ bits : Int)).toNat

theorem mul_exact (a b : Nat) (h : a * b < modulus) : mul a b = a * b := Nat.mod_eq_of_lt h
theorem div_eq (a b : Nat) : div a b = a / b := rfl
theorem wrap_ofNat (a : Nat) (h : a < modulus) : wrap (Int.ofNat a) = a := by
  unfold wrap modulus at *
  have e : Int.ofNat a = (a : Int) := rfl
  rw [e]; omega
end KV.U64

/-! `math/bits` primitives -/
namespace KV.Bits
/-- `bits.Len(x)`: minimum number of bits to represent `x`; `0` for `x = 0` (result is a Go `int`) -/
def len (x : Nat) : Int := if x = 0 then 0 else Int.ofNat (Nat.log2 x + 1)
end KV.Bits

/-! `math/big` primitives on exact integers -/
namespace KV.Big
/-- `x.Cmp(y)`: -1, 0, +1 (a Go `int`) -/
def cmp (a b : Int) : Int := if a < b then -1 else if a = b then 0 else 1
/-- `x.Sign()` -/
def sign (a : Int) : Int := cmp a 0
end KV.Big
