/-! Go `int64` / `uint64` arithmetic on `Int` / `Nat`: every operation wraps exactly like the
machine operation, so an overflow in the source is an overflow in the model; theorems then prove
that under the stated bounds no wrap occurs. Core only. -/
namespace KV.I64

def maxI64 : Int := 9223372036854775807
def minI64 : Int := -9223372036854775808

/-- the value in `[-2^63, 2^63)` congruent to `x` mod `2^64` -/
def wrap (x : Int) : Int := (x + 9223372036854775808) % 18446744073709551616 - 9223372036854775808

def InRange (x : Int) : Prop := minI64 ≤ x ∧ x ≤ maxI64

instance (x : Int) : Decidable (InRange x) := by unfold InRange; exact inferInstance

theorem wrap_of_inRange (x : Int) (h : InRange x) : wrap x = x := by
  unfold InRange minI64 maxI64 at h; unfold wrap; omega

theorem wrap_inRange (x : Int) : InRange (wrap x) := by
  unfold InRange minI64 maxI64 wrap; omega

def add (a b : Int) : Int := wrap (a + b)
def sub (a b : Int) : Int := wrap (a - b)
def mul (a b : Int) : Int := wrap (a * b)
def neg (a : Int) : Int := wrap (-a)
/-- Go `/` on integers truncates toward zero (`MinInt64 / -1` wraps) -/
def div (a b : Int) : Int := wrap (Int.tdiv a b)
/-- Go `%` has the sign of the dividend -/
def mod (a b : Int) : Int := wrap (Int.tmod a b)
/-- Go `>>` on a signed integer is an arithmetic shift (floor division by `2^k`) -/
def shr (a : Int) (k : Nat) : Int := a / (2 ^ k : Int)
def shl (a : Int) (k : Nat) : Int := wrap (a * (2 ^ k : Int))

theorem add_exact (a b : Int) (h : InRange (a + b)) : add a b = a + b := wrap_of_inRange _ h
theorem sub_exact (a b : Int) (h : InRange (a - b)) : sub a b = a - b := wrap_of_inRange _ h
theorem mul_exact (a b : Int) (h : InRange (a * b)) : mul a b = a * b := wrap_of_inRange _ h

theorem tdiv_nonneg_eq (a b : Int) (ha : 0 ≤ a) : Int.tdiv a b = a / b :=
  Int.tdiv_eq_ediv_of_nonneg ha

end KV.I64

namespace KV.U64
def modulus : Nat := 18446744073709551616
def wrap (x : Int) : Nat := (x % 18446744073709551616).toNat
def add (a b : Nat) : Nat := (a + b) % modulus
def sub (a b : Nat) : Nat := wrap ((a : Int) - (b : Int))
def mul (a b : Nat) : Nat := (a * b) % modulus
theorem add_exact (a b : Nat) (h : a + b < modulus) : add a b = a + b := Nat.mod_eq_of_lt h
theorem sub_exact (a b : Nat) (h : b ≤ a) (ha : a < modulus) : sub a b = a - b := by
  unfold sub wrap modulus at *; omega
end KV.U64
