import KV.Base.Hex
/-!
# Protobuf wire-format primitives on `KV.Bytes`

What the gogo-protobuf generated `MarshalToSizedBuffer` functions and `encoding/binary.PutUvarint`
write: base-128 varints, tags `varint (field <<< 3 ||| wiretype)`, length-delimited payloads,
little-endian fixed32/fixed64, and the proto3 field rules (scalar omitted when zero, bytes/string
omitted when empty, non-nullable sub-message always written, nullable sub-message written when
non-nil).  Each primitive comes with a parser and a round-trip lemma
`parse (encode x ++ rest) = some (x, rest)`, from which prefix-freeness / injectivity follow.

Core only (this file is linked into the driver).
-/
namespace KV.Wire

theorem ofNat_toNat_lt (n : Nat) (h : n < 256) : (UInt8.ofNat n).toNat = n := by
  simp [UInt8.toNat_ofNat']; omega

/-! ## varint -/

/-- base-128 varint: 7 bits per byte, least significant group first, high bit = "more" -/
def varint (n : Nat) : Bytes :=
  if n < 128 then [UInt8.ofNat n] else UInt8.ofNat (n % 128 + 128) :: varint (n / 128)
decreasing_by omega

/-- varint parser (structural in the input; no 64-bit cap: see `parseVarint64`) -/
def parseVarint : Bytes → Option (Nat × Bytes)
  | [] => none
  | b :: rest =>
    if b.toNat < 128 then some (b.toNat, rest)
    else
      match parseVarint rest with
      | none => none
      | some (v, r) => some (b.toNat - 128 + 128 * v, r)

/-- parser that additionally rejects values that do not fit `uint64` -/
def parseVarint64 (bs : Bytes) : Option (Nat × Bytes) :=
  match parseVarint bs with
  | some (v, r) => if v < 2 ^ 64 then some (v, r) else none
  | none => none

theorem varint_lt (n : Nat) (h : n < 128) : varint n = [UInt8.ofNat n] := by
  rw [varint]; simp [h]

theorem varint_ge (n : Nat) (h : ¬ n < 128) :
    varint n = UInt8.ofNat (n % 128 + 128) :: varint (n / 128) := by
  rw [varint]; simp [h]

/-- **round trip**, for every natural number -/
theorem parseVarint_varint (n : Nat) (rest : Bytes) :
    parseVarint (varint n ++ rest) = some (n, rest) := by
  induction n using Nat.strongRecOn with
  | _ n ih =>
    by_cases h : n < 128
    · rw [varint_lt n h]
      simp [parseVarint, ofNat_toNat_lt n (by omega), h]
    · rw [varint_ge n h]
      have hb : (UInt8.ofNat (n % 128 + 128)).toNat = n % 128 + 128 :=
        ofNat_toNat_lt _ (by omega)
      have hnot : ¬ (n % 128 + 128 < 128) := by omega
      simp only [List.cons_append, parseVarint, hb, hnot, if_false]
      rw [ih (n / 128) (by omega)]
      simp only [Option.some.injEq, Prod.mk.injEq, and_true]
      omega

theorem parseVarint64_varint (n : Nat) (h : n < 2 ^ 64) (rest : Bytes) :
    parseVarint64 (varint n ++ rest) = some (n, rest) := by
  simp [parseVarint64, parseVarint_varint, h]

/-- varints are prefix-free (hence injective) -/
theorem varint_prefix_free {a b : Nat} {r s : Bytes} (h : varint a ++ r = varint b ++ s) :
    a = b ∧ r = s := by
  have h1 := parseVarint_varint a r
  rw [h, parseVarint_varint b s] at h1
  simp only [Option.some.injEq, Prod.mk.injEq] at h1
  exact ⟨h1.1.symm, h1.2.symm⟩

theorem varint_injective {a b : Nat} (h : varint a = varint b) : a = b := by
  have : varint a ++ [] = varint b ++ [] := by simp [h]
  exact (varint_prefix_free this).1

theorem varint_ne_nil (n : Nat) : varint n ≠ [] := by
  rw [varint]; split <;> simp

theorem varint_length_pos (n : Nat) : 0 < (varint n).length := by
  cases h : varint n with
  | nil => exact absurd h (varint_ne_nil n)
  | cons _ _ => simp

/-- a `uint64` takes at most 10 bytes -/
theorem varint_length_le (k n : Nat) (h : n < 128 ^ k) (hk : 0 < k) : (varint n).length ≤ k := by
  induction k generalizing n with
  | zero => omega
  | succ k ih =>
    by_cases hn : n < 128
    · rw [varint_lt n hn]; simp
    · rw [varint_ge n hn]
      have hk' : 0 < k := by
        cases k with
        | zero => simp at h; omega
        | succ _ => omega
      have : n / 128 < 128 ^ k := by
        rw [Nat.pow_succ] at h
        exact Nat.div_lt_of_lt_mul (by rw [Nat.mul_comm]; exact h)
      have := ih (n / 128) this hk'
      simp; omega

/-! ## two's-complement view of signed scalars

`int32`, `int64` and enum fields are written as `varint (uint64 x)`: a negative value is
sign-extended to 64 bits (ten bytes on the wire). -/

def u64OfInt (i : Int) : Nat := (i % 18446744073709551616).toNat

theorem u64OfInt_lt (i : Int) : u64OfInt i < 2 ^ 64 := by
  unfold u64OfInt; omega

/-- injective on the `int64` range (in particular on `int32`) -/
theorem u64OfInt_injective {a b : Int}
    (ha : -9223372036854775808 ≤ a ∧ a < 9223372036854775808)
    (hb : -9223372036854775808 ≤ b ∧ b < 9223372036854775808)
    (h : u64OfInt a = u64OfInt b) : a = b := by
  unfold u64OfInt at h; omega

theorem u64OfInt_nonneg (a : Int) (h0 : 0 ≤ a) (h1 : a < 18446744073709551616) :
    u64OfInt a = a.toNat := by
  unfold u64OfInt; omega

theorem u64OfInt_eq_zero {a : Int}
    (ha : -9223372036854775808 ≤ a ∧ a < 9223372036854775808) : u64OfInt a = 0 ↔ a = 0 := by
  unfold u64OfInt; omega

/-! ## tags and length-delimited payloads -/

/-- wire types -/
def wtVarint : Nat := 0
def wtFixed64 : Nat := 1
def wtLen : Nat := 2
def wtFixed32 : Nat := 5

/-- field key: `varint (field <<< 3 ||| wiretype)` -/
def tag (field wt : Nat) : Bytes := varint (field * 8 + wt)

def parseTag (bs : Bytes) : Option ((Nat × Nat) × Bytes) :=
  match parseVarint bs with
  | some (k, r) => some ((k / 8, k % 8), r)
  | none => none

theorem parseTag_tag (f wt : Nat) (hw : wt < 8) (rest : Bytes) :
    parseTag (tag f wt ++ rest) = some ((f, wt), rest) := by
  unfold parseTag tag
  rw [parseVarint_varint]
  simp only [Option.some.injEq, Prod.mk.injEq, and_true]
  omega

/-- fields 1..15 have a one-byte key -/
theorem tag_single (f wt : Nat) (h : f * 8 + wt < 128) : tag f wt = [UInt8.ofNat (f * 8 + wt)] :=
  varint_lt _ h

/-- length-delimited payload: `varint len ++ payload` -/
def lenDelim (bs : Bytes) : Bytes := varint bs.length ++ bs

def parseLenDelim (bs : Bytes) : Option (Bytes × Bytes) :=
  match parseVarint bs with
  | some (n, r) => if r.length < n then none else some (r.take n, r.drop n)
  | none => none

theorem parseLenDelim_lenDelim (p rest : Bytes) :
    parseLenDelim (lenDelim p ++ rest) = some (p, rest) := by
  unfold parseLenDelim lenDelim
  rw [List.append_assoc, parseVarint_varint]
  simp

theorem lenDelim_prefix_free {a b r s : Bytes} (h : lenDelim a ++ r = lenDelim b ++ s) :
    a = b ∧ r = s := by
  have h1 := parseLenDelim_lenDelim a r
  rw [h, parseLenDelim_lenDelim b s] at h1
  simp only [Option.some.injEq, Prod.mk.injEq] at h1
  exact ⟨h1.1.symm, h1.2.symm⟩

theorem lenDelim_injective {a b : Bytes} (h : lenDelim a = lenDelim b) : a = b := by
  have : lenDelim a ++ [] = lenDelim b ++ [] := by simp [h]
  exact (lenDelim_prefix_free this).1

theorem lenDelim_ne_nil (a : Bytes) : lenDelim a ≠ [] := by
  unfold lenDelim
  have := varint_ne_nil a.length
  cases h : varint a.length with
  | nil => exact absurd h this
  | cons _ _ => simp

/-! ## fixed-width little-endian integers -/

/-- `k` little-endian bytes of `n` (truncating like a Go conversion to `uintK`) -/
def leBytes : Nat → Nat → Bytes
  | 0, _ => []
  | k+1, n => UInt8.ofNat (n % 256) :: leBytes k (n / 256)

def leVal : Bytes → Nat
  | [] => 0
  | b :: r => b.toNat + 256 * leVal r

def fixed32 (n : Nat) : Bytes := leBytes 4 n
def fixed64 (n : Nat) : Bytes := leBytes 8 n
/-- `sfixed64`: two's complement -/
def sfixed64 (i : Int) : Bytes := fixed64 (u64OfInt i)

def parseFixed (k : Nat) (bs : Bytes) : Option (Nat × Bytes) :=
  if bs.length < k then none else some (leVal (bs.take k), bs.drop k)

def parseFixed32 := parseFixed 4
def parseFixed64 := parseFixed 8

theorem leBytes_length (k n : Nat) : (leBytes k n).length = k := by
  induction k generalizing n with
  | zero => rfl
  | succ k ih => simp [leBytes, ih]

theorem leVal_leBytes (k n : Nat) : leVal (leBytes k n) = n % 256 ^ k := by
  induction k generalizing n with
  | zero => simp [leBytes, leVal]; omega
  | succ k ih =>
    simp only [leBytes, leVal]
    rw [ih, ofNat_toNat_lt _ (Nat.mod_lt _ (by omega))]
    rw [Nat.pow_succ, Nat.mul_comm (256 ^ k) 256, Nat.mod_mul]

theorem parseFixed_leBytes (k n : Nat) (h : n < 256 ^ k) (rest : Bytes) :
    parseFixed k (leBytes k n ++ rest) = some (n, rest) := by
  unfold parseFixed
  have hl := leBytes_length k n
  simp [hl, leVal_leBytes, Nat.mod_eq_of_lt h]

theorem parseFixed64_fixed64 (n : Nat) (h : n < 2 ^ 64) (rest : Bytes) :
    parseFixed64 (fixed64 n ++ rest) = some (n, rest) :=
  parseFixed_leBytes 8 n (by simpa using h) rest

theorem parseFixed32_fixed32 (n : Nat) (h : n < 2 ^ 32) (rest : Bytes) :
    parseFixed32 (fixed32 n ++ rest) = some (n, rest) :=
  parseFixed_leBytes 4 n (by simpa using h) rest

theorem fixed64_prefix_free {a b : Nat} {r s : Bytes} (ha : a < 2 ^ 64) (hb : b < 2 ^ 64)
    (h : fixed64 a ++ r = fixed64 b ++ s) : a = b ∧ r = s := by
  have h1 := parseFixed64_fixed64 a ha r
  rw [h, parseFixed64_fixed64 b hb s] at h1
  simp only [Option.some.injEq, Prod.mk.injEq] at h1
  exact ⟨h1.1.symm, h1.2.symm⟩

/-! ## proto3 field rules (what the generated marshalers emit) -/

/-- scalar varint field: omitted when zero -/
def fVarint (f n : Nat) : Bytes := if n = 0 then [] else tag f wtVarint ++ varint n

/-- `bytes` / `string` field: omitted when empty -/
def fBytes (f : Nat) (bs : Bytes) : Bytes := if bs = [] then [] else tag f wtLen ++ lenDelim bs

/-- non-nullable embedded message: always written (even when its body is empty) -/
def fMsg (f : Nat) (body : Bytes) : Bytes := tag f wtLen ++ lenDelim body

/-- nullable embedded message: written iff non-nil -/
def fMsgOpt (f : Nat) : Option Bytes → Bytes
  | none => []
  | some body => fMsg f body

/-- fixed64 field: omitted when zero -/
def fFixed64 (f n : Nat) : Bytes := if n = 0 then [] else tag f wtFixed64 ++ fixed64 n

end KV.Wire
