import KV.Proofs.TrieMap
import KV.Proofs.TrieCanon
import KV.Proofs.TrieCanonDel
import KV.Proofs.TrieProofSound
import KV.Proofs.TrieProofComplete
/-!
# C07 — the Merkle Patricia trie is an authenticated map with a canonical root

Model: `KV/Model/Trie.lean` (follows `/repo/trie/{trie,encoding,hasher,node,node_enc,proof}.go`).
The driver `KV/Drv/C07.lean` runs exactly these definitions with `H := keccak256`.

Proved here, for all keys / values / op sequences, no size bound:

1. key encodings: `compactToHex ∘ hexToCompact = id` on nibble keys with and without terminator,
   `hexToKeybytes ∘ keybytesToHex = id`, `keybytesToHex` injective and always a valid key;
2. map refinement: on every well-formed trie (`WF`, an invariant of every trie reachable from the
   empty one) `insert`/`delete`/`update` never hit a panic branch, preserve `WF`, and
   `get (insert t k v) k' = if k' = k then v else get t k'` (likewise for `delete`); hence after
   any sequence of updates and deletes `get` returns the last value written (`run_refines`);
   `dirty = false` is only reported when the node is structurally unchanged.

3. canonicity: two tries in normal form (`Canon`) that have the same content are *equal*
   (`canon_unique`, `canonical_of_canon`); `insert` and `delete` preserve the normal form, hence
   after any op sequence the node structure and the root hash (for every `H`) are functions of
   the content alone (`canonical`, `root_order_independent`; first stage `canonical_partial`).

4. proofs: `proof_sound` — for every `H` with 32-byte outputs and `H [0x80] = EmptyRootHash`, every
   reachable trie (node payloads < 2^64 bytes), key and list of blobs: a `val v` / `absent` verdict
   of `verifyProof` against the trie's root is what `get` returns, or two different byte strings
   with the same hash are exhibited; `proof_complete` — the output of `prove` verifies to `get`.
   Ingredients: node codec round trip `decodeNode_enc` (on top of C16's RLP lemmas), the walk
   lemma `walk`, `verifyLoop_sound`, `verifyLoop_complete` (`KV/Proofs/TrieProof*.lean`).
-/
namespace KV.Trie
open KV

/-! ## 1. key encodings -/

/-- `compactToHex (hexToCompact k) = k` for every nibble key without terminator -/
theorem compact_roundtrip (p : Key) (hp : ∀ x ∈ p, x < 16) :
    compactToHex (hexToCompact p) = p :=
  compact_roundtrip_noterm p hp

/-- … and for every nibble key with terminator -/
theorem compact_roundtrip_terminated (p : Key) (hp : ∀ x ∈ p, x < 16) :
    compactToHex (hexToCompact (p ++ [16])) = p ++ [16] :=
  compact_roundtrip_term p hp

/-- `hexToCompact` is injective on well-formed hex keys (with or without terminator): two
different short-node keys never have the same compact encoding -/
theorem hexToCompact_injective (k1 k2 : Key)
    (h1 : (∀ x ∈ k1, x < 16) ∨ ∃ p, k1 = p ++ [16] ∧ ∀ x ∈ p, x < 16)
    (h2 : (∀ x ∈ k2, x < 16) ∨ ∃ p, k2 = p ++ [16] ∧ ∀ x ∈ p, x < 16)
    (h : hexToCompact k1 = hexToCompact k2) : k1 = k2 := by
  have r1 : compactToHex (hexToCompact k1) = k1 := by
    rcases h1 with h | ⟨p, rfl, hp⟩
    · exact compact_roundtrip_noterm _ h
    · exact compact_roundtrip_term _ hp
  have r2 : compactToHex (hexToCompact k2) = k2 := by
    rcases h2 with h | ⟨p, rfl, hp⟩
    · exact compact_roundtrip_noterm _ h
    · exact compact_roundtrip_term _ hp
  rw [← r1, ← r2, h]

/-- `hexToKeybytes (keybytesToHex b) = b` -/
theorem hexToKeybytes_keybytesToHex (bs : Bytes) :
    hexToKeybytes (keybytesToHex bs) = some bs := by
  unfold hexToKeybytes
  rw [keybytesToHex_eq, hasTerm_concat]
  have : ¬ (nibs bs).length % 2 = 1 := by rw [nibs_length]; omega
  simp [this, decodeNibbles_nibs]

theorem keybytesToHex_injective (a b : Bytes) (h : keybytesToHex a = keybytesToHex b) : a = b := by
  rw [keybytesToHex_eq, keybytesToHex_eq] at h
  exact nibs_injective a b (List.append_cancel_right h)

/-- the hex form of a byte key is a valid key: proper nibbles followed by one terminator; in
particular no key is a proper prefix of another (`vkey_prefix_free`), also for byte keys of
different lengths -/
theorem keybytesToHex_valid (bs : Bytes) : VKey (keybytesToHex bs) := keybytesToHex_vkey bs

theorem valid_keys_prefix_free (k r : Key) (h1 : VKey k) (h2 : VKey (k ++ r)) : r = [] :=
  vkey_prefix_free k r h2 h1

/-! ## 2. map refinement -/

/-- `get` never panics on a well-formed trie -/
theorem get_total (t : Node) (ht : WF t) (k : Key) (hk : VKey k) : ∃ r, get t k = some r :=
  get_ok t ht k hk

/-- `insert` on a well-formed trie with a valid key: no panic, `WF` preserved, and the result
maps `k` to `v` and every other valid key as before.  `dirty = false` implies the node is
unchanged. -/
theorem get_insert (t : Node) (ht : WF t) (k : Key) (hk : VKey k) (v : Bytes) :
    ∃ d t', insert t k v = some (d, t') ∧ (d = false → t' = t) ∧ WF t' ∧
      ∀ k', VKey k' → get t' k' = if k' = k then some (some v) else get t k' :=
  insert_spec t ht k hk v

/-- `delete` on a well-formed trie with a valid key: no panic, `WF` preserved, the key is absent
afterwards and every other valid key reads as before (this covers the collapse of a one-child
branch and the merge of nested short nodes) -/
theorem get_delete (t : Node) (ht : WF t) (k : Key) (hk : VKey k) :
    ∃ d t', delete t k = some (d, t') ∧ (d = false → t' = t) ∧ WF t' ∧
      ∀ k', VKey k' → get t' k' = if k' = k then some none else get t k' :=
  delete_spec t ht k hk

/-- the stored value of the abstract map: an empty value means "absent" -/
def stored (v : Bytes) : Option Bytes := if v = [] then none else some v

/-- `Trie.Update` (empty value = delete) -/
theorem get_update (t : Node) (ht : WF t) (k : Key) (hk : VKey k) (v : Bytes) :
    ∃ t', update t k v = some t' ∧ WF t' ∧
      ∀ k', VKey k' → get t' k' = if k' = k then some (stored v) else get t k' := by
  unfold update stored
  by_cases hv : v = []
  · rcases delete_spec t ht k hk with ⟨d, t', h1, _, h3, h4⟩
    exact ⟨t', by simp [hv, h1], h3, by simpa [hv] using h4⟩
  · rcases insert_spec t ht k hk v with ⟨d, t', h1, _, h3, h4⟩
    exact ⟨t', by simp [hv, h1], h3, by simpa [hv] using h4⟩

/-- operations of the public API on byte keys -/
inductive Op where
  | put (k v : Bytes) : Op
  | del (k : Bytes) : Op

def applyOp (t : Node) : Op → Option Node
  | .put k v => update t (keybytesToHex k) v
  | .del k => (delete t (keybytesToHex k)).map (·.2)

/-- run a sequence of operations; `none` = some operation panicked -/
def run : Node → List Op → Option Node
  | t, [] => some t
  | t, op :: ops => (applyOp t op).bind fun t' => run t' ops

/-- the abstract map after an operation: last value written, absent if deleted or empty -/
def absOp (m : Bytes → Option Bytes) : Op → Bytes → Option Bytes
  | .put k v => fun k' => if k' = k then stored v else m k'
  | .del k => fun k' => if k' = k then none else m k'

def absRun (m : Bytes → Option Bytes) (ops : List Op) : Bytes → Option Bytes := ops.foldl absOp m

/-- a trie is reachable when some op sequence produces it from the empty trie -/
def Reachable (t : Node) : Prop := ∃ ops, run .nil ops = some t

theorem run_refines_from (ops : List Op) : ∀ (t : Node) (m : Bytes → Option Bytes), WF t →
    (∀ k, get t (keybytesToHex k) = some (m k)) →
    ∃ t', run t ops = some t' ∧ WF t' ∧
      ∀ k, get t' (keybytesToHex k) = some (absRun m ops k) := by
  induction ops with
  | nil => intro t m ht hm; exact ⟨t, rfl, ht, hm⟩
  | cons op ops ih =>
    intro t m ht hm
    have step : ∃ t1, applyOp t op = some t1 ∧ WF t1 ∧
        ∀ k, get t1 (keybytesToHex k) = some (absOp m op k) := by
      cases op with
      | put k v =>
        rcases get_update t ht _ (keybytesToHex_vkey k) v with ⟨t1, h1, h2, h3⟩
        refine ⟨t1, h1, h2, ?_⟩
        intro k'
        rw [h3 _ (keybytesToHex_vkey k')]
        by_cases e : k' = k
        · subst e; simp [absOp]
        · have : keybytesToHex k' ≠ keybytesToHex k := fun h => e (keybytesToHex_injective _ _ h)
          simp [absOp, e, this, hm]
      | del k =>
        rcases delete_spec t ht _ (keybytesToHex_vkey k) with ⟨d, t1, h1, _, h2, h3⟩
        refine ⟨t1, by simp [applyOp, h1], h2, ?_⟩
        intro k'
        rw [h3 _ (keybytesToHex_vkey k')]
        by_cases e : k' = k
        · subst e; simp [absOp]
        · have : keybytesToHex k' ≠ keybytesToHex k := fun h => e (keybytesToHex_injective _ _ h)
          simp [absOp, e, this, hm]
    rcases step with ⟨t1, h1, h2, h3⟩
    rcases ih t1 (absOp m op) h2 h3 with ⟨t', h4, h5, h6⟩
    exact ⟨t', by simp [run, h1, h4], h5, h6⟩

/-- MAP REFINEMENT: any sequence of updates and deletes (byte keys of arbitrary, also different,
lengths; values of any length, empty = delete) starting from the empty trie runs without panic,
and afterwards `get` returns for every key exactly the last value written — absent if deleted or
written empty. -/
theorem run_refines (ops : List Op) :
    ∃ t, run .nil ops = some t ∧ WF t ∧
      ∀ k, get t (keybytesToHex k) = some (absRun (fun _ => none) ops k) :=
  run_refines_from ops .nil (fun _ => none) trivial (fun k => by simp [get])

/-- every reachable trie is well-formed, so `get_insert`/`get_delete` apply to it -/
theorem reachable_wf (t : Node) (h : Reachable t) : WF t := by
  rcases h with ⟨ops, h⟩
  rcases run_refines ops with ⟨t', h1, h2, _⟩
  rw [h] at h1; cases h1; exact h2

/-- two op sequences with the same abstract content produce tries that agree on every `get` -/
theorem same_content_same_gets (ops1 ops2 : List Op) (t1 t2 : Node)
    (h1 : run .nil ops1 = some t1) (h2 : run .nil ops2 = some t2)
    (hc : absRun (fun _ => none) ops1 = absRun (fun _ => none) ops2) (k : Bytes) :
    get t1 (keybytesToHex k) = get t2 (keybytesToHex k) := by
  rcases run_refines ops1 with ⟨t1', e1, _, g1⟩
  rcases run_refines ops2 with ⟨t2', e2, _, g2⟩
  rw [h1] at e1; rw [h2] at e2; cases e1; cases e2
  rw [g1, g2, hc]

/-! ### non-vacuity -/

/-- the well-formedness hypothesis is satisfiable by a trie with a branch, an extension, a value
in slot 16 (key that is a prefix of another key) and leaves -/
example : ∃ t, run .nil [.put [0x12] [1], .put [0x12, 0x34] [2], .put [0x15] [3]] = some t ∧
    get t (keybytesToHex [0x12]) = some (some [1]) ∧
    get t (keybytesToHex [0x12, 0x34]) = some (some [2]) ∧
    get t (keybytesToHex [0x13]) = some none := by
  rcases run_refines [.put [0x12] [1], .put [0x12, 0x34] [2], .put [0x15] [3]] with ⟨t, h, _, g⟩
  refine ⟨t, h, ?_, ?_, ?_⟩ <;> rw [g] <;> decide

example : VKey (keybytesToHex [0xab, 0xcd]) := keybytesToHex_vkey _
example : compactToHex (hexToCompact [1, 2, 3, 16]) = [1, 2, 3, 16] := by decide
example : hexToCompact [1, 2, 3, 16] = [0x31, 0x23] := by decide
example : hexToCompact [1, 2, 3, 4] = [0x00, 0x12, 0x34] := by decide

/-- without the key well-formedness the map property fails in the model exactly as in the code:
a key that is a proper prefix of a stored key (impossible for terminated keys) panics -/
example : insert (.short [1, 2, 16] (.value [7])) [1] [9] = none := by decide

/-! ## 3. canonicity -/

/-- keys that are not the hex form of a byte string (odd number of nibbles) are never stored -/
theorem run_get_nonimage (ops : List Op) : ∀ (t t' : Node), WF t →
    (∀ hk, VKey hk → (∀ b, hk ≠ keybytesToHex b) → get t hk = some none) →
    run t ops = some t' →
    ∀ hk, VKey hk → (∀ b, hk ≠ keybytesToHex b) → get t' hk = some none := by
  induction ops with
  | nil => intro t t' _ h hr; simp [run] at hr; subst hr; exact h
  | cons op ops ih =>
    intro t t' ht h hr
    simp only [run] at hr
    cases h1 : applyOp t op with
    | none => simp [h1] at hr
    | some t1 =>
      simp only [h1, Option.bind_some] at hr
      have step : WF t1 ∧ ∀ hk, VKey hk → (∀ b, hk ≠ keybytesToHex b) → get t1 hk = some none := by
        cases op with
        | put k v =>
          rcases get_update t ht _ (keybytesToHex_vkey k) v with ⟨t1', e1, e2, e3⟩
          simp only [applyOp] at h1
          rw [h1] at e1; cases e1
          refine ⟨e2, ?_⟩
          intro hk hv hni
          rw [e3 hk hv]; simp [hni k, h hk hv hni]
        | del k =>
          rcases delete_spec t ht _ (keybytesToHex_vkey k) with ⟨d, t1', e1, _, e2, e3⟩
          simp only [applyOp, e1, Option.map_some, Option.some.injEq] at h1
          subst h1
          refine ⟨e2, ?_⟩
          intro hk hv hni
          rw [e3 hk hv]; simp [hni k, h hk hv hni]
      exact ih t1 t' step.1 step.2 hr

/-- two op sequences with the same abstract content produce tries that agree on every valid hex
key (also those that are not the image of a byte key) -/
theorem same_content_same_gets_hex (ops1 ops2 : List Op) (t1 t2 : Node)
    (h1 : run .nil ops1 = some t1) (h2 : run .nil ops2 = some t2)
    (hc : absRun (fun _ => none) ops1 = absRun (fun _ => none) ops2) (hk : Key) (hv : VKey hk) :
    get t1 hk = get t2 hk := by
  by_cases him : ∃ b, hk = keybytesToHex b
  · rcases him with ⟨b, rfl⟩
    exact same_content_same_gets ops1 ops2 t1 t2 h1 h2 hc b
  · have hni : ∀ b, hk ≠ keybytesToHex b := fun b e => him ⟨b, e⟩
    rw [run_get_nonimage ops1 .nil t1 trivial (fun _ _ _ => by simp [get]) h1 hk hv hni,
      run_get_nonimage ops2 .nil t2 trivial (fun _ _ _ => by simp [get]) h2 hk hv hni]

/-- an op sequence consisting of insertions of non-empty values only -/
def InsertOnly (ops : List Op) : Prop := ∀ op ∈ ops, ∃ k v, op = Op.put k v ∧ v ≠ []

/-- insert-only sequences keep the trie in normal form (`Canon`: leaf / extension-over-branch /
branch with at least two children; no nested short nodes) -/
theorem run_insertOnly_canon (ops : List Op) : ∀ (t t' : Node), (t = .nil ∨ Canon t) →
    InsertOnly ops → run t ops = some t' → (t' = .nil ∨ Canon t') := by
  induction ops with
  | nil => intro t t' h _ hr; simp [run] at hr; subst hr; exact h
  | cons op ops ih =>
    intro t t' h hio hr
    rcases hio op (by simp) with ⟨k, v, rfl, hv⟩
    simp only [run, applyOp, update, hv, ne_eq, not_false_eq_true, if_true] at hr
    cases hi : insert t (keybytesToHex k) v with
    | none => simp [hi] at hr
    | some r =>
      rcases r with ⟨d, t1⟩
      simp only [hi, Option.map_some, Option.bind_some] at hr
      have hc := insert_canon t h _ (keybytesToHex_vkey k) v d t1 hi
      exact ih t1 t' (Or.inr hc) (fun op hop => hio op (by simp [hop])) hr

/-- CANONICITY for insert-only sequences (first stage; the full theorem `canonical` below also
covers deletes): two tries in normal form with the same abstract content are *identical*
(`canon_unique`), and insert-only op sequences stay in normal form. -/
theorem canonical_partial (ops1 ops2 : List Op) (t1 t2 : Node)
    (i1 : InsertOnly ops1) (i2 : InsertOnly ops2)
    (h1 : run .nil ops1 = some t1) (h2 : run .nil ops2 = some t2)
    (hc : absRun (fun _ => none) ops1 = absRun (fun _ => none) ops2) : t1 = t2 := by
  have c1 := run_insertOnly_canon ops1 .nil t1 (Or.inl rfl) i1 h1
  have c2 := run_insertOnly_canon ops2 .nil t2 (Or.inl rfl) i2 h2
  have hg := same_content_same_gets_hex ops1 ops2 t1 t2 h1 h2 hc
  rcases c1 with e1 | c1 <;> rcases c2 with e2 | c2
  · rw [e1, e2]
  · exfalso
    rcases canon_nonempty _ c2 with ⟨k, v, hk, hgv⟩
    rw [← hg k hk, e1] at hgv; simp [get] at hgv
  · exfalso
    rcases canon_nonempty _ c1 with ⟨k, v, hk, hgv⟩
    rw [hg k hk, e2] at hgv; simp [get] at hgv
  · exact canon_unique t1 c1 t2 c2 hg

/-- the same with the normal-form hypothesis explicit instead of "insert-only": any two reachable
tries (deletes allowed) that are in normal form and have the same content are identical -/
theorem canonical_of_canon (ops1 ops2 : List Op) (t1 t2 : Node)
    (c1 : Canon t1) (c2 : Canon t2)
    (h1 : run .nil ops1 = some t1) (h2 : run .nil ops2 = some t2)
    (hc : absRun (fun _ => none) ops1 = absRun (fun _ => none) ops2) : t1 = t2 :=
  canon_unique t1 c1 t2 c2 (same_content_same_gets_hex ops1 ops2 t1 t2 h1 h2 hc)

/-- the root hash of an insert-only build is independent of the insertion order, for every hash
function -/
theorem root_order_independent_partial (H : Bytes → Bytes) (ops1 ops2 : List Op) (t1 t2 : Node)
    (i1 : InsertOnly ops1) (i2 : InsertOnly ops2)
    (h1 : run .nil ops1 = some t1) (h2 : run .nil ops2 = some t2)
    (hc : absRun (fun _ => none) ops1 = absRun (fun _ => none) ops2) :
    rootHash H t1 = rootHash H t2 := by
  rw [canonical_partial ops1 ops2 t1 t2 i1 i2 h1 h2 hc]

/-- non-vacuity: two different insertion orders (with an overwrite) of a content that produces a
branch, an extension and a value in slot 16 -/
example : ∃ t1 t2,
    run .nil [.put [0x12] [1], .put [0x12, 0x34] [2], .put [0x15] [3]] = some t1 ∧
    run .nil [.put [0x15] [9], .put [0x12, 0x34] [2], .put [0x15] [3], .put [0x12] [1]] = some t2 ∧
    t1 = t2 := by
  rcases run_refines [.put [0x12] [1], .put [0x12, 0x34] [2], .put [0x15] [3]] with ⟨t1, h1, _, _⟩
  rcases run_refines [.put [0x15] [9], .put [0x12, 0x34] [2], .put [0x15] [3], .put [0x12] [1]]
    with ⟨t2, h2, _, _⟩
  refine ⟨t1, t2, h1, h2, canonical_partial _ _ t1 t2 ?_ ?_ h1 h2 ?_⟩
  · intro op hop; simp at hop; rcases hop with rfl | rfl | rfl <;> exact ⟨_, _, rfl, by decide⟩
  · intro op hop; simp at hop
    rcases hop with rfl | rfl | rfl | rfl <;> exact ⟨_, _, rfl, by decide⟩
  · funext k
    simp only [absRun, List.foldl, absOp, stored]
    by_cases e1 : k = [0x12] <;> by_cases e2 : k = [0x12, 0x34] <;> by_cases e3 : k = [0x15] <;>
      simp_all

/-- CANONICITY (full statement): the node structure reached by an op sequence depends only on the
abstract content, also when the sequence contains deletes.  Proved below (`canonical`). -/
def CanonicalStatement : Prop :=
  ∀ (ops1 ops2 : List Op) (t1 t2 : Node),
    run .nil ops1 = some t1 → run .nil ops2 = some t2 →
    absRun (fun _ => none) ops1 = absRun (fun _ => none) ops2 → t1 = t2

/-- `delete` preserves the normal form (collapse of a one-child branch, merge of nested short
nodes) -/
def DeleteCanonStatement : Prop :=
  ∀ (t : Node) (k : Key) (d : Bool) (t' : Node), Canon t → VKey k →
    delete t k = some (d, t') → (t' = .nil ∨ Canon t')

theorem delete_preserves_canon : DeleteCanonStatement :=
  fun t k d t' hc hk h => delete_canon t hc k hk d t' h

/-- every reachable trie is empty or in normal form -/
theorem run_canon (ops : List Op) : ∀ (t t' : Node), (t = .nil ∨ Canon t) →
    run t ops = some t' → (t' = .nil ∨ Canon t') := by
  induction ops with
  | nil => intro t t' h hr; simp [run] at hr; subst hr; exact h
  | cons op ops ih =>
    intro t t' h hr
    simp only [run] at hr
    cases h1 : applyOp t op with
    | none => simp [h1] at hr
    | some t1 =>
      simp only [h1, Option.bind_some] at hr
      refine ih t1 t' ?_ hr
      have hdel : ∀ k, (delete t (keybytesToHex k)).map (·.2) = some t1 → (t1 = .nil ∨ Canon t1) := by
        intro k hd
        cases hi : delete t (keybytesToHex k) with
        | none => simp [hi] at hd
        | some r =>
          rcases r with ⟨d, t1'⟩
          simp only [hi, Option.map_some, Option.some.injEq] at hd
          subst hd
          rcases h with e | hc
          · subst e; simp [delete] at hi; exact Or.inl hi.2.symm
          · exact delete_canon t hc _ (keybytesToHex_vkey k) d t1' hi
      cases op with
      | put k v =>
        simp only [applyOp, update] at h1
        by_cases hv : v = []
        · simp only [hv, ne_eq, not_true_eq_false, if_false] at h1
          exact hdel k h1
        · simp only [hv, ne_eq, not_false_eq_true, if_true] at h1
          cases hi : insert t (keybytesToHex k) v with
          | none => simp [hi] at h1
          | some r =>
            rcases r with ⟨d, t1'⟩
            simp only [hi, Option.map_some, Option.some.injEq] at h1
            subst h1
            exact Or.inr (insert_canon t h _ (keybytesToHex_vkey k) v d t1' hi)
      | del k => exact hdel k h1

/-- CANONICITY: after any sequences of updates and deletes, equal abstract content implies
*identical* node structure -/
theorem canonical : CanonicalStatement := by
  intro ops1 ops2 t1 t2 h1 h2 hc
  have c1 := run_canon ops1 .nil t1 (Or.inl rfl) h1
  have c2 := run_canon ops2 .nil t2 (Or.inl rfl) h2
  have hg := same_content_same_gets_hex ops1 ops2 t1 t2 h1 h2 hc
  rcases c1 with e1 | c1 <;> rcases c2 with e2 | c2
  · rw [e1, e2]
  · exfalso
    rcases canon_nonempty _ c2 with ⟨k, v, hk, hgv⟩
    rw [← hg k hk, e1] at hgv; simp [get] at hgv
  · exfalso
    rcases canon_nonempty _ c1 with ⟨k, v, hk, hgv⟩
    rw [hg k hk, e2] at hgv; simp [get] at hgv
  · exact canon_unique t1 c1 t2 c2 hg

/-- corollary of `CanonicalStatement`: the root hash is independent of insertion order and of
deleted intermediate entries, for every hash function -/
def RootOrderIndependentStatement : Prop :=
  ∀ (H : Bytes → Bytes) (ops1 ops2 : List Op) (t1 t2 : Node),
    run .nil ops1 = some t1 → run .nil ops2 = some t2 →
    absRun (fun _ => none) ops1 = absRun (fun _ => none) ops2 → rootHash H t1 = rootHash H t2

theorem root_order_independent_of_canonical (h : CanonicalStatement) :
    RootOrderIndependentStatement := by
  intro H ops1 ops2 t1 t2 h1 h2 hc
  rw [h ops1 ops2 t1 t2 h1 h2 hc]

/-- ROOT: the root hash is a function of the key-value content alone -/
theorem root_order_independent : RootOrderIndependentStatement :=
  root_order_independent_of_canonical canonical

/-- non-vacuity with a delete: inserting and deleting an extra key leaves no trace -/
example : ∃ t1 t2,
    run .nil [.put [0x12] [1], .put [0x15] [3]] = some t1 ∧
    run .nil [.put [0x15] [3], .put [0x12, 0x34] [2], .put [0x12] [1], .del [0x12, 0x34]] = some t2 ∧
    t1 = t2 := by
  rcases run_refines [.put [0x12] [1], .put [0x15] [3]] with ⟨t1, h1, _, _⟩
  rcases run_refines [.put [0x15] [3], .put [0x12, 0x34] [2], .put [0x12] [1], .del [0x12, 0x34]]
    with ⟨t2, h2, _, _⟩
  refine ⟨t1, t2, h1, h2, canonical _ _ t1 t2 h1 h2 ?_⟩
  funext k
  simp only [absRun, List.foldl, absOp, stored]
  by_cases e1 : k = [0x12] <;> by_cases e2 : k = [0x12, 0x34] <;> by_cases e3 : k = [0x15] <;>
    simp_all

/-! ## 4. proof soundness -/

/-- the abstract map never holds an empty value -/
theorem absRun_ne_empty (ops : List Op) : ∀ (m : Bytes → Option Bytes), (∀ k, m k ≠ some []) →
    ∀ k, absRun m ops k ≠ some [] := by
  induction ops with
  | nil => intro m hm k; exact hm k
  | cons op ops ih =>
    intro m hm k
    simp only [absRun, List.foldl]
    apply ih
    intro k'
    cases op with
    | put k0 v =>
      simp only [absOp, stored]
      by_cases e : k' = k0
      · by_cases hv : v = [] <;> simp [e, hv]
      · simp [e, hm k']
    | del k0 =>
      simp only [absOp]
      by_cases e : k' = k0
      · simp [e]
      · simp [e, hm k']

/-- in a reachable trie no valid key maps to the empty value (writing an empty value deletes) -/
theorem reachable_noEmpty (t : Node) (h : Reachable t) : NoEmpty t := by
  rcases h with ⟨ops, h⟩
  intro hk hv hg
  by_cases him : ∃ b, hk = keybytesToHex b
  · rcases him with ⟨b, rfl⟩
    rcases run_refines ops with ⟨t', e1, _, g1⟩
    rw [h] at e1; cases e1
    rw [g1 b] at hg
    simp only [Option.some.injEq] at hg
    exact absRun_ne_empty ops (fun _ => none) (by simp) b hg
  · have hni : ∀ b, hk ≠ keybytesToHex b := fun b e => him ⟨b, e⟩
    rw [run_get_nonimage ops .nil t trivial (fun _ _ _ => by simp [get]) h hk hv hni] at hg
    simp at hg

/-- PROOF SOUNDNESS (statement).  `H` is any function with 32-byte outputs whose value on the RLP
empty string is the constant `types.EmptyRootHash` the code uses for the empty trie (both hold for
Keccak-256; without the first, `decodeRef` would read a hash reference of another length as an
error or as "no child"; without the second nothing ties the constant to `H`).  `EncOK H t`: every
node payload is shorter than 2^64 bytes, the limit of `lib/rlp` (C16).  The proof database is
`{H blob ↦ blob}` for the given blobs, as a receiver builds it.  Then for every reachable trie, key
and list of blobs — genuine, tampered, reordered, from another trie —: a `val v` verdict means the
trie stores exactly `v` under the key, an `absent` verdict means the key is absent, unless two
different byte strings with the same hash are exhibited (a blob of the proof and the genuine
encoding of the trie node it stands for). -/
def ProofSoundStatement : Prop :=
  ∀ (H : Bytes → Bytes), (∀ x, (H x).length = 32) → H [0x80] = emptyRoot →
  ∀ (t : Node) (k : Bytes) (proof : List Bytes), Reachable t → EncOK H t →
    (∀ v, verifyProof H (rootHash H t) (keybytesToHex k) proof = .val v →
        (get t (keybytesToHex k) = some (some v) ∧ v ≠ []) ∨ ∃ a b, a ≠ b ∧ H a = H b) ∧
    (verifyProof H (rootHash H t) (keybytesToHex k) proof = .absent →
        get t (keybytesToHex k) = some none ∨ ∃ a b, a ≠ b ∧ H a = H b)

theorem decodeNode_emptyString (fuel : Nat) : decodeNode fuel [0x80] = none := by
  cases fuel with
  | zero => rfl
  | succ f =>
    have : KV.Rlp.rawSplit [0x80] = some (1, [], []) := by decide
    simp [decodeNode, splitList, this]

/-- PROOF SOUNDNESS, proved in collision-extraction form -/
theorem proof_sound : ProofSoundStatement := by
  intro H hlen hE t k proof hreach hok
  have hne := reachable_noEmpty t hreach
  have hk := keybytesToHex_vkey k
  have hcan : t = .nil ∨ Canon t := by
    rcases hreach with ⟨ops, h⟩
    exact run_canon ops .nil t (Or.inl rfl) h
  rcases hcan with rfl | hcan
  · -- the empty trie: its root is the constant, tied to `H` by `hE`
    have key : ∀ r, verifyProof H (rootHash H .nil) (keybytesToHex k) proof = r →
        r = .err ∨ ∃ a b, a ≠ b ∧ H a = H b := by
      intro r hr
      simp only [verifyProof, rootHash, verifyLoop] at hr
      cases hl : lookup H proof emptyRoot with
      | none => rw [hl] at hr; exact Or.inl hr.symm
      | some buf =>
        obtain ⟨hh, _⟩ := lookup_hash hl
        by_cases hb : buf = [0x80]
        · subst hb
          rw [hl] at hr
          simp only [decodeNode_emptyString] at hr
          exact Or.inl hr.symm
        · exact Or.inr ⟨buf, [0x80], hb, by rw [hh, hE]⟩
    refine ⟨?_, ?_⟩
    · intro v hv
      rcases key _ hv with e | c
      · cases e
      · exact Or.inr c
    · intro _; exact Or.inl (by simp [get])
  · have hroot : rootHash H t = H (KV.Rlp.enc (item H t)) := by
      cases t with
      | nil => exact absurd hcan (by simp [Canon])
      | value v => exact absurd hcan (by simp [Canon])
      | hash h => exact absurd hcan (by simp [Canon])
      | short _ _ => rfl
      | full _ => rfl
    have hs := verifyLoop_sound H hlen proof (proof.length + 1) t (keybytesToHex k) hcan hne hok hk
    unfold verifyProof
    rw [hroot]
    refine ⟨?_, hs.2⟩
    intro v hv
    rcases hs.1 v hv with hg | c
    · refine Or.inl ⟨hg, ?_⟩
      intro e; subst e
      exact hne _ hk hg
    · exact Or.inr c

/-- the same in the form of the property text: with the stored-value convention of the abstract
map (`stored`), for a concrete op sequence -/
theorem proof_sound_run (H : Bytes → Bytes) (hlen : ∀ x, (H x).length = 32)
    (hE : H [0x80] = emptyRoot) (ops : List Op) (t : Node) (hrun : run .nil ops = some t)
    (hok : EncOK H t) (k : Bytes) (proof : List Bytes) :
    (∀ v, verifyProof H (rootHash H t) (keybytesToHex k) proof = .val v →
        absRun (fun _ => none) ops k = some v ∨ ∃ a b, a ≠ b ∧ H a = H b) ∧
    (verifyProof H (rootHash H t) (keybytesToHex k) proof = .absent →
        absRun (fun _ => none) ops k = none ∨ ∃ a b, a ≠ b ∧ H a = H b) := by
  have hs := proof_sound H hlen hE t k proof ⟨ops, hrun⟩ hok
  rcases run_refines ops with ⟨t', e1, _, g1⟩
  rw [hrun] at e1; cases e1
  refine ⟨?_, ?_⟩
  · intro v hv
    rcases hs.1 v hv with ⟨hg, _⟩ | c
    · rw [g1 k] at hg; simp only [Option.some.injEq] at hg; exact Or.inl hg
    · exact Or.inr c
  · intro hv
    rcases hs.2 hv with hg | c
    · rw [g1 k] at hg; simp only [Option.some.injEq] at hg; exact Or.inl hg
    · exact Or.inr c

/-- PROOF COMPLETENESS: for every non-empty reachable trie and every key, `prove` (the model of
`Trie.Prove`) does not fail, and the blobs it emits verify against the root to exactly what `get`
returns — the stored value or absence — unless the emitted blobs themselves contain two different
byte strings with the same hash.  (For the empty trie `Prove` emits nothing and `VerifyProof`
reports an error, in the model as in the code.) -/
theorem proof_complete (H : Bytes → Bytes) (hlen : ∀ x, (H x).length = 32) (t : Node)
    (hreach : Reachable t) (hnil : t ≠ .nil) (hok : EncOK H t) (k : Bytes) :
    ∃ blobs, prove H t (keybytesToHex k) = some blobs ∧
      (verifyProof H (rootHash H t) (keybytesToHex k) blobs = verdictOf (get t (keybytesToHex k)) ∨
        ∃ a b, a ≠ b ∧ H a = H b) := by
  have hne := reachable_noEmpty t hreach
  have hk := keybytesToHex_vkey k
  have hcan : Canon t := by
    rcases hreach with ⟨ops, h⟩
    rcases run_canon ops .nil t (Or.inl rfl) h with e | c
    · exact absurd e hnil
    · exact c
  have hroot : rootHash H t = H (KV.Rlp.enc (item H t)) := by
    cases t with
    | nil => exact absurd rfl hnil
    | value v => exact absurd hcan (by simp [Canon])
    | hash h => exact absurd hcan (by simp [Canon])
    | short _ _ => rfl
    | full _ => rfl
  refine ⟨_, prove_eq H t hcan _ hk, ?_⟩
  unfold verifyProof
  rw [hroot]
  exact verifyLoop_complete H hlen _ _ t _ hcan hne hok hk (by simp)
    (fun b hb => by simp [hb]) (by simp; omega)

/-- completeness in terms of the abstract content of an op sequence -/
theorem proof_complete_run (H : Bytes → Bytes) (hlen : ∀ x, (H x).length = 32) (ops : List Op)
    (t : Node) (hrun : run .nil ops = some t) (hnil : t ≠ .nil) (hok : EncOK H t) (k : Bytes) :
    ∃ blobs, prove H t (keybytesToHex k) = some blobs ∧
      (verifyProof H (rootHash H t) (keybytesToHex k) blobs =
          (match absRun (fun _ => none) ops k with
            | some v => VRes.val v
            | none => VRes.absent) ∨
        ∃ a b, a ≠ b ∧ H a = H b) := by
  obtain ⟨blobs, h1, h2⟩ := proof_complete H hlen t ⟨ops, hrun⟩ hnil hok k
  rcases run_refines ops with ⟨t', e1, _, g1⟩
  rw [hrun] at e1; cases e1
  refine ⟨blobs, h1, ?_⟩
  rw [g1 k] at h2
  cases h : absRun (fun _ => none) ops k <;> simpa [h, verdictOf] using h2

/-! ### non-vacuity of the hypotheses on `H` -/

/-- a (cryptographically worthless) function that satisfies the two hypotheses on `H` -/
def toyHash (b : Bytes) : Bytes :=
  if b = [0x80] then emptyRoot else (b ++ List.replicate 32 0).take 32

example : ∀ x, (toyHash x).length = 32 := by
  intro x
  unfold toyHash
  by_cases h : x = [0x80]
  · simp [h]; decide
  · simp [h]

example : toyHash [0x80] = emptyRoot := by simp [toyHash]

/-- `EncOK` holds for a concrete reachable trie (a single leaf) -/
example : EncOK toyHash (.short [1, 2, 16] (.value [7])) := by
  refine ⟨?_, trivial⟩
  rw [item_short]
  simp only [KV.Rlp.Item.ok, KV.Rlp.Items.ok, refItem, item, KV.Rlp.encs]
  refine ⟨⟨by decide, by decide, trivial⟩, by decide⟩

end KV.Trie
