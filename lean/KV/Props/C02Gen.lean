import KV.Gen.C02
import KV.Model.VoteSet
/-!
# C02 — bridge between the regenerated Go arithmetic (tie T1) and the model

`KV/Gen/C02.lean` is re-extracted from `types/vote_set.go` / `types/validator_set.go` on every
check run.  These theorems state that the threshold expressions the model `KV.VoteSet` uses — and
about which `KV/Props/C02.lean` proves soundness — are *the ones the source contains now*.
A change of the Go arithmetic (`+ 1` dropped, `>` vs `>=`, `*2/3` → `/3*2`, another cap) changes
the generated definitions and breaks one of these proofs.
-/
namespace KV.VoteSet.GenBridge
open KV

/-- `quorum := total*2/3 + 1` in `addVerifiedVote` -/
theorem gen_quorum_eq (total : Int) : Gen.C02.quorum total = VoteSet.quorum total := rfl

/-- the crossing test `origSum < quorum && quorum <= sum` of `addVerifiedVote` -/
theorem gen_crossesQuorum_eq (origSum q newSum : Int) :
    Gen.C02.crossesQuorum origSum q newSum = decide (origSum < q ∧ q ≤ newSum) := by
  simp [Gen.C02.crossesQuorum]

/-- `sum > total*2/3` in `HasTwoThirdsAny` -/
theorem gen_hasTwoThirdsAny_eq (sum total : Int) :
    Gen.C02.hasTwoThirdsAny sum total = decide (sum > VoteSet.twoThirds total) := rfl

/-- `votingPowerNeeded := total * 2 / 3` in `VerifyCommit` -/
theorem gen_votingPowerNeeded_eq (total : Int) :
    Gen.C02.votingPowerNeeded total = VoteSet.twoThirds total := rfl

/-- `got <= needed` (not enough power) in `VerifyCommit`, on the tallied power and the needed power -/
theorem gen_notEnough_eq (got needed : Int) :
    Gen.C02.notEnoughVotingPower (Gen.C02.verifyCommitGot got) (Gen.C02.verifyCommitNeeded needed)
      = decide (got ≤ needed) := rfl

/-- `sum == total` in `HasAll` -/
theorem gen_hasAll_eq (sum total : Int) : Gen.C02.hasAll sum total = decide (sum = total) := rfl

/-- the cap under which the no-overflow theorems are proved is the source's `MaxTotalVotingPower` -/
theorem gen_cap_eq : Gen.C02.MaxTotalVotingPower = VoteSet.maxTotalVotingPower := by decide

end KV.VoteSet.GenBridge
