import KV.Base.Sha256
import KV.Proofs.PartSet
import KV.Proofs.HeaderWire
import KV.Base.Keccak
import KV.Model.ValidateCache
/-! # C13 — Blocks are tamper-evident and reassemble exactly from their parts

Theorems over the models `KV.Merkle` (lib/merkle) and `KV.PartSet` (types/part_set.go, the code
after fix F3). The hash function is a parameter `H : Bytes → Bytes`; the only thing assumed about it
is a fixed output length (`∀ x, (H x).length = hs`; `lib/merkle.Sum` returns a `[32]byte`), and every
security statement has the collision-extraction form `claim ∨ ∃ a b, a ≠ b ∧ H a = H b`
(`Collision H`, the pair is constructed by the proof).

Block level: `header_wire_injective` / `header_hash_binds` (the block hash binds all 13 header
fields) and `commit_hash_binds_sigs` are proved over `KV.HeaderWire`; `ValidateBasic` binding the
body to the header, `VerifyCommit` binding the commit's height/round/block id, and the wire and
database round trips are covered by the oracle harness on the real code
(`kai/state/cstate/c13_test.go`). -/
namespace KV.Props.C13
open KV KV.Merkle KV.PartSet

/-! ## splitting and joining -/

/-- `join (split d s) = d` for every `d` and every part size `s > 0` -/
theorem join_split (d : Bytes) (s : Nat) (hs : 0 < s) : join (split d s) = d :=
  join_split' d s hs

/-- the number of parts is `ceil(len / s)` -/
theorem split_count (d : Bytes) (s : Nat) (hs : 0 < s) :
    (split d s).length = (d.length + s - 1) / s ∧
    ((split d s).length - 1) * s < d.length + (if d = [] then 1 else 0) ∧
    d.length ≤ (split d s).length * s := by
  rw [split_length]
  refine ⟨rfl, ?_, numParts_mul_ge _ _ hs⟩
  by_cases hd : d = []
  · subst hd
    have : (s - 1) / s = 0 := Nat.div_eq_of_lt (by omega)
    simp [numParts, this]
  · simp only [hd, if_false, Nat.add_zero]
    have hpos : 0 < numParts d.length s := by
      have : numParts d.length s ≠ 0 := fun h0 =>
        hd (List.length_eq_zero_iff.mp ((numParts_eq_zero d.length s hs).mp h0))
      omega
    exact lt_of_lt_numParts _ _ _ hs (by omega)

/-- every part but the last has exactly `s` bytes; the last one has between 1 and `s` bytes -/
theorem split_part_lengths (d : Bytes) (s : Nat) (hs : 0 < s) (i : Nat) (p : Bytes)
    (hp : (split d s)[i]? = some p) :
    (i + 1 < (split d s).length → p.length = s) ∧
    (i + 1 = (split d s).length → p.length = d.length - i * s ∧ 0 < p.length ∧ p.length ≤ s) := by
  have hi : i < numParts d.length s := by
    have := (List.getElem?_eq_some_iff.mp hp).1
    rwa [split_length] at this
  rw [split_getElem? d s i hi] at hp
  simp only [Option.some.injEq] at hp
  subst hp
  rw [partBytes_length, split_length]
  have h1 := lt_of_lt_numParts _ _ _ hs hi
  have h3 : (i + 1) * s = i * s + s := Nat.succ_mul i s
  constructor
  · intro hlt
    have h2 := lt_of_lt_numParts _ _ _ hs hlt
    rw [Nat.min_eq_right (by omega)]; omega
  · intro heq
    have h2 := numParts_mul_ge d.length s hs
    rw [← heq] at h2
    rw [Nat.min_eq_left h2]
    omega

/-! ## Merkle proofs -/

/-- the proofs made for `items` verify against `root items`, carry their index and the total -/
theorem proof_complete (H : Bytes → Bytes) (items : List Bytes) (i : Nat) (x : Bytes) (p : Proof)
    (hx : items[i]? = some x) (hp : (proofs H items)[i]? = some p) :
    verify H (root H items) p x = .ok ∧ p.index = i ∧ p.total = items.length := by
  obtain ⟨h1, h2, h3⟩ := verify_generated H items i x p hx hp
  exact ⟨h3, h2, h1⟩

/-- there is a proof for every item -/
theorem proofs_total (H : Bytes → Bytes) (items : List Bytes) :
    (proofs H items).length = items.length := proofs_length H items

/-- soundness, collision-extraction form: a proof whose `total` is the number of items and that
verifies against the root of a non-empty `items` shows the item at its index — or the proof
contains a collision of `H`. -/
theorem proof_sound (H : Bytes → Bytes) (hs : Nat) (hfix : ∀ x, (H x).length = hs)
    (items : List Bytes) (hne : items ≠ []) (p : Proof) (leaf : Bytes)
    (hv : verify H (root H items) p leaf = .ok) (hn : p.total = items.length) :
    items[p.index]? = some leaf ∨ ∃ a b, a ≠ b ∧ H a = H b :=
  verify_sound H hs hfix items hne p leaf hn hv

/-- leaf/inner domain separation: no leaf hash equals an inner hash, short of a collision -/
theorem leaf_inner_separated (H : Bytes → Bytes) (x l r : Bytes)
    (h : leafHash H x = innerHash H l r) : ∃ a b, a ≠ b ∧ H a = H b :=
  leaf_inner_ne H x l r h

/-- F3 at the level of `Verify` alone: a leaf of a 3-leaf tree verifies as leaf 1 of a 2-leaf tree
(`Verify` does not look at the tree size), for every hash function. This is why `AddPart` has to
compare the proof's `Total`/`Index` with the part set's. -/
theorem total_aliasing_counterexample (H : Bytes → Bytes) (a b c : Bytes) :
    verify H (root H [a, b, c])
      ⟨2, 1, leafHash H c, [innerHash H (leafHash H a) (leafHash H b)]⟩ c = .ok := by
  have sp3 : splitPoint 3 = 2 := by decide
  have sp2 : splitPoint 2 = 1 := by decide
  simp [verify, Proof.computeRootHash, computeHashFromAunts, computeRev, root, rootAux, sp3, sp2]

/-- `Verify` against an *empty* root hash accepts any malformed proof (nil equals empty for
`bytes.Equal`): the guards `items ≠ []` above and the 32-byte `common.Hash` of a part-set header are
needed. -/
theorem verify_empty_root_accepts (H : Bytes → Bytes) (leaf : Bytes) (junk : List Bytes) :
    verify H [] ⟨0, 7, leafHash H leaf, junk⟩ leaf = .ok := by
  cases hj : junk.reverse <;> simp [verify, Proof.computeRootHash, computeHashFromAunts, computeRev, hj]


/-- **the root binds the whole list** (tamper evidence of everything hashed with
`SimpleHashFromByteSlices`: the part list, `Commit.Hash` over the commit signatures, the evidence
list): equal roots of two non-empty lists ⇒ equal lists, or a collision of `H`. This is the
theorem that needs the 0x00/0x01 domain separation — the number of leaves is *not* given. -/
theorem root_binds_items (H : Bytes → Bytes) (hs : Nat) (hfix : ∀ x, (H x).length = hs)
    (xs ys : List Bytes) (hx : xs ≠ []) (hy : ys ≠ []) (h : root H xs = root H ys) :
    xs = ys ∨ ∃ a b, a ≠ b ∧ H a = H b :=
  root_inj H hs hfix xs ys hx hy h

/-- the same for a list of records hashed through an injective encoding (e.g. the protobuf bytes
of the commit signatures in `Commit.Hash`) -/
theorem merkle_list_hash_binds {α : Type} (H : Bytes → Bytes) (hs : Nat) (hfix : ∀ x, (H x).length = hs)
    (enc : α → Bytes) (hinj : ∀ a b, enc a = enc b → a = b) (xs ys : List α)
    (hx : xs ≠ []) (hy : ys ≠ []) (h : root H (xs.map enc) = root H (ys.map enc)) :
    xs = ys ∨ ∃ a b, a ≠ b ∧ H a = H b := by
  rcases root_inj H hs hfix _ _ (by simpa using hx) (by simpa using hy) h with he | hc
  · left
    clear h hx hy
    induction xs generalizing ys with
    | nil => cases ys <;> simp_all
    | cons x xs ih =>
      cases ys with
      | nil => simp at he
      | cons y ys =>
        simp only [List.map_cons, List.cons.injEq] at he
        rw [hinj _ _ he.1, ih ys he.2]
  · exact Or.inr hc

/-- **the part-set header commits to the data**: two byte strings split with the same part size
that produce the same Merkle root are equal, or `H` has a collision. (So two blocks with different
bytes never share a `BlockID`, whose second component is the part-set header.) -/
theorem partset_header_binds_data (H : Bytes → Bytes) (hs : Nat) (hfix : ∀ x, (H x).length = hs)
    (d1 d2 : Bytes) (size : Nat) (hsz : 0 < size) (h1 : d1 ≠ []) (h2 : d2 ≠ [])
    (h : root H (split d1 size) = root H (split d2 size)) :
    d1 = d2 ∨ ∃ a b, a ≠ b ∧ H a = H b := by
  have hne : ∀ d : Bytes, d ≠ [] → split d size ≠ [] := by
    intro d hd h
    have := split_length d size
    rw [h] at this
    have h0 := (numParts_eq_zero d.length size hsz).mp this.symm
    exact hd (List.length_eq_zero_iff.mp h0)
  rcases root_inj H hs hfix _ _ (hne d1 h1) (hne d2 h2) h with he | hc
  · left
    rw [← join_split' d1 size hsz, ← join_split' d2 size hsz, he]
  · exact Or.inr hc

/-- without the leaf prefix the root would not bind the list: for `H' x := H (x.drop 1)` in the
leaf position — here stated directly: a two-leaf tree's root is the leaf hash of `l ‖ r` when leaf
and inner hashes use the same prefix. -/
theorem no_domain_separation_counterexample (H : Bytes → Bytes) (a b : Bytes) :
    let leafH (x : Bytes) : Bytes := H (0x01 :: x)          -- leaf prefix = inner prefix
    innerHash H (leafH a) (leafH b) = leafH (leafH a ++ leafH b) := by
  simp [innerHash]

/-- **finding C13-E1 (model side)**: the part-set header — second component of the block id — is a
function of the *bytes*, not of the block: appending anything (an unknown protobuf field, which the
decoder drops) to an encoding changes the Merkle root, short of a collision. Since consensus votes
for the header of the received parts and block sync recomputes it from the canonical re-encoding,
one block has several ids. -/
theorem block_id_depends_on_encoding_counterexample (H : Bytes → Bytes) (hs : Nat)
    (hfix : ∀ x, (H x).length = hs) (d extra : Bytes) (size : Nat) (hsz : 0 < size)
    (hd : d ≠ []) (he : extra ≠ []) :
    root H (split d size) ≠ root H (split (d ++ extra) size) ∨ ∃ a b, a ≠ b ∧ H a = H b := by
  by_cases h : root H (split d size) = root H (split (d ++ extra) size)
  · rcases partset_header_binds_data H hs hfix d (d ++ extra) size hsz hd (by simp [hd]) h with e | hc
    · have : (d ++ extra).length = d.length := by rw [← e]
      simp at this
      exact absurd this he
    · exact Or.inr hc
  · exact Or.inl h

/-! ## the part set -/

section partset
variable (H : Bytes → Bytes) (data : Bytes) (size : Nat)

/-- the receiving side: `NewPartSetFromHeader` for the header the sender computed for `data` -/
def receiver : PartSet := newFromHeader (split data size).length (root H (split data size))

/-- **partset_exact**: after EVERY sequence of `AddPart` calls with arbitrary parts (any order,
duplicates, wrong index, proof of another leaf, wrong total, truncated bytes, …), if the set
reports itself complete then the reader yields exactly `data` — or `H` has a collision. -/
theorem partset_exact (hs : Nat) (hfix : ∀ x, (H x).length = hs) (hsz : 0 < size) (hd : data ≠ []) (seq : List Part)
    (hc : isComplete (run H (receiver H data size) seq) = true) :
    reader (run H (receiver H data size) seq) = .ok data ∨ ∃ a b, a ≠ b ∧ H a = H b := by
  have hne : split data size ≠ [] := by
    intro h
    have := split_length data size
    rw [h] at this
    have h0 := (numParts_eq_zero data.length size hsz).mp this.symm
    exact hd (List.length_eq_zero_iff.mp h0)
  rcases run_inv H hs hfix (split data size) hne seq (receiver H data size) (inv_newFromHeader _ _) with hcol | hinv
  · exact Or.inr hcol
  · left
    have := reader_of_inv (split data size) hne _ _ hinv hc
    rwa [join_split' data size hsz] at this

/-- **bogus_never_stored**: whatever was offered before, a part that `AddPart` accepts carries
exactly the bytes that belong at its index (so a part that does not belong there is rejected) — or
`H` has a collision. -/
theorem bogus_never_stored (hs : Nat) (hfix : ∀ x, (H x).length = hs) (hsz : 0 < size) (hd : data ≠ []) (seq : List Part) (p : Part)
    (hadd : (addPart H (run H (receiver H data size) seq) p).2 = .added) :
    (split data size)[p.index]? = some p.bytes ∨ ∃ a b, a ≠ b ∧ H a = H b := by
  have hne : split data size ≠ [] := by
    intro h
    have := split_length data size
    rw [h] at this
    have h0 := (numParts_eq_zero data.length size hsz).mp this.symm
    exact hd (List.length_eq_zero_iff.mp h0)
  have hsh := run_shape H (split data size) (root H (split data size)) seq _
    (show Shape _ _ (receiver H data size) from ⟨rfl, rfl, by simp [receiver, newFromHeader]⟩)
  rcases addPart_cases H (run H (receiver H data size) seq) p with ⟨_, h2⟩ | ⟨_, _, _, hpi, hpt, hv, _⟩
  · exact absurd hadd h2
  · rw [hsh.2.1] at hv
    rw [hsh.1] at hpt
    have := verify_sound H hs hfix _ hne p.proof p.bytes hpt hv
    rwa [hpi] at this

/-- every stored part carries the bytes of its index (the invariant behind the two theorems) -/
theorem stored_parts_genuine (hs : Nat) (hfix : ∀ x, (H x).length = hs) (hsz : 0 < size) (hd : data ≠ []) (seq : List Part) (i : Nat) (q : Part)
    (hq : (run H (receiver H data size) seq).parts[i]? = some (some q)) :
    (q.index = i ∧ (split data size)[i]? = some q.bytes) ∨ ∃ a b, a ≠ b ∧ H a = H b := by
  have hne : split data size ≠ [] := by
    intro h
    have := split_length data size
    rw [h] at this
    have h0 := (numParts_eq_zero data.length size hsz).mp this.symm
    exact hd (List.length_eq_zero_iff.mp h0)
  rcases run_inv H hs hfix (split data size) hne seq (receiver H data size) (inv_newFromHeader _ _) with hcol | hinv
  · exact Or.inr hcol
  · exact Or.inl (hinv.good i q hq)

/-- **genuine_always_addable**: after any sequence of arbitrary parts, offering the sender's part
`i` either adds it, or reports "already present" because slot `i` is taken (by a part which, by
`stored_parts_genuine`, has the same bytes ∨ collision). No bogus part can block it. -/
theorem genuine_always_addable (seq : List Part) (i : Nat) (g : Part)
    (hg : IsGenuine H (split data size) i g) :
    (addPart H (run H (receiver H data size) seq) g).2 = .added ∨
    ((addPart H (run H (receiver H data size) seq) g).2 = .alreadyPresent ∧
      ∃ q, (run H (receiver H data size) seq).parts[i]? = some (some q)) := by
  have hsh := run_shape H (split data size) (root H (split data size)) seq _
    (show Shape _ _ (receiver H data size) from ⟨rfl, rfl, by simp [receiver, newFromHeader]⟩)
  exact addPart_genuine H (split data size) _ i g hsh hg

/-- **reassembly under any schedule**: any sequence of arbitrary parts in which every genuine part
occurs at least once (any order, duplicates, bogus parts in between) ends complete and reads back
exactly `data` — or `H` has a collision. -/
theorem reassembly_any_schedule (hs : Nat) (hfix : ∀ x, (H x).length = hs) (hsz : 0 < size) (hd : data ≠ []) (seq : List Part)
    (hall : ∀ i, i < (split data size).length → ∃ g ∈ seq, IsGenuine H (split data size) i g) :
    (isComplete (run H (receiver H data size) seq) = true ∧
      reader (run H (receiver H data size) seq) = .ok data) ∨ ∃ a b, a ≠ b ∧ H a = H b := by
  have hne : split data size ≠ [] := by
    intro h
    have := split_length data size
    rw [h] at this
    have h0 := (numParts_eq_zero data.length size hsz).mp this.symm
    exact hd (List.length_eq_zero_iff.mp h0)
  have hsh : Shape (split data size) (root H (split data size)) (receiver H data size) :=
    ⟨rfl, rfl, by simp [receiver, newFromHeader]⟩
  rcases run_inv H hs hfix (split data size) hne seq (receiver H data size) (inv_newFromHeader _ _) with hcol | hinv
  · exact Or.inr hcol
  · left
    have hc : isComplete (run H (receiver H data size) seq) = true := by
      apply complete_of_all_filled _ _ _ hinv
      intro i hi
      obtain ⟨g, hm, hg⟩ := hall i hi
      exact run_filled_of_mem H _ seq _ i g hsh hm hg
    refine ⟨hc, ?_⟩
    have := reader_of_inv (split data size) hne _ _ hinv hc
    rwa [join_split' data size hsz] at this

/-- **order_independent**: a sequence consisting only of genuine parts — any permutation, with
duplicates — that contains each of them ends complete with exactly the original bytes (no
collision alternative: nothing adversarial is involved). -/
theorem order_independent (hsz : 0 < size) (hd : data ≠ []) (seq : List Part)
    (hgen : ∀ g ∈ seq, ∃ i, IsGenuine H (split data size) i g)
    (hall : ∀ i, i < (split data size).length → ∃ g ∈ seq, IsGenuine H (split data size) i g) :
    isComplete (run H (receiver H data size) seq) = true ∧
      reader (run H (receiver H data size) seq) = .ok data := by
  have hne : split data size ≠ [] := by
    intro h
    have := split_length data size
    rw [h] at this
    have h0 := (numParts_eq_zero data.length size hsz).mp this.symm
    exact hd (List.length_eq_zero_iff.mp h0)
  have hsh : Shape (split data size) (root H (split data size)) (receiver H data size) :=
    ⟨rfl, rfl, by simp [receiver, newFromHeader]⟩
  have hinv : ∀ (s : List Part) (ps : PartSet), (∀ g ∈ s, ∃ i, IsGenuine H (split data size) i g) →
      Inv (split data size) (root H (split data size)) ps →
      Inv (split data size) (root H (split data size)) (run H ps s) := by
    intro s
    induction s with
    | nil => intro ps _ h; exact h
    | cons p rest ih =>
      intro ps hg h
      simp only [run, List.foldl_cons]
      apply ih
      · intro g hm; exact hg g (List.mem_cons_of_mem _ hm)
      · obtain ⟨i, hgi, hgb, _⟩ := hg p (List.mem_cons_self)
        exact addPart_inv_core H _ _ ps p h (fun _ => by rw [hgi]; exact hgb)
  have hI := hinv seq (receiver H data size) hgen (inv_newFromHeader _ _)
  have hc : isComplete (run H (receiver H data size) seq) = true := by
    apply complete_of_all_filled _ _ _ hI
    intro i hi
    obtain ⟨g, hm, hg⟩ := hall i hi
    exact run_filled_of_mem H _ seq _ i g hsh hm hg
  refine ⟨hc, ?_⟩
  have := reader_of_inv (split data size) hne _ _ hI hc
  rwa [join_split' data size hsz] at this

/-- the count never disagrees with the slots: `IsComplete` is true exactly when every slot is
filled (rules out a mis-counted `count` or `>=`) — or `H` has a collision -/
theorem complete_iff_all_filled (hs : Nat) (hfix : ∀ x, (H x).length = hs) (hsz : 0 < size) (hd : data ≠ []) (seq : List Part) :
    (isComplete (run H (receiver H data size) seq) = true ↔
      ∀ i, i < (split data size).length → ∃ q, (run H (receiver H data size) seq).parts[i]? = some (some q))
    ∨ ∃ a b, a ≠ b ∧ H a = H b := by
  have hne : split data size ≠ [] := by
    intro h
    have := split_length data size
    rw [h] at this
    have h0 := (numParts_eq_zero data.length size hsz).mp this.symm
    exact hd (List.length_eq_zero_iff.mp h0)
  rcases run_inv H hs hfix (split data size) hne seq (receiver H data size) (inv_newFromHeader _ _) with hcol | hinv
  · exact Or.inr hcol
  · left
    constructor
    · intro hc i hi
      have hcnt : (run H (receiver H data size) seq).parts.countP (·.isSome) =
          (run H (receiver H data size) seq).parts.length := by
        rw [← hinv.count, hinv.len, ← hinv.total]
        simpa [isComplete] using hc
      have hall := List.countP_eq_length.mp hcnt
      have hi' : i < (run H (receiver H data size) seq).parts.length := by rw [hinv.len]; exact hi
      have := hall _ (List.getElem_mem hi')
      cases hq : (run H (receiver H data size) seq).parts[i] with
      | none => rw [hq] at this; simp at this
      | some q => exact ⟨q, by rw [List.getElem?_eq_getElem hi', hq]⟩
    · intro hall
      exact complete_of_all_filled _ _ _ hinv hall

end partset

/-- the sender's side: for non-empty `data`, `NewPartSetFromData` produces a complete set whose
header is `(ceil(len/size), root (split data size))` — the header `receiver` starts from — and
whose reader yields `data`; its parts are the genuine parts. (`H` with 32-byte outputs, so that
`common.BytesToHash` is the identity on the root.) -/
theorem newFromData_commits (H : Bytes → Bytes) (h32 : ∀ x, (H x).length = 32) (data : Bytes) (size : Nat)
    (hsz : 0 < size) (hd : data ≠ []) :
    ∃ ps, newFromData H data size = .ok ps ∧ ps.total = (split data size).length ∧
      ps.hash = root H (split data size) ∧ ps.parts = genuineParts H data size ∧
      isComplete ps = true := by
  have hne : split data size ≠ [] := by
    intro h
    have := split_length data size
    rw [h] at this
    have h0 := (numParts_eq_zero data.length size hsz).mp this.symm
    exact hd (List.length_eq_zero_iff.mp h0)
  refine ⟨_, by simp [newFromData, show size ≠ 0 by omega, hne]; rfl, rfl, ?_, rfl, by simp [isComplete]⟩
  obtain ⟨z, hz⟩ := rootAux_isHash H _ (split data size) hne (Nat.le_refl _)
  have hl : (root H (split data size)).length = 32 := by unfold root; rw [hz]; exact h32 _
  simp [bytesToHash, hl]

/-- `NewPartSetFromData` on empty data (no parts) panics in the code (nil root node); so does a
zero part size -/
theorem newFromData_empty_panics (H : Bytes → Bytes) (size : Nat) :
    newFromData H [] size = .panic := by
  by_cases h : size = 0
  · simp [newFromData, h]
  · have : (size - 1) / size = 0 := Nat.div_eq_of_lt (by omega)
    simp [newFromData, h, split, numParts, this]


/-! ## the validation cache (known finding F8) -/

/-- **F8**: once a block has been validated, EVERY block with the same header is accepted while
the cache is warm, whatever its body (last commit height/round/block id, which no hash covers;
or transactions/signatures/evidence if the caller did not run `ValidateBasic` itself) and whatever
`validateBlock` would say about it. -/
theorem validate_cache_counterexample {Hdr Body : Type} (hash : Hdr → Bytes)
    (valid : ValidateCache.Block Hdr Body → Bool) (b b' : ValidateCache.Block Hdr Body)
    (hsame : b'.hdr = b.hdr) (hv : valid b = true) :
    (ValidateCache.validateBlock hash valid
      (ValidateCache.validateBlock hash valid [] b).2 b').1 = true := by
  simp [ValidateCache.validateBlock, hv, hsame]

/-- the part that holds: with a cold cache `ValidateBlock` is `validateBlock` -/
theorem validate_cache_partial {Hdr Body : Type} (hash : Hdr → Bytes)
    (valid : ValidateCache.Block Hdr Body → Bool) (b : ValidateCache.Block Hdr Body) :
    (ValidateCache.validateBlock hash valid [] b).1 = valid b := by
  cases h : valid b <;> simp [ValidateCache.validateBlock, h]

/-- what the property needs (and F8 breaks): acceptance implies validity, for any cache that was
filled by `ValidateBlock` itself. False as `validate_cache_counterexample` shows. -/
def validate_cache_sound_Statement {Hdr Body : Type} (hash : Hdr → Bytes)
    (valid : ValidateCache.Block Hdr Body → Bool) : Prop :=
  ∀ (seq : List (ValidateCache.Block Hdr Body)) (b : ValidateCache.Block Hdr Body),
    (ValidateCache.validateBlock hash valid
      (seq.foldl (fun c x => (ValidateCache.validateBlock hash valid c x).2) []) b).1 = true →
    valid b = true

/-! ## the block hash binds every header field; the commit hash binds the signature list

`KV.HeaderWire` models the exact bytes `Header.Hash()` and `Commit.Hash()` hash (tied bit-exactly
to the code by the differential, including the Keccak-256 / SHA-256 Merkle results). -/

/-- **injectivity of the header's wire encoding**: two headers with the same wire bytes are equal
in all 13 fields (height, time = (seconds, nanos), num_txs, gas_limit, the three components of
last_block_id, proposer_address and the seven hashes). No range hypothesis is needed beyond what
`Marshal` itself enforces (a valid protobuf timestamp — otherwise `Header.Hash` panics). -/
theorem header_wire_injective (a b : HeaderWire.Header) (x : Bytes)
    (ha : HeaderWire.headerBytes a = some x) (hb : HeaderWire.headerBytes b = some x) : a = b :=
  HeaderWire.headerBytes_inj ha hb

/-- **header_hash_binds**: equal block hashes ⇒ equal header fields, or an explicit collision of
the hash function `K` (Keccak-256 in the code). -/
theorem header_hash_binds (K : Bytes → Bytes) (a b : HeaderWire.Header) (d : Bytes)
    (ha : HeaderWire.blockHash K a = some d) (hb : HeaderWire.blockHash K b = some d) :
    a = b ∨ ∃ x y, x ≠ y ∧ K x = K y := by
  unfold HeaderWire.blockHash at ha hb
  cases hxa : HeaderWire.headerBytes a with
  | none => rw [hxa] at ha; simp at ha
  | some xa =>
    cases hxb : HeaderWire.headerBytes b with
    | none => rw [hxb] at hb; simp at hb
    | some xb =>
      rw [hxa] at ha; rw [hxb] at hb
      simp only [Option.map_some, Option.some.injEq] at ha hb
      by_cases he : xa = xb
      · left; subst he; exact HeaderWire.headerBytes_inj hxa hxb
      · right; exact ⟨xa, xb, he, ha.trans hb.symm⟩

/-- the hash is defined (no panic) exactly for headers with a valid protobuf timestamp -/
theorem header_hash_defined (K : Bytes → Bytes) (h : HeaderWire.Header) :
    (∃ d, HeaderWire.blockHash K h = some d) ↔ h.time.valid = true := by
  unfold HeaderWire.blockHash HeaderWire.headerBytes
  by_cases hv : h.time.valid = true <;> simp [hv]

/-- injectivity of a commit signature's wire encoding (flag, validator address, timestamp,
signature) -/
theorem commit_sig_wire_injective (a b : HeaderWire.CommitSig) (x : Bytes)
    (ha : HeaderWire.sigBytes a = some x) (hb : HeaderWire.sigBytes b = some x) : a = b :=
  HeaderWire.sigBytes_inj ha hb

/-- **commit_hash_binds_sigs**: equal `Commit.Hash()` of two non-empty signature lists ⇒ the
lists are equal (same length, every flag / address / timestamp / signature), or an explicit
collision of the Merkle hash `H`. (The commit's own height, round and block id are *not* under
this hash: they are bound by `VerifyCommit`, see the oracle and findings F8/F22.) -/
theorem commit_hash_binds_sigs (H : Bytes → Bytes) (h32 : ∀ x, (H x).length = 32)
    (xs ys : List HeaderWire.CommitSig) (hx : xs ≠ []) (hy : ys ≠ []) (d : Bytes)
    (ha : HeaderWire.commitHash H xs = some d) (hb : HeaderWire.commitHash H ys = some d) :
    xs = ys ∨ ∃ a b, a ≠ b ∧ H a = H b := by
  unfold HeaderWire.commitHash at ha hb
  cases hxa : HeaderWire.allSigBytes xs with
  | none => rw [hxa] at ha; simp at ha
  | some bx =>
    cases hxb : HeaderWire.allSigBytes ys with
    | none => rw [hxb] at hb; simp at hb
    | some by' =>
      rw [hxa] at ha; rw [hxb] at hb
      simp only [Option.map_some, Option.some.injEq] at ha hb
      have nx := HeaderWire.allSigBytes_ne_nil hx hxa
      have ny := HeaderWire.allSigBytes_ne_nil hy hxb
      have len32 : ∀ l : List Bytes, l ≠ [] → bytesToHash (root H l) = root H l := by
        intro l hl
        obtain ⟨z, hz⟩ := rootAux_isHash H _ l hl (Nat.le_refl _)
        have : (root H l).length = 32 := by unfold root; rw [hz]; exact h32 _
        simp [bytesToHash, this]
      rw [len32 _ nx] at ha
      rw [len32 _ ny] at hb
      rcases root_inj H 32 h32 bx by' nx ny (ha.trans hb.symm) with he | hc
      · left; subst he; exact HeaderWire.allSigBytes_inj xs ys _ hxa hxb
      · exact Or.inr hc

/-- the two composed: the block hash binds the signatures of the last commit (through
`Header.LastCommitHash`, which `Block.ValidateBasic` compares with `LastCommit.Hash()`), short of
a collision of `K` or of `H`. -/
theorem block_hash_binds_last_commit_sigs (K H : Bytes → Bytes) (h32 : ∀ x, (H x).length = 32)
    (a b : HeaderWire.Header) (d : Bytes)
    (ha : HeaderWire.blockHash K a = some d) (hb : HeaderWire.blockHash K b = some d)
    (xs ys : List HeaderWire.CommitSig) (hx : xs ≠ []) (hy : ys ≠ [])
    (hxa : HeaderWire.commitHash H xs = some a.lastCommitHash)
    (hyb : HeaderWire.commitHash H ys = some b.lastCommitHash) :
    xs = ys ∨ (∃ x y, x ≠ y ∧ K x = K y) ∨ ∃ x y, x ≠ y ∧ H x = H y := by
  rcases header_hash_binds K a b d ha hb with he | hc
  · subst he
    rcases commit_hash_binds_sigs H h32 xs ys hx hy _ hxa hyb with h1 | h2
    · exact Or.inl h1
    · exact Or.inr (Or.inr h2)
  · exact Or.inr (Or.inl hc)

/-- build-time evaluation (compiled, not a kernel proof): the wire bytes and Keccak-256 of a small
header, and two headers differing in one field -/
def headerCheck : Bool :=
  let z : HeaderWire.Header := ⟨1, ⟨0, 0⟩, 0, 0, ⟨[], 0, []⟩, [], [], [], [], [], [], [], []⟩
  decide ((HeaderWire.headerBytes z).map toHex = some "180122002a021200") &&
  decide ((HeaderWire.blockHash keccak256 z).map toHex =
    some "840de47bc394db14e0b0c228ec2bfbc15ff381638575a4096ca7385048166b20") &&
  decide (HeaderWire.headerBytes { z with numTxs := 1 } ≠ HeaderWire.headerBytes z) &&
  decide (HeaderWire.headerBytes { z with time := ⟨253402300800, 0⟩ } = none)
#guard headerCheck

/-! ## non-vacuity -/

/-- the hypothesis on `H` is satisfiable by the hash the code uses -/
example : ∀ x, (sha256 x).length = 32 := sha256_length

/-- a toy fixed-length "hash" for kernel-evaluated examples -/
def toyH (x : Bytes) : Bytes := (x ++ [0, 0, 0, 0]).take 4

example : ∀ x, (toyH x).length = 4 := by intro x; simp [toyH]

def exData : Bytes := [1, 2, 3, 4, 5]
def exParts : List (Option Part) := genuineParts toyH exData 2
def exG (i : Nat) : Part := (exParts[i]?.getD none).getD ⟨0, [], ⟨0, 0, [], []⟩⟩

/-- three parts (2+2+1 bytes), offered out of order with a duplicate, a part moved to another index
and a truncated part in between: complete, and the reader gives back the data -/
example :
    let bogus1 : Part := { exG 1 with index := 0 }
    let bogus2 : Part := { exG 0 with bytes := [1] }
    let ps := run toyH (receiver toyH exData 2) [exG 2, bogus1, bogus2, exG 0, exG 2, exG 1]
    (split exData 2 = [[1, 2], [3, 4], [5]]) ∧ isComplete ps = true ∧ reader ps = .ok exData ∧
    (addPart toyH (receiver toyH exData 2) bogus1).2 = .invalidProof ∧
    (addPart toyH (receiver toyH exData 2) bogus2).2 = .invalidProof := by decide

/-- the same over SHA-256, evaluated by the compiler at build time (not a kernel proof) -/
def shaCheck : Bool :=
  let data : Bytes := [1, 2, 3, 4, 5]
  let parts := genuineParts sha256 data 2
  let g (i : Nat) : Part := (parts[i]?.getD none).getD ⟨0, [], ⟨0, 0, [], []⟩⟩
  let bogus : Part := { g 1 with index := 0 }
  let ps := run sha256 (receiver sha256 data 2) [g 2, bogus, g 0, g 2, g 1]
  isComplete ps && decide (reader ps = .ok data) &&
    decide ((addPart sha256 (receiver sha256 data 2) bogus).2 = .invalidProof) &&
    decide (toHex (root sha256 [[1, 2], [3, 4], [5]]) =
      "aa614f5dfd72b52087780d39f9c0593c14207bcc72d7b13cb7a468e1767ef8ff")
#guard shaCheck

end KV.Props.C13
