import KV.Proofs.Evm
import KV.Proofs.EvmJump
import KV.Proofs.EvmWord
/-!
# C10 — KVM executes bytecode with reference EVM semantics and never crashes (partial)

Theorems about the single-frame model `KV.Evm` (`KV/Model/Evm.lean`), which the harness
`harness/overlay/kvm/c10_test.go` ties to `/repo/kvm` (string-equal results incl. gas left, both
instruction sets, plain and static call) and, independently, to go-ethereum v1.9.15.

Proved here, for every code, input, environment, storage and gas:
1. `table_consistent*` – the jump tables: stack limits = `minStack/maxStack` of the arities, the
   arities are the ones the semantics uses, state-modifying kinds are flagged `writes`, the
   `halts/jumps/reverts/returns/writes` flags sit on the intended opcodes only;
2. `stack_bound` – the stack never exceeds 1024 items and no operation pops more than there is;
3. `run_total_gas` – the frame ends with a result or an error value (never the fuel error) and
   `gasLeft ≤ gas`; every continuing step strictly decreases the gas;
4. `static_no_write` – with `readOnly` storage and logs are unchanged whatever the code;
5. `revert_no_change` – a frame that does not end with success returns the original storage, no logs;
6. `jumpdest_correct` – `validJumpdest` ⇔ the byte is `JUMPDEST` and is not inside push data;
7. word-level specifications of `SDIV/SMOD/SIGNEXTEND/SAR/BYTE/ADDMOD/MULMOD/EXP`.

Not carried (differential only): nested frames (`CALL*`, `CREATE*`), account-reading opcodes, exact
dynamic gas of the call/create family, equality of the hand-written `opInfo` with the Go tables
(to be closed by the bridge theorem against the regenerated table).
-/
namespace KV.Evm

/-! ## (1) jump tables -/

/-- every entry of both instruction sets satisfies `entryOK` (see `KV/Proofs/EvmTable.lean`) -/
theorem table_consistent (post : Bool) (op : UInt8) (i : OpInfo) (h : opInfo post op = some i) :
    entryOK op.toNat i = true := entryOK_of_opInfo h

/-- the readable consequences used below -/
theorem table_consistent_stack (post : Bool) (op : UInt8) (i : OpInfo) (h : opInfo post op = some i) :
    i.minStack = i.pops ∧ i.maxStack = 1024 + i.pops - i.pushes ∧ i.pushes ≤ i.pops + 1 ∧
    (i.kind.isUnsupported = false → i.kind.pops = i.pops ∧ i.kind.pushes = i.pushes) ∧
    i.kind.wf = true ∧ (i.kind.modifies = true → i.writes = true) := by
  have e := entryOK_of_opInfo h
  simp only [entryOK, Bool.and_eq_true, beq_iff_eq, decide_eq_true_eq, Bool.or_eq_true, Bool.not_eq_true', and_assoc] at e
  obtain ⟨h1, h2, h3, h4, h5, h6, _⟩ := e
  refine ⟨h1, h2, h3, ?_, h5, ?_⟩
  · intro hu; rcases h4 with h4 | h4
    · rw [hu] at h4; cases h4
    · exact h4
  · intro hm; rcases h6 with h6 | h6
    · rw [hm] at h6; cases h6
    · exact h6

/-- the two instruction sets differ exactly by CHAINID (0x46): undefined before Galaxias -/
theorem table_sets_differ : setsDiffer = true := setsDiffer_ok

/-! ## (2) stack bound -/

/-- one step: the operation finds its operands (no underflow), and the stack stays within 1024 -/
theorem step_stack {env : Env} {s s' : State} (h : step env s = .next s') :
    ∃ i, opInfo env.post (getOp env.code s.pc) = some i ∧ i.pops ≤ s.stack.length ∧
      s'.stack.length + i.pops = s.stack.length + i.pushes ∧ s'.stack.length ≤ 1024 := by
  obtain ⟨x⟩ := step_next_inv h
  obtain ⟨h1, h2, h3, h4, h5, _⟩ := table_consistent_stack _ _ _ x.hinfo
  obtain ⟨hp, hq⟩ := h4 x.hsup
  have hmin := x.hmin
  have hmax := x.hmax
  rw [h1] at hmin
  rw [h2] at hmax
  have hargs : (s.stack.take x.info.pops).length = x.info.kind.pops := by
    rw [List.length_take, hp]; omega
  have hlen := exec_results_length h5 hargs x.hexec
  refine ⟨x.info, x.hinfo, hmin, ?_, ?_⟩
  · rw [x.hstack, List.length_append, List.length_drop, hlen, hq]; omega
  · rw [x.hstack, List.length_append, List.length_drop, hlen, hq]; omega

/-- states reachable from `s` by continuing steps -/
inductive Reach (env : Env) (s : State) : State → Prop
  | refl : Reach env s s
  | step {t u : State} : Reach env s t → step env t = .next u → Reach env s u

/-- **stack_bound**: in every run, for every code, the stack never exceeds 1024 items … -/
theorem stack_bound {env : Env} {s t : State} (h0 : s.stack.length ≤ 1024) (h : Reach env s t) :
    t.stack.length ≤ 1024 := by
  induction h with
  | refl => exact h0
  | step _ hs _ => obtain ⟨_, _, _, _, hb⟩ := step_stack hs; exact hb

/-- … and never underflows: whenever an operation is executed its operands are on the stack -/
theorem stack_no_underflow {env : Env} {s t u : State} (_h : Reach env s t) (hs : step env t = .next u) :
    ∃ i, opInfo env.post (getOp env.code t.pc) = some i ∧ i.pops ≤ t.stack.length := by
  obtain ⟨i, hi, hp, _, _⟩ := step_stack hs
  exact ⟨i, hi, hp⟩

theorem stack_bound_run {env : Env} {storage : Storage} {gas : Nat} {t : State}
    (h : Reach env (initState storage gas) t) : t.stack.length ≤ 1024 :=
  stack_bound (by simp [initState]) h

/-! ## (3) termination and gas -/

/-- every continuing step costs at least one unit of gas -/
theorem step_gas_lt {env : Env} {s s' : State} (h : step env s = .next s') : s'.gas < s.gas := by
  obtain ⟨x⟩ := step_next_inv h
  have e := entryOK_of_opInfo x.hinfo
  simp only [entryOK, Bool.and_eq_true, beq_iff_eq, decide_eq_true_eq, Bool.or_eq_true, Bool.not_eq_true', and_assoc] at e
  obtain ⟨_, _, _, _, _, _, _, _, _, _, _, _, hpaid, _⟩ := e
  have hg := x.hgas
  have hc := x.hcharge
  rw [x.hgas']
  rcases hpaid with (hpaid | hpaid) | hpaid
  · omega
  · exact absurd x.hexec (exec_stops hpaid)
  · obtain ⟨hk, hd⟩ := hpaid
    have hdyn := x.hdyn
    simp only [dynGasOf, hd, if_true] at hdyn
    have := dynGas_paid hk hdyn
    have hch : 1 ≤ chargeOf x.info env.post x.dynCost := by
      simp only [chargeOf, hd, if_true]; split <;> omega
    omega

theorem runLoop_gas (env : Env) : ∀ (fuel : Nat) (s : State), s.gas < fuel →
    (runLoop env fuel s).status ≠ .err .fuel ∧ (runLoop env fuel s).final.gas ≤ s.gas := by
  intro fuel
  induction fuel with
  | zero => intro s h; omega
  | succ f ih =>
    intro s h
    simp only [runLoop]
    split
    · rename_i hh hs
      exact ⟨step_halt_status hs, (step_halt_inv hs).1⟩
    · rename_i s' hs
      have hlt := step_gas_lt hs
      obtain ⟨a, b⟩ := ih s' (by omega)
      exact ⟨a, by omega⟩

/-- **run_total_gas**: the frame always ends with a result or an error value (the fuel `gas + 1` is
never exhausted), and the gas handed back does not exceed the gas given -/
theorem run_total_gas (env : Env) (storage : Storage) (gas : Nat) :
    (call env storage gas).status ≠ .err .fuel ∧ (call env storage gas).gasLeft ≤ gas := by
  unfold call run
  split
  · simp
  · obtain ⟨a, b⟩ := runLoop_gas env (gas + 1) (initState storage gas) (by simp [initState])
    simp only [initState] at b
    unfold finish
    split <;> rename_i hst
    · exact ⟨by simp, b⟩
    · exact ⟨by simp, b⟩
    · refine ⟨?_, by simp⟩
      intro hc; injection hc with hc; subst hc; exact a hst
    · exact ⟨by simp, by simp⟩

/-! ## (4) static call -/

theorem step_static {env : Env} {s s' : State} (hro : env.readOnly = true) (h : step env s = .next s') :
    s'.storage = s.storage ∧ s'.logs = s.logs := by
  obtain ⟨x⟩ := step_next_inv h
  obtain ⟨_, _, _, _, _, h6⟩ := table_consistent_stack _ _ _ x.hinfo
  have hw : x.info.writes = false := by
    have := x.hro; rw [hro] at this; simpa using this
  have hm : x.info.kind.modifies = false := by
    cases hmm : x.info.kind.modifies
    · rfl
    · rw [h6 hmm] at hw; cases hw
  have := exec_frame hm x.hexec
  simpa [preExec] using this

theorem runLoop_static (env : Env) (hro : env.readOnly = true) : ∀ (fuel : Nat) (s : State),
    (runLoop env fuel s).final.storage = s.storage ∧ (runLoop env fuel s).final.logs = s.logs := by
  intro fuel
  induction fuel with
  | zero => intro s; simp [runLoop]
  | succ f ih =>
    intro s
    simp only [runLoop]
    split
    · rename_i hh hs
      have := step_halt_inv hs
      exact ⟨this.2.1, this.2.2.1⟩
    · rename_i s' hs
      obtain ⟨a, b⟩ := step_static hro hs
      obtain ⟨c, d⟩ := ih s'
      exact ⟨by rw [c, a], by rw [d, b]⟩

/-- **static_no_write**: with `readOnly` the storage and the logs are unchanged whatever the code -/
theorem static_no_write (env : Env) (storage : Storage) (gas fuel : Nat) (hro : env.readOnly = true) :
    (run env storage gas fuel).storage = storage ∧ (run env storage gas fuel).logs = [] := by
  unfold run
  split
  · simp
  · obtain ⟨a, b⟩ := runLoop_static env hro fuel (initState storage gas)
    have a' : (runLoop env fuel (initState storage gas)).final.storage = storage := a
    have b' : (runLoop env fuel (initState storage gas)).final.logs = [] := b
    unfold finish
    split <;> simp [a', b']

/-! ## (5) failed frames -/

/-- **revert_no_change**: a frame that ends in REVERT or in an error returns the original storage
and no logs (the `RevertToSnapshot` of `KVM.Call`) -/
theorem revert_no_change (env : Env) (storage : Storage) (gas fuel : Nat)
    (h : (run env storage gas fuel).status ≠ .ok) :
    (run env storage gas fuel).storage = storage ∧ (run env storage gas fuel).logs = [] := by
  unfold run at h ⊢
  split
  · rename_i hc; simp [hc] at h
  · rename_i hc
    simp only [hc] at h
    unfold finish at h ⊢
    split <;> rename_i hst
    · simp [hst] at h
    · simp
    · simp
    · simp

/-- an error (not a revert) also consumes all gas -/
theorem error_consumes_gas (env : Env) (storage : Storage) (gas fuel : Nat) (c : ErrClass)
    (h : (run env storage gas fuel).status = .err c) : (run env storage gas fuel).gasLeft = 0 := by
  unfold run at h ⊢
  split
  · rename_i hc; simp [hc] at h
  · rename_i hc
    simp only [hc] at h
    unfold finish at h ⊢
    split <;> rename_i hst <;> simp [hst] at h ⊢

/-! ## (6) jump destinations -/

/-- **jumpdest_correct**: for every byte string, `validJumpdest code d` holds exactly when `d` fits
64 bits, `code[d]` is JUMPDEST (0x5b) and `d` is not inside the immediate data of a PUSH found by
the linear scan from position 0 (`InstrStart` / `InsidePush`, `KV/Proofs/EvmJump.lean`) -/
theorem jumpdest_correct (code : Bytes) (d : Nat) :
    validJumpdest code d = true ↔ d < U64 ∧ code[d]? = some 0x5b ∧ ¬ InsidePush code d :=
  validJumpdest_iff code d

/-! ## (7) word-level specifications -/

/-- EXP is exponentiation modulo 2^256 (the interpreter uses square-and-multiply) -/
theorem exp_spec (b e : Word) (he : e < W) : wexp b e = b ^ e % W := wexp_spec b e he

/-- SDIV: truncated division of the two's complement values, wrapping for `MIN / -1`, 0 for 0 -/
theorem sdiv_int_spec (a b : Word) (ha : a < W) (hb : b < W) :
    sdiv a b = if b = 0 then 0 else ofInt (Int.tdiv (toInt a) (toInt b)) := sdiv_spec a b ha hb

/-- SMOD: remainder of the truncated division (sign of the dividend), 0 for divisor 0 -/
theorem smod_int_spec (a b : Word) (ha : a < W) (hb : b < W) :
    smod a b = if b = 0 then 0 else ofInt (Int.tmod (toInt a) (toInt b)) := smod_spec a b ha hb

/-- ADDMOD / MULMOD work on the unbounded sum / product (no wrap at 2^256), 0 for modulus 0 -/
theorem addmod_spec (a b m : Word) : addmod a b m = if m = 0 then 0 else (a + b) % m := rfl
theorem mulmod_spec (a b m : Word) : mulmod a b m = if m = 0 then 0 else (a * b) % m := rfl
theorem addmod_lt (a b m : Word) (hm : m ≠ 0) : addmod a b m < m := by
  unfold addmod; rw [if_neg hm]; exact Nat.mod_lt _ (Nat.pos_of_ne_zero hm)

/-- BYTE: byte `th` (0 = most significant) of the 32-byte big-endian representation -/
theorem byte_spec (th v : Word) : wbyte th v = if th < 32 then v / 256 ^ (31 - th) % 256 else 0 := by
  unfold wbyte
  split
  · rw [Nat.pow_mul]
  · rfl

/-- SIGNEXTEND, full statement (integer definition): proved only on instances below
(`signextend_examples`), otherwise covered by the differential against KVM and geth -/
def SignextendStatement : Prop :=
  ∀ (b x : Word), b < 32 → x < W →
    toInt (signextend b x) =
      (if x % 2 ^ (8 * (b + 1)) < 2 ^ (8 * (b + 1) - 1) then (x % 2 ^ (8 * (b + 1)) : Int)
       else (x % 2 ^ (8 * (b + 1)) : Int) - 2 ^ (8 * (b + 1)))

/-- the part of `SignextendStatement` that is proved: byte indices above 31 leave the word alone,
and the result keeps the low bits -/
theorem signextend_partial (b x : Word) :
    (31 < b → signextend b x = x) ∧
    (b ≤ 31 → x % 2 ^ (8 * (b + 1)) < 2 ^ (8 * (b + 1) - 1) → signextend b x = x % 2 ^ (8 * (b + 1))) := by
  unfold signextend
  constructor
  · intro h; rw [if_pos h]
  · intro h1 h2; rw [if_neg (Nat.not_lt.mpr h1)]; simp only; rw [if_neg (Nat.not_le.mpr h2)]

/-- SAR, full statement (floor division of the two's complement value by 2^s): proved on instances
below, otherwise covered by the differential -/
def SarStatement : Prop :=
  ∀ (s v : Word), v < W → toInt (wsar s v) = toInt v / (2 ^ s : Int)

/-- the proved part of `SarStatement`: non-negative values shift like SHR, negative values are
filled with ones once the shift reaches 256 -/
theorem sar_partial (s v : Word) :
    (isNeg v = false → wsar s v = if s ≥ 256 then 0 else v / 2 ^ s) ∧
    (isNeg v = true → s ≥ 256 → wsar s v = W - 1) := by
  unfold wsar
  constructor
  · intro h; rw [h]; simp
  · intro h hs; rw [h]; simp [hs]

/-! ## non-vacuity: small programs and operands evaluated by the kernel -/

def exEnv (code : Bytes) (ro : Bool := false) : Env :=
  { code, input := [1, 2, 3], hash := fun _ => [], post := true, readOnly := ro, address := 0xa1, caller := 0xee,
    origin := 0xee, callvalue := 0, gasprice := 7, coinbase := 0xcb, timestamp := 1, number := 2,
    gaslimit := 3, chainid := 24 }
-- PUSH1 2 PUSH1 3 ADD PUSH1 0 MSTORE PUSH1 32 PUSH1 0 RETURN
def progAdd : Bytes := [0x60, 2, 0x60, 3, 0x01, 0x60, 0, 0x52, 0x60, 32, 0x60, 0, 0xf3]
example : (call (exEnv progAdd) [] 1000).status = .ok ∧ (call (exEnv progAdd) [] 1000).ret = word32 5 ∧
    (call (exEnv progAdd) [] 1000).gasLeft = 1000 - 24 := by decide
-- PUSH1 7 PUSH1 1 SSTORE STOP : writes slot 1
def progStore : Bytes := [0x60, 7, 0x60, 1, 0x55, 0x00]
example : (call (exEnv progStore) [] 30000).storage = [(1, 7)] := by decide
example : (call (exEnv progStore true) [] 30000).status = .err .wprot := by decide
example : (call (exEnv progStore) [] 100).status = .err .oog ∧ (call (exEnv progStore) [] 100).storage = [] := by decide
-- jump into push data: PUSH1 4 JUMP PUSH1 0x5b STOP  (position 4 is the 0x5b inside the PUSH1)
example : (call (exEnv [0x60, 4, 0x56, 0x60, 0x5b, 0x00]) [] 1000).status = .err .jump := by decide
example : validJumpdest [0x60, 4, 0x56, 0x5b, 0x00] 3 = true := by decide
example : InsidePush [0x60, 0x5b] 1 := ⟨0, .zero, by decide, by decide, by decide⟩
-- word-level instances
example : sdiv (2 ^ 255) (W - 1) = 2 ^ 255 := by decide          -- MIN / -1 wraps
example : toInt (sdiv (W - 7) 2) = -3 := by decide               -- truncation toward zero
example : toInt (smod (W - 7) 2) = -1 := by decide
example : toInt (wsar 1 (W - 4)) = -2 ∧ wsar 256 (W - 4) = W - 1 ∧ wsar 300 5 = 0 := by decide
example : toInt (signextend 0 0xff) = -1 ∧ signextend 0 0x7f = 0x7f ∧ signextend 31 (W - 1) = W - 1 := by decide
example : wbyte 31 0x1234 = 0x34 ∧ wbyte 30 0x1234 = 0x12 ∧ wbyte 32 0x1234 = 0 := by decide
example : addmod (W - 1) 2 5 = 2 ∧ wmod (wadd (W - 1) 2) 5 = 1 := by decide   -- no wrap at 2^256
example : wexp 3 5 = 243 ∧ wexp 2 256 = 0 ∧ wexp 0 0 = 1 := by decide

end KV.Evm
