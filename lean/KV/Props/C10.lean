import KV.Proofs.Evm
import KV.Proofs.EvmFrame
import KV.Proofs.EvmJump
import KV.Proofs.EvmWord
/-!
# C10 — KVM executes bytecode with reference EVM semantics and never crashes (partial)

Theorems about the model `KV.Evm` (`KV/Model/Evm.lean`): the interpreter loop with nested CALL /
STATICCALL frames through the wrapper `callFrame` (`KVM.Call` / `StaticCall`), and `createFrame`
(`KVM.create`). The harness `harness/overlay/kvm/c10_test.go` ties it to `/repo/kvm` (string-equal
results incl. gas left and the whole world, both instruction sets, plain / static / nested / create)
and, independently, to go-ethereum v1.9.15.

Proved, for every code of every contract, input, environment, world and gas:
1. `table_consistent*` – the jump tables (see also `KV/Props/C10Gen.lean`: equal to the regenerated ones);
2. `stack_bound`, `stack_no_underflow` – every frame: stack ≤ 1024, operands present;
3. `run_total_gas`, `step_gas_decreases` – every frame at every depth ends with a result or an error
   value and hands back at most the gas given (nested calls included);
4. `static_propagates`, `static_step`, `static_no_write` – a STATICCALL'd frame and every frame below
   it leave storage, code, nonces, balances and logs of every account unchanged;
5. `failed_frame_reverts`, `revert_no_change` – a frame that ends in REVERT / error leaves the world
   exactly as before; `depth_limit`, `depth_1024_runs`; `code_size_limit`, `code_too_large_fails`;
6. `jumpdest_correct`, `jump_lands_on_jumpdest`, `pc_at_instr_start`;
7. integer specifications of `EXP, SDIV, SMOD, ADDMOD, MULMOD, BYTE, SIGNEXTEND, SAR`.

Not carried (differential only): `CALLCODE`/`DELEGATECALL`/`CREATE*` opcodes, precompiles,
account-reading opcodes, `RETURNDATA*`, refunds.
-/
namespace KV.Evm

/-! ## (1) jump tables -/

/-- every entry of both instruction sets satisfies `entryOK` (see `KV/Proofs/EvmTable.lean`) -/
theorem table_consistent (post : Bool) (op : UInt8) (i : OpInfo) (h : opInfo post op = some i) :
    entryOK op.toNat i = true := entryOK_of_opInfo h

/-- the readable consequences used below -/
theorem table_consistent_stack (post : Bool) (op : UInt8) (i : OpInfo) (h : opInfo post op = some i) :
    i.minStack = i.pops ∧ i.maxStack = 1024 + i.pops - i.pushes ∧ i.pushes ≤ i.pops + 1 ∧
    (i.kind.isUnsupported = false → i.kind.pops = i.pops ∧ i.kind.pushes = i.pushes) ∧
    i.kind.wf = true ∧ (i.kind.modifies = true → i.writes = true) := by
  obtain ⟨h1, h2, h3, h4, h5, h6, _⟩ := entry_facts h
  exact ⟨h1, h2, h3, h4, h5, h6⟩

/-- the two instruction sets differ exactly by CHAINID (0x46): undefined before Galaxias -/
theorem table_sets_differ : setsDiffer = true := setsDiffer_ok

/-! ## (2) stack bound (every frame, whatever the nested calls do) -/

/-- one step: the operation finds its operands (no underflow), and the stack stays within 1024 -/
theorem step_stack {sub : Sub} {env : Env} {s s' : State} (h : step sub env s = .next s') :
    ∃ i, opInfo env.post (getOp env.code s.pc) = some i ∧ i.pops ≤ s.stack.length ∧
      s'.stack.length + i.pops = s.stack.length + i.pushes ∧ s'.stack.length ≤ 1024 := by
  obtain ⟨x⟩ := step_next_inv h
  obtain ⟨h1, h2, h3, h4, h5, _⟩ := table_consistent_stack _ _ _ x.hinfo
  obtain ⟨hp, hq⟩ := h4 x.hsup
  have hmin := x.hmin
  have hmax := x.hmax
  rw [h1] at hmin
  rw [h2] at hmax
  have hargs : (s.stack.take x.info.pops).length = x.info.kind.pops := by
    rw [List.length_take, hp]; omega
  have hlen := exec_results_length h5 hargs x.hexec
  refine ⟨x.info, x.hinfo, hmin, ?_, ?_⟩
  · rw [x.hstack, List.length_append, List.length_drop, hlen, hq]; omega
  · rw [x.hstack, List.length_append, List.length_drop, hlen, hq]; omega

/-- states reachable from `s` by continuing steps of one frame -/
inductive Reach (sub : Sub) (env : Env) (s : State) : State → Prop
  | refl : Reach sub env s s
  | step {t u : State} : Reach sub env s t → step sub env t = .next u → Reach sub env s u

/-- **stack_bound**: in every run, for every code, the stack never exceeds 1024 items … -/
theorem stack_bound {sub : Sub} {env : Env} {s t : State} (h0 : s.stack.length ≤ 1024) (h : Reach sub env s t) :
    t.stack.length ≤ 1024 := by
  induction h with
  | refl => exact h0
  | step _ hs _ => obtain ⟨_, _, _, _, hb⟩ := step_stack hs; exact hb

/-- … and never underflows: whenever an operation is executed its operands are on the stack -/
theorem stack_no_underflow {sub : Sub} {env : Env} {s t u : State} (_h : Reach sub env s t)
    (hs : step sub env t = .next u) :
    ∃ i, opInfo env.post (getOp env.code t.pc) = some i ∧ i.pops ≤ t.stack.length := by
  obtain ⟨i, hi, hp, _, _⟩ := step_stack hs
  exact ⟨i, hi, hp⟩

theorem stack_bound_run {sub : Sub} {env : Env} {w : World} {gas : Nat} {t : State}
    (h : Reach sub env (initState w gas) t) : t.stack.length ≤ 1024 :=
  stack_bound (by simp [initState]) h

/-! ## (3) termination and gas -/

/-- every continuing step of a frame at any depth costs at least one unit of gas (a nested call
hands back at most what it was given, which the caller has paid for) -/
theorem step_gas_decreases (t : TxEnv) (n : Nat) {env : Env} {s s' : State}
    (h : step (callFrame t n) env s = .next s') : s'.gas < s.gas :=
  step_gas_lt (callFrame_gas t n) h

/-- **run_total_gas**: `KVM.Call` / `StaticCall` at every depth end with a result or an error value
(the fuel `gas + 1` of each frame is never exhausted) and hand back at most the gas given -/
theorem run_total_gas (t : TxEnv) (n : Nat) (w : World) (req : CallReq) :
    (callFrame t n w req).status ≠ .err .fuel ∧ (callFrame t n w req).gasLeft ≤ req.gas :=
  ⟨callFrame_nofuel t n w req, callFrame_gas t n w req⟩

/-! ## (4) static calls -/

/-- **static_propagates**: a STATICCALL'd frame, and every frame below a frame whose interpreter is
read-only (calls without value), cannot change storage, code, nonces, balances or logs, whatever the
code of any contract involved.  (`ObsEq`: every account reads the same, logs are the same; the only
difference allowed is that an absent account may have become an empty object — the `touch`.) -/
theorem static_propagates (t : TxEnv) (n : Nat) (w : World) (req : CallReq)
    (h : req.static = true ∨ (req.readOnly = true ∧ req.value = 0)) :
    ObsEq w (callFrame t n w req).world :=
  callFrame_static t n w req h

/-- inside a read-only frame a nested CALL / STATICCALL is handed a request that keeps the world
unchanged: the flag is inherited and value transfers are refused before -/
theorem static_step (t : TxEnv) (n : Nat) {env : Env} {s s' : State} (hro : env.readOnly = true)
    (h : step (callFrame t n) env s = .next s') : ObsEq s.world s'.world :=
  step_static (callFrame_static t n) hro h

/-- **static_no_write** (top level): `KVM.StaticCall` leaves storage and logs of every account alone -/
theorem static_no_write (t : TxEnv) (w : World) (req : CallReq) (h : req.static = true) (a : Word) :
    ((call t w req).world.get a).storage = (w.get a).storage ∧ ((call t w req).world.get a).balance = (w.get a).balance ∧
    (call t w req).world.logs = w.logs := by
  have := static_propagates t (1025 - 0) w req (Or.inl h)
  unfold call callAtDepth
  exact ⟨by rw [this.1], by rw [this.1], this.2⟩

/-! ## (5) failed frames, depth limit, code size limit -/

/-- **failed_frame_reverts** (interpreter-level analogue of C09's `callFrame_failure_restores`, for
the wrapper at every depth with the real interpreter inside): a frame that ends in REVERT or in an
error leaves the world exactly as it was before the call (`RevertToSnapshot`) -/
theorem failed_frame_reverts (t : TxEnv) (n : Nat) (w : World) (req : CallReq)
    (h : (callFrame t n w req).status ≠ .ok) : (callFrame t n w req).world = w :=
  callFrame_failed t n w req h

theorem revert_no_change (t : TxEnv) (w : World) (req : CallReq) (h : (call t w req).status ≠ .ok) :
    (call t w req).world = w := callFrame_failed t _ w req h

/-- an error other than the two checks made before the frame starts (depth, balance) consumes all gas -/
theorem error_consumes_gas (t : TxEnv) (n : Nat) (w : World) (req : CallReq) (c : ErrClass)
    (h : (callFrame t n w req).status = .err c) (hd : c ≠ .depth) (hb : c ≠ .balance) :
    (callFrame t n w req).gasLeft = 0 := callFrame_error_gas t n w req c h hd hb

/-- **depth_limit**: a call issued at depth > 1024 (`kvm.depth > CallCreateDepth`) fails with the
depth error without executing anything: world and gas come back untouched -/
theorem depth_limit (t : TxEnv) (d : Nat) (hd : d > 1024) (w : World) (req : CallReq) :
    callAtDepth t d w req = { world := w, gasLeft := req.gas, status := .err .depth, ret := [] } := by
  unfold callAtDepth
  have : 1025 - d = 0 := by omega
  rw [this]; rfl

/-- … and depth 1024 is still served: the wrapper there is a real frame (`callFrame t 1`) -/
theorem depth_1024_runs (t : TxEnv) : callAtDepth t 1024 = callFrame t 1 := rfl

theorem finishCreate_ok (snap : World) (addr : Word) (h : Halt) (hs : (finishCreate snap addr h).status = .ok) :
    (finishCreate snap addr h).ret.length ≤ maxCodeSize ∧
    ((finishCreate snap addr h).world.get addr).code = (finishCreate snap addr h).ret := by
  unfold finishCreate at hs ⊢
  cases hst : h.status <;> simp only [hst] at hs ⊢
  case ok =>
    unfold deposit at hs ⊢
    by_cases hm : h.ret.length > maxCodeSize
    · simp [hm] at hs
    · by_cases hg : h.final.gas < h.ret.length * createDataGas
      · simp [hm, hg] at hs
      · simp only [hm, hg, if_false]
        refine ⟨Nat.le_of_not_gt hm, ?_⟩
        rw [get_set]; simp
  all_goals (rw [settle_status, hst] at hs; cases hs)

theorem finishCreate_maxcode (snap : World) (addr : Word) (h : Halt)
    (hs : (finishCreate snap addr h).status = .err .maxcode) :
    (finishCreate snap addr h).world = snap ∧ (finishCreate snap addr h).gasLeft = 0 := by
  unfold finishCreate at hs ⊢
  cases hst : h.status <;> simp only [hst] at hs ⊢
  case ok =>
    unfold deposit at hs ⊢
    by_cases hm : h.ret.length > maxCodeSize
    · simp [hm]
    · by_cases hg : h.final.gas < h.ret.length * createDataGas
      · simp [hm, hg]
      · simp [hm, hg] at hs
  all_goals
    (have hf := settle_failed snap h (by rw [hs]; simp)
     exact ⟨hf.1, hf.2 _ hs⟩)

/-- **code_size_limit**: a successful creation deploys at most `MaxCodeSize` (39231) bytes, and the
deployed code is what the init code returned -/
theorem code_size_limit (t : TxEnv) (w : World) (caller addr : Word) (init : Bytes) (gas value : Nat)
    (h : (createFrame t w caller addr init gas value).status = .ok) :
    (createFrame t w caller addr init gas value).ret.length ≤ maxCodeSize ∧
    ((createFrame t w caller addr init gas value).world.get addr).code = (createFrame t w caller addr init gas value).ret := by
  unfold createFrame at h ⊢
  by_cases hb : (w.get caller).balance < value
  · rw [if_pos hb] at h; simp at h
  rw [if_neg hb] at h ⊢
  by_cases hc : ((bumpNonce w caller).get addr).nonce ≠ 0 ∨ ¬ ((bumpNonce w caller).get addr).code.isEmpty
  · rw [if_pos hc] at h; simp at h
  rw [if_neg hc] at h ⊢
  exact finishCreate_ok _ _ _ h

/-- a creation that returns more than `MaxCodeSize` bytes fails, consumes all gas and leaves only
the caller's nonce bump (the snapshot) -/
theorem code_too_large_fails (t : TxEnv) (w : World) (caller addr : Word) (init : Bytes) (gas value : Nat)
    (h : (createFrame t w caller addr init gas value).status = .err .maxcode) :
    (createFrame t w caller addr init gas value).world = bumpNonce w caller ∧
    (createFrame t w caller addr init gas value).gasLeft = 0 := by
  unfold createFrame at h ⊢
  by_cases hb : (w.get caller).balance < value
  · rw [if_pos hb] at h; simp at h
  rw [if_neg hb] at h ⊢
  by_cases hc : ((bumpNonce w caller).get addr).nonce ≠ 0 ∨ ¬ ((bumpNonce w caller).get addr).code.isEmpty
  · rw [if_pos hc]; exact ⟨rfl, rfl⟩
  rw [if_neg hc] at h ⊢
  exact finishCreate_maxcode _ _ _ h

/-! ## (6) jump destinations -/

/-- **jumpdest_correct**: for every byte string, `validJumpdest code d` holds exactly when `d` fits
64 bits, `code[d]` is JUMPDEST (0x5b) and `d` is not inside the immediate data of a PUSH found by
the linear scan from position 0 (`InstrStart` / `InsidePush`, `KV/Proofs/EvmJump.lean`) -/
theorem jumpdest_correct (code : Bytes) (d : Nat) :
    validJumpdest code d = true ↔ d < U64 ∧ code[d]? = some 0x5b ∧ ¬ InsidePush code d :=
  validJumpdest_iff code d

/-- **jump_lands_on_jumpdest**: after any step the program counter is either at the next
instruction (past the immediate bytes of a PUSH) or — only for an opcode flagged `jumps`, i.e. JUMP /
JUMPI — at a valid jump destination -/
theorem jump_lands_on_jumpdest {sub : Sub} {env : Env} {s s' : State} (h : step sub env s = .next s') :
    s'.pc = s.pc + 1 + pushLen (getOp env.code s.pc) ∨
    (validJumpdest env.code s'.pc = true ∧
      ∃ i, opInfo env.post (getOp env.code s.pc) = some i ∧ i.jumps = true) := by
  obtain ⟨x⟩ := step_next_inv h
  obtain ⟨_, _, _, _, _, _, _, hpl, hj, _⟩ := entry_facts x.hinfo
  rcases exec_pc x.hexec with hp | ⟨hk, hv⟩
  · left; rw [hpl]; exact hp
  · right; exact ⟨hv, x.info, x.hinfo, by rw [hj x.hsup]; exact hk⟩

theorem stop_at_zero (post : Bool) : ∃ i, opInfo post 0 = some i ∧ i.kind.stops = true := by
  cases post <;> exact ⟨_, rfl, rfl⟩

/-- **pc_at_instr_start** (run-level corollary): in every run the program counter only ever points
at an instruction boundary of the linear scan — push data is never executed, and a JUMP / JUMPI
lands only on a JUMPDEST that the analysis accepts -/
theorem pc_at_instr_start {sub : Sub} {env : Env} {w : World} {gas : Nat} {t : State}
    (h : Reach sub env (initState w gas) t) : InstrStart env.code t.pc := by
  induction h with
  | refl => exact InstrStart.zero
  | @step t u _ hs ih =>
    rcases jump_lands_on_jumpdest hs with hp | ⟨hv, _⟩
    · rw [hp]
      apply InstrStart.next ih
      -- beyond the end of the code the opcode is STOP, which does not continue
      rcases Nat.lt_or_ge t.pc env.code.length with hlt | hge
      · exact hlt
      · exfalso
        obtain ⟨x⟩ := step_next_inv hs
        have h0 : getOp env.code t.pc = 0 := by
          unfold getOp; rw [List.getElem?_eq_none hge]; rfl
        obtain ⟨i, hi, hst⟩ := stop_at_zero env.post
        have hx := x.hinfo
        rw [h0, hi] at hx
        injection hx with hx
        rw [hx] at hst
        exact exec_stops hst x.hexec
    · obtain ⟨_, hc, hni⟩ := (validJumpdest_iff _ _).mp hv
      have hlt : u.pc < env.code.length := by
        rcases Nat.lt_or_ge u.pc env.code.length with hlt | hge
        · exact hlt
        · rw [List.getElem?_eq_none hge] at hc; cases hc
      rcases start_or_inside hlt u.pc 0 InstrStart.zero (Nat.zero_le _) (by omega) with hs' | hi
      · exact hs'
      · exact absurd hi hni

/-! ## (7) word-level specifications -/

/-- EXP is exponentiation modulo 2^256 (the interpreter uses square-and-multiply) -/
theorem exp_spec (b e : Word) (he : e < W) : wexp b e = b ^ e % W := wexp_spec b e he

/-- SDIV: truncated division of the two's complement values, wrapping for `MIN / -1`, 0 for 0 -/
theorem sdiv_int_spec (a b : Word) (ha : a < W) (hb : b < W) :
    sdiv a b = if b = 0 then 0 else ofInt (Int.tdiv (toInt a) (toInt b)) := sdiv_spec a b ha hb

/-- SMOD: remainder of the truncated division (sign of the dividend), 0 for divisor 0 -/
theorem smod_int_spec (a b : Word) (ha : a < W) (hb : b < W) :
    smod a b = if b = 0 then 0 else ofInt (Int.tmod (toInt a) (toInt b)) := smod_spec a b ha hb

/-- ADDMOD / MULMOD work on the unbounded sum / product (no wrap at 2^256), 0 for modulus 0 -/
theorem addmod_spec (a b m : Word) : addmod a b m = if m = 0 then 0 else (a + b) % m := rfl
theorem mulmod_spec (a b m : Word) : mulmod a b m = if m = 0 then 0 else (a * b) % m := rfl
theorem addmod_lt (a b m : Word) (hm : m ≠ 0) : addmod a b m < m := by
  unfold addmod; rw [if_neg hm]; exact Nat.mod_lt _ (Nat.pos_of_ne_zero hm)

/-- BYTE: byte `th` (0 = most significant) of the 32-byte big-endian representation -/
theorem byte_spec (th v : Word) : wbyte th v = if th < 32 then v / 256 ^ (31 - th) % 256 else 0 := by
  unfold wbyte
  split
  · rw [Nat.pow_mul]
  · rfl

/-- SIGNEXTEND (integer definition): the low `8(b+1)` bits read as a two's complement number -/
def SignextendStatement : Prop :=
  ∀ (b x : Word), b < 32 → x < W →
    toInt (signextend b x) =
      (if x % 2 ^ (8 * (b + 1)) < 2 ^ (8 * (b + 1) - 1) then (x % 2 ^ (8 * (b + 1)) : Int)
       else (x % 2 ^ (8 * (b + 1)) : Int) - 2 ^ (8 * (b + 1)))

/-- **signextend_spec** -/
theorem signextend_spec : SignextendStatement := by
  intro b x hb _
  rw [signextend_nat b x hb]
  simp only [Int.natCast_emod, Int.natCast_pow]
  rfl

/-- SAR: floor division of the two's complement value by `2^s`, for every shift amount -/
def SarStatement : Prop :=
  ∀ (s v : Word), v < W → toInt (wsar s v) = toInt v / (2 ^ s : Int)

/-- **sar_spec** -/
theorem sar_int_spec : SarStatement := fun s v hv => sar_spec s v hv

/-! ## non-vacuity: small programs and operands evaluated by the kernel -/

def exT : TxEnv :=
  { hash := fun _ => [], post := true, origin := 0xee, gasprice := 7, coinbase := 0xcb, timestamp := 1, number := 2,
    gaslimit := 3, chainid := 24 }
def exWorld (code : Bytes) (codeB : Bytes := []) : World :=
  { accts := [(0xee, { balance := 1000, nonce := 0, code := [], storage := [] }),
              (0xa1, { balance := 10, nonce := 0, code := code, storage := [] }),
              (0xb2, { balance := 0, nonce := 0, code := codeB, storage := [] })], logs := [] }
def exReq (gas : Nat) (static : Bool := false) : CallReq :=
  { static, readOnly := false, caller := 0xee, addr := 0xa1, input := [1, 2, 3], gas, value := 0 }
-- PUSH1 2 PUSH1 3 ADD PUSH1 0 MSTORE PUSH1 32 PUSH1 0 RETURN
def progAdd : Bytes := [0x60, 2, 0x60, 3, 0x01, 0x60, 0, 0x52, 0x60, 32, 0x60, 0, 0xf3]
example : (call exT (exWorld progAdd) (exReq 1000)).status = .ok ∧ (call exT (exWorld progAdd) (exReq 1000)).ret = word32 5 ∧
    (call exT (exWorld progAdd) (exReq 1000)).gasLeft = 1000 - 24 := by decide
-- PUSH1 7 PUSH1 1 SSTORE STOP : writes slot 1
def progStore : Bytes := [0x60, 7, 0x60, 1, 0x55, 0x00]
example : ((call exT (exWorld progStore) (exReq 30000)).world.get 0xa1).storage = [(1, 7)] := by decide
example : (call exT (exWorld progStore) (exReq 30000 true)).status = .err .wprot := by decide
example : (call exT (exWorld progStore) (exReq 100)).status = .err .oog ∧
    ((call exT (exWorld progStore) (exReq 100)).world.get 0xa1).storage = [] := by decide
-- jump into push data: PUSH1 4 JUMP PUSH1 0x5b STOP  (position 4 is the 0x5b inside the PUSH1)
example : (call exT (exWorld [0x60, 4, 0x56, 0x60, 0x5b, 0x00]) (exReq 1000)).status = .err .jump := by decide
example : validJumpdest [0x60, 4, 0x56, 0x5b, 0x00] 3 = true := by decide
example : InsidePush [0x60, 0x5b] 1 := ⟨0, .zero, by decide, by decide, by decide⟩
-- nested frames: A = (0 0 0 0 0xb2 GAS STATICCALL) PUSH1 0 MSTORE RETURN(0,32): B = progStore fails inside
-- the static frame, A sees 0 and B's storage stays empty; with CALL (value 0) B's write succeeds
def progStatic : Bytes := [0x60, 0, 0x60, 0, 0x60, 0, 0x60, 0, 0x60, 0xb2, 0x5a, 0xfa, 0x60, 0, 0x52, 0x60, 32, 0x60, 0, 0xf3]
def progCall : Bytes := [0x60, 0, 0x60, 0, 0x60, 0, 0x60, 0, 0x60, 0, 0x60, 0xb2, 0x5a, 0xf1, 0x60, 0, 0x52, 0x60, 32, 0x60, 0, 0xf3]
example : (call exT (exWorld progStatic progStore) (exReq 100000)).ret = word32 0 ∧
    ((call exT (exWorld progStatic progStore) (exReq 100000)).world.get 0xb2).storage = [] := by decide
example : (call exT (exWorld progCall progStore) (exReq 100000)).ret = word32 1 ∧
    ((call exT (exWorld progCall progStore) (exReq 100000)).world.get 0xb2).storage = [(1, 7)] := by decide
-- creation: init code RETURN(0, 2) deploys two zero bytes, 400 gas for the deposit
example : (createFrame exT (exWorld []) 0xee 0x77 [0x60, 2, 0x60, 0, 0xf3] 1000 0).status = .ok ∧
    ((createFrame exT (exWorld []) 0xee 0x77 [0x60, 2, 0x60, 0, 0xf3] 1000 0).world.get 0x77).code = [0, 0] ∧
    (createFrame exT (exWorld []) 0xee 0x77 [0x60, 2, 0x60, 0, 0xf3] 1000 0).gasLeft = 1000 - 9 - 400 := by decide
-- word-level instances
example : sdiv (2 ^ 255) (W - 1) = 2 ^ 255 := by decide          -- MIN / -1 wraps
example : toInt (sdiv (W - 7) 2) = -3 := by decide               -- truncation toward zero
example : toInt (smod (W - 7) 2) = -1 := by decide
example : toInt (wsar 1 (W - 4)) = -2 ∧ wsar 256 (W - 4) = W - 1 ∧ wsar 300 5 = 0 := by decide
example : toInt (signextend 0 0xff) = -1 ∧ signextend 0 0x7f = 0x7f ∧ signextend 31 (W - 1) = W - 1 := by decide
example : wbyte 31 0x1234 = 0x34 ∧ wbyte 30 0x1234 = 0x12 ∧ wbyte 32 0x1234 = 0 := by decide
example : addmod (W - 1) 2 5 = 2 ∧ wmod (wadd (W - 1) 2) 5 = 1 := by decide   -- no wrap at 2^256
example : wexp 3 5 = 243 ∧ wexp 2 256 = 0 ∧ wexp 0 0 = 1 := by decide

end KV.Evm
