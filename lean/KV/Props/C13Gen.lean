import KV.Gen.C13
import KV.Model.Merkle
import KV.Model.PartSet
/-!
# C13 — bridge between the regenerated Go code (tie T1) and the model

`KV/Gen/C13.lean` is re-extracted from `lib/merkle/simple_tree.go`, `types/part_set.go` and
`types/params.go` on every check run.  These theorems state that the model's split point, part
count and `AddPart` guards are the ones the source contains now.
-/
namespace KV.Merkle.GenBridge
open KV

theorem gen_getSplitPoint_eq (n : Nat) (h1 : 1 ≤ n) (h2 : n < 2 ^ 62) :
    Gen.C13.getSplitPoint (n : Int) = some ((Merkle.splitPoint n : Nat) : Int) := by
  have hpow_le : 2 ^ Nat.log2 n ≤ n := Nat.log2_self_le (by omega)
  have hlog : Nat.log2 n < 62 := by
    rcases Nat.lt_or_ge (Nat.log2 n) 62 with h | h
    · exact h
    · have : 2 ^ 62 ≤ 2 ^ Nat.log2 n := Nat.pow_le_pow_right (by omega) h
      omega
  unfold Gen.C13.getSplitPoint Merkle.splitPoint
  have e0 : ¬ ((n : Int) < 1) := by omega
  simp only [e0, if_false]
  have e1 : U64.wrap (n : Int) = n := by unfold U64.wrap; omega
  have e2 : Bits.len n = ((Nat.log2 n + 1 : Nat) : Int) := by
    unfold Bits.len; simp; omega
  have e3 : I64.sub ((Nat.log2 n + 1 : Nat) : Int) 1 = (Nat.log2 n : Int) := by
    unfold I64.sub I64.wrap; omega
  have e4 : U64.wrap (Nat.log2 n : Int) = Nat.log2 n := by unfold U64.wrap; omega
  -- c = 2^log2 n as an integer, with its bounds
  have hcast : ((2 ^ Nat.log2 n : Nat) : Int) = (2 : Int) ^ Nat.log2 n := by simp
  have hc_le : (2 : Int) ^ Nat.log2 n ≤ (n : Int) := by rw [← hcast]; exact_mod_cast hpow_le
  have hc_pos : (0 : Int) < (2 : Int) ^ Nat.log2 n := by
    rw [← hcast]; exact_mod_cast Nat.two_pow_pos _
  have e5 : I64.shl 1 (Nat.log2 n) = (2 : Int) ^ Nat.log2 n := by
    unfold I64.shl I64.wrap
    generalize (2 : Int) ^ Nat.log2 n = c at hc_le hc_pos ⊢
    omega
  simp only [e1, e2, e3, e4, e5]
  by_cases hk : 2 ^ Nat.log2 n = n
  · have hk' : (2 : Int) ^ Nat.log2 n = (n : Int) := by rw [← hcast]; exact_mod_cast hk
    simp only [hk', hk, if_true]
    unfold I64.shr
    simp
  · have hk' : ¬ (2 : Int) ^ Nat.log2 n = (n : Int) := by
      intro hh; apply hk; rw [← hcast] at hh; exact_mod_cast hh
    simp only [hk', hk, if_false, hcast]

/-- `total := (uint32(len(data)) + partSize - 1) / partSize` of `NewPartSetFromData` is the model's
part count (no 32-bit wrap for data within the block size limit) -/
theorem gen_partSetTotal_eq (len size : Nat) (hs : 0 < size) (hlen : len + size < 2 ^ 32) :
    Gen.C13.partSetTotal (len : Int) size = PartSet.numParts len size := by
  unfold Gen.C13.partSetTotal PartSet.numParts U64.wrapN
  have e1 : ((len : Int) % 2 ^ 32).toNat = len := by omega
  simp only [e1]
  have e2 : (((len : Nat) : Int) + (size : Int)) % 2 ^ 32 = (len : Int) + size := by omega
  simp only [Int.ofNat_eq_coe, e2]
  have e3 : ((len : Int) + (size : Int)).toNat = len + size := by omega
  simp only [e3]
  have e4 : ((((len + size : Nat) : Int) - ((1 : Nat) : Int)) % 2 ^ 32).toNat = len + size - 1 := by omega
  simp only [e4]
  have e5 : Int.tdiv ((len + size - 1 : Nat) : Int) (size : Int) = (((len + size - 1) / size : Nat) : Int) := by
    rw [Int.tdiv_eq_ediv_of_nonneg (by omega)]; simp
  rw [e5]
  have hlt : (len + size - 1) / size < 2 ^ 32 := by
    have : (len + size - 1) / size ≤ len + size - 1 := Nat.div_le_self _ _
    omega
  generalize (len + size - 1) / size = q at hlt ⊢
  have e6 : (((q : Nat) : Int) % 2 ^ 32).toNat = q := by omega
  rw [e6]

/-- the three guards of `AddPart` before the Merkle verification -/
theorem gen_addPart_guards (i total pi pt : Nat) :
    Gen.C13.partIndexOutOfRange i total = decide (i ≥ total) ∧
    Gen.C13.partProofMismatch pi pt i total = decide (pi ≠ i ∨ pt ≠ total) := by
  constructor
  · rfl
  · simp [Gen.C13.partProofMismatch]

theorem gen_partSize : Gen.C13.BlockPartSizeBytes = 65536 ∧ Gen.C13.MaxBlockPartsCount = 1601 := by
  decide

end KV.Merkle.GenBridge
