import KV.Gen.C01
import KV.Model.VoteSet
/-!
# C01 — bridge between the regenerated `VerifyCommit` tally (tie T1) and the model

Block sync adopts a block only when `ValidatorSet.VerifyCommit` accepts the commit that comes
with it; agreement for syncing nodes (C01) therefore turns on *which signatures are counted*.
`KV/Gen/C01.lean` is re-extracted on every check run from `types/validator_set.go`
(`VerifyCommit`: size / height / block-id tests, the skip of absent signatures, the signature
test, the gate `blockID.Equal(commitSig.BlockID(commit.BlockID))` in front of the tally, the
increment, the threshold `total*2/3` and `got <= needed`) and `types/commit.go` (`CommitSig.Absent`,
`ForBlock`, the dispatch of `CommitSig.BlockID` on the flag, the flag values).

The theorems state that `verifyLoop`, `CommitSig.blockId` and `verifyCommit` of the model
`KV.VoteSet` (about which `Props/C02.lean` proves that an accepted commit is backed by more than
2/3 of the power signing exactly that block) are built from these regenerated pieces.
-/
namespace KV.VoteSet.CommitGenBridge
open KV KV.VoteSet

theorem gen_flags :
    Gen.C01.BlockIDFlagAbsent = flagAbsent ∧ Gen.C01.BlockIDFlagCommit = flagCommit ∧
    Gen.C01.BlockIDFlagNil = flagNil := by decide

/-- `CommitSig.BlockID`: only a `Commit` flag yields the commit's block id; an unknown flag panics -/
theorem commitSig_blockId_eq_gen (cs : CommitSig) (commitBid : BlockId) :
    cs.blockId commitBid =
      match Gen.C01.commitSigBlockIDCase cs.flag with
      | 0 => some .zero
      | 1 => some commitBid
      | 2 => some .zero
      | _ => none := by
  unfold CommitSig.blockId Gen.C01.commitSigBlockIDCase flagAbsent flagCommit flagNil
  by_cases h1 : cs.flag = 1
  · simp [h1]
  · by_cases h2 : cs.flag = 2
    · simp [h2]
    · by_cases h3 : cs.flag = 3 <;> simp [h1, h2, h3]

theorem gen_forBlock (cs : CommitSig) :
    Gen.C01.commitSigForBlock cs.flag = decide (cs.flag = flagCommit) ∧
    Gen.C01.commitSigAbsent cs.flag = decide (cs.flag = flagAbsent) := ⟨rfl, rfl⟩

/-- one iteration of the tally loop: absent signatures are skipped, a bad signature aborts, and
the validator's power is added **only** behind the regenerated block-id gate -/
theorem verifyLoop_step_gen (sv : SigCheck) (b : BlockId) (c : Commit) (i : Nat) (val : Val) (vals : List Val)
    (cs : CommitSig) (rest : List CommitSig) (acc : Int) :
    verifyLoop sv b c i (val :: vals) (cs :: rest) acc =
      if Gen.C01.tallySkipsAbsent cs.flag then verifyLoop sv b c (i + 1) vals rest acc
      else
        match cs.blockId c.bid with
        | none => .error .panic
        | some vb =>
          if Gen.C01.tallyRejectsSignature (sv val.addr ⟨precommitType, c.height, c.round, vb, cs.ts⟩ cs.sig) then
            .error (.wrongSig i)
          else if Gen.C01.tallyCounts (b.equal vb) then
            verifyLoop sv b c (i + 1) vals rest (Gen.C01.tallyAdd acc val.power)
          else verifyLoop sv b c (i + 1) vals rest acc := by
  rw [verifyLoop]
  unfold Gen.C01.tallySkipsAbsent Gen.C01.commitSigAbsent Gen.C01.tallyRejectsSignature Gen.C01.tallyCounts
    Gen.C01.tallyAdd flagAbsent
  simp only [decide_eq_true_eq]
  cases cs.blockId c.bid <;> rfl

/-- `VerifyCommit` around the loop: size, height and block-id tests, start value, threshold -/
theorem verifyCommit_eq_gen (sv : SigCheck) (vals : Vals) (b : BlockId) (h : Nat) (c : Commit) :
    verifyCommit sv vals b h (some c) =
      match c.validateBasic with
      | some e => some e
      | none =>
        if Gen.C01.verifyCommitWrongSize (vals.length : Int) (c.sigs.length : Int) then some .size
        else if Gen.C01.verifyCommitWrongHeight c.height h then some .height
        else if Gen.C01.verifyCommitWrongBlockID (b.equal c.bid) then some .blockId
        else
          match verifyLoop sv b c 0 vals c.sigs Gen.C01.tallyStart with
          | .error e => some e
          | .ok got =>
            if Gen.C01.notEnoughVotingPower (Gen.C01.verifyCommitGot got)
                (Gen.C01.verifyCommitNeeded (Gen.C01.votingPowerNeeded (totalPower vals))) then
              some (.power got (Gen.C01.votingPowerNeeded (totalPower vals)))
            else none := by
  unfold verifyCommit Gen.C01.verifyCommitWrongSize Gen.C01.verifyCommitWrongHeight Gen.C01.verifyCommitWrongBlockID
    Gen.C01.notEnoughVotingPower Gen.C01.verifyCommitGot Gen.C01.verifyCommitNeeded Gen.C01.tallyStart
  have e : Gen.C01.votingPowerNeeded (totalPower vals) = twoThirds (totalPower vals) := rfl
  rw [e]
  have hs : (((vals.length : Nat) : Int) ≠ ((c.sigs.length : Nat) : Int)) ↔ vals.length ≠ c.sigs.length := by omega
  simp only [hs, decide_eq_true_eq]
  cases c.validateBasic with
  | some e => rfl
  | none =>
    simp only []
    cases verifyLoop sv b c 0 vals c.sigs 0 <;> rfl

end KV.VoteSet.CommitGenBridge
